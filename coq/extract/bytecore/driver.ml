(* driver.ml — line protocol for the byte-core model.
   input  : <id> <kind> <args...>      output : <id> <result>            *)
open Util
module M = Model

let rec pos_of_int (i : int) : M.positive =
  if i = 1 then M.XH else if i land 1 = 0 then M.XO (pos_of_int (i lsr 1)) else M.XI (pos_of_int (i lsr 1))
let n_of_int (i : int) : M.n = if i = 0 then M.N0 else M.Npos (pos_of_int i)
let rec int_of_pos (p : M.positive) : int = match p with
  | M.XH -> 1 | M.XO q -> 2 * int_of_pos q | M.XI q -> 2 * int_of_pos q + 1
let int_of_n (x : M.n) : int = match x with M.N0 -> 0 | M.Npos p -> int_of_pos p
let rec int_of_nat (x : M.nat) : int = match x with M.O -> 0 | M.S y -> 1 + int_of_nat y
let rec nat_of_int (i : int) : M.nat = if i <= 0 then M.O else M.S (nat_of_int (i - 1))

let bytes_of_hex s = List.map n_of_int (ints_of_hex s)
let hex_of_bytes l = hex_of_ints (List.map int_of_n l)
let byteslist_of s = List.map (fun l -> List.map n_of_int l) (hexlist s)

(* ---- message specs (kind "render" / "renderlen"), see harness/bytex/spec.go ---- *)
let split2 c s = match String.index_opt s c with
  | Some i -> (String.sub s 0 i, String.sub s (i+1) (String.length s - i - 1))
  | None -> (s, "")
let fields s = split_on ':' s
let enc_of s = M.enc_of_name (List.map n_of_int (List.init (String.length s) (fun i -> Char.code s.[i])))
let prod_of chunks fail = { M.pchunks = byteslist_of chunks; M.pfail = (fail = "1") }
let kvlist s = (* khex=vhex&khex=vhex *)
  if s = "-" then [] else List.map (fun kv -> let (k, v) = split2 '=' kv in (bytes_of_hex k, bytes_of_hex v)) (split_on '&' s)

let parse_msg (spec : string) =
  let wenc = ref 113 and charset = ref [] and gen = ref [] and pre = ref [] and from = ref None
  and addr = ref [] and parts = ref [] and embeds = ref [] and attach = ref []
  and bm = ref [] and br = ref [] and ba = ref [] and date = ref [] and msgid = ref [] and rb = ref [] in
  List.iter (fun item ->
    if String.length item > 0 then begin
      let tag = item.[0] and body = String.sub item 1 (String.length item - 1) in
      match tag with
      | 'W' -> wenc := (if body = "b" then 98 else 113)
      | 'C' -> charset := bytes_of_hex body
      | 'G' -> let (k, v) = split2 '=' body in gen := !gen @ [(bytes_of_hex k, byteslist_of v)]
      | 'R' -> let (k, v) = split2 '=' body in pre := !pre @ [(bytes_of_hex k, bytes_of_hex v)]
      | 'F' -> from := Some (bytes_of_hex body)
      | 'A' -> let (k, v) = split2 '=' body in addr := !addr @ [(bytes_of_hex k, byteslist_of v)]
      | 'P' -> (match fields body with
                | [ct; en; cs; de; ch; fl] ->
                    parts := !parts @ [{ M.p_ctype = bytes_of_hex ct; M.p_charset = bytes_of_hex cs; M.p_enc = enc_of en;
                                          M.p_desc = bytes_of_hex de; M.p_prod = prod_of ch fl }]
                | _ -> failwith "bad P item")
      | 'E' | 'T' -> (match fields body with
                | [nm; mi; en; de; hd; ch; fl] ->
                    let f = { M.f_name = bytes_of_hex nm; M.f_mime = bytes_of_hex mi;
                              M.f_enc = (if en = "-" then None else Some (enc_of en));
                              M.f_desc = bytes_of_hex de; M.f_hdr = kvlist hd; M.f_prod = prod_of ch fl } in
                    if tag = 'E' then embeds := !embeds @ [f] else attach := !attach @ [f]
                | _ -> failwith "bad file item")
      | 'B' -> (match split_on ',' body with
                | [a; b; c] -> bm := bytes_of_hex a; br := bytes_of_hex b; ba := bytes_of_hex c
                | _ -> failwith "bad B item")
      | 'D' -> date := bytes_of_hex body
      | 'I' -> msgid := bytes_of_hex body
      | 'N' -> rb := byteslist_of body
      | _ -> failwith "bad item tag"
    end) (split_on ';' spec);
  ({ M.m_charset = !charset; M.m_wenc = n_of_int !wenc; M.m_gen = !gen; M.m_preform = !pre; M.m_from = !from;
     M.m_addr = !addr; M.m_parts = !parts; M.m_embeds = !embeds; M.m_attach = !attach;
     M.m_bmixed = !bm; M.m_brelated = !br; M.m_balt = !ba }, !date, !msgid, !rb)

let parse_sink (s : string) =
  if s = "inf" then M.unlimited
  else let k = int_of_string (String.sub s 1 (String.length s - 1)) in
       M.fail_at (nat_of_int k) (s.[0] = 'r')

let render_result spec sink =
  let (m, date, msgid, rb) = parse_msg spec in
  M.write_to date msgid rb m (parse_sink sink)

let result_class (r : M.result) = if r.M.r_panic then "panic" else if r.M.r_err then "err" else "ok"

let run (toks : string list) : string =
  match toks with
  | "render" :: spec :: sink :: _ ->
      let r = render_result spec sink in
      Printf.sprintf "%s %d %s" (result_class r) (int_of_nat r.M.r_n) (hex_of_bytes r.M.r_out)
  | "renderlen" :: spec :: sink :: _ ->
      let r = render_result spec sink in
      Printf.sprintf "%s %d %d" (result_class r) (int_of_nat r.M.r_n) (List.length r.M.r_out)
  | ["history"; _; ops; spec] ->
      (* a history of output-path operations and edits, run by Paths.run_op (one model step per operation);
         the randomness oracle is threaded: every render draws one boundary per multipart kind in use *)
      let (m0, date, msgid, rb0) = parse_msg spec in
      let rec drop n l = if n <= 0 then l else (match l with [] -> [] | _ :: t -> drop (n - 1) t) in
      let st = ref { M.ps_b = { M.b_enc = enc_of "quoted-printable"; M.b_msg = m0 }; M.ps_rd = None } in
      let rb = ref rb0 and outs = ref [] in
      let cur () = (!st).M.ps_b.M.b_msg in
      let draws () = (if M.has_mixed (cur ()) then 1 else 0) + (if M.has_related (cur ()) then 1 else 0) + (if M.has_alt (cur ()) then 1 else 0) in
      let orc () = { M.o_date = date; M.o_msgid = msgid; M.o_rb = !rb; M.o_sb = [] } in
      let step x = let (st', out) = M.run_op M.render_plain !st x in st := st'; out in
      let rendering x = let d = draws () in let out = step x in rb := drop d !rb; out in
      let emit out = match out with M.OutRender (_, d, _, _, _) -> outs := !outs @ [hex_of_bytes d] | _ -> () in
      let sizes = [| 1; 7; 64; 1000; 3 |] in
      List.iter (fun op ->
        if String.length op > 0 then
        match op.[0] with
        | 'W' -> emit (rendering (M.ORender (M.PWriteTo, orc (), M.unlimited)))
        | 'w' -> emit (rendering (M.ORender (M.PWrite, orc (), M.unlimited)))
        | 'X' -> emit (rendering (M.ORender (M.PSkipMw, orc (), M.unlimited)))
        | 'F' -> emit (rendering (M.ORender (M.PFile, orc (), M.unlimited)))
        | 'T' -> emit (rendering (M.ORender (M.PTempFile, orc (), M.unlimited)))
        | 'S' -> emit (rendering (M.ORender (M.PSend, orc (), M.unlimited)))
        | 'K' -> let k = int_of_string (String.sub op 1 (String.length op - 1)) in
                 ignore (rendering (M.ORender (M.PWriteTo, orc (), M.fail_at (nat_of_int k) false)))
        | 'R' | 'U' ->
            let fresh = op.[0] = 'R' || (!st).M.ps_rd = None in
            ignore (rendering (if fresh then M.ONewReader (orc ()) else M.OUpdateReader (orc ())));
            let acc = ref [] and i = ref 0 and go = ref true in
            while !go do
              (match step (M.ORead (nat_of_int sizes.(!i mod 5))) with
               | M.OutRead (d, M.RdOk) -> acc := !acc @ d
               | _ -> go := false);
              incr i
            done;
            outs := !outs @ [hex_of_bytes !acc]
        | 'e' ->
            (match split_on ':' op with
             | ["eS"; v] -> ignore (step (M.OEdit (M.CS (M.SSubject (bytes_of_hex v)))))
             | ["eA"; ct; en; content] ->
                 ignore (step (M.OEdit (M.CB (M.BAddAlt (bytes_of_hex ct, Some (enc_of en), None, [], { M.pchunks = [bytes_of_hex content]; M.pfail = false })))))
             | ["eT"; nm; mi; content] ->
                 let f = { M.f_name = bytes_of_hex nm; M.f_mime = bytes_of_hex mi; M.f_enc = None; M.f_desc = []; M.f_hdr = [];
                           M.f_prod = { M.pchunks = [bytes_of_hex content]; M.pfail = false } } in
                 ignore (step (M.OEdit (M.CB (M.BAttach f))))
             | _ -> failwith "bad edit op")
        | _ -> failwith "bad history op") (split_on ',' ops);
      if !outs = [] then "-" else String.concat "," !outs
  | "smime" :: spec :: sb :: sigder :: sink :: _ ->
      (* S/MIME render: the signature bytes come from the implementation (CMS oracle) *)
      let (m, date, msgid, rb) = parse_msg spec in
      let sg = bytes_of_hex sigder in
      let r = M.write_to_signed (fun _ -> sg) date msgid rb (bytes_of_hex sb) m (parse_sink sink) in
      let cls = if r.M.s_panic then "panic" else if r.M.s_err then "err" else "ok" in
      let dig = match r.M.s_input with Some inp -> hex_of_bytes (M.sha256 inp) | None -> "noinput" in
      Printf.sprintf "%s %d %s %s" cls (int_of_nat r.M.s_n) (hex_of_bytes r.M.s_out) dig
  | "smimefail" :: spec :: sb :: _ ->
      (* S/MIME render of a message that cannot be rendered: nothing is signed (the signer is never asked) *)
      let (m, date, msgid, rb) = parse_msg spec in
      let r = M.write_to_signed (fun _ -> []) date msgid rb (bytes_of_hex sb) m M.unlimited in
      let cls = if r.M.s_panic then "panic" else if r.M.s_err then "err" else "ok" in
      Printf.sprintf "%s %d %s" cls (int_of_nat r.M.s_n) (hex_of_bytes r.M.s_out)
  | "build" :: spec :: menc :: ops :: _ ->
      (* builder calls applied one by one to the empty message with the given headers; the observable is the
         resulting part / embed / attachment lists and whether any header is left *)
      let (m0, _, _, _) = parse_msg spec in
      let st = ref (M.empty_state (enc_of menc) m0) in
      let opt f s = if s = "-" then None else Some (f s) in
      let firstn k l = List.filteri (fun i _ -> i < k) l in
      List.iter (fun op ->
        if String.length op > 0 then begin
          let tag = op.[0] and body = String.sub op 1 (String.length op - 1) in
          let o = match tag with
            | 's' | 'a' -> (match fields body with
                | [ct; en; cs; de; ch] ->
                    let (ct, en, cs, de, pr) = (bytes_of_hex ct, opt enc_of en, opt bytes_of_hex cs, bytes_of_hex de, prod_of ch "0") in
                    if tag = 's' then M.BSetBody (ct, en, cs, de, pr) else M.BAddAlt (ct, en, cs, de, pr)
                | _ -> failwith "bad part op")
            | 't' | 'e' -> (match fields body with
                | [nm; mi; en; de; ch] ->
                    let f = { M.f_name = bytes_of_hex nm; M.f_mime = bytes_of_hex mi; M.f_enc = opt enc_of en;
                              M.f_desc = bytes_of_hex de; M.f_hdr = []; M.f_prod = prod_of ch "0" } in
                    if tag = 't' then M.BAttach f else M.BEmbed f
                | _ -> failwith "bad file op")
            | 'T' -> M.BSetAttach (firstn (int_of_string body) (!st).M.b_msg.M.m_attach)
            | 'E' -> M.BSetEmbeds (firstn (int_of_string body) (!st).M.b_msg.M.m_embeds)
            | 'u' -> (match body with "t" -> M.BUnsetAttach | "e" -> M.BUnsetEmbeds | "p" -> M.BUnsetParts | _ -> failwith "bad unset op")
            | 'r' -> M.BReset
            | _ -> failwith "bad builder op" in
          st := M.apply_bop !st o
        end) (split_on '/' ops);
      let m = (!st).M.b_msg in
      let content (p : M.producer) = hex_of_bytes (List.concat p.M.pchunks) in
      let encs e = String.concat "" (List.map (fun x -> String.make 1 (Char.chr (int_of_n x))) (M.enc_name e)) in
      let part (p : M.part) = Printf.sprintf "%s:%s:%s:%s:%s" (hex_of_bytes p.M.p_ctype) (encs p.M.p_enc) (hex_of_bytes p.M.p_charset)
                                (hex_of_bytes p.M.p_desc) (content p.M.p_prod) in
      let file (f : M.file) = Printf.sprintf "%s:%s:%s:%s:%s" (hex_of_bytes f.M.f_name) (hex_of_bytes f.M.f_mime)
                                (match f.M.f_enc with None -> "-" | Some e -> encs e) (hex_of_bytes f.M.f_desc) (content f.M.f_prod) in
      let l f xs = if xs = [] then "-" else String.concat "," (List.map f xs) in
      Printf.sprintf "P=%s E=%s T=%s G=%d A=%d F=%d" (l part m.M.m_parts) (l file m.M.m_embeds) (l file m.M.m_attach)
        (List.length m.M.m_gen) (List.length m.M.m_addr) (match m.M.m_from with None -> 0 | Some _ -> 1)
  | ["setters"; wenc; ops] ->
      (* setter calls (and Reset) applied one by one to a new message; the observable is the stored generic
         header map: sorted "key=values" items, keys without values left out *)
      let st = ref (M.new_state [] (n_of_int (if wenc = "b" then 98 else 113)) (enc_of "quoted-printable")) in
      List.iter (fun op ->
        if String.length op > 0 then begin
          let tag = op.[0] and body = String.sub op 1 (String.length op - 1) in
          let c = match tag with
            | 'g' -> let (k, v) = split2 '=' body in M.CS (M.SGen (bytes_of_hex k, byteslist_of v))
            | 's' -> M.CS (M.SSubject (bytes_of_hex body))
            | 'o' -> M.CS (M.SOrganization (bytes_of_hex body))
            | 'u' -> M.CS (M.SUserAgent (bytes_of_hex body))
            | 'm' -> M.CS (M.SMessageID (bytes_of_hex body))
            | 'b' -> M.CS M.SBulk
            | 'i' -> M.CS (M.SImportance (match body with
                       | "low" -> M.ImpLow | "high" -> M.ImpHigh | "nonurgent" -> M.ImpNonUrgent
                       | "urgent" -> M.ImpUrgent | "normal" -> M.ImpNormal | _ -> failwith "bad importance"))
            | 'r' -> M.CB M.BReset
            | _ -> failwith "bad setter op" in
          st := M.apply_cop !st c
        end) (split_on '/' ops);
      let items = List.filter_map (fun (k, vs) ->
        if vs = [] then None else Some (hex_of_bytes k ^ "=" ^ String.concat "," (List.map hex_of_bytes vs))) (!st).M.b_msg.M.m_gen in
      if items = [] then "-" else String.concat ";" (List.sort compare items)
  | ["wordenc"; _; s; e] -> hex_of_bytes (M.word_encode (n_of_int (if e = "b" then 98 else 113)) (bytes_of_hex s))
  | ["b64"; chunks] | ["b64f"; chunks] ->
      (match M.b64_body (List.concat (byteslist_of chunks)) with
       | Some o -> hex_of_bytes o | None -> "OUTOFFUEL")
  | ["lb"; chunks] ->
      (match M.lb_run (byteslist_of chunks) with
       | Some o -> hex_of_bytes o | None -> "OUTOFFUEL")
  | ["qp"; chunks] -> hex_of_bytes (M.qp_run (byteslist_of chunks))
  | ["hdr"; key; values] ->
      let (o, _) = M.write_header (bytes_of_hex key) (byteslist_of values) in
      hex_of_bytes o
  | ["hdrn"; key; values] ->
      let (o, n) = M.write_header (bytes_of_hex key) (byteslist_of values) in
      Printf.sprintf "%s %d" (hex_of_bytes o) (int_of_nat n)
  | k :: _ -> "UNKNOWN-KIND-" ^ k
  | [] -> "EMPTY"

let () =
  try
    while true do
      let line = input_line stdin in
      if String.length line > 0 && line.[0] <> '#' then begin
        match split_on ' ' line with
        | id :: rest -> print_string id; print_char ' '; print_endline (run rest)
        | [] -> ()
      end
    done
  with End_of_file -> ()
