(* driver.ml — line protocol for the send co-simulation model (engine smtpsend; C03 C04 C20).
   input  : <id> <kind> <caps> <ret> <notify> <noop> <script> <msgs> <derived>
   output : <id> <observable>      (same text as harness/sendx prints for the implementation) *)
open Util
module M = Model

let rec pos_of_int (i : int) : M.positive =
  if i = 1 then M.XH else if i land 1 = 0 then M.XO (pos_of_int (i lsr 1)) else M.XI (pos_of_int (i lsr 1))
let n_of_int (i : int) : M.n = if i = 0 then M.N0 else M.Npos (pos_of_int i)
let rec int_of_pos (p : M.positive) : int = match p with
  | M.XH -> 1 | M.XO q -> 2 * int_of_pos q | M.XI q -> 2 * int_of_pos q + 1
let int_of_n (x : M.n) : int = match x with M.N0 -> 0 | M.Npos p -> int_of_pos p
let rec int_of_nat (x : M.nat) : int = match x with M.O -> 0 | M.S y -> 1 + int_of_nat y
let rec nat_of_int (i : int) : M.nat = if i <= 0 then M.O else M.S (nat_of_int (i - 1))

let bytes_of_string (s : string) : M.n list = List.init (String.length s) (fun i -> n_of_int (Char.code s.[i]))
let string_of_bytes (l : M.n list) : string =
  let b = Buffer.create 64 in List.iter (fun x -> Buffer.add_char b (Char.chr (int_of_n x land 255))) l; Buffer.contents b
let bytes_of_hex s = List.map n_of_int (ints_of_hex s)
let hex_of_bytes l = hex_of_ints (List.map int_of_n l)

let tok s = if s = "" then "~" else s
let boolc b = if b then "1" else "0"

let ext_of_string = function
  | "8BITMIME" -> M.E8BITMIME | "SMTPUTF8" -> M.ESMTPUTF8 | "DSN" -> M.EDSN
  | "ENHANCEDSTATUSCODES" -> M.EENHANCED | "STARTTLS" -> M.ESTARTTLS
  | s -> M.EOther (bytes_of_string (List.hd (split_on '_' s)))   (* a capability the client never looks up *)

let parse_decision (s : string) : M.decision =
  match s with
  | "ok" | "" -> M.DOk
  | "drop" -> M.DDrop
  | _ when String.length s >= 4 && String.sub s 0 4 = "raw=" -> M.DDrop  (* a malformed reply, then the connection is closed *)
  | _ ->
    let code, text = match String.index_opt s ':' with
      | Some i -> String.sub s 0 i, String.sub s (i + 1) (String.length s - i - 1)
      | None -> s, "" in
    let text = String.map (fun c -> if c = '_' then ' ' else if c = '|' then '\n' else c) text in
    M.DRep (n_of_int (int_of_string code), bytes_of_string text)

let is_nil_spec (t : string) : bool =
  match split_on ':' t with _ :: _ :: _ :: "N" :: _ -> true | _ -> false

let parse_msg (i : int) (t : string) : M.msg =
  match split_on ':' t with
  | from :: rc :: enc :: _kind :: _k :: _body :: ([] | [_]) ->
    { M.m_id = nat_of_int i;
      M.m_from = (if from = "!" then None else Some (bytes_of_hex from));
      M.m_rcpts = (if rc = "-" then [] else List.map bytes_of_hex (split_on ',' rc));
      M.m_8bit = (enc = "n") }
  | _ -> failwith ("bad message spec " ^ t)

let adler32 (l : M.n list) : int =
  let a = ref 1 and b = ref 0 in
  List.iter (fun x -> a := (!a + int_of_n x) mod 65521; b := (!b + !a) mod 65521) l;
  (!b lsl 16) lor !a

let param_string = function
  | M.PBody8 -> "BODY=8BITMIME" | M.PSmtpUtf8 -> "SMTPUTF8"
  | M.PRet v -> "RET=" ^ string_of_bytes v | M.PNotify v -> "NOTIFY=" ^ string_of_bytes v

let params_string ps = if ps = [] then "-" else String.concat "+" (List.map param_string ps)

let event_string (e : M.event) : string =
  let verb, arg, ps = match e.M.ev_cmd with
    | M.CGreet -> "GREETING", "", "-"
    | M.CEhlo n -> "EHLO", string_of_bytes n, "-"
    | M.CHelo n -> "HELO", string_of_bytes n, "-"
    | M.CStartTLS -> "STARTTLS", "", "-"
    | M.CMail (f, ps) -> "MAIL", string_of_bytes f, params_string ps
    | M.CRcpt (t, ps) -> "RCPT", string_of_bytes t, params_string ps
    | M.CData -> "DATA", "", "-"
    | M.CEod -> "EOD", "", "-"
    | M.CRset -> "RSET", "", "-"
    | M.CNoop -> "NOOP", "", "-"
    | M.CQuit -> "QUIT", "", "-"
    | M.CJunk -> "JUNK", "", "-" in
  Printf.sprintf "%s:%s:%s:%d:%s" verb (tok arg) ps (int_of_n e.M.ev_code) (if e.M.ev_legal then "L" else "I")

let run (toks : string list) : string =
  match toks with
  | ["dot"; chunks] ->
    let cs = List.map (fun l -> List.map n_of_int l) (hexlist chunks) in
    let wire = M.dot_encode cs in
    (match M.dot_decode wire with
     | Some (d, []) -> hex_of_bytes wire ^ " " ^ hex_of_bytes d
     | _ -> hex_of_bytes wire ^ " NONE")
  | kind :: caps :: ret :: notify :: noop :: script :: msgs :: derived :: _ ->
    let caplist t = if t = "-" then [] else List.map ext_of_string (split_on ',' t) in
    let caps, pol, caps_tls = match split_on '/' caps with
      | [a; "O"; b] -> caplist a, M.TlsOpportunistic, caplist b
      | [a; "M"; b] -> caplist a, M.TlsMandatory, caplist b
      | a :: _ -> caplist a, M.TlsNone, caplist a
      | [] -> [], M.TlsNone, [] in
    let ret = if ret = "-" then "" else ret and notify = if notify = "-" then "" else notify in
    let cfg = { M.cf_helo = bytes_of_string "client.test"; M.cf_dsn = (ret <> "" || notify <> "");
                M.cf_ret = bytes_of_string ret; M.cf_notify = bytes_of_string notify; M.cf_noop = (noop <> "0"); M.cf_tls = pol } in
    let script = if script = "-" then [] else List.map parse_decision (split_on ',' script) in
    (* a batch with nil entries: option messages; the run is that of the non-nil ones, results are re-aligned *)
    let oms = if msgs = "-" then [] else
        List.mapi (fun i t -> if is_nil_spec t then None else Some (parse_msg i t)) (split_on ';' msgs) in
    let strip_suffix full inner =
      let lf = String.length full and li = String.length inner in
      if li <= lf && String.sub full (lf - li) li = inner then Some (String.sub full 0 (lf - li)) else None in
    let renders = if derived = "-" then [||] else
        Array.of_list (List.map (fun t -> match split_on '/' t with
            | [h; "0"] -> (bytes_of_hex h, None)
            | [h; "1"] -> (bytes_of_hex h, Some (M.EWrap (bytes_of_string "bodyWriter function: ", M.ELocal (bytes_of_string "producer failed"))))
            | [h; "1"; full; inner] ->
              let full = string_of_bytes (bytes_of_hex full) in
              if inner = "!" then (bytes_of_hex h, Some (M.ELocal (bytes_of_string full)))
              else begin
                let inner = string_of_bytes (bytes_of_hex inner) in
                match strip_suffix full inner with
                | Some prefix -> (bytes_of_hex h, Some (M.EWrap (bytes_of_string prefix, M.ELocal (bytes_of_string inner))))
                | None -> failwith "wrapped error text is not a suffix of the error text"
              end
            | _ -> failwith ("bad derived field " ^ t)) (split_on ';' derived)) in
    let render (m : M.msg) =
      let i = int_of_nat m.M.m_id in
      if i < Array.length renders then
        let (content, e) = renders.(i) in ([content], e)
      else ([], Some (M.ELocal (bytes_of_string "no render result in the case line"))) in
    let noop_tok, prog = match split_on '@' noop with
      | [n; p] -> n, p | n :: _ -> n, "das" | [] -> "1", "das" in
    let cfg = { cfg with M.cf_noop = (noop_tok <> "0") } in
    let commits_string (w : M.world) = if w.M.w_commits = [] then "-" else
        String.concat "," (List.map (fun (c : M.commit) ->
            Printf.sprintf "%s>%s/%d/%d" (tok (string_of_bytes c.M.cm_from))
              (String.concat "+" (List.map string_of_bytes c.M.cm_rcpt))
              (List.length c.M.cm_data) (adler32 c.M.cm_data)) w.M.w_commits) in
    let one (r : M.mres) = match r.M.r_err with
      | None -> "-"
      | Some (s : M.senderr) ->
        Printf.sprintf "%d/%d/%s/%s/%s" (int_of_n s.M.se_reason) (int_of_n s.M.se_code) (boolc s.M.se_temp)
          (hex_of_bytes s.M.se_esc)
          (if s.M.se_rcpts = [] then "-" else String.concat "+" (List.map string_of_bytes s.M.se_rcpts)) in
    let ret_string = function
      | M.RetNil -> "nil", 0 | M.RetDial -> "dial", 0 | M.RetConnCheck -> "conncheck", 0
      | M.RetJoined n -> "joined", int_of_nat n | M.RetClose -> "close", 0 in
    let obs kind dial_ok (w : M.world) (results : M.mres list) (rhead : string) =
      match kind with
      | "c04" ->
        Printf.sprintf "dial=%s step=%s T=%s" (boolc dial_ok) (boolc (M.all_attributed w))
          (String.concat "|" (List.map event_string w.M.w_trace))
      | "c03" ->
        let d = String.concat "" (List.map (fun (r : M.mres) -> boolc r.M.r_delivered) results)
        and e = String.concat "" (List.map (fun (r : M.mres) -> boolc (r.M.r_err <> None)) results) in
        Printf.sprintf "dial=%s C=%s D=%s E=%s P=0" (boolc dial_ok) (commits_string w) (tok d) (tok e)
      | "c20" ->
        let ms = if results = [] then "-" else String.concat ";" (List.map one results) in
        Printf.sprintf "%s M=%s" rhead ms
      | k -> "UNKNOWN-KIND-" ^ k in
    let run_one oms =
      let o = M.run_gen cfg caps caps_tls script (M.somes oms) render in
      let dial_ok = (match o.M.o_ret with M.RetDial -> false | _ -> true) in
      let rk, j = ret_string o.M.o_ret in
      obs kind dial_ok o.M.o_world (M.align oms o.M.o_results) (Printf.sprintf "R=%s J=%d" rk j) in
    let rec split_at k l = if k = 0 then ([], l) else match l with [] -> ([], []) | x :: t -> let (a, b) = split_at (k - 1) t in (x :: a, b) in
    let half = (List.length oms + 1) / 2 in
    (match prog with
     | "two" -> let (a, b) = split_at half oms in run_one a ^ " || " ^ run_one b
     | "reset" | "conc" ->
       let (a, b) = split_at (if prog = "conc" then min 1 (List.length oms) else half) oms in
       let o = M.run_reset_gen (prog = "reset") cfg caps caps_tls script (M.somes a) (M.somes b) render in
       let dial_ok = (match o.M.p_ret1 with M.RetDial -> false | _ -> true) in
       let k1, j1 = ret_string o.M.p_ret1 and k2, j2 = ret_string o.M.p_ret2 in
       let rhead = match o.M.p_reset with
         | None when not dial_ok -> Printf.sprintf "R=%s J=%d" k1 j1
         | None -> Printf.sprintf "R=%s+%s+r- J=%d+%d" k1 k2 j1 j2
         | Some ok -> Printf.sprintf "R=%s+%s+r%s J=%d+%d" k1 k2 (boolc ok) j1 j2 in
       obs kind dial_ok o.M.p_world (M.align a o.M.p_results1 @ M.align b o.M.p_results2) rhead
     | _ -> run_one oms)
  | _ -> "BAD-CASE-LINE"

let () =
  try
    while true do
      let line = input_line stdin in
      if String.length line > 0 && line.[0] <> '#' then begin
        match split_on ' ' line with
        | id :: rest -> print_string id; print_char ' '; print_endline (try run rest with Failure m -> "MODEL-ERROR " ^ m)
        | [] -> ()
      end
    done
  with End_of_file -> ()
