(* Extraction of the send co-simulation model for the correspondence check (ExtrOcamlBasic only). *)
From Verif Require Import Bytes Textproto SendErr RefServer SmtpSend SmtpSendGen.
Require Extraction.
Require Import ExtrOcamlBasic.
Extraction "model.ml"
  SmtpSendGen.run_gen SmtpSend.align SmtpSend.somes SmtpSendGen.run_reset_gen SmtpSend.all_legal SmtpSend.all_attributed
  Textproto.dot_encode Textproto.dot_decode Textproto.dotcanon
  SendErr.error_code SendErr.is_temp_error SendErr.enhanced_status_code SmtpSendGen.gen_fixes.
