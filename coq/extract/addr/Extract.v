(* Extraction of the address-map / envelope model for the correspondence check (ExtrOcamlBasic only). *)
From Verif Require Import Bytes HeaderFold MsgAddr Envelope.
Require Extraction.
Require Import ExtrOcamlBasic.
Extraction "model.ml"
  MsgAddr.apply_call MsgAddr.run MsgAddr.run_flags MsgAddr.lookup MsgAddr.get_sender MsgAddr.get_sender_full
  MsgAddr.get_recipients MsgAddr.render_addr MsgAddr.field_names MsgAddr.call_key
  Envelope.envelope_lines Envelope.ehlo_line Envelope.helo_line Envelope.apply_dsn_opts
  Envelope.notify_string Envelope.dsn_none Envelope.parse_path_line Envelope.smtp_mailbox.
