(* driver.ml — line protocol for the addr engine (C05, C06).
   input : <id> <kind> <args...>      output : <id> <observable>
   The oracles of the model (net/mail.ParseAddress, Address.String, Msg.encodeString) are supplied
   per case as tables computed by the harness from the real functions; a query outside the table is
   reported as ORACLE-MISS (and shows up as a disagreement). *)
open Util
module M = Model

let rec pos_of_int (i : int) : M.positive =
  if i = 1 then M.XH else if i land 1 = 0 then M.XO (pos_of_int (i lsr 1)) else M.XI (pos_of_int (i lsr 1))
let n_of_int (i : int) : M.n = if i = 0 then M.N0 else M.Npos (pos_of_int i)
let rec int_of_pos (p : M.positive) : int = match p with
  | M.XH -> 1 | M.XO q -> 2 * int_of_pos q | M.XI q -> 2 * int_of_pos q + 1
let int_of_n (x : M.n) : int = match x with M.N0 -> 0 | M.Npos p -> int_of_pos p

let bytes_of_hex s = List.map n_of_int (ints_of_hex s)
let hex_of_bytes l = hex_of_ints (List.map int_of_n l)
let ints_of_bytes l = List.map int_of_n l
let bytes_of_ints l = List.map n_of_int l
let hexlist_out (l : M.bytes list) = if l = [] then "-" else String.concat "," (List.map hex_of_bytes l)

exception Miss of string

let entries (s : string) : string list list =
  if s = "-" then [] else List.map (split_on ':') (split_on ',' s)

(* oracle tables: keys are OCaml int lists *)
let mk_parse (tab : string) : M.bytes -> M.addr option =
  let t = Hashtbl.create 64 in
  List.iter (function
    | [i; "!"] -> Hashtbl.replace t (ints_of_hex i) None
    | [i; nm; ad] -> Hashtbl.replace t (ints_of_hex i) (Some (ints_of_hex nm, ints_of_hex ad))
    | _ -> failwith "bad parse table entry") (entries tab);
  fun b ->
    let k = ints_of_bytes b in
    match Hashtbl.find_opt t k with
    | Some None -> None
    | Some (Some (nm, ad)) -> Some { M.a_name = bytes_of_ints nm; M.a_addr = bytes_of_ints ad }
    | None -> raise (Miss ("parse:" ^ hex_of_ints k))

let mk_string (tab : string) : M.addr -> M.bytes =
  let t = Hashtbl.create 64 in
  List.iter (function
    | [nm; ad; s] -> Hashtbl.replace t (ints_of_hex nm, ints_of_hex ad) (ints_of_hex s)
    | _ -> failwith "bad string table entry") (entries tab);
  fun a ->
    let k = (ints_of_bytes a.M.a_name, ints_of_bytes a.M.a_addr) in
    match Hashtbl.find_opt t k with
    | Some s -> bytes_of_ints s
    | None -> raise (Miss ("string:" ^ hex_of_ints (fst k) ^ ":" ^ hex_of_ints (snd k)))

let mk_encode (tab : string) : M.bytes -> M.bytes =
  let t = Hashtbl.create 16 in
  List.iter (function
    | [i; o] -> Hashtbl.replace t (ints_of_hex i) (ints_of_hex o)
    | _ -> failwith "bad encode table entry") (entries tab);
  fun b ->
    let k = ints_of_bytes b in
    match Hashtbl.find_opt t k with
    | Some o -> bytes_of_ints o
    | None -> raise (Miss ("encode:" ^ hex_of_ints k))

let slot_of = function
  | "To" -> M.STo | "Cc" -> M.SCc | "Bcc" -> M.SBcc | s -> failwith ("bad slot " ^ s)

let strip_prefix p s =
  let lp = String.length p and ls = String.length s in
  if ls >= lp && String.sub s 0 lp = p then Some (String.sub s lp (ls - lp)) else None
let strip_suffix p s =
  let lp = String.length p and ls = String.length s in
  if ls >= lp && String.sub s (ls - lp) lp = p then Some (String.sub s 0 (ls - lp)) else None

let call_of (s : string) : M.call =
  match split_on '/' s with
  | [] -> failwith "empty op"
  | name :: args ->
    let a = List.map bytes_of_hex args in
    let one () = match a with [x] -> x | _ -> failwith ("arity of " ^ name) in
    let two () = match a with [x; y] -> (x, y) | _ -> failwith ("arity of " ^ name) in
    (match name with
     | "To" | "Cc" | "Bcc" -> M.CSet (slot_of name, a)
     | "From" -> M.CFrom (one ())
     | "FromFormat" -> let (x, y) = two () in M.CFromFormat (x, y)
     | "EnvelopeFrom" -> M.CEnvFrom (one ())
     | "EnvelopeFromFormat" -> let (x, y) = two () in M.CEnvFromFormat (x, y)
     | "ReplyTo" -> M.CReplyTo (one ())
     | "ReplyToFormat" -> let (x, y) = two () in M.CReplyToFormat (x, y)
     | "Reset" -> M.CReset
     | "SetAddrHeader" -> (match a with h :: vals -> M.CGenSet (h, vals) | [] -> failwith "SetAddrHeader arity")
     | "SetAddrHeaderIgnoreInvalid" -> (match a with h :: vals -> M.CGenIgn (h, vals) | [] -> failwith "arity")
     | _ ->
       (match strip_prefix "Add" name with
        | Some rest ->
          (match strip_suffix "Format" rest with
           | Some sl -> let (x, y) = two () in M.CAddFormat (slot_of sl, x, y)
           | None -> M.CAdd (slot_of rest, one ()))
        | None ->
          (match strip_suffix "IgnoreInvalid" name with
           | Some sl -> M.CIgn (slot_of sl, a)
           | None ->
             (match strip_suffix "FromString" name with
              | Some sl -> M.CFromString (slot_of sl, one ())
              | None -> failwith ("unknown setter " ^ name)))))

let calls_of (s : string) : M.call list =
  if s = "-" then [] else List.map call_of (split_on ',' s)

let addr_list_out (l : M.addr list) =
  if l = [] then "-" else
    String.concat "," (List.map (fun a -> hex_of_bytes a.M.a_name ^ ":" ^ hex_of_bytes a.M.a_addr) l)

let keys = [M.hdr_from; M.hdr_to; M.hdr_cc; M.hdr_bcc; M.hdr_reply_to; M.hdr_envelope_from]

let caps_of (s : string) : M.caps =
  if s = "h" then { M.c_8bit = false; M.c_utf8 = false; M.c_dsn = false }
  else { M.c_8bit = s.[0] = '1'; M.c_utf8 = s.[1] = '1'; M.c_dsn = s.[2] = '1' }

let env_out (c : M.caps) (ret : M.bytes) (notify : M.bytes) (m : M.amap) : string =
  match M.get_sender m, M.get_recipients m with
  | None, _ | _, [] -> "NOSEND"
  | Some f, rs ->
    (match M.envelope_lines c ret notify f rs with
     | None -> "REFUSED"
     | Some ls -> hexlist_out ls)

let dsn_opts_of (s : string) : M.dsn_opt list =
  if s = "-" then [] else
    List.map (fun o ->
      if o = "D" then M.DDefault
      else match strip_prefix "R:" o with
        | Some h -> M.DRet (bytes_of_hex h)
        | None -> (match strip_prefix "N:" o with
            | Some l -> M.DNotify (List.map (fun x -> List.map n_of_int x) (hexlist l))
            | None -> failwith ("bad dsn option " ^ o))) (split_on '+' s)

let flags_out fl = if fl = [] then "-" else String.concat "" (List.map (fun b -> if b then "1" else "0") fl)

let run (toks : string list) : string =
  match toks with
  | [("seq" | "hist") as kind; ops; ptab; stab; etab] ->
    let parse = mk_parse ptab and str = mk_string stab and enc = mk_encode etab in
    let calls = calls_of ops in
    (* "hist": additionally the observation after EVERY step: sender, recipients, the six stored lists *)
    let steps =
      if kind = "seq" then "" else begin
        let optS = function None -> "ERR" | Some b -> hex_of_bytes b in
        let (_, acc) = List.fold_left (fun (m, acc) c ->
            let (m', _) = M.apply_call parse str enc m c in
            let o = Printf.sprintf "%s;%s;%s" (optS (M.get_sender m')) (hexlist_out (M.get_recipients m'))
                (String.concat "|" (List.map (fun k -> addr_list_out (M.lookup m' k)) keys)) in
            (m', o :: acc)) ([], []) calls in
        " P=" ^ (if acc = [] then "-" else String.concat "/" (List.rev acc))
      end in
    let fl = M.run_flags parse str enc calls [] in
    let m = M.run parse str enc calls [] in
    let opt = function None -> "ERR" | Some b -> hex_of_bytes b in
    Printf.sprintf "F=%s S=%s SF=%s R=%s L=%s H=%s E=%s"
      (flags_out fl) (opt (M.get_sender m)) (opt (M.get_sender_full str m))
      (hexlist_out (M.get_recipients m))
      (String.concat "|" (List.map (fun k -> addr_list_out (M.lookup m k)) keys))
      (hex_of_bytes (M.render_addr str m))
      (env_out { M.c_8bit = true; M.c_utf8 = true; M.c_dsn = false } [] [] m) ^ steps
  | ["env"; caps; dsn; from; rcpts; ptab] ->
    (match M.apply_dsn_opts M.dsn_none (dsn_opts_of dsn) with
     | None -> "OPTERR"
     | Some cfg ->
       let parse = mk_parse ptab in
       let nostr = fun _ -> raise (Miss "string") and noenc = fun _ -> raise (Miss "encode") in
       let calls = [M.CFrom (bytes_of_hex from); M.CSet (M.STo, List.map (fun x -> List.map n_of_int x) (hexlist rcpts))] in
       let fl = M.run_flags parse nostr noenc calls [] in
       if List.mem false fl then "SETERR:" ^ flags_out fl
       else
         let m = M.run parse nostr noenc calls [] in
         env_out (caps_of caps) cfg.M.d_ret (M.notify_string cfg) m)
  | ["helo"; name; fallback] ->
    let n = bytes_of_hex name in
    (match M.ehlo_line n, M.helo_line n with
     | Some e, Some h -> if fallback = "1" then hexlist_out [e; h] else hexlist_out [e]
     | _, _ -> "REFUSED")
  | k :: _ -> "UNKNOWN-KIND-" ^ k
  | [] -> "EMPTY"

let () =
  try
    while true do
      let line = input_line stdin in
      if String.length line > 0 && line.[0] <> '#' then begin
        match split_on ' ' line with
        | id :: rest ->
          let r = (try run rest with Miss s -> "ORACLE-MISS:" ^ s | Failure s -> "DRIVER-ERROR:" ^ s) in
          print_string id; print_char ' '; print_endline r
        | [] -> ()
      end
    done
  with End_of_file -> ()
