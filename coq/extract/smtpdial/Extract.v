(* Extraction of the dial model for the correspondence check (ExtrOcamlBasic only). *)
From Verif Require Import Bytes Dial DialCfg.
Require Extraction.
Require Import ExtrOcamlBasic.
Extraction "model.ml"
  Dial.run_case Dial.cfg_src Dial.srv0 Dial.set_refuse Dial.closes Dial.arm_clear Dial.arm_tls Dial.ended
  Dial.plain_impl Dial.login_impl Dial.cram_impl Dial.xoauth2_impl
  DialCfg.apply_cfg Dial.src_fx_close Dial.src_fx_quit Dial.src_fx_arm Dial.src_fx_send.
