(* driver.ml — line protocol for the dial model (engine smtpdial: C07, C17, C19).
   input : <id> <kind> <policy> <ssl> <auth> <custom> <host> <nonoop> <mute> <caps> <capstls> <hs> <script> <msgs> [<fallback 0|1|2 (2 = real TCP, reduced observable)> <refused dial attempts>]
     kind dial|das|sess|sess2   policy M|O|N   ssl 0|1   auth/host: hex   custom: - | plain0 | plain1 | login0 | cram | xoauth2
     nonoop 0|1   mute: - | n   caps/capstls: hex list   hs: ok|wrongname|untrusted|garbage|stall
     script: - | comma list of ok|drop|stall|<code>|<code>b|<code>e   msgs: - | comma list of recipient counts
   output: <id> <results> closes=<n> open=<0|1> arm=<clear>|<tls> arms=<SetDeadline calls> spent=<deadlines waited out> srv=<log>          (ssl = 0, in-memory transport)
           <id> <results> ended=<0|1> srv=<log>                                       (ssl = 1, TCP transport)        *)
open Util
module M = Model

let rec pos_of_int (i : int) : M.positive =
  if i = 1 then M.XH else if i land 1 = 0 then M.XO (pos_of_int (i lsr 1)) else M.XI (pos_of_int (i lsr 1))
let n_of_int (i : int) : M.n = if i = 0 then M.N0 else M.Npos (pos_of_int i)
let rec int_of_pos (p : M.positive) : int = match p with
  | M.XH -> 1 | M.XO q -> 2 * int_of_pos q | M.XI q -> 2 * int_of_pos q + 1
let int_of_n (x : M.n) : int = match x with M.N0 -> 0 | M.Npos p -> int_of_pos p
let rec int_of_nat (x : M.nat) : int = match x with M.O -> 0 | M.S y -> 1 + int_of_nat y
let rec nat_of_int (i : int) : M.nat = if i <= 0 then M.O else M.S (nat_of_int (i - 1))

let bytes_of_hex s = List.map n_of_int (ints_of_hex s)
let string_of_bytes l = String.concat "" (List.map (fun x -> String.make 1 (Char.chr (int_of_n x land 255))) l)
let byteslist_of s = List.map (fun l -> List.map n_of_int l) (hexlist s)

let err_class (e : M.err) : string = match e with
  | M.ECode c -> Printf.sprintf "code:%d" (int_of_n c)
  | M.EProto -> "proto" | M.EEof -> "eof" | M.ETimeout -> "timeout" | M.EWrite -> "write" | M.EClosed -> "closed"
  | M.EHang -> "HANG" | M.ETls -> "tls" | M.ENoStartTLS -> "nostarttls" | M.ENoAuth -> "noauth" | M.ENoMech -> "nomech"
  | M.ENoDiscover -> "nodiscover" | M.ENonTLS -> "nontls" | M.ENoConn -> "noconn" | M.EBadType -> "badtype"
  | M.EUnenc -> "unenc" | M.EWrongHost -> "wronghost" | M.EMech -> "mech" | M.EHelloAfter -> "helloafter"
  | M.ENotConnected -> "notconn" | M.ESend -> "send" | M.EFuel -> "FUEL" | M.EDial -> "dialfail"

let res_class (r : unit M.res) : string = match r with M.Ok _ -> "ok" | M.Err e -> err_class e

let verb_name (v : M.verb) : string = match v with
  | M.VGreeting -> "GREETING" | M.VEhlo -> "EHLO" | M.VHelo -> "HELO" | M.VStartTLS -> "STARTTLS"
  | M.VAuth (m, _) -> "AUTH:" ^ string_of_bytes m
  | M.VResp _ -> "UNKNOWN" | M.VAbort -> "ABORT" | M.VQuit -> "QUIT" | M.VNoop -> "NOOP" | M.VRset -> "RSET"
  | M.VMail -> "MAIL" | M.VRcpt -> "RCPT" | M.VData -> "DATA" | M.VEod -> "EOD"

let decision_of (s : string) : M.decision =
  let base = (match String.index_opt s ':' with Some i -> String.sub s 0 i | None -> s) in
  match base with
  | "ok" -> M.DOk | "drop" -> M.DDrop | "stall" -> M.DStall
  (* DATA position: 354, then the server stops reading: ws[:n] the client's writes block (n = bytes still accepted,
     harness only), wf[:n] they fail; wsl / wfl: short message, nothing is written before the final flush *)
  | "ws" -> M.DWrite (false, false) | "wsl" -> M.DWrite (false, true)
  | "wf" -> M.DWrite (true, false) | "wfl" -> M.DWrite (true, true)
  | _ ->
    let n = String.length s in
    if n > 0 && s.[n - 1] = 'b' then M.DReply (n_of_int (int_of_string (String.sub s 0 (n - 1))), M.TxB64)
    else if n > 0 && s.[n - 1] = 'e' then M.DReply (n_of_int (int_of_string (String.sub s 0 (n - 1))), M.TxEmpty)
    else M.DReply (n_of_int (int_of_string s), M.TxPlain)

(* configuration calls: <form W|S><call>[:arg], form ignored (an Option and the setter of the same name do the same):
   P:<M|O|N> (With|Set)TLSPolicy   Q:<M|O|N> (With|Set)TLSPortPolicy   S[:0|1] WithSSL / SetSSL
   L:<fb> WithSSLPort(fb)  L:<ssl><fb> SetSSLPort(ssl, fb)   N:<port> WithPort *)
let policy_of s = match s with "M" -> M.Mandatory | "O" -> M.Opportunistic | _ -> M.NoTLS
let call_of (t : string) : M.cfg_call =
  let body = String.sub t 1 (String.length t - 1) in
  let (name, arg) = (match String.index_opt body ':' with
      | Some i -> (String.sub body 0 i, String.sub body (i + 1) (String.length body - i - 1))
      | None -> (body, "")) in
  match name with
  | "P" -> M.CTLSPolicy (policy_of arg)
  | "Q" -> M.CTLSPortPolicy (policy_of arg)
  | "S" -> M.CSSL (arg <> "0")
  | "L" -> if String.length arg = 1 then M.CSSLPort (true, arg = "1") else M.CSSLPort (arg.[0] = '1', arg.[1] = '1')
  | _ -> M.CPort (n_of_int (int_of_string arg))

(* split a token list at the separator "/" *)
let split_steps (toks : string list) : string list list =
  let rec go acc cur = function
    | [] -> List.rev (List.rev cur :: acc)
    | "/" :: t -> go (List.rev cur :: acc) [] t
    | x :: t -> go acc (x :: cur) t in
  go [] [] toks

let rec run (toks : string list) : string =
  match toks with
  (* a sequence of dials of ONE mail.Client, each against a server of its own: the model runs every step from the
     configuration alone (the dial path writes no field of the Client: T1), the results are joined by " / " *)
  | k :: rest when String.length k >= 3 && String.sub k 0 3 = "seq" ->
    (* seq / seqQ / seqR / seqQR: which setter changes the policy and whether Reset is called between the dials is the
       harness's business; the model runs every dial from the configuration in force at that dial *)
    String.concat " / " (List.map run (split_steps rest))
  | ["cfg"; calls] ->
    let l = if calls = "-" then [] else List.map call_of (split_on ',' calls) in
    let cc = M.apply_cfg l in
    let pol = (match cc.M.cc_policy with M.Mandatory -> "M" | M.Opportunistic -> "O" | M.NoTLS -> "N") in
    let fb = int_of_n cc.M.cc_fallback in
    let head = Printf.sprintf "policy=%s port=%d fb=%d ssl=%d" pol (int_of_n cc.M.cc_port) fb (if cc.M.cc_ssl then 1 else 0) in
    (* the dial of the configured client (custom dial function, no implicit TLS) against a server without STARTTLS:
       NOAUTH, host mail.verif.test, capability 8BITMIME, one message with one recipient *)
    if cc.M.cc_ssl then head ^ " dial=-"
    else head ^ " dial=" ^ run ["das"; pol; "0"; "4e4f41555448"; "-"; "6d61696c2e76657269662e74657374"; "0"; "-";
                                "384249544d494d45"; "384249544d494d45"; "ok"; "-"; "1"; (if fb <> 0 then "1" else "0"); "0"]
  | [kind; pol; ssl; auth; custom; host; nonoop; mute; caps; capstls; hs; script; msgs] ->
    run [kind; pol; ssl; auth; custom; host; nonoop; mute; caps; capstls; hs; script; msgs; "0"; "0"]
  | [kind; pol; ssl; auth; custom; host; nonoop; mute; caps; capstls; hs; script; msgs; fb; refuse] ->
    (* dialk = dial whose connection the harness leaves open for the next call on the same Client *)
    let k = (match kind with "dial" | "dialk" -> M.KDial | "das" -> M.KDas | "sess2" -> M.KSess2 | _ -> M.KSess) in
    let p = (match pol with "M" -> M.Mandatory | "O" -> M.Opportunistic | _ -> M.NoTLS) in
    let cu = (match custom with
        | "plain0" -> Some (M.plain_impl false) | "plain1" -> Some (M.plain_impl true)
        | "login0" -> Some (M.login_impl false) | "cram" -> Some M.cram_impl | "xoauth2" -> Some M.xoauth2_impl
        | _ -> None) in
    let cfg = M.cfg_src p (ssl = "1") (bytes_of_hex auth) cu (bytes_of_hex host) (nonoop = "1") (fb = "1" || fb = "2") in
    let sc = if script = "-" then [] else List.map decision_of (split_on ',' script) in
    let mu = if mute = "-" then None else Some (nat_of_int (int_of_string mute)) in
    let h = (match hs with "ok" -> M.HsOk | "stall" -> M.HsStall | _ -> M.HsFail) in
    let srv = M.set_refuse (M.srv0 sc mu (byteslist_of caps) (byteslist_of capstls) h) (nat_of_int (int_of_string refuse)) in
    let ms = if msgs = "-" then [] else List.map (fun x -> nat_of_int (int_of_string x)) (split_on ',' msgs) in
    let ((results, ph), w) = M.run_case k cfg srv ms in
    (* TCP: whether a write to a connection closed by the peer fails at once or the following read sees EOF is the
       kernel's business: both are the class "gone" for the implicit-TLS rows *)
    let gone c = if (ssl = "1" || fb = "2") && (c = "write" || c = "eof") then "gone" else c in
    let rs = String.concat "/" (List.map (fun r -> gone (res_class r)) results) in
    let rs = (match ph with
        | Some M.PhDial -> "dial:" ^ rs | Some M.PhSend -> "send:" ^ rs | Some M.PhClose -> "close:" ^ rs | None -> rs) in
    let log = List.rev w.M.w_srv.M.slog in
    let srvs = String.concat "," (List.map (fun ((v, t), c) ->
        Printf.sprintf "%s/%s:%d" (verb_name v) (if t then "t" else "c") (int_of_n c)) log) in
    let srvs = if srvs = "" then "-" else srvs in
    if ssl = "1" || fb = "2" then
      Printf.sprintf "%s ended=%d srv=%s" rs (if M.ended w then 1 else 0) srvs
    else begin
      let ac = String.concat "" (List.map (fun a -> if a then "A" else "U") (M.arm_clear w.M.w_trace)) in
      let (ta, tu) = M.arm_tls w.M.w_trace in
      let at = (match ta, tu with false, false -> "-" | true, false -> "A" | false, true -> "U" | true, true -> "M") in
      Printf.sprintf "%s closes=%d open=%d arm=%s|%s arms=%d spent=%d srv=%s" rs (int_of_nat (M.closes w))
        (if w.M.w_conn.M.copen then 1 else 0) ac at (int_of_nat w.M.w_clk.M.arms) (int_of_nat w.M.w_clk.M.spent) srvs
    end
  | k :: _ -> "UNKNOWN-KIND-" ^ k
  | [] -> "EMPTY"

let () =
  try
    while true do
      let line = input_line stdin in
      if String.length line > 0 && line.[0] <> '#' then begin
        match split_on ' ' line with
        | id :: rest -> print_string id; print_char ' '; print_endline (run rest)
        | [] -> ()
      end
    done
  with End_of_file -> ()
