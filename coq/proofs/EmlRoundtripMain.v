(* C10 — S3 assembled: for every message in the feature set, the parser model applied to the canonical
   field tree of its resolution yields a Msg with the observables of the message. *)
From Coq Require Import String.
From Verif Require Import Bytes Base64 LineBreaker QP HeaderFold WordEnc Writer MimeTree Render.
From Verif Require Import Eml EmlRender EmlFront EmlRoundtrip.
From VerifGen Require Import Gen.
From VerifProofs Require Import EmlProofs EmlRenderProofs EmlCodecProofs EmlFrontProofs EmlRoundtripProofs.
From Coq Require Import ZArith Lia.

Local Opaque dec_qp dec_b64 media_type parse_multipart_header.

Section Main.
Context (pa pl : bytes -> ares) (pd : bytes -> dres).

(* the projections of the two sides agree on what the loops appended *)
Lemma parts_proj : forall m ps, Writer.m_charset m = charset_utf8 -> forallb part_ok ps = true ->
  map (fun p => (p_ct p, p_cs p, p_content p)) (map (part_obs m) ps)
  = map (fun p => (Writer.p_ctype p, part_cs (Writer.m_charset m) p,
                   EmlRoundtrip.expected_content (Writer.p_enc p) (EmlRoundtrip.content_of (p_prod p)))) ps.
Proof.
  intros m ps Hm Hp. rewrite map_map. apply map_ext_in. intros p Hin.
  rewrite forallb_forall in Hp. destruct (part_ok_facts m p Hm (Hp p Hin)) as (_ & _ & Hcs & _).
  unfold part_obs. cbn. now rewrite Hcs.
Qed.

Lemma files_proj : forall b fs,
  map (fun f => (fo_name f, fo_bytes f)) (map (file_obs b) fs)
  = map (fun f => (f_name f, EmlRoundtrip.content_of (f_prod f))) fs.
Proof. intros b fs. rewrite map_map. reflexivity. Qed.

(* the header hypotheses in the form headers_top wants them *)
Record hdr_hyps (d i sv F : bytes) (tos ccs : list bytes) : Prop := mkhh {
  hh_d : good_value d = true; hh_i : good_value i = true; hh_sv : good_value sv = true; hh_F : good_value F = true;
  hh_to : is_empty (join (bs ", ") tos) = false;
  hh_pF : pa F = AOk [F]; hh_pto : pl (join (bs ", ") tos) = AOk tos;
  hh_cc : ccs <> [] -> is_empty (join (bs ", ") ccs) = false /\ pl (join (bs ", ") ccs) = AOk ccs;
  hh_pd : pd d = DOk d
}.

Definition Tof (d i sv F : bytes) (tos ccs : list bytes) : hdr :=
  T0 d i sv F (join (bs ", ") tos) ++ match ccs with [] => [] | _ => [fld hdr_cc (join (bs ", ") ccs)] end.

Lemma Tof_lacks : forall d i sv F tos ccs,
  hvals (Tof d i sv F tos ccs) (canon hdr_content_type) = [] /\
  hvals (Tof d i sv F tos ccs) (canon hdr_content_transfer_enc) = [].
Proof. intros. unfold Tof. destruct ccs; split; reflexivity. Qed.

Lemma finish_multi : forall d i sv F tos ccs mime b kids P E A,
  hdr_hyps d i sv F tos ccs -> mp_sub mime -> is_token b = true ->
  (forall st, run_parts (steps kids) true st = Ok (add_atts (add_embs (add_parts st P) E) A)) ->
  exists st, parse_eml_fixed (top_of_fnode pa pl pd
               (FMulti (Tof d i sv F tos ccs ++ [fld h_ctype (mp_ctype mime b)]) kids)) = Ok st /\
    project_parsed st = mkproj (Some sv) [F] tos ccs (Some d)
           (map (fun p => (p_ct p, p_cs p, p_content p)) P)
           (map (fun f => (fo_name f, fo_bytes f)) A) (map (fun f => (fo_name f, fo_bytes f)) E) /\
    Eml.m_parts st = P /\ m_embs st = E /\ m_atts st = A /\ Eml.m_gen st = parsed_gen d i sv /\
    m_addrs st = mka [F] tos ccs [] /\ Eml.m_charset st = charset_utf8 /\ m_enc st = enc_qp.
Proof.
  intros d i sv F tos ccs mime b kids P E A [H1 H2 H3 H4 H5 H6 H7 H8 H9] Hm Hb Hrun.
  destruct (mp_extra mime b Hm Hb) as (Hl & H2c).
  destruct (headers_top pa pl pd d i sv F tos ccs _ st_init H1 H2 H3 H4 H5 H6 H7 H8 H9 Hl H2c eq_refl)
    as (sth & Hh & Hc0 & Hn0 & Hp0 & Ha0 & He0 & Hadr & Hsub & Hdat & Hgen).
  unfold parse_eml_fixed, parse_eml, top_of_fnode.
  cbn [t_msg_ok negb t_from t_to t_cc t_bcc t_date t_ent fhdr].
  change (e_hdr (entity_of_fnode false (FMulti (Tof d i sv F tos ccs ++ [fld h_ctype (mp_ctype mime b)]) kids)))
    with (Tof d i sv F tos ccs ++ [fld h_ctype (mp_ctype mime b)]).
  unfold Tof in *. rewrite Hh. cbn [bind].
  rewrite body_top_multi; [|apply (Tof_lacks d i sv F tos ccs)|assumption|assumption].
  rewrite Hrun. eexists. split; [reflexivity|].
  split; [apply (project_final (Writer.mkmsg [] 0%N [] [] None [] [] [] [] [] [] [])); assumption|].
  destruct sth as [cs0 en0 ps0 at0 em0 g0 ad0]. cbn in *. subst. repeat split; reflexivity.
Qed.

Lemma finish_leaf : forall d i sv F tos ccs m p,
  hdr_hyps d i sv F tos ccs -> Writer.m_charset m = charset_utf8 -> part_ok p = true ->
  exists st, parse_eml_fixed (top_of_fnode pa pl pd
               (FLeaf (Tof d i sv F tos ccs ++ cpart_fields m p) (encode_body (Writer.p_enc p) (p_prod p)))) = Ok st /\
    project_parsed st = mkproj (Some sv) [F] tos ccs (Some d)
           (map (fun p => (p_ct p, p_cs p, p_content p)) [part_obs m p]) [] [] /\
    Eml.m_parts st = [part_obs m p] /\ m_embs st = [] /\ m_atts st = [] /\ Eml.m_gen st = parsed_gen d i sv /\
    m_addrs st = mka [F] tos ccs [] /\ Eml.m_charset st = charset_utf8 /\ m_enc st = enc_name (Writer.p_enc p).
Proof.
  intros d i sv F tos ccs m p [H1 H2 H3 H4 H5 H6 H7 H8 H9] Hm Hp.
  destruct (leaf_headers p m Hm Hp) as (Hl & st2 & H2c & Hg2 & Hp2 & Ha2 & He2).
  destruct (headers_top pa pl pd d i sv F tos ccs _ st2 H1 H2 H3 H4 H5 H6 H7 H8 H9 Hl H2c Hg2)
    as (sth & Hh & _ & _ & Hp0 & Ha0 & He0 & Hadr & Hsub & Hdat & Hgen).
  unfold parse_eml_fixed, parse_eml, top_of_fnode.
  cbn [t_msg_ok negb t_from t_to t_cc t_bcc t_date t_ent fhdr].
  rewrite entity_leaf_top. cbn [e_hdr].
  unfold Tof in *. rewrite Hh. cbn [bind].
  destruct (body_top_leaf _ p m sth Hm Hp (proj1 (Tof_lacks d i sv F tos ccs)) (proj2 (Tof_lacks d i sv F tos ccs)))
    as (st' & Hb & Bp & Ba & Be & Bg & Bad & Bcs & Ben).
  unfold Tof in Hb. rewrite entity_leaf_top in Hb. rewrite Hb. eexists. split; [reflexivity|].
  split; [unfold project_parsed; rewrite Bp, Ba, Be, Bg, Bad, Hadr, Hsub, Hdat, Ha0, He0, Ha2, He2; reflexivity|].
  rewrite Bp, Ba, Be, Bg, Bad, Ha0, He0, Ha2, He2. repeat split; assumption.
Qed.

Lemma parsed_as_intro : forall d i m st sv F tos ccs,
  Writer.m_gen m = [(hdr_subject, [sv])] -> m_from m = Some F ->
  m_addr m = (hdr_to, tos) :: match ccs with [] => [] | _ => [(hdr_cc, ccs)] end ->
  Eml.m_parts st = map (part_obs m) (Writer.m_parts m) ->
  m_embs st = map (file_obs false) (m_embeds m) -> m_atts st = map (file_obs true) (m_attach m) ->
  Eml.m_gen st = parsed_gen d i sv -> m_addrs st = mka [F] tos ccs [] ->
  Eml.m_charset st = charset_utf8 -> m_enc st = expected_enc m ->
  parsed_as d i m st.
Proof.
  intros d i m st sv F tos ccs Hg Hf Ha Hp He Hat Hgen Had Hcs Hen. unfold parsed_as.
  repeat split; try assumption.
  - exists sv. split; [unfold gen_value; now rewrite Hg|assumption].
  - rewrite Had, Hf. unfold addr_list. rewrite Ha. destruct ccs; reflexivity.
Qed.

Lemma expected_enc_multi : forall m,
  (m_attach m <> [] \/ m_embeds m <> [] \/ Nat.leb 2 (length (Writer.m_parts m)) = true) -> expected_enc m = enc_qp.
Proof.
  intros m H. unfold expected_enc.
  destruct (Writer.m_parts m) as [|p [|p2 pr]]; try reflexivity.
  destruct (m_embeds m); [|reflexivity]. destruct (m_attach m); [|reflexivity].
  destruct H as [H|[H|H]]; [congruence|congruence|discriminate].
Qed.

Theorem parse_ctree : forall d i rb m,
  let z := resolve d i rb m in
  in_feature_set m = true -> good_value d = true -> good_value i = true ->
  oracles_ok pa pl pd d m -> boundaries_ok z = true ->
  exists st, parse_eml_fixed (top_of_fnode pa pl pd (ctree z)) = Ok st /\
             project_parsed st = project_built d m /\ parsed_as d i m st.
Proof.
  intros d i rb m z Hfs Hd Hi (HoF & HoL & HoD) Hbd.
  destruct (feature_facts m Hfs) as (Hcs & (sv & Hgen & Hsv) & Hpre & (F & Hfrom & HF) &
    (tos & ccs & Haddr & Htne & Htos & Hccs) & Hpne & Hpo & Hem & Hat & Hbm & Hbr & Hba).
  destruct (resolve_proj d i rb m Hbm Hbr Hba) as (Zg & Zp & Zf & Za & Zpa & Zcs & Ze & Zat & Zbm & Zbr & Zba).
  fold z in Zg, Zp, Zf, Za, Zpa, Zcs, Ze, Zat, Zbm, Zbr, Zba.
  (* the top-level fields *)
  assert (HT : ctop_fields (z_msg z) = Tof d i sv F tos ccs).
  { unfold ctop_fields, gen_fields, addr_fields, Tof. rewrite Zg, Zf, Za, Hfrom, Haddr.
    unfold add_defaults. rewrite Hgen. destruct ccs; reflexivity. }
  (* the header hypotheses *)
  assert (HH : hdr_hyps d i sv F tos ccs).
  { constructor; auto.
    - now apply good_value_nonempty.
    - apply (HoL hdr_to). rewrite Haddr. now left.
    - intros Hne. split; [apply good_value_nonempty; now apply Hccs|]. apply (HoL hdr_cc). rewrite Haddr.
      destruct ccs; [congruence|]. right. now left. }
  (* the projection of the built message *)
  assert (HPB : project_built d m = mkproj (Some sv) [F] tos ccs (Some d)
           (map (fun p => (p_ct p, p_cs p, p_content p)) (map (part_obs (z_msg z)) (Writer.m_parts m)))
           (map (fun f => (fo_name f, fo_bytes f)) (map (file_obs true) (m_attach m)))
           (map (fun f => (fo_name f, fo_bytes f)) (map (file_obs false) (m_embeds m)))).
  { unfold project_built, gen_value, addr_list. rewrite Hgen, Hfrom, Haddr.
    rewrite (parts_proj (z_msg z)), !files_proj, Zcs; [|now rewrite Zcs|assumption].
    destruct ccs; reflexivity. }
  rewrite HPB. clear HPB.
  (* the forest *)
  assert (Hzcs : Writer.m_charset (z_msg z) = charset_utf8) by now rewrite Zcs.
  unfold boundaries_ok in Hbd. rewrite Zpa, Ze, Zat, !map_length in Hbd.
  apply andb_true_iff in Hbd. destruct Hbd as [Hbd Btm]. apply andb_true_iff in Hbd. destruct Hbd as [Bta Btr].
  unfold ctree, cforest. rewrite HT, Zpa, Ze, Zat, !map_length.
  set (ca := Nat.leb 2 (length (Writer.m_parts m))) in *.
  set (cr := Nat.leb 1 (length (m_embeds m))) in *.
  set (cm := Nat.leb 1 (length (m_attach m))) in *.
  assert (Hta : ca = true -> is_token (m_balt (z_msg z)) = true) by (intros E; rewrite E in Bta; exact Bta).
  assert (Htr : cr = true -> is_token (m_brelated (z_msg z)) = true) by (intros E; rewrite E in Btr; exact Btr).
  assert (Htm : cm = true -> is_token (m_bmixed (z_msg z)) = true) by (intros E; rewrite E in Btm; exact Btm).
  destruct cm eqn:Ecm.
  - (* multipart/mixed *)
    cbn [cnest fprepend].
    destruct (finish_multi d i sv F tos ccs mime_mixed (m_bmixed (z_msg z)) _ _ _ _ HH (or_introl eq_refl) (Htm eq_refl)
                (fun st => run_mix_kids ca cr (z_msg z) (m_wenc m) _ _ _ _ _ st Hzcs Hpo Hem Hat Hta Htr))
      as (st & Hp & Hj & Fp & Fe & Fa & Fg & Fad & Fcs & Fen).
    exists st. split; [exact Hp|]. split; [exact Hj|].
    apply (parsed_as_intro d i m st sv F tos ccs); try assumption.
    rewrite Fen. symmetry. apply expected_enc_multi. left. intros E. subst cm. rewrite E in Ecm. discriminate.
  - assert (Eat : m_attach m = []) by (destruct (m_attach m); [reflexivity|discriminate]).
    rewrite Eat. cbn [map cnest]. rewrite app_nil_r.
    destruct cr eqn:Ecr.
    + (* multipart/related *)
      cbn [cnest fprepend].
      assert (Hrun : forall st, run_parts (steps (cnest ca mime_alternative (m_balt (z_msg z)) (map (cpart_leaf (z_msg z)) (Writer.m_parts m))
                       ++ map cfile_leaf (map (file_headers (m_wenc m) false) (m_embeds m)))) true st
              = Ok (add_atts (add_embs (add_parts st (map (part_obs (z_msg z)) (Writer.m_parts m))) (map (file_obs false) (m_embeds m))) [])).
      { intros st. rewrite steps_app, run_parts_app, run_alt_level by assumption. cbn [bind].
        rewrite (run_file_leaves (m_wenc m) false _ _ Hem). now rewrite add_atts_nil. }
      destruct (finish_multi d i sv F tos ccs mime_related (m_brelated (z_msg z)) _ _ _ _ HH (or_intror (or_introl eq_refl)) (Htr eq_refl) Hrun)
        as (st & Hp & Hj & Fp & Fe & Fa & Fg & Fad & Fcs & Fen).
      exists st. split; [exact Hp|]. split; [exact Hj|].
      apply (parsed_as_intro d i m st sv F tos ccs); try assumption; [now rewrite Eat|].
      rewrite Fen. symmetry. apply expected_enc_multi. right. left. intros E. subst cr. rewrite E in Ecr. discriminate.
    + assert (Eem : m_embeds m = []) by (destruct (m_embeds m); [reflexivity|discriminate]).
      rewrite Eem. cbn [map cnest]. rewrite app_nil_r.
      destruct ca eqn:Eca.
      * (* multipart/alternative *)
        cbn [cnest fprepend].
        assert (Hrun : forall st, run_parts (steps (map (cpart_leaf (z_msg z)) (Writer.m_parts m))) true st
                = Ok (add_atts (add_embs (add_parts st (map (part_obs (z_msg z)) (Writer.m_parts m))) []) [])).
        { intros st. rewrite (run_part_leaves (z_msg z) _ st Hzcs Hpo). now rewrite add_embs_nil, add_atts_nil. }
        destruct (finish_multi d i sv F tos ccs mime_alternative (m_balt (z_msg z)) _ _ _ _ HH (or_intror (or_intror eq_refl)) (Hta eq_refl) Hrun)
          as (st & Hp & Hj & Fp & Fe & Fa & Fg & Fad & Fcs & Fen).
        exists st. split; [exact Hp|]. split; [exact Hj|].
        apply (parsed_as_intro d i m st sv F tos ccs); try assumption; [now rewrite Eem|now rewrite Eat|].
        rewrite Fen. symmetry. apply expected_enc_multi. right. right. exact Eca.
      * (* one text part *)
        destruct (Writer.m_parts m) as [|p [|p2 pr]] eqn:Epm; [congruence| |discriminate].
        cbn [map cnest fprepend cpart_leaf forallb] in *. apply andb_true_iff in Hpo. destruct Hpo as [Hp _].
        destruct (finish_leaf d i sv F tos ccs (z_msg z) p HH Hzcs Hp) as (st & Hpp & Hj & Fp & Fe & Fa & Fg & Fad & Fcs & Fen).
        exists st. split; [exact Hpp|]. split; [exact Hj|].
        apply (parsed_as_intro d i m st sv F tos ccs); try assumption.
        all: try (rewrite Eem; exact Fe). all: try (rewrite Eat; exact Fa).
        -- rewrite Epm. exact Fp.
        -- rewrite Fen. unfold expected_enc. now rewrite Epm, Eem, Eat.
Qed.

End Main.
