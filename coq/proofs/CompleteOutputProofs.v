(* CompleteOutputProofs.v — C12, the strong form of "never silent success": on EVERY destination
   of the modelled family, a render that reports no error delivered the COMPLETE rendering.
   Technique: [uncap] forgets the destination's capacity; every writer operation commutes with it
   as long as the destination has not rejected a write, and a rejection is never forgotten. *)
From Coq Require Import String.
From Verif Require Import Bytes Base64 LineBreaker QP HeaderFold WordEnc Writer MimeTree Render Smime.
From VerifGen Require Import Gen.
From VerifProofs Require Import WriterProofs RenderIdemProofs RenderProofs SmimeProofs.
From Coq Require Import Lia ZifyBool ZifyNat ZifyN.
Open Scope nat_scope.

(* the same destination without a limit *)
Definition ucs (k : sink) : sink := mksink None false (failed k) (accepted k).
Definition uncap (st : mw) : mw :=
  mkmw (ucs (snk st)) (bw st) (err st) (depth st) (mps st) (pw st) (hcount st) (panicked st).

Definition fl (st : mw) : bool := failed (snk st).

Lemma sink_write_uc : forall k p k' n e,
  sink_write k p = (k', n, e) ->
  (failed k = true -> failed k' = true) /\
  (failed k' = false -> sink_write (ucs k) p = (ucs k', n, e)).
Proof.
  intros k p k' n e H. unfold sink_write in *. destruct k as [c r f a].
  cbn [failed recover cap accepted ucs] in *.
  destruct f; destruct r; cbn [andb negb] in *;
    try (destruct c as [n0|]; [destruct (Nat.leb (length p) n0)|]);
    inversion H; subst; cbn; split; intros; try discriminate; try reflexivity; auto.
Qed.

(* ---------- operations mw -> mw ---------- *)
Definition simop (f : mw -> mw) : Prop :=
  forall st, (fl st = true -> fl (f st) = true) /\ (fl (f st) = false -> uncap (f st) = f (uncap st)).

(* ---------- operations returning a flag / count as well ---------- *)
Definition simop2 {B} (f : mw -> mw * B) : Prop :=
  forall st, (fl st = true -> fl (fst (f st)) = true) /\
             (fl (fst (f st)) = false -> f (uncap st) = (uncap (fst (f st)), snd (f st))).

Lemma simop_id : simop (fun st => st).
Proof. intros st. auto. Qed.

Lemma simop_comp : forall f g, simop f -> simop g -> simop (fun st => g (f st)).
Proof.
  intros f g Hf Hg st. destruct (Hf st) as [Mf Cf]. destruct (Hg (f st)) as [Mg Cg]. split.
  - auto.
  - intros H. rewrite (Cg H). f_equal. apply Cf. destruct (fl (f st)) eqn:E; [rewrite (Mg eq_refl) in H; discriminate|reflexivity].
Qed.

Lemma simop_ext : forall f g, (forall st, f st = g st) -> simop f -> simop g.
Proof. intros f g E H st. rewrite <- !E. apply H. Qed.

(* a test that does not look at the destination *)
Definition blind {A} (c : mw -> A) : Prop := forall st, c (uncap st) = c st.

Lemma simop_if : forall (c : mw -> bool) f g, blind c -> simop f -> simop g ->
  simop (fun st => if c st then f st else g st).
Proof.
  intros c f g Hc Hf Hg st. rewrite Hc. destruct (c st); [apply Hf|apply Hg].
Qed.

Lemma simop_andthen : forall f, simop f -> simop (fun st => st |> f).
Proof.
  intros f Hf. unfold andthen. apply (simop_if panicked (fun st => st) f); auto using simop_id.
  intros st. reflexivity.
Qed.

Lemma simop_fold : forall A (f : mw -> A -> mw) l,
  (forall a, simop (fun s => f s a)) -> simop (fun st => fold_left f l st).
Proof.
  intros A f l H. induction l as [|a l IH]; cbn [fold_left]; [apply simop_id|].
  apply (simop_comp (fun s => f s a) (fun s => fold_left f l s)); auto.
Qed.

(* a pure update of the bookkeeping fields *)
Lemma simop_upd : forall (u : mw -> mw),
  (forall st, snk (u st) = snk st) -> (forall st, uncap (u st) = u (uncap st)) -> simop u.
Proof. intros u Hs Hu st. unfold fl. rewrite Hs. auto. Qed.

(* sequencing a flag-returning operation with a continuation that takes the flag *)
Lemma simop_bind : forall B (f : mw -> mw * B) (g : B -> mw -> mw),
  simop2 f -> (forall b, simop (g b)) -> simop (fun st => g (snd (f st)) (fst (f st))).
Proof.
  intros B f g Hf Hg st. destruct (Hf st) as [Mf Cf]. destruct (Hg (snd (f st)) (fst (f st))) as [Mg Cg]. split.
  - auto.
  - intros H. rewrite (Cg H).
    assert (F : fl (fst (f st)) = false) by (destruct (fl (fst (f st))) eqn:E; [rewrite (Mg eq_refl) in H; discriminate|reflexivity]).
    rewrite (Cf F). reflexivity.
Qed.

(* ---------- the primitive writes ---------- *)
Lemma sim_write_string : forall s, simop (write_string s).
Proof.
  intros s st. unfold write_string, fl. cbn [uncap err snk].
  destruct (err st); [auto|].
  destruct (sink_write (snk st) s) as [[k n] e] eqn:E. destruct (sink_write_uc _ _ _ _ _ E) as [M C].
  cbn [set_snk snk]. split; [exact M|]. intros H. rewrite (C H). reflexivity.
Qed.

Lemma sim_mw_write : forall p, simop2 (fun st => mw_write st p).
Proof.
  intros p st. unfold mw_write, fl. cbn [uncap err snk].
  destruct (err st); [cbn; auto|].
  destruct (sink_write (snk st) p) as [[k n] e] eqn:E. destruct (sink_write_uc _ _ _ _ _ E) as [M C].
  cbn [fst snd set_snk snk]. split; [exact M|]. intros H. rewrite (C H). reflexivity.
Qed.

Lemma sim_header : forall k vs, simop (fun st => fst (mw_write_header k vs st)).
Proof.
  intros k vs. unfold mw_write_header. destruct vs as [|v vs]; cbn [fst]; [apply simop_id|].
  apply (simop_comp (write_string _) (write_string crlf)); apply sim_write_string.
Qed.

Lemma sim_header_uncounted : forall k vs, simop (write_header_uncounted k vs).
Proof. intros. apply sim_header. Qed.

Lemma sim_header_counted : forall k vs, simop (write_header_counted k vs).
Proof.
  intros k vs. unfold write_header_counted, mw_write_header. destruct vs as [|v vs].
  - apply simop_upd; reflexivity.
  - apply (simop_comp (fun st => write_string crlf (write_string (wh_buffer k (v :: vs)) st))
                      (fun st => add_hcount st (S (count_crlf (wh_buffer k (v :: vs)))))).
    + apply (simop_comp (write_string _) (write_string crlf)); apply sim_write_string.
    + apply simop_upd; reflexivity.
Qed.

(* ---------- multipart.Writer ---------- *)
Lemma sim_create_part : forall i hdrs, simop (create_part i hdrs).
Proof.
  intros i hdrs st. unfold create_part. cbn [uncap mps].
  destruct (nth_error (mps st) i) as [w|]; [|split; auto].
  destruct (match lastpart w with Some p => pwe p | None => false end); [split; auto|].
  set (st1 := set_mps st _). set (p := _ ++ part_header_lines hdrs ++ crlf).
  change (set_mps (uncap st) (update_nth i match lastpart w with
            | Some p0 => mkmpw (boundary w) (Some (mkmpart true (pwe p0))) | None => w end (mps st))) with (uncap st1).
  destruct (sim_mw_write p st1) as [M C]. cbn beta in M, C.
  destruct (mw_write st1 p) as [st2 e] eqn:E. cbn [fst snd] in M, C.
  assert (F : forall x, fl (if e then set_err (set_pw st2 None) true else x st2) = fl st2 \/ e = false) by (intros; destruct e; auto).
  split.
  - intros H. specialize (M H). destruct e; exact M.
  - intros H. assert (H2 : fl st2 = false) by (destruct e; exact H). rewrite (C H2). destruct e; reflexivity.
Qed.

Lemma sim_new_part : forall hdrs, simop (new_part hdrs).
Proof.
  intros hdrs st. unfold new_part. change (depth (uncap st)) with (depth st). apply sim_create_part.
Qed.

Lemma sim_mp_close : forall i, simop2 (mp_close i).
Proof.
  intros i st. unfold mp_close. cbn [uncap mps].
  destruct (nth_error (mps st) i) as [w|]; [|cbn; auto].
  destruct (match lastpart w with Some p => pwe p | None => false end); [cbn; auto|].
  set (st1 := set_mps st _).
  change (set_mps (uncap st) (update_nth i (mkmpw (boundary w) None) (mps st))) with (uncap st1).
  apply (sim_mw_write _ st1).
Qed.

Lemma sim_part_write : forall i p, simop2 (part_write i p).
Proof.
  intros i p st. unfold part_write. cbn [uncap mps].
  destruct (nth_error (mps st) i) as [w|]; [|cbn; auto].
  destruct (lastpart w) as [pt|]; [|cbn; auto].
  destruct (pclosed pt); [cbn; auto|].
  destruct (sim_mw_write p st) as [M C]. cbn beta in M, C.
  destruct (mw_write st p) as [st1 e] eqn:E. cbn [fst snd] in M, C.
  split.
  - intros H. specialize (M H). destruct e; exact M.
  - intros H. assert (H2 : fl st1 = false) by (destruct e; exact H). rewrite (C H2). destruct e; reflexivity.
Qed.

Lemma sim_start_mp : forall mime b bad, simop (start_mp mime b bad).
Proof.
  intros mime b bad. unfold start_mp. cbv zeta.
  apply (simop_comp (fun st => if bad then set_err st true else st)
    (fun st1 => let st3 := if Nat.eqb (depth (set_mps st1 (firstn (depth st1) (mps st1) ++ [mkmpw b None]))) 0
                 then write_string (bs "Content-Type: " ++ (bs "multipart/" ++ mime ++ bs ";" ++ crlf ++ bs " boundary=" ++ b))
                        (set_mps st1 (firstn (depth st1) (mps st1) ++ [mkmpw b None]))
                 else new_part [(bs "Content-Type", [bs "multipart/" ++ mime ++ bs ";" ++ crlf ++ bs " boundary=" ++ b])]
                        (set_mps st1 (firstn (depth st1) (mps st1) ++ [mkmpw b None])) in
               if panicked st3 then st3 else set_depth st3 (S (depth st3)))).
  - destruct bad; [apply simop_upd; reflexivity|apply simop_id].
  - cbv zeta.
    apply (simop_comp (fun st1 => set_mps st1 (firstn (depth st1) (mps st1) ++ [mkmpw b None]))
      (fun st2 => let st3 := if Nat.eqb (depth st2) 0 then write_string _ st2 else new_part _ st2 in
                  if panicked st3 then st3 else set_depth st3 (S (depth st3)))).
    + apply simop_upd; reflexivity.
    + cbv zeta.
      apply (simop_comp (fun st2 => if Nat.eqb (depth st2) 0 then write_string _ st2 else new_part _ st2)
                        (fun st3 => if panicked st3 then st3 else set_depth st3 (S (depth st3)))).
      * apply (simop_if (fun st2 => Nat.eqb (depth st2) 0)); [intros s; reflexivity|apply sim_write_string|apply sim_new_part].
      * apply (simop_if panicked); [intros s; reflexivity|apply simop_id|apply simop_upd; reflexivity].
Qed.

Lemma sim_stop_mp : simop stop_mp.
Proof.
  intros st. unfold stop_mp. change (depth (uncap st)) with (depth st).
  destruct (depth st) as [|d]; [auto|].
  destruct (sim_mp_close d st) as [M C].
  destruct (mp_close d st) as [st1 e] eqn:E. cbn [fst snd] in M, C.
  assert (F : fl (if panicked st1 then st1 else set_depth (set_err st1 e) d) = fl st1) by (destruct (panicked st1); reflexivity).
  rewrite F. split; [exact M|]. intros H. rewrite (C H). cbn [uncap panicked]. destruct (panicked st1); reflexivity.
Qed.

Lemma sim_write_body : forall p e, simop (write_body p e).
Proof.
  intros p e. unfold write_body. cbv zeta.
  apply (simop_comp (fun st => if pfail p then set_err st true else st)
    (fun st1 => match encode_body e p with
                | [] => st1
                | _ :: _ => if Nat.eqb (depth st1) 0
                    then let '(k, n, e2) := sink_write (snk st1) (encode_body e p) in
                         mkmw k (bw st1 + n) (err st1 || e2) (depth st1) (mps st1) (pw st1) (hcount st1) (panicked st1)
                    else match pw st1 with
                         | None => set_panic st1
                         | Some i => let '(st2, e2) := part_write i (encode_body e p) st1 in
                                     if err st1 then st2 else set_err st2 (err st2 || e2)
                         end
                end)).
  - destruct (pfail p); [apply simop_upd; reflexivity|apply simop_id].
  - destruct (encode_body e p) as [|b0 buf0]; [apply simop_id|]. set (buf := b0 :: buf0).
    intros st1. change (depth (uncap st1)) with (depth st1). destruct (Nat.eqb (depth st1) 0).
    + unfold fl. cbn [uncap snk].
      destruct (sink_write (snk st1) buf) as [[k n] e2] eqn:E. destruct (sink_write_uc _ _ _ _ _ E) as [M C].
      cbn [snk]. split; [exact M|]. intros H. rewrite (C H). reflexivity.
    + change (pw (uncap st1)) with (pw st1). destruct (pw st1) as [i|]; [|split; auto].
      destruct (sim_part_write i buf st1) as [M C].
      destruct (part_write i buf st1) as [st2 e2] eqn:E. cbn [fst snd] in M, C.
      change (err (uncap st1)) with (err st1).
      assert (F : fl (if err st1 then st2 else set_err st2 (err st2 || e2)) = fl st2) by (destruct (err st1); reflexivity).
      rewrite F. split; [exact M|]. intros H. rewrite (C H). destruct (err st1); reflexivity.
Qed.

Lemma sim_write_part_header : forall hdrs, simop (write_part_header hdrs).
Proof.
  intros hdrs. unfold write_part_header.
  apply (simop_comp (fun st => fold_left _ (sort_kv hdrs) st) (write_string crlf)); [|apply sim_write_string].
  apply simop_fold. intros kv. apply (simop_fold _ (fun s2 v => write_string (fst kv ++ bs ": " ++ v ++ crlf) s2)).
  intros v. apply sim_write_string.
Qed.

(* ---------- msgWriter ---------- *)
Lemma sim_body_after : forall (hd : mw -> mw) p e,
  simop hd -> simop (fun st => let st1 := hd st in if err st1 then st1 else st1 |> write_body p e).
Proof.
  intros hd p e H. cbv zeta.
  apply (simop_comp hd (fun st1 => if err st1 then st1 else st1 |> write_body p e)); [exact H|].
  apply (simop_if err); [intros s; reflexivity|apply simop_id|apply simop_andthen, sim_write_body].
Qed.

Lemma sim_write_part : forall encl w cs p, simop (write_part encl w cs p).
Proof.
  intros encl w cs p. unfold write_part. cbv zeta.
  apply (sim_body_after (fun st => if Nat.eqb (depth st) 0 then _ else _)).
  apply (simop_if (fun st => Nat.eqb (depth st) 0)); [intros s; reflexivity| |apply sim_new_part].
  destruct encl; [apply sim_write_part_header|].
  apply (simop_comp (fun st => write_header_uncounted h_ctype _ (write_header_uncounted h_cte _ st)) (write_string crlf));
    [|apply sim_write_string].
  apply (simop_comp (write_header_uncounted h_cte _) (write_header_uncounted h_ctype _)); apply sim_header_uncounted.
Qed.

Lemma sim_add_files : forall encl files, simop (add_files encl files).
Proof.
  intros encl files. induction files as [|[f' e] rest IH]; cbn [add_files]; [apply simop_id|].
  apply (simop_if panicked); [intros s; reflexivity|apply simop_id|].
  apply (simop_comp (fun st => let st1 := if Nat.eqb (depth st) 0 then _ else _ in
                               if err st1 then st1 else st1 |> write_body (f_prod f') e) (add_files encl rest)); [|exact IH].
  apply (sim_body_after (fun st => if Nat.eqb (depth st) 0 then _ else _)).
  apply (simop_if (fun st => Nat.eqb (depth st) 0)); [intros s; reflexivity| |apply sim_new_part].
  destruct encl; [apply sim_write_part_header|].
  apply (simop_comp (fun st => fold_left _ _ st) (write_string crlf)); [|apply sim_write_string].
  apply simop_fold. intros kv. apply sim_header_uncounted.
Qed.

Lemma sim_add_files_safe : forall encl files, simop (add_files_safe encl files).
Proof.
  intros. unfold add_files_safe. apply (simop_if panicked); [intros s; reflexivity|apply simop_id|apply sim_add_files].
Qed.

Lemma sim_open_mp : forall c mime b bad, simop (open_mp c mime b bad).
Proof.
  intros c mime b bad. unfold open_mp. destruct c; [|apply simop_id].
  apply (simop_if panicked); [intros s; reflexivity|apply simop_id|]. cbv zeta.
  apply (simop_comp (start_mp mime b bad) (fun s => if Nat.eqb (depth s) 1 then s |> write_string Gen.double_newline else s));
    [apply sim_start_mp|].
  apply (simop_if (fun s => Nat.eqb (depth s) 1)); [intros s; reflexivity|apply simop_andthen, sim_write_string|apply simop_id].
Qed.

Lemma sim_close_mp : forall c, simop (close_mp c).
Proof. intros c. unfold close_mp. destruct c; [apply simop_andthen, sim_stop_mp|apply simop_id]. Qed.

Lemma sim_write_parts : forall encl m, simop (write_parts encl m).
Proof.
  intros. unfold write_parts. apply simop_fold. intros p. apply simop_andthen, sim_write_part.
Qed.

Lemma sim_top_headers : forall z, simop (write_top_headers z).
Proof.
  intros z. unfold write_top_headers. cbv zeta. set (m := z_msg z).
  apply (simop_comp (fun st => write_preformatted (m_preform m) (write_gen_headers (m_gen m) st)) (write_addr_headers m)).
  - apply (simop_comp (write_gen_headers (m_gen m)) (write_preformatted (m_preform m))).
    + unfold write_gen_headers. apply simop_fold. intros kv. apply sim_header_counted.
    + unfold write_preformatted. apply simop_fold. intros kv. cbv zeta.
      apply (simop_comp (write_string _) (fun s => add_hcount s _)); [apply sim_write_string|apply simop_upd; reflexivity].
  - unfold write_addr_headers.
    apply (simop_comp (fun st => match m_from m with Some f => write_header_counted Gen.hdr_from [f] st | None => st end)
                      (fun st3 => fold_left _ Gen.render_addr_headers st3)).
    + destruct (m_from m); [apply sim_header_counted|apply simop_id].
    + apply simop_fold. intros k. destruct (find _ (m_addr m)); [apply sim_header_counted|apply simop_id].
Qed.

Lemma sim_write_entity : forall encl z, simop (write_entity encl z).
Proof.
  intros encl z. unfold write_entity. cbv zeta. set (m := z_msg z).
  apply (simop_comp _ (close_mp _)); [|apply sim_close_mp].
  apply (simop_comp _ (add_files_safe encl _)); [|apply sim_add_files_safe].
  apply (simop_comp _ (close_mp _)); [|apply sim_close_mp].
  apply (simop_comp _ (add_files_safe encl _)); [|apply sim_add_files_safe].
  apply (simop_comp _ (close_mp _)); [|apply sim_close_mp].
  apply (simop_comp _ (write_parts encl m)); [|apply sim_write_parts].
  apply (simop_comp _ (open_mp _ _ _ _)); [|apply sim_open_mp].
  apply (simop_comp (open_mp _ _ _ _) (open_mp _ _ _ _)); apply sim_open_mp.
Qed.

Theorem sim_write_resolved : forall z, simop (write_resolved z).
Proof.
  intros z. unfold write_resolved, write_resolved_gen.
  apply (simop_comp (write_top_headers z) (write_entity false z)); [apply sim_top_headers|apply sim_write_entity].
Qed.

(* ---------- the C12 statement ---------- *)
Lemma uncap_init : forall k, fresh_sink k -> uncap (mw_init k) = mw_init unlimited.
Proof. intros k [Ha Hf]. unfold uncap, mw_init, ucs, unlimited. cbn. now rewrite Ha, Hf. Qed.

Theorem success_means_complete : forall date msgid rb m k,
  fresh_sink k ->
  r_err (write_to date msgid rb m k) = false ->
  failed (snk (fst (write_msg date msgid rb m (mw_init k)))) = false /\
  r_out (write_to date msgid rb m k) = r_out (write_to date msgid rb m unlimited) /\
  r_n (write_to date msgid rb m k) = length (r_out (write_to date msgid rb m unlimited)) /\
  r_err (write_to date msgid rb m unlimited) = false.
Proof.
  intros date msgid rb m k Hk He.
  assert (Hfail : failed (snk (fst (write_msg date msgid rb m (mw_init k)))) = false).
  { destruct (failed _) eqn:E; [|reflexivity].
    rewrite (write_to_sink_failure_reported date msgid rb m k Hk E) in He. discriminate. }
  pose proof (write_to_count date msgid rb m k Hk) as Hn.
  unfold write_to, write_msg in *. cbn [fst r_out r_n r_err] in *.
  set (z := resolve date msgid rb m) in *.
  destruct (sim_write_resolved z (mw_init k)) as [_ C]. specialize (C Hfail).
  rewrite (uncap_init k Hk) in C. rewrite <- C. cbn [uncap snk ucs accepted err].
  split; [exact Hfail|]. split; [reflexivity|]. split; [exact Hn|exact He].
Qed.

(* the same for the S/MIME render *)
Lemma sim_write_sig_part : forall sig, simop (write_sig_part sig).
Proof.
  intros sig. unfold write_sig_part. cbv zeta.
  apply (sim_body_after (fun st => if Nat.eqb (depth st) 0 then _ else _)).
  apply (simop_if (fun st => Nat.eqb (depth st) 0)); [intros s; reflexivity| |apply sim_new_part].
  apply (simop_comp (fun st => write_header_uncounted h_ctype _ (write_header_uncounted h_cte _ st)) (write_string crlf));
    [|apply sim_write_string].
  apply (simop_comp (write_header_uncounted h_cte _) (write_header_uncounted h_ctype _)); apply sim_header_uncounted.
Qed.

Theorem sim_write_resolved_signed : forall z sb sig, simop (write_resolved_signed z sb sig).
Proof.
  intros z sb sig. unfold write_resolved_signed. cbv zeta.
  apply (simop_comp _ (fun s => s |> stop_mp)); [|apply simop_andthen, sim_stop_mp].
  apply (simop_comp _ (fun s => s |> write_sig_part sig)); [|apply simop_andthen, sim_write_sig_part].
  apply (simop_comp _ (fun s => s |> write_entity false z)); [|apply simop_andthen, sim_write_entity].
  apply (simop_comp _ (fun s => s |> write_string Gen.double_newline)); [|apply simop_andthen, sim_write_string].
  apply (simop_comp (write_top_headers z) (start_mp Gen.mime_smime_signed sb false)); [apply sim_top_headers|apply sim_start_mp].
Qed.

Theorem signed_success_means_complete : forall signer date msgid rb sb m k,
  fresh_sink k ->
  s_err (write_to_signed signer date msgid rb sb m k) = false ->
  s_out (write_to_signed signer date msgid rb sb m k) = s_out (write_to_signed signer date msgid rb sb m unlimited) /\
  s_n (write_to_signed signer date msgid rb sb m k) = length (s_out (write_to_signed signer date msgid rb sb m unlimited)) /\
  s_err (write_to_signed signer date msgid rb sb m unlimited) = false.
Proof.
  intros signer date msgid rb sb m k Hk He.
  destruct (signed_render_sound signer date msgid rb sb m k Hk) as [_ Hn].
  unfold write_to_signed in *. set (z := resolve date msgid rb m) in *.
  destruct (err (prerender z)); [cbn [s_err] in He; discriminate|].
  destruct (sign_input z) as [inp|]; cbn [s_err s_out s_n] in *; [|discriminate].
  destruct Hk as [Ha Hf0].
  destruct (write_resolved_signed_spec z sb (signer inp) (mw_init k) (Inv_init k Ha Hf0)) as ((_ & _ & _ & HF) & _).
  assert (Hfail : fl (write_resolved_signed z sb (signer inp) (mw_init k)) = false).
  { unfold fl. destruct (failed (snk (write_resolved_signed z sb (signer inp) (mw_init k)))) eqn:E; [|reflexivity].
    rewrite (HF eq_refl) in He. discriminate. }
  destruct (sim_write_resolved_signed z sb (signer inp) (mw_init k)) as [_ C]. specialize (C Hfail).
  rewrite (uncap_init k (conj Ha Hf0)) in C. rewrite <- C. cbn [uncap snk ucs accepted err].
  split; [reflexivity|]. split; [exact Hn|exact He].
Qed.

(* with the pure view (RenderProofs.v): a render without error on ANY destination delivered exactly
   the pure rendering of the message *)
Theorem success_means_pure : forall date msgid rb m k,
  fresh_sink k -> no_bad_boundary (resolve date msgid rb m) ->
  r_err (write_to date msgid rb m k) = false ->
  r_out (write_to date msgid rb m k) = render_pure (resolve date msgid rb m) /\
  r_n (write_to date msgid rb m k) = length (render_pure (resolve date msgid rb m)).
Proof.
  intros date msgid rb m k Hk B He.
  assert (Hp : msg_has_failing_producer m = false).
  { destruct (msg_has_failing_producer m) eqn:E; [|reflexivity].
    rewrite (write_to_producer_failure_reported date msgid rb m k Hk E) in He. discriminate. }
  destruct (success_means_complete date msgid rb m k Hk He) as (_ & Ho & Hn & _).
  destruct (write_to_pure date msgid rb m B Hp) as (Ep & _).
  rewrite Ho, Hn, Ep. auto.
Qed.
