(* Proofs for C10: the file-name round trip through Content-Disposition and the header field names
   of a re-rendered parsed message. *)
From Coq Require Import String.
From Verif Require Import Bytes Eml EmlRender.
From VerifGen Require Import Gen.
From VerifProofs Require Import EmlProofs.
From Coq Require Import ZArith Lia ZifyBool ZifyNat ZifyN Permutation.

(* ---------- bytes_eqb is equality ---------- *)
Lemma beqb_eq : forall a b, bytes_eqb a b = true <-> a = b.
Proof.
  induction a as [|x a IH]; destruct b as [|y b]; cbn [bytes_eqb]; split; intros H;
    try reflexivity; try discriminate.
  - apply andb_true_iff in H. destruct H as [H1 H2]. apply N.eqb_eq in H1. apply IH in H2. congruence.
  - inversion H; subst. rewrite N.eqb_refl. cbn. now apply IH.
Qed.
Lemma beqb_refl : forall a, bytes_eqb a a = true.
Proof. intros. now apply beqb_eq. Qed.
Lemma beqb_neq : forall a b, bytes_eqb a b = false <-> a <> b.
Proof.
  intros a b. split.
  - intros H E. apply beqb_eq in E. congruence.
  - intros H. destruct (bytes_eqb a b) eqn:E; [apply beqb_eq in E; contradiction | reflexivity].
Qed.

(* ---------- splitting strings that do not contain the separator ---------- *)
Definition has (c : N) (s : bytes) : bool := existsb (N.eqb c) s.

Lemma split_on_none : forall sep s, has sep s = false -> split_on sep s = [s].
Proof.
  intros sep. induction s as [|b t IH]; intros H; cbn [split_on]; [reflexivity|].
  cbn [has existsb] in H. apply orb_false_iff in H. destruct H as [H1 H2].
  rewrite N.eqb_sym in H1. rewrite H1. rewrite (IH H2). reflexivity.
Qed.

Lemma split_on_app : forall sep a b, has sep a = false ->
  split_on sep (a ++ sep :: b) = a :: split_on sep b.
Proof.
  intros sep. induction a as [|x a IH]; intros b H; cbn [app split_on].
  - rewrite N.eqb_refl. reflexivity.
  - cbn [has existsb] in H. apply orb_false_iff in H. destruct H as [H1 H2].
    rewrite N.eqb_sym in H1. rewrite H1. rewrite (IH b H2). reflexivity.
Qed.

Lemma splitn2_app : forall sep a b, has sep a = false ->
  splitn2 sep (a ++ sep :: b) = [a; b].
Proof.
  intros sep. induction a as [|x a IH]; intros b H; cbn [app splitn2].
  - rewrite N.eqb_refl. reflexivity.
  - cbn [has existsb] in H. apply orb_false_iff in H. destruct H as [H1 H2].
    rewrite N.eqb_sym in H1. rewrite H1. rewrite (IH b H2). reflexivity.
Qed.

(* ---------- the repaired file-name rule strips exactly the surrounding quotes ---------- *)
Lemma firstn_app_exact : forall A (l r : list A), firstn (length l) (l ++ r) = l.
Proof. induction l; intros; cbn; [reflexivity | now rewrite IHl]. Qed.

Lemma filename_of_quoted : forall e, filename_of (dquote :: e ++ [dquote]) = Ok e.
Proof.
  intros e. rewrite filename_of_quoted_same. unfold filename_of_old, go_slice.
  assert (Hl : ilen (dquote :: e ++ [dquote]) = (ilen e + 2)%Z).
  { unfold ilen. cbn [length]. rewrite app_length. cbn [length]. lia. }
  rewrite Hl. pose proof (ilen_nonneg _ e) as Hn.
  replace ((0 <=? 1) && (1 <=? ilen e + 2 - 1) && (ilen e + 2 - 1 <=? ilen e + 2))%Z%bool with true
    by (symmetry; lia).
  replace (Z.to_nat (ilen e + 2 - 1 - 1)) with (length e) by (unfold ilen; lia).
  change (Z.to_nat 1) with 1%nat. cbn [skipn]. now rewrite firstn_app_exact.
Qed.

Lemma pmh_of_split2 : forall s a b, split_on 59 s = [a; b] ->
  parse_multipart_header s = (o <- pmh_opts [b] [] ;; Ok (a, o)).
Proof. intros s a b H. unfold parse_multipart_header. rewrite H. reflexivity. Qed.

Lemma pmh_opts_one : forall opt k v, trim_left_sp opt = k ++ 61%N :: v -> has 61 k = false ->
  pmh_opts [opt] [] = Ok [(k, v)].
Proof.
  intros opt k v Ht Hk. cbn [pmh_opts]. rewrite Ht. rewrite splitn2_app by assumption. reflexivity.
Qed.

(* the parser returns, verbatim, whatever stands between the quotes — provided it has no ';' *)
Lemma parse_cd_render : forall disp e,
  has 59 disp = false -> has 59 e = false ->
  parse_cd_filename filename_of (render_cd disp e) = Ok e.
Proof.
  intros disp e Hd He. unfold parse_cd_filename.
  assert (Hr : render_cd disp e = disp ++ 59%N :: (bs " filename=""" ++ e ++ [dquote])) by reflexivity.
  assert (Hs : split_on 59 (render_cd disp e) = [disp; bs " filename=""" ++ e ++ [dquote]]).
  { rewrite Hr. rewrite split_on_app by assumption. rewrite split_on_none; [reflexivity|].
    unfold has. rewrite existsb_app, existsb_app. unfold has in He. rewrite He. reflexivity. }
  rewrite (pmh_of_split2 _ _ _ Hs).
  rewrite (pmh_opts_one _ lit_filename (dquote :: e ++ [dquote])); [|reflexivity|reflexivity].
  cbn [bind snd map_get]. rewrite beqb_refl. apply filename_of_quoted.
Qed.

Lemma sanitize_length : forall n, length (sanitize n) = length n.
Proof. intros. unfold sanitize. apply map_length. Qed.

Lemma has_map_false : forall c (f : N -> N) s,
  (forall b, N.eqb c (f b) = true -> N.eqb c b = true) -> has c s = false -> has c (map f s) = false.
Proof.
  intros c f. induction s as [|b t IH]; intros Hf H; [reflexivity|].
  cbn [map has existsb] in *. apply orb_false_iff in H. destruct H as [H1 H2].
  apply orb_false_iff. split; [|now apply IH].
  destruct (N.eqb c (f b)) eqn:E; [|reflexivity]. apply Hf in E. congruence.
Qed.

Lemma sanitize_no_semicolon : forall n, has 59 n = false -> has 59 (sanitize n) = false.
Proof.
  intros n H. unfold sanitize. apply has_map_false; [|assumption].
  intros b E. destruct (sanitize_bad b); [cbn in E; discriminate | assumption].
Qed.

(* a name without ';' comes back as its sanitized form (what the writer put on the wire) *)
Lemma roundtrip_filename_ok : forall name,
  has 59 name = false -> roundtrip_filename name = Ok (sanitize name).
Proof.
  intros name H. unfold roundtrip_filename. apply parse_cd_render; [reflexivity|].
  now apply sanitize_no_semicolon.
Qed.

Lemma sanitize_id : forall name, forallb (fun b => negb (sanitize_bad b)) name = true -> sanitize name = name.
Proof.
  induction name as [|b t IH]; intros H; [reflexivity|].
  cbn [forallb] in H. apply andb_true_iff in H. destruct H as [H1 H2].
  unfold sanitize in *. cbn [map]. apply negb_true_iff in H1. rewrite H1. now rewrite IH.
Qed.

(* ---------- header field names of the re-render ---------- *)
Lemma memb_In : forall k l, memb k l = true <-> In k l.
Proof.
  intros k l. unfold memb. rewrite existsb_exists. split.
  - intros [x [Hx E]]. apply beqb_eq in E. now subst.
  - intros H. exists k. split; [assumption | apply beqb_refl].
Qed.

Lemma insert_sorted_perm : forall k l, Permutation (insert_sorted k l) (k :: l).
Proof.
  intros k. induction l as [|x t IH]; cbn [insert_sorted]; [reflexivity|].
  destruct (bytes_ltb x k); [|reflexivity].
  rewrite IH. apply perm_swap.
Qed.
Lemma sort_keys_perm : forall l, Permutation (sort_keys l) l.
Proof.
  induction l as [|x t IH]; cbn; [reflexivity|].
  rewrite insert_sorted_perm. now rewrite IH.
Qed.

Lemma nodup_app : forall (a b : list bytes),
  NoDup a -> NoDup b -> (forall x, In x a -> ~ In x b) -> NoDup (a ++ b).
Proof.
  induction a as [|x a IH]; intros b Ha Hb Hd; cbn [app]; [assumption|].
  inversion Ha; subst. constructor.
  - intros Hin. apply in_app_or in Hin. destruct Hin as [H|H]; [contradiction|].
    apply (Hd x); [now left | assumption].
  - apply IH; try assumption. intros y Hy. apply Hd. now right.
Qed.

Lemma add_missing_nodup : forall k l, NoDup l -> NoDup (add_missing k l).
Proof.
  intros k l H. unfold add_missing. destruct (memb k l) eqn:E; [assumption|].
  apply nodup_app; [assumption | repeat constructor; intros [] |].
  intros x Hx [Hk|[]]. subst x. apply memb_In in Hx. congruence.
Qed.

Lemma add_missing_in : forall k l x, In x (add_missing k l) -> x = k \/ In x l.
Proof.
  intros k l x. unfold add_missing. destruct (memb k l); [now right|].
  intros H. apply in_app_or in H. destruct H as [H|[H|[]]]; [now right | now left].
Qed.

Lemma gen_keys_nodup : forall keys, NoDup keys -> NoDup (gen_keys_at_render keys).
Proof.
  intros keys H. unfold gen_keys_at_render.
  set (k3 := add_missing hdr_mime_version (add_missing hdr_message_id (add_missing hdr_date keys))).
  assert (H3 : NoDup k3) by (subst k3; repeat apply add_missing_nodup; assumption).
  destruct (memb hdr_user_agent k3) eqn:Eu; cbn [negb andb]; [assumption|].
  destruct (memb hdr_x_mailer k3) eqn:Ex; cbn [negb]; [assumption|].
  apply nodup_app; [assumption | |].
  - constructor; [intros [E|[]]; vm_compute in E; discriminate | repeat constructor; intros []].
  - intros x Hx [E|[E|[]]]; subst x; apply memb_In in Hx; congruence.
Qed.

Definition extra_keys : list bytes := [hdr_date; hdr_message_id; hdr_mime_version; hdr_user_agent; hdr_x_mailer].

Lemma gen_keys_in : forall keys x, In x (gen_keys_at_render keys) -> In x extra_keys \/ In x keys.
Proof.
  intros keys x. unfold gen_keys_at_render.
  set (k3 := add_missing hdr_mime_version (add_missing hdr_message_id (add_missing hdr_date keys))).
  assert (H3 : In x k3 -> In x extra_keys \/ In x keys).
  { subst k3. intros H.
    apply add_missing_in in H. destruct H as [H|H]; [subst; left; cbn; tauto|].
    apply add_missing_in in H. destruct H as [H|H]; [subst; left; cbn; tauto|].
    apply add_missing_in in H. destruct H as [H|H]; [subst; left; cbn; tauto|]. now right. }
  destruct (negb (memb hdr_user_agent k3) && negb (memb hdr_x_mailer k3))%bool; [|exact H3].
  intros H. apply in_app_or in H. destruct H as [H|H]; [now apply H3|].
  left. destruct H as [H|[H|[]]]; subst; cbn; tauto.
Qed.

(* ---------- the generic headers of a parsed message ---------- *)
Lemma map_set_keys_in : forall m k v x, In x (map fst (map_set m k v)) -> x = k \/ In x (map fst m).
Proof.
  induction m as [|[k' v'] t IH]; intros k v x H; cbn [map_set] in H.
  - cbn in H. destruct H as [H|[]]. now left.
  - destruct (bytes_eqb k' k) eqn:E.
    + cbn [map fst] in *. destruct H as [H|H]; [now left | right; now right].
    + cbn [map fst] in *. destruct H as [H|H]; [right; now left|].
      apply IH in H. destruct H; [now left | right; now right].
Qed.

Lemma map_set_keys_nodup : forall m k v, NoDup (map fst m) -> NoDup (map fst (map_set m k v)).
Proof.
  induction m as [|[k' v'] t IH]; intros k v H; cbn [map_set].
  - cbn. constructor; [intros [] | constructor].
  - cbn [map fst] in H. inversion H; subst.
    destruct (bytes_eqb k' k) eqn:E.
    + apply beqb_eq in E. subst k'. cbn [map fst]. now constructor.
    + cbn [map fst]. constructor; [|now apply IH].
      intros Hin. apply map_set_keys_in in Hin. destruct Hin as [Hin|Hin]; [|contradiction].
      apply beqb_neq in E. congruence.
Qed.

Definition gen_wf (allowed : list bytes) (st : mstate) : Prop :=
  NoDup (map fst (m_gen st)) /\ forall x, In x (map fst (m_gen st)) -> In x allowed.

Lemma set_gen_wf : forall allowed st k v, gen_wf allowed st -> In k allowed -> gen_wf allowed (set_gen st k v).
Proof.
  intros allowed st k v [H1 H2] Hk. split; cbn [set_gen m_gen].
  - now apply map_set_keys_nodup.
  - intros x Hx. apply map_set_keys_in in Hx. destruct Hx as [->|Hx]; auto.
Qed.

Lemma copy_common_wf : forall legacy allowed keys h st,
  gen_wf allowed st -> (forall k, In k keys -> In k allowed) -> gen_wf allowed (copy_common legacy keys h st).
Proof.
  intros legacy allowed. induction keys as [|k rest IH]; intros h st Hw Hk; cbn [copy_common]; [assumption|].
  assert (Hr : forall k0, In k0 rest -> In k0 allowed) by (intros; apply Hk; now right).
  destruct (is_empty (hget h k)); [now apply IH|].
  destruct (legacy && eqfold k hdr_content_type && is_prefix type_multipart_mixed (hget h k))%bool; [now apply IH|].
  apply IH; [|assumption]. apply set_gen_wf; [assumption | apply Hk; now left].
Qed.

(* the keys parseEMLHeaders may set on the repaired tree: Date and the commonHeaders list of the source *)
Definition allowed_keys : list bytes := hdr_date :: eml_common_headers.

Lemma set_charset_gen : forall st c, m_gen (set_charset st c) = m_gen st. Proof. reflexivity. Qed.
Lemma set_enc_gen : forall st c, m_gen (set_enc st c) = m_gen st. Proof. reflexivity. Qed.

Lemma bind_ok_inv : forall A B (o : outcome A) (f : A -> outcome B) b,
  bind o f = Ok b -> exists a, o = Ok a /\ f a = Ok b.
Proof. intros A B o f b H. destruct o; cbn in H; try discriminate. eauto. Qed.

Lemma ok_inj : forall A (a b : A), Ok a = Ok b -> a = b.
Proof. intros A a b H. now inversion H. Qed.

Lemma parse_headers_wf_aux : forall h st2 a v,
  m_gen st2 = [] ->
  gen_wf allowed_keys (copy_common false (common_headers false) h (set_gen (set_addrs st2 a) hdr_date v)).
Proof.
  intros h st2 a v Hg. apply copy_common_wf.
  - apply set_gen_wf; [|now left]. split; cbn [set_addrs m_gen]; rewrite Hg; [constructor | intros x []].
  - unfold common_headers, allowed_keys. intros k Hk. now right.
Qed.

Lemma parse_ct_charset_gen : forall h st st2,
  m_gen st = [] -> parse_ct_charset false h st = Ok st2 -> m_gen st2 = [].
Proof.
  intros h st st2 Hg H2. unfold parse_ct_charset in H2.
  destruct (is_empty (hget h hdr_content_type)).
  - apply ok_inj in H2. now subst.
  - apply bind_ok_inv in H2. destruct H2 as [[ct opt] [_ H2]]. cbn [andb] in H2.
    apply ok_inj in H2. subst st2. destruct (map_get opt lit_charset); exact Hg.
Qed.

Lemma parse_encoding_gen : forall h st, m_gen (parse_encoding h st) = m_gen st.
Proof.
  intros h st. unfold parse_encoding.
  destruct (is_empty _); [reflexivity|]. destruct (eqfold _ enc_qp); [reflexivity|].
  destruct (eqfold _ enc_b64); reflexivity.
Qed.

Lemma parse_headers_wf : forall h f t c b d st',
  parse_headers false h f t c b d st_init = Ok st' -> gen_wf allowed_keys st'.
Proof.
  intros h f t c b d st' H. unfold parse_headers in H.
  apply bind_ok_inv in H. destruct H as [st2 [H2 H]].
  assert (Hg : m_gen st2 = []).
  { eapply parse_ct_charset_gen; [|exact H2]. now rewrite parse_encoding_gen. }
  destruct (aerr f || aerr t || aerr c || aerr b)%bool; [discriminate|].
  destruct d as [| |fd]; [|discriminate|]; apply ok_inj in H; subst st'; now apply parse_headers_wf_aux.
Qed.

(* ---------- the body parser never touches the generic headers ---------- *)
Definition gp (f : mstate -> outcome mstate) : Prop := forall s s', f s = Ok s' -> m_gen s' = m_gen s.

Ltac inv_ok :=
  repeat match goal with
  | H : bind ?o _ = Ok _ |- _ => apply bind_ok_inv in H; let a := fresh "a" in let Ha := fresh "Ha" in destruct H as [a [Ha H]]
  | H : Err = Ok _ |- _ => discriminate H
  | H : Panic = Ok _ |- _ => discriminate H
  | H : Ok _ = Ok _ |- _ => inversion H; subst; clear H
  | H : (if ?c then _ else _) = Ok _ |- _ => destruct c
  | H : (let '(_, _) := ?p in _) = Ok _ |- _ => destruct p
  | H : match ?x with _ => _ end = Ok _ |- _ => destruct x
  end.

Lemma attachment_embed_gp : forall cd h b d, gp (attachment_embed filename_of cd h b d).
Proof.
  intros cd h b d s s' H. unfold attachment_embed in H. inv_ok; reflexivity.
Qed.

Lemma parse_body_plain_gp : forall mt h b, gp (parse_body_plain mt h b).
Proof.
  intros mt h b s s' H. unfold parse_body_plain in H. inv_ok; reflexivity.
Qed.

Lemma body_phase_gp : forall p d, gp (body_phase filename_of false p d).
Proof.
  intros p d s s' H. unfold body_phase in H.
  destruct (hvals (e_hdr p) hdr_content_disposition) as [|c cd].
  - inv_ok; reflexivity.
  - now apply attachment_embed_gp in H.
Qed.

Lemma part_step_gp : forall sub p, gp sub -> gp (part_step filename_of false sub p).
Proof.
  intros sub p Hsub s s' H. unfold part_step in H.
  apply bind_ok_inv in H. destruct H as [[st1 drained] [H1 H]].
  assert (G1 : m_gen st1 = m_gen s).
  { unfold nested_phase in H1.
    destruct (hvals (e_hdr p) hdr_content_type) as [|c0 [|c1 r]]; try (inversion H1; reflexivity).
    inv_ok; try reflexivity; apply Hsub; assumption. }
  rewrite <- G1. now apply body_phase_gp in H.
Qed.

Lemma run_parts_gp : forall steps end_ok, Forall gp steps -> gp (run_parts steps end_ok).
Proof.
  induction steps as [|f rest IH]; intros end_ok HF s s' H; cbn [run_parts] in H.
  - destruct end_ok; inversion H; reflexivity.
  - inversion HF; subst. apply bind_ok_inv in H. destruct H as [s1 [H1 H]].
    rewrite (IH end_ok H3 _ _ H). now apply H2.
Qed.

Lemma parse_body_parts_gp : forall e, gp (parse_body_parts filename_of false e).
Proof.
  induction e as [h mt b parts end_ok IH] using entity_ind'. intros s s' H.
  assert (Hgo : forall mediatype charset hb,
    (let st1 := match charset with Some c => set_charset s c | None => s end in
        if (eqfold mediatype type_text_plain || eqfold mediatype type_text_html)%bool
        then parse_body_plain mediatype h b st1
        else if (eqfold mediatype type_multipart_alternative || eqfold mediatype type_multipart_mixed
                 || eqfold mediatype type_multipart_related)%bool
             then if negb hb then Err
                  else run_parts (map (fun p => part_step filename_of false (parse_body_parts filename_of false p) p) parts) end_ok st1
             else Err) = Ok s' -> m_gen s' = m_gen s).
  { intros mediatype charset hb. cbv zeta. intros G.
    assert (Es : m_gen (match charset with Some c => set_charset s c | None => s end) = m_gen s)
      by (destruct charset; reflexivity).
    rewrite <- Es.
    destruct (eqfold mediatype type_text_plain || eqfold mediatype type_text_html)%bool.
    - now apply parse_body_plain_gp in G.
    - destruct (eqfold mediatype type_multipart_alternative || eqfold mediatype type_multipart_mixed
                || eqfold mediatype type_multipart_related)%bool; [|discriminate].
      destruct (negb hb); [discriminate|].
      eapply run_parts_gp; [|exact G]. apply Forall_map.
      eapply Forall_impl; [|exact IH]. intros p Hp. cbv beta. now apply part_step_gp. }
  destruct mt as [| |m c hb].
  - exact (Hgo type_text_plain (Some charset_ascii) false H).
  - cbn [parse_body_parts] in H. discriminate.
  - exact (Hgo m c hb H).
Qed.

Lemma parse_eml_fixed_wf : forall t st, parse_eml_fixed t = Ok st -> gen_wf allowed_keys st.
Proof.
  intros t st H. unfold parse_eml_fixed, parse_eml in H.
  destruct (negb (t_msg_ok t)); [discriminate|].
  apply bind_ok_inv in H. destruct H as [st1 [H1 H]].
  apply parse_headers_wf in H1. apply parse_body_parts_gp in H.
  unfold gen_wf in *. now rewrite H.
Qed.

(* ---------- no header field name occurs twice in the re-render ---------- *)
(* T1: none of the names the writer emits itself (From, To, Cc, Content-Transfer-Encoding,
   Content-Type) is among the keys the parser may put into the generic headers, and none is one of
   the writer's default keys: a finite check over the commonHeaders list of the source *)
Definition writer_fields : list bytes := [hdr_from; hdr_to; hdr_cc; hdr_content_transfer_enc; hdr_content_type].

Lemma writer_fields_not_generic :
  forallb (fun k => negb (memb k (extra_keys ++ allowed_keys))) writer_fields = true.
Proof. vm_compute. reflexivity. Qed.

Lemma writer_field_not_key : forall keys x,
  (forall k, In k keys -> In k allowed_keys) ->
  In x writer_fields -> ~ In x (sort_keys (gen_keys_at_render keys)).
Proof.
  intros keys x Hk Hx Hin.
  apply (Permutation_in _ (sort_keys_perm _)) in Hin. apply gen_keys_in in Hin.
  assert (Hm : In x (extra_keys ++ allowed_keys)).
  { apply in_or_app. destruct Hin; [now left | right; now apply Hk]. }
  pose proof writer_fields_not_generic as W. rewrite forallb_forall in W.
  specialize (W x Hx). apply negb_true_iff in W. apply memb_In in Hm. congruence.
Qed.

Lemma rerender_fields_nodup : forall st hf ht hc,
  gen_wf allowed_keys st -> NoDup (rerender_fields st hf ht hc).
Proof.
  intros st hf ht hc [Hn Hk]. unfold rerender_fields.
  set (K := sort_keys (gen_keys_at_render (map fst (m_gen st)))).
  match goal with |- NoDup (_ ++ _ ++ _ ++ _ ++ tail_fields ?m ?s) => generalize m as multi; generalize s as single end.
  intros single multi.
  assert (HK : NoDup K).
  { subst K. eapply Permutation_NoDup; [symmetry; apply sort_keys_perm|]. now apply gen_keys_nodup. }
  assert (Hrest : NoDup ((if hf then [hdr_from] else []) ++ (if ht then [hdr_to] else []) ++
                         (if hc then [hdr_cc] else []) ++ tail_fields multi single) /\
                  forall x, In x ((if hf then [hdr_from] else []) ++ (if ht then [hdr_to] else []) ++
                                  (if hc then [hdr_cc] else []) ++ tail_fields multi single) -> In x writer_fields).
  { destruct hf, ht, hc, multi, single; cbn [tail_fields app];
      (split; [repeat constructor; cbn; intros F; repeat (destruct F as [F|F]; [vm_compute in F; discriminate|]); exact F
              | cbn; intros x F; repeat (destruct F as [F|F]; [subst; cbn; tauto|]); contradiction]). }
  destruct Hrest as [Hr1 Hr2].
  apply nodup_app; [assumption | assumption |].
  intros x Hx Hy. apply Hr2 in Hy. subst K. now apply (writer_field_not_key _ x Hk Hy).
Qed.

Lemma rerender_no_dup : forall t st hf ht hc,
  parse_eml_fixed t = Ok st -> NoDup (rerender_fields st hf ht hc).
Proof. intros. apply rerender_fields_nodup. eapply parse_eml_fixed_wf; eassumption. Qed.

(* ---------- before the repair: Content-Type twice ---------- *)
Definition single_part_msg : top :=
  mktop true ANone ANone ANone ANone DNone
    (Entity [(hdr_content_type, bs "text/plain; charset=UTF-8"); (hdr_content_transfer_enc, bs "quoted-printable");
             (hdr_subject, bs "s")]
            (MTOk type_text_plain (Some charset_utf8) false) bits_ok [] true).

Lemma rerender_dup_content_type_old :
  exists st, parse_eml filename_of true single_part_msg = Ok st /\
             nodupb (rerender_fields st true true false) = false /\
             Nat.ltb 1 (count_occ (list_eq_dec N.eq_dec) (rerender_fields st true true false) hdr_content_type) = true.
Proof. eexists. split; [vm_compute; reflexivity|]. split; vm_compute; reflexivity. Qed.

(* before the repair: the alternative container shows up as a third body part *)
Lemma phantom_alternative_old :
  exists st, parse_eml filename_of true nested_example = Ok st /\ length (m_parts st) = 3%nat /\
             exists st', parse_eml_fixed nested_example = Ok st' /\ length (m_parts st') = 2%nat.
Proof.
  eexists. split; [vm_compute; reflexivity|]. split; [vm_compute; reflexivity|].
  eexists. split; vm_compute; reflexivity.
Qed.

(* file names with ';' are cut at the ';' *)
Lemma roundtrip_semicolon_refuted :
  roundtrip_filename (bs "a;b.txt") = Ok (bs """a") /\ has 59 (bs "a;b.txt") = true.
Proof. split; vm_compute; reflexivity. Qed.

(* ---------- the encoding of a body part depends on the part's own header only ---------- *)
Lemma go_index_0_inv : forall A (l : list A) x, go_index l 0 = Ok x -> exists t, l = x :: t.
Proof.
  intros A l x H. unfold go_index in H. destruct l as [|y t].
  - cbn in H. discriminate.
  - destruct ((0 <=? 0)%Z && (0 <? ilen (y :: t))%Z)%bool; [|discriminate].
    cbn in H. inversion H; subst. now eexists.
Qed.

Lemma body_phase_enc_local : forall fnof legacy p d st1 st',
  hvals (e_hdr p) hdr_content_disposition = [] ->
  body_phase fnof legacy p d st1 = Ok st' ->
  st' = st1 \/
  exists ct cs enc content, st' = set_parts st1 (m_parts st1 ++ [mkp ct cs enc content]) /\
                    part_enc_of_hdr (e_hdr p) = Some enc.
Proof.
  intros fnof legacy p d st1 st' Hcd H. unfold body_phase in H. rewrite Hcd in H.
  destruct (negb (d || read_ok (e_bits p))); [discriminate|].
  destruct (hvals (e_hdr p) hdr_content_type) as [|c0 cts]; [discriminate|].
  apply bind_ok_inv in H. destruct H as [ct0 [_ H]].
  apply bind_ok_inv in H. destruct H as [[contentType optional] [_ H]].
  destruct (eqfold contentType type_multipart_related
            || negb legacy && eqfold contentType type_multipart_alternative)%bool.
  - left. now inversion H.
  - apply bind_ok_inv in H. destruct H as [e0 [He0 H]].
    apply go_index_0_inv in He0. destruct He0 as [t Ht].
    destruct (classify_cte e0) as [enc|] eqn:Ec; [|discriminate].
    destruct (bytes_eqb enc enc_b64 && negb (d || b64d_ok (e_bits p)))%bool; [discriminate|].
    right. exists contentType. eexists. exists enc. eexists. split; [now inversion H|].
    unfold part_enc_of_hdr. now rewrite Ht.
Qed.

(* two runs of the same part from ANY two predecessor states (and whatever was parsed before):
   if each appends a body part, the two parts carry the same encoding *)
Lemma part_enc_independent : forall fnof legacy p d1 d2 s1 s2 s1' s2' x1 x2,
  hvals (e_hdr p) hdr_content_disposition = [] ->
  body_phase fnof legacy p d1 s1 = Ok s1' -> body_phase fnof legacy p d2 s2 = Ok s2' ->
  m_parts s1' = m_parts s1 ++ [x1] -> m_parts s2' = m_parts s2 ++ [x2] ->
  p_enc x1 = p_enc x2 /\ part_enc_of_hdr (e_hdr p) = Some (p_enc x1).
Proof.
  intros fnof legacy p d1 d2 s1 s2 s1' s2' x1 x2 Hcd H1 H2 E1 E2.
  assert (K : forall d s s' x, body_phase fnof legacy p d s = Ok s' -> m_parts s' = m_parts s ++ [x] ->
              part_enc_of_hdr (e_hdr p) = Some (p_enc x)).
  { intros d s s' x H E. destruct (body_phase_enc_local _ _ _ _ _ _ Hcd H) as [->|[ct [cs [enc [content [-> He]]]]]].
    - exfalso. assert (L : length (m_parts s) = length (m_parts s ++ [x])) by now rewrite <- E.
      rewrite app_length in L. cbn in L. lia.
    - cbn [set_parts m_parts] in E. apply app_inv_head in E. inversion E; subst. exact He. }
  pose proof (K _ _ _ _ H1 E1) as K1. pose proof (K _ _ _ _ H2 E2) as K2.
  split; [congruence | exact K1].
Qed.

(* a quoted-printable part (header stripped by the stdlib reader) is quoted-printable whatever precedes it *)
Lemma part_enc_default_qp : forall h, hvals h hdr_content_transfer_enc = [] -> part_enc_of_hdr h = Some enc_qp.
Proof. intros h H. unfold part_enc_of_hdr, part_cte. rewrite H. vm_compute. reflexivity. Qed.
