(* SmtpSendCorollaries.v — the statements of props/C03.v and props/C04.v derived from run_spec. *)
From Coq Require Import String.
From Verif Require Import Bytes Textproto SendErr RefServer SmtpSend SmtpSendGen.
From VerifProofs Require Import SmtpSendProofs SmtpSendGenProofs.
Open Scope N_scope.

Section Cor.
Variable F : fixes.
Hypothesis HF : dialogue_repaired F.
Variable cfg : config.
Variable render : msg -> list bytes * option err.

Lemma run_legal : forall caps caps_tls script ms,
  let o := run_case std_expects F cfg caps caps_tls script ms render in
  all_legal (o_world o) = true /\ all_attributed (o_world o) = true.
Proof. intros. exact (proj1 (run_spec F HF cfg render caps caps_tls script ms)). Qed.

Lemma commits_exact : forall caps caps_tls script ms,
  let o := run_case std_expects F cfg caps caps_tls script ms render in
  w_commits (o_world o) = batch_commits render ms (o_results o).
Proof. intros. exact (proj1 (proj2 (run_spec F HF cfg render caps caps_tls script ms))). Qed.

Definition complete_commit (ms : list msg) (c : commit) : Prop :=
  exists m from, In m ms /\ m_from m = Some from /\ snd (render m) = None /\
                 c = mkCommit from (m_rcpts m) (dotcanon (concat (fst (render m)))).

Lemma batch_commits_complete : forall ms rs,
  Forall2 (msg_post render) ms rs -> Forall (complete_commit ms) (batch_commits render ms rs).
Proof.
  intros ms rs H. induction H as [|m r mt rt Hp Hf IH]; cbn [batch_commits]; [constructor|].
  apply Forall_app. split.
  - destruct (acked r) eqn:Ha; [|constructor].
    destruct Hp as (_ & Hr & _). specialize (Hr Ha).
    unfold commit_of. destruct (m_from m) as [from|] eqn:Hfrom; [|constructor].
    constructor; [|constructor]. exists m, from. cbn. auto.
  - eapply Forall_impl; [|exact IH]. intros c (m' & f & Hin & H1 & H2 & H3).
    exists m', f. split; [right; exact Hin|auto].
Qed.

Lemma commits_complete : forall caps caps_tls script ms,
  let o := run_case std_expects F cfg caps caps_tls script ms render in
  Forall (fun c => exists m from, In m ms /\ m_from m = Some from /\ snd (render m) = None /\
                   c = mkCommit from (m_rcpts m) (dotcanon (concat (fst (render m)))))
         (w_commits (o_world o)).
Proof.
  intros caps caps_tls script ms o. destruct (run_spec F HF cfg render caps caps_tls script ms) as (_ & HC & HR).
  fold o in HC, HR. rewrite HC. destruct (attempted (o_ret o)).
  - exact (batch_commits_complete _ _ HR).
  - rewrite HR, untouched_commits. constructor.
Qed.

Lemma batch_commits_mask : forall ms rs, length rs = length ms ->
  batch_commits render ms rs = flat_map (commit_of render) (map fst (filter snd (combine ms (map acked rs)))).
Proof.
  induction ms as [|m t IH]; intros rs H; [destruct rs; reflexivity|].
  destruct rs as [|r rt]; [discriminate|]. cbn [batch_commits map combine filter snd].
  rewrite (IH rt) by (cbn in H; injection H as H; exact H).
  destruct (acked r); cbn; reflexivity.
Qed.

Lemma forall2_length : forall (A B : Type) (P : A -> B -> Prop) la lb, Forall2 P la lb -> length la = length lb.
Proof. intros A B P la lb H. induction H; cbn; [reflexivity|f_equal; assumption]. Qed.

Lemma results_length : forall caps caps_tls script ms,
  length (o_results (run_case std_expects F cfg caps caps_tls script ms render)) = length ms.
Proof.
  intros caps caps_tls script ms. destruct (run_spec F HF cfg render caps caps_tls script ms) as (_ & _ & HR).
  destruct (attempted _).
  - symmetry. exact (forall2_length _ _ _ _ _ HR).
  - rewrite HR. unfold untouched. apply map_length.
Qed.

Lemma commits_at_most_once : forall caps caps_tls script ms,
  let o := run_case std_expects F cfg caps caps_tls script ms render in
  exists mask : list bool, length mask = length ms /\
    w_commits (o_world o) = flat_map (commit_of render) (map fst (filter snd (combine ms mask))).
Proof.
  intros caps caps_tls script ms o. exists (map acked (o_results o)).
  split; [rewrite map_length; apply results_length|].
  unfold o. rewrite commits_exact. apply batch_commits_mask. apply results_length.
Qed.

Lemma delivered_iff : forall caps caps_tls script ms,
  let o := run_case std_expects F cfg caps caps_tls script ms render in
  Forall (fun r => (r_delivered r = true <-> r_eod r = Some 250) /\
                   (r_delivered r = true -> acked r = true)) (o_results o).
Proof.
  intros caps caps_tls script ms o. destruct (run_spec F HF cfg render caps caps_tls script ms) as (_ & _ & HR). fold o in HR.
  destruct (attempted (o_ret o)).
  - induction HR as [|m r mt rt Hp Hf IH]; constructor; [|exact IH].
    destruct Hp as (H1 & _). split; [exact H1|]. intros Hd. apply H1 in Hd. unfold acked. rewrite Hd. reflexivity.
  - rewrite HR. apply Forall_forall. intros r Hin. apply untouched_results in Hin. subst r. cbn.
    split; [split; discriminate|discriminate].
Qed.

Lemma msg_post_render_failure : forall ms rs (b : bool),
  Forall2 (msg_post render) ms rs ->
  Forall2 (fun m r => snd (render m) <> None ->
             r_delivered r = false /\ acked r = false /\ (b = true -> r_err r <> None)) ms rs.
Proof.
  intros ms rs b HR. induction HR as [|m r mt rt Hp Hf IH]; constructor; [|exact IH].
  intros Hfail. destruct Hp as (_ & H2 & H3 & _). destruct (H3 Hfail) as [Hd He].
  split; [exact Hd|]. split; [|intros _; exact He].
  destruct (acked r) eqn:Ha; [|reflexivity]. exfalso. apply Hfail. apply H2. reflexivity.
Qed.

Lemma untouched_render_failure : forall ms,
  Forall2 (fun m r => snd (render m) <> None ->
             r_delivered r = false /\ acked r = false /\ (false = true -> r_err r <> None)) ms (untouched ms).
Proof.
  induction ms as [|m t IH]; cbn; constructor; [|exact IH].
  intros _. unfold acked; cbn. split; [reflexivity|split; [reflexivity|discriminate]].
Qed.

Lemma render_failure_not_delivered : forall caps caps_tls script ms,
  let o := run_case std_expects F cfg caps caps_tls script ms render in
  Forall2 (fun m r => snd (render m) <> None ->
             r_delivered r = false /\ acked r = false /\ (attempted (o_ret o) = true -> r_err r <> None))
          ms (o_results o).
Proof.
  intros caps caps_tls script ms o. destruct (run_spec F HF cfg render caps caps_tls script ms) as (_ & _ & HR). fold o in HR.
  destruct (attempted (o_ret o)).
  - apply msg_post_render_failure. exact HR.
  - rewrite HR. apply untouched_render_failure.
Qed.
End Cor.

Lemma run_legal_source : forall cfg render caps caps_tls script ms,
  let o := run_gen cfg caps caps_tls script ms render in
  all_legal (o_world o) = true /\ all_attributed (o_world o) = true.
Proof.
  intros cfg render caps caps_tls script ms. unfold run_gen. rewrite gen_expects_std.
  exact (run_legal gen_fixes gen_dialogue_repaired cfg render caps caps_tls script ms).
Qed.

Lemma ssm_8bit_refused : forall X F cfg render m st,
  m_8bit m = true -> extension (fst st) E8BITMIME = false ->
  send_single X F cfg render m st =
    (st, mkRes (Some (mkSE reason_no_unencoded 0 false [] [] O)) false None).
Proof. intros X F cfg render m st H1 H2. unfold send_single. rewrite H1, H2. reflexivity. Qed.

(* The ESMTP parameters of MAIL and RCPT are a function of the extension map (and the configured DSN options) only -
   the address does not occur in them - and every one of them is covered by the set the map came from. *)
Lemma params_from_advertised : forall X (c : cli) (w : world) (e : list ext) (from to : bytes),
  (forall l, c_ext c = Some l -> l = e) ->
  do_mail X from (c, w) = do_cmd (x_mail X) (CMail from (mail_params c)) (c, w) /\
  do_rcpt X to (c, w) = do_cmd (x_rcpt X) (CRcpt to (rcpt_params c)) (c, w) /\
  forallb (mail_param_ok e) (mail_params c) = true /\ forallb (rcpt_param_ok e) (rcpt_params c) = true /\
  (c_ext c = None -> mail_params c = [] /\ rcpt_params c = []).
Proof.
  intros X c w e from to H. split; [reflexivity|]. split; [reflexivity|].
  split; [apply mail_params_legal; exact H|]. split; [apply rcpt_params_legal; exact H|].
  intros E. unfold mail_params, rcpt_params. rewrite E. auto.
Qed.
