(* DialCfgProofs.v — the configuration path (DialCfg.v): the policy / ssl flag in force is the one of the last call that
   names one, whatever port calls precede or follow; connection to C07_mandatory. *)
From Coq Require Import String.
From Verif Require Import Dial DialCfg.
From VerifGen Require Import Gen.
From VerifProofs Require Import DialProofs.
Open Scope N_scope.

Lemma apply_call_policy : forall cc c,
  cc_policy (apply_call cc c) = match policy_of_call c with Some p => p | None => cc_policy cc end.
Proof.
  intros cc c. destruct c; simpl; auto.
  - destruct (cc_port cc =? default_port); reflexivity.
  - destruct (cc_port cc =? default_port); reflexivity.
  - destruct ((1 <=? n) && (n <=? 65535)); reflexivity.
Qed.

Lemma apply_call_ssl : forall cc c,
  cc_ssl (apply_call cc c) = match ssl_of_call c with Some b => b | None => cc_ssl cc end.
Proof.
  intros cc c. destruct c; simpl; auto.
  - destruct (cc_port cc =? default_port); reflexivity.
  - destruct (cc_port cc =? default_port); reflexivity.
  - destruct ((1 <=? n) && (n <=? 65535)); reflexivity.
Qed.

Lemma apply_from_policy : forall l cc, cc_policy (apply_from cc l) = last_of policy_of_call (cc_policy cc) l.
Proof.
  induction l as [ | c t IH]; intros cc; simpl; [reflexivity | ].
  unfold apply_from in *. simpl. rewrite IH. rewrite apply_call_policy. reflexivity.
Qed.

Lemma apply_from_ssl : forall l cc, cc_ssl (apply_from cc l) = last_of ssl_of_call (cc_ssl cc) l.
Proof.
  induction l as [ | c t IH]; intros cc; simpl; [reflexivity | ].
  unfold apply_from in *. simpl. rewrite IH. rewrite apply_call_ssl. reflexivity.
Qed.

(* the policy in force is the one of the last policy-setting call (the default if there is none) *)
Lemma cfg_policy_last_l : forall l, cc_policy (apply_cfg l) = last_of policy_of_call default_policy l.
Proof. intros l. unfold apply_cfg. rewrite apply_from_policy. reflexivity. Qed.

Lemma cfg_ssl_last_l : forall l, cc_ssl (apply_cfg l) = last_of ssl_of_call false l.
Proof. intros l. unfold apply_cfg. rewrite apply_from_ssl. reflexivity. Qed.

(* calls that do not name a policy (ports, ssl) can be inserted or removed anywhere without changing it *)
Lemma last_of_filter : forall (A : Type) (f : cfg_call -> option A) l d,
  last_of f d l = last_of f d (filter (fun c => match f c with Some _ => true | None => false end) l).
Proof.
  intros A f. induction l as [ | c t IH]; intros d; simpl; [reflexivity | ].
  unfold last_of in *. simpl. destruct (f c) as [x | ] eqn:E; simpl; [ rewrite E | ]; apply IH.
Qed.

Lemma cfg_policy_port_independent_l : forall l,
  cc_policy (apply_cfg l) =
  cc_policy (apply_cfg (filter (fun c => match policy_of_call c with Some _ => true | None => false end) l)).
Proof. intros l. rewrite !cfg_policy_last_l. apply last_of_filter. Qed.

Lemma cfg_ssl_port_independent_l : forall l,
  cc_ssl (apply_cfg l) =
  cc_ssl (apply_cfg (filter (fun c => match ssl_of_call c with Some _ => true | None => false end) l)).
Proof. intros l. rewrite !cfg_ssl_last_l. apply last_of_filter. Qed.

(* a path whose last policy-setting call says mandatory (or that has none: default) and whose last ssl-setting call
   says false: the dial shows only EHLO / HELO / STARTTLS / QUIT in clear *)
Lemma C07_mandatory_config_path_l : forall l auth custom host nonoop fxc fxq fxa fxs fuel msgs (s : srv) v,
  last_of policy_of_call default_policy l = Mandatory ->
  last_of ssl_of_call false l = false ->
  In v (clear_cmds (w_trace (snd (run (dial_and_send fuel (cfg_of l auth custom host nonoop fxc fxq fxa fxs) msgs) (world0 s))))) ->
  handshake_free_verb v = true.
Proof.
  intros l auth custom host nonoop fxc fxq fxa fxs fuel msgs s v Hp Hs Hin.
  eapply C07_mandatory_send_l; [ | | exact Hin ].
  - unfold cfg_of. simpl. rewrite cfg_policy_last_l. exact Hp.
  - unfold cfg_of. simpl. rewrite cfg_ssl_last_l. exact Hs.
Qed.

Lemma C07_implicit_config_path_l : forall l auth custom host nonoop fxc fxq fxa fxs fuel msgs (s : srv),
  last_of ssl_of_call false l = true ->
  clear_cmds (w_trace (snd (run (dial_and_send fuel (cfg_of l auth custom host nonoop fxc fxq fxa fxs) msgs) (world0 s)))) = [].
Proof.
  intros. apply C07_implicit_l. unfold cfg_of. simpl. rewrite cfg_ssl_last_l. assumption.
Qed.
