(* SmtpSendGenProofs.v — T1 obligations of the smtpsend engine: what the translator read from the working
   tree (coq/gen/Gen.v) is what the theorems are about.  Each lemma is closed by computation and breaks as
   soon as the corresponding item of the source changes. *)
From Coq Require Import String.
From Verif Require Import Bytes Textproto SendErr RefServer SmtpSend SmtpSendGen.
From VerifGen Require Import Gen.
From VerifProofs Require Import SmtpSendProofs.

(* expectCode literals: NewClient 220, EHLO/HELO 250, MAIL 250, RCPT 25, DATA 354, end-of-data 250 (exact),
   RSET/NOOP 250, QUIT 221 *)
Lemma gen_expects_std : gen_expects = std_expects.
Proof. reflexivity. Qed.

(* sendSingleMsg: WriteTo failure closes the connection; a rejected DATA is followed by RSET; a failed RSET
   after a failed MAIL / RCPT / DATA closes the connection *)
Lemma gen_dialogue_repaired : dialogue_repaired gen_fixes.
Proof. repeat split; reflexivity. Qed.

(* smtp.go: STARTTLS expects 220 (part of gen_expects_std) and StartTLS ends with c.ehlo(); smtp_ehlo.go: the
   extension map is assigned unconditionally after an accepted EHLO (part of gen_dialogue_repaired) *)
(* client.go Client.Send: on every path the call of SendWithSMTPClient lies between Lock and Unlock of sendMutex
   (the lock program is the one the locks engine extracts for C13: Gen.send_paths).  The model of concurrent Send
   calls on one connection is their sequential composition (run_serialised) because of this. *)
Fixpoint call_under_lock (held seen : bool) (p : list Gen.lock_ev) : bool :=
  match p with
  | [] => seen
  | Gen.LLock m :: t => call_under_lock (held || bytes_eqb m Gen.lkn_c_sendMutex) seen t
  | Gen.LUnlock m :: t => call_under_lock (held && negb (bytes_eqb m Gen.lkn_c_sendMutex)) seen t
  | Gen.LCall f :: t =>
      if bytes_eqb f Gen.lkn_c_SendWithSMTPClient then held && call_under_lock held true t
      else call_under_lock held seen t
  | _ :: t => call_under_lock held seen t
  end.

Lemma gen_send_holds_send_mutex :
  forallb (call_under_lock false false) Gen.send_paths = true /\ Gen.send_paths <> [].
Proof. split; [vm_compute; reflexivity|discriminate]. Qed.

(* the EHLO keywords the code consults (Extension("...") calls, ext["..."] lookups): the five the model knows, and AUTH
   (only with SMTP AUTH configured - not in this model).  Any other keyword is EOther: inert (SmtpSendInertProofs.v) *)
Lemma gen_consulted_extensions :
  Gen.consulted_extensions = [bs "8BITMIME"; bs "AUTH"; bs "DSN"; bs "ENHANCEDSTATUSCODES"; bs "SMTPUTF8"; bs "STARTTLS"].
Proof. vm_compute. reflexivity. Qed.

(* client_120.go SendWithSMTPClient: the loop ranges over the batch itself (`for id, message := range messages`), skips
   nil entries with continue and stores the error at messages[id] - the index and the slice belong together *)
Lemma gen_send_loop_indexes_batch : Gen.send_loop_indexes_batch = true.
Proof. reflexivity. Qed.

(* smtp.go Mail / Rcpt: the guard of every ESMTP parameter is exactly the lookup of its extension in the map of the
   latest EHLO reply (RET= / NOTIFY= additionally: the DSN option is configured) - nothing else, in particular not
   the address text.  This is what mail_params / rcpt_params of the model compute. *)
Lemma gen_param_guards :
  Gen.param_guards =
    [(bs " BODY=8BITMIME", bs "_, ok := c.ext[""8BITMIME""]; ok");
     (bs " SMTPUTF8", bs "_, ok := c.ext[""SMTPUTF8""]; ok");
     (bs " RET=%s", bs "_, ok := c.ext[""DSN""]; ok && c.dsnmrtype != """"");
     (bs "RCPT TO:<%s> NOTIFY=%s", bs "_, ok := c.ext[""DSN""]; ok && c.dsnrntype != """"")].
Proof. vm_compute. reflexivity. Qed.

(* smtp.go dataCloser.Close reads the whole (possibly multi-line) reply: one reply per command in the model's queue *)
Lemma gen_eod_reads_full_response : Gen.eod_reads_full_response = true.
Proof. reflexivity. Qed.

Lemma gen_starttls_says_ehlo : Gen.starttls_says_ehlo = true.
Proof. reflexivity. Qed.

(* senderror.go: isTempError unwraps; the enhanced status code is only looked for at the start of the text *)
Lemma gen_temp_unwraps : fx_temp_unwrap gen_fixes = true.
Proof. reflexivity. Qed.

Lemma gen_regex_anchored : fx_regex gen_fixes = re_anchored.
Proof. vm_compute. reflexivity. Qed.

(* senderror.go: the three classifiers check the length of the error text before indexing (no panic on the
   empty or short error text of a failing producer) *)
Lemma gen_len_guards_present : gen_len_guards = true.
Proof. reflexivity. Qed.

(* iota order of SendErrReason *)
Lemma gen_reasons_std : gen_reasons = std_reasons.
Proof. vm_compute. reflexivity. Qed.
