(* EmlSites.v — T1 obligation of C09: every index / slice / type-assertion / panic site that the
   translator finds in eml.go (Gen.eml_panic_sites, regenerated from the working tree on every run)
   is a site the model discharges.  An entry names the function, the normalised expression text and
   the guard conjuncts the safety argument relies on; a generated site is covered when function and
   text are equal and every required conjunct occurs in the site's syntactic guard.  A new index or
   slice expression, or the removal of a guard the argument needs, leaves a generated site uncovered
   and [eml_sites_discharged] no longer computes to true. *)
From Coq Require Import String.
From Verif Require Import Bytes Eml.
From VerifGen Require Import Gen.
From VerifProofs Require Import EmlProofs.

Definition site (fn text : string) (required : list string) (reason : string)
  : bytes * bytes * list bytes := (bs fn, bs text, map bs required).

Open Scope string_scope.
Definition discharged_sites : list (bytes * bytes * list bytes) :=
  [ (* --- parseMultiPartHeader --- *)
    site "parseMultiPartHeader" "headerSplit[0]" []
         "strings.Split with a non-empty separator never returns an empty slice: split_on_len, used in pmh_ok";
    site "parseMultiPartHeader" "headerSplit[1:]" ["!(len(headerSplit) == 1)"]
         "len >= 1 always (split_on_len), so 1 <= len: go_slice_ok in pmh_ok";
    site "parseMultiPartHeader" "optSplit[0]" ["len(optSplit) == 2"] "guarded by the length test: pmh_opts_ok";
    site "parseMultiPartHeader" "optSplit[1]" ["len(optSplit) == 2"] "guarded by the length test: pmh_opts_ok";
    site "parseMultiPartHeader" "optional[optSplit[0]]" []
         "map write on a map created by make() at function entry: cannot panic";
    (* --- parseEMLAttachmentEmbed --- *)
    site "parseEMLAttachmentEmbed" "contentDisposition[0]" []
         "the only caller passes Header[Content-Disposition] under its ok flag; MIMEHeader values read by textproto are non-empty (model: hvals of an existing key): attachment_embed_np";
    site "parseEMLAttachmentEmbed" "optional[""filename""]" [] "map read: cannot panic";
    site "parseEMLAttachmentEmbed" "name[0]" ["len(name) >= 2"] "filename_of_ok";
    site "parseEMLAttachmentEmbed" "name[len(name)-1]" ["len(name) >= 2"] "filename_of_ok";
    site "parseEMLAttachmentEmbed" "name[1 : len(name)-1]" ["len(name) >= 2"] "filename_of_ok (1 <= len-1 <= len)";
    (* --- parseEMLBodyParts / parseEMLContentTypeCharset --- *)
    site "parseEMLBodyParts" "params[""charset""]" []
         "map read, or map write on the map created by make() in the same branch: cannot panic";
    site "parseEMLContentTypeCharset" "optional[""charset""]" [] "map read: cannot panic";
    (* --- parseEMLMultipart --- *)
    site "parseEMLMultipart" "params[""boundary""]" [] "map read: cannot panic";
    site "parseEMLMultipart" "multiPart.Header[HeaderContentType.String()]" [] "map read: cannot panic";
    site "parseEMLMultipart" "multiPart.Header[HeaderContentDisposition.String()]" [] "map read: cannot panic";
    site "parseEMLMultipart" "multiPart.Header[HeaderContentTransferEnc.String()]" [] "map read: cannot panic";
    site "parseEMLMultipart" "optional[""charset""]" [] "map read: cannot panic";
    site "parseEMLMultipart" "contentTypeSlice[0]" ["len(contentTypeSlice) == 1"] "guarded by the length test: part_step_np";
    site "parseEMLMultipart" "multiPartContentType[0]" ["!(!ok)"]
         "the key exists, MIMEHeader values read by textproto are non-empty (model: hvals of an existing key): part_step_np";
    site "parseEMLMultipart" "mutliPartTransferEnc[0]" []
         "either the value of an existing key (non-empty) or the one-element literal assigned just before: part_step_np"
  ].

Close Scope string_scope.

(* the lemmas the reasons refer to exist *)
Definition site_lemmas :=
  (split_on_len, go_index_ok, go_slice_ok, pmh_opts_ok, pmh_ok, filename_of_ok,
   attachment_embed_np, part_step_np, parse_body_parts_np).

Definition covers (g : list N * list N * list N) (d : bytes * bytes * list bytes) : bool :=
  let '(gf, gt, gg) := g in
  let '(df, dt, dreq) := d in
  bytes_eqb gf df && bytes_eqb gt dt && forallb (fun r => occurs r gg) dreq.

Definition sites_ok (gen : list (list N * list N * list N)) : bool :=
  forallb (fun g => existsb (covers g) discharged_sites) gen.

Lemma eml_sites_discharged : sites_ok eml_panic_sites = true.
Proof. vm_compute. reflexivity. Qed.

(* the obligation is not vacuous: the inventory is non-empty and an unguarded slice would not be covered *)
Lemma eml_sites_nonempty : (20 <=? length eml_panic_sites)%nat = true.
Proof. vm_compute. reflexivity. Qed.
Lemma eml_sites_unguarded_slice_rejected :
  sites_ok [(bs "parseEMLAttachmentEmbed", bs "name[1 : len(name)-1]", bs "ok")] = false.
Proof. vm_compute. reflexivity. Qed.
Lemma eml_sites_new_site_rejected :
  sites_ok [(bs "parseEMLHeaders", bs "value[0]", bs "value != """"")] = false.
Proof. vm_compute. reflexivity. Qed.
