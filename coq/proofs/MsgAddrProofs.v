(* MsgAddrProofs.v — lemmas for C06 (address map, envelope getters, render projection). *)
From Coq Require Import String Lia.
From Verif Require Import Bytes HeaderFold MsgAddr.
From VerifGen Require Import Gen.
Open Scope N_scope.

(* ------------------------------------------------------------------ *)
(* T1 obligations: what the source says now                            *)
(* ------------------------------------------------------------------ *)

(* msg.go GetRecipients ranges over exactly To, Cc, Bcc, in this order *)
Lemma gen_recipient_headers : recipient_headers = [hdr_to; hdr_cc; hdr_bcc].
Proof. reflexivity. Qed.

(* msgwriter.go writeMsg renders To, Cc, Reply-To (after From) — and not Bcc *)
Lemma gen_render_addr_headers : render_addr_headers = [hdr_to; hdr_cc; hdr_reply_to].
Proof. reflexivity. Qed.

Lemma gen_bcc_not_rendered :
  existsb (bytes_eqb hdr_bcc) (hdr_from :: hdr_envelope_from :: render_addr_headers) = false.
Proof. reflexivity. Qed.

(* the six keys are pairwise distinct *)
Definition all_keys : list bytes := [hdr_from; hdr_to; hdr_cc; hdr_bcc; hdr_reply_to; hdr_envelope_from].
Fixpoint distinct (l : list bytes) : bool :=
  match l with
  | [] => true
  | x :: t => negb (existsb (bytes_eqb x) t) && distinct t
  end.
Lemma gen_keys_distinct : distinct all_keys = true.
Proof. reflexivity. Qed.

(* the public setters delegate as the model says: (name, callee, header constant, Sprintf format) *)
Definition fmt_na : bytes := bs """%s"" <%s>".
Definition expected_setters : list (bytes * bytes * bytes * bytes) :=
  [(bs "EnvelopeFrom", bs "SetAddrHeader", hdr_envelope_from, []);
   (bs "EnvelopeFromFormat", bs "SetAddrHeader", hdr_envelope_from, fmt_na);
   (bs "From", bs "SetAddrHeader", hdr_from, []);
   (bs "FromFormat", bs "SetAddrHeader", hdr_from, fmt_na);
   (bs "To", bs "SetAddrHeader", hdr_to, []);
   (bs "AddTo", bs "addAddr", hdr_to, []);
   (bs "AddToFormat", bs "addAddr", hdr_to, fmt_na);
   (bs "ToIgnoreInvalid", bs "SetAddrHeaderIgnoreInvalid", hdr_to, []);
   (bs "ToFromString", bs "To", [], []);
   (bs "Cc", bs "SetAddrHeader", hdr_cc, []);
   (bs "AddCc", bs "addAddr", hdr_cc, []);
   (bs "AddCcFormat", bs "addAddr", hdr_cc, fmt_na);
   (bs "CcIgnoreInvalid", bs "SetAddrHeaderIgnoreInvalid", hdr_cc, []);
   (bs "CcFromString", bs "Cc", [], []);
   (bs "Bcc", bs "SetAddrHeader", hdr_bcc, []);
   (bs "AddBcc", bs "addAddr", hdr_bcc, []);
   (bs "AddBccFormat", bs "addAddr", hdr_bcc, fmt_na);
   (bs "BccIgnoreInvalid", bs "SetAddrHeaderIgnoreInvalid", hdr_bcc, []);
   (bs "BccFromString", bs "Bcc", [], []);
   (bs "ReplyTo", bs "SetAddrHeader", hdr_reply_to, []);
   (bs "ReplyToFormat", bs "ReplyTo", [], fmt_na)].
Lemma gen_addr_setters : addr_setters = expected_setters.
Proof. reflexivity. Qed.

(* every ...Format setter passes the display name through quotedPairs before interpolating it, and
   quotedPairs replaces backslash by backslash backslash and DQUOTE by backslash DQUOTE *)
Lemma gen_format_escaped :
  addr_format_escaped =
    [(bs "EnvelopeFromFormat", true); (bs "FromFormat", true); (bs "AddToFormat", true); (bs "AddCcFormat", true);
     (bs "AddBccFormat", true); (bs "ReplyToFormat", true); (bs "RequestMDNAddToFormat", true)].
Proof. reflexivity. Qed.

Lemma gen_quoted_pairs_literals : quoted_pairs_literals = [[92; 34]; [92]; [92; 92]; [34]; [92; 34]].
Proof. reflexivity. Qed.

(* Msg.Reset re-allocates the address map: no enumerated list of keys that could forget one (EnvelopeFrom) *)
Lemma gen_reset_reallocates : reset_reallocates_addr_header = true.
Proof. reflexivity. Qed.

(* ------------------------------------------------------------------ *)
(* the display name of a ...Format call                                *)
(* ------------------------------------------------------------------ *)
Lemma read_qs_escape : forall n rest, forallb qs_byte n = true ->
  read_qs (escape_name n ++ 34 :: rest) = Some (n, rest).
Proof.
  induction n as [|b n IH]; intros rest H; [reflexivity|].
  simpl in H. apply andb_true_iff in H. destruct H as [Hb Hn].
  simpl escape_name. destruct (N.eqb_spec b 92) as [->|N92].
  - simpl. rewrite IH by exact Hn. reflexivity.
  - destruct (N.eqb_spec b 34) as [->|N34].
    + simpl. rewrite IH by exact Hn. reflexivity.
    + simpl orb. cbv iota. simpl app. unfold read_qs; fold read_qs.
      apply N.eqb_neq in N92. apply N.eqb_neq in N34. rewrite N34, N92, Hb, IH by exact Hn. reflexivity.
Qed.

(* escape / unescape round trip: the RFC 5322 reader gets back exactly the name argument *)
Theorem format_name_roundtrip : forall name address, forallb qs_byte name = true ->
  read_display_name (format_addr name address) = Some name.
Proof.
  intros name address H.
  change (format_addr name address) with (34 :: escape_name name ++ 34 :: 32 :: 60 :: address ++ [62]).
  unfold read_display_name. rewrite (read_qs_escape name _ H). reflexivity.
Qed.

Lemma read_qs_bad : forall n rest, forallb qs_byte n = false -> read_qs (escape_name n ++ rest) = None.
Proof.
  induction n as [|b n IH]; intros rest H; [discriminate|].
  simpl in H. simpl escape_name.
  destruct (N.eqb_spec b 92) as [->|N92]; [simpl in *; rewrite IH by exact H; reflexivity|].
  destruct (N.eqb_spec b 34) as [->|N34]; [simpl in *; rewrite IH by exact H; reflexivity|].
  simpl orb. cbv iota. simpl app. unfold read_qs; fold read_qs.
  apply N.eqb_neq in N92. apply N.eqb_neq in N34. rewrite N34, N92.
  destruct (qs_byte b); [|reflexivity]. simpl in H. rewrite IH by exact H. reflexivity.
Qed.

(* ... and a name holding CR, LF, NUL, another C0 control other than TAB, or DEL is not a quoted-string at all *)
Theorem format_name_rejected : forall name address, forallb qs_byte name = false ->
  read_display_name (format_addr name address) = None.
Proof.
  intros name address H.
  change (format_addr name address) with (34 :: escape_name name ++ 34 :: 32 :: 60 :: address ++ [62]).
  unfold read_display_name. rewrite (read_qs_bad name _ H). reflexivity.
Qed.

(* the unrepaired tree: backslashes vanish, a double quote ends the name *)
Example format_name_before_fix_refuted :
  read_display_name (format_addr_old (bs "C:\dir\file") (bs "a@x.test")) = Some (bs "C:dirfile") /\
  read_display_name (format_addr_old (bs "say ""hi""") (bs "a@x.test")) = None.
Proof. split; reflexivity. Qed.

(* ------------------------------------------------------------------ *)
(* byte strings, the association list                                  *)
(* ------------------------------------------------------------------ *)

Lemma bytes_eqb_eq : forall a b, bytes_eqb a b = true <-> a = b.
Proof.
  induction a as [|x a IH]; destruct b as [|y b]; simpl; split; intro H; try reflexivity; try discriminate.
  - apply andb_true_iff in H. destruct H as [H1 H2]. apply N.eqb_eq in H1. apply IH in H2. congruence.
  - inversion H; subst. rewrite N.eqb_refl. simpl. apply IH. reflexivity.
Qed.

Lemma bytes_eqb_refl : forall a, bytes_eqb a a = true.
Proof. intro a. apply bytes_eqb_eq. reflexivity. Qed.

Lemma bytes_eqb_neq : forall a b, bytes_eqb a b = false <-> a <> b.
Proof.
  intros a b. split; intro H.
  - intro E. apply bytes_eqb_eq in E. congruence.
  - destruct (bytes_eqb a b) eqn:E; [|reflexivity]. apply bytes_eqb_eq in E. contradiction.
Qed.

Lemma bytes_eqb_sym : forall a b, bytes_eqb a b = bytes_eqb b a.
Proof.
  intros a b. destruct (bytes_eqb a b) eqn:E.
  - apply bytes_eqb_eq in E. subst. symmetry. apply bytes_eqb_refl.
  - symmetry. apply bytes_eqb_neq. apply bytes_eqb_neq in E. congruence.
Qed.

Lemma lookup_set_same : forall m k v, lookup (set m k v) k = v.
Proof. intros. unfold set. simpl. rewrite bytes_eqb_refl. reflexivity. Qed.

Lemma lookup_set_other : forall m k k' v, k' <> k -> lookup (set m k' v) k = lookup m k.
Proof. intros. unfold set. simpl. apply bytes_eqb_neq in H. rewrite H. reflexivity. Qed.

Lemma flat_map_ext_in : forall (A B : Type) (f g : A -> list B) l,
  (forall x, In x l -> f x = g x) -> flat_map f l = flat_map g l.
Proof.
  induction l as [|x l IH]; intro H; simpl; [reflexivity|].
  rewrite (H x (or_introl eq_refl)). rewrite IH; [reflexivity|].
  intros y Hy. apply H. right. exact Hy.
Qed.

Section Proofs.
  Variable parse : bytes -> option addr.
  Variable addr_string : addr -> bytes.
  Variable encode_string : bytes -> bytes.

  Notation store := MsgAddr.store.
  Notation apply_call := (MsgAddr.apply_call parse addr_string encode_string).
  Notation spec_call := (MsgAddr.spec_call parse addr_string encode_string).
  Notation run := (MsgAddr.run parse addr_string encode_string).
  Notation spec_run := (MsgAddr.spec_run parse addr_string encode_string).
  Notation set_addr_header := (MsgAddr.set_addr_header parse).
  Notation set_addr_header_ign := (MsgAddr.set_addr_header_ign parse encode_string).
  Notation add_addr := (MsgAddr.add_addr parse addr_string).
  Notation parse_all := (MsgAddr.parse_all parse).
  Notation parse_valid := (MsgAddr.parse_valid parse encode_string).
  Notation render_addr := (MsgAddr.render_addr addr_string).

  (* ---------------- frame: a call changes only its own key ---------------- *)
  Lemma store_other : forall m h l k, k <> h -> lookup (store m h l) k = lookup m k.
  Proof.
    intros m h l k Hk. unfold MsgAddr.store.
    destruct (bytes_eqb h hdr_from); [destruct l|]; try reflexivity;
      apply lookup_set_other; congruence.
  Qed.

  (* what a store leaves at its own key *)
  Definition stored (old : list addr) (h : bytes) (l : list addr) : list addr :=
    if bytes_eqb h hdr_from then match l with [] => old | a :: _ => [a] end else l.

  Lemma store_same : forall m h l, lookup (store m h l) h = stored (lookup m h) h l.
  Proof.
    intros m h l. unfold MsgAddr.store, stored.
    destruct (bytes_eqb h hdr_from); [destruct l|]; try reflexivity; apply lookup_set_same.
  Qed.

  Lemma set_addr_header_other : forall m h vals k, k <> h ->
    lookup (fst (set_addr_header m h vals)) k = lookup m k.
  Proof.
    intros. unfold MsgAddr.set_addr_header. destruct (parse_all vals); simpl; [apply store_other; assumption|reflexivity].
  Qed.

  Lemma apply_call_other : forall m c k, c <> CReset -> k <> call_key c ->
    lookup (fst (apply_call m c)) k = lookup m k.
  Proof.
    intros m c k Hr Hk. destruct c; try congruence; simpl in *; unfold MsgAddr.add_addr, MsgAddr.set_addr_header_ign;
      try (apply set_addr_header_other; assumption); simpl; apply store_other; assumption.
  Qed.

  (* the new value at the call's own key depends on the old value at that key only *)
  Lemma apply_call_same_dep : forall m m' c,
    lookup m (call_key c) = lookup m' (call_key c) ->
    lookup (fst (apply_call m c)) (call_key c) = lookup (fst (apply_call m' c)) (call_key c)
    /\ snd (apply_call m c) = snd (apply_call m' c).
  Proof.
    assert (S : forall m m' h vals, lookup m h = lookup m' h ->
              lookup (fst (set_addr_header m h vals)) h = lookup (fst (set_addr_header m' h vals)) h
              /\ snd (set_addr_header m h vals) = snd (set_addr_header m' h vals)).
    { intros m m' h vals E. unfold MsgAddr.set_addr_header. destruct (parse_all vals); simpl.
      - rewrite !store_same, E. split; reflexivity.
      - split; [exact E|reflexivity]. }
    intros m m' c E. destruct c; try (split; reflexivity); simpl in *; unfold MsgAddr.add_addr, MsgAddr.set_addr_header_ign;
      try (apply S; assumption); try (rewrite E; apply S; assumption);
      simpl; rewrite !store_same, E; split; reflexivity.
  Qed.

  (* ---------------- C06_envelope ---------------- *)
  Lemma get_recipients_spec : forall m,
    get_recipients m =
      map a_addr (lookup m hdr_to) ++ map a_addr (lookup m hdr_cc) ++ map a_addr (lookup m hdr_bcc).
  Proof. intro m. unfold get_recipients. rewrite gen_recipient_headers. simpl. rewrite app_nil_r. reflexivity. Qed.

  Lemma get_sender_spec : forall m,
    get_sender m =
      match lookup m hdr_envelope_from with
      | a :: _ => Some (a_addr a)
      | [] => match lookup m hdr_from with a :: _ => Some (a_addr a) | [] => None end
      end.
  Proof. intro m. unfold get_sender, sender_list. destruct (lookup m hdr_envelope_from); reflexivity. Qed.

  Lemma envelope_all_sequences : forall calls m0,
    let m := run calls m0 in
    get_recipients m =
      map a_addr (lookup m hdr_to) ++ map a_addr (lookup m hdr_cc) ++ map a_addr (lookup m hdr_bcc)
    /\ get_sender m =
      match lookup m hdr_envelope_from with
      | a :: _ => Some (a_addr a)
      | [] => match lookup m hdr_from with a :: _ => Some (a_addr a) | [] => None end
      end.
  Proof. intros. split; [apply get_recipients_spec|apply get_sender_spec]. Qed.

  (* From never holds more than one address, whatever is called *)
  Lemma from_at_most_one : forall calls m0,
    (length (lookup m0 hdr_from) <= 1)%nat -> (length (lookup (run calls m0) hdr_from) <= 1)%nat.
  Proof.
    unfold MsgAddr.run. induction calls as [|c calls IH]; intros m0 H; simpl; [exact H|].
    apply IH.
    assert (R : c = CReset \/ c <> CReset) by (destruct c; (left; reflexivity) || (right; discriminate)).
    destruct R as [->|NR]; [simpl; apply Nat.le_0_l|].
    destruct (bytes_eqb (call_key c) hdr_from) eqn:E.
    - apply bytes_eqb_eq in E.
      assert (K : forall m h vals, h = hdr_from -> (length (lookup m hdr_from) <= 1)%nat ->
                 (length (lookup (fst (set_addr_header m h vals)) hdr_from) <= 1)%nat).
      { intros m h vals -> Hm. unfold MsgAddr.set_addr_header. destruct (parse_all vals); simpl; [|exact Hm].
        rewrite store_same. unfold stored. rewrite bytes_eqb_refl. destruct l; simpl; [exact Hm|lia]. }
      destruct c; try congruence; simpl in *; unfold MsgAddr.add_addr, MsgAddr.set_addr_header_ign; try (apply K; assumption);
        simpl; rewrite E, store_same; unfold stored; rewrite bytes_eqb_refl;
        match goal with |- context [match ?l with _ => _ end] => destruct l end; simpl; try assumption; lia.
    - rewrite apply_call_other; [exact H|exact NR|]. apply bytes_eqb_neq in E. congruence.
  Qed.

  (* ---------------- reference semantics of the setters ---------------- *)
  Section Roundtrip.
    (* H-addr: re-serialising a parsed address and parsing it again gives the same address — for every display
       name outside the class q_backslash_name (for that class net/mail.Address.String writes what ParseAddress
       rejects: C06_haddr_backslash_q_refuted, known finding dispname-backslash-q-encoded-word) *)
    Hypothesis H_roundtrip : forall s a, parse s = Some a -> q_backslash_name (a_name a) = false ->
      parse (addr_string a) = Some a.

    Definition ok_addr (a : addr) : Prop := (exists s, parse s = Some a) /\ q_backslash_name (a_name a) = false.
    Definition from_parse (m : amap) : Prop := forall k a, In a (lookup m k) -> ok_addr a.
    (* a string that does not denote a name of the class / a call none of whose arguments does *)
    Definition clean_val (v : bytes) : Prop := forall a, parse v = Some a -> q_backslash_name (a_name a) = false.
    Definition clean_call (c : call) : Prop := Forall clean_val (call_values encode_string c).

    Lemma parse_all_from_parse : forall vals l, Forall clean_val vals -> parse_all vals = Some l ->
      forall a, In a l -> ok_addr a.
    Proof.
      induction vals as [|v vals IH]; simpl; intros l C H a Ha.
      - inversion H; subst. destruct Ha.
      - inversion C as [|? ? C1 C2]; subst.
        destruct (parse v) eqn:Pv; [|discriminate]. destruct (parse_all vals) eqn:Pa; [|discriminate].
        inversion H; subst. destruct Ha as [<-|Ha]; [split; [exists v; exact Pv|apply C1; exact Pv]|]. eapply IH; eauto.
    Qed.

    Lemma parse_valid_from_parse : forall vals, Forall clean_val (map encode_string vals) ->
      forall a, In a (parse_valid vals) -> ok_addr a.
    Proof.
      induction vals as [|v vals IH]; simpl; intros C a Ha; [destruct Ha|].
      inversion C as [|? ? C1 C2]; subst.
      destruct (parse (encode_string v)) eqn:Pv; [|apply IH; assumption].
      destruct Ha as [<-|Ha]; [split; [eexists; exact Pv|apply C1; exact Pv]|apply IH; assumption].
    Qed.

    Lemma store_from_parse : forall m h l, from_parse m ->
      (forall a, In a l -> ok_addr a) -> from_parse (store m h l).
    Proof.
      intros m h l Hm Hl k a Ha.
      destruct (bytes_eqb k h) eqn:E.
      - apply bytes_eqb_eq in E. subst k. rewrite store_same in Ha. unfold stored in Ha.
        destruct (bytes_eqb h hdr_from).
        + destruct l as [|b l]; [eapply Hm; exact Ha|]. destruct Ha as [<-|[]]. apply Hl. left. reflexivity.
        + apply Hl. exact Ha.
      - apply bytes_eqb_neq in E. rewrite store_other in Ha by exact E. eapply Hm; exact Ha.
    Qed.

    Lemma set_addr_header_from_parse : forall m h vals, from_parse m -> Forall clean_val vals ->
      from_parse (fst (set_addr_header m h vals)).
    Proof.
      intros m h vals Hm C. unfold MsgAddr.set_addr_header. destruct (parse_all vals) eqn:P; simpl; [|exact Hm].
      apply store_from_parse; [exact Hm|]. eapply parse_all_from_parse; [exact C|exact P].
    Qed.

    Lemma parse_all_app : forall l1 l2,
      parse_all (l1 ++ l2) =
        match parse_all l1, parse_all l2 with
        | Some a, Some b => Some (a ++ b)
        | _, _ => None
        end.
    Proof.
      induction l1 as [|v l1 IH]; intro l2; simpl.
      - destruct (parse_all l2); reflexivity.
      - destruct (parse v); [|reflexivity]. rewrite IH.
        destruct (parse_all l1); [|reflexivity]. destruct (parse_all l2); reflexivity.
    Qed.

    Lemma parse_all_reserialised : forall l,
      (forall a, In a l -> ok_addr a) ->
      parse_all (map addr_string l) = Some l.
    Proof.
      induction l as [|a l IH]; intro H; simpl; [reflexivity|].
      destruct (H a (or_introl eq_refl)) as [[s Hs] Hq]. rewrite (H_roundtrip _ _ Hs Hq).
      rewrite IH; [reflexivity|]. intros b Hb. apply H. right. exact Hb.
    Qed.

    (* addAddr = append exactly one parsed address, nothing else changes; an invalid address changes nothing *)
    Lemma add_addr_spec : forall m h v, from_parse m ->
      add_addr m h v = spec_add parse m h v.
    Proof.
      intros m h v Hm. unfold MsgAddr.add_addr, MsgAddr.set_addr_header, spec_add.
      rewrite parse_all_app, parse_all_reserialised by (intros a Ha; eapply Hm; exact Ha).
      simpl. destruct (parse v); reflexivity.
    Qed.

    Lemma spec_add_from_parse : forall m h v, from_parse m -> clean_val v ->
      from_parse (fst (spec_add parse m h v)).
    Proof.
      intros m h v Hm C. unfold spec_add. destruct (parse v) as [a|] eqn:P; simpl; [|exact Hm].
      apply store_from_parse; [exact Hm|]. intros b Hb. apply in_app_or in Hb. destruct Hb as [Hb|[<-|[]]].
      - eapply Hm; exact Hb.
      - split; [exists v; exact P|apply C; exact P].
    Qed.

    Lemma apply_call_from_parse : forall m c, from_parse m -> clean_call c -> from_parse (fst (apply_call m c)).
    Proof.
      intros m c Hm C. unfold clean_call in C.
      destruct c; try (intros k a Ha; destruct Ha); simpl in *; unfold MsgAddr.set_addr_header_ign;
        try (apply set_addr_header_from_parse; assumption);
        try (rewrite add_addr_spec by exact Hm; apply spec_add_from_parse; [exact Hm|inversion C; assumption]);
        simpl; apply store_from_parse; try exact Hm; apply parse_valid_from_parse; exact C.
    Qed.

    Lemma apply_call_spec : forall m c, from_parse m -> apply_call m c = spec_call m c.
    Proof. intros m c Hm. destruct c; try reflexivity; simpl; apply add_addr_spec; exact Hm. Qed.

    Lemma run_spec_from : forall calls m, from_parse m -> Forall clean_call calls ->
      run calls m = spec_run calls m /\ from_parse (run calls m).
    Proof.
      unfold MsgAddr.run, MsgAddr.spec_run.
      induction calls as [|c calls IH]; intros m Hm C; simpl; [split; [reflexivity|exact Hm]|].
      inversion C as [|? ? C1 C2]; subst.
      rewrite <- (apply_call_spec m c Hm). apply IH; [|exact C2]. apply apply_call_from_parse; assumption.
    Qed.

    Lemma from_parse_empty : from_parse [].
    Proof. intros k a Ha. destruct Ha. Qed.

    Theorem setter_semantics : forall calls, Forall clean_call calls -> run calls [] = spec_run calls [].
    Proof. intros calls C. apply run_spec_from; [apply from_parse_empty|exact C]. Qed.

    (* one occurrence per successful Add call, earlier entries untouched *)
    Theorem add_appends_one : forall calls s v a, Forall clean_call calls ->
      parse v = Some a -> slot_hdr s <> hdr_from ->
      let m := run calls [] in
      lookup (fst (apply_call m (CAdd s v))) (slot_hdr s) = lookup m (slot_hdr s) ++ [a]
      /\ snd (apply_call m (CAdd s v)) = true.
    Proof.
      intros calls s v a CC Pv Hs m.
      assert (Hm : from_parse m) by (apply run_spec_from; [apply from_parse_empty|exact CC]).
      simpl. rewrite add_addr_spec by exact Hm. unfold spec_add. rewrite Pv. simpl.
      rewrite store_same. unfold stored. apply bytes_eqb_neq in Hs. rewrite Hs. split; reflexivity.
    Qed.
    (* the same for Add...Format(name, address), and spelled out per field: the display NAMES and the
       addresses already stored are untouched by the re-serialise / re-parse round of addAddr, the new
       entry carries the parsed name, and no other header changes *)
    Theorem add_keeps_names_and_addresses : forall calls s c v a, Forall clean_call calls ->
      (c = CAdd s v \/ exists n ad, c = CAddFormat s n ad /\ v = format_addr n ad) ->
      parse v = Some a -> slot_hdr s <> hdr_from ->
      let m := run calls [] in
      let m' := fst (apply_call m c) in
      map a_name (lookup m' (slot_hdr s)) = map a_name (lookup m (slot_hdr s)) ++ [a_name a]
      /\ map a_addr (lookup m' (slot_hdr s)) = map a_addr (lookup m (slot_hdr s)) ++ [a_addr a]
      /\ (forall k, k <> slot_hdr s -> lookup m' k = lookup m k)
      /\ snd (apply_call m c) = true.
    Proof.
      intros calls s c v a CC Hc Pv Hs m m'.
      assert (Hm : from_parse m) by (apply run_spec_from; [apply from_parse_empty|exact CC]).
      assert (E : apply_call m c = spec_add parse m (slot_hdr s) v).
      { destruct Hc as [->|[n [ad [-> ->]]]]; simpl; apply add_addr_spec; exact Hm. }
      assert (K : call_key c = slot_hdr s) by (destruct Hc as [->|[n [ad [-> _]]]]; reflexivity).
      assert (L : lookup m' (slot_hdr s) = lookup m (slot_hdr s) ++ [a]).
      { unfold m'. rewrite E. unfold spec_add. rewrite Pv. simpl. rewrite store_same. unfold stored.
        apply bytes_eqb_neq in Hs. rewrite Hs. reflexivity. }
      repeat split.
      - rewrite L, map_app. reflexivity.
      - rewrite L, map_app. reflexivity.
      - intros k Hk. unfold m'. apply apply_call_other; [destruct Hc as [->|[n [ad [-> _]]]]; discriminate|rewrite K; exact Hk].
      - rewrite E. unfold spec_add. rewrite Pv. reflexivity.
    Qed.
    (* H-name: on a string of the form  DQUOTE ... DQUOTE SP LESS-THAN ...  the address oracle's Name is what
       the RFC 5322 quoted-string reader reads (validated by the harness on every such string) *)
    Hypothesis H_name : forall s a n, parse s = Some a -> read_display_name s = Some n -> a_name a = n.

    (* after ANY call sequence: a successful Add...Format(name, address) appends one entry whose display
       name is the name argument itself; a successful FromFormat / EnvelopeFromFormat / ReplyToFormat leaves
       exactly one entry with that name *)
    Theorem format_call_stores_name : forall calls name address, Forall clean_call calls -> forallb qs_byte name = true ->
      let m := run calls [] in
      (forall s, slot_hdr s <> hdr_from -> snd (apply_call m (CAddFormat s name address)) = true ->
         exists a, lookup (fst (apply_call m (CAddFormat s name address))) (slot_hdr s) = lookup m (slot_hdr s) ++ [a]
                   /\ a_name a = name) /\
      (forall c, c = CFromFormat name address \/ c = CEnvFromFormat name address \/ c = CReplyToFormat name address ->
         snd (apply_call m c) = true ->
         exists a, lookup (fst (apply_call m c)) (call_key c) = [a] /\ a_name a = name).
    Proof.
      intros calls name address CC Hn m.
      assert (Hm : from_parse m) by (apply run_spec_from; [apply from_parse_empty|exact CC]).
      pose proof (format_name_roundtrip name address Hn) as R.
      split.
      - intros s Hs Hok. simpl in *. rewrite add_addr_spec in * by exact Hm. unfold spec_add in *.
        destruct (parse (format_addr name address)) as [a|] eqn:P; [|discriminate].
        exists a. split; [|eapply H_name; eassumption].
        simpl. rewrite store_same. unfold stored. apply bytes_eqb_neq in Hs. rewrite Hs. reflexivity.
      - intros c Hc Hok.
        assert (K : forall h, apply_call m c = set_addr_header m h [format_addr name address] -> call_key c = h ->
                    exists a, lookup (fst (apply_call m c)) (call_key c) = [a] /\ a_name a = name).
        { intros h E Kc. rewrite E in Hok. rewrite E, Kc. unfold MsgAddr.set_addr_header in *. simpl in *.
          destruct (parse (format_addr name address)) as [a|] eqn:P; [|discriminate].
          exists a. split; [|eapply H_name; eassumption].
          simpl. rewrite store_same. unfold stored. destruct (bytes_eqb h hdr_from); reflexivity. }
        destruct Hc as [->|[->| ->]]; eapply K; reflexivity.
    Qed.
  End Roundtrip.

  (* ---------------- Bcc non-interference ---------------- *)
  Definition eq_off_bcc (m m' : amap) : Prop := forall k, k <> hdr_bcc -> lookup m k = lookup m' k.

  Lemma render_addr_eq_off_bcc : forall m m', eq_off_bcc m m' -> render_addr m = render_addr m'.
  Proof.
    intros m m' H. unfold MsgAddr.render_addr, from_field, render_from_list.
    assert (Hf : hdr_from <> hdr_bcc) by (apply bytes_eqb_neq; reflexivity).
    assert (He : hdr_envelope_from <> hdr_bcc) by (apply bytes_eqb_neq; reflexivity).
    rewrite (H _ Hf), (H _ He). f_equal.
    apply flat_map_ext_in. intros h Hh. unfold addr_field. rewrite H; [reflexivity|].
    intro E. subst h.
    pose proof gen_bcc_not_rendered as G.
    assert (X : existsb (bytes_eqb hdr_bcc) (hdr_from :: hdr_envelope_from :: render_addr_headers) = true).
    { apply existsb_exists. exists hdr_bcc. split; [right; right; exact Hh|apply bytes_eqb_refl]. }
    congruence.
  Qed.

  (* the rendered address fields do not depend on the Bcc list at all *)
  Theorem bcc_noninterference : forall m l, render_addr (set m hdr_bcc l) = render_addr m.
  Proof.
    intros m l. apply render_addr_eq_off_bcc. intros k Hk. apply lookup_set_other. congruence.
  Qed.

  Definition not_bcc_call (c : call) : bool := negb (bytes_eqb (call_key c) hdr_bcc).

  Lemma apply_call_eq_off_bcc : forall m m' c, eq_off_bcc m m' ->
    call_key c <> hdr_bcc -> eq_off_bcc (fst (apply_call m c)) (fst (apply_call m' c)).
  Proof.
    intros m m' c H Hc k Hk.
    assert (R : c = CReset \/ c <> CReset) by (destruct c; (left; reflexivity) || (right; discriminate)).
    destruct R as [->|NR]; [reflexivity|].
    destruct (bytes_eqb k (call_key c)) eqn:E.
    - apply bytes_eqb_eq in E. subst k. apply apply_call_same_dep. apply H. exact Hc.
    - apply bytes_eqb_neq in E. rewrite !apply_call_other by (try exact E; exact NR). apply H. exact Hk.
  Qed.

  Lemma run_eq_off_bcc : forall calls m m', eq_off_bcc m m' ->
    eq_off_bcc (run calls m) (run (filter not_bcc_call calls) m').
  Proof.
    unfold MsgAddr.run. induction calls as [|c calls IH]; intros m m' H; simpl; [exact H|].
    unfold not_bcc_call at 1. destruct (bytes_eqb (call_key c) hdr_bcc) eqn:E; simpl.
    - apply IH. intros k Hk. rewrite apply_call_other; [apply H; exact Hk|intro Z; subst c; discriminate|].
      apply bytes_eqb_eq in E. congruence.
    - apply IH. apply apply_call_eq_off_bcc; [exact H|]. apply bytes_eqb_neq. exact E.
  Qed.

  (* ... and not on any call that writes Bcc: deleting all of them from the program leaves the
     rendered address fields, the sender and the To/Cc part of the recipient list unchanged *)
  Theorem bcc_calls_noninterference : forall calls m0,
    render_addr (run calls m0) = render_addr (run (filter not_bcc_call calls) m0).
  Proof.
    intros. apply render_addr_eq_off_bcc. apply run_eq_off_bcc. intros k _. reflexivity.
  Qed.
  (* ---------------- Reset ---------------- *)
  Lemma run_app : forall a b m, run (a ++ b) m = run b (run a m).
  Proof. intros. unfold MsgAddr.run. apply fold_left_app. Qed.

  (* after Reset the state is the empty address state whatever preceded: every later observation is a function
     of the calls after the last Reset only *)
  Theorem reset_forgets : forall pre post m0, run (pre ++ CReset :: post) m0 = run post [].
  Proof. intros. rewrite run_app. reflexivity. Qed.

  Theorem reset_clears : forall pre m0,
    let m := run (pre ++ [CReset]) m0 in
    (forall k, lookup m k = []) /\ get_sender m = None /\ get_recipients m = [] /\ render_addr m = [].
  Proof. intros pre m0 m. unfold m. rewrite reset_forgets. repeat split. Qed.
End Proofs.

(* ------------------------------------------------------------------ *)
(* H-addr fails for the class q_backslash_name (net/mail, go1.23)      *)
(* ------------------------------------------------------------------ *)
(* The values of the real functions at the witness (reproduced on every run by the harness, corpus case w8):
   ParseAddress of  DQUOTE e-acute backslash backslash x DQUOTE <a@x.test>  has the Name  e-acute backslash x;
   Address.String of it is the Q encoded-word below with the backslash raw inside; ParseAddress rejects that. *)
Definition wit_name : bytes := [195; 169; 92; 120].
Definition wit_in : bytes := 34 :: 195 :: 169 :: 92 :: 92 :: 120 :: 34 :: bs " <a@x.test>".
Definition wit_str : bytes := bs "=?utf-8?q?=C3=A9\x?= <a@x.test>".
Definition wit_parse (s : bytes) : option addr :=
  if bytes_eqb s wit_in then Some (mkAddr wit_name (bs "a@x.test")) else None.
Definition wit_string (a : addr) : bytes := wit_str.

Example haddr_backslash_q_refuted :
  q_backslash_name wit_name = true /\ read_display_name wit_in = Some wit_name /\
  exists a, wit_parse wit_in = Some a /\ a_name a = wit_name /\ wit_parse (wit_string a) <> Some a.
Proof.
  split; [reflexivity|]. split; [reflexivity|]. eexists. split; [reflexivity|]. split; [reflexivity|]. discriminate.
Qed.
