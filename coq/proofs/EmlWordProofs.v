(* C10 layer 2 — headers: mime.WordDecoder.DecodeHeader (EmlWord.decode_header) inverts
   mime.WordEncoder.Encode (WordEnc.word_encode), Q and B, including the splitting into several
   encoded-words. *)
From Coq Require Import String.
From Verif Require Import Bytes Base64 WordEnc Eml EmlWord.
From VerifProofs Require Import CodecProofs WordEncProofs.
From Coq Require Import Lia ZifyBool ZifyNat ZifyN.
Open Scope N_scope.

(* ---------- searching ---------- *)
Definition lacks_byte (c : N) (s : bytes) : bool := forallb (fun x => negb (N.eqb x c)) s.

Lemma find1_skip : forall c p r, lacks_byte c p = true -> find1 c (p ++ c :: r) = Some (p, r).
Proof.
  intros c. induction p as [|x p IH]; intros r H; cbn [app find1].
  - now rewrite N.eqb_refl.
  - cbn [lacks_byte forallb] in H. apply andb_true_iff in H. destruct H as [Hx Hp].
    apply negb_true_iff in Hx. rewrite Hx, (IH r Hp). reflexivity.
Qed.

Lemma find2_skip : forall a b p r, lacks_byte a p = true -> find2 a b (p ++ a :: b :: r) = Some (p, r).
Proof.
  intros a b. induction p as [|x p IH]; intros r H; cbn [app find2].
  - rewrite !N.eqb_refl. reflexivity.
  - cbn [lacks_byte forallb] in H. apply andb_true_iff in H. destruct H as [Hx Hp].
    apply negb_true_iff in Hx. rewrite Hx. cbn [andb]. rewrite (IH r Hp). reflexivity.
Qed.

Lemma find2_none : forall a b s, lacks_byte a s = true -> find2 a b s = None.
Proof.
  intros a b. induction s as [|x s IH]; intros H; [reflexivity|].
  cbn [lacks_byte forallb] in H. apply andb_true_iff in H. destruct H as [Hx Hs].
  apply negb_true_iff in Hx. cbn [find2]. rewrite Hx. cbn [andb]. now rewrite (IH Hs).
Qed.

(* "=?" does not occur: no '=' is followed by '?' *)
Fixpoint no_eq_q (s : bytes) : bool :=
  match s with
  | [] => true
  | x :: t => negb (N.eqb x 61 && match t with y :: _ => N.eqb y 63 | [] => false end) && no_eq_q t
  end.

Lemma find2_no_eq_q : forall s, no_eq_q s = true -> find2 61 63 s = None.
Proof.
  induction s as [|x s IH]; intros H; [reflexivity|].
  cbn [no_eq_q] in H. apply andb_true_iff in H. destruct H as [Hx Hs]. apply negb_true_iff in Hx.
  cbn [find2]. rewrite Hx. now rewrite (IH Hs).
Qed.

(* ---------- the Q payload ---------- *)
Definition qbytes (c : bytes) : bytes := flat_map q_byte c.

Lemma hexv_hexdig : forall n, n < 16 -> hexv (hexdig n) = Some n.
Proof.
  intros n H. unfold hexv, hexdig. destruct (N.ltb_spec n 10).
  - replace ((48 <=? 48 + n) && (48 + n <=? 57))%bool with true by lia. f_equal. lia.
  - replace ((48 <=? 55 + n) && (55 + n <=? 57))%bool with false by lia.
    replace ((65 <=? 55 + n) && (55 + n <=? 70))%bool with true by lia. f_equal. lia.
Qed.

Lemma q_decode_byte : forall b rest, b < 256 ->
  q_decode (q_byte b ++ rest) = match q_decode rest with Some r => Some (b :: r) | None => None end.
Proof.
  intros b rest Hb. unfold q_byte. destruct (N.eqb_spec b 32) as [->|Hn].
  - reflexivity.
  - destruct (q_plain b) eqn:Hq.
    + unfold q_plain in Hq. cbn [app q_decode].
      replace (b =? 95) with false by lia. replace (b =? 61) with false by lia.
      replace (((32 <=? b) && (b <=? 126))%bool) with true by lia. reflexivity.
    + cbn [app q_decode]. change (61 =? 95) with false. change (61 =? 61) with true. cbv iota.
      rewrite !hexv_hexdig; [| apply N.mod_lt; lia | apply N.div_lt_upper_bound; lia].
      destruct (q_decode rest); [|reflexivity]. f_equal. f_equal.
      rewrite N.mul_comm. symmetry. apply N.div_mod. lia.
Qed.

Lemma q_decode_qbytes : forall c, wf_bytes c = true -> q_decode (qbytes c) = Some c.
Proof.
  induction c as [|b c IH]; intros H; [reflexivity|].
  apply wf_cons in H. destruct H as [Hb Hc]. unfold qbytes in *. cbn [flat_map].
  rewrite q_decode_byte by assumption. now rewrite (IH Hc).
Qed.

Lemma hexdig_not_q : forall n, n < 16 -> (hexdig n =? 63) = false.
Proof. intros n H. unfold hexdig. destruct (N.ltb_spec n 10); lia. Qed.

Lemma qbytes_no_q : forall c, wf_bytes c = true -> lacks_byte 63 (qbytes c) = true.
Proof.
  induction c as [|b c IH]; intros H; [reflexivity|].
  apply wf_cons in H. destruct H as [Hb Hc]. unfold qbytes, lacks_byte in *. cbn [flat_map].
  rewrite forallb_app, (IH Hc), andb_true_r.
  unfold q_byte. destruct (N.eqb_spec b 32); [reflexivity|]. destruct (q_plain b) eqn:Hq.
  - cbn. unfold q_plain in Hq. lia.
  - cbn [forallb]. rewrite !hexdig_not_q; [reflexivity| apply N.mod_lt; lia | apply N.div_lt_upper_bound; lia].
Qed.

(* ---------- the B payload ---------- *)
Lemma b64char_not_q : forall v, (b64char v =? 63) = false.
Proof.
  intros v. unfold b64char.
  destruct (N.ltb_spec v 26); [lia|]. destruct (N.ltb_spec v 52); [lia|].
  destruct (N.ltb_spec v 62); [lia|]. destruct (N.eqb_spec v 62); lia.
Qed.

Lemma b64enc_no_q : forall s, lacks_byte 63 (b64enc s) = true.
Proof.
  fix IH 1. intros [|a [|b [|c t]]]; cbn [b64enc lacks_byte forallb]; rewrite ?b64char_not_q; cbn; try reflexivity.
  apply IH.
Qed.

(* ---------- an encoded header as a sequence of words ---------- *)
(* the text after the first "=?UTF-8?e?": the payloads joined by "?= =?UTF-8?e?", then "?=" *)
Fixpoint words_tail (e : N) (ps : list bytes) : bytes :=
  match ps with
  | [] => close_word
  | p :: r => split_word e ++ p ++ words_tail e r
  end.

Definition payload_ok (e : N) (p c : bytes) : Prop :=
  lacks_byte 63 p = true /\ word_payload e p = Some c.

Lemma convert_utf8 : forall c, convert charset_utf8 c = Some c.
Proof. reflexivity. Qed.

(* one word at the head of the text, possibly after the separating blank *)
Lemma decode_words : forall e ps cs p c fuel pre between out,
  (e = 113 \/ e = 98) ->
  payload_ok e p c -> Forall2 (payload_ok e) ps cs ->
  (pre = [] \/ (pre = [32] /\ between = true)) ->
  (length ps < fuel)%nat ->
  decode_loop fuel (pre ++ open_word e ++ p ++ words_tail e ps) between out = Some (out ++ c ++ concat cs).
Proof.
  intros e ps. induction ps as [|p2 ps IH]; intros cs p c fuel pre between out He [Hq Hp] Hps Hpre Hf.
  - inversion Hps; subst. destruct fuel as [|f]; [cbn in Hf; lia|].
    cbn [words_tail concat]. rewrite app_nil_r.
    assert (E1 : find2 61 63 (pre ++ open_word e ++ p ++ close_word) = Some (pre, charset_utf8 ++ [63; e; 63] ++ p ++ close_word)).
    { change (open_word e ++ p ++ close_word) with (61 :: 63 :: (charset_utf8 ++ [63; e; 63] ++ p ++ close_word)).
      apply find2_skip. destruct Hpre as [->|[-> _]]; reflexivity. }
    cbn [decode_loop]. rewrite E1.
    assert (E2 : find1 63 (charset_utf8 ++ [63; e; 63] ++ p ++ close_word) = Some (charset_utf8, e :: 63 :: p ++ close_word)) by reflexivity.
    rewrite E2. change (63 =? 63) with true. cbn [negb].
    assert (E3 : find2 63 61 (p ++ close_word) = Some (p, [])).
    { change close_word with [63; 61]. apply find2_skip. exact Hq. }
    rewrite E3, Hp, convert_utf8.
    assert (Eo : (if negb (is_empty pre) && (negb between || has_non_ws pre) then out ++ pre else out) = out).
    { destruct Hpre as [->|[-> ->]]; reflexivity. }
    rewrite Eo. destruct f; cbn [decode_loop find2]; now rewrite app_nil_r.
  - inversion Hps as [|? c2 ? cs' Hp2 Hrest]; subst. destruct fuel as [|f]; [cbn in Hf; lia|].
    cbn [words_tail concat].
    assert (E1 : find2 61 63 (pre ++ open_word e ++ p ++ split_word e ++ p2 ++ words_tail e ps)
                 = Some (pre, charset_utf8 ++ [63; e; 63] ++ p ++ split_word e ++ p2 ++ words_tail e ps)).
    { change (open_word e ++ p ++ split_word e ++ p2 ++ words_tail e ps)
        with (61 :: 63 :: (charset_utf8 ++ [63; e; 63] ++ p ++ split_word e ++ p2 ++ words_tail e ps)).
      apply find2_skip. destruct Hpre as [->|[-> _]]; reflexivity. }
    cbn [decode_loop]. rewrite E1.
    assert (E2 : find1 63 (charset_utf8 ++ [63; e; 63] ++ p ++ split_word e ++ p2 ++ words_tail e ps)
                 = Some (charset_utf8, e :: 63 :: p ++ split_word e ++ p2 ++ words_tail e ps)) by reflexivity.
    rewrite E2. change (63 =? 63) with true. cbn [negb].
    assert (E3 : find2 63 61 (p ++ split_word e ++ p2 ++ words_tail e ps)
                 = Some (p, [32] ++ open_word e ++ p2 ++ words_tail e ps)).
    { change (split_word e ++ p2 ++ words_tail e ps) with (63 :: 61 :: ([32] ++ open_word e ++ p2 ++ words_tail e ps)).
      apply find2_skip. exact Hq. }
    rewrite E3, Hp, convert_utf8.
    assert (Eo : (if negb (is_empty pre) && (negb between || has_non_ws pre) then out ++ pre else out) = out).
    { destruct Hpre as [->|[-> ->]]; reflexivity. }
    rewrite Eo.
    rewrite (IH cs' p2 c2 f [32] true (out ++ c) He Hp2 Hrest); [now rewrite <- !app_assoc| right; auto | cbn in Hf; lia].
Qed.

(* ---------- the encoders produce such sequences ---------- *)
Lemma wf_app : forall a b, wf_bytes (a ++ b) = true -> wf_bytes a = true /\ wf_bytes b = true.
Proof. intros a b H. unfold wf_bytes in *. rewrite forallb_app in H. now apply andb_true_iff in H. Qed.

Lemma q_encode_words : forall s pend cur,
  exists c cs, s = c ++ concat cs /\
    q_encode s pend cur ++ close_word = qbytes c ++ words_tail 113 (map qbytes cs).
Proof.
  induction s as [|b t IH]; intros pend cur.
  - exists [], []. split; reflexivity.
  - cbn [q_encode]. destruct pend as [|p].
    + set (printable := ((32 <=? b) && (b <=? 126) && negb (b =? 61) && negb (b =? 63) && negb (b =? 95))%bool).
      set (rl := if printable then 1%nat else rune_len b t).
      set (el := if printable then 1%nat else (3 * rl)%nat).
      destruct (Nat.ltb max_content_len (cur + el)).
      * destruct (IH (rl - 1)%nat el) as (c' & cs' & Es & Eq).
        exists [], ((b :: c') :: cs'). split; [cbn; now rewrite Es|].
        cbn [map words_tail qbytes flat_map app]. rewrite <- !app_assoc. f_equal.
        unfold qbytes in Eq. f_equal. exact Eq.
      * destruct (IH (rl - 1)%nat (cur + el)%nat) as (c' & cs' & Es & Eq).
        exists (b :: c'), cs'. split; [cbn; now rewrite Es|].
        unfold qbytes in *. cbn [flat_map]. rewrite <- !app_assoc. f_equal. exact Eq.
    + destruct (IH p cur) as (c' & cs' & Es & Eq).
      exists (b :: c'), cs'. split; [cbn; now rewrite Es|].
      unfold qbytes in *. cbn [flat_map]. rewrite <- !app_assoc. f_equal. exact Eq.
Qed.

Lemma b_encode_words : forall s pend chunk,
  exists c cs, rev chunk ++ s = c ++ concat cs /\
    b_encode s pend chunk ++ close_word = b64enc c ++ words_tail 98 (map b64enc cs).
Proof.
  induction s as [|b t IH]; intros pend chunk.
  - exists (rev chunk), []. split; [now rewrite !app_nil_r|reflexivity].
  - cbn [b_encode]. destruct pend as [|p].
    + destruct (Nat.leb (length chunk + rune_len b t) max_base64_len).
      * destruct (IH (rune_len b t - 1)%nat (b :: chunk)) as (c' & cs' & Es & Eq).
        exists c', cs'. split; [|exact Eq]. cbn [rev] in Es. now rewrite <- app_assoc in Es.
      * destruct (IH (rune_len b t - 1)%nat [b]) as (c' & cs' & Es & Eq).
        exists (rev chunk), (c' :: cs'). split.
        -- cbn [concat]. cbn [rev app] in Es. now rewrite <- Es.
        -- cbn [map words_tail]. rewrite <- !app_assoc. f_equal. f_equal. exact Eq.
    + destruct (IH p (b :: chunk)) as (c' & cs' & Es & Eq).
      exists c', cs'. split; [|exact Eq]. cbn [rev] in Es. now rewrite <- app_assoc in Es.
Qed.

Lemma wf_concat : forall cs, wf_bytes (concat cs) = true -> Forall (fun c => wf_bytes c = true) cs.
Proof.
  induction cs as [|c cs IH]; intros H; [constructor|]. cbn [concat] in H. apply wf_app in H. destruct H.
  constructor; auto.
Qed.

Lemma payloads_q : forall cs, Forall (fun c => wf_bytes c = true) cs -> Forall2 (payload_ok 113) (map qbytes cs) cs.
Proof.
  induction cs as [|c cs IH]; intros H; [constructor|]. inversion H; subst.
  cbn [map]. constructor; [|now apply IH]. split; [now apply qbytes_no_q|now apply q_decode_qbytes].
Qed.

Lemma payloads_b : forall cs, Forall (fun c => wf_bytes c = true) cs -> Forall2 (payload_ok 98) (map b64enc cs) cs.
Proof.
  induction cs as [|c cs IH]; intros H; [constructor|]. inversion H; subst.
  cbn [map]. constructor; [|now apply IH]. split; [apply b64enc_no_q|now apply b64_roundtrip].
Qed.

Lemma words_tail_len : forall e ps, (length ps <= length (words_tail e ps))%nat.
Proof.
  induction ps as [|p ps IH]; cbn [words_tail length]; [lia|].
  rewrite !app_length. assert (L : length (split_word e) = 13%nat) by reflexivity. lia.
Qed.

(* ---------- the theorem ---------- *)
Theorem decode_word_encode : forall e s,
  (e = 113 \/ e = 98) -> wf_bytes s = true ->
  (needs_encoding s = true \/ no_eq_q s = true) ->
  decode_header (word_encode e s) = Some s.
Proof.
  intros e s He Hwf Hcase. unfold word_encode.
  destruct (needs_encoding s) eqn:Hn.
  - (* encoded: one or more words *)
    assert (Hdec : exists p c ps cs, encode_word e s = [] ++ open_word e ++ p ++ words_tail e ps /\
                     payload_ok e p c /\ Forall2 (payload_ok e) ps cs /\ s = c ++ concat cs).
    { unfold encode_word. destruct He as [->| ->].
      - change (113 =? 98) with false. cbv iota.
        destruct (q_encode_words s 0 0) as (c & cs & Es & Eq).
        assert (Hw : wf_bytes (c ++ concat cs) = true) by now rewrite <- Es.
        apply wf_app in Hw. destruct Hw as [Hc Hcs].
        exists (qbytes c), c, (map qbytes cs), cs. repeat split.
        + cbn [app]. f_equal. exact Eq.
        + now apply qbytes_no_q.
        + now apply q_decode_qbytes.
        + apply payloads_q. now apply wf_concat.
        + exact Es.
      - change (98 =? 98) with true. cbv iota.
        destruct (Nat.leb (b64_encoded_len (length s)) max_content_len).
        + exists (b64enc s), s, [], []. repeat split; try constructor.
          * apply b64enc_no_q.
          * now apply b64_roundtrip.
          * now rewrite app_nil_r.
        + destruct (b_encode_words s 0 []) as (c & cs & Es & Eq). cbn [rev app] in Es.
          assert (Hw : wf_bytes (c ++ concat cs) = true) by now rewrite <- Es.
          apply wf_app in Hw. destruct Hw as [Hc Hcs].
          exists (b64enc c), c, (map b64enc cs), cs. repeat split.
          * cbn [app]. f_equal. exact Eq.
          * apply b64enc_no_q.
          * now apply b64_roundtrip.
          * apply payloads_b. now apply wf_concat.
          * exact Es. }
    destruct Hdec as (p & c & ps & cs & Ee & Hp & Hps & Es).
    unfold decode_header. rewrite Ee.
    rewrite (decode_words e ps cs p c _ [] false [] He Hp Hps (or_introl eq_refl)).
    + cbn [app]. now rewrite Es.
    + cbn [app]. rewrite !app_length. pose proof (words_tail_len e ps). lia.
  - (* left alone: nothing to decode *)
    destruct Hcase as [H|H]; [discriminate|].
    unfold decode_header. cbn [decode_loop]. now rewrite (find2_no_eq_q s H).
Qed.

(* the hypothesis is needed: a value that already looks like an encoded-word is not encoded by the
   writer and IS decoded by the reader *)
Lemma decode_literal_word_refuted :
  needs_encoding (bs "=?UTF-8?q?a?=") = false /\
  decode_header (word_encode 113 (bs "=?UTF-8?q?a?=")) = Some (bs "a").
Proof. split; reflexivity. Qed.
