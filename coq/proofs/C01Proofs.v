(* C01Proofs.v — the writer model composed with the independent reader: what go-mail renders
   (Writer.v = Render.v by RenderProofs.v) is read back by MimeRead.v as exactly the expected
   MIME tree; base64 leaves need no freshness hypothesis on their bodies and decode to the
   supplied content. *)
From Coq Require Import String.
From Verif Require Import Bytes Base64 LineBreaker QP HeaderFold WordEnc Writer MimeTree MimeRead Render.
From VerifGen Require Import Gen.
From VerifProofs Require Import LineBreakerProofs CodecProofs WriterProofs RenderIdemProofs RenderProofs MimeReadProofs.
From Coq Require Import Lia ZifyBool ZifyNat ZifyN.
Open Scope nat_scope.

(* ---------- the reader understands the header startMP writes ---------- *)
Lemma crun_app : forall a b st, crun (a ++ b) st = crun b (crun a st).
Proof. intros. apply fold_left_app. Qed.

(* characters of an unquoted boundary value the reader takes as they are *)
Definition btokc (c : N) : bool :=
  negb (N.eqb c 13) && negb (N.eqb c 59) && negb (is_lwsp c) && negb (N.eqb c 34).
Definition btoken (b : bytes) : bool := match b with [] => false | _ => forallb btokc b end.

(* characters of a subtype the reader passes over *)
Definition mimec (c : N) : bool := negb (N.eqb c 13) && negb (N.eqb c 59) && negb (N.eqb c 34).
Definition mime_plain (mime : bytes) : bool := forallb mimec mime.

Lemma crun_scan : forall mime, mime_plain mime = true -> crun mime (CVal VScan 0) = CVal VScan 0.
Proof.
  induction mime as [|c t IH]; intros H; [reflexivity|].
  cbn [mime_plain forallb] in H. apply andb_true_iff in H. destruct H as [Hc Ht].
  unfold mimec in Hc. repeat (apply andb_true_iff in Hc; destruct Hc as [Hc ?]).
  apply negb_true_iff in Hc, H, H0.
  change (crun (c :: t) (CVal VScan 0)) with (crun t (cstep (CVal VScan 0) c)).
  cbn [cstep vstep]. rewrite Hc, H0, H. cbn [vnext]. now apply IH.
Qed.

Lemma btokc_spec : forall c, btokc c = true ->
  N.eqb c 13 = false /\ N.eqb c 59 = false /\ is_lwsp c = false /\ N.eqb c 34 = false.
Proof.
  intros c H. unfold btokc in H. repeat (apply andb_true_iff in H; destruct H as [H ?]).
  apply negb_true_iff in H, H0, H1, H2. auto.
Qed.

Lemma crun_btok : forall b acc, forallb btokc b = true ->
  crun b (CVal (VBTok acc) 0) = CVal (VBTok (acc ++ b)) 0.
Proof.
  induction b as [|c t IH]; intros acc H; [now rewrite app_nil_r|].
  cbn [forallb] in H. apply andb_true_iff in H. destruct H as [Hc Ht].
  destruct (btokc_spec c Hc) as (H1 & H2 & H3 & H4).
  change (crun (c :: t) (CVal (VBTok acc) 0)) with (crun t (cstep (CVal (VBTok acc) 0) c)).
  cbn [cstep vstep]. rewrite H1, H2, H3. cbn [orb vnext]. rewrite (IH _ Ht), <- app_assoc. reflexivity.
Qed.

Lemma crun_bstart : forall b, btoken b = true -> crun b (CVal VBStart 0) = CVal (VBTok b) 0.
Proof.
  intros [|c t] H; [discriminate|]. cbn [btoken forallb] in H. apply andb_true_iff in H. destruct H as [Hc Ht].
  destruct (btokc_spec c Hc) as (H1 & H2 & H3 & H4).
  change (crun (c :: t) (CVal VBStart 0)) with (crun t (cstep (CVal VBStart 0) c)).
  cbn [cstep vstep]. rewrite H1, H4, H2, H3. cbn [orb vnext]. now rewrite (crun_btok t [c] Ht).
Qed.

Theorem mp_boundary_mp_hdr : forall top mime b,
  crun top CLine = CLine -> mime_plain mime = true -> btoken b = true ->
  mp_boundary (top ++ mp_hdr mime b) = Some b.
Proof.
  intros top mime b Ht Hm Hb. unfold mp_boundary, mp_hdr.
  rewrite crun_app, Ht. rewrite !crun_app.
  assert (E1 : crun (bs "Content-Type: ") CLine = CVal (VType 0) 0) by (vm_compute; reflexivity).
  assert (E2 : crun (bs "multipart/") (CVal (VType 0) 0) = CVal VScan 0) by (vm_compute; reflexivity).
  assert (E3 : crun (bs " boundary=") (crun crlf (crun (bs ";") (CVal VScan 0))) = CVal VBStart 0) by (vm_compute; reflexivity).
  rewrite E1, E2, (crun_scan mime Hm), E3, (crun_bstart b Hb). reflexivity.
Qed.

Lemma lrun_mid : forall s, no_cr s = true -> lrun s LMid = LMid.
Proof.
  induction s as [|c t IH]; intros H; [reflexivity|].
  cbn [no_cr forallb] in H. apply andb_true_iff in H. destruct H as [Hc Ht]. apply negb_true_iff in Hc.
  change (lrun (c :: t) LMid) with (lrun t (lstep LMid c)). cbn [lstep]. rewrite Hc. now apply IH.
Qed.

Lemma btoken_no_cr : forall b, btoken b = true -> no_cr b = true.
Proof.
  intros b H. assert (F : forallb btokc b = true) by (destruct b; [discriminate|exact H]).
  clear H. unfold no_cr. induction b as [|c t IH]; [reflexivity|].
  cbn [forallb] in *. apply andb_true_iff in F. destruct F as [Hc Ht].
  destruct (btokc_spec c Hc) as (H1 & _). rewrite H1, (IH Ht). reflexivity.
Qed.

Lemma mime_plain_no_cr : forall m, mime_plain m = true -> no_cr m = true.
Proof.
  unfold mime_plain, no_cr. induction m as [|c t IH]; intros H; [reflexivity|].
  cbn [forallb] in *. apply andb_true_iff in H. destruct H as [Hc Ht].
  unfold mimec in Hc. repeat (apply andb_true_iff in Hc; destruct Hc as [Hc ?]).
  rewrite Hc, (IH Ht). reflexivity.
Qed.

Theorem lrun_mp_hdr : forall top mime b,
  lrun top LBol = LBol -> mime_plain mime = true -> btoken b = true ->
  lrun (top ++ mp_hdr mime b) LBol = LBol.
Proof.
  intros top mime b Ht Hm Hb. unfold mp_hdr. rewrite lrun_app, Ht. rewrite !lrun_app.
  assert (E1 : lrun (bs "multipart/") (lrun (bs "Content-Type: ") LBol) = LMid) by (vm_compute; reflexivity).
  assert (E2 : lrun (bs " boundary=") (lrun crlf (lrun (bs ";") LMid)) = LMid) by (vm_compute; reflexivity).
  rewrite E1, (lrun_mid mime (mime_plain_no_cr _ Hm)), E2, (lrun_mid b (btoken_no_cr _ Hb)). reflexivity.
Qed.

(* ---------- the hypotheses of the end-to-end theorem, as one decidable predicate ---------- *)
(* H-leaf: a leaf's header block consists of complete lines and does not declare a multipart.
   H-rand: a boundary is a plain token, and no child of a multipart node shows a delimiter of
   that node's boundary (boundaries differ per level and do not occur in leaf text).
   Nothing is assumed about the header blocks of the multipart nodes: that the reader finds
   the boundary startMP announced is proved (mp_boundary_mp_hdr). *)
Fixpoint fresh_tree (t : node) : bool :=
  match t with
  | Leaf h _ => is_bol (lrun h LBol) && oeqb (mp_boundary h) None
  | Multi _ b kids =>
      btoken b &&
      forallb (fun k => negb (occurs (delimiter b) (crlf ++ ser_node k))) kids &&
      forallb fresh_tree kids
  end.

Definition is_cline (st : cst) : bool := match st with CLine => true | _ => false end.

(* the message as one entity: the top-level header block joins the outermost node's header.
   For a multipart message: the top-level block consists of complete lines none of which is a
   Content-Type field. *)
Definition fresh_msg (top : bytes) (t : node) : bool :=
  match t with
  | Leaf h body => fresh_tree (Leaf (top ++ h) body)
  | Multi _ _ _ => is_bol (lrun top LBol) && is_cline (crun top CLine) && fresh_tree t
  end.

(* every multipart node carries the header startMP writes *)
Fixpoint mp_shaped (t : node) : Prop :=
  match t with
  | Leaf _ _ => True
  | Multi h b kids =>
      (exists mime, mime_plain mime = true /\ h = mp_hdr mime b) /\
      fold_right (fun k acc => mp_shaped k /\ acc) True kids
  end.

Lemma shaped_all : forall kids,
  fold_right (fun k acc => mp_shaped k /\ acc) True kids <-> Forall mp_shaped kids.
Proof.
  induction kids as [|k r IH]; cbn [fold_right]; split; intros H; auto.
  - destruct H as [Hk Hr]. constructor; [exact Hk|now apply IH].
  - inversion H; subst. split; [assumption|now apply IH].
Qed.

Lemma is_cline_true : forall st, is_cline st = true -> st = CLine.
Proof. intros [] H; cbn in H; congruence. Qed.

Lemma oeqb_refl : forall a, oeqb a a = true.
Proof. intros [x|]; cbn; [|reflexivity]. induction x as [|c x IH]; cbn; [reflexivity|]. now rewrite N.eqb_refl, IH. Qed.

Lemma wf_multi_top : forall top mime b kids,
  lrun top LBol = LBol -> crun top CLine = CLine -> mime_plain mime = true ->
  fresh_tree (Multi (mp_hdr mime b) b kids) = true -> forallb wf_tree kids = true ->
  wf_tree (Multi (top ++ mp_hdr mime b) b kids) = true.
Proof.
  intros top mime b kids Hl Hc Hm Hf Hk. cbn [fresh_tree] in Hf.
  apply andb_true_iff in Hf. destruct Hf as [Hf _]. apply andb_true_iff in Hf. destruct Hf as [Hb Hfr].
  cbn [wf_tree]. rewrite (lrun_mp_hdr top mime b Hl Hm Hb), (mp_boundary_mp_hdr top mime b Hc Hm Hb).
  rewrite oeqb_refl, (btoken_no_cr b Hb), Hfr, Hk. reflexivity.
Qed.

Lemma wf_of_fresh : forall t, mp_shaped t -> fresh_tree t = true -> wf_tree t = true.
Proof.
  induction t as [h body|h b kids IH] using node_ind2; intros Hs Hf; [exact Hf|].
  cbn [mp_shaped] in Hs. destruct Hs as ((mime & Hm & Eh) & Hks). subst h. apply shaped_all in Hks.
  assert (Hk : forallb wf_tree kids = true).
  { cbn [fresh_tree] in Hf. apply andb_true_iff in Hf. destruct Hf as [_ Hfk].
    rewrite forallb_forall in *. rewrite Forall_forall in *. intros k Hin. apply (IH k Hin (Hks k Hin) (Hfk k Hin)). }
  apply (wf_multi_top [] mime b kids eq_refl eq_refl Hm Hf Hk).
Qed.

Lemma wf_of_fresh_msg : forall top t,
  mp_shaped t -> fresh_msg top t = true -> wf_tree (prepend_hdr top t) = true.
Proof.
  intros top [h body|h b kids] Hs Hf; cbn [prepend_hdr fresh_msg] in *; [exact Hf|].
  apply andb_true_iff in Hf. destruct Hf as [Hf Ht]. apply andb_true_iff in Hf. destruct Hf as [Hl Hc].
  apply is_bol_true in Hl. apply is_cline_true in Hc.
  pose proof Hs as Hs'. cbn [mp_shaped] in Hs. destruct Hs as ((mime & Hm & Eh) & Hks). subst h. apply shaped_all in Hks.
  apply wf_multi_top; auto.
  cbn [fresh_tree] in Ht. apply andb_true_iff in Ht. destruct Ht as [_ Hfk].
  rewrite forallb_forall in *. rewrite Forall_forall in *. intros k Hin.
  apply wf_of_fresh; auto.
Qed.

Lemma ser_prepend : forall top t, ser_node (prepend_hdr top t) = top ++ ser_node t.
Proof. intros top [h body|h b kids]; cbn [prepend_hdr ser_node]; now rewrite <- app_assoc. Qed.

(* ---------- the forest of a resolved message is shaped ---------- *)
Lemma wrap_shaped : forall c mime b inner fo,
  mime_plain mime = true -> (forall f, Forall mp_shaped (inner f)) ->
  Forall mp_shaped (wrap_mp c mime b inner fo).
Proof.
  intros c mime b inner fo Hm Hi. unfold wrap_mp. destruct c; [|apply Hi].
  constructor; [|constructor]. cbn [mp_shaped]. split; [exists mime; auto|]. apply shaped_all, Hi.
Qed.

Lemma leaves_shaped : forall A (f : A -> node) l, (forall x, mp_shaped (f x)) -> Forall mp_shaped (map f l).
Proof. intros A f l H. induction l; cbn; constructor; auto. Qed.

Lemma forest_shaped : forall z fo, Forall mp_shaped (mix_level z fo).
Proof.
  intros z fo. unfold mix_level, rel_level, alt_level. cbv zeta.
  apply wrap_shaped; [reflexivity|]. intros f1. apply Forall_app. split.
  - apply wrap_shaped; [reflexivity|]. intros f2. apply Forall_app. split.
    + apply wrap_shaped; [reflexivity|]. intros f3. apply leaves_shaped. intros p. exact I.
    + apply leaves_shaped. intros x. exact I.
  - apply leaves_shaped. intros x. exact I.
Qed.

(* ---------- the expected tree, stated without reference to hasMixed/hasRelated/hasAlt ---------- *)
Definition nest (c : bool) (mime b : bytes) (kids : list node) : list node :=
  if c then [Multi (mp_hdr mime b) b kids] else kids.

(* for a message with n >= 1 body parts, e embeds, a attachments: one leaf per body part, embed
   and attachment, in this order, each with its header text and its ENCODED body; an alternative
   layer iff n >= 2, around it (and the embeds) a related layer iff e >= 1, around that (and the
   attachments) a mixed layer iff a >= 1.  A leaf is in the folded depth-0 form only when there
   is no layer at all (n = 1, e = 0, a = 0). *)
Definition expected_forest (z : rmsg) : list node :=
  let m := z_msg z in
  let n := length (m_parts m) in
  let e := length (z_embeds z) in
  let a := length (z_attach z) in
  let folded := Nat.eqb n 1 && Nat.eqb e 0 && Nat.eqb a 0 in
  let alt := nest (Nat.leb 2 n) Gen.mime_alternative (m_balt m) (map (part_leaf m folded) (m_parts m)) in
  let rel := nest (Nat.leb 1 e) Gen.mime_related (m_brelated m) (alt ++ map (file_leaf false) (z_embeds z)) in
  nest (Nat.leb 1 a) Gen.mime_mixed (m_bmixed m) (rel ++ map (file_leaf false) (z_attach z)).

Definition expected_tree (z : rmsg) : node :=
  match expected_forest z with
  | [t] => prepend_hdr (top_headers (z_msg z)) t
  | _ => Leaf [] []
  end.

Lemma forest_expected : forall z,
  1 <= length (m_parts (z_msg z)) ->
  length (m_embeds (z_msg z)) = length (z_embeds z) -> length (m_attach (z_msg z)) = length (z_attach z) ->
  forest_of z = expected_forest z /\ exists t, expected_forest z = [t].
Proof.
  intros z Hn He Ha. unfold forest_of, forest_gen, expected_forest, mix_level, rel_level, alt_level. cbv zeta.
  unfold has_mixed, has_related, has_alt. rewrite He, Ha.
  destruct (m_parts (z_msg z)) as [|p1 [|p2 ps]]; [cbn in Hn; lia| |];
    destruct (z_embeds z) as [|e1 es]; destruct (z_attach z) as [|a1 az];
    cbn [length Nat.ltb Nat.leb Nat.eqb andb orb negb wrap_mp nest map app];
    rewrite ?app_nil_r; (split; [reflexivity|eexists; reflexivity]).
Qed.

(* ---------- the end-to-end theorem ---------- *)
(* the hypotheses H-leaf / H-rand on the expected tree of the message *)
Definition fresh_expected (z : rmsg) : bool :=
  match expected_forest z with
  | [t] => fresh_msg (top_headers (z_msg z)) t
  | _ => false
  end.

Theorem leaves_thm : forall d i rb m,
  let z := resolve d i rb m in
  1 <= length (m_parts m) ->
  msg_has_failing_producer m = false ->
  no_bad_boundary z ->
  fresh_expected z = true ->
  read_tree (r_out (write_to d i rb m unlimited)) = Some (expected_tree z).
Proof.
  intros d i rb m z Hn Hf Hb Hfresh.
  destruct (resolve_lengths d i rb m) as (L1 & L2 & L3 & L4 & L5). fold z in L1, L2, L3, L4, L5.
  destruct (forest_expected z) as (Efo & t & Et); [rewrite L5; exact Hn|exact L1|exact L2|].
  destruct (write_to_pure d i rb m Hb Hf) as (Eo & _). rewrite Eo. fold z.
  unfold render_pure, body_pure, body_gen, expected_tree. fold (forest_of z). rewrite Efo, Et.
  cbn [map concat]. rewrite app_nil_r, <- ser_prepend.
  unfold fresh_expected in Hfresh. rewrite Et in Hfresh.
  apply read_tree_ser, wf_of_fresh_msg; [|exact Hfresh].
  pose proof (forest_shaped z true) as Hs. change (mix_level z true) with (forest_of z) in Hs.
  rewrite Efo, Et in Hs. now inversion Hs.
Qed.

(* the leaves of the expected tree, in document order *)
Theorem expected_leaves : forall z t,
  expected_forest z = [t] ->
  let m := z_msg z in
  let folded := Nat.eqb (length (m_parts m)) 1 && Nat.eqb (length (z_embeds z)) 0 && Nat.eqb (length (z_attach z)) 0 in
  leaves t =
  map (fun p => (part_hdr folded (m_wenc m) (m_charset m) p, encode_body (p_enc p) (p_prod p))) (m_parts m) ++
  map (fun fe => (file_hdr false (fst fe), encode_body (snd fe) (f_prod (fst fe)))) (z_embeds z) ++
  map (fun fe => (file_hdr false (fst fe), encode_body (snd fe) (f_prod (fst fe)))) (z_attach z).
Proof.
  intros z t Et. cbv zeta.
  assert (Lp : forall fo l, flat_map leaves (map (part_leaf (z_msg z) fo) l) =
               map (fun p => (part_hdr fo (m_wenc (z_msg z)) (m_charset (z_msg z)) p, encode_body (p_enc p) (p_prod p))) l).
  { intros fo l. induction l as [|p r IH]; [reflexivity|]. cbn [map flat_map]. rewrite IH. reflexivity. }
  assert (Lf : forall l, flat_map leaves (map (file_leaf false) l) =
               map (fun fe => (file_hdr false (fst fe), encode_body (snd fe) (f_prod (fst fe)))) l).
  { intros l. induction l as [|p r IH]; [reflexivity|]. cbn [map flat_map]. rewrite IH. reflexivity. }
  assert (Ln : forall c mime b kids, flat_map leaves (nest c mime b kids) = flat_map leaves kids).
  { intros c mime b kids. destruct c; cbn [nest flat_map leaves]; [now rewrite app_nil_r|reflexivity]. }
  assert (E : leaves t = flat_map leaves (expected_forest z)) by (rewrite Et; cbn; now rewrite app_nil_r).
  rewrite E. unfold expected_forest. cbv zeta.
  rewrite Ln, flat_map_app, Ln, flat_map_app, Ln, Lp, !Lf, <- app_assoc. reflexivity.
Qed.

(* ---------- base64 leaves ---------- *)
Lemma b64enc_no_dash : forall s, ~ In 45%N (b64enc s).
Proof.
  fix IH 1. intros [|a [|b [|c t]]]; cbn [b64enc In]; intros H;
    repeat (destruct H as [H|H]; [try (now apply b64char_not_dash in H); try discriminate|]); try exact H.
  now apply IH in H.
Qed.

Lemma wrap_from_in : forall max s col c, In c (wrap_from max col s) -> In c s \/ c = 13%N \/ c = 10%N.
Proof.
  induction s as [|b t IH]; intros col c H; cbn [wrap_from] in H.
  - destruct (Nat.eqb col 0); [destruct H|]. cbn in H. destruct H as [H|[H|[]]]; auto.
  - destruct (Nat.eqb (S col) max).
    + destruct H as [H|H]; [left; left; exact H|]. cbn [app crlf] in H.
      destruct H as [H|[H|H]]; auto. destruct (IH _ _ H) as [?|?]; [left; right; auto|auto].
    + destruct H as [H|H]; [left; left; exact H|]. destruct (IH _ _ H) as [?|?]; [left; right; auto|auto].
Qed.

(* the base64 alphabet has no '-': an encoded body shows no "--" at all *)
Theorem b64_body_no_dash : forall p, ~ In 45%N (encode_body EncB64 p).
Proof.
  intros p H. unfold encode_body in H. rewrite lb_chunk_independent in H. unfold wrap in H.
  apply wrap_from_in in H. cbn [concat] in H. rewrite app_nil_r in H.
  destruct H as [H|[H|H]]; [now apply b64enc_no_dash in H|discriminate|discriminate].
Qed.

Lemma prefix_needs_dash : forall b s, is_prefix (delimiter b) s = true -> In 45%N s.
Proof.
  intros b s H. unfold delimiter, dash_boundary in H. cbn [app crlf] in H.
  destruct s as [|c1 [|c2 [|c3 s]]]; cbn [is_prefix] in H; rewrite ?andb_false_r in H; try discriminate.
  apply andb_true_iff in H; destruct H as [_ H]. apply andb_true_iff in H; destruct H as [_ H].
  apply andb_true_iff in H; destruct H as [H _].
  apply N.eqb_eq in H. subst. right. right. left. reflexivity.
Qed.

Lemma occurs_needs_dash : forall b s, ~ In 45%N s -> occurs (delimiter b) s = false.
Proof.
  intros b s. induction s as [|c t IH]; intros H; cbn [occurs].
  - destruct (is_prefix (delimiter b) []) eqn:E; [apply prefix_needs_dash in E; contradiction|reflexivity].
  - destruct (is_prefix (delimiter b) (c :: t)) eqn:E; [apply prefix_needs_dash in E; contradiction|].
    cbn [orb]. apply IH. intros Hin. apply H. now right.
Qed.

(* a dash-free body after a header block cannot complete or contain a delimiter *)
Theorem fresh_dashfree_body : forall b y x,
  ~ In 13%N b -> ~ In 45%N y ->
  occurs (delimiter b) (x ++ crlf) = false -> occurs (delimiter b) (x ++ crlf ++ y) = false.
Proof.
  intros b y x Hb Hy. induction x as [|a x IH]; intros H.
  - cbn [app crlf occurs]. cbn [app] in H.
    assert (E1 : is_prefix (delimiter b) (13%N :: 10%N :: y) = false).
    { change (13%N :: 10%N :: y) with (crlf ++ y). unfold delimiter. rewrite is_prefix_app_both.
      destruct y as [|c y']; [reflexivity|]. unfold dash_boundary. cbn [is_prefix app].
      destruct (N.eqb_spec 45 c); [subst; exfalso; apply Hy; now left|reflexivity]. }
    assert (E2 : is_prefix (delimiter b) (10%N :: y) = false) by reflexivity.
    rewrite E1, E2. cbn [orb]. now apply occurs_needs_dash.
  - cbn [app] in *. apply occurs_cons_false in H. destruct H as [Hp Ho].
    cbn [occurs]. rewrite (IH Ho), orb_false_r.
    destruct (is_prefix (delimiter b) (a :: x ++ crlf ++ y)) eqn:E; [exfalso|reflexivity].
    replace (a :: x ++ crlf ++ y) with ((a :: x ++ crlf) ++ y) in E by (cbn [app]; now rewrite <- app_assoc).
    destruct (is_prefix_split _ _ _ E) as [L|(d' & Ed & P)]; [congruence|].
    unfold delimiter, dash_boundary in Ed. cbn [app crlf] in Ed.
    inversion Ed as [[Ha Ex]]. destruct x as [|u x']; cbn [app] in Ex; [discriminate|].
    inversion Ex as [[Hu Ex']]. apply Hb.
    assert (Hin : In 13%N (45%N :: 45%N :: b)).
    { rewrite Ex'. apply in_or_app. left. apply in_or_app. right. left. reflexivity. }
    destruct Hin as [?|[?|?]]; [discriminate|discriminate|assumption].
Qed.

(* hence for a base64 leaf the freshness hypothesis is a hypothesis on its HEADER block only *)
Theorem b64_leaf_fresh : forall b h p,
  ~ In 13%N b ->
  occurs (delimiter b) (crlf ++ h ++ crlf) = false ->
  occurs (delimiter b) (crlf ++ ser_node (Leaf h (encode_body EncB64 p))) = false.
Proof.
  intros b h p Hb H. cbn [ser_node]. rewrite app_assoc. rewrite app_assoc in H.
  apply fresh_dashfree_body; auto. apply b64_body_no_dash.
Qed.

(* decoding a base64 leaf (line breaks removed) yields exactly the content the producer supplied *)
Theorem b64_leaf_decodes : forall p,
  wf_bytes (concat (pchunks p)) = true ->
  b64dec (strip_crlf (encode_body EncB64 p)) = Some (concat (pchunks p)).
Proof.
  intros p Hwf. destruct (b64_body_total (concat (pchunks p))) as [o Ho].
  pose proof (b64_body_roundtrip _ _ Hwf Ho) as R. unfold b64_body in Ho.
  unfold encode_body. now rewrite Ho.
Qed.

(* ---------- a file's body is encoded as its emitted Content-Transfer-Encoding header says ---------- *)
(* For ANY header cache the File carries (a Content-Transfer-Encoding pre-set by the caller, or cached by
   an earlier render, or none) and ANY File.Enc: the header cache after addFiles names an encoding v and
   the body is encoded with exactly that encoding. *)
Theorem file_cte_names_body : forall w a f,
  (match f_enc f with Some e => enc_canon e | None => True end) ->
  exists v, get_h h_cte (fst (file_hdrs w a f)) = Some v /\ enc_of_name v = snd (file_hdrs w a f).
Proof.
  intros w a f Hcan. unfold file_hdrs. cbv zeta. cbn [fst snd].
  set (h1 := ensure h_ctype _ (f_hdr f)).
  set (e := file_enc f h1).
  set (h2 := ensure h_cte (enc_name e) h1).
  assert (He : enc_name e <> [] /\ (get_h h_cte h1 = None -> enc_of_name (enc_name e) = e)).
  { unfold e, file_enc. destruct (get_h h_cte h1) as [v|] eqn:E.
    - split; [|intros; discriminate].
      unfold enc_of_name. repeat match goal with |- context [if ?c then _ else _] => destruct c eqn:? end;
        cbn; try (vm_compute; discriminate). now apply get_h_some_nonempty in E.
    - destruct (f_enc f) as [e0|]; [destruct Hcan as [A B]|destruct gen_enc_b64_canon as [A B]]; split; auto. }
  destruct He as [Hne Hcanon].
  assert (G2 : get_h h_cte h2 = Some (match get_h h_cte h1 with Some v => v | None => enc_name e end))
    by (unfold h2; now rewrite ensure_get_same by exact Hne).
  set (h3 := match f_desc f with [] => h2 | d => ensure h_cdesc (word_encode w d) h2 end).
  assert (G3 : get_h h_cte h3 = get_h h_cte h2) by (unfold h3; destruct (f_desc f); [reflexivity|now rewrite ensure_get_other by reflexivity]).
  set (h4 := ensure h_cdisp _ h3).
  assert (G4 : get_h h_cte h4 = get_h h_cte h3) by (unfold h4; now rewrite ensure_get_other by reflexivity).
  set (h5 := if a then h4 else ensure h_cid _ h4).
  assert (G5 : get_h h_cte h5 = get_h h_cte h4) by (unfold h5; destruct a; [reflexivity|now rewrite ensure_get_other by reflexivity]).
  rewrite reencode_get_other by reflexivity. rewrite G5, G4, G3, G2.
  destruct (get_h h_cte h1) as [v|] eqn:E.
  - exists v. split; [reflexivity|]. unfold e, file_enc. now rewrite E.
  - exists (enc_name e). split; [reflexivity|]. now apply Hcanon.
Qed.

(* … hence every file leaf of a rendered message: its header block is written from a cache whose
   Content-Transfer-Encoding entry is v, and its body is encode_body (enc_of_name v) of the content *)
Theorem file_leaf_body_as_announced : forall w a f fo,
  (match f_enc f with Some e => enc_canon e | None => True end) ->
  exists v, get_h h_cte (f_hdr (fst (file_headers w a f))) = Some v /\
            file_leaf fo (file_headers w a f) =
            Leaf (file_hdr fo (fst (file_headers w a f))) (encode_body (enc_of_name v) (f_prod f)).
Proof.
  intros w a f fo H. destruct (file_cte_names_body w a f H) as (v & Hv & He). exists v.
  unfold file_headers, file_leaf. cbn [fst snd with_hdr f_hdr f_prod]. split; [exact Hv|]. now rewrite He.
Qed.
