(* C10 — parse (render m) = m on the observables: proofs.
   Stage S3: the parser model on the canonical field tree of a message in the feature set. *)
From Coq Require Import String.
From Verif Require Import Bytes Base64 LineBreaker QP HeaderFold WordEnc Writer MimeTree Render.
From Verif Require Import Eml EmlRender EmlFront EmlRoundtrip.
From VerifGen Require Import Gen.
From VerifProofs Require Import EmlProofs EmlRenderProofs EmlCodecProofs EmlFrontProofs.
From Coq Require Import ZArith Lia.

Local Opaque dec_qp dec_b64 media_type.

Lemma beq : forall a b, bytes_eqb a b = true -> a = b.
Proof. intros a b H. now apply beqb_eq. Qed.

(* ---------- one body part ---------- *)

Lemma step_part_qp : forall ct wire c sub st,
  ct = type_text_plain \/ ct = type_text_html ->
  dec_qp wire = Some c ->
  part_step filename_of false sub
    (entity_of_fnode true (FLeaf [fld h_cte enc_qp; fld h_ctype (ct ++ bs "; charset=" ++ charset_utf8)] wire)) st
  = Ok (set_parts st (Eml.m_parts st ++ [mkp ct charset_utf8 enc_qp c])).
Proof.
  intros ct wire c sub st Hct Hd.
  destruct Hct; subst ct; cbn [entity_of_fnode]; unfold part_view; cbn; rewrite Hd; cbn; reflexivity.
Qed.

Lemma step_part_b64 : forall ct wire c sub st,
  ct = type_text_plain \/ ct = type_text_html ->
  dec_b64 wire = Some c ->
  part_step filename_of false sub
    (entity_of_fnode true (FLeaf [fld h_cte enc_b64; fld h_ctype (ct ++ bs "; charset=" ++ charset_utf8)] wire)) st
  = Ok (set_parts st (Eml.m_parts st ++ [mkp ct charset_utf8 enc_b64 c])).
Proof.
  intros ct wire c sub st Hct Hd.
  destruct Hct; subst ct; cbn [entity_of_fnode]; unfold part_view; cbn; rewrite Hd; cbn; reflexivity.
Qed.

Lemma step_part_8bit : forall ct wire sub st,
  ct = type_text_plain \/ ct = type_text_html ->
  part_step filename_of false sub
    (entity_of_fnode true (FLeaf [fld h_cte enc_none; fld h_ctype (ct ++ bs "; charset=" ++ charset_utf8)] wire)) st
  = Ok (set_parts st (Eml.m_parts st ++ [mkp ct charset_utf8 enc_none wire])).
Proof.
  intros ct wire sub st Hct.
  destruct Hct; subst ct; cbn [entity_of_fnode]; unfold part_view; cbn; reflexivity.
Qed.

Lemma part_ok_facts : forall m p, Writer.m_charset m = charset_utf8 -> part_ok p = true ->
  (Writer.p_ctype p = type_text_plain \/ Writer.p_ctype p = type_text_html) /\
  part_ctype (Writer.m_charset m) p = Writer.p_ctype p ++ bs "; charset=" ++ charset_utf8 /\
  part_cs (Writer.m_charset m) p = charset_utf8 /\
  wf_bytes (EmlRoundtrip.content_of (p_prod p)) = true /\
  match Writer.p_enc p with
  | EncQP => no_bare_cr (EmlRoundtrip.content_of (p_prod p)) = true
  | EncB64 | Enc8bit => True
  | EncOther _ => False
  end.
Proof.
  intros m p Hm H. unfold part_ok in H.
  repeat (apply andb_true_iff in H; destruct H as [H ?]).
  apply orb_true_iff in H.
  assert (Hcs : part_cs (Writer.m_charset m) p = charset_utf8).
  { unfold part_cs. rewrite Hm. apply orb_true_iff in H4. destruct H4 as [E|E].
    - destruct (p_charset p); [reflexivity|discriminate].
    - apply beq in E. rewrite E. reflexivity. }
  split; [destruct H as [E|E]; apply beq in E; auto|].
  split; [unfold part_ctype; now rewrite Hcs|].
  split; [exact Hcs|]. split; [assumption|].
  destruct (Writer.p_enc p); auto; discriminate.
Qed.

Lemma step_part : forall m p sub st,
  Writer.m_charset m = charset_utf8 -> part_ok p = true ->
  part_step filename_of false sub (entity_of_fnode true (cpart_leaf m p)) st
  = Ok (set_parts st (Eml.m_parts st ++ [part_obs m p])).
Proof.
  intros m p sub st Hm Hp.
  destruct (part_ok_facts m p Hm Hp) as (Hct & Hcty & _ & Hwf & Henc).
  unfold cpart_leaf, cpart_fields, part_obs. rewrite Hcty.
  destruct (Writer.p_enc p) eqn:E; cbn [enc_name EmlRoundtrip.expected_content].
  - apply step_part_qp; [assumption|]. exact (body_qp (p_prod p) Hwf Henc).
  - apply step_part_b64; [assumption|]. exact (body_b64 (p_prod p) Hwf).
  - apply step_part_8bit; assumption.
  - contradiction.
Qed.

(* ---------- header values the hand-rolled splitter sees ---------- *)
Lemma pmh_no_semi : forall s, has 59 s = false -> parse_multipart_header s = Ok (s, []).
Proof.
  intros s H. unfold parse_multipart_header. rewrite (split_on_none 59 s H). reflexivity.
Qed.

Lemma pmh_one_param : forall a k v,
  has 59 a = false -> has 59 k = false -> has 59 v = false -> has 61 k = false ->
  (forall r, trim_left_sp (k ++ r) = k ++ r) ->
  parse_multipart_header (a ++ bs "; " ++ k ++ 61%N :: v) = Ok (a, [(k, v)]).
Proof.
  intros a k v Ha Hk Hv Hk2 Ht.
  assert (Hs : split_on 59 (a ++ bs "; " ++ k ++ 61%N :: v) = [a; 32%N :: k ++ 61%N :: v]).
  { change (a ++ bs "; " ++ k ++ 61%N :: v) with (a ++ 59%N :: (32%N :: k ++ 61%N :: v)).
    rewrite split_on_app by assumption. rewrite split_on_none; [reflexivity|].
    unfold has in *. cbn [existsb]. rewrite existsb_app. cbn [existsb]. rewrite Hk, Hv. reflexivity. }
  rewrite (pmh_of_split2 _ _ _ Hs).
  rewrite (pmh_opts_one _ k v); [reflexivity| |assumption].
  cbn [trim_left_sp]. apply Ht.
Qed.

Lemma has_app : forall c a b, has c (a ++ b) = (has c a || has c b)%bool.
Proof. intros. unfold has. apply existsb_app. Qed.

(* Content-Type of a file part: <mime>; name="<n>" *)
Lemma pmh_file_ctype : forall mime n, has 59 mime = false -> has 59 n = false ->
  parse_multipart_header (mime ++ bs "; name=" ++ bs """" ++ n ++ bs """")
  = Ok (mime, [(bs "name", dquote :: n ++ [dquote])]).
Proof.
  intros mime n Hm Hn.
  change (mime ++ bs "; name=" ++ bs """" ++ n ++ bs """")
    with (mime ++ bs "; " ++ bs "name" ++ 61%N :: (dquote :: n ++ [dquote])).
  apply (pmh_one_param mime (bs "name") (dquote :: n ++ [dquote])); try reflexivity; try assumption.
  cbn [has existsb]. change (existsb (N.eqb 59) (n ++ [dquote])) with (has 59 (n ++ [dquote])).
  rewrite has_app, Hn. reflexivity.
Qed.

(* Content-Disposition as addFiles writes it *)
Lemma pmh_render_cd : forall disp e, has 59 disp = false -> has 59 e = false ->
  parse_multipart_header (render_cd disp e) = Ok (disp, [(lit_filename, dquote :: e ++ [dquote])]).
Proof.
  intros disp e Hd He.
  change (render_cd disp e) with (disp ++ bs "; " ++ lit_filename ++ 61%N :: (dquote :: e ++ [dquote])).
  apply (pmh_one_param disp lit_filename (dquote :: e ++ [dquote])); try reflexivity; try assumption.
  cbn [has existsb]. change (existsb (N.eqb 59) (e ++ [dquote])) with (has 59 (e ++ [dquote])).
  rewrite has_app, He. reflexivity.
Qed.

(* Content-Type of a multipart container after textproto has joined the folded line *)
Lemma pmh_mp_ctype : forall mime b, has 59 mime = false -> has 59 b = false ->
  parse_multipart_header (mp_ctype mime b) = Ok (bs "multipart/" ++ mime, [(bs "boundary", b)]).
Proof.
  intros mime b Hm Hb. unfold mp_ctype.
  change (bs "multipart/" ++ mime ++ bs "; boundary=" ++ b)
    with (bs "multipart/" ++ (mime ++ bs "; " ++ bs "boundary" ++ 61%N :: b)).
  rewrite app_assoc. apply (pmh_one_param (bs "multipart/" ++ mime) (bs "boundary") b); try reflexivity; try assumption.
Qed.

(* ---------- files ---------- *)
Lemma name_ok_facts : forall n, name_ok n = true ->
  Writer.sanitize n = n /\ WordEnc.needs_encoding n = false /\ has 59 n = false /\ n <> [].
Proof.
  intros n H. unfold name_ok in H.
  apply andb_true_iff in H. destruct H as [H _]. apply andb_true_iff in H. destruct H as [Hne H].
  assert (Hall : forall b, In b n -> (32 <=? b)%N = true /\ (b <=? 126)%N = true /\ sanitize_bad b = false /\ N.eqb b 59 = false).
  { intros b Hb. rewrite forallb_forall in H. specialize (H b Hb).
    repeat (apply andb_true_iff in H; destruct H as [H ?]).
    repeat split; auto; now apply negb_true_iff. }
  repeat split.
  - unfold Writer.sanitize. rewrite <- (map_id n) at 2. apply map_ext_in. intros b Hb.
    destruct (Hall b Hb) as (_ & _ & Hs & _). now rewrite Hs.
  - unfold WordEnc.needs_encoding. apply not_true_iff_false. intros E. apply existsb_exists in E.
    destruct E as [b [Hb E]]. destruct (Hall b Hb) as (H1 & H2 & _ & _).
    apply andb_true_iff in E. destruct E as [E _]. apply orb_true_iff in E.
    apply N.leb_le in H1, H2. destruct E as [E|E]; apply N.ltb_lt in E; lia.
  - unfold has. apply not_true_iff_false. intros E. apply existsb_exists in E.
    destruct E as [b [Hb E]]. destruct (Hall b Hb) as (_ & _ & _ & H4). rewrite N.eqb_sym in H4. congruence.
  - intros ->. discriminate.
Qed.

Definition file_fields (is_att : bool) (n mime : bytes) : hdr :=
  [(h_cdisp, render_cd (if is_att then lit_attachment else lit_inline) n)] ++
  (if is_att then [] else [(h_cid, bs "<" ++ n ++ bs ">")]) ++
  [(h_cte, enc_b64); (h_ctype, mime ++ bs "; name=" ++ bs """" ++ n ++ bs """")].

Lemma needs_encoding_app : forall a b, WordEnc.needs_encoding (a ++ b) = (WordEnc.needs_encoding a || WordEnc.needs_encoding b)%bool.
Proof. intros. unfold WordEnc.needs_encoding. apply existsb_app. Qed.

Lemma file_headers_fresh : forall wenc is_att f, file_ok f = true ->
  let fe := file_headers wenc is_att f in
  cfile_fields (fst fe) = file_fields is_att (f_name f) (f_mime f) /\ snd fe = EncB64 /\
  f_prod (fst fe) = f_prod f /\ f_name (fst fe) = f_name f.
Proof.
  intros wenc is_att f H. unfold file_ok in H.
  repeat (apply andb_true_iff in H; destruct H as [H ?]).
  destruct f as [n mime fenc desc hd prod]. cbn [f_name f_mime f_enc f_desc f_hdr f_prod] in *.
  destruct hd; [|discriminate]. destruct desc; [|discriminate]. destruct fenc; [discriminate|].
  assert (Hname : name_ok n = true) by (unfold name_ok; rewrite H, H7, H6; reflexivity).
  destruct (name_ok_facts n Hname) as (Hs & Hn & _ & _).
  assert (Hw : word_encode wenc (Writer.sanitize n) = n) by (rewrite Hs; unfold word_encode; now rewrite Hn).
  assert (Hc : word_encode wenc (bs "<" ++ n ++ bs ">") = bs "<" ++ n ++ bs ">").
  { unfold word_encode. rewrite !needs_encoding_app, Hn. reflexivity. }
  change (bs "<" ++ n ++ bs ">") with (60%N :: n ++ [62%N]) in Hc.
  cbv zeta. unfold file_headers, file_hdrs. cbn [f_name f_mime f_enc f_desc f_hdr f_prod with_hdr fst snd].
  rewrite Hw, Hs.
  destruct is_att; cbn -[word_encode]; rewrite ?Hc; repeat split; reflexivity.
Qed.

Lemma mime_ok_facts : forall t, mime_ok t = true ->
  has 59 t = false /\ eqfold t type_multipart_related = false /\ eqfold t type_multipart_alternative = false.
Proof.
  intros t H. unfold mime_ok in H. repeat (apply andb_true_iff in H; destruct H as [H ?]).
  apply negb_true_iff in H0, H1. repeat split; auto.
  unfold has. apply not_true_iff_false. intros E. apply existsb_exists in E. destruct E as [b [Hb E]].
  rewrite forallb_forall in H2. specialize (H2 b Hb). apply andb_true_iff in H2. destruct H2 as [H2 _].
  apply negb_true_iff in H2. rewrite N.eqb_sym in H2. congruence.
Qed.

Local Opaque parse_multipart_header.

Lemma step_file : forall is_att n mime wire c sub st,
  name_ok n = true -> mime_ok mime = true -> dec_b64 wire = Some c ->
  part_step filename_of false sub (entity_of_fnode true (FLeaf (file_fields is_att n mime) wire)) st
  = Ok (if is_att then add_att st (mkf n [] c) else add_emb st (mkf n (bs "<" ++ n ++ bs ">") c)).
Proof.
  intros is_att n mime wire c sub st Hn Hm Hd.
  destruct (name_ok_facts n Hn) as (_ & _ & Hsemi & _).
  destruct (mime_ok_facts mime Hm) as (Hms & Hr & Ha).
  assert (Hcid : has 59 (bs "<" ++ n ++ bs ">") = false) by (rewrite !has_app, Hsemi; reflexivity).
  unfold eqfold in Hr, Ha. cbn in Hr, Ha.
  pose proof (pmh_file_ctype mime n Hms Hsemi) as P1. cbn in P1.
  pose proof (pmh_no_semi enc_b64 eq_refl) as P3. cbn in P3.
  pose proof (pmh_no_semi _ Hcid) as P4. cbn in P4.
  unfold part_step, nested_phase, body_phase, attachment_embed.
  destruct is_att.
  - pose proof (pmh_render_cd lit_attachment n eq_refl Hsemi) as P2. cbn in P2.
    cbn [entity_of_fnode file_fields app]; unfold part_view; cbn.
    rewrite P1; cbn; rewrite Hr, Ha; cbn. rewrite P2; cbn.
    rewrite filename_of_quoted; cbn. rewrite P3; cbn. rewrite Hd; cbn. reflexivity.
  - pose proof (pmh_render_cd lit_inline n eq_refl Hsemi) as P2. cbn in P2.
    cbn [entity_of_fnode file_fields app]; unfold part_view; cbn.
    rewrite P1; cbn; rewrite Hr, Ha; cbn. rewrite P2; cbn.
    rewrite filename_of_quoted; cbn. rewrite P3; cbn. rewrite Hd; cbn. rewrite P4; cbn. reflexivity.
Qed.


(* ---------- the part loop ---------- *)
Definition step_of (e : entity) : mstate -> outcome mstate :=
  part_step filename_of false (parse_body_parts filename_of false e) e.
Definition steps (kids : list fnode) : list (mstate -> outcome mstate) :=
  map step_of (map (entity_of_fnode true) kids).

Lemma run_parts_app : forall a b end_ok s,
  run_parts (a ++ b) end_ok s = (s' <- run_parts a true s ;; run_parts b end_ok s').
Proof.
  induction a as [|f a IH]; intros b end_ok s; cbn [app run_parts bind]; [reflexivity|].
  destruct (f s) as [s1| |]; cbn [bind]; [apply IH|reflexivity|reflexivity].
Qed.

Lemma steps_app : forall a b, steps (a ++ b) = steps a ++ steps b.
Proof. intros. unfold steps. now rewrite !map_app. Qed.

Definition add_parts (st : mstate) (l : list pobs) : mstate := set_parts st (Eml.m_parts st ++ l).
Definition add_atts (st : mstate) (l : list fobs) : mstate :=
  mkm (Eml.m_charset st) (m_enc st) (Eml.m_parts st) (m_atts st ++ l) (m_embs st) (Eml.m_gen st) (m_addrs st).
Definition add_embs (st : mstate) (l : list fobs) : mstate :=
  mkm (Eml.m_charset st) (m_enc st) (Eml.m_parts st) (m_atts st) (m_embs st ++ l) (Eml.m_gen st) (m_addrs st).

Lemma add_parts_nil : forall st, add_parts st [] = st.
Proof. intros []. unfold add_parts, set_parts. cbn. now rewrite app_nil_r. Qed.
Lemma add_atts_nil : forall st, add_atts st [] = st.
Proof. intros []. unfold add_atts. cbn. now rewrite app_nil_r. Qed.
Lemma add_embs_nil : forall st, add_embs st [] = st.
Proof. intros []. unfold add_embs. cbn. now rewrite app_nil_r. Qed.
Lemma add_parts_app : forall st a b, add_parts (add_parts st a) b = add_parts st (a ++ b).
Proof. intros [] a b. unfold add_parts, set_parts. cbn. now rewrite app_assoc. Qed.
Lemma add_atts_app : forall st a b, add_atts (add_atts st a) b = add_atts st (a ++ b).
Proof. intros [] a b. unfold add_atts. cbn. now rewrite app_assoc. Qed.
Lemma add_embs_app : forall st a b, add_embs (add_embs st a) b = add_embs st (a ++ b).
Proof. intros [] a b. unfold add_embs. cbn. now rewrite app_assoc. Qed.

Lemma run_part_leaves : forall m ps st,
  Writer.m_charset m = charset_utf8 -> forallb part_ok ps = true ->
  run_parts (steps (map (cpart_leaf m) ps)) true st = Ok (add_parts st (map (part_obs m) ps)).
Proof.
  intros m ps. induction ps as [|p ps IH]; intros st Hm Hp.
  - cbn. now rewrite add_parts_nil.
  - cbn [forallb] in Hp. apply andb_true_iff in Hp. destruct Hp as [Hp Hps].
    cbn [map steps run_parts]. fold (steps (map (cpart_leaf m) ps)).
    unfold step_of at 1. rewrite (step_part m p _ st Hm Hp). cbn [bind].
    rewrite IH by assumption. change (set_parts st (Eml.m_parts st ++ [part_obs m p])) with (add_parts st [part_obs m p]).
    now rewrite add_parts_app.
Qed.


Lemma file_ok_facts : forall f, file_ok f = true ->
  name_ok (f_name f) = true /\ mime_ok (f_mime f) = true /\ wf_bytes (EmlRoundtrip.content_of (f_prod f)) = true.
Proof.
  intros f H. unfold file_ok in H.
  apply andb_true_iff in H. destruct H as [H Hw].
  apply andb_true_iff in H. destruct H as [H _].
  apply andb_true_iff in H. destruct H as [H _].
  apply andb_true_iff in H. destruct H as [H _].
  apply andb_true_iff in H. destruct H as [H _].
  apply andb_true_iff in H. destruct H as [Hn Hm]. auto.
Qed.

Lemma run_file_leaves : forall wenc is_att fs st,
  forallb file_ok fs = true ->
  run_parts (steps (map cfile_leaf (map (file_headers wenc is_att) fs))) true st
  = Ok (if is_att then add_atts st (map (file_obs true) fs) else add_embs st (map (file_obs false) fs)).
Proof.
  intros wenc is_att fs. induction fs as [|f fs IH]; intros st Hf.
  - destruct is_att; cbn; now rewrite ?add_atts_nil, ?add_embs_nil.
  - cbn [forallb] in Hf. apply andb_true_iff in Hf. destruct Hf as [Hf Hfs].
    destruct (file_ok_facts f Hf) as (Hn & Hm & Hw).
    destruct (file_headers_fresh wenc is_att f Hf) as (Hfields & Henc & Hprod & _).
    cbn [map steps run_parts]. fold (steps (map cfile_leaf (map (file_headers wenc is_att) fs))).
    unfold step_of at 1, cfile_leaf at 1 2. rewrite Hfields, Henc, Hprod.
    rewrite (step_file is_att (f_name f) (f_mime f) _ (EmlRoundtrip.content_of (f_prod f)));
      [|assumption|assumption|exact (body_b64 (f_prod f) Hw)].
    cbn [bind]. rewrite IH by assumption.
    destruct is_att; cbn [map].
    + change (add_att st (mkf (f_name f) [] (EmlRoundtrip.content_of (f_prod f)))) with (add_atts st [file_obs true f]).
      now rewrite add_atts_app.
    + change (add_emb st (mkf (f_name f) (bs "<" ++ f_name f ++ bs ">") (EmlRoundtrip.content_of (f_prod f))))
        with (add_embs st [file_obs false f]).
      now rewrite add_embs_app.
Qed.

(* ---------- multipart containers ---------- *)
Lemma bind_ok_id : forall A (o : outcome A), (x <- o ;; Ok x) = o.
Proof. intros A [a| |]; reflexivity. Qed.

Lemma step_container : forall mime b kids st,
  mime = mime_related \/ mime = mime_alternative -> is_token b = true ->
  step_of (entity_of_fnode true (FMulti [fld h_ctype (mp_ctype mime b)] kids)) st
  = run_parts (steps kids) true st.
Proof.
  intros mime b kids st Hm Hb.
  pose proof (is_token_no_semi b Hb) as Hs. change (existsb (N.eqb 59) b) with (has 59 b) in Hs.
  unfold step_of, part_step, nested_phase, body_phase.
  cbn [entity_of_fnode]. fold (steps kids).
  destruct Hm as [ -> | -> ].
  - pose proof (pmh_mp_ctype mime_related b eq_refl Hs) as P. cbn in P.
    pose proof (media_type_mp mime_related b (or_intror (or_introl eq_refl)) Hb) as M. cbn in M.
    cbn. rewrite P. cbn. rewrite M. cbn.
    unfold steps, step_of.
    match goal with |- context [run_parts ?l true st] => destruct (run_parts l true st) as [s| |] end;
      cbn; rewrite ?P; reflexivity.
  - pose proof (pmh_mp_ctype mime_alternative b eq_refl Hs) as P. cbn in P.
    pose proof (media_type_mp mime_alternative b (or_intror (or_intror eq_refl)) Hb) as M. cbn in M.
    cbn. rewrite P. cbn. rewrite M. cbn.
    unfold steps, step_of.
    match goal with |- context [run_parts ?l true st] => destruct (run_parts l true st) as [s| |] end;
      cbn; rewrite ?P; reflexivity.
Qed.

Lemma run_cnest : forall c mime b kids st,
  mime = mime_related \/ mime = mime_alternative -> is_token b = true ->
  run_parts (steps (cnest c mime b kids)) true st = run_parts (steps kids) true st.
Proof.
  intros c mime b kids st Hm Hb. destruct c; [|reflexivity].
  cbn [cnest steps map run_parts]. rewrite (step_container mime b kids st Hm Hb).
  apply bind_ok_id.
Qed.

(* ---------- the message as one entity ---------- *)
Lemma good_value_nonempty : forall v, good_value v = true -> is_empty v = false.
Proof. intros [|b t] H; [discriminate|reflexivity]. Qed.

Lemma body_top_multi : forall top mime b kids st,
  hvals top (canon hdr_content_type) = [] -> mp_sub mime -> is_token b = true ->
  parse_body_parts filename_of false
    (entity_of_fnode false (FMulti (top ++ [fld h_ctype (mp_ctype mime b)]) kids)) st
  = run_parts (steps kids) true st.
Proof.
  intros top mime b kids st Ht Hm Hb.
  cbn [entity_of_fnode parse_body_parts]. fold (steps kids).
  rewrite (hget_app_absent top _ hdr_content_type Ht).
  destruct Hm as [ -> | [ -> | -> ] ].
  - pose proof (media_type_mp mime_mixed b (or_introl eq_refl) Hb) as M. cbn in M.
    cbn. rewrite M. cbn. reflexivity.
  - pose proof (media_type_mp mime_related b (or_intror (or_introl eq_refl)) Hb) as M. cbn in M.
    cbn. rewrite M. cbn. reflexivity.
  - pose proof (media_type_mp mime_alternative b (or_intror (or_intror eq_refl)) Hb) as M. cbn in M.
    cbn. rewrite M. cbn. reflexivity.
Qed.

Lemma run_alt_level : forall c m ba ps st,
  Writer.m_charset m = charset_utf8 -> forallb part_ok ps = true -> (c = true -> is_token ba = true) ->
  run_parts (steps (cnest c mime_alternative ba (map (cpart_leaf m) ps))) true st
  = Ok (add_parts st (map (part_obs m) ps)).
Proof.
  intros c m ba ps st Hm Hp Hb. destruct c.
  - rewrite run_cnest; [now apply run_part_leaves|now right|now apply Hb].
  - cbn [cnest]. now apply run_part_leaves.
Qed.

Lemma run_rel_level : forall ca cr m wenc ba br ps es st,
  Writer.m_charset m = charset_utf8 -> forallb part_ok ps = true -> forallb file_ok es = true ->
  (ca = true -> is_token ba = true) -> (cr = true -> is_token br = true) ->
  run_parts (steps (cnest cr mime_related br
                      (cnest ca mime_alternative ba (map (cpart_leaf m) ps)
                       ++ map cfile_leaf (map (file_headers wenc false) es)))) true st
  = Ok (add_embs (add_parts st (map (part_obs m) ps)) (map (file_obs false) es)).
Proof.
  intros ca cr m wenc ba br ps es st Hm Hp He Hba Hbr.
  assert (R : forall st, run_parts (steps (cnest ca mime_alternative ba (map (cpart_leaf m) ps)
                       ++ map cfile_leaf (map (file_headers wenc false) es))) true st
              = Ok (add_embs (add_parts st (map (part_obs m) ps)) (map (file_obs false) es))).
  { intros s. rewrite steps_app, run_parts_app, run_alt_level by assumption. cbn [bind].
    now rewrite (run_file_leaves wenc false es _ He). }
  destruct cr.
  - rewrite run_cnest; [apply R|now left|now apply Hbr].
  - cbn [cnest]. apply R.
Qed.

Lemma run_mix_kids : forall ca cr m wenc ba br ps es ats st,
  Writer.m_charset m = charset_utf8 -> forallb part_ok ps = true ->
  forallb file_ok es = true -> forallb file_ok ats = true ->
  (ca = true -> is_token ba = true) -> (cr = true -> is_token br = true) ->
  run_parts (steps (cnest cr mime_related br
                      (cnest ca mime_alternative ba (map (cpart_leaf m) ps)
                       ++ map cfile_leaf (map (file_headers wenc false) es))
                    ++ map cfile_leaf (map (file_headers wenc true) ats))) true st
  = Ok (add_atts (add_embs (add_parts st (map (part_obs m) ps)) (map (file_obs false) es))
                 (map (file_obs true) ats)).
Proof.
  intros ca cr m wenc ba br ps es ats st Hm Hp He Ha Hba Hbr.
  rewrite steps_app, run_parts_app, run_rel_level by assumption. cbn [bind].
  now rewrite (run_file_leaves wenc true ats _ Ha).
Qed.

(* ---------- the header block of the message ---------- *)
Definition top_keys : list bytes := eml_common_headers ++ [hdr_from; hdr_to; hdr_cc; hdr_bcc; hdr_date].

Definition T0 (d i sv F tov : bytes) : hdr :=
  [fld hdr_date d; fld hdr_mime_version (bs "1.0"); fld hdr_message_id i; fld hdr_subject sv;
   fld hdr_user_agent user_agent; fld hdr_x_mailer user_agent; fld hdr_from F; fld hdr_to tov].

Lemma parse_encoding_app : forall a b st,
  hvals a (canon hdr_content_transfer_enc) = [] -> parse_encoding (a ++ b) st = parse_encoding b st.
Proof. intros a b st H. unfold parse_encoding. now rewrite (hget_app_absent a b _ H). Qed.

Lemma parse_ct_charset_app : forall a b st,
  hvals a (canon hdr_content_type) = [] -> parse_ct_charset false (a ++ b) st = parse_ct_charset false b st.
Proof. intros a b st H. unfold parse_ct_charset. now rewrite (hget_app_absent a b _ H). Qed.

Section Top.
Context (pa pl : bytes -> ares) (pd : bytes -> dres).

(* the state after parseEMLHeaders, for the To-only and the To+Cc header *)
Lemma headers_top : forall d i sv F tos ccs extra st2,
  good_value d = true -> good_value i = true -> good_value sv = true -> good_value F = true ->
  is_empty (join (bs ", ") tos) = false ->
  pa F = AOk [F] -> pl (join (bs ", ") tos) = AOk tos ->
  (ccs <> [] -> is_empty (join (bs ", ") ccs) = false /\ pl (join (bs ", ") ccs) = AOk ccs) ->
  pd d = DOk d ->
  lacks extra top_keys = true ->
  parse_ct_charset false extra (parse_encoding extra st_init) = Ok st2 ->
  Eml.m_gen st2 = [] ->
  let T := T0 d i sv F (join (bs ", ") tos) ++ match ccs with [] => [] | _ => [fld hdr_cc (join (bs ", ") ccs)] end in
  exists st, parse_headers false (T ++ extra)
               (addr_field pa (T ++ extra) hdr_from) (addr_field pl (T ++ extra) hdr_to)
               (addr_field pl (T ++ extra) hdr_cc) (addr_field pl (T ++ extra) hdr_bcc)
               (if is_empty (hget (T ++ extra) hdr_date) then DNone else pd (hget (T ++ extra) hdr_date))
               st_init = Ok st /\
             Eml.m_charset st = Eml.m_charset st2 /\ m_enc st = m_enc st2 /\
             Eml.m_parts st = Eml.m_parts st2 /\ m_atts st = m_atts st2 /\ m_embs st = m_embs st2 /\
             m_addrs st = mka [F] tos ccs [] /\
             map_get (Eml.m_gen st) hdr_subject = Some sv /\ map_get (Eml.m_gen st) hdr_date = Some d /\
             Eml.m_gen st = parsed_gen d i sv.
Proof.
  intros d i sv F tos ccs extra st2 Hd Hi Hsv HF Hto HpF Hpto Hcc Hpd Hl H2 Hg T.
  assert (HTce : hvals T (canon hdr_content_transfer_enc) = []) by (subst T; destruct ccs; reflexivity).
  assert (HTct : hvals T (canon hdr_content_type) = []) by (subst T; destruct ccs; reflexivity).
  assert (Hget : forall k, In k top_keys -> hget (T ++ extra) k = hget T k) by (intros k Hk; now apply (lacks_hget T extra top_keys)).
  unfold parse_headers.
  rewrite (parse_encoding_app T extra _ HTce), (parse_ct_charset_app T extra _ HTct), H2. cbn [bind].
  unfold addr_field.
  rewrite !Hget by (unfold top_keys; cbn; tauto).
  assert (Hcom : lacks extra (common_headers false) = true).
  { unfold lacks, top_keys, common_headers in *. rewrite forallb_app in Hl. apply andb_true_iff in Hl. tauto. }
  apply good_value_nonempty in Hd, Hi, Hsv, HF.
  destruct d as [|d0 d']; [discriminate|]. destruct i as [|i0 i']; [discriminate|].
  destruct sv as [|s0 sv']; [discriminate|]. destruct F as [|f0 F']; [discriminate|].
  destruct ccs as [|c0 ccs'].
  - subst T. cbn [app] in *.
    remember (join (bs ", ") tos) as tov. destruct tov as [|t0 tov']; [discriminate|].
    set (T := T0 (d0 :: d') (i0 :: i') (s0 :: sv') (f0 :: F') (t0 :: tov') ++ []) in *.
    assert (E1 : hget T hdr_from = f0 :: F') by reflexivity.
    assert (E2 : hget T hdr_to = t0 :: tov') by reflexivity.
    assert (E3 : hget T hdr_cc = []) by reflexivity.
    assert (E4 : hget T hdr_bcc = []) by reflexivity.
    assert (E5 : hget T hdr_date = d0 :: d') by reflexivity.
    rewrite E1, E2, E3, E4, E5. cbn [is_empty]. rewrite HpF, Hpto, Hpd.
    cbn [aerr orb alist firstn].
    rewrite (copy_common_app false (common_headers false) T extra _ Hcom).
    subst T. destruct st2 as [cs2 en2 ps2 at2 em2 g2 ad2]. cbn [Eml.m_gen] in Hg. subst g2.
    match goal with |- exists st, ?L = Ok st /\ _ =>
      let v := eval vm_compute in L in
      match v with Ok ?s => exists s; split; [vm_cast_no_check (eq_refl v)|] end end.
    repeat split; vm_compute; reflexivity.
  - destruct (Hcc ltac:(discriminate)) as [Hcce Hpcc]. subst T. cbn [app] in *.
    remember (join (bs ", ") tos) as tov. destruct tov as [|t0 tov']; [discriminate|].
    remember (join (bs ", ") (c0 :: ccs')) as ccv. destruct ccv as [|cc0 ccv']; [discriminate|].
    set (T := T0 (d0 :: d') (i0 :: i') (s0 :: sv') (f0 :: F') (t0 :: tov') ++ [fld hdr_cc (cc0 :: ccv')]) in *.
    assert (E1 : hget T hdr_from = f0 :: F') by reflexivity.
    assert (E2 : hget T hdr_to = t0 :: tov') by reflexivity.
    assert (E3 : hget T hdr_cc = cc0 :: ccv') by reflexivity.
    assert (E4 : hget T hdr_bcc = []) by reflexivity.
    assert (E5 : hget T hdr_date = d0 :: d') by reflexivity.
    rewrite E1, E2, E3, E4, E5. cbn [is_empty]. rewrite HpF, Hpto, Hpcc, Hpd.
    cbn [aerr orb alist firstn].
    rewrite (copy_common_app false (common_headers false) T extra _ Hcom).
    subst T. destruct st2 as [cs2 en2 ps2 at2 em2 g2 ad2]. cbn [Eml.m_gen] in Hg. subst g2.
    match goal with |- exists st, ?L = Ok st /\ _ =>
      let v := eval vm_compute in L in
      match v with Ok ?s => exists s; split; [vm_cast_no_check (eq_refl v)|] end end.
    repeat split; vm_compute; reflexivity.
Qed.

End Top.

(* ---------- what resolve leaves of a message without cached boundaries ---------- *)
Lemma resolve_proj : forall d i rb m,
  m_bmixed m = [] -> m_brelated m = [] -> m_balt m = [] ->
  let z := resolve d i rb m in
  Writer.m_gen (z_msg z) = add_defaults d i m /\ m_preform (z_msg z) = m_preform m /\
  m_from (z_msg z) = m_from m /\ m_addr (z_msg z) = m_addr m /\
  Writer.m_parts (z_msg z) = Writer.m_parts m /\ Writer.m_charset (z_msg z) = Writer.m_charset m /\
  z_embeds z = map (file_headers (m_wenc m) false) (m_embeds m) /\
  z_attach z = map (file_headers (m_wenc m) true) (m_attach m) /\
  m_bmixed (z_msg z) = (if has_mixed m then nth_rb 0 rb else []) /\
  m_brelated (z_msg z) = (if has_related m then nth_rb (if has_mixed m then 1 else 0) rb else []) /\
  m_balt (z_msg z) = (if has_alt m then nth_rb ((if has_mixed m then 1 else 0) + (if has_related m then 1 else 0)) rb else []).
Proof.
  intros d i rb m H1 H2 H3. unfold resolve. rewrite H1, H2, H3.
  destruct (has_mixed m), (has_related m), (has_alt m); cbn; repeat split; reflexivity.
Qed.

(* ---------- a single text part at the top level ---------- *)
Local Transparent parse_multipart_header.

Lemma leaf_headers : forall p m,
  Writer.m_charset m = charset_utf8 -> part_ok p = true ->
  lacks (cpart_fields m p) top_keys = true /\
  exists st2, parse_ct_charset false (cpart_fields m p) (parse_encoding (cpart_fields m p) st_init) = Ok st2 /\
    Eml.m_gen st2 = [] /\ Eml.m_parts st2 = [] /\ m_atts st2 = [] /\ m_embs st2 = [].
Proof.
  intros p m Hm Hp. destruct (part_ok_facts m p Hm Hp) as (Hct & Hcty & _ & _ & Henc).
  unfold cpart_fields. rewrite Hcty.
  destruct (Writer.p_enc p); try contradiction;
    destruct Hct as [ -> | -> ]; (split; [reflexivity|]); eexists; (split; [vm_compute; reflexivity|]);
    repeat split; reflexivity.
Qed.

Lemma entity_leaf_top : forall h body,
  entity_of_fnode false (FLeaf h body)
  = Entity h (media_type (hget h hdr_content_type)) (bits_of_body body) [] true.
Proof. reflexivity. Qed.

Lemma body_top_leaf : forall T p m st,
  Writer.m_charset m = charset_utf8 -> part_ok p = true ->
  hvals T (canon hdr_content_type) = [] -> hvals T (canon hdr_content_transfer_enc) = [] ->
  exists st', parse_body_parts filename_of false
      (entity_of_fnode false (FLeaf (T ++ cpart_fields m p) (encode_body (Writer.p_enc p) (p_prod p)))) st = Ok st' /\
    Eml.m_parts st' = [part_obs m p] /\ m_atts st' = m_atts st /\ m_embs st' = m_embs st /\
    Eml.m_gen st' = Eml.m_gen st /\ m_addrs st' = m_addrs st /\
    Eml.m_charset st' = charset_utf8 /\ m_enc st' = enc_name (Writer.p_enc p).
Proof.
  intros T p m st Hm Hp H1 H2. destruct (part_ok_facts m p Hm Hp) as (Hct & Hcty & _ & Hwf & Henc).
  unfold part_obs. rewrite entity_leaf_top. cbn [parse_body_parts].
  rewrite (hget_app_absent T _ hdr_content_type H1).
  unfold parse_body_plain. rewrite (hget_app_absent T _ hdr_content_transfer_enc H2).
  unfold cpart_fields. rewrite Hcty.
  assert (M : media_type (hget [fld h_cte (enc_name (Writer.p_enc p)); fld h_ctype (Writer.p_ctype p ++ bs "; charset=" ++ charset_utf8)] hdr_content_type)
              = MTOk (Writer.p_ctype p) (Some charset_utf8) false).
  { change (hget _ hdr_content_type) with (Writer.p_ctype p ++ bs "; charset=" ++ charset_utf8).
    now apply media_type_text. }
  rewrite M.
  destruct (Writer.p_enc p) eqn:E; try contradiction; cbn [enc_name EmlRoundtrip.expected_content].
  - pose proof (body_qp (p_prod p) Hwf Henc) as D. unfold eml_decode_body in D.
    set (wire := encode_body EncQP (p_prod p)) in *. clearbody wire.
    destruct Hct as [ Hc | Hc ]; rewrite Hc; cbn; unfold qp_ok; cbn; rewrite D; cbn;
      eexists; (split; [reflexivity|]); repeat split; reflexivity.
  - pose proof (body_b64 (p_prod p) Hwf) as D. unfold eml_decode_body in D.
    set (wire := encode_body EncB64 (p_prod p)) in *. clearbody wire.
    destruct Hct as [ Hc | Hc ]; rewrite Hc; cbn; unfold b64s_ok; cbn; rewrite D; cbn;
      eexists; (split; [reflexivity|]); repeat split; reflexivity.
  - destruct Hct as [ Hc | Hc ]; rewrite Hc; cbn;
      eexists; (split; [reflexivity|]); repeat split; reflexivity.
Qed.

Local Opaque parse_multipart_header.

(* ---------- unpacking the feature set ---------- *)
Lemma feature_facts : forall m, in_feature_set m = true ->
  Writer.m_charset m = charset_utf8 /\
  (exists sv, Writer.m_gen m = [(hdr_subject, [sv])] /\ good_value sv = true) /\
  m_preform m = [] /\
  (exists F, m_from m = Some F /\ good_value F = true) /\
  (exists tos ccs, m_addr m = (hdr_to, tos) :: match ccs with [] => [] | _ => [(hdr_cc, ccs)] end /\
                   tos <> [] /\ good_value (join (bs ", ") tos) = true /\
                   (ccs <> [] -> good_value (join (bs ", ") ccs) = true)) /\
  Writer.m_parts m <> [] /\ forallb part_ok (Writer.m_parts m) = true /\
  forallb file_ok (m_embeds m) = true /\ forallb file_ok (m_attach m) = true /\
  m_bmixed m = [] /\ m_brelated m = [] /\ m_balt m = [].
Proof.
  intros m H. unfold in_feature_set in H.
  apply andb_true_iff in H; destruct H as [H Hba]. apply andb_true_iff in H; destruct H as [H Hbr].
  apply andb_true_iff in H; destruct H as [H Hbm]. apply andb_true_iff in H; destruct H as [H Hat].
  apply andb_true_iff in H; destruct H as [H Hem]. apply andb_true_iff in H; destruct H as [H Hpo].
  apply andb_true_iff in H; destruct H as [H Hpn]. apply andb_true_iff in H; destruct H as [H Had].
  apply andb_true_iff in H; destruct H as [H Hpr]. apply andb_true_iff in H; destruct H as [Hcs Hg].
  split; [now apply beq|].
  split.
  { destruct (Writer.m_gen m) as [|[k [|sv [|]]] [|]]; try discriminate.
    apply andb_true_iff in Hg. destruct Hg as [Hk Hsv]. apply beq in Hk. subst k. eauto. }
  split; [destruct (m_preform m); [reflexivity|discriminate]|].
  unfold addr_ok in Had. apply andb_true_iff in Had. destruct Had as [Hf Ha].
  split; [destruct (m_from m) as [F|]; [eauto|discriminate]|].
  split.
  { destruct (m_addr m) as [|[k1 tos] [|[k2 ccs] [|]]]; try discriminate.
    - repeat (apply andb_true_iff in Ha; destruct Ha as [Ha ?]). apply beq in Ha. subst k1.
      exists tos, []. split; [reflexivity|]. split; [intros ->; discriminate|]. split; [assumption|congruence].
    - repeat (apply andb_true_iff in Ha; destruct Ha as [Ha ?]). apply beq in Ha. apply beq in H1. subst k1 k2.
      exists tos, ccs. destruct ccs; [discriminate|]. split; [reflexivity|]. split; [intros ->; discriminate|]. split; auto. }
  split; [intros E; rewrite E in Hpn; discriminate|].
  repeat split; auto;
    match goal with H : is_empty ?x = true |- ?x = [] => destruct x; [reflexivity|discriminate] end.
Qed.

(* ---------- S3: the parser on the canonical field tree ---------- *)
Lemma join_nonempty : forall l, l <> [] -> forallb good_value l = true -> is_empty (join (bs ", ") l) = false.
Proof.
  intros [|x r] Hne H; [congruence|]. cbn [forallb] in H. apply andb_true_iff in H. destruct H as [Hx _].
  destruct x as [|c x']; [discriminate|]. destruct r; reflexivity.
Qed.

Lemma mp_extra : forall mime b, mp_sub mime -> is_token b = true ->
  lacks [fld h_ctype (mp_ctype mime b)] top_keys = true /\
  parse_ct_charset false [fld h_ctype (mp_ctype mime b)] (parse_encoding [fld h_ctype (mp_ctype mime b)] st_init) = Ok st_init.
Proof.
  intros mime b Hm Hb. split; [reflexivity|].
  pose proof (is_token_no_semi b Hb) as Hs. change (existsb (N.eqb 59) b) with (has 59 b) in Hs.
  unfold parse_ct_charset, parse_encoding.
  change (hget [fld h_ctype (mp_ctype mime b)] hdr_content_transfer_enc) with (@nil N).
  change (hget [fld h_ctype (mp_ctype mime b)] hdr_content_type) with (mp_ctype mime b).
  cbn [is_empty].
  assert (Hm59 : has 59 mime = false) by (destruct Hm as [ -> | [ -> | -> ] ]; reflexivity).
  rewrite (pmh_mp_ctype mime b Hm59 Hs). cbn [bind map_get].
  unfold mp_ctype. destruct Hm as [ -> | [ -> | -> ] ]; reflexivity.
Qed.

Section Final.
Context (pa pl : bytes -> ares) (pd : bytes -> dres).

Lemma project_final : forall (m : Writer.msg) st P E A sv F tos ccs d,
  Eml.m_parts st = [] -> m_atts st = [] -> m_embs st = [] ->
  m_addrs st = mka [F] tos ccs [] ->
  map_get (Eml.m_gen st) hdr_subject = Some sv -> map_get (Eml.m_gen st) hdr_date = Some d ->
  project_parsed (add_atts (add_embs (add_parts st P) E) A)
  = mkproj (Some sv) [F] tos ccs (Some d)
           (map (fun p => (p_ct p, p_cs p, p_content p)) P)
           (map (fun f => (fo_name f, fo_bytes f)) A) (map (fun f => (fo_name f, fo_bytes f)) E).
Proof.
  intros m [cs en ps ats ems g ad] P E A sv F tos ccs d H1 H2 H3 H4 H5 H6.
  cbn in *. subst. unfold project_parsed. cbn. now rewrite H5, H6.
Qed.

End Final.
