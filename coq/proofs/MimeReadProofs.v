(* MimeReadProofs.v — the independent reader (MimeRead.v) inverts the serialisation of MIME
   trees (Render.v): frame_split for one multipart level, read_tree_ser for whole trees. *)
From Coq Require Import String.
From Verif Require Import Bytes MimeTree MimeRead Render.
From Coq Require Import Lia ZifyBool ZifyNat ZifyN.
Open Scope nat_scope.

(* ---------- prefixes and occurrences ---------- *)
Lemma is_prefix_app_same : forall d r, is_prefix d (d ++ r) = true.
Proof. induction d as [|x d IH]; intros r; cbn; [reflexivity|]. now rewrite N.eqb_refl, IH. Qed.

Lemma is_prefix_refl : forall d, is_prefix d d = true.
Proof. intros d. rewrite <- (app_nil_r d) at 2. apply is_prefix_app_same. Qed.

Lemma skipn_app_len : forall A (d r : list A), skipn (length d) (d ++ r) = r.
Proof. induction d as [|x d IH]; intros r; cbn; auto. Qed.

(* a prefix of k ++ x lies inside k, or consists of k and a prefix of x *)
Lemma is_prefix_split : forall k x d,
  is_prefix d (k ++ x) = true ->
  is_prefix d k = true \/ exists d', d = k ++ d' /\ is_prefix d' x = true.
Proof.
  induction k as [|a k IH]; intros x d H.
  - right. exists d. auto.
  - destruct d as [|c d]; [left; reflexivity|]. cbn in H. apply andb_true_iff in H. destruct H as [Hc H].
    apply N.eqb_eq in Hc. subst c. destruct (IH x d H) as [L|(d' & E & P)].
    + left. cbn. now rewrite N.eqb_refl, L.
    + right. exists d'. split; [cbn; now rewrite E|exact P].
Qed.

Lemma occurs_prefix : forall d s, is_prefix d s = true -> occurs d s = true.
Proof. intros d [|x s] H; cbn; rewrite H; reflexivity. Qed.

Lemma occurs_cons_false : forall d x s, occurs d (x :: s) = false -> is_prefix d (x :: s) = false /\ occurs d s = false.
Proof. intros d x s H. cbn [occurs] in H. now apply orb_false_iff in H. Qed.

Lemma occurs_app_r : forall d a s, occurs d (a ++ s) = false -> occurs d s = false.
Proof.
  intros d a. induction a as [|x a IH]; intros s H; [exact H|].
  apply occurs_cons_false in H. now apply IH.
Qed.

(* the first character of d does not occur again in d: occurrences of d cannot overlap *)
Definition hd_fresh (d : bytes) : Prop :=
  match d with [] => False | c :: t => ~ In c t end.

Lemma is_prefix_hd : forall c d x s, is_prefix (c :: d) (x :: s) = true -> c = x.
Proof. intros c d x s H. cbn in H. apply andb_true_iff in H. destruct H as [H _]. now apply N.eqb_eq in H. Qed.

(* if d is a prefix of k ++ d ++ r and k is not empty, d occurs at the start of k *)
Lemma no_straddle : forall d k r,
  hd_fresh d -> k <> [] -> is_prefix d (k ++ d ++ r) = true -> is_prefix d k = true.
Proof.
  intros d k r Hd Hk H. destruct (is_prefix_split k (d ++ r) d H) as [L|(d' & E & P)]; [exact L|].
  destruct d' as [|c' d'].
  - rewrite app_nil_r in E. subst k. apply is_prefix_refl.
  - exfalso. destruct d as [|c d]; [exact Hd|]. destruct k as [|x k]; [congruence|].
    cbn [app] in P. apply is_prefix_hd in P. subst c'.
    cbn [app] in E. inversion E; subst. apply Hd. apply in_or_app. right. left. reflexivity.
Qed.

Lemma find_sub_cons : forall d x t,
  find_sub d (x :: t) =
  if is_prefix d (x :: t) then Some ([], skipn (length d) (x :: t))
  else match find_sub d t with Some (a, r) => Some (x :: a, r) | None => None end.
Proof. reflexivity. Qed.

Lemma find_sub_here : forall d r, find_sub d (d ++ r) = Some ([], r).
Proof.
  intros d r. destruct (d ++ r) as [|x t] eqn:E.
  - destruct d; [|discriminate]. cbn in E. subst. reflexivity.
  - rewrite find_sub_cons, <- E, is_prefix_app_same, skipn_app_len. reflexivity.
Qed.

Lemma find_sub_app : forall d k r,
  hd_fresh d -> occurs d k = false -> find_sub d (k ++ d ++ r) = Some (k, r).
Proof.
  intros d k r Hd. induction k as [|x k IH]; intros Ho.
  - cbn [app]. apply find_sub_here.
  - apply occurs_cons_false in Ho. destruct Ho as [Hp Ho].
    cbn [app]. rewrite find_sub_cons.
    destruct (is_prefix d (x :: k ++ d ++ r)) eqn:E.
    + apply (no_straddle d (x :: k) r Hd) in E; [congruence|discriminate].
    + now rewrite (IH Ho).
Qed.

(* ---------- one multipart level ---------- *)
Lemma dashdash_lit : dashdash = [45; 45]%N.
Proof. reflexivity. Qed.

Lemma delim_true : forall b, delim b true = delimiter b ++ crlf.
Proof. intros b. unfold delim, delimiter, dash_boundary. rewrite dashdash_lit, <- !app_assoc. reflexivity. Qed.

Lemma delim_false : forall b, delim b false = dash_boundary b ++ crlf.
Proof. intros b. unfold delim, dash_boundary. rewrite dashdash_lit, <- !app_assoc. reflexivity. Qed.

Lemma close_delim_eq : forall b, close_delim b = delimiter b ++ [45; 45]%N ++ crlf.
Proof. intros b. unfold close_delim, delimiter, dash_boundary. rewrite dashdash_lit, <- !app_assoc. reflexivity. Qed.

Lemma after_delim_next : forall x, after_delim (crlf ++ x) = Next x.
Proof. reflexivity. Qed.

Lemma after_delim_close : forall x, after_delim ([45; 45]%N ++ crlf ++ x) = Close.
Proof. reflexivity. Qed.

(* a child text is fresh for boundary b: placed after a line end it shows no delimiter of b
   (neither inside, nor at its very start) *)
Definition fresh_for (b k : bytes) : Prop := occurs (delimiter b) (crlf ++ k) = false.

Lemma hd_fresh_delimiter : forall b, ~ In 13%N b -> hd_fresh (delimiter b).
Proof.
  intros b Hb. cbn. intros [H|[H|[H|H]]]; try discriminate. contradiction.
Qed.

Lemma fresh_no_occ : forall b k, fresh_for b k -> occurs (delimiter b) k = false.
Proof. intros b k H. now apply (occurs_app_r _ crlf). Qed.

(* a fresh child followed by a line end does not start with the dash-boundary *)
Lemma fresh_no_start : forall b k x,
  ~ In 13%N b -> fresh_for b k -> is_prefix (dash_boundary b) (k ++ crlf ++ x) = false.
Proof.
  intros b k x Hb Hf. destruct (is_prefix (dash_boundary b) (k ++ crlf ++ x)) eqn:E; [exfalso|reflexivity].
  unfold fresh_for in Hf.
  destruct (is_prefix_split k (crlf ++ x) _ E) as [L|(d' & Ed & P)].
  - assert (is_prefix (delimiter b) (crlf ++ k) = true) by (unfold delimiter; cbn; exact L).
    apply occurs_prefix in H. congruence.
  - destruct d' as [|c d'].
    + rewrite app_nil_r in Ed.
      assert (is_prefix (delimiter b) (crlf ++ k) = true).
      { unfold delimiter. rewrite Ed. cbn. apply is_prefix_refl. }
      apply occurs_prefix in H. congruence.
    + cbn in P. apply andb_true_iff in P. destruct P as [Pc _]. apply N.eqb_eq in Pc. subst c.
      assert (Hin : In 13%N (dash_boundary b)) by (rewrite Ed; apply in_or_app; right; left; reflexivity).
      cbn in Hin. destruct Hin as [H|[H|H]]; try discriminate. contradiction.
Qed.

Lemma frame_from_length : forall b s kids, length kids <= length (frame_from b s kids).
Proof.
  intros b s kids. revert s. induction kids as [|k r IH]; intros s; cbn [frame_from length]; [lia|].
  rewrite !app_length. specialize (IH true). unfold delim. rewrite !app_length. cbn [length dashdash bs]. lia.
Qed.

Lemma parts_from_step : forall b k x f,
  ~ In 13%N b -> fresh_for b k ->
  parts_from (S f) b (k ++ delimiter b ++ x) =
  match after_delim x with
  | Close => Some [k]
  | Next r' => match parts_from f b r' with Some ps => Some (k :: ps) | None => None end
  | NotDelim => None
  end.
Proof.
  intros b k x f Hb Hk. cbn [parts_from].
  assert (E : is_prefix (dash_boundary b) (k ++ delimiter b ++ x) = false).
  { unfold delimiter. rewrite <- app_assoc. now apply fresh_no_start. }
  rewrite E, (find_sub_app _ k _ (hd_fresh_delimiter b Hb) (fresh_no_occ b k Hk)). reflexivity.
Qed.

Lemma parts_from_frame : forall b kids k fuel,
  ~ In 13%N b -> fresh_for b k -> Forall (fresh_for b) kids -> length kids < fuel ->
  parts_from fuel b (k ++ frame_from b true kids ++ close_delim b) = Some (k :: kids).
Proof.
  intros b kids. induction kids as [|k2 rest IH]; intros k fuel Hb Hk Hks Hfuel;
    (destruct fuel as [|f]; [cbn in Hfuel; lia|]); cbn [frame_from app].
  - rewrite close_delim_eq, parts_from_step by assumption.
    change ([45; 45]%N ++ crlf) with ([45; 45]%N ++ crlf ++ []). now rewrite after_delim_close.
  - inversion Hks as [|? ? Hk2 Hrest]; subst.
    rewrite delim_true, <- !app_assoc, parts_from_step by assumption.
    rewrite after_delim_next.
    cbn [length] in Hfuel. rewrite (IH k2 f Hb Hk2 Hrest) by lia. reflexivity.
Qed.

(* RFC 2046 framing is invertible: the reader recovers exactly the children *)
Theorem frame_split : forall b kids,
  ~ In 13%N b -> Forall (fresh_for b) kids ->
  split_parts b (mp_frame b kids) = Some kids.
Proof.
  intros b kids Hb Hks. unfold split_parts, mp_frame. destruct kids as [|k rest]; cbn [frame_from app].
  - rewrite close_delim_eq.
    assert (E : is_prefix (dash_boundary b) (delimiter b ++ [45; 45]%N ++ crlf) = false) by reflexivity.
    rewrite E, find_sub_here. unfold parts_after.
    change ([45; 45]%N ++ crlf) with ([45; 45]%N ++ crlf ++ []). now rewrite after_delim_close.
  - inversion Hks as [|? ? Hk Hrest]; subst.
    rewrite delim_false, <- !app_assoc, is_prefix_app_same, skipn_app_len.
    unfold parts_after. rewrite after_delim_next.
    apply parts_from_frame; auto.
    rewrite !app_length. pose proof (frame_from_length b true rest). lia.
Qed.

Lemma is_prefix_app_both : forall a d s, is_prefix (a ++ d) (a ++ s) = is_prefix d s.
Proof. induction a as [|x a IH]; intros d s; cbn [app is_prefix]; [reflexivity|]. now rewrite N.eqb_refl, IH. Qed.

(* the same with the hypotheses spelled out: no child contains CRLF "--" b, none starts with "--" b *)
Lemma fresh_for_intro : forall b k,
  occurs (crlf ++ dashdash ++ b) k = false -> is_prefix (dashdash ++ b) k = false -> fresh_for b k.
Proof.
  intros b k Ho Hp. unfold fresh_for. change (crlf ++ k) with (13%N :: 10%N :: k).
  cbn [occurs]. change (delimiter b) with (crlf ++ dashdash ++ b). rewrite Ho, orb_false_r.
  change (13%N :: 10%N :: k) with (crlf ++ k). rewrite is_prefix_app_both, Hp. reflexivity.
Qed.

Theorem frame_split_spelled : forall b kids,
  ~ In 13%N b ->
  (forall k, In k kids -> occurs (crlf ++ dashdash ++ b) k = false /\ is_prefix (dashdash ++ b) k = false) ->
  split_parts b (mp_frame b kids) = Some kids.
Proof.
  intros b kids Hb H. apply frame_split; [exact Hb|]. rewrite Forall_forall. intros k Hk.
  destruct (H k Hk). now apply fresh_for_intro.
Qed.

(* ---------- header block / body ---------- *)
Lemma lrun_end : forall s, lrun s LEnd = LEnd.
Proof. induction s as [|c s IH]; [reflexivity|exact IH]. Qed.

Lemma lrun_app : forall a b st, lrun (a ++ b) st = lrun b (lrun a st).
Proof. intros. apply fold_left_app. Qed.

Lemma split_hdr_app : forall a st r,
  lrun a st <> LEnd ->
  split_hdr st (a ++ r) =
  match split_hdr (lrun a st) r with Some (h, body) => Some (a ++ h, body) | None => None end.
Proof.
  induction a as [|c a IH]; intros st r H.
  - cbn. destruct (split_hdr st r) as [[h body]|]; reflexivity.
  - cbn [app split_hdr]. change (lrun (c :: a) st) with (lrun a (lstep st c)) in *.
    destruct (lstep st c) eqn:E; try (rewrite lrun_end in H; congruence);
      rewrite (IH _ r H); destruct (split_hdr _ r) as [[h body]|]; reflexivity.
Qed.

(* the header block is a sequence of complete lines without an empty one *)
Definition neutral_lines (h : bytes) : Prop := lrun h LBol = LBol.

Lemma split_header_ser : forall h body,
  neutral_lines h -> split_header (h ++ crlf ++ body) = Some (h, body).
Proof.
  intros h body H. unfold split_header. rewrite split_hdr_app by (rewrite H; discriminate).
  rewrite H. cbn. now rewrite removelast_last.
Qed.

(* ---------- whole trees ---------- *)
Lemma node_ind2 : forall P : node -> Prop,
  (forall h body, P (Leaf h body)) ->
  (forall h b kids, Forall P kids -> P (Multi h b kids)) ->
  forall t, P t.
Proof.
  intros P HL HM. fix IH 1. intros [h body|h b kids]; [apply HL|apply HM].
  induction kids as [|k r IHr]; constructor; [apply IH|exact IHr].
Qed.

Definition is_bol (st : lst) : bool := match st with LBol => true | _ => false end.
Definition oeqb (a b : option bytes) : bool :=
  match a, b with
  | Some x, Some y => bytes_eqb x y
  | None, None => true
  | _, _ => false
  end.

Lemma bytes_eqb_true : forall a b, bytes_eqb a b = true -> a = b.
Proof.
  induction a as [|x a IH]; intros [|y b] H; cbn in H; try discriminate; [reflexivity|].
  apply andb_true_iff in H. destruct H as [H1 H2]. apply N.eqb_eq in H1. subst. f_equal. now apply IH.
Qed.

Lemma oeqb_true : forall a b, oeqb a b = true -> a = b.
Proof. intros [x|] [y|] H; cbn in H; try discriminate; [f_equal; now apply bytes_eqb_true|reflexivity]. Qed.

Lemma is_bol_true : forall st, is_bol st = true -> st = LBol.
Proof. intros [] H; cbn in H; congruence. Qed.

Definition no_cr (b : bytes) : bool := forallb (fun c => negb (N.eqb c 13)) b.

Lemma no_cr_not_in : forall b, no_cr b = true -> ~ In 13%N b.
Proof.
  intros b H Hin. unfold no_cr in H. rewrite forallb_forall in H. specialize (H _ Hin). discriminate.
Qed.

(* readable trees: every header block consists of complete lines and says what the node is;
   below a multipart node no child text shows a delimiter of that node's boundary *)
Fixpoint wf_tree (t : node) : bool :=
  match t with
  | Leaf h _ => is_bol (lrun h LBol) && oeqb (mp_boundary h) None
  | Multi h b kids =>
      is_bol (lrun h LBol) && oeqb (mp_boundary h) (Some b) && no_cr b &&
      forallb (fun k => negb (occurs (delimiter b) (crlf ++ ser_node k))) kids &&
      forallb wf_tree kids
  end.

Lemma sequence_map_ser : forall f kids,
  Forall (fun k => read_entity f (ser_node k) = Some k) kids ->
  sequence (map (read_entity f) (map ser_node kids)) = Some kids.
Proof.
  intros f kids H. induction H as [|k r Hk Hr IH]; cbn [map sequence]; [reflexivity|].
  now rewrite Hk, IH.
Qed.

Definition kids_height (kids : list node) : nat := fold_right (fun k m => Nat.max (height k) m) O kids.

Lemma kids_height_in : forall kids k, In k kids -> height k <= kids_height kids.
Proof.
  induction kids as [|a r IH]; intros k H; [destruct H|].
  cbn [kids_height fold_right]; fold (kids_height r). destruct H as [H|H].
  - subst. lia.
  - specialize (IH k H). lia.
Qed.

Theorem read_entity_ser : forall t,
  wf_tree t = true -> forall fuel, height t < fuel -> read_entity fuel (ser_node t) = Some t.
Proof.
  induction t as [h body|h b kids IH] using node_ind2; intros Hwf fuel Hfuel;
    (destruct fuel as [|f]; [lia|]); cbn [wf_tree] in Hwf; cbn [read_entity ser_node].
  - apply andb_true_iff in Hwf. destruct Hwf as [H1 H2].
    apply is_bol_true in H1. apply oeqb_true in H2.
    rewrite (split_header_ser h body H1), H2. reflexivity.
  - repeat (apply andb_true_iff in Hwf; destruct Hwf as [Hwf ?]).
    rename H into Hkids, H0 into Hfresh, H1 into Hcr, H2 into Hb.
    apply is_bol_true in Hwf. apply oeqb_true in Hb.
    rewrite (split_header_ser h _ Hwf), Hb.
    rewrite frame_split.
    + rewrite sequence_map_ser; [reflexivity|].
      rewrite forallb_forall in Hkids. rewrite Forall_forall in *. intros k Hin.
      apply (IH k Hin (Hkids k Hin)).
      cbn [height] in Hfuel. fold (kids_height kids) in Hfuel.
      pose proof (kids_height_in kids k Hin). lia.
    + now apply no_cr_not_in.
    + rewrite forallb_forall in Hfresh. rewrite Forall_forall. intros x Hx.
      apply in_map_iff in Hx. destruct Hx as (k & Ek & Hin). subst x.
      specialize (Hfresh k Hin). unfold fresh_for. now destruct (occurs _ _).
Qed.

Lemma frame_from_in_length : forall b s l x, In x l -> length x <= length (frame_from b s l).
Proof.
  intros b s l. revert s. induction l as [|k r IH]; intros s x H; [destruct H|].
  cbn [frame_from]; rewrite !app_length. destruct H as [H|H].
  - subst. lia.
  - specialize (IH true x H). lia.
Qed.

Lemma height_le_length : forall t, height t <= length (ser_node t).
Proof.
  induction t as [h body|h b kids IH] using node_ind2; cbn [height ser_node]; [lia|].
  fold (kids_height kids). rewrite !app_length. unfold mp_frame. rewrite app_length.
  assert (Hk : kids_height kids <= length (frame_from b false (map ser_node kids))).
  { clear -IH. induction kids as [|k r IHr]; cbn [kids_height fold_right]; [lia|]. fold (kids_height r).
    inversion IH as [|? ? Hk Hr]; subst. specialize (IHr Hr).
    cbn [map frame_from]. rewrite !app_length.
    pose proof (frame_from_length b true (map ser_node r)).
    assert (kids_height r <= length (frame_from b true (map ser_node r))).
    { clear -Hr. induction r as [|k r IHr]; cbn [kids_height fold_right]; [lia|]. fold (kids_height r).
      inversion Hr as [|? ? Hk Hr']; subst. specialize (IHr Hr').
      cbn [map frame_from]. rewrite !app_length. lia. }
    lia. }
  unfold close_delim. rewrite !app_length. cbn [length crlf]. lia.
Qed.

(* reading the serialisation of a readable tree gives the tree back *)
Theorem read_tree_ser : forall t, wf_tree t = true -> read_tree (ser_node t) = Some t.
Proof.
  intros t H. unfold read_tree. apply read_entity_ser; [exact H|].
  pose proof (height_le_length t). lia.
Qed.
