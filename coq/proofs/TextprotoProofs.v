(* TextprotoProofs.v — the dot-writer of net/textproto and the receiving side's dot-decoder are inverse up to
   the canonical form: for every content and every chunking,
       dot_decode (dot_encode chunks) = Some (dotcanon (concat chunks), []). *)
From Coq Require Import String Lia ZifyBool ZifyNat ZifyN.
From Verif Require Import Bytes Textproto.
Open Scope N_scope.

(* the wire form of a canonical partial line: a leading dot is doubled *)
Definition stuff (p : bytes) : bytes :=
  match p with
  | c :: _ => if c =? 46 then 46 :: p else p
  | [] => []
  end.

Definition begins (st : wstate) : bool := match st with WBegin | WBeginLine => true | _ => false end.

Lemma beqb_eq : forall a b, bytes_eqb a b = true -> a = b.
Proof.
  induction a as [|x a IH]; intros [|y b] H; cbn in H; try discriminate; [reflexivity|].
  apply andb_true_iff in H. destruct H as [H1 H2]. apply N.eqb_eq in H1. subst y. f_equal. apply IH. exact H2.
Qed.

Lemma stuff_snoc : forall p c, p <> [] -> stuff (p ++ [c]) = stuff p ++ [c].
Proof. intros [|x t] c H; [contradiction|]. cbn. destruct (x =? 46); reflexivity. Qed.

Lemma unstuff_stuff_app : forall p s, p <> [] -> unstuff (stuff p ++ s) = p ++ s.
Proof.
  intros [|x t] s H; [contradiction|]. cbn. destruct (x =? 46) eqn:E; cbn; [reflexivity|rewrite E; reflexivity].
Qed.

(* a content line is never taken for the terminator *)
Lemma not_term_crlf : forall p, p <> [] -> bytes_eqb (stuff p ++ [13; 10]) [46; 13; 10] = false.
Proof.
  intros p H. destruct (bytes_eqb (stuff p ++ [13; 10]) [46; 13; 10]) eqn:E; [|reflexivity].
  apply beqb_eq in E. exfalso. destruct p as [|x t]; [contradiction|]. cbn in E.
  destruct (x =? 46) eqn:Ex; cbn in E.
  - injection E as E1 E2. subst x. cbn in Ex. discriminate.
  - injection E as E1 E2. subst x. cbn in Ex. discriminate.
Qed.

Lemma not_term_lf : forall p, p <> [] -> bytes_eqb (stuff p ++ [10]) [46; 13; 10] = false.
Proof.
  intros p H. destruct (bytes_eqb (stuff p ++ [10]) [46; 13; 10]) eqn:E; [|reflexivity].
  apply beqb_eq in E. exfalso. destruct p as [|x t]; [contradiction|]. cbn in E.
  destruct (x =? 46) eqn:Ex; cbn in E.
  - injection E as E1 E2. subst x. cbn in Ex. discriminate.
  - injection E as E1 E2. subst x. cbn in Ex. discriminate.
Qed.

Lemma dd_step_lf_eq : forall t line acc,
  dot_decode_from (10 :: t) line acc =
    if bytes_eqb (rev (10 :: line)) [46; 13; 10] then Some (acc, t)
    else dot_decode_from t [] (acc ++ unstuff (rev (10 :: line))).
Proof. reflexivity. Qed.

Lemma dd_step_nolf : forall c t line acc, (c =? 10) = false ->
  dot_decode_from (c :: t) line acc = dot_decode_from t (c :: line) acc.
Proof. intros. cbn. rewrite H. reflexivity. Qed.

Definition nolf (p : bytes) : Prop := forallb (fun c => negb (c =? 10)) p = true.

Definition lineinv (st : wstate) (p : bytes) : Prop := nolf p /\ (begins st = true <-> p = []).

(* decoder on a run of bytes without LF: they are pushed on the current line *)
Lemma dd_push : forall s rest line acc, nolf s ->
  dot_decode_from (s ++ rest) line acc = dot_decode_from rest (rev s ++ line) acc.
Proof.
  induction s as [|c t IH]; intros rest line acc H; [reflexivity|].
  unfold nolf in H. cbn in H. apply andb_true_iff in H. destruct H as [Hc Ht].
  cbn [app dot_decode_from]. apply negb_true_iff in Hc. rewrite Hc. rewrite IH by exact Ht.
  cbn [rev]. rewrite <- app_assoc. reflexivity.
Qed.

Lemma nolf_app : forall a b, nolf a -> nolf b -> nolf (a ++ b).
Proof. intros. unfold nolf in *. rewrite forallb_app, H, H0. reflexivity. Qed.

(* one content byte: writer, canonical form and decoder move together *)
Lemma byte_step : forall st p c acc rest, lineinv st p ->
  let (st1, o) := dw_byte st c in
  let (st2, oc) := dc_byte st c in
  st1 = st2 /\
  exists acc' p', lineinv st1 p' /\ acc' ++ p' = acc ++ p ++ oc /\
    dot_decode_from (o ++ rest) (rev (stuff p)) acc = dot_decode_from rest (rev (stuff p')) acc'.
Proof.
  intros st p c acc rest [Hn Hb].
  destruct st; cbn [dw_byte dc_byte begins] in *.
  - (* WBegin *)
    assert (p = []) by (apply Hb; reflexivity). subst p. cbn [stuff rev app].
    destruct (c =? 13) eqn:E13.
    + apply N.eqb_eq in E13. subst c. cbn. split; [reflexivity|]. exists acc, [13].
      split; [split; [reflexivity|split; discriminate]|]. split; reflexivity.
    + destruct (c =? 10) eqn:E10.
      * apply N.eqb_eq in E10. subst c. cbn. split; [reflexivity|]. exists (acc ++ [13; 10]), [].
        split; [split; [reflexivity|split; reflexivity]|]. rewrite !app_nil_r. split; reflexivity.
      * split; [reflexivity|]. exists acc, [c].
        split; [split; [unfold nolf; cbn; rewrite E10; reflexivity|split; discriminate]|]. split; [reflexivity|].
        destruct (c =? 46) eqn:E46.
        -- apply N.eqb_eq in E46. subst c. cbn. reflexivity.
        -- cbn [app]. cbn [dot_decode_from]. rewrite E10. cbn [stuff]. rewrite E46. reflexivity.
  - (* WBeginLine *)
    assert (p = []) by (apply Hb; reflexivity). subst p. cbn [stuff rev app].
    destruct (c =? 13) eqn:E13.
    + apply N.eqb_eq in E13. subst c. cbn. split; [reflexivity|]. exists acc, [13].
      split; [split; [reflexivity|split; discriminate]|]. split; reflexivity.
    + destruct (c =? 10) eqn:E10.
      * apply N.eqb_eq in E10. subst c. cbn. split; [reflexivity|]. exists (acc ++ [13; 10]), [].
        split; [split; [reflexivity|split; reflexivity]|]. rewrite !app_nil_r. split; reflexivity.
      * split; [reflexivity|]. exists acc, [c].
        split; [split; [unfold nolf; cbn; rewrite E10; reflexivity|split; discriminate]|]. split; [reflexivity|].
        destruct (c =? 46) eqn:E46.
        -- apply N.eqb_eq in E46. subst c. cbn. reflexivity.
        -- cbn [app]. cbn [dot_decode_from]. rewrite E10. cbn [stuff]. rewrite E46. reflexivity.
  - (* WCR *)
    assert (Hp : p <> []) by (intros E; apply Hb in E; discriminate).
    destruct (c =? 10) eqn:E10.
    + apply N.eqb_eq in E10. subst c. split; [reflexivity|]. exists (acc ++ p ++ [10]), [].
      split; [split; [reflexivity|split; reflexivity]|]. split; [rewrite app_nil_r; reflexivity|].
      cbn [app]. rewrite dd_step_lf_eq. cbn [rev]. rewrite rev_involutive, (not_term_lf p Hp), (unstuff_stuff_app p [10] Hp).
      reflexivity.
    + split; [reflexivity|]. exists acc, (p ++ [c]).
      split; [split; [apply nolf_app; [exact Hn|unfold nolf; cbn; rewrite E10; reflexivity]|split; [discriminate|intros E; destruct p; discriminate]]|].
      split; [rewrite app_assoc; reflexivity|].
      cbn [app dot_decode_from]. rewrite E10. rewrite (stuff_snoc p c Hp), rev_app_distr. reflexivity.
  - (* WData *)
    assert (Hp : p <> []) by (intros E; apply Hb in E; discriminate).
    destruct (c =? 13) eqn:E13.
    + apply N.eqb_eq in E13. subst c. split; [reflexivity|]. exists acc, (p ++ [13]).
      split; [split; [apply nolf_app; [exact Hn|reflexivity]|split; [discriminate|intros E; destruct p; discriminate]]|].
      split; [rewrite app_assoc; reflexivity|].
      cbn. rewrite (stuff_snoc p 13 Hp), rev_app_distr. reflexivity.
    + destruct (c =? 10) eqn:E10.
      * apply N.eqb_eq in E10. subst c. split; [reflexivity|]. exists (acc ++ p ++ [13; 10]), [].
        split; [split; [reflexivity|split; reflexivity]|]. split; [rewrite app_nil_r; reflexivity|].
        change ([13; 10] ++ rest) with (13 :: 10 :: rest).
        rewrite dd_step_nolf by reflexivity. rewrite dd_step_lf_eq. cbn [rev].
        rewrite rev_involutive. rewrite <- app_assoc. cbn [app].
        rewrite (not_term_crlf p Hp), (unstuff_stuff_app p [13; 10] Hp). reflexivity.
      * split; [reflexivity|]. exists acc, (p ++ [c]).
        split; [split; [apply nolf_app; [exact Hn|unfold nolf; cbn; rewrite E10; reflexivity]|split; [discriminate|intros E; destruct p; discriminate]]|].
        split; [rewrite app_assoc; reflexivity|].
        cbn [app dot_decode_from]. rewrite E10. rewrite (stuff_snoc p c Hp), rev_app_distr. reflexivity.
Qed.

Lemma write_run : forall b st p acc rest, lineinv st p ->
  let (st1, o) := dw_write st b in
  let (st2, oc) := dc_run st b in
  st1 = st2 /\
  exists acc' p', lineinv st1 p' /\ acc' ++ p' = acc ++ p ++ oc /\
    dot_decode_from (o ++ rest) (rev (stuff p)) acc = dot_decode_from rest (rev (stuff p')) acc'.
Proof.
  induction b as [|c t IH]; intros st p acc rest HI.
  - cbn. split; [reflexivity|]. exists acc, p. rewrite app_nil_r. auto.
  - cbn [dw_write dc_run].
    pose proof (byte_step st p c acc) as HB.
    destruct (dw_byte st c) as [st1 o1]. destruct (dc_byte st c) as [st1' oc1].
    specialize (IH st1). 
    destruct (dw_write st1 t) as [st2 o2] eqn:Hw. 
    destruct (HB (o2 ++ rest) HI) as (E1 & acc1 & p1 & HI1 & HA1 & HD1). subst st1'.
    specialize (IH p1 acc1 rest HI1).
    destruct (dc_run st1 t) as [st2' oc2].
    destruct IH as (E2 & acc2 & p2 & HI2 & HA2 & HD2).
    split; [exact E2|]. exists acc2, p2. split; [exact HI2|]. split.
    + rewrite HA2, app_assoc, HA1, <- !app_assoc. reflexivity.
    + rewrite <- app_assoc, HD1. exact HD2.
Qed.

Lemma close_run : forall st p acc, lineinv st p ->
  dot_decode_from (dw_close st) (rev (stuff p)) acc = Some (acc ++ p ++ dc_end st, []).
Proof.
  intros st p acc [Hn Hb]. destruct st; cbn [begins dw_close dc_end] in *.
  - assert (p = []) by (apply Hb; reflexivity). subst p. cbn. reflexivity.
  - assert (p = []) by (apply Hb; reflexivity). subst p. cbn. rewrite app_nil_r. reflexivity.
  - assert (Hp : p <> []) by (intros E; apply Hb in E; discriminate).
    rewrite dd_step_lf_eq. cbn [rev]. rewrite rev_involutive, (not_term_lf p Hp), (unstuff_stuff_app p [10] Hp).
    cbn; try rewrite <- app_assoc; reflexivity.
  - assert (Hp : p <> []) by (intros E; apply Hb in E; discriminate).
    rewrite dd_step_nolf by reflexivity. rewrite dd_step_lf_eq. cbn [rev].
    rewrite rev_involutive, <- app_assoc. cbn [app].
    rewrite (not_term_crlf p Hp), (unstuff_stuff_app p [13; 10] Hp).
    cbn; try rewrite <- app_assoc; reflexivity.
Qed.

Lemma dw_write_app : forall a b st,
  dw_write st (a ++ b) =
    let (st1, o1) := dw_write st a in let (st2, o2) := dw_write st1 b in (st2, o1 ++ o2).
Proof.
  induction a as [|c t IH]; intros b st.
  - cbn. destruct (dw_write st b); reflexivity.
  - cbn [app dw_write]. destruct (dw_byte st c) as [s1 o1]. rewrite IH.
    destruct (dw_write s1 t) as [s2 o2]. destruct (dw_write s2 b) as [s3 o3]. rewrite app_assoc. reflexivity.
Qed.

(* the writer does not care how the content is split into Write calls *)
Lemma dw_chunks_concat : forall chunks st, dw_chunks st chunks = dw_write st (concat chunks).
Proof.
  induction chunks as [|b t IH]; intros st; [reflexivity|].
  cbn [dw_chunks concat]. rewrite dw_write_app. destruct (dw_write st b) as [s1 o1]. rewrite IH. reflexivity.
Qed.

Theorem dot_roundtrip : forall chunks : list bytes,
  dot_decode (dot_encode chunks) = Some (dotcanon (concat chunks), []).
Proof.
  intros chunks. unfold dot_decode, dot_encode, dotcanon. rewrite dw_chunks_concat.
  assert (HI : lineinv WBegin []) by (split; [reflexivity|split; reflexivity]).
  pose proof (write_run (concat chunks) WBegin [] [] (dw_close (fst (dw_write WBegin (concat chunks)))) HI) as H.
  destruct (dw_write WBegin (concat chunks)) as [st o]. destruct (dc_run WBegin (concat chunks)) as [st' oc].
  destruct H as (E & acc' & p' & HI' & HA & HD). subst st'. cbn [fst] in HD.
  cbn [stuff rev] in HD. rewrite HD. rewrite (close_run st p' acc' HI').
  rewrite app_assoc, HA. reflexivity.
Qed.

Theorem dot_encode_chunk_independent : forall chunks : list bytes,
  dot_encode chunks = dot_encode [concat chunks].
Proof.
  intros. unfold dot_encode. rewrite !dw_chunks_concat. cbn [concat]. rewrite app_nil_r. reflexivity.
Qed.

Example dot_roundtrip_example :
  dot_encode [bs ".a"; [10]; bs "."; [13; 13; 10]; bs "x"] =
    bs "..a" ++ [13; 10] ++ bs ".." ++ [13; 13; 13; 10] ++ bs "x" ++ [13; 10; 46; 13; 10].
Proof. vm_compute. reflexivity. Qed.
