(* DialProofs.v — lemmas about the dial model (Dial.v).  Property theorems are in props/C07.v, C17.v, C19.v. *)
From Coq Require Import String Lia.
From Verif Require Import Dial.
From VerifGen Require Import Gen.
Open Scope N_scope.

(* ------------------------------------------------------------------------------------------------ *)
(* programs: generic facts *)

Lemma run_bind : forall A C (m : prog A) (f : A -> prog C) w,
  run (bind m f) w = let (a, w1) := run m w in run (f a) w1.
Proof.
  induction m as [a | B p k IH]; intros f w; simpl.
  - reflexivity.
  - destruct (run_prim p w) as [b w1]. apply IH.
Qed.

(* an invariant preserved by every primitive is preserved by every program *)
Lemma run_inv (Inv : world -> Prop) :
  (forall B (p : prim B) w, Inv w -> Inv (snd (run_prim p w))) ->
  forall A (m : prog A) w, Inv w -> Inv (snd (run m w)).
Proof.
  intros HP A m. induction m as [a | B p k IH]; intros w Hw; simpl.
  - exact Hw.
  - specialize (HP _ p w Hw). destruct (run_prim p w) as [b w1]. simpl in HP. apply IH. exact HP.
Qed.

(* [sat P m]: every primitive that occurs in program m satisfies P *)
Inductive sat (P : forall B, prim B -> bool) (A : Type) : prog A -> Prop :=
| sat_ret : forall a : A, sat P A (Ret a)
| sat_do : forall B (p : prim B) (k : B -> prog A), P B p = true -> (forall b, sat P A (k b)) -> sat P A (Do p k).
Arguments sat_ret {P A} _.
Arguments sat_do {P A B} _ _ _ _.

Lemma sat_bind : forall P A C (m : prog A) (f : A -> prog C),
  sat P A m -> (forall a, sat P C (f a)) -> sat P C (bind m f).
Proof.
  intros P A C m f Hm Hf. induction Hm as [a | B p k Hp Hk IH]; simpl.
  - apply Hf.
  - apply sat_do; [exact Hp | exact IH].
Qed.

Lemma sat_weaken : forall (P Q : forall B, prim B -> bool) A (m : prog A),
  (forall B (p : prim B), P B p = true -> Q B p = true) -> sat P A m -> sat Q A m.
Proof.
  intros P Q A m HPQ Hm. induction Hm as [a | B p k Hp Hk IH].
  - apply sat_ret.
  - apply sat_do; [apply HPQ; exact Hp | exact IH].
Qed.

Lemma sat_run_inv (P : forall B, prim B -> bool) (Inv : world -> Prop) :
  (forall B (p : prim B) w, P B p = true -> Inv w -> Inv (snd (run_prim p w))) ->
  forall A (m : prog A), sat P A m -> forall w, Inv w -> Inv (snd (run m w)).
Proof.
  intros HP A m Hm. induction Hm as [a | B p k Hp Hk IH]; intros w Hw; simpl.
  - exact Hw.
  - specialize (HP _ p w Hp Hw). destruct (run_prim p w) as [b w1]. simpl in HP. apply IH. exact HP.
Qed.

Lemma sat_prim1 : forall P B (p : prim B), P B p = true -> sat P B (prim1 p).
Proof. intros. unfold prim1. apply sat_do; [assumption | intro; apply sat_ret]. Qed.

(* case analysis of one primitive step *)
Ltac prim_cases :=
  unfold run_prim, do_close, do_write, do_write_content, blocked_write, do_read, set_pipe, set_mu, mutex_hang, stick, spend, grant, pop_decision;
  repeat match goal with
         | |- context [if ?c then _ else _] => destruct c eqn:?
         | |- context [match ?x with _ => _ end] => destruct x eqn:?
         | H : (if ?c then _ else _) = (_, _) |- _ => destruct c eqn:?
         | H : match ?x with _ => _ end = (_, _) |- _ => destruct x eqn:?
         | H : (_, _) = (_, _) |- _ => inversion H; subst; clear H
         end; simpl in *.

Ltac fin :=
  repeat match goal with
         | H : _ && _ = true |- _ => apply andb_true_iff in H; destruct H
         end;
  repeat match goal with
         | H : negb _ = false |- _ => apply negb_false_iff in H
         | H : negb _ = true |- _ => apply negb_true_iff in H
         end;
  try congruence;
  try (match goal with H : ?a = true -> _, H' : ?a = true |- _ => specialize (H H') end; congruence);
  try (match goal with H : ?a = false -> _, H' : ?a = false |- _ => specialize (H H') end; congruence).

(* ------------------------------------------------------------------------------------------------ *)
(* invariants of the primitives *)

Definition opened_w (w : world) : Prop := opened (w_conn w) = true.

Lemma prim_opened : forall B (p : prim B) w, opened_w w -> opened_w (snd (run_prim p w)).
Proof.
  intros B p w H. unfold opened_w in *. destruct p; prim_cases; auto; fin.
Qed.

(* Q: a smtp.Client that is not connected has no open transport *)
(* M: the mutex of smtp.Client is never left locked (T1: every locking method unlocks on every return path) *)
Definition Minv (w : world) : Prop := mu_ok (w_cs w) = true /\ mu_held (w_cs w) = false.

Lemma prim_M : forall B (p : prim B) w, Minv w -> Minv (snd (run_prim p w)).
Proof.
  intros B p w [H1 H2]. unfold Minv in *. destruct p; prim_cases; split; auto; try congruence.
Qed.

Definition Qinv (w : world) : Prop :=
  opened (w_conn w) = true /\ (connected (w_cs w) = false -> copen (w_conn w) = false) /\ Minv w.

Lemma prim_Q : forall B (p : prim B) w, Qinv w -> Qinv (snd (run_prim p w)).
Proof.
  intros B p w (H1 & H2 & H3 & H4). unfold Qinv, Minv in *.
  destruct p; prim_cases; repeat split; auto; try congruence; intros; try discriminate; fin.
Qed.

(* a closed transport stays closed *)
Definition Closed (w : world) : Prop := opened (w_conn w) = true /\ copen (w_conn w) = false.

Lemma prim_closed : forall B (p : prim B) w, Closed w -> Closed (snd (run_prim p w)).
Proof.
  intros B p w [H1 H2]. unfold Closed in *. destruct p; prim_cases; split; auto; fin.
Qed.

(* J: nothing blocked so far and an open transport has a deadline *)
Definition Jinv (w : world) : Prop :=
  opened (w_conn w) = true /\ hung (w_conn w) = false /\ (copen (w_conn w) = true -> armed (w_conn w) = true) /\
  (* the textproto pipeline: no command waits on an unfinished predecessor -- every id handed out has had its
     EndResponse, unless its write failed, and then every later write fails too *)
  endresp (w_cs w) = true /\
  (pipe_out (w_cs w) = O \/ copen (w_conn w) = false \/ sopen (w_srv w) = false \/ wmode (w_srv w) <> None) /\
  (* the mutex of smtp.Client is never left locked *)
  mu_ok (w_cs w) = true /\ mu_held (w_cs w) = false.

Lemma prim_J : forall B (p : prim B) w, Jinv w -> Jinv (snd (run_prim p w)).
Proof.
  intros B p w (H1 & H2 & H3 & H4 & H5 & H6 & H7). unfold Jinv in *.
  destruct p; prim_cases; repeat split; auto; try congruence; intros; try discriminate;
    fin; try (destruct H5 as [H5 | [H5 | [H5 | H5]]]; congruence); try (right; right; left; assumption);
    try (right; left; reflexivity); try (left; reflexivity);
    try (right; left; assumption); try (left; assumption);
    try (rewrite H4 in *; simpl in *; discriminate);
    try (destruct H5 as [H5 | [H5 | [H5 | H5]]]; [left; exact H5 | congruence | congruence | right; right; right; exact H5]);
    try (right; right; right; congruence);
    try (destruct H5 as [H5 | [H5 | [H5 | H5]]]; [left; exact H5 | congruence | congruence | exfalso; apply H5; congruence]).
Qed.

(* T: inside TLS no cleartext command is added *)
Definition Tinv (C : list verb) (w : world) : Prop :=
  opened (w_conn w) = true /\ ctls (w_conn w) = true /\ clear_cmds (w_trace w) = C.

Lemma prim_T : forall C B (p : prim B) w, Tinv C w -> Tinv C (snd (run_prim p w)).
Proof.
  intros C B p w (H1 & H2 & H3). unfold Tinv in *.
  destruct p; prim_cases; repeat split; auto; try congruence; fin;
    try (rewrite H2; simpl; assumption); try (rewrite H2; simpl; auto; congruence).
Qed.

(* ------------------------------------------------------------------------------------------------ *)
(* C19: closing *)

Lemma do_close_copen : forall w, copen (w_conn (do_close w)) = false.
Proof. intros w. unfold do_close. destruct (ctls (w_conn w) && negb (copen (w_conn w))) eqn:E; simpl; auto. fin. Qed.
Lemma do_close_opened : forall w, opened (w_conn (do_close w)) = opened (w_conn w).
Proof. intros w. unfold do_close. destruct (ctls (w_conn w) && negb (copen (w_conn w))); reflexivity. Qed.
Lemma do_close_last_cmd : forall w, last_cmd (w_trace (do_close w)) = last_cmd (w_trace w).
Proof. intros w. unfold do_close. destruct (ctls (w_conn w) && negb (copen (w_conn w))); reflexivity. Qed.
Lemma do_close_cs : forall w, w_cs (do_close w) = w_cs w.
Proof. intros w. unfold do_close. destruct (ctls (w_conn w) && negb (copen (w_conn w))); reflexivity. Qed.

Arguments run_prim : simpl never.
Arguments do_close : simpl never.
Arguments cmd : simpl never.
Arguments ehlo : simpl never.
Arguments helo : simpl never.
Arguments hello : simpl never.
Arguments hello_named : simpl never.
Arguments quit : simpl never.
Arguments start_tls : simpl never.
Arguments extension : simpl never.
Arguments auth : simpl never.
Arguments new_client : simpl never.
Arguments tls_state : simpl never.
Arguments tls_step : simpl never.
Arguments pick_mech : simpl never.
Arguments auth_step : simpl never.
Arguments close_failed : simpl never.
Arguments dial : simpl never.
Arguments update_deadline : simpl never.
Arguments noop : simpl never.
Arguments reset : simpl never.
Arguments check_conn : simpl never.
Arguments reset_client : simpl never.
Arguments send_single : simpl never.
Arguments send_batch : simpl never.
Arguments close_client : simpl never.
Arguments dial_and_send : simpl never.
Arguments session : simpl never.
Arguments classify : simpl never.

Lemma new_client_spec : forall ssl w r w', run (new_client ssl) w = (r, w') ->
  match r with
  | Err _ => copen (w_conn w') = false
  | Ok _ => connected (w_cs w') = true
  end.
Proof.
  intros ssl w r w' H. unfold new_client, prim1 in H. simpl in H.
  destruct (run_prim PRead w) as [b w1] eqn:E1.
  destruct (classify 220 b) as [rp | e]; simpl in H.
  - destruct ssl; simpl in H; unfold run_prim in H; simpl in H; inversion H; subst; reflexivity.
  - unfold run_prim in H; simpl in H. inversion H; subst. apply do_close_copen.
Qed.

Lemma close_failed_closed : forall cfg w, fx_close cfg = true -> Qinv w ->
  Closed (snd (run (close_failed cfg) w)).
Proof.
  intros cfg w Hf (H1 & H2 & H3 & H4). unfold close_failed. rewrite Hf. unfold prim1. simpl.
  destruct (connected (w_cs w)) eqn:Ec; simpl; unfold run_prim; simpl; try rewrite H4.
  - unfold Closed; simpl. split; [rewrite do_close_opened; exact H1 | apply do_close_copen].
  - split; [exact H1 | auto].
Qed.

(* symbolic execution of one bind *)
Ltac sx H :=
  rewrite run_bind in H;
  match type of H with
  | context [let (_, _) := run ?m ?w in _] => let a := fresh "a" in let w1 := fresh "w" in let E := fresh "E" in
      destruct (run m w) as [a w1] eqn:E
  end.

Ltac inv_of lem E :=
  let H := fresh "HI" in
  match type of E with
  | run ?m ?w = (_, ?w1) => pose proof (run_inv _ lem _ m w) as H; rewrite E in H; simpl in H
  end.

Lemma connect_spec : forall ssl w c w1, run_prim (PConnect ssl true) w = (c, w1) -> w_conn w = conn0 ->
  match c with
  | Some _ => w_conn w1 = conn0 /\ w_trace w1 = w_trace w /\ w_cs w1 = w_cs w
  | None => opened (w_conn w1) = true /\ copen (w_conn w1) = true /\ hung (w_conn w1) = false /\ ctls (w_conn w1) = ssl
            /\ w_trace w1 = w_trace w /\ w_cs w1 = w_cs w
  end.
Proof.
  intros ssl w c w1 H H0. unfold run_prim in H. rewrite H0 in H. simpl in H.
  destruct (refuse (w_srv w)); [ | inversion H; subst; simpl; auto ].
  destruct ssl.
  - destruct (hs (w_srv w)); [ destruct (pop_decision (set_stls (w_srv w) true)) | | ]; inversion H; subst; simpl; auto 10.
  - destruct (pop_decision (w_srv w)); inversion H; subst; simpl; auto 10.
Qed.

(* the dial function incl. the second attempt on the fallback port *)
Lemma connect2_spec : forall cfg w c w1, run (connect cfg) w = (c, w1) -> w_conn w = conn0 ->
  match c with
  | Some _ => w_conn w1 = conn0 /\ w_trace w1 = w_trace w /\ w_cs w1 = w_cs w
  | None => opened (w_conn w1) = true /\ copen (w_conn w1) = true /\ hung (w_conn w1) = false /\ ctls (w_conn w1) = c_ssl cfg
            /\ w_trace w1 = w_trace w /\ w_cs w1 = w_cs w
  end.
Proof.
  intros cfg w c w1 H H0. unfold connect, prim1 in H. simpl in H.
  (* T1: the fallback dial uses the same dial function and the same deadline context as the primary one *)
  change fb_same_ctx with true in H. change fb_same_callee with true in H. rewrite andb_true_r in H.
  destruct (run_prim (PConnect (c_ssl cfg) true) w) as [c1 wa] eqn:E1.
  pose proof (connect_spec _ _ _ _ E1 H0) as S1.
  destruct c1 as [e1 | ].
  - destruct S1 as (A & B & C). destruct (c_fallback cfg); simpl in H.
    + destruct (run_prim (PConnect (c_ssl cfg) true) wa) as [c2 wb] eqn:E2. simpl in H. inversion H; subst.
      pose proof (connect_spec _ _ _ _ E2 A) as S2.
      destruct c; [ destruct S2 as (A2 & B2 & C2) | destruct S2 as (O2 & P2 & Q2 & R2 & B2 & C2) ];
        repeat split; auto; congruence.
    + inversion H; subst. auto.
  - simpl in H. inversion H; subst. exact S1.
Qed.

Lemma run_conntls : forall A (k : bool -> prog A) w, run (bind (prim1 PConnTls) k) w = run (k (ctls (w_conn w))) w.
Proof. reflexivity. Qed.

(* the part of dial after the connection exists and the deadline is (or is not) set *)
Definition dial_rest (fuel : nat) (cfg : config) : prog (res unit) :=
  t <- prim1 PConnTls ;;
  n <- new_client t ;;
  match n with
  | Err e => Ret (Err e)
  | Ok _ =>
      h <- hello_named ;;
      match h with
      | Err e => close_failed cfg ;;; Ret (Err e)
      | Ok _ =>
          t <- tls_step cfg ;;
          match t with
          | Err e => close_failed cfg ;;; Ret (Err e)
          | Ok is_enc =>
              a <- auth_step fuel cfg is_enc ;;
              match a with
              | Err e => close_failed cfg ;;; Ret (Err e)
              | Ok _ => Ret (Ok tt)
              end
          end
      end
  end.

Definition arm_opt (cfg : config) : prog unit := if fx_arm cfg then (prim1 PArm ;;; Ret tt) else Ret tt.

Lemma dial_unfold : forall fuel cfg,
  dial fuel cfg = (c <- connect cfg ;;
                   match c with Some e => Ret (Err e) | None => arm_opt cfg ;;; dial_rest fuel cfg end).
Proof. reflexivity. Qed.

Lemma dial_rest_closed : forall fuel cfg w r w', fx_close cfg = true -> opened (w_conn w) = true -> Minv w ->
  run (dial_rest fuel cfg) w = (r, w') ->
  match r with
  | Err _ => Closed w'
  | Ok _ => Qinv w'
  end.
Proof.
  intros fuel cfg w r w' Hf Ho HM H. unfold dial_rest in H. rewrite run_conntls in H.
  sx H. pose proof (new_client_spec _ _ _ _ E) as Hn. inv_of prim_opened E. specialize (HI Ho).
  pose proof (run_inv _ prim_M _ (new_client (ctls (w_conn w))) w HM) as HM0. rewrite E in HM0. simpl in HM0.
  destruct a as [u | e].
  2:{ simpl in H. inversion H; subst. split; assumption. }
  assert (HQ : Qinv w0) by (split; [exact HI | split; [intro X; congruence | exact HM0]]).
  sx H. inv_of prim_Q E0. specialize (HI0 HQ).
  destruct a as [u1 | e].
  2:{ sx H. simpl in H. inversion H; subst. pose proof (close_failed_closed cfg w1 Hf HI0) as X. rewrite E1 in X. exact X. }
  sx H. inv_of prim_Q E1. specialize (HI1 HI0).
  destruct a as [enc | e].
  2:{ sx H. simpl in H. inversion H; subst. pose proof (close_failed_closed cfg w2 Hf HI1) as X. rewrite E2 in X. exact X. }
  sx H. inv_of prim_Q E2. specialize (HI2 HI1).
  destruct a as [u2 | e].
  2:{ sx H. simpl in H. inversion H; subst. pose proof (close_failed_closed cfg w3 Hf HI2) as X. rewrite E3 in X. exact X. }
  simpl in H. inversion H; subst. exact HI2.
Qed.

Lemma arm_opt_opened : forall cfg w, opened (w_conn w) = true -> opened (w_conn (snd (run (arm_opt cfg) w))) = true.
Proof. intros. apply (run_inv opened_w prim_opened). exact H. Qed.

(* dial: error => closed (if a connection was opened at all); success => Q *)
Lemma dial_closed : forall fuel cfg w r w', fx_close cfg = true -> w_conn w = conn0 -> Minv w ->
  run (dial fuel cfg) w = (r, w') ->
  match r with
  | Err _ => opened (w_conn w') = true -> copen (w_conn w') = false
  | Ok _ => Qinv w'
  end.
Proof.
  intros fuel cfg w r w' Hf H0 HM H. rewrite dial_unfold in H.
  sx H. pose proof (connect2_spec _ _ _ _ E H0) as Hc. clear E.
  destruct a as [e | ].
  - simpl in H. inversion H; subst. destruct Hc as [Hc _]. rewrite Hc. simpl. discriminate.
  - destruct Hc as (Ho & _ & _ & _ & _ & Hcs).
    assert (HM0 : Minv w0) by (unfold Minv in *; rewrite Hcs; exact HM).
    sx H. pose proof (arm_opt_opened cfg w0 Ho) as Ho1. rewrite E in Ho1. simpl in Ho1.
    pose proof (run_inv _ prim_M _ (arm_opt cfg) w0 HM0) as HM1. rewrite E in HM1. simpl in HM1.
    pose proof (dial_rest_closed _ _ _ _ _ Hf Ho1 HM1 H) as X.
    destruct r; [exact X | intros _; apply X].
Qed.

(* ------------------------------------------------------------------------------------------------ *)
(* which primitives the functions use *)

(* [Pw S]: writes of verbs in S, reads, bookkeeping reads/writes of hello, SetDeadline; nothing else
   (no close, no connect, no TLS start) *)
Definition Pw (S : verb -> bool) : forall B, prim B -> bool :=
  fun B p => match p with
             | PWrite v => S v
             | PCmd _ v => S v
             | PRead | PGetCs | PSetHello _ | PSetExt _ | PArm | PWriteContent => true
             | _ => false
             end.

(* [Pany S]: any primitive, but writes only of verbs in S *)
Definition Pany (S : verb -> bool) : forall B, prim B -> bool :=
  fun B p => match p with PWrite v => S v | PCmd _ v => S v | _ => true end.

Lemma Pw_Pany : forall S B (p : prim B), Pw S B p = true -> Pany S B p = true.
Proof. intros S B p; destruct p; simpl; auto. Qed.

Lemma Pany_mono : forall (S S' : verb -> bool), (forall v, S v = true -> S' v = true) ->
  forall B (p : prim B), Pany S B p = true -> Pany S' B p = true.
Proof. intros S S' H B p; destruct p; simpl; auto. Qed.

Create HintDb satdb.

Ltac sat_tac :=
  repeat (match goal with
          | |- sat _ _ (Ret _) => apply sat_ret
          | |- sat _ _ (prim1 _) => apply sat_prim1; simpl; solve [auto]
          | |- sat _ _ (Do _ _) => apply sat_do; [simpl; solve [auto] | intro]
          | |- sat _ _ (bind _ _) => apply sat_bind; [ | intro]
          | |- sat _ _ (if ?x then _ else _) => destruct x
          | |- sat _ _ (match ?x with _ => _ end) => destruct x
          | |- sat _ _ _ => solve [eauto with satdb]
          end).

Lemma sat_cmd : forall S e v, S v = true -> sat (Pw S) _ (cmd e v).
Proof. intros. unfold cmd. sat_tac. Qed.
#[export] Hint Resolve sat_cmd : satdb.

Lemma sat_ehlo : forall S, S VEhlo = true -> sat (Pw S) _ ehlo.
Proof. intros. unfold ehlo. sat_tac. Qed.
#[export] Hint Resolve sat_ehlo : satdb.

Lemma sat_helo : forall S, S VHelo = true -> sat (Pw S) _ helo.
Proof. intros. unfold helo. sat_tac. Qed.
#[export] Hint Resolve sat_helo : satdb.

Lemma sat_hello : forall S, S VEhlo = true -> S VHelo = true -> sat (Pw S) _ hello.
Proof. intros. unfold hello. sat_tac. Qed.
#[export] Hint Resolve sat_hello : satdb.

Lemma sat_hello_named : forall S, S VEhlo = true -> S VHelo = true -> sat (Pw S) _ hello_named.
Proof. intros. unfold hello_named. sat_tac. Qed.
#[export] Hint Resolve sat_hello_named : satdb.

Lemma sat_extension : forall S k, S VEhlo = true -> S VHelo = true -> sat (Pw S) _ (extension k).
Proof. intros. unfold extension. sat_tac. Qed.
#[export] Hint Resolve sat_extension : satdb.

Definition send_verb (v : verb) : bool :=
  match v with VEhlo | VHelo | VNoop | VRset | VMail | VRcpt | VData | VEod => true | _ => false end.

Lemma sat_noop : sat (Pw send_verb) _ noop.
Proof. unfold noop. sat_tac. Qed.
#[export] Hint Resolve sat_noop : satdb.

Lemma sat_reset : sat (Pw send_verb) _ reset.
Proof. unfold reset. sat_tac. Qed.
#[export] Hint Resolve sat_reset : satdb.

Lemma sat_check_conn : forall cfg, sat (Pw send_verb) _ (check_conn cfg).
Proof. intros. unfold check_conn, update_deadline. sat_tac. Qed.
#[export] Hint Resolve sat_check_conn : satdb.

Lemma sat_reset_client : forall cfg, sat (Pw send_verb) _ (reset_client cfg).
Proof. intros. unfold reset_client. sat_tac. Qed.
#[export] Hint Resolve sat_reset_client : satdb.

Lemma sat_rcpts : forall n bad, sat (Pw send_verb) _ (rcpts n bad).
Proof. induction n; intros; simpl; sat_tac. Qed.
#[export] Hint Resolve sat_rcpts : satdb.

(* primitives in Pw keep the smtp.Client connected *)
Lemma prim_connected : forall S B (p : prim B) w, Pw S B p = true ->
  connected (w_cs w) = true -> connected (w_cs (snd (run_prim p w))) = true.
Proof. intros S B p w HP H. destruct p; simpl in HP; try discriminate; prim_cases; auto. Qed.

Ltac conn_of lem E Hc :=
  let H := fresh "HC" in
  match type of E with
  | run ?m ?w = (_, ?w1) =>
      pose proof (sat_run_inv _ (fun w => connected (w_cs w) = true) (prim_connected send_verb) _ m lem w Hc) as H;
      rewrite E in H; simpl in H
  end.

Lemma send_single_ok_connected : forall cfg n w u w', connected (w_cs w) = true ->
  run (send_single cfg n) w = (Ok u, w') -> connected (w_cs w') = true.
Proof.
  intros cfg n w u w' Hc H. unfold send_single in H.
  sx H. conn_of (sat_cmd send_verb 250 VMail eq_refl) E Hc.
  destruct a as [rp | e].
  2:{ sx H. sx H. simpl in H. discriminate. }
  sx H. conn_of (sat_rcpts n false) E0 HC.
  destruct a.
  { sx H. sx H. simpl in H. discriminate. }
  sx H. conn_of (sat_cmd send_verb 354 VData eq_refl) E1 HC0.
  destruct a as [rp2 | e].
  2:{ destruct (fx_send cfg); [ sx H; sx H; simpl in H; discriminate | simpl in H; discriminate ]. }
  sx H. conn_of (sat_prim1 (Pw send_verb) _ PWriteContent eq_refl) E2 HC1.
  destruct a; try (sx H; simpl in H; discriminate).
  sx H. conn_of (sat_prim1 (Pw send_verb) _ (PWrite VEod) eq_refl) E3 HC2.
  sx H. conn_of (sat_prim1 (Pw send_verb) _ PRead eq_refl) E4 HC3.
  destruct (classify 250 a0); [ | simpl in H; discriminate ].
  sx H. conn_of (sat_reset_client cfg) E5 HC4.
  simpl in H. destruct a1; inversion H; subst. exact HC5.
Qed.

Lemma send_msgs_bad_true : forall cfg msgs w b w', run (send_msgs cfg msgs true) w = (b, w') -> b = true.
Proof.
  induction msgs as [ | n t IH]; intros w b w' H; cbn [send_msgs] in H.
  - simpl in H. inversion H; reflexivity.
  - sx H. destruct a; eapply IH; exact H.
Qed.

Lemma send_msgs_connected : forall cfg msgs w w', connected (w_cs w) = true ->
  run (send_msgs cfg msgs false) w = (false, w') -> connected (w_cs w') = true.
Proof.
  induction msgs as [ | n t IH]; intros w w' Hc H; cbn [send_msgs] in H.
  - simpl in H. inversion H; subst. exact Hc.
  - sx H. destruct a as [u | e].
    + apply (IH w0 w'); [ eapply send_single_ok_connected; eauto | exact H ].
    + apply send_msgs_bad_true in H. discriminate.
Qed.

Lemma send_batch_connected : forall cfg msgs w u w', run (send_batch cfg msgs) w = (Ok u, w') ->
  connected (w_cs w') = true.
Proof.
  intros cfg msgs w u w' H. unfold send_batch in H.
  assert (Hc : connected (w_cs w) = true).
  { unfold check_conn in H. rewrite run_bind in H. unfold prim1 in H. simpl in H.
    destruct (connected (w_cs w)); [reflexivity | simpl in H; discriminate]. }
  sx H. destruct a; [ | simpl in H; discriminate ].
  conn_of (sat_check_conn cfg) E Hc.
  sx H. simpl in H. match goal with b : bool |- _ => destruct b end; inversion H; subst.
  eapply send_msgs_connected; eauto.
Qed.

Lemma run_get : forall A (k : cstate -> prog A) w, run (bind (prim1 PGetCs) k) w = run (k (w_cs w)) w.
Proof. reflexivity. Qed.

(* Quit *)
Lemma do_write_true_trace : forall v w w1, do_write v w = (WOk, w1) ->
  w_trace w1 = ECmd v (negb (ctls (w_conn w))) :: w_trace w /\ w_cs w1 = w_cs w.
Proof.
  intros v w w1 H. unfold do_write, blocked_write in H.
  destruct (negb (copen (w_conn w))); [discriminate|]. destruct (negb (sopen (w_srv w))); [discriminate|].
  destruct (wmode (w_srv w)) as [[f l] | ].
  - destruct f; [discriminate | destruct (wstuck (w_clk w)); [discriminate | destruct (armed (w_conn w)); discriminate]].
  - inversion H; subst. split; reflexivity.
Qed.

Lemma spend_trace : forall w, w_trace (spend w) = w_trace w.
Proof. intros w. unfold spend. destruct (fresh (w_clk w)); reflexivity. Qed.

Lemma do_read_last_cmd : forall w r w1, do_read w = (r, w1) -> last_cmd (w_trace w1) = last_cmd (w_trace w).
Proof.
  intros w r w1 H. unfold do_read in H.
  destruct (negb (copen (w_conn w))); [inversion H; subst; reflexivity|].
  destruct (queue (w_srv w)); [ destruct (negb (sopen (w_srv w))); [|destruct (armed (w_conn w))] | ];
    inversion H; subst; try rewrite spend_trace; reflexivity.
Qed.

Lemma cmd_ok_last : forall e v w rp w1, run (cmd e v) w = (Ok rp, w1) -> last_cmd (w_trace w1) = Some v.
Proof.
  intros e v w rp w1 H. unfold cmd, prim1 in H. simpl in H. unfold run_prim in H.
  destruct (mu_held (w_cs w)); [ inversion H | ].
  destruct (do_write v w) as [wr w2] eqn:Ew. destruct wr; simpl in H; try (inversion H; fail).
  destruct (do_write_true_trace _ _ _ Ew) as [Ht _].
  destruct (pipe_out (w_cs w2)); [ | inversion H ].
  destruct (do_read w2) as [rr w3] eqn:Er. pose proof (do_read_last_cmd _ _ _ Er) as Hl.
  rewrite Ht in Hl. simpl in Hl.
  destruct (endresp (w_cs w3) || is_reply rr); inversion H; subst; simpl; exact Hl.
Qed.

Lemma quit_ok : forall w u w', Minv w -> run quit w = (Ok u, w') ->
  copen (w_conn w') = false /\ connected (w_cs w') = false /\ last_cmd (w_trace w') = Some VQuit.
Proof.
  intros w u w' HM H. unfold quit in H.
  sx H. pose proof (run_inv _ prim_M _ hello w HM) as HM0. rewrite E in HM0. simpl in HM0.
  sx H. pose proof (run_inv _ prim_M _ (cmd 221 VQuit) w0 HM0) as HM1. rewrite E0 in HM1. simpl in HM1.
  destruct a0 as [rp | e]; [ | simpl in H; discriminate ].
  pose proof (cmd_ok_last _ _ _ _ _ E0) as Hl.
  unfold prim1 in H. simpl in H. unfold run_prim in H. simpl in H. destruct HM1 as [_ HM1]. rewrite HM1 in H.
  inversion H; subst. simpl.
  rewrite do_close_copen, do_close_last_cmd. auto.
Qed.

(* CloseWithSMTPClient *)
Lemma close_client_spec : forall cfg w r w', fx_quit cfg = true -> Qinv w ->
  run (close_client cfg) w = (r, w') ->
  Closed w' /\ (forall u, r = Ok u -> connected (w_cs w) = true -> last_cmd (w_trace w') = Some VQuit).
Proof.
  intros cfg w r w' Hf HQ H. unfold close_client in H.
  rewrite run_get in H.
  destruct (connected (w_cs w)) eqn:Ec; cbn [negb run] in H.
  2:{ inversion H; subst. split; [ destruct HQ as (Q1 & Q2 & Q3); split; auto | intros; discriminate ]. }
  sx H. inv_of prim_Q E. specialize (HI HQ).
  sx H. inv_of prim_Q E0. specialize (HI0 HI).
  destruct a0 as [u | e].
  - simpl in H. inversion H; subst. destruct (quit_ok _ _ _ (proj2 (proj2 HI)) E0) as (Q1 & Q2 & Q3).
    split; [ split; [apply HI0 | exact Q1] | intros; exact Q3 ].
  - rewrite Hf in H. sx H. simpl in H. inversion H; subst. split; [ | intros; discriminate ].
    rewrite run_get in E1.
    destruct HI0 as (O1 & O2 & O3 & O4).
    destruct (connected (w_cs w1)) eqn:Ec1; simpl in E1; unfold run_prim in E1; simpl in E1; try rewrite O4 in E1; inversion E1; subst; simpl.
    + unfold Closed; simpl. split; [rewrite do_close_opened; auto | apply do_close_copen].
    + split; auto.
Qed.

Lemma dial_and_send_closed : forall fuel cfg msgs w r ph w',
  fx_close cfg = true -> fx_quit cfg = true -> w_conn w = conn0 -> Minv w ->
  run (dial_and_send fuel cfg msgs) w = (r, ph, w') ->
  (opened (w_conn w') = true -> copen (w_conn w') = false) /\
  (forall u, r = Ok u -> last_cmd (w_trace w') = Some VQuit).
Proof.
  intros fuel cfg msgs w r ph w' Hc Hq H0 HM H. unfold dial_and_send in H.
  sx H. pose proof (dial_closed _ _ _ _ _ Hc H0 HM E) as Hd.
  destruct a as [u | e].
  2:{ simpl in H. inversion H; subst. split; [exact Hd | intros; discriminate]. }
  sx H. inv_of prim_Q E0. specialize (HI Hd).
  destruct a as [u1 | e].
  - sx H. destruct (close_client_spec _ _ _ _ Hq HI E1) as [C1 C2].
    sx H. inv_of prim_closed E2. specialize (HI0 C1).
    destruct a as [u2 | e2].
    + assert (Hl : last_cmd (w_trace w3) = last_cmd (w_trace w2)).
      { (* the deferred second close is a no-op: the first one succeeded, so the client is disconnected *)
        unfold close_client in E1. rewrite run_get in E1.
        rewrite (send_batch_connected _ _ _ _ _ E0) in E1. cbn [negb] in E1.
        rewrite run_bind in E1. destruct (run (if fx_arm cfg then update_deadline;;; Ret tt else Ret tt) w1) as [x wx] eqn:Ex.
        rewrite run_bind in E1. destruct (run quit wx) as [q wq] eqn:Eq.
        assert (HMx : Minv wx).
        { match type of Ex with run ?m w1 = _ => pose proof (run_inv _ prim_Q _ m w1 HI) as X end.
          rewrite Ex in X. apply X. }
        destruct q as [uq | eq]; simpl in E1.
        - inversion E1; subst. destruct (quit_ok _ _ _ HMx Eq) as (_ & Q2 & _).
          unfold close_client in E2. rewrite run_get in E2.
          rewrite Q2 in E2. cbn [negb run] in E2. inversion E2; subst. reflexivity.
        - rewrite run_bind in E1. match type of E1 with context [run ?m wq] => destruct (run m wq) end. simpl in E1. inversion E1. }
      simpl in H. inversion H; subst.
      split; [ intros _; apply HI0 | intros u3 _; rewrite Hl; apply (C2 u2 eq_refl); exact (send_batch_connected _ _ _ _ _ E0) ].
    + simpl in H. inversion H; subst. split; [ intros _; apply HI0 | intros; discriminate ].
  - sx H. destruct (close_client_spec _ _ _ _ Hq HI E1) as [C1 _].
    simpl in H. inversion H; subst. split; [ intros _; apply C1 | intros; discriminate ].
Qed.

(* ------------------------------------------------------------------------------------------------ *)
(* C17: no read blocks for ever *)

(* the pipeline of c.Text is in step: every id handed out has had its EndResponse (or no write can succeed any more) *)
Definition PipeOk (w : world) : Prop :=
  endresp (w_cs w) = true /\
  (pipe_out (w_cs w) = O \/ copen (w_conn w) = false \/ sopen (w_srv w) = false \/ wmode (w_srv w) <> None) /\
  (* the mutex of smtp.Client is never left locked *)
  mu_ok (w_cs w) = true /\ mu_held (w_cs w) = false.

Lemma arm_J : forall w, opened (w_conn w) = true -> hung (w_conn w) = false -> PipeOk w -> Jinv (snd (run_prim PArm w)).
Proof.
  intros w Ho Hh (He & Hp & Hm1 & Hm2). unfold run_prim. rewrite Hm2.
  destruct (copen (w_conn w)) eqn:Ec; simpl; unfold Jinv; simpl; repeat split; auto;
    try (intros; congruence); try (destruct Hp as [Hp | [Hp | [Hp | Hp]]]; auto; congruence).
Qed.

Lemma dial_J : forall fuel cfg w r w', fx_arm cfg = true -> w_conn w = conn0 ->
  endresp (w_cs w) = true -> pipe_out (w_cs w) = O -> Minv w ->
  run (dial fuel cfg) w = (r, w') ->
  hung (w_conn w') = false /\ (forall u, r = Ok u -> Jinv w').
Proof.
  intros fuel cfg w r w' Hf H0 He Hp HM H. rewrite dial_unfold in H.
  sx H. pose proof (connect2_spec _ _ _ _ E H0) as Hc. clear E.
  destruct a as [e | ].
  - simpl in H. inversion H; subst. destruct Hc as [Hc _]. rewrite Hc. simpl. split; [reflexivity | intros; discriminate].
  - destruct Hc as (Ho & _ & Hh & _ & _ & Hcs).
    sx H. unfold arm_opt in E. rewrite Hf in E. unfold prim1 in E. simpl in E.
    destruct (run_prim PArm w0) as [ok wa] eqn:Ea. simpl in E. inversion E; subst; clear E.
    assert (HP : PipeOk w0) by (unfold PipeOk, Minv in *; rewrite Hcs; repeat split; try apply HM; auto).
    pose proof (arm_J w0 Ho Hh HP) as HJ. rewrite Ea in HJ. simpl in HJ.
    pose proof (run_inv _ prim_J _ (dial_rest fuel cfg) w1 HJ) as HJ2. rewrite H in HJ2. simpl in HJ2.
    split; [ apply HJ2 | intros; exact HJ2 ].
Qed.

Lemma check_conn_J : forall cfg w r w', fx_arm cfg = true ->
  opened (w_conn w) = true -> hung (w_conn w) = false -> PipeOk w ->
  run (check_conn cfg) w = (r, w') ->
  opened (w_conn w') = true /\ hung (w_conn w') = false /\ (forall u, r = Ok u -> Jinv w').
Proof.
  intros cfg w r w' Hf Ho Hh HP H. unfold check_conn in H. rewrite run_get in H. rewrite Hf in H.
  destruct (connected (w_cs w)); cbn [negb run] in H.
  2:{ inversion H; subst. repeat split; auto. all: try (intros; discriminate). }
  unfold update_deadline in H. rewrite run_bind in H. unfold prim1 in H. cbn [run] in H.
  destruct (run_prim PArm w) as [ok wa] eqn:Ea.
  pose proof (arm_J w Ho Hh HP) as HJ. rewrite Ea in HJ. simpl in HJ.
  match type of H with run ?m wa = _ => pose proof (run_inv _ prim_J _ m wa HJ) as HJ2 end.
  rewrite H in HJ2. simpl in HJ2. split; [ apply HJ2 | split; [ apply HJ2 | intros; exact HJ2 ] ].
Qed.

Lemma send_batch_no_hang : forall cfg msgs w, fx_arm cfg = true ->
  opened (w_conn w) = true -> hung (w_conn w) = false -> PipeOk w ->
  hung (w_conn (snd (run (send_batch cfg msgs) w))) = false.
Proof.
  intros cfg msgs w Hf Ho Hh HP. unfold send_batch. rewrite run_bind.
  destruct (run (check_conn cfg) w) as [c w1] eqn:E.
  destruct (check_conn_J _ _ _ _ Hf Ho Hh HP E) as (A & B & C).
  destruct c as [u | e]; [ | simpl; exact B ].
  rewrite run_bind. pose proof (run_inv _ prim_J _ (send_msgs cfg msgs false) w1 (C u eq_refl)) as HJ.
  destruct (run (send_msgs cfg msgs false) w1) as [bad w2]. simpl in *. apply HJ.
Qed.

Lemma reset_client_no_hang : forall cfg w, fx_arm cfg = true ->
  opened (w_conn w) = true -> hung (w_conn w) = false -> PipeOk w ->
  hung (w_conn (snd (run (reset_client cfg) w))) = false.
Proof.
  intros cfg w Hf Ho Hh HP. unfold reset_client. rewrite run_bind.
  destruct (run (check_conn cfg) w) as [c w1] eqn:E.
  destruct (check_conn_J _ _ _ _ Hf Ho Hh HP E) as (A & B & C).
  destruct c as [u | e]; [ | simpl; exact B ].
  pose proof (run_inv _ prim_J _ reset w1 (C u eq_refl)) as HJ. apply HJ.
Qed.

Lemma close_client_no_hang : forall cfg w, fx_arm cfg = true ->
  opened (w_conn w) = true -> hung (w_conn w) = false -> PipeOk w ->
  hung (w_conn (snd (run (close_client cfg) w))) = false.
Proof.
  intros cfg w Hf Ho Hh HP. unfold close_client. rewrite run_get. rewrite Hf.
  destruct (connected (w_cs w)); cbn [negb run]; [ | simpl; exact Hh ].
  unfold update_deadline. rewrite run_bind. rewrite run_bind. unfold prim1. cbn [run].
  destruct (run_prim PArm w) as [ok wa] eqn:Ea.
  pose proof (arm_J w Ho Hh HP) as HJ. rewrite Ea in HJ. simpl in HJ. cbn [run].
  match goal with |- hung (w_conn (snd (run ?m wa))) = false => pose proof (run_inv _ prim_J _ m wa HJ) as HJ2 end.
  apply HJ2.
Qed.

Lemma dial_and_send_no_hang : forall fuel cfg msgs w, fx_arm cfg = true -> w_conn w = conn0 ->
  endresp (w_cs w) = true -> pipe_out (w_cs w) = O -> Minv w ->
  hung (w_conn (snd (run (dial_and_send fuel cfg msgs) w))) = false.
Proof.
  intros fuel cfg msgs w Hf H0 He Hp HM. unfold dial_and_send. rewrite run_bind.
  destruct (run (dial fuel cfg) w) as [d w1] eqn:E.
  destruct (dial_J _ _ _ _ _ Hf H0 He Hp HM E) as [A B].
  destruct d as [u | e]; [ | simpl; exact A ].
  match goal with |- hung (w_conn (snd (run ?m w1))) = false => pose proof (run_inv _ prim_J _ m w1 (B u eq_refl)) as HJ end.
  apply HJ.
Qed.

Lemma session_no_hang : forall fuel cfg msgs w, fx_arm cfg = true -> w_conn w = conn0 ->
  endresp (w_cs w) = true -> pipe_out (w_cs w) = O -> Minv w ->
  hung (w_conn (snd (run (session fuel cfg msgs) w))) = false.
Proof.
  intros fuel cfg msgs w Hf H0 He Hp HM. unfold session. rewrite run_bind.
  destruct (run (dial fuel cfg) w) as [d w1] eqn:E.
  destruct (dial_J _ _ _ _ _ Hf H0 He Hp HM E) as [A B].
  destruct d as [u | e]; [ | simpl; exact A ].
  match goal with |- hung (w_conn (snd (run ?m w1))) = false => pose proof (run_inv _ prim_J _ m w1 (B u eq_refl)) as HJ end.
  apply HJ.
Qed.

Lemma session2_no_hang : forall fuel cfg msgs w, fx_arm cfg = true -> w_conn w = conn0 ->
  endresp (w_cs w) = true -> pipe_out (w_cs w) = O -> Minv w ->
  hung (w_conn (snd (run (session2 fuel cfg msgs) w))) = false.
Proof.
  intros fuel cfg msgs w Hf H0 He Hp HM. unfold session2. rewrite run_bind.
  destruct (run (dial fuel cfg) w) as [d w1] eqn:E.
  destruct (dial_J _ _ _ _ _ Hf H0 He Hp HM E) as [A B].
  destruct d as [u | e]; [ | simpl; exact A ].
  match goal with |- hung (w_conn (snd (run ?m w1))) = false => pose proof (run_inv _ prim_J _ m w1 (B u eq_refl)) as HJ end.
  apply HJ.
Qed.

(* the pipeline stays in step: after any program run from a state satisfying J no command waits on a predecessor *)
Lemma pipeline_in_step : forall A (m : prog A) w, Jinv w -> PipeOk (snd (run m w)).
Proof.
  intros A m w HJ. pose proof (run_inv _ prim_J _ m w HJ) as (_ & _ & _ & He & Hp & Hm1 & Hm2). repeat split; assumption.
Qed.

(* ------------------------------------------------------------------------------------------------ *)
(* C07: what leaves the process in clear *)

Definition AllowedInv (S : verb -> bool) (w : world) : Prop :=
  forall v, In v (clear_cmds (w_trace w)) -> S v = true.

Lemma prim_allowed : forall S B (p : prim B) w, Pany S B p = true -> AllowedInv S w -> AllowedInv S (snd (run_prim p w)).
Proof.
  intros S B p w HP H. unfold AllowedInv in *.
  destruct p; simpl in HP; prim_cases; auto; intros v0 Hin; simpl in Hin; auto;
    destruct (ctls (w_conn w)); simpl in Hin; auto;
    (destruct Hin as [Hin | Hin]; [subst; exact HP | auto]).
Qed.

Lemma sat_any_of_w : forall S A (m : prog A), sat (Pw S) A m -> sat (Pany S) A m.
Proof. intros. eapply sat_weaken; [ | eassumption ]. apply Pw_Pany. Qed.

Lemma sat_any_mono : forall (S S' : verb -> bool) A (m : prog A), (forall v, S v = true -> S' v = true) ->
  sat (Pany S) A m -> sat (Pany S') A m.
Proof. intros. eapply sat_weaken; [ | eassumption ]. apply Pany_mono; assumption. Qed.

Lemma sat_any_cmd : forall S e v, S v = true -> sat (Pany S) _ (cmd e v).
Proof. intros. apply sat_any_of_w. auto with satdb. Qed.
Lemma sat_any_ehlo : forall S, S VEhlo = true -> sat (Pany S) _ ehlo.
Proof. intros. apply sat_any_of_w. auto with satdb. Qed.
Lemma sat_any_hello : forall S, S VEhlo = true -> S VHelo = true -> sat (Pany S) _ hello.
Proof. intros. apply sat_any_of_w. auto with satdb. Qed.
Lemma sat_any_hello_named : forall S, S VEhlo = true -> S VHelo = true -> sat (Pany S) _ hello_named.
Proof. intros. apply sat_any_of_w. auto with satdb. Qed.
Lemma sat_any_extension : forall S k, S VEhlo = true -> S VHelo = true -> sat (Pany S) _ (extension k).
Proof. intros. apply sat_any_of_w. auto with satdb. Qed.
#[export] Hint Resolve sat_any_cmd sat_any_ehlo sat_any_hello sat_any_hello_named sat_any_extension : satdb.

Lemma sat_any_new_client : forall S ssl, sat (Pany S) _ (new_client ssl).
Proof. intros. unfold new_client. sat_tac. Qed.
Lemma sat_any_arm_opt : forall S cfg, sat (Pany S) _ (arm_opt cfg).
Proof. intros. unfold arm_opt. sat_tac. Qed.
Lemma sat_any_close_failed : forall S cfg, sat (Pany S) _ (close_failed cfg).
Proof. intros. unfold close_failed. sat_tac. Qed.
Lemma sat_any_tls_state : forall S, sat (Pany S) _ tls_state.
Proof. intros. unfold tls_state. sat_tac. Qed.
#[export] Hint Resolve sat_any_new_client sat_any_arm_opt sat_any_close_failed sat_any_tls_state : satdb.

Lemma sat_any_start_tls : forall S, S VEhlo = true -> S VHelo = true -> S VStartTLS = true -> sat (Pany S) _ start_tls.
Proof. intros. unfold start_tls. sat_tac. Qed.
#[export] Hint Resolve sat_any_start_tls : satdb.

Lemma sat_any_tls_step : forall S cfg, S VEhlo = true -> S VHelo = true -> S VStartTLS = true -> sat (Pany S) _ (tls_step cfg).
Proof. intros. unfold tls_step. sat_tac. Qed.
#[export] Hint Resolve sat_any_tls_step : satdb.

Lemma sat_any_quit : forall S, S VEhlo = true -> S VHelo = true -> S VQuit = true -> sat (Pany S) _ quit.
Proof. intros. unfold quit. sat_tac. Qed.
#[export] Hint Resolve sat_any_quit : satdb.

(* TLS handshake: only a completed handshake returns without error *)
Lemma handshake_none : forall w w1, run_prim PHandshake w = (None, w1) ->
  ctls (w_conn w1) = true /\ w_cs w1 = w_cs w /\ opened (w_conn w1) = opened (w_conn w) /\ clear_cmds (w_trace w1) = clear_cmds (w_trace w).
Proof.
  intros w w1 H. unfold run_prim in H.
  repeat match type of H with
         | context [if ?c then _ else _] => destruct c
         | context [match ?x with _ => _ end] => destruct x
         end; inversion H; subst; simpl; auto.
Qed.

Lemma start_tls_ok_tls : forall w u w', opened (w_conn w) = true -> run start_tls w = (Ok u, w') ->
  ctls (w_conn w') = true /\ opened (w_conn w') = true.
Proof.
  intros w u w' Ho H. unfold start_tls in H.
  sx H. inv_of prim_opened E. specialize (HI Ho). destruct a as [e | ]; [ simpl in H; discriminate | ].
  sx H. inv_of prim_opened E0. specialize (HI0 HI). destruct a as [rp | e]; [ | simpl in H; discriminate ].
  sx H. inv_of prim_opened E1. specialize (HI1 HI0).
  sx H. unfold prim1 in E2. simpl in E2. destruct (run_prim PHandshake w2) as [h wh] eqn:Eh. inversion E2; subst; clear E2.
  destruct a0 as [e | ]; [ simpl in H; discriminate | ].
  destruct (handshake_none _ _ Eh) as (A & _ & B & _).
  assert (HT : Tinv (clear_cmds (w_trace w3)) w3) by (repeat split; auto; congruence).
  pose proof (run_inv _ (prim_T _) _ ehlo w3 HT) as HT2. rewrite H in HT2. simpl in HT2.
  destruct HT2 as (X & Y & _). auto.
Qed.

Lemma tls_step_mandatory_tls : forall cfg w b w', c_policy cfg = Mandatory -> c_ssl cfg = false ->
  opened (w_conn w) = true -> run (tls_step cfg) w = (Ok b, w') -> ctls (w_conn w') = true /\ opened (w_conn w') = true.
Proof.
  intros cfg w b w' Hp Hs Ho H. unfold tls_step in H. rewrite Hs, Hp in H.
  sx H. inv_of prim_opened E. specialize (HI Ho).
  destruct (negb (fst a)); [ simpl in H; discriminate | ].
  sx H. destruct a0 as [u | e]; [ | simpl in H; discriminate ].
  destruct (start_tls_ok_tls _ _ _ HI E0) as [A B].
  sx H.
  assert (HT : Tinv (clear_cmds (w_trace w1)) w1) by (repeat split; auto).
  pose proof (run_inv _ (prim_T _) _ tls_state w1 HT) as HT2. rewrite E1 in HT2. simpl in HT2.
  destruct HT2 as (X & Y & _).
  assert (w' = w2) by (destruct a0 as [bb | ee]; [ | destruct ee ]; simpl in H; inversion H; reflexivity).
  subst. auto.
Qed.

Lemma hf_ehlo : handshake_free_verb VEhlo = true. Proof. reflexivity. Qed.
Lemma hf_helo : handshake_free_verb VHelo = true. Proof. reflexivity. Qed.
Lemma hf_starttls : handshake_free_verb VStartTLS = true. Proof. reflexivity. Qed.
#[export] Hint Resolve hf_ehlo hf_helo hf_starttls : satdb.

Ltac allowed_of S lem E Hin :=
  let H := fresh "HA" in
  match type of E with
  | run ?m ?w = (_, ?w1) => pose proof (sat_run_inv _ (AllowedInv S) (prim_allowed S) _ m lem w Hin) as H; rewrite E in H; simpl in H
  end.

Ltac T_of E HT :=
  let H := fresh "HT" in
  match type of E with
  | run ?m ?w = (_, ?w1) => pose proof (run_inv _ (prim_T _) _ m w HT) as H; rewrite E in H; simpl in H
  end.

Lemma Tinv_allowed : forall S C w w1, AllowedInv S w -> clear_cmds (w_trace w) = C -> Tinv C w1 -> AllowedInv S w1.
Proof. intros S C w w1 HA HC (_ & _ & HT). unfold AllowedInv in *. rewrite HT, <- HC. exact HA. Qed.

(* mandatory STARTTLS: before the handshake has completed only EHLO / HELO / STARTTLS (/ QUIT) go out in clear *)
Lemma dial_rest_mandatory : forall fuel cfg w r w', c_policy cfg = Mandatory -> c_ssl cfg = false ->
  opened (w_conn w) = true -> AllowedInv handshake_free_verb w ->
  run (dial_rest fuel cfg) w = (r, w') ->
  AllowedInv handshake_free_verb w' /\ (forall u, r = Ok u -> ctls (w_conn w') = true /\ opened (w_conn w') = true).
Proof.
  intros fuel cfg w r w' Hp Hs Ho HA H. unfold dial_rest in H. rewrite run_conntls in H.
  sx H. allowed_of handshake_free_verb (sat_any_new_client handshake_free_verb (ctls (w_conn w))) E HA.
  inv_of prim_opened E. specialize (HI Ho).
  destruct a as [u | e]; [ | simpl in H; inversion H; subst; split; [assumption | intros; discriminate] ].
  sx H. allowed_of handshake_free_verb (sat_any_hello_named handshake_free_verb hf_ehlo hf_helo) E0 HA0.
  inv_of prim_opened E0. specialize (HI0 HI).
  destruct a as [u1 | e].
  2:{ sx H. allowed_of handshake_free_verb (sat_any_close_failed handshake_free_verb cfg) E1 HA1.
      simpl in H; inversion H; subst; split; [assumption | intros; discriminate]. }
  sx H. allowed_of handshake_free_verb (sat_any_tls_step handshake_free_verb cfg hf_ehlo hf_helo hf_starttls) E1 HA1.
  destruct a as [enc | e].
  2:{ sx H. allowed_of handshake_free_verb (sat_any_close_failed handshake_free_verb cfg) E2 HA2.
      simpl in H; inversion H; subst; split; [assumption | intros; discriminate]. }
  destruct (tls_step_mandatory_tls _ _ _ _ Hp Hs HI0 E1) as [Tl Op].
  assert (HT : Tinv (clear_cmds (w_trace w2)) w2) by (repeat split; auto).
  sx H. T_of E2 HT.
  destruct a as [u2 | e].
  - simpl in H. inversion H; subst. split; [ eapply Tinv_allowed; eauto | intros; destruct HT0 as (X & Y & _); auto ].
  - sx H. T_of E3 HT0. simpl in H. inversion H; subst. split; [ eapply Tinv_allowed; eauto | intros; discriminate ].
Qed.

Lemma dial_mandatory : forall fuel cfg w r w', c_policy cfg = Mandatory -> c_ssl cfg = false ->
  w_conn w = conn0 -> AllowedInv handshake_free_verb w ->
  run (dial fuel cfg) w = (r, w') ->
  AllowedInv handshake_free_verb w' /\ (forall u, r = Ok u -> ctls (w_conn w') = true /\ opened (w_conn w') = true).
Proof.
  intros fuel cfg w r w' Hp Hs H0 HA H. rewrite dial_unfold in H.
  sx H. pose proof (connect2_spec _ _ _ _ E H0) as Hc. clear E.
  destruct a as [e | ].
  - simpl in H. inversion H; subst. destruct Hc as [_ [Hc _]]. split; [ | intros; discriminate ].
    unfold AllowedInv in *. rewrite Hc. exact HA.
  - destruct Hc as (Ho & _ & _ & _ & Ht & _).
    assert (HA0 : AllowedInv handshake_free_verb w0) by (unfold AllowedInv in *; rewrite Ht; exact HA).
    sx H. allowed_of handshake_free_verb (sat_any_arm_opt handshake_free_verb cfg) E HA0.
    pose proof (arm_opt_opened cfg w0 Ho) as Ho1. rewrite E in Ho1. simpl in Ho1.
    eapply dial_rest_mandatory; eauto.
Qed.

(* implicit TLS: nothing at all in clear *)
Lemma dial_implicit : forall fuel cfg w r w', c_ssl cfg = true -> w_conn w = conn0 ->
  run (dial fuel cfg) w = (r, w') ->
  clear_cmds (w_trace w') = clear_cmds (w_trace w) /\ (forall u, r = Ok u -> Tinv (clear_cmds (w_trace w)) w').
Proof.
  intros fuel cfg w r w' Hs H0 H. rewrite dial_unfold in H.
  sx H. pose proof (connect2_spec _ _ _ _ E H0) as Hc. clear E.
  destruct a as [e | ].
  - simpl in H. inversion H; subst. destruct Hc as [_ [Hc _]]. rewrite Hc. split; [reflexivity | intros; discriminate].
  - destruct Hc as (Ho & _ & _ & Htl & Ht & _). rewrite Hs in Htl.
    assert (HT : Tinv (clear_cmds (w_trace w)) w0) by (repeat split; auto; congruence).
    match type of H with run ?m w0 = _ => pose proof (run_inv _ (prim_T _) _ m w0 HT) as HT2 end.
    rewrite H in HT2. simpl in HT2. split; [ apply HT2 | intros; exact HT2 ].
Qed.

Lemma dial_and_send_implicit : forall fuel cfg msgs w, c_ssl cfg = true -> w_conn w = conn0 ->
  clear_cmds (w_trace (snd (run (dial_and_send fuel cfg msgs) w))) = clear_cmds (w_trace w).
Proof.
  intros fuel cfg msgs w Hs H0. unfold dial_and_send. rewrite run_bind.
  destruct (run (dial fuel cfg) w) as [d w1] eqn:E.
  destruct (dial_implicit _ _ _ _ _ Hs H0 E) as [A B].
  destruct d as [u | e]; [ | simpl; exact A ].
  match goal with |- clear_cmds (w_trace (snd (run ?m w1))) = _ => pose proof (run_inv _ (prim_T _) _ m w1 (B u eq_refl)) as HT end.
  apply HT.
Qed.

Lemma dial_and_send_mandatory : forall fuel cfg msgs w, c_policy cfg = Mandatory -> c_ssl cfg = false ->
  w_conn w = conn0 -> AllowedInv handshake_free_verb w ->
  AllowedInv handshake_free_verb (snd (run (dial_and_send fuel cfg msgs) w)).
Proof.
  intros fuel cfg msgs w Hp Hs H0 HA. unfold dial_and_send. rewrite run_bind.
  destruct (run (dial fuel cfg) w) as [d w1] eqn:E.
  destruct (dial_mandatory _ _ _ _ _ Hp Hs H0 HA E) as [A B].
  destruct d as [u | e]; [ | simpl; exact A ].
  destruct (B u eq_refl) as [Tl Op].
  assert (HT : Tinv (clear_cmds (w_trace w1)) w1) by (repeat split; auto).
  match goal with |- AllowedInv _ (snd (run ?m w1)) => pose proof (run_inv _ (prim_T _) _ m w1 HT) as HT2 end.
  eapply Tinv_allowed; eauto.
Qed.

(* auto-discovery: on an unencrypted connection the chosen mechanism comes from the unencrypted preference list,
   which (T1, re-read from client.go) contains neither PLAIN nor LOGIN *)
Definition password_mech (t : bytes) : bool :=
  bytes_eqb t Gen.smtp_auth_plain || bytes_eqb t Gen.smtp_auth_login ||
  bytes_eqb t Gen.smtp_auth_plain_noenc || bytes_eqb t Gen.smtp_auth_login_noenc.

Lemma unenc_list_safe : forallb (fun t => negb (password_mech t)) Gen.auth_prefer_unencrypted = true.
Proof. vm_compute. reflexivity. Qed.

Lemma auto_discover_in : forall supported enc t, auto_discover supported enc = Some t ->
  In t (if enc then Gen.auth_prefer_encrypted else Gen.auth_prefer_unencrypted) /\
  existsb (bytes_eqb t) (split_on 32 supported) = true.
Proof.
  intros supported enc t H. unfold auto_discover in H. destruct supported; [discriminate|].
  apply find_some in H. exact H.
Qed.

Lemma auto_discover_unenc : forall supported t, auto_discover supported false = Some t -> password_mech t = false.
Proof.
  intros supported t H. apply auto_discover_in in H. destruct H as [Hin _].
  pose proof unenc_list_safe as Hs. rewrite forallb_forall in Hs. specialize (Hs t Hin).
  apply negb_true_iff in Hs. exact Hs.
Qed.

(* ------------------------------------------------------------------------------------------------ *)
(* the statements used by props/C19.v, C17.v, C07.v *)

Definition is_ok {A : Type} (r : res A) : bool := match r with Ok _ => true | Err _ => false end.

Lemma C19_dial_error_closed_l : forall fuel cfg (s : srv) r w',
  fx_close cfg = true ->
  run (dial fuel cfg) (world0 s) = (r, w') ->
  is_ok r = false ->
  opened (w_conn w') = true ->
  copen (w_conn w') = false.
Proof.
  intros fuel cfg s r w' Hf H Hr Ho.
  pose proof (dial_closed fuel cfg (world0 s) r w' Hf eq_refl (conj eq_refl eq_refl) H) as X.
  destruct r; [discriminate | auto].
Qed.

Lemma C19_dial_and_send_closed_l : forall fuel cfg msgs (s : srv) r ph w',
  fx_close cfg = true -> fx_quit cfg = true ->
  run (dial_and_send fuel cfg msgs) (world0 s) = (r, ph, w') ->
  (opened (w_conn w') = true -> copen (w_conn w') = false) /\
  (is_ok r = true -> last_cmd (w_trace w') = Some VQuit).
Proof.
  intros fuel cfg msgs s r ph w' Hc Hq H.
  destruct (dial_and_send_closed fuel cfg msgs (world0 s) r ph w' Hc Hq eq_refl (conj eq_refl eq_refl) H) as [A B].
  split; [exact A | ]. destruct r as [u | e]; [ intros _; apply (B u eq_refl) | discriminate ].
Qed.

Lemma C17_dial_no_hang_l : forall fuel cfg (s : srv), fx_arm cfg = true ->
  outcome_of (run (dial fuel cfg) (world0 s)) <> Hang.
Proof.
  intros fuel cfg s Hf. unfold outcome_of.
  destruct (run (dial fuel cfg) (world0 s)) as [r w'] eqn:E.
  destruct (dial_J fuel cfg (world0 s) r w' Hf eq_refl eq_refl eq_refl (conj eq_refl eq_refl) E) as [A _]. simpl. rewrite A. discriminate.
Qed.

Lemma C17_dial_and_send_no_hang_l : forall fuel cfg msgs (s : srv), fx_arm cfg = true ->
  outcome_of (run (dial_and_send fuel cfg msgs) (world0 s)) <> Hang.
Proof.
  intros. unfold outcome_of. rewrite (dial_and_send_no_hang fuel cfg msgs (world0 s) H eq_refl eq_refl eq_refl (conj eq_refl eq_refl)). discriminate.
Qed.

Lemma C17_session_no_hang_l : forall fuel cfg msgs (s : srv), fx_arm cfg = true ->
  outcome_of (run (session fuel cfg msgs) (world0 s)) <> Hang.
Proof.
  intros. unfold outcome_of. rewrite (session_no_hang fuel cfg msgs (world0 s) H eq_refl eq_refl eq_refl (conj eq_refl eq_refl)). discriminate.
Qed.

Lemma C17_send_no_hang_l : forall cfg msgs w, fx_arm cfg = true ->
  opened (w_conn w) = true -> hung (w_conn w) = false -> PipeOk w ->
  outcome_of (run (send_batch cfg msgs) w) <> Hang.
Proof. intros. unfold outcome_of. rewrite send_batch_no_hang; auto. discriminate. Qed.

Lemma C17_reset_no_hang_l : forall cfg w, fx_arm cfg = true ->
  opened (w_conn w) = true -> hung (w_conn w) = false -> PipeOk w ->
  outcome_of (run (reset_client cfg) w) <> Hang.
Proof. intros. unfold outcome_of. rewrite reset_client_no_hang; auto. discriminate. Qed.

Lemma C17_close_no_hang_l : forall cfg w, fx_arm cfg = true ->
  opened (w_conn w) = true -> hung (w_conn w) = false -> PipeOk w ->
  outcome_of (run (close_client cfg) w) <> Hang.
Proof. intros. unfold outcome_of. rewrite close_client_no_hang; auto. discriminate. Qed.

Lemma C07_mandatory_l : forall fuel cfg (s : srv) v,
  c_policy cfg = Mandatory -> c_ssl cfg = false ->
  In v (clear_cmds (w_trace (snd (run (dial fuel cfg) (world0 s))))) -> handshake_free_verb v = true.
Proof.
  intros fuel cfg s v Hp Hs Hin.
  destruct (run (dial fuel cfg) (world0 s)) as [r w'] eqn:E.
  assert (HA : AllowedInv handshake_free_verb (world0 s)) by (intros x Hx; simpl in Hx; contradiction).
  destruct (dial_mandatory fuel cfg (world0 s) r w' Hp Hs eq_refl HA E) as [A _]. apply A. exact Hin.
Qed.

Lemma C07_mandatory_send_l : forall fuel cfg msgs (s : srv) v,
  c_policy cfg = Mandatory -> c_ssl cfg = false ->
  In v (clear_cmds (w_trace (snd (run (dial_and_send fuel cfg msgs) (world0 s))))) -> handshake_free_verb v = true.
Proof.
  intros fuel cfg msgs s v Hp Hs Hin.
  assert (HA : AllowedInv handshake_free_verb (world0 s)) by (intros x Hx; simpl in Hx; contradiction).
  exact (dial_and_send_mandatory fuel cfg msgs (world0 s) Hp Hs eq_refl HA v Hin).
Qed.

Lemma C07_mandatory_ok_tls_l : forall fuel cfg (s : srv) u w',
  c_policy cfg = Mandatory -> c_ssl cfg = false ->
  run (dial fuel cfg) (world0 s) = (Ok u, w') -> ctls (w_conn w') = true.
Proof.
  intros fuel cfg s u w' Hp Hs E.
  assert (HA : AllowedInv handshake_free_verb (world0 s)) by (intros x Hx; simpl in Hx; contradiction).
  destruct (dial_mandatory fuel cfg (world0 s) _ w' Hp Hs eq_refl HA E) as [_ B]. apply (B u eq_refl).
Qed.

Lemma C07_implicit_l : forall fuel cfg msgs (s : srv), c_ssl cfg = true ->
  clear_cmds (w_trace (snd (run (dial fuel cfg) (world0 s)))) = [] /\
  clear_cmds (w_trace (snd (run (dial_and_send fuel cfg msgs) (world0 s)))) = [].
Proof.
  intros fuel cfg msgs s Hs. split.
  - destruct (run (dial fuel cfg) (world0 s)) as [r w'] eqn:E.
    destruct (dial_implicit fuel cfg (world0 s) r w' Hs eq_refl E) as [A _]. exact A.
  - exact (dial_and_send_implicit fuel cfg msgs (world0 s) Hs eq_refl).
Qed.

Lemma C07_autodiscover_l : forall supported t,
  auto_discover supported false = Some t ->
  bytes_eqb t Gen.smtp_auth_plain = false /\ bytes_eqb t Gen.smtp_auth_login = false /\
  bytes_eqb t Gen.smtp_auth_plain_noenc = false /\ bytes_eqb t Gen.smtp_auth_login_noenc = false.
Proof.
  intros supported t H. apply auto_discover_unenc in H. unfold password_mech in H.
  repeat (apply orb_false_iff in H; destruct H as [H ?]). auto.
Qed.

(* ------------------------------------------------------------------------------------------------ *)
(* C07: password confinement — mechanism level, and the complete finite configuration table (T2) *)

Definition noenc_type (t : bytes) : bool :=
  bytes_eqb t Gen.smtp_auth_plain_noenc || bytes_eqb t Gen.smtp_auth_login_noenc.

(* the built-in mechanisms that carry the password refuse to start without TLS on a non-localhost server *)
Lemma password_mechs_refuse : forall a,
  a = plain_impl false \/ a = login_impl false -> a_start a false false = SErr EUnenc.
Proof. intros a [H | H]; subst; reflexivity. Qed.

Definition never_pass (a : auth_impl) : Prop :=
  (forall tl lh m ir, a_start a tl lh = SOk m ir -> ir <> Some TPass) /\ (forall k more empty, a_next a k more empty <> NResp TPass).

Lemma other_mechs_never_pass : forall a,
  a = cram_impl \/ a = xoauth2_impl \/ (exists n, a = scram_impl n) -> never_pass a.
Proof.
  intros a [H | [H | [n H]]]; subst; split; simpl; intros;
    try (inversion H; subst; discriminate); try (destruct more; try destruct empty; try destruct k; discriminate).
Qed.

(* the preference lists of auto-discovery never name a *-NOENC type *)
Lemma prefer_lists_no_noenc :
  forallb (fun t => negb (noenc_type t)) Gen.auth_prefer_encrypted = true /\
  forallb (fun t => negb (noenc_type t)) Gen.auth_prefer_unencrypted = true.
Proof. split; vm_compute; reflexivity. Qed.


Lemma C17_quick_send_no_hang_l : forall fuel with_auth host fxc fxq fxs nrcpt (s : srv),
  outcome_of (run (quick_send fuel with_auth host fxc fxq true fxs nrcpt) (world0 s)) <> Hang.
Proof. intros. unfold quick_send. apply C17_dial_and_send_no_hang_l. reflexivity. Qed.

Lemma C17_session2_no_hang_l : forall fuel cfg msgs (s : srv), fx_arm cfg = true ->
  outcome_of (run (session2 fuel cfg msgs) (world0 s)) <> Hang.
Proof.
  intros. unfold outcome_of. rewrite (session2_no_hang fuel cfg msgs (world0 s) H eq_refl eq_refl eq_refl (conj eq_refl eq_refl)). discriminate.
Qed.
