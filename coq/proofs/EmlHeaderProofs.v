(* C10 — stage S2: textproto.ReadMIMEHeader (EmlFront.fields_of_block) inverts the header blocks
   the writer produces: folded fields (msgWriter.writeHeader), unfolded part header lines
   (multipart.CreatePart) and the multipart Content-Type announcement. *)
From Coq Require Import String ZArith.
From Verif Require Import Bytes Base64 LineBreaker QP HeaderFold WordEnc Writer MimeTree Render.
From Verif Require Import Eml EmlFront EmlRoundtrip.
From VerifGen Require Import Gen.
From VerifProofs Require Import WordEncProofs HeaderSafeProofs HeaderFoldProofs EmlFrontProofs.
From Coq Require Import Lia.

(* ---------- lines ---------- *)
Definition nl_free (b : N) : bool := negb (N.eqb b 13) && negb (N.eqb b 10).
Definition nlfree (l : bytes) : Prop := forallb nl_free l = true.

Lemma block_lines_line : forall l rest cur, nlfree l ->
  block_lines cur (l ++ crlf ++ rest) =
  match block_lines [] rest with Some ls => Some ((rev cur ++ l) :: ls) | None => None end.
Proof.
  induction l as [|b l IH]; intros rest cur H.
  - cbn. destruct (block_lines [] rest); [now rewrite app_nil_r|reflexivity].
  - unfold nlfree in H. cbn [forallb] in H. apply andb_true_iff in H. destruct H as [Hb Hl].
    unfold nl_free in Hb. apply andb_true_iff in Hb. destruct Hb as [H13 H10].
    apply negb_true_iff in H13, H10.
    cbn [app block_lines]. rewrite H13, H10. rewrite (IH rest (b :: cur) Hl).
    cbn [rev]. destruct (block_lines [] rest); [now rewrite <- app_assoc|reflexivity].
Qed.

(* a text made of the lines [ls], each terminated by CRLF *)
Definition lines_text (ls : list bytes) : bytes := flat_map (fun l => l ++ crlf) ls.

Lemma block_lines_text : forall ls rest, Forall nlfree ls ->
  block_lines [] (lines_text ls ++ rest) =
  match block_lines [] rest with Some r => Some (ls ++ r) | None => None end.
Proof.
  induction ls as [|l ls IH]; intros rest H; cbn [lines_text flat_map app].
  - now destruct (block_lines [] rest).
  - inversion H; subst. rewrite <- !app_assoc. rewrite block_lines_line by assumption.
    fold (lines_text ls). rewrite IH by assumption. cbn [rev app]. now destruct (block_lines [] rest).
Qed.

(* ---------- trimming ---------- *)
Definition hd_ok (l : bytes) : bool := match l with c :: _ => negb (is_sptab c) | [] => false end.
Definition last_ok (l : bytes) : bool := match rev l with c :: _ => negb (is_sptab c) | [] => false end.

Lemma trim_left_hd_ok : forall l, hd_ok l = true -> trim_left l = l.
Proof. intros [|c t] H; [discriminate|]. cbn in *. apply negb_true_iff in H. now rewrite H. Qed.

Lemma last_ok_cons : forall b t, t <> [] -> last_ok (b :: t) = last_ok t.
Proof.
  intros b t Hne. unfold last_ok. cbn [rev]. destruct (rev t) eqn:E.
  - apply (f_equal (@rev N)) in E. rewrite rev_involutive in E. cbn in E. congruence.
  - reflexivity.
Qed.

Lemma trim_right_last_ok : forall l, last_ok l = true -> trim_right l = l.
Proof.
  induction l as [|b t IH]; intros H; [reflexivity|].
  destruct t as [|c t'].
  - unfold last_ok in H. cbn in H. apply negb_true_iff in H. cbn. now rewrite H.
  - rewrite last_ok_cons in H by discriminate. specialize (IH H).
    cbn [trim_right] in *. rewrite IH. reflexivity.
Qed.

Lemma last_ok_app : forall a b, b <> [] -> last_ok (a ++ b) = last_ok b.
Proof.
  intros a b Hne. unfold last_ok. rewrite rev_app_distr. destruct (rev b) eqn:E; [|reflexivity].
  apply (f_equal (@rev N)) in E. rewrite rev_involutive in E. cbn in E. congruence.
Qed.

Lemma trim_tight : forall l, hd_ok l = true -> last_ok l = true -> trim l = l.
Proof. intros l H1 H2. unfold trim. rewrite trim_left_hd_ok by assumption. now apply trim_right_last_ok. Qed.

(* a continuation line: one blank, then a tight text *)
Definition cont_ok (l : bytes) : bool :=
  match l with 32%N :: x => hd_ok x && last_ok x | _ => false end.

Lemma trim_cont : forall l, cont_ok l = true -> 32%N :: trim l = l /\ hd_ok l = false.
Proof.
  intros [|c x] H; [discriminate|]. cbn [cont_ok] in H.
  destruct (N.eqb_spec c 32) as [->|Hc].
  - apply andb_true_iff in H. destruct H as [H1 H2]. split; [|reflexivity].
    unfold trim. cbn [trim_left is_sptab N.eqb orb]. change (is_sptab 32) with true. cbv iota.
    fold (trim x). now rewrite trim_tight.
  - exfalso. destruct c as [|p]; [discriminate|].
    repeat (destruct p as [p|p|]; try discriminate). now apply Hc.
Qed.

(* ---------- logical lines ---------- *)
Lemma logical_conts : forall conts L cur acc,
  Forall (fun l => cont_ok l = true) conts ->
  logical_lines (conts ++ L) (cur :: acc) = logical_lines L ((cur ++ concat conts) :: acc).
Proof.
  induction conts as [|c conts IH]; intros L cur acc H; cbn [app concat].
  - now rewrite app_nil_r.
  - inversion H as [|? ? Hc Hr]; subst. destruct (trim_cont c Hc) as (Ht & _).
    destruct c as [|b c']; [discriminate|]. cbn [logical_lines].
    assert (Hb : is_sptab b = true).
    { cbn [cont_ok] in Hc. destruct (N.eqb_spec b 32) as [->|Hn]; [reflexivity|].
      exfalso. destruct b as [|p]; [discriminate|]. repeat (destruct p as [p|p|]; try discriminate). now apply Hn. }
    rewrite Hb. rewrite (IH L _ acc Hr). rewrite Ht. now rewrite <- app_assoc.
Qed.

Lemma logical_field : forall l0 conts L acc,
  hd_ok l0 = true -> last_ok l0 = true -> Forall (fun l => cont_ok l = true) conts ->
  logical_lines ((l0 :: conts) ++ L) acc = logical_lines L (concat (l0 :: conts) :: acc).
Proof.
  intros l0 conts L acc H1 H2 Hc. cbn [app logical_lines].
  destruct l0 as [|b t]; [discriminate|]. cbn [hd_ok] in H1. apply negb_true_iff in H1. rewrite H1.
  rewrite trim_tight by (cbn; now rewrite ?H1, ?H2).
  rewrite (logical_conts conts L _ acc Hc). reflexivity.
Qed.

(* ---------- one field ---------- *)
Definition key_ok (k : bytes) : bool := negb (is_empty k) && forallb key_char k.

Lemma cut_colon_key : forall k r, forallb key_char k = true -> cut_colon (k ++ 58%N :: r) = Some (k, r).
Proof.
  induction k as [|b k IH]; intros r H; cbn [app cut_colon].
  - reflexivity.
  - cbn [forallb] in H. apply andb_true_iff in H. destruct H as [Hb Hk].
    unfold key_char in Hb. apply andb_true_iff in Hb. destruct Hb as [_ Hb]. apply negb_true_iff in Hb.
    rewrite Hb, (IH r Hk). reflexivity.
Qed.

Lemma field_of_line_kv : forall k v, key_ok k = true -> hd_ok v = true ->
  field_of_line (k ++ bs ": " ++ v) = Some (canon k, v).
Proof.
  intros k v Hk Hv. unfold key_ok in Hk. apply andb_true_iff in Hk. destruct Hk as [Hne Hkc].
  unfold field_of_line. change (k ++ bs ": " ++ v) with (k ++ 58%N :: (32%N :: v)).
  rewrite (cut_colon_key k _ Hkc). rewrite Hkc, Hne. cbn [andb].
  cbn [trim_left]. change (is_sptab 32) with true. cbv iota. now rewrite trim_left_hd_ok.
Qed.

(* a field text: its physical lines, what they become *)
Record ftext (T : bytes) (k v : bytes) : Prop := mkft {
  ft_lines : list bytes;
  ft_text : T = lines_text ft_lines;
  ft_nl : Forall nlfree ft_lines;
  ft_logical : forall L acc, logical_lines (ft_lines ++ L) acc = logical_lines L ((k ++ bs ": " ++ v) :: acc);
  ft_key : key_ok k = true;
  ft_val : hd_ok v = true
}.

(* a header block that is a sequence of field texts reads as the sequence of its fields *)
Inductive fblock : bytes -> hdr -> Prop :=
| fb_nil : fblock [] []
| fb_cons : forall T k v R fs, ftext T k v -> fblock R fs -> fblock (T ++ R) ((canon k, v) :: fs).

Lemma fblock_app : forall A fa B fb, fblock A fa -> fblock B fb -> fblock (A ++ B) (fa ++ fb).
Proof.
  intros A fa B fb HA HB. induction HA; cbn [app]; [assumption|].
  rewrite <- app_assoc. now constructor.
Qed.

Lemma fblock_lines : forall T fs, fblock T fs ->
  exists ls lls, block_lines [] T = Some ls /\
    (forall L acc, logical_lines (ls ++ L) acc = logical_lines L (rev lls ++ acc)) /\
    map field_of_line lls = map Some fs.
Proof.
  intros T fs H. induction H as [|T k v R fs [ls Et Hnl Hlog Hk Hv] HR IH].
  - exists [], []. repeat split; reflexivity.
  - destruct IH as (lsR & llsR & HbR & HlR & HfR).
    exists (ls ++ lsR), ((k ++ bs ": " ++ v) :: llsR). repeat split.
    + rewrite Et, block_lines_text by assumption. now rewrite HbR.
    + intros L acc. rewrite <- app_assoc, Hlog, HlR. cbn [rev]. now rewrite <- app_assoc.
    + cbn [map]. rewrite field_of_line_kv by assumption. now rewrite HfR.
Qed.

Lemma sequence_o_some : forall A (l : list A), sequence_o (map Some l) = Some l.
Proof. induction l as [|x l IH]; cbn; [reflexivity|now rewrite IH]. Qed.

Theorem fields_of_fblock : forall T fs, fblock T fs -> fields_of_block T = Some fs.
Proof.
  intros T fs H. destruct (fblock_lines T fs H) as (ls & lls & Hb & Hl & Hf).
  unfold fields_of_block, fields_of_lines. rewrite Hb.
  specialize (Hl [] []). rewrite !app_nil_r in Hl. rewrite Hl. cbn [logical_lines].
  rewrite rev_involutive, Hf. apply sequence_o_some.
Qed.

(* ---------- instances ---------- *)
Lemma key_hd_ok : forall k r, key_ok k = true -> hd_ok (k ++ r) = true.
Proof.
  intros [|b k] r H; [discriminate|]. unfold key_ok in H. cbn [is_empty negb andb forallb] in H.
  apply andb_true_iff in H. destruct H as [Hb _]. unfold key_char in Hb.
  cbn [app hd_ok]. unfold is_sptab.
  destruct (N.eqb_spec b 32) as [->|_]; [discriminate|]. destruct (N.eqb_spec b 9) as [->|_]; [discriminate|reflexivity].
Qed.

(* an unfolded line "k: v CRLF" (multipart.CreatePart) *)
Lemma ftext_plain : forall k v,
  key_ok k = true -> hd_ok v = true -> last_ok v = true -> nlfree k -> nlfree v ->
  ftext (k ++ bs ": " ++ v ++ crlf) k v.
Proof.
  intros k v Hk Hh Hl Hnk Hnv.
  apply (mkft _ k v [k ++ bs ": " ++ v]); try assumption.
  - cbn [lines_text flat_map]. now rewrite app_nil_r, <- !app_assoc.
  - constructor; [|constructor]. unfold nlfree in *. rewrite !forallb_app, Hnk, Hnv. reflexivity.
  - intros L acc. etransitivity.
    + apply (logical_field (k ++ bs ": " ++ v) [] L acc); [now apply key_hd_ok| |constructor].
      rewrite app_assoc, last_ok_app; [assumption|]. intros ->. discriminate.
    + cbn [concat]. now rewrite app_nil_r.
Qed.

(* words of a good value *)
Lemma good_word_facts : forall w, good_word w = true ->
  hd_ok w = true /\ last_ok w = true /\ nlfree w /\ w <> [].
Proof.
  intros w H. unfold good_word in H. apply andb_true_iff in H. destruct H as [Hne Hw].
  assert (Hb : forall b, In b w -> is_sptab b = false /\ nl_free b = true).
  { intros b Hb. rewrite forallb_forall in Hw. specialize (Hw b Hb). unfold word_byte in Hw.
    apply andb_true_iff in Hw. destruct Hw as [H1 H2]. apply N.leb_le in H1, H2.
    unfold is_sptab, nl_free. split.
    - destruct (N.eqb_spec b 32); [lia|]. destruct (N.eqb_spec b 9); [lia|reflexivity].
    - destruct (N.eqb_spec b 13); [lia|]. destruct (N.eqb_spec b 10); [lia|reflexivity]. }
  destruct w as [|c t]; [discriminate|]. repeat split.
  - cbn. destruct (Hb c (or_introl eq_refl)) as [E _]. now rewrite E.
  - unfold last_ok. destruct (rev (c :: t)) as [|x r] eqn:E.
    + apply (f_equal (@rev N)) in E. rewrite rev_involutive in E. discriminate.
    + assert (Hin : In x (c :: t)) by (apply in_rev; rewrite E; now left).
      destruct (Hb x Hin) as [E' _]. now rewrite E'.
  - unfold nlfree. apply forallb_forall. intros b Hin. now destruct (Hb b Hin).
  - discriminate.
Qed.

(* the shape of the lines the word loop produces *)
Definition tight (l : bytes) : Prop := hd_ok l = true /\ last_ok l = true.

Lemma wh_lines_conts : forall words cur cl,
  Forall (fun w => good_word w = true) words -> cont_ok cur = true ->
  Forall (fun l => cont_ok l = true) (wh_lines cur cl words).
Proof.
  induction words as [|w rest IH]; intros cur cl Hw Hc; cbn [wh_lines]; [now repeat constructor|].
  inversion Hw as [|? ? Hw1 Hr]; subst. destruct (good_word_facts w Hw1) as (Hh & Hl & _ & Hne).
  destruct (cl - zlen w <=? 1)%Z.
  - constructor; [assumption|]. apply IH; [assumption|]. cbn [cont_ok]. now rewrite Hh, Hl.
  - apply IH; [assumption|]. destruct cur as [|c x]; [discriminate|]. cbn [cont_ok] in Hc.
    destruct (N.eqb_spec c 32) as [->|Hn].
    + apply andb_true_iff in Hc. destruct Hc as [Hx _]. cbn [app cont_ok].
      destruct x as [|x0 x']; [discriminate|]. cbn [app hd_ok] in *. rewrite Hx. cbn [andb].
      replace (x0 :: x' ++ 32%N :: w) with (((x0 :: x') ++ [32%N]) ++ w) by (now rewrite <- app_assoc).
      now rewrite last_ok_app.
    + exfalso. destruct c as [|p]; [discriminate|]. repeat (destruct p as [p|p|]; try discriminate). now apply Hn.
Qed.

Lemma wh_lines_first : forall words cur cl,
  Forall (fun w => good_word w = true) words -> tight cur ->
  exists L0 rest, wh_lines cur cl words = L0 :: rest /\ tight L0 /\ Forall (fun l => cont_ok l = true) rest.
Proof.
  induction words as [|w rest IH]; intros cur cl Hw Hc; cbn [wh_lines].
  - exists cur, []. repeat split; try apply Hc. constructor.
  - inversion Hw as [|? ? Hw1 Hr]; subst. destruct (good_word_facts w Hw1) as (Hh & Hl & _ & Hne).
    destruct (cl - zlen w <=? 1)%Z.
    + exists cur, (wh_lines (32%N :: w) (max_header - 3 - 1 - zlen w)%Z rest). repeat split; try apply Hc.
      apply wh_lines_conts; [assumption|]. cbn [cont_ok]. now rewrite Hh, Hl.
    + apply IH; [assumption|]. destruct Hc as [H1 H2]. split.
      * destruct cur; [discriminate|]. exact H1.
      * change (cur ++ 32%N :: w) with (cur ++ ([32%N] ++ w)). rewrite app_assoc. now rewrite last_ok_app.
Qed.

Lemma join_lines_text : forall ls, ls <> [] -> join crlf ls ++ crlf = lines_text ls.
Proof.
  induction ls as [|l ls IH]; intros H; [congruence|]. destruct ls as [|l2 r].
  - cbn. now rewrite app_nil_r.
  - rewrite join_cons_ne by discriminate.
    change (lines_text (l :: l2 :: r)) with ((l ++ crlf) ++ lines_text (l2 :: r)).
    rewrite <- IH by discriminate. now rewrite <- !app_assoc.
Qed.

Lemma good_value_hd : forall v, good_value v = true -> hd_ok v = true.
Proof.
  intros [|c t] H; [discriminate|]. unfold good_value in H. cbn [split_on] in H.
  destruct (N.eqb_spec c 32) as [->|Hc].
  - cbn in H. discriminate.
  - destruct (split_on 32 t) as [|w ws] eqn:E.
    + cbn in H. apply andb_true_iff in H. destruct H as [H _]. unfold good_word in H. cbn in H.
      apply andb_true_iff in H. destruct H as [H _]. unfold word_byte in H.
      cbn. unfold is_sptab. destruct (N.eqb_spec c 32); [contradiction|].
      destruct (N.eqb_spec c 9) as [->|]; [discriminate|reflexivity].
    + cbn [forallb] in H. apply andb_true_iff in H. destruct H as [H _].
      destruct (good_word_facts _ H) as (Hh & _). exact Hh.
Qed.

Lemma key_ok_nlfree : forall k, key_ok k = true -> nlfree (k ++ [58%N]) /\ forallb hdr_safe_byte k = true /\ tight (k ++ [58%N]).
Proof.
  intros k H. pose proof (key_hd_ok k [58%N] H) as Hh.
  unfold key_ok in H. apply andb_true_iff in H. destruct H as [_ H].
  assert (Hb : forall b, In b k -> nl_free b = true /\ hdr_safe_byte b = true).
  { intros b Hin. rewrite forallb_forall in H. specialize (H b Hin). unfold key_char in H.
    apply andb_true_iff in H. destruct H as [H _]. apply andb_true_iff in H. destruct H as [H1 H2].
    apply N.leb_le in H1, H2. unfold nl_free, hdr_safe_byte. split.
    - destruct (N.eqb_spec b 13); [lia|]. destruct (N.eqb_spec b 10); [lia|reflexivity].
    - apply orb_true_iff. left. apply andb_true_iff. split; apply N.leb_le; lia. }
  repeat split.
  - unfold nlfree. rewrite forallb_app. cbn. rewrite andb_true_r. apply forallb_forall. intros b Hin. now destruct (Hb b Hin).
  - apply forallb_forall. intros b Hin. now destruct (Hb b Hin).
  - exact Hh.
  - rewrite last_ok_app by discriminate. reflexivity.
Qed.

Lemma forallb_join_parts : forall (P : N -> bool) sep l, forallb P (join sep l) = true -> Forall (fun v => forallb P v = true) l.
Proof.
  intros P sep. induction l as [|x r IH]; intros H; [constructor|]. destruct r as [|y r'].
  - cbn in H. now repeat constructor.
  - rewrite join_cons_ne in H by discriminate. rewrite !forallb_app in H.
    apply andb_true_iff in H. destruct H as [Hx H]. apply andb_true_iff in H. destruct H as [_ H].
    constructor; [assumption|now apply IH].
Qed.

Lemma good_value_safe : forall v, good_value v = true -> forallb hdr_safe_byte v = true.
Proof.
  intros v H. rewrite <- (join_split v). unfold good_value in H.
  induction (split_on 32 v) as [|w ws IH]; [reflexivity|]. cbn [forallb] in H. apply andb_true_iff in H. destruct H as [Hw Hws].
  assert (Sw : forallb hdr_safe_byte w = true).
  { unfold good_word in Hw. apply andb_true_iff in Hw. destruct Hw as [_ Hw]. apply forallb_forall. intros b Hin.
    rewrite forallb_forall in Hw. specialize (Hw b Hin). unfold word_byte in Hw. apply andb_true_iff in Hw. destruct Hw as [H1 H2].
    apply N.leb_le in H1, H2. unfold hdr_safe_byte. apply orb_true_iff. left. apply andb_true_iff. split; apply N.leb_le; lia. }
  destruct ws as [|w2 r]; [exact Sw|]. rewrite join_cons_ne by discriminate.
  rewrite !forallb_app, Sw. cbn [forallb andb]. now apply IH.
Qed.

(* a folded field (msgWriter.writeHeader) *)
Lemma ftext_hline : forall k vs,
  key_ok k = true -> vs <> [] -> good_value (join (bs ", ") vs) = true ->
  ftext (hline k vs) k (join (bs ", ") vs).
Proof.
  intros k vs Hk Hne Hv.
  destruct (key_ok_nlfree k Hk) as (Hnk & Hsk & Htk).
  pose proof (good_value_safe _ Hv) as Hsv.
  pose proof (forallb_join_parts hdr_safe_byte (bs ", ") vs Hsv) as Hsvs.
  assert (Hw : Forall (fun w => good_word w = true) (wh_words_of vs)).
  { unfold wh_words_of. unfold good_value in Hv. apply Forall_forall. intros w Hin. rewrite forallb_forall in Hv. auto. }
  destruct (wh_lines_first (wh_words_of vs) (k ++ [58%N]) (wh_cl0 k) Hw Htk) as (L0 & rest & El & Ht0 & Hc).
  assert (Hnl : Forall nlfree (wh_field_lines k vs)).
  { unfold wh_field_lines. apply (wh_lines_class nl_free eq_refl); [|exact Hnk].
    eapply Forall_impl; [|exact Hw]. intros w Hgw. now destruct (good_word_facts w Hgw) as (_ & _ & H & _). }
  assert (Hh : hline k vs = lines_text (wh_field_lines k vs)).
  { unfold hline, write_header. destruct vs; [congruence|]. cbn [fst].
    rewrite wh_buffer_lines by assumption. apply join_lines_text. apply wh_lines_ne. }
  unfold wh_field_lines in *. rewrite El in *.
  apply (mkft _ k (join (bs ", ") vs) (L0 :: rest)); try assumption.
  - intros L acc. rewrite (logical_field L0 rest L acc) by (assumption || apply Ht0).
    rewrite <- El, concat_wh_lines, flat_sp_join by apply split_on_ne.
    unfold wh_words_of. rewrite join_split. now rewrite <- app_assoc.
  - now apply good_value_hd.
Qed.

(* the multipart announcement startMP writes *)
Lemma token_facts : forall b, is_token b = true -> hd_ok b = true /\ last_ok b = true /\ nlfree b /\ b <> [].
Proof.
  intros b H. apply good_word_facts. unfold is_token in H. apply andb_true_iff in H. destruct H as [Hne Hb].
  unfold good_word. rewrite Hne. cbn [andb]. apply forallb_forall. intros x Hin.
  rewrite forallb_forall in Hb. specialize (Hb x Hin). unfold token_char in Hb.
  apply andb_true_iff in Hb. destruct Hb as [Hb _]. exact Hb.
Qed.

Lemma ftext_mp_hdr : forall mime b, mp_sub mime -> is_token b = true ->
  ftext (mp_hdr mime b) h_ctype (mp_ctype mime b).
Proof.
  intros mime b Hm Hb. destruct (token_facts b Hb) as (Hh & Hl & Hn & Hne).
  apply (mkft _ h_ctype (mp_ctype mime b) [bs "Content-Type: multipart/" ++ mime ++ bs ";"; bs " boundary=" ++ b]).
  - unfold mp_hdr, lines_text. cbn [flat_map]. rewrite app_nil_r, <- !app_assoc. reflexivity.
  - constructor; [|constructor; [|constructor]].
    + destruct Hm as [ -> | [ -> | -> ] ]; reflexivity.
    + unfold nlfree. rewrite forallb_app. now rewrite Hn.
  - intros L acc. etransitivity.
    + apply (logical_field _ [bs " boundary=" ++ b] L acc).
      * reflexivity.
      * destruct Hm as [ -> | [ -> | -> ] ]; reflexivity.
      * constructor; [|constructor].
        change (bs " boundary=" ++ b) with (32%N :: (bs "boundary=" ++ b)). unfold cont_ok.
        rewrite last_ok_app by assumption. rewrite Hl. reflexivity.
    + cbn [concat]. rewrite app_nil_r. unfold mp_ctype. rewrite <- !app_assoc. reflexivity.
  - reflexivity.
  - reflexivity.
Qed.

(* unfolded part header lines: every key has one value *)
Definition kv_plain (kv : bytes * bytes) : Prop :=
  key_ok (fst kv) = true /\ hd_ok (snd kv) = true /\ last_ok (snd kv) = true /\ nlfree (fst kv) /\ nlfree (snd kv).

Lemma fblock_part_lines : forall l, Forall kv_plain l ->
  fblock (flat_map (fun kv => flat_map (fun v => fst kv ++ bs ": " ++ v ++ crlf) [snd kv]) l)
         (map (fun kv => fld (fst kv) (snd kv)) l).
Proof.
  induction l as [|[k v] l IH]; intros H; cbn [flat_map map]; [constructor|].
  inversion H as [|? ? (H1 & H2 & H3 & H4 & H5) Hr]; subst. cbn [fst snd] in *.
  rewrite app_nil_r. unfold fld. apply fb_cons; [now apply ftext_plain|now apply IH].
Qed.
