(* C10: layers 2 and 3 composed — the subject TEXT survives render + parse. *)
From Coq Require Import String.
From Verif Require Import Bytes Base64 LineBreaker QP HeaderFold WordEnc Writer MimeTree MimeRead Render.
From Verif Require Import Eml EmlRender EmlFront EmlRoundtrip EmlWord.
From VerifGen Require Import Gen.
From VerifProofs Require Import RenderProofs MimeReadProofs C01Proofs EmlStructureProofs EmlWordProofs.

Section Subject.
Context (pa pl : bytes -> ares) (pd : bytes -> dres).

Theorem subject_survives : forall d i rb m e s,
  let z := resolve d i rb m in
  in_feature_set m = true -> good_value d = true -> good_value i = true ->
  oracles_ok pa pl pd d m -> boundaries_ok z = true -> fresh_expected z = true ->
  Writer.m_gen m = [(hdr_subject, [word_encode e s])] ->
  (e = 113%N \/ e = 98%N) -> wf_bytes s = true -> (WordEnc.needs_encoding s = true \/ no_eq_q s = true) ->
  exists st v, eml_parse pa pl pd (r_out (write_to d i rb m unlimited)) = Ok st /\
               pj_subject (project_parsed st) = Some v /\ decode_header v = Some s.
Proof.
  intros d i rb m e s z Hfs Hd Hi Ho Hb Hfr Hg He Hwf Hc.
  destruct (parse_render pa pl pd d i rb m Hfs Hd Hi Ho Hb Hfr) as (st & Hp & Hproj & _).
  exists st, (word_encode e s). split; [exact Hp|]. split.
  - rewrite Hproj. unfold project_built, gen_value. cbn [pj_subject]. rewrite Hg. reflexivity.
  - now apply decode_word_encode.
Qed.

End Subject.
