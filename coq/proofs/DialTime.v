(* DialTime.v — C17, the time budget: elapsed time counted in periods of the configured timeout.
   Every SetDeadline (arming point) grants one period; a wait ended by the deadline spends it, and once a deadline has
   passed every later read fails at once.  (1) For every program and every server: periods spent <= arming points
   passed.  (2) The arming points a public call passes are bounded by a constant that does not depend on the number of
   recipients: dial 1 (plus the dial context for the connect), Send 1 + one per message (the connection check after
   each delivered message), Reset 1, Close 1, DialAndSend messages + 4. *)
From Coq Require Import String Lia.
From Verif Require Import Dial.
From VerifGen Require Import Gen.
From VerifProofs Require Import DialProofs.
Open Scope nat_scope.

(* ------------------------------------------------------------------------------------------------ *)
(* spent <= arms, for every program *)

Definition TimeInv (w : world) : Prop :=
  spent (w_clk w) + (if fresh (w_clk w) then 1 else 0) <= arms (w_clk w).

Lemma prim_time : forall B (p : prim B) w, TimeInv w -> TimeInv (snd (run_prim p w)).
Proof.
  intros B p w H. unfold TimeInv in *.
  destruct p; prim_cases; auto; try lia;
    repeat match goal with H : fresh _ = _ |- _ => rewrite H in * end; simpl in *; try lia.
Qed.

Lemma time_budget_spent_l : forall A (m : prog A) w, TimeInv w ->
  spent (w_clk (snd (run m w))) <= arms (w_clk (snd (run m w))).
Proof.
  intros A m w H. pose proof (run_inv _ prim_time _ m w H) as X. unfold TimeInv in X.
  destruct (fresh (w_clk (snd (run m w)))); lia.
Qed.

Lemma world0_time : forall s, TimeInv (world0 s).
Proof. intros s. unfold TimeInv. simpl. lia. Qed.

(* ------------------------------------------------------------------------------------------------ *)
(* arming points passed by a program *)

Definition is_arm {B : Type} (p : prim B) : bool := match p with PArm => true | _ => false end.

Inductive armsle (A : Type) : nat -> prog A -> Prop :=
| al_ret : forall n (a : A), armsle A n (Ret a)
| al_do : forall n B (p : prim B) (k : B -> prog A), is_arm p = false -> (forall b, armsle A n (k b)) -> armsle A n (Do p k)
| al_arm : forall n (k : bool -> prog A), (forall b, armsle A n (k b)) -> armsle A (S n) (Do PArm k).

Lemma armsle_mono : forall A n (m : prog A), armsle A n m -> forall n', n <= n' -> armsle A n' m.
Proof.
  intros A n m H. induction H as [n a | n B p k Hp Hk IH | n k Hk IH]; intros n' Hle.
  - apply al_ret.
  - apply al_do; [exact Hp | intros b; apply IH; exact Hle].
  - destruct n' as [ | n']; [lia | ]. apply al_arm. intros b. apply IH. lia.
Qed.

Lemma armsle_bind : forall A C a b (m : prog A) (f : A -> prog C),
  armsle A a m -> (forall x, armsle C b (f x)) -> armsle C (a + b) (bind m f).
Proof.
  intros A C a b m f Hm Hf. induction Hm as [n x | n B p k Hp Hk IH | n k Hk IH]; simpl.
  - eapply armsle_mono; [apply Hf | lia].
  - apply al_do; [exact Hp | exact IH].
  - apply al_arm. exact IH.
Qed.

Lemma armsle_bind_le : forall A C N a (m : prog A) (f : A -> prog C),
  armsle A a m -> (forall x, armsle C (N - a) (f x)) -> a <= N -> armsle C N (bind m f).
Proof.
  intros A C N a m f Hm Hf Hle. replace N with (a + (N - a)) by lia. apply armsle_bind; assumption.
Qed.

Lemma prim_arms_same : forall B (p : prim B) w, is_arm p = false -> arms (w_clk (snd (run_prim p w))) = arms (w_clk w).
Proof. intros B p w H. destruct p; simpl in H; try discriminate; prim_cases; auto. Qed.

Lemma prim_arms_arm : forall w, arms (w_clk (snd (run_prim PArm w))) <= S (arms (w_clk w)).
Proof. intros w. prim_cases; lia. Qed.

Lemma armsle_run : forall A n (m : prog A), armsle A n m ->
  forall w, arms (w_clk (snd (run m w))) <= arms (w_clk w) + n.
Proof.
  intros A n m H. induction H as [n a | n B p k Hp Hk IH | n k Hk IH]; intros w; simpl.
  - lia.
  - pose proof (prim_arms_same _ p w Hp) as E. destruct (run_prim p w) as [b w1]. simpl in E.
    specialize (IH b w1). lia.
  - pose proof (prim_arms_arm w) as E. destruct (run_prim PArm w) as [b w1]. simpl in E.
    specialize (IH b w1). lia.
Qed.

Create HintDb armdb.

Ltac al_tac :=
  unfold prim1; cbn [bind];
  repeat (match goal with
          | |- armsle _ _ (Ret _) => apply al_ret
          | |- armsle _ (S _) (Do PArm _) => apply al_arm; intro
          | |- armsle _ _ (Do _ _) => apply al_do; [reflexivity | intro]
          | |- armsle _ _ (bind (if ?x then _ else _) _) => destruct x
          | |- armsle _ _ (bind (match ?x with _ => _ end) _) => destruct x
          | |- armsle _ _ (bind (bind _ _) _) => eapply (armsle_bind_le _ _ _ 0); [ | intro | lia ]
          | |- armsle _ _ (bind _ _) => eapply armsle_bind_le; [ solve [eauto with armdb] | intro | simpl; lia ]
          | |- armsle _ _ (if ?x then _ else _) => destruct x
          | |- armsle _ _ (match ?x with _ => _ end) => destruct x
          | |- armsle _ _ _ => solve [eauto with armdb]
          end; cbn [bind Nat.sub]).

Lemma al_cmd : forall e v, armsle _ 0 (cmd e v). Proof. intros. unfold cmd. al_tac. Qed.
#[export] Hint Resolve al_cmd : armdb.
Lemma al_ehlo : armsle _ 0 ehlo. Proof. unfold ehlo. al_tac. Qed.
Lemma al_helo : armsle _ 0 helo. Proof. unfold helo. al_tac. Qed.
#[export] Hint Resolve al_ehlo al_helo : armdb.
Lemma al_hello : armsle _ 0 hello. Proof. unfold hello. al_tac. Qed.
#[export] Hint Resolve al_hello : armdb.
Lemma al_hello_named : armsle _ 0 hello_named. Proof. unfold hello_named. al_tac. Qed.
Lemma al_quit : armsle _ 0 quit. Proof. unfold quit. al_tac. Qed.
Lemma al_extension : forall k, armsle _ 0 (extension k). Proof. intros. unfold extension. al_tac. Qed.
Lemma al_tls_state : armsle _ 0 tls_state. Proof. unfold tls_state. al_tac. Qed.
#[export] Hint Resolve al_hello_named al_quit al_extension al_tls_state : armdb.
Lemma al_start_tls : armsle _ 0 start_tls. Proof. unfold start_tls. al_tac. Qed.
#[export] Hint Resolve al_start_tls : armdb.
Lemma al_tls_step : forall cfg, armsle _ 0 (tls_step cfg). Proof. intros. unfold tls_step. al_tac. Qed.
Lemma al_new_client : forall t, armsle _ 0 (new_client t). Proof. intros. unfold new_client. al_tac. Qed.
Lemma al_close_failed : forall cfg, armsle _ 0 (close_failed cfg). Proof. intros. unfold close_failed. al_tac. Qed.
Lemma al_connect : forall cfg, armsle _ 0 (connect cfg). Proof. intros. unfold connect. al_tac. Qed.
#[export] Hint Resolve al_tls_step al_new_client al_close_failed al_connect : armdb.

Lemma al_auth_loop : forall fuel a mech k rp, armsle _ 0 (auth_loop fuel a mech k rp).
Proof.
  induction fuel as [ | f IH]; intros; cbn [auth_loop]; [ apply al_ret | ].
  destruct (r_code rp =? smtp_auth_code_more)%N; [ destruct (r_tx rp) | destruct (r_code rp =? smtp_auth_code_success)%N ];
    al_tac.
Qed.
#[export] Hint Resolve al_auth_loop : armdb.
Lemma al_auth : forall fuel lh a, armsle _ 0 (auth fuel lh a). Proof. intros. unfold auth. al_tac. Qed.
#[export] Hint Resolve al_auth : armdb.
Lemma al_pick_mech : forall t param, armsle _ 0 (pick_mech t param). Proof. intros. unfold pick_mech. al_tac. Qed.
#[export] Hint Resolve al_pick_mech : armdb.
Lemma al_auth_step : forall fuel cfg e, armsle _ 0 (auth_step fuel cfg e). Proof. intros. unfold auth_step. al_tac. Qed.
#[export] Hint Resolve al_auth_step : armdb.

(* the dial: one arming point, the SetDeadline after the connect *)
Lemma al_dial : forall fuel cfg, armsle _ 1 (dial fuel cfg).
Proof. intros. unfold dial. al_tac. Qed.
#[export] Hint Resolve al_dial : armdb.

Lemma al_noop : armsle _ 0 noop. Proof. unfold noop. al_tac. Qed.
Lemma al_reset : armsle _ 0 reset. Proof. unfold reset. al_tac. Qed.
#[export] Hint Resolve al_noop al_reset : armdb.
Lemma al_check_conn : forall cfg, armsle _ 1 (check_conn cfg).
Proof. intros. unfold check_conn, update_deadline. al_tac. Qed.
#[export] Hint Resolve al_check_conn : armdb.
Lemma al_reset_client : forall cfg, armsle _ 1 (reset_client cfg). Proof. intros. unfold reset_client. al_tac. Qed.
#[export] Hint Resolve al_reset_client : armdb.

(* the recipient loop passes no arming point, however many recipients *)
Lemma al_rcpts : forall n bad, armsle _ 0 (rcpts n bad).
Proof. induction n as [ | n IH]; intros; cbn [rcpts]; [ apply al_ret | al_tac ]. Qed.
#[export] Hint Resolve al_rcpts : armdb.

Lemma al_send_single : forall cfg n, armsle _ 1 (send_single cfg n).
Proof. intros. unfold send_single, abort_if_failed. al_tac. Qed.
#[export] Hint Resolve al_send_single : armdb.

Lemma al_send_msgs : forall cfg msgs bad, armsle _ (length msgs) (send_msgs cfg msgs bad).
Proof.
  induction msgs as [ | n t IH]; intros; cbn [send_msgs length]; [ apply al_ret | ].
  eapply armsle_bind_le; [ apply al_send_single | intros; simpl; rewrite Nat.sub_0_r; apply IH | lia ].
Qed.

Lemma al_send_batch : forall cfg msgs, armsle _ (S (length msgs)) (send_batch cfg msgs).
Proof.
  intros. unfold send_batch.
  eapply armsle_bind_le; [ apply al_check_conn | intros c | lia ].
  simpl. rewrite Nat.sub_0_r. destruct c; [ | apply al_ret ].
  eapply armsle_bind_le; [ apply al_send_msgs | intros; rewrite Nat.sub_diag; al_tac | lia ].
Qed.
#[export] Hint Resolve al_send_batch : armdb.

Lemma al_close_client : forall cfg, armsle _ 1 (close_client cfg).
Proof. intros. unfold close_client, update_deadline. al_tac. Qed.
#[export] Hint Resolve al_close_client : armdb.

Lemma al_dial_and_send : forall fuel cfg msgs, armsle _ (length msgs + 4) (dial_and_send fuel cfg msgs).
Proof.
  intros. unfold dial_and_send.
  eapply armsle_bind_le; [ apply al_dial | intros d | lia ].
  destruct d; [ | apply al_ret ].
  eapply armsle_bind_le; [ apply al_send_batch | intros sb | lia ].
  replace (length msgs + 4 - 1 - S (length msgs)) with 2 by lia.
  destruct sb; al_tac.
Qed.

Lemma al_session : forall fuel cfg msgs, armsle _ (length msgs + 4) (session fuel cfg msgs).
Proof.
  intros. unfold session.
  eapply armsle_bind_le; [ apply al_dial | intros d | lia ].
  destruct d; [ | apply al_ret ].
  eapply armsle_bind_le; [ apply al_send_batch | intros sb | lia ].
  replace (length msgs + 4 - 1 - S (length msgs)) with 2 by lia.
  al_tac.
Qed.

(* ------------------------------------------------------------------------------------------------ *)
(* the statements of props/C17.v *)

Definition periods {A : Type} (x : A * world) : nat := spent (w_clk (snd x)).
Definition armings {A : Type} (x : A * world) : nat := arms (w_clk (snd x)).

Lemma budget_of : forall A n (m : prog A) (s : srv), armsle A n m ->
  periods (run m (world0 s)) <= armings (run m (world0 s)) /\ armings (run m (world0 s)) <= n.
Proof.
  intros A n m s H. unfold periods, armings. split.
  - apply time_budget_spent_l. apply world0_time.
  - pose proof (armsle_run _ _ _ H (world0 s)) as X. simpl in X. exact X.
Qed.

Lemma C17_time_budget_any_l : forall A (m : prog A) (s : srv), periods (run m (world0 s)) <= armings (run m (world0 s)).
Proof. intros. apply time_budget_spent_l. apply world0_time. Qed.

Lemma C17_time_budget_dial_l : forall fuel cfg (s : srv),
  periods (run (dial fuel cfg) (world0 s)) <= armings (run (dial fuel cfg) (world0 s)) /\
  armings (run (dial fuel cfg) (world0 s)) <= 1.
Proof. intros. apply budget_of. apply al_dial. Qed.

Lemma C17_time_budget_dial_and_send_l : forall fuel cfg msgs (s : srv),
  periods (run (dial_and_send fuel cfg msgs) (world0 s)) <= armings (run (dial_and_send fuel cfg msgs) (world0 s)) /\
  armings (run (dial_and_send fuel cfg msgs) (world0 s)) <= length msgs + 4.
Proof. intros. apply budget_of. apply al_dial_and_send. Qed.

Lemma C17_time_budget_session_l : forall fuel cfg msgs (s : srv),
  periods (run (session fuel cfg msgs) (world0 s)) <= armings (run (session fuel cfg msgs) (world0 s)) /\
  armings (run (session fuel cfg msgs) (world0 s)) <= length msgs + 4.
Proof. intros. apply budget_of. apply al_session. Qed.

(* Send / Reset / Close from ANY state: the arming points passed by the call itself *)
Lemma C17_time_budget_send_l : forall cfg msgs w,
  arms (w_clk (snd (run (send_batch cfg msgs) w))) <= arms (w_clk w) + S (length msgs).
Proof. intros. apply armsle_run. apply al_send_batch. Qed.
Lemma C17_time_budget_reset_l : forall cfg w,
  arms (w_clk (snd (run (reset_client cfg) w))) <= arms (w_clk w) + 1.
Proof. intros. apply armsle_run. apply al_reset_client. Qed.
Lemma C17_time_budget_close_l : forall cfg w,
  arms (w_clk (snd (run (close_client cfg) w))) <= arms (w_clk w) + 1.
Proof. intros. apply armsle_run. apply al_close_client. Qed.
