From Coq Require Import String Lia ZArith.
(* AddrFieldProofs.v — byte-level lemmas about msgWriter.writeHeader needed by C06_once_each:
   a written field is  key ":" <fold-safe text> CRLF, so an independent reader of the header block sees
   exactly one field start, named key. *)
From Verif Require Import Bytes HeaderFold MsgAddr.
From VerifGen Require Import Gen.
From VerifProofs Require Import MsgAddrProofs.
Open Scope N_scope.

(* one-step unfolding of drop_sp_before_crlf (HeaderFold.starts_crlf: the next two bytes are CR LF) *)
Lemma drop_cons : forall b t,
  drop_sp_before_crlf (b :: t) =
    if (b =? 32) && starts_crlf t then drop_sp_before_crlf t else b :: drop_sp_before_crlf t.
Proof. reflexivity. Qed.

Lemma drop_cons_ne : forall b t, b <> 32 ->
  drop_sp_before_crlf (b :: t) = b :: drop_sp_before_crlf t.
Proof. intros b t H. rewrite drop_cons. apply N.eqb_neq in H. rewrite H. reflexivity. Qed.

Definition nocrlf (s : bytes) : Prop := forallb no_crlf_byte s = true.

Lemma no_crlf_not_cr : forall b, no_crlf_byte b = true -> b <> 13.
Proof. intros b H E. subst b. discriminate. Qed.

(* before the " \r\n" -> "\r\n" replacement: CR only as CR LF SP, and never CR LF SP CR *)
Inductive pre_ok : bytes -> Prop :=
| po_nil : pre_ok []
| po_byte : forall b t, no_crlf_byte b = true -> pre_ok t -> pre_ok (b :: t)
| po_fold : forall t, pre_ok t -> hd 0 t <> 13 -> pre_ok (13 :: 10 :: 32 :: t).

(* after it: CR only as CR LF SP *)
Inductive fold_safe : bytes -> Prop :=
| fs_nil : fold_safe []
| fs_byte : forall b t, no_crlf_byte b = true -> fold_safe t -> fold_safe (b :: t)
| fs_fold : forall t, fold_safe t -> fold_safe (13 :: 10 :: 32 :: t).

Lemma starts_crlf_hd : forall t, hd 0 t <> 13 -> starts_crlf t = false.
Proof.
  intros [|c [|d t]] H; try reflexivity. simpl in *. apply N.eqb_neq in H. rewrite H. reflexivity.
Qed.

Lemma drop_pre_ok : forall s, pre_ok s -> fold_safe (drop_sp_before_crlf s).
Proof.
  induction 1 as [|b t Hb Ht IH|t Ht IH Hh].
  - constructor.
  - rewrite drop_cons. destruct ((b =? 32) && starts_crlf t); [exact IH|constructor; assumption].
  - rewrite drop_cons_ne by discriminate. rewrite drop_cons_ne by discriminate.
    rewrite drop_cons. rewrite (starts_crlf_hd _ Hh). rewrite andb_false_r.
    apply fs_fold. exact IH.
Qed.

Lemma pre_ok_nocrlf_app : forall w tail, nocrlf w -> pre_ok tail -> pre_ok (w ++ tail).
Proof.
  induction w as [|b w IH]; intros tail Hw Ht; simpl; [exact Ht|].
  unfold nocrlf in Hw. simpl in Hw. apply andb_true_iff in Hw. destruct Hw as [Hb Hw].
  constructor; [exact Hb|apply IH; assumption].
Qed.

Definition P_any (x : bytes) : Prop := forall tail, pre_ok tail -> pre_ok (x ++ tail).
Definition P_nc (x : bytes) : Prop := forall tail, pre_ok tail -> hd 0 tail <> 13 -> pre_ok (x ++ tail).

Lemma P_any_nc : forall x, P_any x -> P_nc x.
Proof. intros x H tail Ht _. apply H. exact Ht. Qed.

Lemma P_any_fold : forall x, P_any x -> P_nc (x ++ crlf ++ [32]).
Proof.
  intros x H tail Ht Hh. rewrite <- app_assoc. apply H. simpl. constructor; assumption.
Qed.

Lemma P_nc_word : forall x w, P_nc x -> nocrlf w -> w <> [] -> P_any (x ++ w).
Proof.
  intros x w H Hw Hne tail Ht. rewrite <- app_assoc. apply H.
  - apply pre_ok_nocrlf_app; assumption.
  - destruct w as [|b w]; [congruence|]. simpl. unfold nocrlf in Hw. simpl in Hw.
    apply andb_true_iff in Hw. apply no_crlf_not_cr. apply Hw.
Qed.

Lemma P_nc_word_any : forall x w, P_nc x -> nocrlf w -> P_nc (x ++ w).
Proof.
  intros x w H Hw. destruct w as [|b w].
  - rewrite app_nil_r. exact H.
  - apply P_any_nc. apply P_nc_word; [exact H|exact Hw|discriminate].
Qed.

Lemma nocrlf_sp : nocrlf [32].
Proof. reflexivity. Qed.

Lemma wh_words_cons : forall buf cl w rest,
  wh_words buf cl (w :: rest) =
    let buf1 := if (cl - zlen w <=? 1)%Z then buf ++ crlf ++ [32] else buf in
    let cl1 := if (cl - zlen w <=? 1)%Z then (max_header - 3)%Z else cl in
    match rest with
    | [] => buf1 ++ w
    | _ :: _ => wh_words ((buf1 ++ w) ++ [32]) (cl1 - 1 - zlen w)%Z rest
    end.
Proof. intros. simpl. destruct (cl - zlen w <=? 1)%Z; destruct rest; reflexivity. Qed.

Lemma wh_words_ok : forall words buf cl,
  P_any buf -> Forall nocrlf words -> P_nc (wh_words buf cl words).
Proof.
  induction words as [|w rest IH]; intros buf cl Hb Hw.
  - simpl. apply P_any_nc. exact Hb.
  - inversion Hw as [|? ? Hw1 Hw2]; subst. rewrite wh_words_cons. cbv zeta.
    assert (H1 : P_nc (if (cl - zlen w <=? 1)%Z then buf ++ crlf ++ [32] else buf)).
    { destruct (cl - zlen w <=? 1)%Z; [apply P_any_fold|apply P_any_nc]; exact Hb. }
    destruct rest as [|w2 rest].
    + apply P_nc_word_any; assumption.
    + apply IH; [|exact Hw2]. apply P_nc_word; [|exact nocrlf_sp|discriminate].
      apply P_nc_word_any; assumption.
Qed.

Lemma wh_words_buf : forall words buf cl, wh_words buf cl words = buf ++ wh_words [] cl words.
Proof.
  induction words as [|w rest IH]; intros buf cl.
  - simpl. rewrite app_nil_r. reflexivity.
  - rewrite !wh_words_cons. cbv zeta. destruct rest as [|w2 rest].
    + destruct (cl - zlen w <=? 1)%Z; simpl; rewrite <- ?app_assoc; reflexivity.
    + rewrite IH. symmetry. rewrite IH. symmetry.
      destruct (cl - zlen w <=? 1)%Z; simpl; rewrite <- ?app_assoc; reflexivity.
Qed.

Lemma nocrlf_app : forall a b, nocrlf a -> nocrlf b -> nocrlf (a ++ b).
Proof. intros a b Ha Hb. unfold nocrlf in *. rewrite forallb_app, Ha, Hb. reflexivity. Qed.

Lemma nocrlf_join : forall sep l, nocrlf sep -> Forall nocrlf l -> nocrlf (join sep l).
Proof.
  intros sep l Hs. induction 1 as [|x l Hx Hl IH]; simpl; [reflexivity|].
  destruct l as [|y l]; [exact Hx|]. apply nocrlf_app; [exact Hx|]. apply nocrlf_app; [exact Hs|exact IH].
Qed.

Lemma nocrlf_split : forall sep s, nocrlf s -> Forall nocrlf (split_on sep s).
Proof.
  intros sep s. induction s as [|b s IH]; intro H; simpl.
  - constructor; [reflexivity|constructor].
  - unfold nocrlf in H. simpl in H. apply andb_true_iff in H. destruct H as [Hb Hs].
    specialize (IH Hs). destruct (b =? sep).
    + constructor; [reflexivity|exact IH].
    + destruct (split_on sep s) as [|w ws]; [constructor; [|constructor]; unfold nocrlf; simpl; rewrite Hb; reflexivity|].
      inversion IH; subst. constructor; [|assumption]. unfold nocrlf. simpl. rewrite Hb. assumption.
Qed.

(* ---- the reader on a folded field ---- *)
Lemma fnames_false_step : forall b t, b <> 13 -> fnames false (b :: t) = fnames false t.
Proof.
  intros b t Hb. simpl. destruct t as [|c t']; [reflexivity|].
  apply N.eqb_neq in Hb. rewrite Hb. reflexivity.
Qed.

Lemma fnames_false_nocrlf : forall a rest, nocrlf a -> fnames false (a ++ rest) = fnames false rest.
Proof.
  induction a as [|b a IH]; intros rest H; [reflexivity|].
  unfold nocrlf in H. simpl in H. apply andb_true_iff in H. destruct H as [Hb Ha].
  simpl app. rewrite fnames_false_step by (apply no_crlf_not_cr; exact Hb). apply IH. exact Ha.
Qed.

Lemma fnames_true_sp : forall x, fnames true (32 :: x) = fnames false x.
Proof. intro x. simpl. destruct x; reflexivity. Qed.

Lemma fnames_false_crlf : forall x, fnames false (13 :: 10 :: x) = fnames true x.
Proof. reflexivity. Qed.

Lemma fnames_fold_safe : forall z rest, fold_safe z ->
  fnames false (z ++ crlf ++ rest) = fnames true rest.
Proof.
  intros z rest. induction 1 as [|b t Hb Ht IH|t Ht IH].
  - reflexivity.
  - simpl app. rewrite fnames_false_step by (apply no_crlf_not_cr; exact Hb). exact IH.
  - change ((13 :: 10 :: 32 :: t) ++ crlf ++ rest) with (13 :: 10 :: 32 :: (t ++ crlf ++ rest)).
    rewrite fnames_false_crlf, fnames_true_sp. exact IH.
Qed.

Definition key_ok (k : bytes) : Prop :=
  nocrlf k /\ forallb (fun b => negb (b =? 58)) k = true /\
  match k with b :: _ => is_wsp b = false | [] => False end.

Lemma until_colon_key : forall k rest, forallb (fun b => negb (b =? 58)) k = true ->
  until_colon (k ++ 58 :: rest) = k.
Proof.
  induction k as [|b k IH]; intros rest H; simpl.
  - reflexivity.
  - simpl in H. apply andb_true_iff in H. destruct H as [Hb Hk].
    destruct (b =? 58); [discriminate|]. rewrite IH by exact Hk. reflexivity.
Qed.

Lemma fnames_true_step : forall b t, b <> 13 -> is_wsp b = false ->
  fnames true (b :: t) = until_colon (b :: t) :: fnames false t.
Proof.
  intros b t Hb Hw. apply N.eqb_neq in Hb.
  destruct t as [|c t'].
  - simpl. rewrite Hw. reflexivity.
  - unfold fnames at 1; fold fnames. rewrite Hw, Hb. reflexivity.
Qed.

Lemma fnames_field : forall k z rest, key_ok k -> fold_safe z ->
  fnames true (k ++ 58 :: z ++ crlf ++ rest) = k :: fnames true rest.
Proof.
  intros k z rest (Hn & Hc & Hw) Hz. destruct k as [|b k]; [destruct Hw|].
  unfold nocrlf in Hn. simpl in Hn. apply andb_true_iff in Hn. destruct Hn as [Hb Hn].
  change ((b :: k) ++ 58 :: z ++ crlf ++ rest) with (b :: (k ++ 58 :: z ++ crlf ++ rest)).
  rewrite fnames_true_step by (try exact Hw; apply no_crlf_not_cr; exact Hb).
  change (b :: (k ++ 58 :: z ++ crlf ++ rest)) with ((b :: k) ++ 58 :: z ++ crlf ++ rest).
  rewrite until_colon_key by exact Hc. f_equal.
  rewrite fnames_false_nocrlf by exact Hn.
  rewrite fnames_false_step by discriminate. apply fnames_fold_safe. exact Hz.
Qed.

Lemma drop_nocrlf_app : forall a b, nocrlf a -> hd 0 b <> 13 ->
  drop_sp_before_crlf (a ++ b) = a ++ drop_sp_before_crlf b.
Proof.
  induction a as [|x a IH]; intros b Ha Hb; [reflexivity|].
  unfold nocrlf in Ha. simpl in Ha. apply andb_true_iff in Ha. destruct Ha as [Hx Ha].
  simpl app. rewrite drop_cons. rewrite starts_crlf_hd.
  - rewrite andb_false_r. rewrite IH by assumption. reflexivity.
  - destruct a as [|y a]; [exact Hb|]. simpl. simpl in Ha. apply andb_true_iff in Ha.
    apply no_crlf_not_cr. apply Ha.
Qed.

(* the bytes of one written header field: key, colon, a fold-safe remainder, CRLF *)
Lemma wh_buffer_shape : forall k vals, nocrlf k -> Forall nocrlf vals ->
  exists z, fold_safe z /\ wh_buffer k vals = k ++ 58 :: z.
Proof.
  intros k vals Hk Hv. unfold wh_buffer.
  set (cl := (max_header - 2 - zlen k - 2)%Z).
  set (words := split_on 32 (join (bs ", ") vals)).
  rewrite wh_words_buf.
  assert (Hw : Forall nocrlf words).
  { apply nocrlf_split. apply nocrlf_join; [reflexivity|exact Hv]. }
  assert (HX : P_nc (wh_words [] cl words)).
  { apply wh_words_ok; [|exact Hw]. intros tail Ht. exact Ht. }
  change (bs ": ") with ([58; 32]).
  replace (k ++ [58; 32] ++ wh_words [] cl words) with (k ++ 58 :: 32 :: wh_words [] cl words) by reflexivity.
  replace ((k ++ [58; 32]) ++ wh_words [] cl words) with (k ++ 58 :: 32 :: wh_words [] cl words)
    by (rewrite <- app_assoc; reflexivity).
  rewrite drop_nocrlf_app by (try exact Hk; simpl; discriminate).
  rewrite drop_cons_ne by discriminate.
  exists (drop_sp_before_crlf (32 :: wh_words [] cl words)). split; [|reflexivity].
  apply drop_pre_ok. constructor; [reflexivity|].
  specialize (HX [] po_nil). rewrite app_nil_r in HX. apply HX. simpl. discriminate.
Qed.

Lemma fnames_write_header : forall k vals rest, key_ok k -> Forall nocrlf vals ->
  fnames true (fst (write_header k vals) ++ rest) =
    (match vals with [] => [] | _ => [k] end) ++ fnames true rest.
Proof.
  intros k vals rest Hk Hv. unfold write_header. destruct vals as [|v vals]; [reflexivity|].
  destruct (wh_buffer_shape k (v :: vals)) as [z [Hz E]]; [apply Hk|exact Hv|].
  simpl fst. rewrite E. rewrite <- !app_assoc. simpl app.
  change (k ++ 58 :: z ++ 13 :: 10 :: rest) with (k ++ 58 :: z ++ crlf ++ rest).
  apply fnames_field; assumption.
Qed.

Lemma key_ok_from : key_ok hdr_from. Proof. repeat split; reflexivity. Qed.
Lemma key_ok_to : key_ok hdr_to. Proof. repeat split; reflexivity. Qed.
Lemma key_ok_cc : key_ok hdr_cc. Proof. repeat split; reflexivity. Qed.
Lemma key_ok_reply_to : key_ok hdr_reply_to. Proof. repeat split; reflexivity. Qed.

Section OnceEach.
  Variable addr_string : addr -> bytes.
  (* H-addr: Address.String() never contains CR or LF *)
  Hypothesis H_string_nocrlf : forall a, forallb no_crlf_byte (addr_string a) = true.

  Definition present (l : list addr) (k : bytes) : list bytes :=
    match l with [] => [] | _ :: _ => [k] end.

  Lemma vals_nocrlf : forall l, Forall nocrlf (map addr_string l).
  Proof. induction l; simpl; constructor; [apply H_string_nocrlf|assumption]. Qed.

  Lemma fnames_addr_field : forall m k rest, key_ok k ->
    fnames true (addr_field addr_string m k ++ rest) = present (lookup m k) k ++ fnames true rest.
  Proof.
    intros m k rest Hk. unfold addr_field.
    rewrite fnames_write_header; [|exact Hk|apply vals_nocrlf].
    destruct (lookup m k); reflexivity.
  Qed.

  Theorem once_each : forall m,
    field_names (render_addr addr_string m) =
      present (render_from_list m) hdr_from ++ present (lookup m hdr_to) hdr_to ++
      present (lookup m hdr_cc) hdr_cc ++ present (lookup m hdr_reply_to) hdr_reply_to.
  Proof.
    intro m. unfold field_names, render_addr. rewrite gen_render_addr_headers.
    cbn [flat_map]. rewrite app_nil_r.
    assert (F : forall rest, fnames true (from_field addr_string m ++ rest)
                = present (render_from_list m) hdr_from ++ fnames true rest).
    { intro rest. unfold from_field. destruct (render_from_list m) as [|a l]; [reflexivity|].
      rewrite fnames_write_header;
        [reflexivity|exact key_ok_from|constructor; [apply H_string_nocrlf|constructor]]. }
    rewrite F.
    rewrite fnames_addr_field by exact key_ok_to.
    rewrite fnames_addr_field by exact key_ok_cc.
    rewrite <- (app_nil_r (addr_field addr_string m hdr_reply_to)).
    rewrite fnames_addr_field by exact key_ok_reply_to.
    simpl. rewrite app_nil_r. reflexivity.
  Qed.
End OnceEach.
