(* Proofs about the msgWriter model: no panic, byte accounting, sticky errors (C12). *)
From Coq Require Import String.
From Verif Require Import Bytes Base64 LineBreaker QP HeaderFold WordEnc Writer.
From Coq Require Import Lia ZifyBool ZifyNat ZifyN.
Open Scope nat_scope.

Ltac fin := try solve [assumption | lia | congruence | intros; congruence | intros; discriminate | auto].
Ltac ssplit := repeat match goal with |- _ /\ _ => split end.

(* ---- sink ---- *)
Lemma sink_write_spec : forall k p k' n e,
  sink_write k p = (k', n, e) ->
  length (accepted k') = length (accepted k) + n /\
  (e = true -> failed k' = true) /\
  (failed k = true -> failed k' = true) /\
  (failed k' = true -> failed k = true \/ e = true) /\
  (exists d, accepted k' = accepted k ++ d).
Proof.
  intros k p k' n e H. unfold sink_write in H.
  destruct (failed k && negb (recover k)) eqn:Hf.
  - inversion H; subst. apply andb_true_iff in Hf. destruct Hf as [Hf _].
    split; [lia|]. split; [auto|]. split; [auto|]. split; [auto|]. exists []. now rewrite app_nil_r.
  - destruct (cap k) as [r|].
    + destruct (Nat.leb_spec (length p) r).
      * inversion H; subst; cbn. rewrite app_length. split; [lia|]. split; [discriminate|].
        split; [auto|]. split; [auto|]. eauto.
      * inversion H; subst; cbn. rewrite app_length, firstn_length. split; [lia|].
        split; [auto|]. split; [auto|]. split; [auto|]. eauto.
    + inversion H; subst; cbn. rewrite app_length. split; [lia|]. split; [discriminate|].
      split; [auto|]. split; [auto|]. eauto.
Qed.

(* ---- the invariant ---- *)
Definition Inv (st : mw) : Prop :=
  panicked st = false /\
  depth st <= length (mps st) /\
  bw st = length (accepted (snk st)) /\
  (failed (snk st) = true -> err st = true).

(* st' extends st: invariant preserved, errors sticky, depth bookkeeping explicit *)
Definition ext (st st' : mw) : Prop :=
  Inv st -> Inv st' /\ (err st = true -> err st' = true).

Lemma ext_refl : forall st, ext st st.
Proof. intros st H. auto. Qed.

Lemma ext_trans : forall a b c, ext a b -> ext b c -> ext a c.
Proof. intros a b c H1 H2 Ha. destruct (H1 Ha) as [Hb Hm]. destruct (H2 Hb) as [Hc Hm2]. split; auto. Qed.

Lemma update_nth_length : forall A n (x : A) l, length (update_nth n x l) = length l.
Proof. intros A n x l. revert n. induction l as [|h t IH]; intros [|n]; cbn; auto. Qed.

Lemma mw_write_ext : forall st p st' e,
  mw_write st p = (st', e) ->
  ext st st' /\ depth st' = depth st /\ mps st' = mps st /\ pw st' = pw st /\
  (e = true -> err st' = true) /\ (e = false -> err st' = false) /\ panicked st' = panicked st.
Proof.
  intros st p st' e H. unfold mw_write in H. destruct (err st) eqn:He.
  - inversion H; subst. ssplit; auto using ext_refl; intros; congruence.
  - destruct (sink_write (snk st) p) as [[k n] e2] eqn:Hs. inversion H; subst. clear H.
    apply sink_write_spec in Hs. destruct Hs as (Hl & He1 & Hf1 & Hf2 & _).
    unfold set_snk; cbn. ssplit; fin.
    intros (Hp & Hd & Hb & Hf). unfold Inv; cbn. ssplit; fin;
    try (intros Hk; destruct (Hf2 Hk) as [Hx|Hx]; [rewrite (Hf Hx) in He; discriminate|exact Hx]).
Qed.

Lemma write_string_ext : forall s st,
  ext st (write_string s st) /\ depth (write_string s st) = depth st /\
  mps (write_string s st) = mps st /\ pw (write_string s st) = pw st /\
  panicked (write_string s st) = panicked st.
Proof.
  intros s st. unfold write_string. destruct (err st) eqn:He; [ssplit; auto using ext_refl|].
  destruct (sink_write (snk st) s) as [[k n] e2] eqn:Hs.
  apply sink_write_spec in Hs. destruct Hs as (Hl & He1 & Hf1 & Hf2 & _).
  unfold set_snk; cbn. ssplit; fin.
  intros (Hp & Hd & Hb & Hf). unfold Inv; cbn. ssplit; fin;
  try (intros Hk; destruct (Hf2 Hk) as [Hx|Hx]; [rewrite (Hf Hx) in He; discriminate|exact Hx]).
Qed.

(* a predicate for operations that keep depth, mps length, pw, and extend *)
Definition frame (st st' : mw) : Prop :=
  ext st st' /\ depth st' = depth st /\ length (mps st') = length (mps st) /\ panicked st' = panicked st.

Lemma frame_refl : forall st, frame st st.
Proof. intros st. unfold frame. ssplit; auto using ext_refl. Qed.

Lemma frame_trans : forall a b c, frame a b -> frame b c -> frame a c.
Proof.
  intros a b c (E1 & D1 & L1 & P1) (E2 & D2 & L2 & P2).
  unfold frame. ssplit; [eapply ext_trans; eauto|congruence|congruence|congruence].
Qed.

Lemma write_string_frame : forall s st, frame st (write_string s st).
Proof.
  intros s st. destruct (write_string_ext s st) as (E & D & M & _ & P).
  unfold frame. ssplit; auto. now rewrite M.
Qed.

Lemma add_hcount_frame : forall st n, frame st (add_hcount st n).
Proof. intros st n. unfold frame, ext, Inv, add_hcount; cbn. ssplit; auto. Qed.

Lemma mw_write_header_frame : forall key values st, frame st (fst (mw_write_header key values st)).
Proof.
  intros key values st. unfold mw_write_header. destruct values as [|v vs]; cbn [fst]; [apply frame_refl|].
  eapply frame_trans; apply write_string_frame.
Qed.

Lemma write_header_counted_frame : forall key values st, frame st (write_header_counted key values st).
Proof.
  intros key values st. unfold write_header_counted.
  pose proof (mw_write_header_frame key values st) as H.
  destruct (mw_write_header key values st) as [st' n]. cbn [fst] in H.
  eapply frame_trans; [exact H|apply add_hcount_frame].
Qed.

Lemma write_header_uncounted_frame : forall key values st, frame st (write_header_uncounted key values st).
Proof. intros. apply mw_write_header_frame. Qed.

Lemma fold_frame : forall A (f : mw -> A -> mw) (l : list A) st,
  (forall s a, frame s (f s a)) -> frame st (fold_left f l st).
Proof.
  intros A f l. induction l as [|a l IH]; intros st H; cbn [fold_left]; [apply frame_refl|].
  eapply frame_trans; [apply H|apply IH, H].
Qed.

Lemma write_part_header_frame : forall hdrs st, frame st (write_part_header hdrs st).
Proof.
  intros hdrs st. unfold write_part_header.
  eapply frame_trans; [|apply write_string_frame].
  apply fold_frame. intros s kv. apply fold_frame. intros s2 v. apply write_string_frame.
Qed.

(* pw is preserved by the header-level operations *)
Lemma write_string_pw : forall s st, pw (write_string s st) = pw st.
Proof. intros s st. now destruct (write_string_ext s st) as (_ & _ & _ & P & _). Qed.

(* ---- multipart operations ---- *)
Lemma set_fields_inv : forall st l p e,
  Inv st -> length l = length (mps st) -> (err st = true -> e = true) ->
  Inv (set_err (set_pw (set_mps st l) p) e).
Proof.
  intros st l p e (Hp & Hd & Hb & Hf) Hl He. unfold Inv; cbn. ssplit; auto; try lia.
Qed.

Lemma create_part_spec : forall i hdrs st,
  i < length (mps st) ->
  ext st (create_part i hdrs st) /\
  depth (create_part i hdrs st) = depth st /\
  length (mps (create_part i hdrs st)) = length (mps st) /\
  (Inv st -> err (create_part i hdrs st) = false -> pw (create_part i hdrs st) = Some i) /\
  (panicked st = false -> panicked (create_part i hdrs st) = false).
Proof.
  intros i hdrs st Hi. unfold create_part.
  destruct (nth_error (mps st) i) as [w|] eqn:Hn; [|apply nth_error_None in Hn; lia].
  set (w1 := match lastpart w with Some p => _ | None => w end).
  set (st1 := set_mps st (update_nth i w1 (mps st))).
  assert (Hst1 : ext st st1 /\ depth st1 = depth st /\ length (mps st1) = length (mps st) /\ err st1 = err st /\ panicked st1 = panicked st).
  { unfold st1; cbn. rewrite update_nth_length. ssplit; auto.
    intros (Hp & Hd & Hb & Hf). unfold Inv; cbn. rewrite update_nth_length. ssplit; auto. }
  destruct Hst1 as (E1 & D1 & L1 & Er1 & P1).
  destruct (match lastpart w with Some p => pwe p | None => false end).
  - cbn. rewrite update_nth_length. ssplit; auto; try (intros; discriminate).
    intros H. destruct (E1 H) as [(Hp & Hd & Hb & Hf) Hm]. unfold Inv; cbn. rewrite update_nth_length.
    cbn in *. rewrite update_nth_length in Hd. ssplit; auto.
  - destruct (mw_write st1 _) as [st2 e] eqn:Hw. apply mw_write_ext in Hw.
    destruct Hw as (E2 & D2 & M2 & PW2 & Et & Ef & P2).
    destruct e.
    + cbn. rewrite M2. ssplit; auto; try congruence; try (intros; discriminate).
      intros H. destruct (E1 H) as [H1 Hm1]. destruct (E2 H1) as [(Hp & Hd & Hb & Hf) Hm2].
      unfold Inv; cbn. ssplit; auto.
    + cbn. rewrite update_nth_length, M2. ssplit; auto; try congruence.
      intros H. destruct (E1 H) as [H1 Hm1]. destruct (E2 H1) as [(Hp & Hd & Hb & Hf) Hm2].
      split.
      * unfold Inv; cbn. rewrite ?update_nth_length. ssplit; auto.
        -- rewrite M2 in Hd. unfold st1 in Hd; cbn in Hd. rewrite update_nth_length in Hd. exact Hd.
        -- intros Hk. specialize (Hf Hk). rewrite (Ef eq_refl) in Hf. discriminate.
      * intros He. specialize (Hm2 (Hm1 He)). rewrite (Ef eq_refl) in Hm2. discriminate.
Qed.

Lemma mp_close_spec : forall i st st' e,
  i < length (mps st) -> mp_close i st = (st', e) ->
  ext st st' /\ depth st' = depth st /\ length (mps st') = length (mps st) /\
  (panicked st = false -> panicked st' = false) /\
  (Inv st -> err st = true -> e = true) /\ (e = false -> err st' = false) /\
  (Inv st -> failed (snk st') = true -> e = true \/ err st' = true).
Proof.
  intros i st st' e Hi H. unfold mp_close in H.
  destruct (nth_error (mps st) i) as [w|] eqn:Hn; [|apply nth_error_None in Hn; lia].
  destruct (match lastpart w with Some p => pwe p | None => false end).
  - inversion H; subst; cbn. rewrite update_nth_length. ssplit; auto; try (intros; discriminate).
    intros (Hp & Hd & Hb & Hf). unfold Inv; cbn. rewrite update_nth_length. ssplit; auto.
  - set (st1 := set_mps st _) in H. apply mw_write_ext in H.
    destruct H as (E2 & D2 & M2 & PW2 & Et & Ef & P2).
    assert (E1 : ext st st1).
    { intros (Hp & Hd & Hb & Hf). unfold st1, Inv; cbn. rewrite update_nth_length. ssplit; auto. }
    assert (L1 : length (mps st1) = length (mps st)) by (unfold st1; cbn; apply update_nth_length).
    assert (D1 : depth st1 = depth st) by reflexivity.
    assert (P1 : panicked st1 = panicked st) by reflexivity.
    ssplit; auto; try congruence.
    + eapply ext_trans; eauto.
    + intros HI He. destruct e; auto. destruct (E1 HI) as [H1 Hm1]. destruct (E2 H1) as [_ Hm2].
      specialize (Hm2 (Hm1 He)). rewrite (Ef eq_refl) in Hm2. discriminate.
    + intros HI Hk. destruct (E1 HI) as [H1 _]. destruct (E2 H1) as [(_ & _ & _ & Hf) _]. right. auto.
Qed.

Lemma part_write_spec : forall i p st st' e,
  i < length (mps st) -> part_write i p st = (st', e) ->
  ext st st' /\ depth st' = depth st /\ length (mps st') = length (mps st) /\
  (panicked st = false -> panicked st' = false) /\ pw st' = pw st.
Proof.
  intros i p st st' e Hi H. unfold part_write in H.
  destruct (nth_error (mps st) i) as [w|] eqn:Hn; [|apply nth_error_None in Hn; lia].
  destruct (lastpart w) as [pt|]; [|inversion H; subst; ssplit; auto using ext_refl].
  destruct (pclosed pt); [inversion H; subst; ssplit; auto using ext_refl|].
  destruct (mw_write st p) as [st1 e1] eqn:Hw. apply mw_write_ext in Hw.
  destruct Hw as (E2 & D2 & M2 & PW2 & Et & Ef & P2).
  destruct e1; inversion H; subst; cbn; rewrite ?update_nth_length, ?M2; ssplit; auto; try congruence.
  intros HI. destruct (E2 HI) as [(Hp & Hd & Hb & Hf) Hm]. split; auto.
  unfold Inv; cbn. rewrite update_nth_length. rewrite M2 in Hd. ssplit; auto.
Qed.

Lemma andthen_run : forall st f, panicked st = false -> (st |> f) = f st.
Proof. intros st f H. unfold andthen. now rewrite H. Qed.

Lemma Inv_panicked : forall st, Inv st -> panicked st = false.
Proof. intros st H. apply H. Qed.

(* new_part at depth >= 1 *)
Lemma new_part_spec : forall hdrs st,
  Inv st -> 1 <= depth st ->
  Inv (new_part hdrs st) /\ (err st = true -> err (new_part hdrs st) = true) /\
  depth (new_part hdrs st) = depth st /\
  (err (new_part hdrs st) = false -> exists i, pw (new_part hdrs st) = Some i /\ i < length (mps (new_part hdrs st))).
Proof.
  intros hdrs st HI Hd. unfold new_part.
  assert (Hi : depth st - 1 < length (mps st)) by (destruct HI as (_ & H & _); lia).
  destruct (create_part_spec (depth st - 1) hdrs st Hi) as (E & D & L & PW & P).
  destruct (E HI) as [HI' Hm]. ssplit; auto.
  intros He. exists (depth st - 1). split; [auto|]. rewrite L. exact Hi.
Qed.

Lemma firstn_length_le : forall A n (l : list A), n <= length l -> length (firstn n l) = n.
Proof. intros. rewrite firstn_length. lia. Qed.

Lemma start_mp_spec : forall mime b bad st,
  Inv st ->
  Inv (start_mp mime b bad st) /\ (err st = true -> err (start_mp mime b bad st) = true) /\
  depth (start_mp mime b bad st) = S (depth st).
Proof.
  intros mime b bad st HI. unfold start_mp.
  set (st1 := if bad then set_err st true else st).
  assert (H1 : Inv st1 /\ (err st = true -> err st1 = true) /\ depth st1 = depth st).
  { unfold st1. destruct bad; [|auto]. destruct HI as (A & B & C & D). unfold Inv; cbn. auto. }
  destruct H1 as (HI1 & Hm1 & Hd1).
  set (w := mkmpw b None).
  set (st2 := set_mps st1 (firstn (depth st1) (mps st1) ++ [w])).
  assert (HI2 : Inv st2 /\ err st2 = err st1 /\ depth st2 = depth st1 /\ length (mps st2) = S (depth st1)).
  { destruct HI1 as (A & B & C & D). unfold st2, Inv; cbn. rewrite app_length, firstn_length_le by exact B.
    cbn. ssplit; auto; lia. }
  destruct HI2 as (HI2 & He2 & Hd2 & Hl2).
  destruct (Nat.eqb_spec (depth st2) 0) as [Hz|Hnz].
  - destruct (write_string_ext (bs "Content-Type: " ++ (bs "multipart/" ++ mime ++ bs ";" ++ crlf ++ bs " boundary=" ++ b)) st2) as (E & D & M & PWs & P).
    destruct (E HI2) as [HI3 Hm3].
    set (st3 := write_string _ st2) in *.
    rewrite (Inv_panicked _ HI3).
    destruct HI3 as (A & B & C & F). unfold Inv; cbn. rewrite ?M, ?D. ssplit; auto; try lia;
    try (intros He; apply Hm3; rewrite He2; auto).
  - destruct (new_part_spec [(bs "Content-Type", [bs "multipart/" ++ mime ++ bs ";" ++ crlf ++ bs " boundary=" ++ b])] st2 HI2) as (HI3 & Hm3 & Hd3 & _); [lia|].
    set (st3 := new_part _ st2) in *.
    rewrite (Inv_panicked _ HI3).
    assert (Hl3 : length (mps st3) = length (mps st2)).
    { unfold st3, new_part. assert (Hi : depth st2 - 1 < length (mps st2)) by lia.
      now destruct (create_part_spec (depth st2 - 1) [(bs "Content-Type", [bs "multipart/" ++ mime ++ bs ";" ++ crlf ++ bs " boundary=" ++ b])] st2 Hi) as (_ & _ & L & _). }
    destruct HI3 as (A & B & C & F). unfold Inv; cbn. ssplit; auto; try lia;
    try (intros He; apply Hm3; rewrite He2; auto).
Qed.

Lemma stop_mp_spec : forall st,
  Inv st -> Inv (stop_mp st) /\ (err st = true -> err (stop_mp st) = true) /\ depth (stop_mp st) = depth st - 1.
Proof.
  intros st HI. unfold stop_mp. destruct (depth st) as [|d] eqn:Hd; [ssplit; auto|].
  destruct (mp_close d st) as [st1 e] eqn:Hc.
  assert (Hi : d < length (mps st)) by (destruct HI as (_ & H & _); lia).
  apply (mp_close_spec d st st1 e Hi) in Hc.
  destruct Hc as (E & D & L & P & Hme & Hef & Hfe).
  destruct (E HI) as [HI1 Hm1]. rewrite (Inv_panicked _ HI1).
  destruct HI1 as (A & B & C & F). unfold Inv; cbn. ssplit; auto; try lia;
  try (intros Hk; destruct (Hfe HI Hk) as [Hx|Hx]; [exact Hx|];
       destruct e; auto; rewrite (Hef eq_refl) in Hx; discriminate).
Qed.

Lemma write_body_spec : forall p e st,
  Inv st -> (depth st = 0 \/ exists i, pw st = Some i /\ i < length (mps st)) ->
  Inv (write_body p e st) /\ (err st = true -> err (write_body p e st) = true) /\
  (pfail p = true -> err (write_body p e st) = true) /\ depth (write_body p e st) = depth st.
Proof.
  intros p e st HI Hpw. unfold write_body.
  set (st1 := if pfail p then set_err st true else st).
  assert (H1 : Inv st1 /\ (err st = true -> err st1 = true) /\ (pfail p = true -> err st1 = true) /\
               depth st1 = depth st /\ mps st1 = mps st /\ pw st1 = pw st).
  { unfold st1. destruct (pfail p); [|ssplit; auto; discriminate].
    destruct HI as (A & B & C & D). unfold Inv; cbn. ssplit; auto. }
  destruct H1 as (HI1 & Hm1 & Hp1 & Hd1 & Hmps1 & Hpw1).
  destruct (encode_body e p) as [|b0 buf0] eqn:Hbuf; [ssplit; auto|].
  set (buf := b0 :: buf0).
  destruct (Nat.eqb_spec (depth st1) 0) as [Hz|Hnz].
  - destruct (sink_write (snk st1) buf) as [[k n] e2] eqn:Hs.
    apply sink_write_spec in Hs. destruct Hs as (Hl & He1 & Hf1 & Hf2 & _).
    destruct HI1 as (A & B & C & F). unfold Inv; cbn. ssplit; auto; try lia;
    try (intros Hk; destruct (Hf2 Hk) as [Hx|Hx]; [rewrite (F Hx); reflexivity|rewrite Hx; apply orb_true_r]);
    try (intros He; rewrite (Hm1 He); reflexivity);
    try (intros Hp; rewrite (Hp1 Hp); reflexivity).
  - destruct Hpw as [Hz|(i & Hpi & Hil)]; [lia|].
    rewrite Hpw1, Hpi.
    destruct (part_write i buf st1) as [st2 e2] eqn:Hw.
    assert (Hi1 : i < length (mps st1)) by (rewrite Hmps1; exact Hil).
    apply (part_write_spec i buf st1 st2 e2 Hi1) in Hw.
    destruct Hw as (E & D & L & P & PW). destruct (E HI1) as [HI2 Hm2].
    destruct (err st1) eqn:He1.
    + ssplit; auto; try lia; try (intros _; apply Hm2; reflexivity).
    + destruct HI2 as (A & B & C & F). unfold Inv; cbn. ssplit; auto; try lia;
      try (intros Hk; rewrite (F Hk); reflexivity);
      try (intros He; rewrite (Hm1 He) in He1; discriminate);
      try (intros Hp; rewrite (Hp1 Hp) in He1; discriminate).
Qed.

(* a step that preserves Inv, keeps errors, keeps depth *)
Definition keeps (st st' : mw) : Prop :=
  Inv st' /\ (err st = true -> err st' = true) /\ depth st' = depth st.

Lemma frame_keeps : forall st st', Inv st -> frame st st' -> keeps st st'.
Proof. intros st st' HI (E & D & L & P). destruct (E HI) as [H1 H2]. unfold keeps. auto. Qed.

Lemma keeps_trans : forall a b c, keeps a b -> keeps b c -> keeps a c.
Proof. intros a b c (A1 & A2 & A3) (B1 & B2 & B3). unfold keeps. ssplit; auto; congruence. Qed.

Definition has_failing_part (p : part) : bool := pfail (p_prod p).
Definition has_failing_file (f : file) : bool := pfail (f_prod f).

Lemma write_part_spec : forall encl we cs p st,
  Inv st -> keeps st (write_part encl we cs p st) /\ (pfail (p_prod p) = true -> err (write_part encl we cs p st) = true).
Proof.
  intros encl we cs p st HI. unfold write_part.
  set (ctype := p_ctype p ++ bs "; charset=" ++ _).
  set (hdrs := _ ++ _).
  destruct (Nat.eqb_spec (depth st) 0) as [Hz|Hnz].
  - set (st1 := if encl then _ else _).
    assert (K1 : keeps st st1).
    { apply frame_keeps; [exact HI|]. unfold st1. destruct encl; [apply write_part_header_frame|].
      eapply frame_trans; [|apply write_string_frame].
      eapply frame_trans; apply write_header_uncounted_frame. }
    destruct K1 as (HI1 & Hm1 & Hd1).
    destruct (err st1) eqn:He1; [unfold keeps; ssplit; auto|].
    rewrite andthen_run by (apply HI1).
    destruct (write_body_spec (p_prod p) (p_enc p) st1 HI1) as (HI2 & Hm2 & Hp2 & Hd2); [left; lia|].
    unfold keeps. ssplit; auto; try lia; try (intros He; apply Hm2; auto).
  - destruct (new_part_spec hdrs st HI) as (HI1 & Hm1 & Hd1 & Hpw1); [lia|].
    set (st1 := new_part hdrs st) in *.
    destruct (err st1) eqn:He1; [unfold keeps; ssplit; auto|].
    rewrite andthen_run by (apply HI1).
    destruct (write_body_spec (p_prod p) (p_enc p) st1 HI1) as (HI2 & Hm2 & Hp2 & Hd2); [right; auto|].
    unfold keeps. ssplit; auto; try lia; try (intros He; apply Hm2; auto).
Qed.

Definition has_failing_rfile (fe : file * enc) : bool := pfail (f_prod (fst fe)).

Lemma add_files_spec : forall encl files st,
  Inv st ->
  keeps st (add_files encl files st) /\
  (existsb has_failing_rfile files = true -> err (add_files encl files st) = true).
Proof.
  intros encl files. induction files as [|[f' e] rest IH]; intros st HI; cbn [add_files].
  - unfold keeps. cbn. ssplit; auto. discriminate.
  - rewrite (Inv_panicked _ HI).
    set (hdrs := map _ (f_hdr f')).
    set (st1 := if Nat.eqb (depth st) 0 then _ else _).
    assert (K1 : keeps st st1 /\ (err st1 = false -> depth st1 = 0 \/ exists i, pw st1 = Some i /\ i < length (mps st1))).
    { unfold st1. destruct (Nat.eqb_spec (depth st) 0) as [Hz|Hnz].
      - assert (F : frame st (if encl then write_part_header hdrs st
                              else write_string crlf (fold_left (fun s kv => write_header_uncounted (fst kv) (snd kv) s) (sort_kv hdrs) st))).
        { destruct encl; [apply write_part_header_frame|].
          eapply frame_trans; [|apply write_string_frame]. apply fold_frame. intros s kv. apply write_header_uncounted_frame. }
        split.
        + apply frame_keeps; [exact HI|exact F].
        + intros _. left. destruct F as (_ & D & _). lia.
      - destruct (new_part_spec hdrs st HI) as (HI1 & Hm1 & Hd1 & Hpw1); [lia|].
        split; [unfold keeps; auto|]. intros He. right. auto. }
    destruct K1 as ((HI1 & Hm1 & Hd1) & Hpw1).
    set (st2 := if err st1 then st1 else st1 |> write_body (f_prod f') e).
    assert (K2 : keeps st1 st2 /\ (pfail (f_prod f') = true -> err st2 = true)).
    { unfold st2. destruct (err st1) eqn:He1; [unfold keeps; ssplit; auto|].
      rewrite andthen_run by (apply HI1).
      destruct (write_body_spec (f_prod f') e st1 HI1 (Hpw1 eq_refl)) as (HI2 & Hm2 & Hp2 & Hd2).
      unfold keeps. ssplit; fin. }
    destruct K2 as ((HI2 & Hm2 & Hd2) & Hp2).
    destruct (IH st2 HI2) as ((HI3 & Hm3 & Hd3) & Hp3).
    unfold keeps. ssplit; auto; try lia.
    cbn [existsb]. unfold has_failing_rfile at 1. cbn [fst]. intros Hex. apply orb_true_iff in Hex.
    destruct Hex as [Hx|Hx]; [apply Hm3, Hp2, Hx|apply Hp3, Hx].
Qed.

Lemma write_parts_spec : forall encl we cs parts st,
  Inv st ->
  keeps st (fold_left (fun s p => s |> write_part encl we cs p) parts st) /\
  (existsb has_failing_part parts = true ->
   err (fold_left (fun s p => s |> write_part encl we cs p) parts st) = true).
Proof.
  intros encl we cs parts. induction parts as [|p rest IH]; intros st HI; cbn [fold_left existsb].
  - unfold keeps. ssplit; auto. discriminate.
  - rewrite andthen_run by (apply HI).
    destruct (write_part_spec encl we cs p st HI) as ((HI1 & Hm1 & Hd1) & Hp1).
    destruct (IH _ HI1) as ((HI2 & Hm2 & Hd2) & Hp2).
    unfold keeps. ssplit; auto; try lia.
    unfold has_failing_part at 1. intros Hex. apply orb_true_iff in Hex.
    destruct Hex as [Hx|Hx]; [apply Hm2, Hp1, Hx|apply Hp2, Hx].
Qed.

Lemma open_mp_spec : forall c mime b bad st,
  Inv st -> Inv (open_mp c mime b bad st) /\ (err st = true -> err (open_mp c mime b bad st) = true).
Proof.
  intros c mime b bad st HI. unfold open_mp. destruct c; [|auto].
  rewrite (Inv_panicked _ HI).
  destruct (start_mp_spec mime b bad st HI) as (HI1 & Hm1 & Hd1).
  set (s := start_mp mime b bad st) in *.
  destruct (Nat.eqb (depth s) 1); [|auto].
  rewrite andthen_run by (apply HI1).
  destruct (write_string_ext Gen.double_newline s) as (E & _). destruct (E HI1) as [HI2 Hm2]. auto.
Qed.

Lemma close_mp_spec : forall c st,
  Inv st -> Inv (close_mp c st) /\ (err st = true -> err (close_mp c st) = true).
Proof.
  intros c st HI. unfold close_mp. destruct c; [|auto].
  rewrite andthen_run by (apply HI). destruct (stop_mp_spec st HI) as (A & B & _). auto.
Qed.

Lemma add_files_safe_spec : forall encl files st,
  Inv st ->
  Inv (add_files_safe encl files st) /\
  (err st = true -> err (add_files_safe encl files st) = true) /\
  (existsb has_failing_rfile files = true -> err (add_files_safe encl files st) = true).
Proof.
  intros encl files st HI. unfold add_files_safe. rewrite (Inv_panicked _ HI).
  destruct (add_files_spec encl files st HI) as ((A & B & _) & C). auto.
Qed.

Lemma headers_spec : forall gen m st,
  Inv st ->
  Inv (write_addr_headers m (write_preformatted (m_preform m) (write_gen_headers gen st))) /\
  (err st = true -> err (write_addr_headers m (write_preformatted (m_preform m) (write_gen_headers gen st))) = true).
Proof.
  intros gen m st HI.
  assert (F : frame st (write_addr_headers m (write_preformatted (m_preform m) (write_gen_headers gen st)))).
  { unfold write_addr_headers, write_preformatted, write_gen_headers.
    eapply frame_trans; [apply fold_frame; intros s kv; apply write_header_counted_frame|].
    eapply frame_trans; [apply fold_frame; intros s kv; eapply frame_trans; [apply write_string_frame|apply add_hcount_frame]|].
    eapply frame_trans; [|apply fold_frame; intros s k; destruct (find _ (m_addr m)); [apply write_header_counted_frame|apply frame_refl]].
    destruct (m_from m); [apply write_header_counted_frame|apply frame_refl]. }
  destruct (frame_keeps _ _ HI F) as (A & B & _). auto.
Qed.

Definition rmsg_has_failing_producer (z : rmsg) : bool :=
  existsb has_failing_part (m_parts (z_msg z)) || existsb has_failing_rfile (z_embeds z) || existsb has_failing_rfile (z_attach z).

Lemma write_entity_spec : forall encl z st4,
  Inv st4 ->
  Inv (write_entity encl z st4) /\
  (err st4 = true -> err (write_entity encl z st4) = true) /\
  (rmsg_has_failing_producer z = true -> err (write_entity encl z st4) = true).
Proof.
  intros encl z st4 HI4. unfold write_entity. set (m := z_msg z).
  destruct (open_mp_spec (has_mixed m) Gen.mime_mixed (m_bmixed m) (z_bad_mixed z) st4 HI4) as (HI5 & Hm5).
  set (st5 := open_mp (has_mixed m) _ _ _ st4) in *.
  destruct (open_mp_spec (has_related m) Gen.mime_related (m_brelated m) (z_bad_related z) st5 HI5) as (HI6 & Hm6).
  set (st6 := open_mp (has_related m) _ _ _ st5) in *.
  destruct (open_mp_spec (has_alt m) Gen.mime_alternative (m_balt m) (z_bad_alt z) st6 HI6) as (HI7 & Hm7).
  set (st7 := open_mp (has_alt m) _ _ _ st6) in *.
  destruct (write_parts_spec encl (m_wenc m) (m_charset m) (m_parts m) st7 HI7) as ((HI8 & Hm8 & _) & Hp8).
  fold (write_parts encl m st7) in *.
  destruct (close_mp_spec (has_alt m) (write_parts encl m st7) HI8) as (HI9 & Hm9).
  set (st9 := close_mp (has_alt m) (write_parts encl m st7)) in *.
  destruct (add_files_safe_spec encl (z_embeds z) st9 HI9) as (HI10 & Hm10 & Hp10).
  set (st10 := add_files_safe encl (z_embeds z) st9) in *.
  destruct (close_mp_spec (has_related m) st10 HI10) as (HI11 & Hm11).
  set (st11 := close_mp (has_related m) st10) in *.
  destruct (add_files_safe_spec encl (z_attach z) st11 HI11) as (HI12 & Hm12 & Hp12).
  set (st12 := add_files_safe encl (z_attach z) st11) in *.
  destruct (close_mp_spec (has_mixed m) st12 HI12) as (HI13 & Hm13).
  ssplit; [exact HI13| |].
  - intros He. auto 20.
  - unfold rmsg_has_failing_producer. fold m. intros Hex.
    apply orb_true_iff in Hex. destruct Hex as [Hex|Hx].
    + apply orb_true_iff in Hex. destruct Hex as [Hx|Hx].
      * apply Hm13, Hm12, Hm11, Hm10, Hm9, Hp8, Hx.
      * apply Hm13, Hm12, Hm11, Hp10, Hx.
    + apply Hm13, Hp12, Hx.
Qed.

Lemma write_top_headers_spec : forall z st,
  Inv st -> Inv (write_top_headers z st) /\ (err st = true -> err (write_top_headers z st) = true).
Proof. intros z st HI. unfold write_top_headers. now apply headers_spec. Qed.

Lemma write_resolved_gen_spec : forall encl z st,
  Inv st ->
  Inv (write_resolved_gen encl z st) /\
  (err st = true -> err (write_resolved_gen encl z st) = true) /\
  (rmsg_has_failing_producer z = true -> err (write_resolved_gen encl z st) = true).
Proof.
  intros encl z st HI. unfold write_resolved_gen.
  destruct (write_top_headers_spec z st HI) as (HI4 & Hm4).
  destruct (write_entity_spec encl z _ HI4) as (A & B & C). ssplit; auto.
Qed.

Lemma write_resolved_spec : forall z st,
  Inv st ->
  Inv (write_resolved z st) /\
  (err st = true -> err (write_resolved z st) = true) /\
  (rmsg_has_failing_producer z = true -> err (write_resolved z st) = true).
Proof. intros z st HI. now apply write_resolved_gen_spec. Qed.

Definition msg_has_failing_producer (m : msg) : bool :=
  existsb has_failing_part (m_parts m) || existsb has_failing_file (m_embeds m) || existsb has_failing_file (m_attach m).

Lemma existsb_map_file_headers : forall w a files,
  existsb has_failing_rfile (map (file_headers w a) files) = existsb has_failing_file files.
Proof. intros w a files. induction files as [|f r IH]; cbn; [reflexivity|]. now rewrite IH. Qed.

Lemma resolve_failing : forall date msgid rb m,
  rmsg_has_failing_producer (resolve date msgid rb m) = msg_has_failing_producer m.
Proof.
  intros date msgid rb m. unfold resolve.
  destruct (if has_mixed m then _ else _) as [bm badm].
  destruct (if has_related m then _ else _) as [br badr].
  destruct (if has_alt m then _ else _) as [ba bada].
  unfold rmsg_has_failing_producer, msg_has_failing_producer. cbn.
  now rewrite !existsb_map_file_headers.
Qed.

Lemma write_msg_spec : forall date msgid rb m st,
  Inv st ->
  Inv (fst (write_msg date msgid rb m st)) /\
  (err st = true -> err (fst (write_msg date msgid rb m st)) = true) /\
  (msg_has_failing_producer m = true -> err (fst (write_msg date msgid rb m st)) = true).
Proof.
  intros date msgid rb m st HI. unfold write_msg. cbn [fst].
  destruct (write_resolved_spec (resolve date msgid rb m) st HI) as (A & B & C).
  ssplit; auto. intros H. apply C. now rewrite resolve_failing.
Qed.

Lemma Inv_init : forall k, accepted k = [] -> failed k = false -> Inv (mw_init k).
Proof. intros k Ha Hf. unfold Inv, mw_init; cbn. rewrite Ha, Hf. ssplit; auto; discriminate. Qed.

(* ---- the C12 statements ---- *)
Definition fresh_sink (k : sink) : Prop := accepted k = [] /\ failed k = false.

Theorem write_to_no_panic : forall date msgid rb m k,
  fresh_sink k -> r_panic (write_to date msgid rb m k) = false.
Proof.
  intros date msgid rb m k [Ha Hf]. unfold write_to.
  destruct (write_msg_spec date msgid rb m (mw_init k) (Inv_init k Ha Hf)) as (HI & _).
  destruct (write_msg date msgid rb m (mw_init k)) as [st m']. cbn [fst] in HI. cbn. apply HI.
Qed.

Theorem write_to_count : forall date msgid rb m k,
  fresh_sink k -> r_n (write_to date msgid rb m k) = length (r_out (write_to date msgid rb m k)).
Proof.
  intros date msgid rb m k [Ha Hf]. unfold write_to.
  destruct (write_msg_spec date msgid rb m (mw_init k) (Inv_init k Ha Hf)) as (HI & _).
  destruct (write_msg date msgid rb m (mw_init k)) as [st m']. cbn [fst] in HI. cbn. apply HI.
Qed.

(* the destination failed at some point (it rejected at least one Write) => error reported *)
Theorem write_to_sink_failure_reported : forall date msgid rb m k,
  fresh_sink k ->
  failed (snk (fst (write_msg date msgid rb m (mw_init k)))) = true ->
  r_err (write_to date msgid rb m k) = true.
Proof.
  intros date msgid rb m k [Ha Hf] Hfail. unfold write_to.
  destruct (write_msg_spec date msgid rb m (mw_init k) (Inv_init k Ha Hf)) as (HI & _).
  destruct (write_msg date msgid rb m (mw_init k)) as [st m']. cbn [fst] in *. cbn. apply HI, Hfail.
Qed.

Theorem write_to_producer_failure_reported : forall date msgid rb m k,
  fresh_sink k -> msg_has_failing_producer m = true ->
  r_err (write_to date msgid rb m k) = true.
Proof.
  intros date msgid rb m k [Ha Hf] Hp. unfold write_to.
  destruct (write_msg_spec date msgid rb m (mw_init k) (Inv_init k Ha Hf)) as (_ & _ & H).
  destruct (write_msg date msgid rb m (mw_init k)) as [st m']. cbn [fst] in *. cbn. apply H, Hp.
Qed.
