(* HeaderBlockProofs.v — C02, whole-message form: a strict RFC 5322 field scanner
   (theories/HeaderScan.v) applied to the header sections go-mail renders finds exactly the
   expected field names, in order — no additional field, no premature end of the section. *)
From Coq Require Import String ZArith.
From Verif Require Import Bytes Base64 HeaderFold WordEnc Writer MimeTree Render HeaderScan.
From VerifGen Require Import Gen.
From VerifProofs Require Import WordEncProofs HeaderSafeProofs.
From Coq Require Import Lia ZifyBool ZifyNat ZifyN.
Open Scope nat_scope.

(* ---------- character classes ---------- *)
Lemma safe_facts : forall b, hdr_safe_byte b = true -> N.eqb b 13 = false /\ N.eqb b 10 = false.
Proof. intros b H. unfold hdr_safe_byte in H. lia. Qed.

Lemma name_char_facts : forall b, name_char b = true ->
  is_wsp b = false /\ N.eqb b 13 = false /\ N.eqb b 58 = false /\ N.eqb b 32 = false /\ hdr_safe_byte b = true.
Proof. intros b H. unfold name_char, is_wsp, hdr_safe_byte in *. lia. Qed.

(* a field name: non-empty, printable, no ':' and no blank *)
Definition key_ok (k : bytes) : bool := match k with [] => false | _ => forallb name_char k end.
Definition safe (v : bytes) : Prop := forallb hdr_safe_byte v = true.
Definition vals_safe (vs : list bytes) : Prop := Forall safe vs.
Definition kv_ok (kv : bytes * list bytes) : Prop := key_ok (fst kv) = true /\ vals_safe (snd kv).

Lemma key_ok_chars : forall k, key_ok k = true -> forallb name_char k = true.
Proof. intros [|b k] H; [discriminate|exact H]. Qed.

Lemma key_ok_safe : forall k, key_ok k = true -> safe k.
Proof.
  intros k H. apply key_ok_chars in H. unfold safe. induction k as [|b k IH]; [reflexivity|].
  cbn [forallb] in *. apply andb_true_iff in H. destruct H as [Hb Hk].
  destruct (name_char_facts b Hb) as (_ & _ & _ & _ & Hs). now rewrite Hs, IH.
Qed.

(* ---------- folded text ---------- *)
Lemma folded_safe : forall s, safe s -> folded s.
Proof.
  induction s as [|b s IH]; intros H; [constructor|].
  unfold safe in *. cbn [forallb] in H. apply andb_true_iff in H. destruct H as [Hb Hs]. constructor; auto.
Qed.

Lemma folded_app : forall a b, folded a -> folded b -> folded (a ++ b).
Proof.
  intros a b Ha Hb. induction Ha as [|c s Hc Hs IH|s Hs IH]; cbn [app]; [exact Hb|now constructor|].
  change (folded (13%N :: 10%N :: 32%N :: s ++ b)). now constructor.
Qed.

Lemma folded_tail : forall b s, N.eqb b 13 = false -> folded (b :: s) -> folded s.
Proof. intros b s Hb H. inversion H; subst; [assumption|discriminate]. Qed.

Lemma folded_strip : forall k s, forallb name_char k = true -> folded (k ++ s) -> folded s.
Proof.
  induction k as [|b k IH]; intros s Hk H; [exact H|].
  cbn [forallb] in Hk. apply andb_true_iff in Hk. destruct Hk as [Hb Hk].
  destruct (name_char_facts b Hb) as (_ & H13 & _). apply IH; [exact Hk|]. now apply (folded_tail b).
Qed.

(* ---------- the scanner on one field ---------- *)
Lemma body_folded : forall R, folded R -> forall rest,
  fscan (FBody 0) (R ++ crlf ++ rest) = fscan (FLine true) rest.
Proof.
  induction 1 as [|b s Hb Hs IH|s Hs IH]; intros rest.
  - reflexivity.
  - destruct (safe_facts b Hb) as [H13 H10]. cbn [app fscan]. rewrite H13, H10. apply IH.
  - cbn [app]. change (fscan (FBody 0) (13%N :: 10%N :: 32%N :: s ++ crlf ++ rest)) with (fscan (FBody 0) (s ++ crlf ++ rest)).
    apply IH.
Qed.

Lemma name_scan : forall k acc x, forallb name_char k = true ->
  fscan (FName acc) (k ++ 58%N :: x) =
  match fscan (FBody 0) x with Some ns => Some ((acc ++ k) :: ns) | None => None end.
Proof.
  induction k as [|b k IH]; intros acc x H.
  - cbn [app fscan]. change (N.eqb 58 58) with true. cbn iota. now rewrite app_nil_r.
  - cbn [forallb] in H. apply andb_true_iff in H. destruct H as [Hb Hk].
    destruct (name_char_facts b Hb) as (_ & _ & H58 & _).
    cbn [app fscan]. rewrite H58, Hb. rewrite (IH _ x Hk), <- app_assoc. reflexivity.
Qed.

(* ---------- blocks of complete fields ---------- *)
Definition nonnil {A} (l : list A) : bool := match l with [] => false | _ => true end.
Definition pre (ns : list bytes) (o : option (list bytes)) : option (list bytes) :=
  match o with Some l => Some (ns ++ l) | None => None end.

(* the text T consists of complete fields whose names are ns *)
Definition yields (T : bytes) (ns : list bytes) : Prop :=
  forall h rest, fscan (FLine h) (T ++ rest) = pre ns (fscan (FLine (h || nonnil ns)) rest).

Lemma yields_nil : yields [] [].
Proof. intros h rest. cbn [app nonnil]. rewrite orb_false_r. destruct (fscan _ rest); reflexivity. Qed.

Lemma yields_app : forall T1 T2 n1 n2, yields T1 n1 -> yields T2 n2 -> yields (T1 ++ T2) (n1 ++ n2).
Proof.
  intros T1 T2 n1 n2 H1 H2 h rest. rewrite <- app_assoc, H1, H2.
  assert (E : (h || nonnil n1 || nonnil n2)%bool = (h || nonnil (n1 ++ n2))%bool) by (destruct n1; cbn [nonnil app]; [now rewrite orb_false_r|now rewrite !orb_true_r]).
  rewrite E. destruct (fscan _ rest); cbn [pre]; [now rewrite app_assoc|reflexivity].
Qed.

Lemma yields_flat_map : forall A (g : A -> bytes) (n : A -> list bytes) l,
  (forall a, In a l -> yields (g a) (n a)) -> yields (flat_map g l) (flat_map n l).
Proof.
  intros A g n l. induction l as [|a l IH]; intros H; cbn [flat_map]; [apply yields_nil|].
  apply yields_app; [apply H; now left|apply IH; intros x Hx; apply H; now right].
Qed.

Lemma field_yields : forall k R, key_ok k = true -> folded R -> yields (k ++ 58%N :: R ++ crlf) [k].
Proof.
  intros k R Hk HR h rest. pose proof (key_ok_chars k Hk) as Hc.
  destruct k as [|b k]; [discriminate|]. cbn [forallb] in Hc. apply andb_true_iff in Hc. destruct Hc as [Hb Hc].
  destruct (name_char_facts b Hb) as (Hw & H13 & _).
  replace (((b :: k) ++ 58%N :: R ++ crlf) ++ rest) with (b :: k ++ 58%N :: (R ++ crlf ++ rest))
    by (cbn [app]; rewrite <- !app_assoc; cbn [app]; now rewrite <- !app_assoc).
  cbn [fscan]. rewrite Hw, H13, Hb. rewrite (name_scan k [b] _ Hc), (body_folded R HR).
  cbn [nonnil]. rewrite orb_true_r. destruct (fscan _ rest); reflexivity.
Qed.

Lemma end_of_section : forall h rest, fscan (FLine h) (crlf ++ rest) = Some [].
Proof. reflexivity. Qed.

Lemma yields_names : forall T ns rest, yields T ns -> field_names (T ++ crlf ++ rest) = Some ns.
Proof. intros T ns rest H. unfold field_names. rewrite H, end_of_section. cbn [pre]. now rewrite app_nil_r. Qed.

(* ---------- msgWriter.writeHeader ---------- *)
Lemma drop_prefix : forall k x, forallb (fun b => negb (N.eqb b 32)) k = true ->
  drop_sp_before_crlf (k ++ x) = k ++ drop_sp_before_crlf x.
Proof.
  induction k as [|b k IH]; intros x H; [reflexivity|].
  cbn [forallb] in H. apply andb_true_iff in H. destruct H as [Hb Hk]. apply negb_true_iff in Hb.
  cbn [app]. rewrite drop_cons, Hb. cbn [andb]. now rewrite IH.
Qed.

Lemma key_no_sp : forall k, forallb name_char k = true -> forallb (fun b => negb (N.eqb b 32)) (k ++ [58%N]) = true.
Proof.
  induction k as [|b k IH]; intros H; [reflexivity|].
  cbn [forallb] in H. apply andb_true_iff in H. destruct H as [Hb Hk].
  destruct (name_char_facts b Hb) as (_ & _ & _ & H32 & _). cbn [app forallb]. now rewrite H32, IH.
Qed.

Lemma wh_buffer_shape : forall k vs, key_ok k = true -> vals_safe vs ->
  exists R, wh_buffer k vs = k ++ 58%N :: R /\ folded R.
Proof.
  intros k vs Hk Hv. pose proof (key_ok_chars k Hk) as Hc.
  pose proof (wh_buffer_folded k vs (key_ok_safe k Hk) Hv) as HF.
  assert (E : exists R, wh_buffer k vs = (k ++ [58%N]) ++ R).
  { unfold wh_buffer. rewrite wh_words_gen.
    change (bs ": ") with ([58%N] ++ [32%N]). rewrite app_assoc, <- (app_assoc (k ++ [58%N])).
    rewrite drop_prefix by now apply key_no_sp. eauto. }
  destruct E as [R E]. exists R. rewrite <- app_assoc in E. cbn [app] in E. split; [exact E|].
  rewrite E in HF. apply (folded_strip k) in HF; [|exact Hc]. now apply (folded_tail 58%N).
Qed.

Lemma hline_yields : forall k vs, key_ok k = true -> vals_safe vs ->
  yields (hline k vs) (if nonnil vs then [k] else []).
Proof.
  intros k vs Hk Hv. unfold hline, write_header. destruct vs as [|v vs]; cbn [fst nonnil]; [apply yields_nil|].
  destruct (wh_buffer_shape k (v :: vs) Hk Hv) as (R & E & HR). rewrite E.
  replace ((k ++ 58%N :: R) ++ crlf) with (k ++ 58%N :: R ++ crlf) by (now rewrite <- app_assoc).
  now apply field_yields.
Qed.

Definition kv_names (l : list (bytes * list bytes)) : list bytes :=
  flat_map (fun kv => if nonnil (snd kv) then [fst kv] else []) l.

Lemma hlines_yield : forall l, Forall kv_ok l ->
  yields (flat_map (fun kv => hline (fst kv) (snd kv)) l) (kv_names l).
Proof.
  intros l H. unfold kv_names. apply yields_flat_map. intros kv Hin.
  rewrite Forall_forall in H. destruct (H kv Hin) as [Hk Hv]. now apply hline_yields.
Qed.

Lemma insert_kv_Forall : forall V (P : bytes * V -> Prop) kv l, P kv -> Forall P l -> Forall P (insert_kv kv l).
Proof.
  intros V P kv l Hkv Hl. induction Hl as [|h t Hh Ht IH]; cbn [insert_kv]; [auto|].
  destruct (bytes_leb _ _); auto.
Qed.

Lemma sort_kv_Forall : forall V (P : bytes * V -> Prop) l, Forall P l -> Forall P (sort_kv l).
Proof.
  intros V P l H. unfold sort_kv. induction H as [|h t Hh Ht IH]; cbn [fold_right]; [constructor|].
  now apply insert_kv_Forall.
Qed.

(* ---------- the top-level header block ---------- *)
(* what go-mail's setters store: printable keys without ':' / blank, printable (encoded) values *)
Definition hdrs_safe (m : msg) : Prop :=
  Forall kv_ok (m_gen m) /\
  (forall f, m_from m = Some f -> safe f) /\
  Forall (fun kv => vals_safe (snd kv)) (m_addr m).

Definition addr_names (m : msg) : list bytes :=
  flat_map (fun k => match find (fun kv => bytes_eqb (fst kv) k) (m_addr m) with
                     | Some kv => if nonnil (snd kv) then [k] else []
                     | None => []
                     end) Gen.render_addr_headers.

(* the expected names: the sorted generic header keys that have a value, From, then the present
   address headers in the order of the source's list *)
Definition top_names (m : msg) : list bytes :=
  kv_names (sort_kv (m_gen m)) ++
  (match m_from m with Some _ => [Gen.hdr_from] | None => [] end) ++
  addr_names m.

Lemma gen_addr_keys_ok : key_ok Gen.hdr_from = true /\ forallb key_ok Gen.render_addr_headers = true.
Proof. split; reflexivity. Qed.

Theorem top_yields : forall m, hdrs_safe m -> m_preform m = [] -> yields (top_headers m) (top_names m).
Proof.
  intros m (Hg & Hf & Ha) Hp. unfold top_headers, top_names.
  apply yields_app; [apply hlines_yield, sort_kv_Forall, Hg|].
  rewrite Hp. change (preform_text []) with (@nil N). cbn [app].
  unfold addr_text. apply yields_app.
  - destruct (m_from m) as [f|]; [|apply yields_nil].
    apply (hline_yields Gen.hdr_from [f]); [apply gen_addr_keys_ok|]. constructor; [now apply Hf|constructor].
  - unfold addr_names. apply yields_flat_map. intros k Hin.
    destruct (find _ (m_addr m)) as [kv|] eqn:E; [|apply yields_nil].
    apply hline_yields.
    + destruct gen_addr_keys_ok as [_ H]. rewrite forallb_forall in H. now apply H.
    + apply find_some in E. destruct E as [E _]. rewrite Forall_forall in Ha. now apply Ha.
Qed.

Theorem top_header_block : forall m rest,
  hdrs_safe m -> m_preform m = [] ->
  field_names (top_headers m ++ crlf ++ rest) = Some (top_names m).
Proof. intros m rest H Hp. apply yields_names. now apply top_yields. Qed.

(* ---------- part header sections (multipart.Writer.CreatePart) ---------- *)
Definition part_names (hdrs : list (bytes * list bytes)) : list bytes :=
  flat_map (fun kv => map (fun _ => fst kv) (snd kv)) (sort_kv hdrs).

Lemma part_line_yields : forall k v, key_ok k = true -> safe v -> yields (k ++ bs ": " ++ v ++ crlf) [k].
Proof.
  intros k v Hk Hv.
  change (k ++ bs ": " ++ v ++ crlf) with (k ++ 58%N :: (32%N :: v) ++ crlf).
  apply field_yields; [exact Hk|]. apply folded_safe. unfold safe. cbn [forallb]. exact Hv.
Qed.

Theorem part_yields : forall hdrs, Forall kv_ok hdrs -> yields (part_header_lines hdrs) (part_names hdrs).
Proof.
  intros hdrs H. unfold part_header_lines, part_names. apply yields_flat_map. intros kv Hin.
  apply sort_kv_Forall in H. rewrite Forall_forall in H. destruct (H kv Hin) as [Hk Hv].
  destruct kv as [k vs]. cbn [fst snd] in *. clear Hin.
  induction Hv as [|v r Hv Hr IH]; cbn [flat_map map]; [apply yields_nil|].
  change (k :: map (fun _ => k) r) with ([k] ++ map (fun _ => k) r).
  apply yields_app; [now apply part_line_yields|exact IH].
Qed.

Theorem part_section_names : forall hdrs rest,
  Forall kv_ok hdrs -> field_names (part_header_lines hdrs ++ crlf ++ rest) = Some (part_names hdrs).
Proof. intros hdrs rest H. apply yields_names. now apply part_yields. Qed.

(* ---------- the whole message: top-level block + the entity's own header lines ---------- *)
Lemma mp_hdr_yields : forall mime b, safe mime -> safe b -> yields (mp_hdr mime b) [bs "Content-Type"].
Proof.
  intros mime b Hm Hb. unfold mp_hdr.
  change (bs "Content-Type: " ++ (bs "multipart/" ++ mime ++ bs ";" ++ crlf ++ bs " boundary=" ++ b) ++ crlf)
    with (bs "Content-Type" ++ 58%N :: (32%N :: bs "multipart/" ++ mime ++ bs ";" ++ crlf ++ bs " boundary=" ++ b) ++ crlf).
  apply field_yields; [reflexivity|].
  apply (folded_app (32%N :: bs "multipart/")); [apply folded_safe; reflexivity|].
  apply folded_app; [now apply folded_safe|].
  apply (folded_app (bs ";")); [apply folded_safe; reflexivity|].
  change (crlf ++ bs " boundary=" ++ b) with (13%N :: 10%N :: 32%N :: bs "boundary=" ++ b).
  apply fo_fold. apply folded_app; [apply folded_safe; reflexivity|now apply folded_safe].
Qed.

Definition file_ok (fe : file * enc) : Prop := Forall kv_ok (file_kvs (fst fe)).

(* the entity's own header is safe: boundaries printable; a part's type / charset / encoding name
   printable; file header caches with field-name keys and printable values *)
Definition entity_safe (z : rmsg) : Prop :=
  let m := z_msg z in
  safe (m_bmixed m) /\ safe (m_brelated m) /\ safe (m_balt m) /\
  Forall (fun p => safe (enc_name (p_enc p)) /\ safe (part_ctype (m_charset m) p)) (m_parts m) /\
  Forall file_ok (z_embeds z) /\ Forall file_ok (z_attach z).

(* header block and expected field names of the outermost node *)
Definition node_hdr (t : node) : bytes := match t with Leaf h _ => h | Multi h _ _ => h end.

Definition entity_names (z : rmsg) : list bytes :=
  let m := z_msg z in
  if (has_mixed m || has_related m || has_alt m)%bool then [bs "Content-Type"]
  else match m_parts m, z_embeds z, z_attach z with
       | [_], [], [] => [h_cte; h_ctype]
       | [], [fe], [] => map fst (sort_kv (file_kvs (fst fe)))
       | [], [], [fe] => map fst (sort_kv (file_kvs (fst fe)))
       | _, _, _ => []
       end.

Lemma kv_names_file : forall f, kv_names (sort_kv (file_kvs f)) = map fst (sort_kv (file_kvs f)).
Proof.
  intros f. unfold kv_names.
  assert (H : Forall (fun kv : bytes * list bytes => nonnil (snd kv) = true) (sort_kv (file_kvs f))).
  { apply sort_kv_Forall. unfold file_kvs. apply Forall_forall. intros kv Hin.
    apply in_map_iff in Hin. destruct Hin as (x & E & _). subst kv. reflexivity. }
  induction H as [|kv l Hkv Hl IH]; cbn [flat_map map]; [reflexivity|]. rewrite Hkv, IH. reflexivity.
Qed.

Lemma file_top_yields : forall fe, file_ok fe ->
  yields (file_hdr true (fst fe)) (map fst (sort_kv (file_kvs (fst fe)))).
Proof.
  intros fe H. unfold file_hdr. rewrite <- kv_names_file. apply hlines_yield. now apply sort_kv_Forall.
Qed.

Theorem entity_yields : forall z t,
  entity_safe z -> forest_of z = [t] -> yields (node_hdr t) (entity_names z).
Proof.
  intros z t (S1 & S2 & S3 & Sp & Se & Sa). unfold forest_of, forest_gen, mix_level, rel_level, alt_level, entity_names.
  cbv zeta. cbn [negb].
  assert (Mm : safe Gen.mime_mixed) by reflexivity.
  assert (Mr : safe Gen.mime_related) by reflexivity.
  assert (Ma : safe Gen.mime_alternative) by reflexivity.
  destruct (has_mixed (z_msg z)); cbn [orb wrap_mp].
  { intros E. inversion E; subst. cbn [node_hdr]. now apply mp_hdr_yields. }
  destruct (has_related (z_msg z)); cbn [orb wrap_mp].
  { destruct (z_attach z); cbn [map app]; intros E; inversion E; subst. cbn [node_hdr]. now apply mp_hdr_yields. }
  destruct (has_alt (z_msg z)); cbn [orb wrap_mp].
  { destruct (z_embeds z); cbn [map app]; intros E; [|inversion E].
    destruct (z_attach z); cbn [map app] in E; inversion E; subst. cbn [node_hdr]. now apply mp_hdr_yields. }
  destruct (m_parts (z_msg z)) as [|p [|p2 ps]]; cbn [map app].
  - destruct (z_embeds z) as [|fe [|fe2 es]]; cbn [map app].
    + destruct (z_attach z) as [|fa [|fa2 az]]; cbn [map app]; intros E; inversion E; subst.
      cbn [node_hdr file_leaf]. inversion Sa; subst. now apply file_top_yields.
    + destruct (z_attach z); cbn [map app]; intros E; inversion E; subst.
      cbn [node_hdr file_leaf]. inversion Se; subst. now apply file_top_yields.
    + intros E. destruct (z_attach z); inversion E.
  - destruct (z_embeds z); cbn [map app]; [|intros E; destruct (z_attach z); inversion E].
    destruct (z_attach z); cbn [map app]; intros E; inversion E; subst.
    cbn [node_hdr part_leaf]. unfold part_hdr. inversion Sp as [|? ? [Hc Ht] _]; subst.
    change [h_cte; h_ctype] with ([h_cte] ++ [h_ctype]).
    apply yields_app.
    + apply (hline_yields h_cte [enc_name (p_enc p)]); [reflexivity|]. constructor; [exact Hc|constructor].
    + apply (hline_yields h_ctype [part_ctype (m_charset (z_msg z)) p]); [reflexivity|]. constructor; [exact Ht|constructor].
  - intros E. destruct (z_embeds z); cbn [map app] in E; [destruct (z_attach z)|]; inversion E.
Qed.

Lemma ser_node_hdr : forall t, exists rest, ser_node t = node_hdr t ++ crlf ++ rest.
Proof. intros [h body|h b kids]; cbn [ser_node node_hdr]; eauto. Qed.

(* THE WHOLE MESSAGE: the header section of the rendered message, as a strict scanner sees it up
   to the first empty line, consists of exactly the expected fields *)
Theorem message_header_fields : forall z t,
  hdrs_safe (z_msg z) -> m_preform (z_msg z) = [] -> entity_safe z -> forest_of z = [t] ->
  field_names (render_pure z) = Some (top_names (z_msg z) ++ entity_names z).
Proof.
  intros z t Hs Hp He Ht. unfold render_pure, body_pure, body_gen. fold (forest_of z). rewrite Ht.
  cbn [map concat]. rewrite app_nil_r. destruct (ser_node_hdr t) as [rest E]. rewrite E.
  rewrite app_assoc. apply yields_names. apply yields_app; [now apply top_yields|now apply entity_yields].
Qed.
