(* C10: every RFC 2047-encoded value is a "good value" of the feature set (non-empty printable words
   separated by single blanks), so subjects that need encoding are never excluded by [good_value]. *)
From Coq Require Import String.
From Verif Require Import Bytes Base64 LineBreaker QP HeaderFold WordEnc Writer MimeTree Render.
From Verif Require Import Eml EmlRender EmlFront EmlRoundtrip EmlWord.
From VerifProofs Require Import CodecProofs WordEncProofs EmlRenderProofs EmlWordProofs.
From Coq Require Import Lia ZifyBool ZifyNat ZifyN.
Open Scope N_scope.

Definition wordy (s : bytes) : bool := forallb word_byte s.

Lemma hexdig_word : forall n, n < 16 -> word_byte (hexdig n) = true.
Proof. intros n H. unfold word_byte, hexdig. destruct (N.ltb_spec n 10); lia. Qed.

Lemma qbytes_wordy : forall c, wf_bytes c = true -> wordy (qbytes c) = true.
Proof.
  induction c as [|b c IH]; intros H; [reflexivity|].
  apply wf_cons in H. destruct H as [Hb Hc]. unfold wordy, qbytes in *. cbn [flat_map].
  rewrite forallb_app, (IH Hc), andb_true_r.
  unfold q_byte. destruct (N.eqb_spec b 32); [reflexivity|]. destruct (q_plain b) eqn:Hq.
  - cbn. unfold q_plain in Hq. unfold word_byte. lia.
  - cbn [forallb]. rewrite !hexdig_word; [reflexivity| apply N.mod_lt; lia | apply N.div_lt_upper_bound; lia].
Qed.

Lemma b64char_word : forall v, word_byte (b64char v) = true.
Proof.
  intros v. unfold word_byte, b64char.
  destruct (N.ltb_spec v 26); [lia|]. destruct (N.ltb_spec v 52); [lia|].
  destruct (N.ltb_spec v 62); [lia|]. destruct (N.eqb_spec v 62); lia.
Qed.

Lemma b64enc_wordy : forall s, wordy (b64enc s) = true.
Proof.
  fix IH 1. intros [|a [|b [|c t]]]; unfold wordy in *; cbn [b64enc forallb]; rewrite ?b64char_word; cbn; try reflexivity.
  apply IH.
Qed.

Lemma wordy_has32 : forall s, wordy s = true -> has 32 s = false.
Proof.
  intros s H. unfold has. apply not_true_iff_false. intros E. apply existsb_exists in E.
  destruct E as [x [Hx E]]. unfold wordy in H. rewrite forallb_forall in H. specialize (H x Hx).
  apply N.eqb_eq in E. subst x. discriminate.
Qed.

Lemma wordy_app : forall a b, wordy a = true -> wordy b = true -> wordy (a ++ b) = true.
Proof. intros a b Ha Hb. unfold wordy in *. now rewrite forallb_app, Ha, Hb. Qed.

Lemma good_word_wordy : forall w, w <> [] -> wordy w = true -> good_word w = true.
Proof. intros [|x w] Hne H; [congruence|]. unfold good_word. cbn [is_empty negb andb]. exact H. Qed.

Lemma good_tail : forall e ps w,
  (e = 113 \/ e = 98) -> w <> [] -> wordy w = true -> Forall (fun p => wordy p = true) ps ->
  good_value (w ++ words_tail e ps) = true.
Proof.
  intros e ps. induction ps as [|p ps IH]; intros w He Hne Hw Hps; cbn [words_tail].
  - unfold good_value. rewrite split_on_none.
    + cbn [forallb]. rewrite andb_true_r. apply good_word_wordy; [destruct w; [congruence|discriminate]|].
      apply wordy_app; [assumption|reflexivity].
    + apply wordy_has32. apply wordy_app; [assumption|reflexivity].
  - inversion Hps as [|? ? Hp Hr]; subst.
    assert (Ho : wordy (open_word e) = true) by (destruct He as [ -> | -> ]; reflexivity).
    change (w ++ split_word e ++ p ++ words_tail e ps)
      with (w ++ (close_word ++ [32] ++ open_word e) ++ p ++ words_tail e ps).
    replace (w ++ (close_word ++ [32] ++ open_word e) ++ p ++ words_tail e ps)
      with ((w ++ close_word) ++ 32 :: ((open_word e ++ p) ++ words_tail e ps)) by (now rewrite <- !app_assoc).
    unfold good_value. rewrite split_on_app.
    + cbn [forallb]. apply andb_true_iff. split.
      * apply good_word_wordy; [destruct w; [congruence|discriminate]|]. apply wordy_app; [assumption|reflexivity].
      * apply (IH (open_word e ++ p) He); [destruct He as [ -> | -> ]; discriminate|now apply wordy_app|assumption].
    + apply wordy_has32. apply wordy_app; [assumption|reflexivity].
Qed.

Theorem encoded_value_good : forall e s,
  (e = 113 \/ e = 98) -> wf_bytes s = true -> WordEnc.needs_encoding s = true ->
  good_value (word_encode e s) = true.
Proof.
  intros e s He Hwf Hn. unfold word_encode. rewrite Hn. unfold encode_word.
  assert (Ho : wordy (open_word e) = true) by (destruct He as [ -> | -> ]; reflexivity).
  assert (Hone : open_word e <> []) by (destruct He as [ -> | -> ]; discriminate).
  destruct He as [ -> | -> ].
  - change (113 =? 98) with false. cbv iota.
    destruct (q_encode_words s 0 0) as (c & cs & Es & Eq).
    assert (Hw : wf_bytes (c ++ concat cs) = true) by now rewrite <- Es.
    apply wf_app in Hw. destruct Hw as [Hc Hcs]. rewrite Eq, app_assoc.
    apply good_tail; [now left|destruct (open_word 113); [congruence|discriminate]|apply wordy_app; [assumption|now apply qbytes_wordy]|].
    apply Forall_forall. intros p Hin. apply in_map_iff in Hin. destruct Hin as [x [<- Hx]].
    apply qbytes_wordy. pose proof (wf_concat cs Hcs) as F. rewrite Forall_forall in F. now apply F.
  - change (98 =? 98) with true. cbv iota.
    destruct (Nat.leb (b64_encoded_len (length s)) max_content_len).
    + rewrite app_assoc. apply (good_tail 98 []); [now right|destruct (open_word 98); [congruence|discriminate]| |constructor].
      apply wordy_app; [assumption|apply b64enc_wordy].
    + destruct (b_encode_words s 0 []) as (c & cs & Es & Eq). rewrite Eq, app_assoc.
      apply good_tail; [now right|destruct (open_word 98); [congruence|discriminate]|apply wordy_app; [assumption|apply b64enc_wordy]|].
      apply Forall_forall. intros p Hin. apply in_map_iff in Hin. destruct Hin as [x [<- Hx]]. apply b64enc_wordy.
Qed.
