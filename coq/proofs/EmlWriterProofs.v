(* C10 tier B proofs: file name through Writer.file_hdrs and back through the parser. *)
From Coq Require Import String.
From Verif Require Import Bytes WordEnc Writer.
From Verif Require Import Eml EmlRender EmlWriter.
From VerifGen Require Import Gen.
From VerifProofs Require Import WordEncProofs RenderIdemProofs EmlProofs EmlRenderProofs.

Lemma sanitize_same : forall s, Writer.sanitize s = EmlRender.sanitize s.
Proof. reflexivity. Qed.

(* the value addFiles stores when no Content-Disposition is cached is the one of EmlRender.render_cd *)
Lemma cd_of_file_fresh : forall wenc is_att f,
  Writer.get_h Writer.h_cdisp (Writer.f_hdr f) = None ->
  cd_of_file wenc is_att f =
  Some (render_cd (if is_att then lit_attachment else lit_inline)
                  (word_encode wenc (EmlRender.sanitize (Writer.f_name f)))).
Proof.
  intros wenc is_att f Hnone. unfold cd_of_file, Writer.file_hdrs. cbv zeta. cbn [fst].
  rewrite reencode_get_other by reflexivity.
  set (h1 := Writer.ensure Writer.h_ctype _ (Writer.f_hdr f)).
  set (h2 := Writer.ensure Writer.h_cte _ h1).
  set (h3 := match Writer.f_desc f with [] => h2 | _ :: _ => _ end).
  assert (H3 : Writer.get_h Writer.h_cdisp h3 = None).
  { subst h3. destruct (Writer.f_desc f); [|rewrite ensure_get_other by reflexivity];
      subst h2; rewrite ensure_get_other by reflexivity;
      subst h1; rewrite ensure_get_other by reflexivity; exact Hnone. }
  destruct is_att.
  - rewrite ensure_get_same by discriminate. rewrite H3. reflexivity.
  - rewrite ensure_get_other by reflexivity.
    rewrite ensure_get_same by discriminate. rewrite H3. reflexivity.
Qed.

(* the parser returns the ENCODED sanitized name, whatever the word encoder did, unless it has a ';' *)
Lemma filename_via_writer_ok : forall wenc is_att f,
  Writer.get_h Writer.h_cdisp (Writer.f_hdr f) = None ->
  has 59 (word_encode wenc (EmlRender.sanitize (Writer.f_name f))) = false ->
  filename_via_writer wenc is_att f = Ok (word_encode wenc (EmlRender.sanitize (Writer.f_name f))).
Proof.
  intros wenc is_att f Hnone Hsemi. unfold filename_via_writer.
  rewrite (cd_of_file_fresh _ _ _ Hnone). apply parse_cd_render; [|assumption].
  destruct is_att; reflexivity.
Qed.

(* names the encoder leaves alone and without ';': the sanitized name comes back *)
Lemma filename_via_writer_plain : forall wenc is_att f,
  Writer.get_h Writer.h_cdisp (Writer.f_hdr f) = None ->
  WordEnc.needs_encoding (EmlRender.sanitize (Writer.f_name f)) = false ->
  has 59 (Writer.f_name f) = false ->
  filename_via_writer wenc is_att f = Ok (EmlRender.sanitize (Writer.f_name f)).
Proof.
  intros wenc is_att f Hnone Hne Hsemi.
  assert (E : word_encode wenc (EmlRender.sanitize (Writer.f_name f)) = EmlRender.sanitize (Writer.f_name f))
    by (unfold word_encode; now rewrite Hne).
  rewrite (filename_via_writer_ok wenc is_att f Hnone); [now rewrite E|].
  rewrite E. now apply sanitize_no_semicolon.
Qed.

(* names that need encoding never come back: the result is the encoded word, which differs *)
Lemma encoded_name_differs : forall e s,
  (e = 113%N \/ e = 98%N) -> wf_bytes s = true -> WordEnc.needs_encoding s = true -> word_encode e s <> s.
Proof.
  intros e s He Hwf Hn H.
  pose proof (safe_not_needs_encoding _ (word_encode_safe e s He Hwf)) as Hs.
  rewrite H in Hs. congruence.
Qed.

Lemma filename_via_writer_encoded : forall wenc is_att f,
  (wenc = 113%N \/ wenc = 98%N) ->
  Writer.get_h Writer.h_cdisp (Writer.f_hdr f) = None ->
  wf_bytes (EmlRender.sanitize (Writer.f_name f)) = true ->
  WordEnc.needs_encoding (EmlRender.sanitize (Writer.f_name f)) = true ->
  has 59 (word_encode wenc (EmlRender.sanitize (Writer.f_name f))) = false ->
  exists r, filename_via_writer wenc is_att f = Ok r /\ r <> EmlRender.sanitize (Writer.f_name f).
Proof.
  intros wenc is_att f He Hnone Hwf Hn Hsemi. eexists. split.
  - now apply filename_via_writer_ok.
  - now apply encoded_name_differs.
Qed.

(* witnesses on fresh files, Q word encoder (the default of NewMsg) *)
Lemma via_writer_plain_example :
  filename_via_writer 113 true (fresh_file (bs "a=b c.txt") (bs "text/plain")) = Ok (bs "a=b c.txt").
Proof. vm_compute. reflexivity. Qed.
Lemma via_writer_semicolon_refuted :
  filename_via_writer 113 true (fresh_file (bs "a;b.txt") (bs "text/plain")) = Ok (bs """a").
Proof. vm_compute. reflexivity. Qed.
Lemma via_writer_encoded_refuted :
  filename_via_writer 113 false (fresh_file [195%N; 164%N; 46%N; 116%N; 120%N; 116%N] (bs "text/plain"))
  = Ok (bs "=?UTF-8?q?=C3=A4.txt?=").
Proof. vm_compute. reflexivity. Qed.
