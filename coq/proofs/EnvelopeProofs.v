(* EnvelopeProofs.v — lemmas for C05 (command lines, RFC 5321 path round trip). *)
From Coq Require Import String Lia ZifyBool ZifyN.
From Verif Require Import Bytes Base64 Envelope.
From VerifGen Require Import Gen.
From VerifProofs Require Import LineBreakerProofs.
Open Scope N_scope.

(* ------------------------------------------------------------------ *)
(* T1 obligations                                                      *)
(* ------------------------------------------------------------------ *)
Lemma gen_smtp_mail_literals : smtp_mail_literals =
  [bs "MAIL FROM:<%s>"; bs "8BITMIME"; bs " BODY=8BITMIME"; bs "SMTPUTF8"; bs " SMTPUTF8"; bs "DSN"; [];
   bs " RET=%s"].
Proof. reflexivity. Qed.

Lemma gen_smtp_rcpt_literals : smtp_rcpt_literals =
  [bs "DSN"; []; bs "RCPT TO:<%s> NOTIFY=%s"; bs "RCPT TO:<%s>"].
Proof. reflexivity. Qed.

Lemma gen_smtp_helo_ehlo_literals :
  smtp_helo_literals = [bs "HELO %s"] /\ hd [] smtp_ehlo_literals = bs "EHLO %s".
Proof. split; reflexivity. Qed.

Lemma gen_validate_line_literal : hd [] smtp_validate_line_literals = [10; 13].
Proof. reflexivity. Qed.

(* smtpMailbox (repaired tree): "@", "..", the atext specials *)
Lemma gen_mailbox_literals :
  nth 1 mailbox_literals [] = [64] /\ nth 3 mailbox_literals [] = dotdot /\
  nth 4 mailbox_literals [] = atext_specials.
Proof. repeat split; reflexivity. Qed.

Lemma gen_helo_bad_byte : forall b, helo_bad_byte b = ((b <=? 32) || (b =? 127)).
Proof. reflexivity. Qed.
Lemma gen_mailbox_refuse_byte : forall b, mailbox_refuse_byte b = ((b <? 32) || (b =? 127)).
Proof. reflexivity. Qed.
Lemma gen_mailbox_escape_byte : forall b, mailbox_escape_byte b = ((b =? 34) || (b =? 92)).
Proof. reflexivity. Qed.

Lemma gen_param_bad_byte : forall b, param_bad_byte b = ((b <=? 32) || (b =? 61) || (127 <=? b)).
Proof. reflexivity. Qed.

(* the DSN options store the very expression they validate *)
Lemma gen_dsn_validated_is_stored : dsn_ret_validated_is_stored = true /\ dsn_notify_validated_is_stored = true.
Proof. split; reflexivity. Qed.

Lemma gen_dsn_constants :
  dsn_ret_hdrs = bs "HDRS" /\ dsn_ret_full = bs "FULL" /\ dsn_notify_never = bs "NEVER" /\
  dsn_notify_success = bs "SUCCESS" /\ dsn_notify_failure = bs "FAILURE" /\ dsn_notify_delay = bs "DELAY".
Proof. repeat split; reflexivity. Qed.

(* ------------------------------------------------------------------ *)
(* single line                                                         *)
(* ------------------------------------------------------------------ *)
Definition nocrlf (s : bytes) : Prop := forallb no_crlf_byte s = true.

Lemma nocrlf_app : forall a b, nocrlf a -> nocrlf b -> nocrlf (a ++ b).
Proof. intros a b Ha Hb. unfold nocrlf in *. rewrite forallb_app, Ha, Hb. reflexivity. Qed.

Lemma nocrlf_flat : forall l, Forall nocrlf l -> nocrlf (sp_params l).
Proof.
  induction 1 as [|p l Hp Hl IH]; [reflexivity|]. unfold sp_params. simpl.
  apply (nocrlf_app (32 :: p)); [|exact IH]. unfold nocrlf in *. simpl. exact Hp.
Qed.

Lemma Forall_app_intro : forall (A : Type) (P : A -> Prop) a b, Forall P a -> Forall P b -> Forall P (a ++ b).
Proof. induction 1; simpl; [auto|constructor; auto]. Qed.

Lemma mail_params_nocrlf : forall c ret, nocrlf ret -> Forall nocrlf (mail_params c ret).
Proof.
  intros c ret Hr. unfold mail_params. apply Forall_app_intro; [|apply Forall_app_intro].
  - destruct (c_8bit c); [constructor; [reflexivity|constructor]|constructor].
  - destruct (c_utf8 c); [constructor; [reflexivity|constructor]|constructor].
  - destruct (c_dsn c && negb match ret with [] => true | _ :: _ => false end); [|constructor].
    constructor; [|constructor]. apply (nocrlf_app (bs "RET=")); [reflexivity|exact Hr].
Qed.

Lemma rcpt_params_nocrlf : forall c n, nocrlf n -> Forall nocrlf (rcpt_params c n).
Proof.
  intros c n Hn. unfold rcpt_params.
  destruct (c_dsn c && negb match n with [] => true | _ :: _ => false end); [|constructor].
  constructor; [|constructor]. apply (nocrlf_app (bs "NOTIFY=")); [reflexivity|exact Hn].
Qed.

Definition wf_command (c : command) : Prop :=
  match c with
  | CmdMail _ ret _ => nocrlf ret
  | CmdRcpt _ notify _ => nocrlf notify
  | CmdAuth mech _ => nocrlf mech
  | _ => True
  end.

(* every command line the client writes outside DATA: built after validateLine, base64, or a constant *)
Theorem single_line : forall c l, wf_command c -> line_of c = Some l -> nocrlf l.
Proof.
  intros c l Hw H. destruct c; simpl in *.
  - unfold ehlo_line, helo_name_ok in H. destruct (validate_line n) eqn:V; simpl in H; [|discriminate].
    destruct (forallb _ n); inversion H; subst. apply (nocrlf_app (bs "EHLO ")); [reflexivity|exact V].
  - unfold helo_line, helo_name_ok in H. destruct (validate_line n) eqn:V; simpl in H; [|discriminate].
    destruct (forallb _ n); inversion H; subst. apply (nocrlf_app (bs "HELO ")); [reflexivity|exact V].
  - unfold mail_line in H. destruct (validate_line from) eqn:V; [|discriminate].
    destruct (negb (c_dsn c && nonempty ret) || param_value_ok ret); inversion H; subst.
    apply (nocrlf_app (bs "MAIL FROM:<")); [reflexivity|]. apply nocrlf_app; [exact V|].
    apply (nocrlf_app (bs ">")); [reflexivity|]. apply nocrlf_flat. apply mail_params_nocrlf. exact Hw.
  - unfold rcpt_line in H. destruct (validate_line to) eqn:V; [|discriminate].
    destruct (negb (c_dsn c && nonempty notify) || param_value_ok notify); inversion H; subst.
    apply (nocrlf_app (bs "RCPT TO:<")); [reflexivity|]. apply nocrlf_app; [exact V|].
    apply (nocrlf_app (bs ">")); [reflexivity|]. apply nocrlf_flat. apply rcpt_params_nocrlf. exact Hw.
  - inversion H; subst. unfold auth_line. destruct resp as [r|].
    + apply (nocrlf_app (bs "AUTH ")); [reflexivity|]. apply nocrlf_app; [exact Hw|].
      apply (nocrlf_app [32]); [reflexivity|]. apply b64enc_no_crlf.
    + apply (nocrlf_app (bs "AUTH ")); [reflexivity|exact Hw].
  - inversion H; subst. apply b64enc_no_crlf.
  - inversion H; subst; reflexivity.
  - inversion H; subst; reflexivity.
  - inversion H; subst; reflexivity.
  - inversion H; subst; reflexivity.
  - inversion H; subst; reflexivity.
  - inversion H; subst; reflexivity.
Qed.

(* credentials only travel base64-encoded: the alphabet has no blank either *)
Definition not_sp (b : N) : bool := negb (b =? 32).

Lemma b64char_not_sp : forall n, not_sp (b64char n) = true.
Proof.
  intros n. unfold not_sp, b64char.
  destruct (N.ltb_spec n 26); [|destruct (N.ltb_spec n 52); [|destruct (N.ltb_spec n 62);
    [|destruct (N.eqb_spec n 62)]]]; apply negb_true_iff; apply N.eqb_neq; lia.
Qed.

Lemma b64enc_not_sp : forall s, forallb not_sp (b64enc s) = true.
Proof.
  fix IH 1. intros [|a [|b [|c t]]]; cbn [b64enc forallb]; rewrite ?b64char_not_sp; try reflexivity.
  rewrite IH. reflexivity.
Qed.

Fixpoint count_sp (s : bytes) : nat :=
  match s with [] => O | b :: t => if b =? 32 then S (count_sp t) else count_sp t end.

Lemma count_sp_app : forall a b, count_sp (a ++ b) = (count_sp a + count_sp b)%nat.
Proof. induction a as [|x a IH]; intro b; simpl; [reflexivity|]. destruct (x =? 32); rewrite IH; reflexivity. Qed.

Lemma count_sp_zero : forall s, forallb not_sp s = true -> count_sp s = O.
Proof.
  induction s as [|b s IH]; simpl; intro H; [reflexivity|].
  apply andb_true_iff in H. destruct H as [Hb Hs]. unfold not_sp in Hb. apply negb_true_iff in Hb.
  rewrite Hb. apply IH. exact Hs.
Qed.

(* "AUTH <mech> <base64>": whatever the credentials are, exactly the two separating blanks *)
Theorem auth_line_two_blanks : forall mech r,
  forallb not_sp mech = true -> count_sp (auth_line mech (Some r)) = 2%nat.
Proof.
  intros mech r Hm. unfold auth_line. rewrite !count_sp_app.
  rewrite (count_sp_zero mech Hm), (count_sp_zero _ (b64enc_not_sp r)). reflexivity.
Qed.

Theorem auth_resp_no_blank : forall r, count_sp (auth_resp_line r) = O /\ nocrlf (auth_resp_line r).
Proof. intro r. split; [apply count_sp_zero, b64enc_not_sp|apply b64enc_no_crlf]. Qed.

Lemma forallb_imp : forall (A : Type) (p q : A -> bool) l,
  (forall x, p x = true -> q x = true) -> forallb p l = true -> forallb q l = true.
Proof.
  induction l as [|x l IH]; simpl; intros H F; [reflexivity|].
  apply andb_true_iff in F. destruct F as [F1 F2]. rewrite (H _ F1), (IH H F2). reflexivity.
Qed.

(* HELO/EHLO: a transmitted line carries exactly one argument *)
Theorem helo_single_argument : forall n l,
  (ehlo_line n = Some l \/ helo_line n = Some l) -> count_sp l = 1%nat /\ nocrlf l /\ n <> [] \/ n = [].
Proof.
  intros n l H. destruct n as [|b n]; [right; reflexivity|left].
  assert (K : forall pre, (pre = bs "EHLO " \/ pre = bs "HELO ") ->
              helo_name_ok (b :: n) = true -> count_sp (pre ++ b :: n) = 1%nat /\ nocrlf (pre ++ b :: n)).
  { intros pre Hp Hok. unfold helo_name_ok in Hok. apply andb_true_iff in Hok. destruct Hok as [V F].
    split.
    - rewrite count_sp_app. replace (count_sp pre) with 1%nat by (destruct Hp; subst; reflexivity).
      rewrite count_sp_zero; [reflexivity|].
      eapply forallb_imp; [|exact F]. intros x Hx. cbv beta in Hx. rewrite gen_helo_bad_byte in Hx.
      unfold not_sp. destruct (N.eqb_spec x 32); [subst; discriminate|reflexivity].
    - apply nocrlf_app; [destruct Hp; subst; reflexivity|exact V]. }
  destruct H as [H|H]; [unfold ehlo_line in H|unfold helo_line in H];
    destruct (helo_name_ok (b :: n)) eqn:E; inversion H; subst;
    (destruct (K _ ltac:(auto) eq_refl) as [K1 K2]; repeat split; try assumption; discriminate).
Qed.

(* ------------------------------------------------------------------ *)
(* the path round trip                                                 *)
(* ------------------------------------------------------------------ *)
Lemma span_app_stop : forall p a r,
  forallb p a = true -> match r with [] => True | b :: _ => p b = false end ->
  span p (a ++ r) = (a, r).
Proof.
  induction a as [|x a IH]; intros r Ha Hr; simpl.
  - destruct r as [|b r]; [reflexivity|]. simpl. rewrite Hr. reflexivity.
  - simpl in Ha. apply andb_true_iff in Ha. destruct Ha as [Hx Ha]. rewrite Hx, (IH r Ha Hr). reflexivity.
Qed.

(* a byte RFC 5321 can carry inside a Quoted-string *)
Definition carriable (u8 : bool) (b : N) : bool := ((32 <=? b) && (b <=? 126)) || (u8 && (128 <=? b)).

Lemma parse_quoted_quote_body : forall u8 l rest,
  forallb (carriable u8) l = true ->
  parse_quoted u8 (quote_body l ++ 34 :: rest) = Some (l, rest).
Proof.
  induction l as [|b l IH]; intros rest H.
  - reflexivity.
  - simpl in H. apply andb_true_iff in H. destruct H as [Hb Hl].
    simpl quote_body. rewrite gen_mailbox_escape_byte.
    destruct (N.eqb_spec b 34) as [->|N34].
    + simpl. rewrite IH by exact Hl. reflexivity.
    + destruct (N.eqb_spec b 92) as [->|N92].
      * simpl. rewrite IH by exact Hl. reflexivity.
      * simpl orb. cbv iota. simpl app. unfold parse_quoted; fold parse_quoted.
        apply N.eqb_neq in N34. apply N.eqb_neq in N92. rewrite N34, N92.
        assert (Q : qtext_smtp u8 b = true).
        { unfold carriable in Hb. unfold qtext_smtp. apply N.eqb_neq in N34. apply N.eqb_neq in N92.
          destruct u8; simpl in *; lia. }
        rewrite Q, IH by exact Hl. reflexivity.
Qed.

Lemma split_last_at_none : forall d, forallb (fun b => negb (b =? 64)) d = true -> split_last_at d = (d, []).
Proof.
  induction d as [|b d IH]; simpl; intro H; [reflexivity|].
  apply andb_true_iff in H. destruct H as [Hb Hd]. rewrite (IH Hd).
  apply negb_true_iff in Hb. rewrite Hb. reflexivity.
Qed.

Lemma split_last_at_app : forall l d, forallb (fun b => negb (b =? 64)) d = true ->
  split_last_at (l ++ 64 :: d) = (l, 64 :: d).
Proof.
  induction l as [|b l IH]; intros d Hd.
  - simpl. rewrite (split_last_at_none d Hd). reflexivity.
  - simpl app. simpl split_last_at. rewrite (IH d Hd). reflexivity.
Qed.

(* Dot-string: the Go test (no leading / trailing / double dot) means every atom is non-empty *)
Fixpoint ds_ok (after_dot : bool) (l : bytes) : bool :=
  match l with
  | [] => negb after_dot
  | b :: t => if b =? 46 then negb after_dot && ds_ok true t else ds_ok false t
  end.

Lemma ds_ok_of_go : forall l ad,
  match l with [] => ad = false | b :: _ => ad = true -> b <> 46 end ->
  last_byte l 0 <> 46 -> occurs dotdot l = false -> ds_ok ad l = true.
Proof.
  induction l as [|b t IH]; intros ad H1 H2 H3.
  - simpl. subst ad. reflexivity.
  - simpl ds_ok. simpl occurs in H3. apply orb_false_iff in H3. destruct H3 as [H3a H3b].
    destruct (N.eqb_spec b 46) as [->|Nb].
    + destruct ad; [exfalso; apply H1; reflexivity|]. simpl.
      destruct t as [|c t']; [exfalso; apply H2; reflexivity|].
      apply IH; [| exact H2 | exact H3b].
      intros _ E. subst c. discriminate.
    + apply IH; [|destruct t; [discriminate|exact H2]|exact H3b].
      destruct t; [reflexivity|intro; discriminate].
Qed.

Lemma ds_ok_pieces : forall l ad, ds_ok ad l = true ->
  match split_on 46 l with
  | [] => False
  | w :: ws => (ad = true -> w <> []) /\ Forall (fun a => a <> []) ws
  end.
Proof.
  induction l as [|b t IH]; intros ad H.
  - simpl in *. split; [intro E; subst; discriminate|constructor].
  - simpl in H. simpl split_on. destruct (N.eqb_spec b 46) as [->|Nb].
    + apply andb_true_iff in H. destruct H as [Ha Ht]. apply negb_true_iff in Ha. subst ad.
      split; [discriminate|]. specialize (IH true Ht). destruct (split_on 46 t) as [|w ws]; [destruct IH|].
      destruct IH as [I1 I2]. constructor; [apply I1; reflexivity|exact I2].
    + specialize (IH false H). destruct (split_on 46 t) as [|w ws]; [destruct IH|].
      destruct IH as [_ I2]. split; [discriminate|exact I2].
Qed.

Lemma split_pieces_pred : forall (p : N -> bool) l,
  forallb (fun b => p b || (b =? 46)) l = true -> Forall (fun a => forallb p a = true) (split_on 46 l).
Proof.
  induction l as [|b t IH]; intro H; simpl.
  - constructor; [reflexivity|constructor].
  - simpl in H. apply andb_true_iff in H. destruct H as [Hb Ht]. specialize (IH Ht).
    destruct (N.eqb_spec b 46) as [->|Nb].
    + constructor; [reflexivity|exact IH].
    + destruct (split_on 46 t) as [|w ws]; [constructor; [|constructor]|].
      * simpl. rewrite orb_false_r in Hb. rewrite Hb. reflexivity.
      * inversion IH; subst. constructor; [|assumption]. simpl.
        rewrite orb_false_r in Hb. rewrite Hb. assumption.
Qed.

Lemma pieces_to_bytes : forall (p : N -> bool) l,
  Forall (fun a => forallb p a = true) (split_on 46 l) -> forallb (fun b => p b || (b =? 46)) l = true.
Proof.
  induction l as [|b t IH]; intro H; [reflexivity|].
  simpl in H. simpl. destruct (N.eqb_spec b 46) as [->|Nb].
  - inversion H; subst. rewrite orb_true_r. apply IH. assumption.
  - destruct (split_on 46 t) as [|w ws] eqn:E.
    + inversion H as [|? ? H1 H2]; subst. simpl in H1. apply andb_true_iff in H1. destruct H1 as [Hb _].
      rewrite Hb. simpl. apply IH. constructor.
    + inversion H as [|? ? H1 H2]; subst. simpl in H1. apply andb_true_iff in H1. destruct H1 as [Hb Hw].
      rewrite Hb. simpl. apply IH. constructor; assumption.
Qed.

Definition ascii_unless (u8 : bool) (s : bytes) : bool := forallb (fun b => u8 || (b <? 128)) s.

Lemma mb_atext_atext : forall u8 b, mb_atext b = true -> (u8 || (b <? 128)) = true ->
  (atext u8 b || (b =? 46)) = true.
Proof.
  intros u8 b H A. unfold mb_atext in H. unfold atext.
  destruct (is_alnum b); [reflexivity|]. destruct (mem_byte b atext_specials); [reflexivity|].
  simpl in *. destruct (b =? 46); [apply orb_true_r|]. rewrite orb_false_r in *.
  destruct u8; simpl in *; [rewrite orb_false_r in H; exact H|lia].
Qed.

Lemma parse_local_dot : forall u8 l rest, is_dot_string l = true -> ascii_unless u8 l = true ->
  parse_local u8 (l ++ 64 :: rest) = Some (l, 64 :: rest).
Proof.
  intros u8 l rest H A. unfold is_dot_string in H. destruct l as [|b l]; [discriminate|].
  apply andb_true_iff in H. destruct H as [H Hat]. apply andb_true_iff in H. destruct H as [H Hdd].
  apply andb_true_iff in H. destruct H as [Hfirst Hlast].
  assert (Hall : forallb (fun x => atext u8 x || (x =? 46)) (b :: l) = true).
  { unfold ascii_unless in A. clear -Hat A. revert Hat A. generalize (b :: l). induction l0 as [|x t IH]; [reflexivity|].
    simpl. intros H1 H2. apply andb_true_iff in H1. apply andb_true_iff in H2.
    destruct H1 as [H1 H1']. destruct H2 as [H2 H2']. rewrite (mb_atext_atext u8 x H1 H2). apply IH; assumption. }
  assert (Nq : b <> 34).
  { intro E. subst b. simpl in Hat. discriminate. }
  unfold parse_local. simpl app.
  assert (Sp : span (fun x => atext u8 x || (x =? 46)) (b :: l ++ 64 :: rest) = (b :: l, 64 :: rest)).
  { change (b :: l ++ 64 :: rest) with ((b :: l) ++ 64 :: rest). apply span_app_stop; [exact Hall|].
    destruct u8; reflexivity. }
  assert (At : atoms_ok u8 (b :: l) = true).
  { unfold atoms_ok.
    assert (D : ds_ok true (b :: l) = true).
    { apply ds_ok_of_go.
      - intros _. apply negb_true_iff in Hfirst. apply N.eqb_neq. exact Hfirst.
      - apply negb_true_iff in Hlast. apply N.eqb_neq. exact Hlast.
      - apply negb_true_iff. exact Hdd. }
    pose proof (ds_ok_pieces _ _ D) as P. pose proof (split_pieces_pred (atext u8) _ Hall) as Q.
    destruct (split_on 46 (b :: l)) as [|w ws]; [destruct P|]. destruct P as [P1 P2].
    assert (G : forall ps, Forall (fun a => a <> []) ps -> Forall (fun a => forallb (atext u8) a = true) ps ->
              forallb (fun a => negb match a with [] => true | _ :: _ => false end && forallb (atext u8) a) ps = true).
    { induction ps as [|x ps IHp]; intros F1 F2; [reflexivity|].
      inversion F1 as [|? ? A1 A2]; inversion F2 as [|? ? B1 B2]; subst.
      simpl. destruct x; [congruence|]. simpl negb. rewrite B1. simpl. apply IHp; assumption. }
    apply G; [constructor; [apply P1; reflexivity|exact P2]|exact Q]. }
  destruct b as [|pb]; [simpl in Hat; discriminate|].
  destruct (N.eqb_spec (N.pos pb) 34) as [E|_]; [congruence|].
  assert (M : forall t, match N.pos pb :: t with
                        | 34 :: t0 => parse_quoted u8 t0
                        | _ => let '(l0, r) := span (fun x => atext u8 x || (x =? 46)) (N.pos pb :: t) in
                               if atoms_ok u8 l0 then Some (l0, r) else None
                        end =
                        let '(l0, r) := span (fun x => atext u8 x || (x =? 46)) (N.pos pb :: t) in
                        if atoms_ok u8 l0 then Some (l0, r) else None).
  { intro t. clear -Nq. repeat (destruct pb as [pb|pb|]; try reflexivity). congruence. }
  rewrite M. rewrite Sp, At. reflexivity.
Qed.

Lemma forallb_rev : forall (A : Type) (p : A -> bool) l, forallb p (rev l) = forallb p l.
Proof.
  intros A p l. induction l as [|x l IH]; [reflexivity|]. simpl. rewrite forallb_app, IH. simpl.
  rewrite andb_true_r. apply andb_comm.
Qed.

Lemma label_ok_ldh : forall u8 l, label_ok u8 l = true -> forallb (ldh u8) l = true.
Proof.
  intros u8 l H. unfold label_ok in H. destruct l; [discriminate|].
  apply andb_true_iff in H. apply H.
Qed.

Lemma domain_name_bytes : forall u8 d, domain_name_ok u8 d = true ->
  forallb (fun b => ldh u8 b || (b =? 46)) d = true.
Proof.
  intros u8 d H. apply pieces_to_bytes. unfold domain_name_ok in H.
  apply Forall_forall. intros x Hx. apply label_ok_ldh. rewrite forallb_forall in H. apply H. exact Hx.
Qed.

Lemma domain_literal_shape : forall t, 
  match rev t with 93 :: c => negb match c with [] => true | _ :: _ => false end && forallb dcontent c | _ => false end = true ->
  exists c, t = c ++ [93] /\ c <> [] /\ forallb dcontent c = true.
Proof.
  intros t H. destruct (rev t) as [|x c] eqn:E; [discriminate|].
  destruct (N.eqb_spec x 93) as [->|Nx].
  - apply andb_true_iff in H. destruct H as [H1 H2]. exists (rev c). repeat split.
    + rewrite <- (rev_involutive t), E. reflexivity.
    + destruct c; [discriminate|]. simpl. intro Z. apply app_eq_nil in Z. destruct Z; discriminate.
    + rewrite forallb_rev. exact H2.
  - exfalso. destruct x as [|px]; [discriminate|]. clear E. repeat (destruct px as [px|px|]; try discriminate). congruence.
Qed.

Lemma parse_domain_ok : forall u8 d rest, domain_ok u8 d = true ->
  parse_domain u8 (d ++ 62 :: rest) = Some (d, 62 :: rest).
Proof.
  intros u8 d rest H. destruct d as [|b d]; [discriminate|].
  destruct (N.eqb_spec b 91) as [->|Nb].
  - simpl in H. destruct (domain_literal_shape d H) as [c [-> [Hc Hd]]].
    simpl app. unfold parse_domain. rewrite <- app_assoc. simpl app.
    rewrite (span_app_stop dcontent c (93 :: 62 :: rest) Hd eq_refl).
    destruct c; [congruence|]. reflexivity.
  - assert (Hn : domain_name_ok u8 (b :: d) = true).
    { destruct b as [|pb]; [exact H|]. clear -H Nb. revert H. unfold domain_ok.
      repeat (destruct pb as [pb|pb|]; try (intro H; exact H)). congruence. }
    pose proof (domain_name_bytes u8 _ Hn) as Hb.
    assert (Sp : span (fun x => ldh u8 x || (x =? 46)) ((b :: d) ++ 62 :: rest) = (b :: d, 62 :: rest)).
    { apply span_app_stop; [exact Hb|]. destruct u8; reflexivity. }
    unfold parse_domain. simpl app in *.
    destruct b as [|pb]; [rewrite Sp, Hn; reflexivity|].
    clear Hb H. revert Sp Hn.
    repeat (destruct pb as [pb|pb|]; try (intros Sp Hn; cbv iota beta; rewrite Sp, Hn; reflexivity)).
    congruence.
Qed.

Lemma domain_nocrlf : forall u8 d, domain_ok u8 d = true -> nocrlf d.
Proof.
  intros u8 d H. destruct d as [|b d]; [reflexivity|].
  destruct (N.eqb_spec b 91) as [->|Nb].
  - simpl in H. destruct (domain_literal_shape d H) as [c [-> [Hc Hd]]].
    unfold nocrlf. simpl. rewrite forallb_app. simpl. rewrite andb_true_r.
    eapply forallb_imp; [|exact Hd]. intros x Hx. unfold dcontent in Hx. unfold no_crlf_byte. lia.
  - assert (Hn : domain_name_ok u8 (b :: d) = true).
    { destruct b as [|pb]; [exact H|]. clear -H Nb. revert H. unfold domain_ok.
      repeat (destruct pb as [pb|pb|]; try (intro H; exact H)). congruence. }
    pose proof (domain_name_bytes u8 _ Hn) as Hb. unfold nocrlf.
    eapply forallb_imp; [|exact Hb]. intros x Hx. cbv beta in Hx.
    unfold ldh, let_dig, is_alnum, is_alpha, is_digit in Hx. unfold no_crlf_byte. destruct u8; simpl in Hx; lia.
Qed.

(* ---- parameters ---- *)
Definition sp_free (s : bytes) : Prop := forallb not_sp s = true.

Lemma split_no_sep : forall s, sp_free s -> split_on 32 s = [s].
Proof.
  induction s as [|b s IH]; intro H; [reflexivity|].
  unfold sp_free in H. simpl in H. apply andb_true_iff in H. destruct H as [Hb Hs].
  simpl. unfold not_sp in Hb. apply negb_true_iff in Hb. rewrite Hb, (IH Hs). reflexivity.
Qed.

Lemma split_app_sep : forall p r, sp_free p -> split_on 32 (p ++ 32 :: r) = p :: split_on 32 r.
Proof.
  induction p as [|b p IH]; intros r H; [reflexivity|].
  unfold sp_free in H. simpl in H. apply andb_true_iff in H. destruct H as [Hb Hp].
  simpl. unfold not_sp in Hb. apply negb_true_iff in Hb. rewrite Hb, (IH r Hp). reflexivity.
Qed.

Lemma split_sp_params : forall ps p, sp_free p -> Forall sp_free ps ->
  split_on 32 (p ++ sp_params ps) = p :: ps.
Proof.
  induction ps as [|q ps IH]; intros p Hp Hq.
  - simpl. rewrite app_nil_r. apply split_no_sep. exact Hp.
  - inversion Hq; subst. unfold sp_params. simpl flat_map. fold (sp_params ps).
    change ((32 :: q) ++ sp_params ps) with (32 :: (q ++ sp_params ps)).
    rewrite split_app_sep by exact Hp. rewrite IH by assumption. reflexivity.
Qed.

Lemma parse_params_own : forall ps, Forall sp_free ps -> forallb esmtp_param_ok ps = true ->
  parse_params (sp_params ps) = Some ps.
Proof.
  intros ps Hs Hp. destruct ps as [|p ps]; [reflexivity|].
  inversion Hs; subst. unfold sp_params. simpl flat_map. fold (sp_params ps).
  change ((32 :: p) ++ sp_params ps) with (32 :: (p ++ sp_params ps)).
  unfold parse_params. rewrite split_sp_params by assumption. rewrite Hp. reflexivity.
Qed.

Definition ret_ok (r : bytes) : Prop := r = [] \/ r = dsn_ret_hdrs \/ r = dsn_ret_full.
Definition value_ok (v : bytes) : Prop := forallb esmtp_value_char v = true.

Lemma value_sp_free : forall v, value_ok v -> sp_free v.
Proof.
  intros v H. unfold sp_free. eapply forallb_imp; [|exact H]. intros x Hx.
  unfold esmtp_value_char in Hx. unfold not_sp. lia.
Qed.

Lemma mail_params_own : forall c ret, ret_ok ret ->
  Forall sp_free (mail_params c ret) /\ forallb esmtp_param_ok (mail_params c ret) = true.
Proof.
  intros c ret [->|[->| ->]]; destruct c as [a b d]; destruct a, b, d; vm_compute;
    (split; [repeat (constructor; try reflexivity)|reflexivity]).
Qed.

Lemma notify_param_ok : forall v, v <> [] -> value_ok v -> esmtp_param_ok (bs "NOTIFY=" ++ v) = true.
Proof.
  intros v Hv H. destruct v as [|x v]; [congruence|]. unfold value_ok in H. 
  unfold esmtp_param_ok. simpl. exact H.
Qed.

Lemma rcpt_params_own : forall c n, value_ok n ->
  Forall sp_free (rcpt_params c n) /\ forallb esmtp_param_ok (rcpt_params c n) = true.
Proof.
  intros c n H. unfold rcpt_params. destruct n as [|x n]; [rewrite andb_false_r; split; [constructor|reflexivity]|].
  destruct (c_dsn c); simpl andb; cbv iota; [|split; [constructor|reflexivity]].
  split.
  - constructor; [|constructor]. unfold sp_free. rewrite forallb_app. rewrite (value_sp_free _ H). reflexivity.
  - change (esmtp_param_ok (bs "NOTIFY=" ++ x :: n) && true = true).
    rewrite notify_param_ok; [reflexivity|discriminate|exact H].
Qed.

(* ---- assembly ---- *)
Definition no_at (d : bytes) : bool := forallb (fun b => negb (b =? 64)) d.

Lemma parse_path_ok : forall u8 pl local domain ps,
  parse_local u8 (pl ++ 64 :: domain ++ 62 :: sp_params ps) = Some (local, 64 :: domain ++ 62 :: sp_params ps) ->
  domain_ok u8 domain = true -> Forall sp_free ps -> forallb esmtp_param_ok ps = true ->
  parse_path u8 (60 :: pl ++ 64 :: domain ++ 62 :: sp_params ps) = Some (local, domain, ps).
Proof.
  intros u8 pl local domain ps HL HD HS HP. unfold parse_path. rewrite HL.
  rewrite (parse_domain_ok u8 domain (sp_params ps) HD). rewrite (parse_params_own ps HS HP). reflexivity.
Qed.

Lemma smtp_mailbox_cases : forall local domain, no_at domain = true ->
  smtp_mailbox (local ++ 64 :: domain) =
    if is_dot_string local then Some (local ++ 64 :: domain)
    else if existsb is_ctl local then None
    else Some (34 :: quote_body local ++ 34 :: 64 :: domain).
Proof.
  intros local domain H. unfold smtp_mailbox. rewrite (split_last_at_app local domain H). reflexivity.
Qed.

Lemma not_ctl_carriable : forall u8 l, existsb is_ctl l = false -> ascii_unless u8 l = true ->
  forallb (carriable u8) l = true.
Proof.
  induction l as [|b l IH]; intros H A; [reflexivity|].
  simpl in H. apply orb_false_iff in H. destruct H as [Hb Hl].
  unfold ascii_unless in A. simpl in A. apply andb_true_iff in A. destruct A as [Ab Al].
  simpl. rewrite (IH Hl Al), andb_true_r.
  unfold is_ctl in Hb. rewrite gen_mailbox_refuse_byte in Hb. unfold carriable. destruct u8; simpl in *; lia.
Qed.

Lemma carriable_nocrlf : forall u8 l, forallb (carriable u8) l = true -> nocrlf (quote_body l).
Proof.
  induction l as [|b l IH]; intro H; [reflexivity|].
  simpl in H. apply andb_true_iff in H. destruct H as [Hb Hl]. specialize (IH Hl).
  assert (Nb : no_crlf_byte b = true) by (unfold carriable in Hb; unfold no_crlf_byte; destruct u8; simpl in Hb; lia).
  simpl. destruct (mailbox_escape_byte b); unfold nocrlf in *; simpl; rewrite Nb, IH; reflexivity.
Qed.

Lemma dot_string_nocrlf : forall l, is_dot_string l = true -> nocrlf l.
Proof.
  intros l H. unfold is_dot_string in H. destruct l as [|b l]; [reflexivity|].
  apply andb_true_iff in H. destruct H as [_ H]. unfold nocrlf. eapply forallb_imp; [|exact H].
  intros x Hx. unfold mb_atext, is_alnum, is_alpha, is_digit, mem_byte, atext_specials in Hx.
  unfold no_crlf_byte. simpl in Hx. lia.
Qed.

(* what the reference server reads from the line sent for the mailbox local@domain *)
Lemma value_param_ok : forall v, value_ok v -> param_value_ok v = true.
Proof.
  intros v H. unfold param_value_ok. eapply forallb_imp; [|exact H]. intros x Hx. cbv beta.
  rewrite gen_param_bad_byte. unfold esmtp_value_char in Hx. lia.
Qed.

Lemma ret_param_ok : forall r, ret_ok r -> param_value_ok r = true.
Proof. intros r [->|[->| ->]]; reflexivity. Qed.

Lemma param_ok_nocrlf : forall v, param_value_ok v = true -> nocrlf v.
Proof.
  intros v H. unfold nocrlf. eapply forallb_imp; [|exact H]. intros x Hx. cbv beta in Hx.
  rewrite gen_param_bad_byte in Hx. unfold no_crlf_byte. lia.
Qed.

Theorem path_exact : forall c ret notify local domain,
  local <> [] -> ascii_unless (c_utf8 c) local = true ->
  domain_ok (c_utf8 c) domain = true -> no_at domain = true ->
  ret_ok ret -> value_ok notify ->
  match smtp_mailbox (local ++ 64 :: domain) with
  | None => existsb is_ctl local = true
  | Some p =>
      (exists line, mail_line c ret p = Some line /\
         parse_path_line (c_utf8 c) line = Some (VMail, local, domain, mail_params c ret)) /\
      (exists line, rcpt_line c notify p = Some line /\
         parse_path_line (c_utf8 c) line = Some (VRcpt, local, domain, rcpt_params c notify))
  end.
Proof.
  intros c ret notify local domain Hne HA HD Hat HR HN.
  pose proof (ret_param_ok _ HR) as PR. pose proof (value_param_ok _ HN) as PN.
  rewrite (smtp_mailbox_cases local domain Hat).
  destruct (mail_params_own c ret HR) as [MS MP]. destruct (rcpt_params_own c notify HN) as [RS RP].
  pose proof (domain_nocrlf _ _ HD) as DN.
  destruct (is_dot_string local) eqn:DS.
  - assert (V : validate_line (local ++ 64 :: domain) = true).
    { apply nocrlf_app; [apply dot_string_nocrlf; exact DS|]. unfold nocrlf. simpl. exact DN. }
    split.
    + eexists. split; [unfold mail_line; rewrite V, PR, orb_true_r; reflexivity|].
      unfold parse_path_line. 
      change (strip_prefix_ci (bs "MAIL FROM:") (bs "MAIL FROM:<" ++ (local ++ 64 :: domain) ++ bs ">" ++ sp_params (mail_params c ret)))
        with (Some (60 :: (local ++ 64 :: domain) ++ 62 :: sp_params (mail_params c ret))).
      rewrite <- app_assoc. simpl app.
      rewrite (parse_path_ok (c_utf8 c) local local domain _ (parse_local_dot _ _ _ DS HA) HD MS MP). reflexivity.
    + eexists. split; [unfold rcpt_line; rewrite V, PN, orb_true_r; reflexivity|].
      unfold parse_path_line.
      change (strip_prefix_ci (bs "MAIL FROM:") (bs "RCPT TO:<" ++ (local ++ 64 :: domain) ++ bs ">" ++ sp_params (rcpt_params c notify)))
        with (@None bytes).
      change (strip_prefix_ci (bs "RCPT TO:") (bs "RCPT TO:<" ++ (local ++ 64 :: domain) ++ bs ">" ++ sp_params (rcpt_params c notify)))
        with (Some (60 :: (local ++ 64 :: domain) ++ 62 :: sp_params (rcpt_params c notify))).
      rewrite <- app_assoc. simpl app.
      rewrite (parse_path_ok (c_utf8 c) local local domain _ (parse_local_dot _ _ _ DS HA) HD RS RP). reflexivity.
  - destruct (existsb is_ctl local) eqn:CT; [reflexivity|].
    pose proof (not_ctl_carriable _ _ CT HA) as CA.
    assert (V : validate_line (34 :: quote_body local ++ 34 :: 64 :: domain) = true).
    { change (34 :: quote_body local ++ 34 :: 64 :: domain) with ([34] ++ quote_body local ++ [34; 64] ++ domain).
      apply nocrlf_app; [reflexivity|]. apply nocrlf_app; [eapply carriable_nocrlf; exact CA|].
      apply nocrlf_app; [reflexivity|exact DN]. }
    assert (PL : forall tail, parse_local (c_utf8 c) ((34 :: quote_body local ++ [34]) ++ 64 :: tail) = Some (local, 64 :: tail)).
    { intro tail. simpl app. rewrite <- app_assoc. simpl app. unfold parse_local.
      apply parse_quoted_quote_body. exact CA. }
    split.
    + eexists. split; [unfold mail_line; rewrite V, PR, orb_true_r; reflexivity|].
      unfold parse_path_line.
      change (strip_prefix_ci (bs "MAIL FROM:") (bs "MAIL FROM:<" ++ (34 :: quote_body local ++ 34 :: 64 :: domain) ++ bs ">" ++ sp_params (mail_params c ret)))
        with (Some (60 :: (34 :: quote_body local ++ 34 :: 64 :: domain) ++ 62 :: sp_params (mail_params c ret))).
      replace (60 :: (34 :: quote_body local ++ 34 :: 64 :: domain) ++ 62 :: sp_params (mail_params c ret))
        with (60 :: (34 :: quote_body local ++ [34]) ++ 64 :: domain ++ 62 :: sp_params (mail_params c ret))
        by (simpl; rewrite <- !app_assoc; reflexivity).
      rewrite (parse_path_ok (c_utf8 c) _ local domain _ (PL _) HD MS MP). reflexivity.
    + eexists. split; [unfold rcpt_line; rewrite V, PN, orb_true_r; reflexivity|].
      unfold parse_path_line.
      change (strip_prefix_ci (bs "MAIL FROM:") (bs "RCPT TO:<" ++ (34 :: quote_body local ++ 34 :: 64 :: domain) ++ bs ">" ++ sp_params (rcpt_params c notify)))
        with (@None bytes).
      change (strip_prefix_ci (bs "RCPT TO:") (bs "RCPT TO:<" ++ (34 :: quote_body local ++ 34 :: 64 :: domain) ++ bs ">" ++ sp_params (rcpt_params c notify)))
        with (Some (60 :: (34 :: quote_body local ++ 34 :: 64 :: domain) ++ 62 :: sp_params (rcpt_params c notify))).
      replace (60 :: (34 :: quote_body local ++ 34 :: 64 :: domain) ++ 62 :: sp_params (rcpt_params c notify))
        with (60 :: (34 :: quote_body local ++ [34]) ++ 64 :: domain ++ 62 :: sp_params (rcpt_params c notify))
        by (simpl; rewrite <- !app_assoc; reflexivity).
      rewrite (parse_path_ok (c_utf8 c) _ local domain _ (PL _) HD RS RP). reflexivity.
Qed.

(* refused means: nothing of the message is written *)
Theorem refused_sends_nothing : forall c ret notify from rcpts,
  (smtp_mailbox from = None \/ exists r, In r rcpts /\ smtp_mailbox r = None) ->
  envelope_lines c ret notify from rcpts = None.
Proof.
  intros c ret notify from rcpts H. unfold envelope_lines, envelope_lines_with.
  destruct (smtp_mailbox from) eqn:F; [|reflexivity].
  destruct H as [H|[r [Hin Hr]]]; [discriminate|].
  assert (M : map_opt smtp_mailbox rcpts = None).
  { induction rcpts as [|x t IH]; [destruct Hin|]. simpl. destruct Hin as [->|Hin].
    - rewrite Hr. reflexivity.
    - destruct (smtp_mailbox x); [|reflexivity]. rewrite (IH Hin). reflexivity. }
  rewrite M. reflexivity.
Qed.

(* ---- the unrepaired tree (documentation): the same mailbox sent unquoted is read differently or not at all ---- *)
Example unquoted_local_before_fix_refuted :
  exists c ret local domain line,
    smtp_mailbox_old (local ++ 64 :: domain) = Some (local ++ 64 :: domain) /\
    mail_line c ret (local ++ 64 :: domain) = Some line /\
    parse_path_line (c_utf8 c) line <> Some (VMail, local, domain, mail_params c ret).
Proof.
  exists (mkCaps true true false), [], (bs "a b"), (bs "x.test"). eexists.
  split; [reflexivity|]. split; [reflexivity|]. vm_compute. discriminate.
Qed.

Example helo_blank_before_fix_refuted :
  exists n l, ehlo_line_old n = Some l /\ count_sp l = 2%nat.
Proof. exists (bs "my host"). eexists. split; reflexivity. Qed.

(* DSN options: whatever options are accepted, RET and NOTIFY values are the client's constants *)
Lemma bytes_eqb_true : forall a b, bytes_eqb a b = true -> a = b.
Proof.
  induction a; destruct b; simpl; intro H; try discriminate; [reflexivity|].
  apply andb_true_iff in H. destruct H as [A B]. apply N.eqb_eq in A. subst. f_equal. apply IHa. exact B.
Qed.

Ltac dif E := match type of E with context [if ?b then _ else _] => destruct b eqn:? end.

Lemma apply_dsn_inv : forall opts c cfg,
  ret_ok (d_ret c) -> Forall (fun o => notify_known o = true) (d_notify c) ->
  apply_dsn_opts c opts = Some cfg ->
  ret_ok (d_ret cfg) /\ Forall (fun o => notify_known o = true) (d_notify cfg).
Proof.
  induction opts as [|o opts IH]; intros c cfg R N H; simpl in H.
  - inversion H; subst. split; assumption.
  - destruct (apply_dsn c o) as [c'|] eqn:E; [|discriminate].
    apply (IH c' cfg); [| |exact H].
    + destruct o; unfold apply_dsn in E.
      * inversion E; subst. right. right. reflexivity.
      * dif E; [|discriminate]. inversion E; subst. simpl.
        match goal with H0 : _ || _ = true |- _ => apply orb_true_iff in H0; destruct H0 as [H0|H0]; apply bytes_eqb_true in H0 end;
          [right; left; assumption|right; right; assumption].
      * repeat dif E; try discriminate. inversion E; subst. exact R.
    + destruct o; unfold apply_dsn in E.
      * inversion E; subst. simpl. constructor; [reflexivity|constructor; [reflexivity|constructor]].
      * dif E; [|discriminate]. inversion E; subst. exact N.
      * dif E; [discriminate|]. dif E; [discriminate|]. inversion E; subst. simpl.
        match goal with H0 : negb (forallb notify_known l) = false |- _ => apply negb_false_iff in H0; rename H0 into F end.
        apply Forall_forall. intros x Hx. rewrite forallb_forall in F. apply F. exact Hx.
Qed.

Lemma notify_known_value : forall o, notify_known o = true -> value_ok o.
Proof.
  intros o H. unfold notify_known in H.
  repeat (apply orb_true_iff in H; destruct H as [H|H]); apply bytes_eqb_true in H; subst; reflexivity.
Qed.

Lemma join_value_ok : forall l, Forall (fun o => notify_known o = true) l -> value_ok (join [44] l).
Proof.
  induction 1 as [|x l Hx Hl IH]; [reflexivity|]. simpl. destruct l as [|y l]; [apply notify_known_value; exact Hx|].
  unfold value_ok. rewrite forallb_app. rewrite (notify_known_value x Hx). simpl. exact IH.
Qed.

Theorem dsn_options_safe : forall opts cfg, apply_dsn_opts dsn_none opts = Some cfg ->
  ret_ok (d_ret cfg) /\ value_ok (notify_string cfg).
Proof.
  intros opts cfg H. destruct (apply_dsn_inv opts dsn_none cfg) as [R N]; [left; reflexivity|constructor|exact H|].
  split; [exact R|apply join_value_ok; exact N].
Qed.

(* ---- DSN values end to end ---- *)
(* every option list the constructors accept yields MAIL / RCPT lines that are read back with exactly the client's
   own parameters (RET / NOTIFY built from the stored values, which are the validated ones: gen_dsn_validated_is_stored) *)
Theorem dsn_options_lines : forall opts cfg c local domain,
  apply_dsn_opts dsn_none opts = Some cfg ->
  local <> [] -> ascii_unless (c_utf8 c) local = true ->
  domain_ok (c_utf8 c) domain = true -> no_at domain = true ->
  match smtp_mailbox (local ++ 64 :: domain) with
  | None => existsb is_ctl local = true
  | Some p =>
      (exists line, mail_line c (d_ret cfg) p = Some line /\
         parse_path_line (c_utf8 c) line = Some (VMail, local, domain, mail_params c (d_ret cfg))) /\
      (exists line, rcpt_line c (notify_string cfg) p = Some line /\
         parse_path_line (c_utf8 c) line = Some (VRcpt, local, domain, rcpt_params c (notify_string cfg)))
  end.
Proof.
  intros opts cfg c local domain H Hne HA HD Hat. destruct (dsn_options_safe opts cfg H) as [R N].
  apply path_exact; assumption.
Qed.

(* the raw setters of smtp.Client (SetDSNMailReturnOption / SetDSNRcptNotifyOption take any string): whatever was
   stored, a line that is written is one line, and a RET / NOTIFY value that is sent has no blank, CR, LF or "=" *)
Theorem raw_dsn_value_lines : forall c v addr l,
  (mail_line c v addr = Some l \/ rcpt_line c v addr = Some l) ->
  nocrlf l /\ (c_dsn c && nonempty v = true -> param_value_ok v = true).
Proof.
  intros c v addr l H.
  assert (K : forall pre (ps : bytes -> list bytes),
            (forall x, nocrlf x -> Forall nocrlf (ps x)) -> (c_dsn c && nonempty v = false -> ps v = ps []) -> nocrlf pre ->
            (if validate_line addr && (negb (c_dsn c && nonempty v) || param_value_ok v)
             then Some (pre ++ addr ++ bs ">" ++ sp_params (ps v)) else None) = Some l ->
            nocrlf l /\ (c_dsn c && nonempty v = true -> param_value_ok v = true)).
  { intros pre ps P1 P2 Hp E. destruct (validate_line addr) eqn:V; [|discriminate]. simpl in E.
    destruct (c_dsn c && nonempty v) eqn:D; simpl in E.
    - destruct (param_value_ok v) eqn:PV; [|discriminate]. inversion E; subst. split; [|reflexivity].
      apply nocrlf_app; [exact Hp|]. apply nocrlf_app; [exact V|]. apply (nocrlf_app (bs ">")); [reflexivity|].
      apply nocrlf_flat. apply P1. apply param_ok_nocrlf. exact PV.
    - inversion E; subst. split; [|discriminate].
      apply nocrlf_app; [exact Hp|]. apply nocrlf_app; [exact V|]. apply (nocrlf_app (bs ">")); [reflexivity|].
      apply nocrlf_flat. rewrite (P2 eq_refl). apply P1. reflexivity. }
  destruct H as [H|H].
  - apply (K (bs "MAIL FROM:<") (mail_params c)); [apply mail_params_nocrlf| |reflexivity|exact H].
    intro D. unfold mail_params. unfold nonempty in D. rewrite D. simpl negb. rewrite andb_false_r. reflexivity.
  - apply (K (bs "RCPT TO:<") (rcpt_params c)); [apply rcpt_params_nocrlf| |reflexivity|exact H].
    intro D. unfold rcpt_params. unfold nonempty in D. rewrite D. simpl negb. rewrite andb_false_r. reflexivity.
Qed.
