(* DialPassword.v — C07, password confinement for ALL configurations and ALL server behaviours:
   a command that reveals the password (the PLAIN initial response, the second answer of LOGIN) leaves the process
   outside TLS only if the auth type is a *-NOENC type or the host is a localhost name.
   Technique: as for C07_mandatory — invariants of the primitives lifted to programs; new here is [satx], which lets a
   program depend on what PGetCs returns (Client.Auth reads smtp.Client.tls to build ServerInfo.TLS) and tracks a
   post-condition on the result (the mechanism object chosen by Client.auth). *)
From Coq Require Import String Lia.
From Verif Require Import Dial.
From VerifGen Require Import Gen.
From VerifProofs Require Import DialProofs.
Open Scope N_scope.

(* ------------------------------------------------------------------------------------------------ *)
(* programs whose behaviour may depend on the client state they read *)

Inductive satx (G : cstate -> Prop) (P : forall B, prim B -> bool) (A : Type) (R : A -> Prop) : prog A -> Prop :=
| sx_ret : forall a : A, R a -> satx G P A R (Ret a)
| sx_get : forall k : cstate -> prog A, (forall s, G s -> satx G P A R (k s)) -> satx G P A R (Do PGetCs k)
| sx_do : forall B (p : prim B) (k : B -> prog A), P B p = true -> (forall b, satx G P A R (k b)) -> satx G P A R (Do p k).

Lemma satx_bind : forall G P A C (R : A -> Prop) (R' : C -> Prop) (m : prog A) (f : A -> prog C),
  satx G P A R m -> (forall a, R a -> satx G P C R' (f a)) -> satx G P C R' (bind m f).
Proof.
  intros G P A C R R' m f Hm Hf. induction Hm as [a Ha | k Hk IH | B p k Hp Hk IH]; simpl.
  - apply Hf. exact Ha.
  - apply sx_get. exact IH.
  - apply sx_do; [exact Hp | exact IH].
Qed.

Lemma sat_satx : forall G P A (m : prog A), sat P A m -> satx G P A (fun _ => True) m.
Proof.
  intros G P A m Hm. induction Hm as [a | B p k Hp Hk IH].
  - apply sx_ret. exact I.
  - apply sx_do; [exact Hp | exact IH].
Qed.

Lemma satx_weaken_R : forall G P A (R R' : A -> Prop) (m : prog A),
  (forall a, R a -> R' a) -> satx G P A R m -> satx G P A R' m.
Proof.
  intros G P A R R' m HR Hm. induction Hm as [a Ha | k Hk IH | B p k Hp Hk IH].
  - apply sx_ret. auto.
  - apply sx_get. exact IH.
  - apply sx_do; [exact Hp | exact IH].
Qed.

Lemma satx_run_inv (G : cstate -> Prop) (P : forall B, prim B -> bool) (Inv : world -> Prop) :
  (forall w, Inv w -> G (w_cs w)) ->
  (forall B (p : prim B) w, P B p = true -> Inv w -> Inv (snd (run_prim p w))) ->
  forall A (R : A -> Prop) (m : prog A), satx G P A R m ->
  forall w, Inv w -> Inv (snd (run m w)) /\ R (fst (run m w)).
Proof.
  intros HG HP A R m Hm. induction Hm as [a Ha | k Hk IH | B p k Hp Hk IH]; intros w Hw; simpl.
  - split; assumption.
  - unfold run_prim. apply IH; [apply HG; exact Hw | exact Hw].
  - specialize (HP _ p w Hp Hw). destruct (run_prim p w) as [b w1]. simpl in HP. apply IH. exact HP.
Qed.

(* ------------------------------------------------------------------------------------------------ *)
(* the primitives of the authentication step *)

Definition nonpass (v : verb) : bool := negb (reveals_password v).

(* writes of commands that do not reveal the password, reads, bookkeeping of hello, SetDeadline, Close;
   in particular no TLS start: smtp.Client.tls does not change *)
Definition Pq : forall B, prim B -> bool :=
  fun B p => match p with PClientClose => true | _ => Pw nonpass B p end.

Lemma Pw_Pq : forall S, (forall v, S v = true -> nonpass v = true) -> forall B (p : prim B), Pw S B p = true -> Pq B p = true.
Proof. intros S HS B p; destruct p; simpl; auto. Qed.

Lemma Pq_Pany : forall B (p : prim B), Pq B p = true -> Pany nonpass B p = true.
Proof. intros B p; destruct p; simpl; auto. Qed.

Lemma hf_nonpass : forall v, handshake_free_verb v = true -> nonpass v = true.
Proof. intros v; destruct v; simpl; try discriminate; auto. Qed.

Lemma sat_q_of_w : forall S A (m : prog A), (forall v, S v = true -> nonpass v = true) -> sat (Pw S) A m -> sat Pq A m.
Proof. intros S A m HS H. eapply sat_weaken; [ | exact H ]. apply Pw_Pq. exact HS. Qed.

Lemma sat_q_cmd : forall e v, nonpass v = true -> sat Pq _ (cmd e v).
Proof. intros. apply (sat_q_of_w nonpass); auto with satdb. Qed.
Lemma sat_q_hello : sat Pq _ hello.
Proof. apply (sat_q_of_w handshake_free_verb); [exact hf_nonpass | auto with satdb]. Qed.
Lemma sat_q_extension : forall k, sat Pq _ (extension k).
Proof. intros. apply (sat_q_of_w handshake_free_verb); [exact hf_nonpass | auto with satdb]. Qed.
#[export] Hint Resolve sat_q_cmd sat_q_hello sat_q_extension : satdb.

Lemma sat_q_quit : sat Pq _ quit.
Proof. unfold quit. sat_tac. Qed.
#[export] Hint Resolve sat_q_quit : satdb.

Lemma sat_q_tls_state : sat Pq _ tls_state.
Proof. unfold tls_state. sat_tac. Qed.
#[export] Hint Resolve sat_q_tls_state : satdb.

(* the invariant of the authentication step on a connection without TLS *)
Definition NoTlsInv (w : world) : Prop := sc_tls (w_cs w) = false /\ AllowedInv nonpass w.

Lemma prim_notls : forall B (p : prim B) w, Pq B p = true -> NoTlsInv w -> NoTlsInv (snd (run_prim p w)).
Proof.
  intros B p w HP [H1 H2]. split.
  - destruct p; simpl in HP; try discriminate; prim_cases; auto.
  - apply prim_allowed; [apply Pq_Pany; exact HP | exact H2].
Qed.

Definition Gnotls (s : cstate) : Prop := sc_tls s = false.

(* ------------------------------------------------------------------------------------------------ *)
(* mechanisms *)

Definition refuses (a : auth_impl) : Prop := exists e, a_start a false false = SErr e.
Definition safe_impl (a : auth_impl) : Prop := refuses a \/ never_pass a.

Lemma safe_plain : safe_impl (plain_impl false).
Proof. left. exists EUnenc. reflexivity. Qed.
Lemma safe_login : safe_impl (login_impl false).
Proof. left. exists EUnenc. reflexivity. Qed.
Lemma safe_cram : safe_impl cram_impl.
Proof. right. apply other_mechs_never_pass. auto. Qed.
Lemma safe_xoauth2 : safe_impl xoauth2_impl.
Proof. right. apply other_mechs_never_pass. auto. Qed.
Lemma safe_scram : forall n, safe_impl (scram_impl n).
Proof. intros n. right. apply other_mechs_never_pass. right. right. exists n. reflexivity. Qed.

Lemma never_pass_resp : forall a k more empty t, never_pass a -> a_next a k more empty = NResp t -> nonpass (VResp t) = true.
Proof.
  intros a k more empty t [_ H] E. destruct t; try reflexivity. exfalso. exact (H _ _ _ E).
Qed.

Lemma never_pass_start : forall a tl lh m ir, never_pass a -> a_start a tl lh = SOk m ir -> nonpass (VAuth m ir) = true.
Proof.
  intros a tl lh m ir [H _] E. specialize (H _ _ _ _ E).
  destruct ir as [t | ]; [ destruct t; try reflexivity; exfalso; apply H; reflexivity | reflexivity ].
Qed.

(* the for-loop of Client.Auth with a mechanism that never emits the password *)
Lemma sat_q_auth_loop : forall fuel a mech k rp, never_pass a -> sat Pq _ (auth_loop fuel a mech k rp).
Proof.
  induction fuel as [ | f IH]; intros a mech k rp Hn; cbn [auth_loop].
  - apply sat_ret.
  - assert (Hfail : forall e, sat Pq _ (((if is_xoauth2 mech then Ret tt else cmd 501 VAbort;;; Ret tt);;; quit;;; Ret (Err e)) : prog (res unit))).
    { intros e. sat_tac. }
    assert (Hstep : forall x, sat Pq _ (match x with
                                       | NErr => ((if is_xoauth2 mech then Ret tt else cmd 501 VAbort;;; Ret tt);;; quit;;; Ret (Err EMech))
                                       | NDone => Ret (Ok tt)
                                       | NResp t => r <- cmd 0 (VResp t);; match r with Err e => Ret (Err e) | Ok rp' => auth_loop f a mech (S k) rp' end
                                       end) \/ exists t, x = NResp t /\ nonpass (VResp t) = false).
    { intros x. destruct x as [ | | t].
      - left. apply Hfail.
      - left. apply sat_ret.
      - destruct (nonpass (VResp t)) eqn:Et.
        + left. apply sat_bind; [ apply sat_q_cmd; exact Et | intros r; destruct r; [ apply IH; exact Hn | apply sat_ret ] ].
        + right. exists t. auto. }
    destruct (r_code rp =? smtp_auth_code_more).
    + destruct (r_tx rp).
      * apply Hfail.
      * destruct (Hstep (a_next a k true false)) as [H | [t [E1 E2]]]; [exact H | ].
        rewrite (never_pass_resp _ _ _ _ _ Hn E1) in E2. discriminate.
      * destruct (Hstep (a_next a k true true)) as [H | [t [E1 E2]]]; [exact H | ].
        rewrite (never_pass_resp _ _ _ _ _ Hn E1) in E2. discriminate.
    + destruct (r_code rp =? smtp_auth_code_success).
      * destruct (Hstep (a_next a k false false)) as [H | [t [E1 E2]]]; [exact H | ].
        rewrite (never_pass_resp _ _ _ _ _ Hn E1) in E2. discriminate.
      * apply Hfail.
Qed.

(* Client.Auth on a client whose tls flag is false, facing a non-localhost host *)
Lemma satx_auth : forall fuel a, safe_impl a -> satx Gnotls Pq _ (fun _ => True) (auth fuel false a).
Proof.
  intros fuel a Hs. unfold auth.
  eapply satx_bind; [ apply sat_satx; apply sat_q_hello | ].
  intros he _. destruct he as [e | ]; [ apply sx_ret; exact I | ].
  unfold prim1. cbn [bind]. apply sx_get. intros s Hg. unfold Gnotls in Hg. rewrite Hg.
  destruct Hs as [[e He] | Hn].
  - rewrite He. apply sat_satx. sat_tac.
  - destruct (a_start a false false) as [e | mech ir] eqn:Es.
    + apply sat_satx. sat_tac.
    + apply sat_satx. apply sat_bind; [ apply sat_q_cmd; eapply never_pass_start; eauto | ].
      intros r. destruct r; [ apply sat_q_auth_loop; exact Hn | apply sat_ret ].
Qed.

(* the switch of Client.auth never yields a *-NOENC mechanism for another type *)
Definition pick_post (r : res auth_impl) : Prop := match r with Ok a => safe_impl a | Err _ => True end.

Ltac pick_tac :=
  repeat match goal with
         | |- satx _ _ _ _ (Ret (Ok _)) => apply sx_ret; simpl; auto using safe_plain, safe_login, safe_cram, safe_xoauth2, safe_scram
         | |- satx _ _ _ _ (Ret (Err _)) => apply sx_ret; exact I
         | |- satx _ _ _ _ (Ret (match ?x with _ => _ end)) => destruct x
         | |- satx _ _ _ _ (if ?c then _ else _) => destruct c eqn:?
         | |- satx _ _ _ _ (bind tls_state _) => eapply satx_bind; [ apply sat_satx; apply sat_q_tls_state | intros ? _ ]
         end.

Lemma satx_pick_mech : forall t param, noenc_type t = false -> satx Gnotls Pq _ pick_post (pick_mech t param).
Proof.
  intros t param Hn. unfold noenc_type in Hn. apply orb_false_iff in Hn. destruct Hn as [Hn1 Hn2].
  unfold pick_mech. rewrite Hn1, Hn2. unfold pick_post. pick_tac.
Qed.

Lemma prefer_enc_no_noenc : forall t, In t Gen.auth_prefer_encrypted -> noenc_type t = false.
Proof.
  intros t Hin. destruct prefer_lists_no_noenc as [H _]. rewrite forallb_forall in H.
  specialize (H t Hin). apply negb_true_iff in H. exact H.
Qed.
Lemma prefer_unenc_no_noenc : forall t, In t Gen.auth_prefer_unencrypted -> noenc_type t = false.
Proof.
  intros t Hin. destruct prefer_lists_no_noenc as [_ H]. rewrite forallb_forall in H.
  specialize (H t Hin). apply negb_true_iff in H. exact H.
Qed.

(* Client.auth: built-in mechanisms only, host not a localhost name, type not *-NOENC *)
Lemma satx_auth_step : forall fuel cfg is_enc,
  c_custom cfg = None -> Dial.is_localhost (c_host cfg) = false -> noenc_type (c_auth cfg) = false ->
  satx Gnotls Pq _ (fun _ => True) (auth_step fuel cfg is_enc).
Proof.
  intros fuel cfg is_enc Hc Hl Hn. unfold auth_step. rewrite Hc, Hl.
  destruct (bytes_eqb (c_auth cfg) smtp_auth_noauth); [ apply sx_ret; exact I | ].
  eapply satx_bind; [ apply sat_satx; apply sat_q_extension | ].
  intros x _. destruct (negb (fst x)); [ apply sx_ret; exact I | ].
  assert (Hpick : forall t, noenc_type t = false ->
            satx Gnotls Pq _ (fun _ => True)
              (m <- pick_mech t (snd x);; match m with Err e => Ret (Err e) | Ok a => auth fuel false a end)).
  { intros t Ht. eapply satx_bind; [ apply satx_pick_mech; exact Ht | ].
    intros m Hm. destruct m as [a | e]; [ apply satx_auth; exact Hm | apply sx_ret; exact I ]. }
  destruct (bytes_eqb (c_auth cfg) smtp_auth_autodiscover).
  - destruct (auto_discover (snd x) is_enc) as [t | ] eqn:Ed; [ | apply sx_ret; exact I ].
    apply Hpick. apply auto_discover_in in Ed. destruct Ed as [Hin _].
    destruct is_enc; [ apply prefer_enc_no_noenc | apply prefer_unenc_no_noenc ]; exact Hin.
  - apply Hpick. exact Hn.
Qed.

(* ------------------------------------------------------------------------------------------------ *)
(* smtp.Client.tls = true only on a connection whose handshake completed, at the time Client.auth runs *)

Definition Pns : forall B, prim B -> bool :=
  fun B p => match p with PSetScTls | PHandshake | PConnect _ _ => false | _ => true end.

Lemma Pw_Pns : forall S B (p : prim B), Pw S B p = true -> Pns B p = true.
Proof. intros S B p; destruct p; simpl; auto. Qed.

Lemma prim_sctls_false : forall B (p : prim B) w, Pns B p = true ->
  sc_tls (w_cs w) = false -> sc_tls (w_cs (snd (run_prim p w))) = false.
Proof.
  intros B p w HP H. destruct p; simpl in HP; try discriminate; prim_cases; auto;
    try (rewrite do_close_cs; assumption).
Qed.

Lemma prim_ctls_false : forall B (p : prim B) w, Pns B p = true ->
  ctls (w_conn w) = false -> ctls (w_conn (snd (run_prim p w))) = false.
Proof.
  intros B p w HP H. destruct p; simpl in HP; try discriminate; prim_cases; auto.
Qed.

Lemma sat_ns_new_client : sat Pns _ (new_client false).
Proof. unfold new_client. cbv beta iota. sat_tac. Qed.

Lemma sat_ns_of_w : forall S A (m : prog A), sat (Pw S) A m -> sat Pns A m.
Proof. intros S A m H. eapply sat_weaken; [ apply Pw_Pns | exact H ]. Qed.

Ltac sctls_of lem E Hs :=
  let H := fresh "HS" in
  match type of E with
  | run ?m ?w = (_, ?w1) =>
      pose proof (sat_run_inv _ (fun w => sc_tls (w_cs w) = false) prim_sctls_false _ m lem w Hs) as H;
      rewrite E in H; simpl in H
  end.

Lemma tls_step_consistent : forall cfg w b w', c_ssl cfg = false ->
  opened (w_conn w) = true -> sc_tls (w_cs w) = false ->
  run (tls_step cfg) w = (Ok b, w') ->
  opened (w_conn w') = true /\ (sc_tls (w_cs w') = false \/ ctls (w_conn w') = true).
Proof.
  intros cfg w b w' Hs Ho Hf H.
  destruct (c_policy cfg) eqn:Hp.
  - destruct (tls_step_mandatory_tls _ _ _ _ Hp Hs Ho H) as [A B]. auto.
  - unfold tls_step in H. rewrite Hs, Hp in H.
    sx H. inv_of prim_opened E. specialize (HI Ho).
    sctls_of (sat_ns_of_w _ _ _ (sat_extension handshake_free_verb (bs "STARTTLS") hf_ehlo hf_helo)) E Hf.
    cbv beta iota in H.
    destruct (fst a) eqn:Ha.
    + sx H. destruct a0 as [u | e]; [ | simpl in H; discriminate ].
      destruct (start_tls_ok_tls _ _ _ HI E0) as [A B].
      sx H.
      assert (HT : Tinv (clear_cmds (w_trace w1)) w1) by (repeat split; auto).
      pose proof (run_inv _ (prim_T _) _ tls_state w1 HT) as HT2. rewrite E1 in HT2. simpl in HT2.
      destruct HT2 as (X & Y & _).
      assert (w' = w2) by (destruct a0 as [bb | ee]; [ | destruct ee ]; simpl in H; inversion H; reflexivity).
      subst. auto.
    + sx H. simpl in E0. inversion E0; subst; clear E0.
      sx H. unfold tls_state in E0. rewrite run_get in E0. simpl in E0. inversion E0; subst; clear E0.
      simpl in H.
      assert (w' = w0) by (inversion H; reflexivity).
      subst. auto.
  - unfold tls_step in H. rewrite Hs, Hp in H. simpl in H. inversion H; subst. auto.
Qed.

(* ------------------------------------------------------------------------------------------------ *)
(* the dial *)

Lemma np_ehlo : nonpass VEhlo = true. Proof. reflexivity. Qed.
Lemma np_helo : nonpass VHelo = true. Proof. reflexivity. Qed.
Lemma np_starttls : nonpass VStartTLS = true. Proof. reflexivity. Qed.
Lemma np_quit : nonpass VQuit = true. Proof. reflexivity. Qed.

Lemma dial_rest_password : forall fuel cfg w r w',
  c_ssl cfg = false -> c_custom cfg = None -> Dial.is_localhost (c_host cfg) = false -> noenc_type (c_auth cfg) = false ->
  opened (w_conn w) = true -> ctls (w_conn w) = false -> sc_tls (w_cs w) = false -> AllowedInv nonpass w ->
  run (dial_rest fuel cfg) w = (r, w') ->
  AllowedInv nonpass w'.
Proof.
  intros fuel cfg w r w' Hs Hc Hl Hn Ho Hct Hf HA H. unfold dial_rest in H. rewrite run_conntls in H. rewrite Hct in H.
  sx H. allowed_of nonpass (sat_any_new_client nonpass false) E HA.
  inv_of prim_opened E. specialize (HI Ho). sctls_of sat_ns_new_client E Hf.
  destruct a as [u | e]; [ | simpl in H; inversion H; subst; assumption ].
  sx H. allowed_of nonpass (sat_any_hello_named nonpass np_ehlo np_helo) E0 HA0.
  inv_of prim_opened E0. specialize (HI0 HI).
  sctls_of (sat_ns_of_w _ _ _ (sat_hello_named handshake_free_verb hf_ehlo hf_helo)) E0 HS.
  destruct a as [u1 | e].
  2:{ sx H. allowed_of nonpass (sat_any_close_failed nonpass cfg) E1 HA1. simpl in H; inversion H; subst; assumption. }
  sx H. allowed_of nonpass (sat_any_tls_step nonpass cfg np_ehlo np_helo np_starttls) E1 HA1.
  destruct a as [enc | e].
  2:{ sx H. allowed_of nonpass (sat_any_close_failed nonpass cfg) E2 HA2. simpl in H; inversion H; subst; assumption. }
  destruct (tls_step_consistent _ _ _ _ Hs HI0 HS0 E1) as [Op [Hsc | Htl]].
  - (* no TLS on the connection and smtp.Client.tls = false: the mechanisms decide *)
    sx H.
    assert (HN : NoTlsInv w2) by (split; assumption).
    pose proof (satx_run_inv Gnotls Pq NoTlsInv (fun w X => proj1 X) prim_notls _ _ _
                  (satx_auth_step fuel cfg enc Hc Hl Hn) w2 HN) as [[_ HA3] _].
    rewrite E2 in HA3. simpl in HA3.
    destruct a as [u2 | e].
    + simpl in H. inversion H; subst. exact HA3.
    + sx H. allowed_of nonpass (sat_any_close_failed nonpass cfg) E3 HA3. simpl in H; inversion H; subst; assumption.
  - (* TLS: nothing more goes out in clear *)
    assert (HT : Tinv (clear_cmds (w_trace w2)) w2) by (repeat split; auto).
    sx H. T_of E2 HT.
    destruct a as [u2 | e].
    + simpl in H. inversion H; subst. eapply Tinv_allowed; eauto.
    + sx H. T_of E3 HT0. simpl in H. inversion H; subst. eapply Tinv_allowed; eauto.
Qed.

Lemma dial_password : forall fuel cfg w r w',
  c_custom cfg = None -> Dial.is_localhost (c_host cfg) = false -> noenc_type (c_auth cfg) = false ->
  w_conn w = conn0 -> sc_tls (w_cs w) = false -> AllowedInv nonpass w ->
  run (dial fuel cfg) w = (r, w') ->
  AllowedInv nonpass w'.
Proof.
  intros fuel cfg w r w' Hc Hl Hn H0 Hf HA H.
  destruct (c_ssl cfg) eqn:Hs.
  - destruct (dial_implicit _ _ _ _ _ Hs H0 H) as [X _]. unfold AllowedInv in *. rewrite X. exact HA.
  - rewrite dial_unfold in H.
    sx H. pose proof (connect2_spec _ _ _ _ E H0) as Hcn. clear E.
    destruct a as [e | ].
    + simpl in H. inversion H; subst. destruct Hcn as [_ [Ht _]]. unfold AllowedInv in *. rewrite Ht. exact HA.
    + destruct Hcn as (Ho & _ & _ & Hct & Ht & Hcs). rewrite Hs in Hct.
      assert (HA0 : AllowedInv nonpass w0) by (unfold AllowedInv in *; rewrite Ht; exact HA).
      assert (Hf0 : sc_tls (w_cs w0) = false) by (rewrite Hcs; exact Hf).
      sx H. allowed_of nonpass (sat_any_arm_opt nonpass cfg) E HA0.
      pose proof (arm_opt_opened cfg w0 Ho) as Ho1. rewrite E in Ho1. simpl in Ho1.
      assert (Hf1 : sc_tls (w_cs w1) = false).
      { assert (Sa : sat Pns _ (arm_opt cfg)) by (unfold arm_opt; sat_tac).
        pose proof (sat_run_inv _ (fun w => sc_tls (w_cs w) = false) prim_sctls_false _ _ Sa w0 Hf0) as X.
        rewrite E in X. exact X. }
      assert (Hct1 : ctls (w_conn w1) = false).
      { assert (Sa : sat Pns _ (arm_opt cfg)) by (unfold arm_opt; sat_tac).
        pose proof (sat_run_inv _ (fun w => ctls (w_conn w) = false) prim_ctls_false _ _ Sa w0 Hct) as X.
        rewrite E in X. exact X. }
      eapply dial_rest_password; eauto.
Qed.

(* sending and closing write nothing that reveals the password *)
Lemma send_verb_nonpass : forall v, send_verb v = true -> nonpass v = true.
Proof. intros v; destruct v; simpl; try discriminate; auto. Qed.

Lemma sat_np_of_send : forall A (m : prog A), sat (Pw send_verb) A m -> sat (Pany nonpass) A m.
Proof. intros A m H. eapply sat_any_mono; [ exact send_verb_nonpass | apply sat_any_of_w; exact H ]. Qed.

Lemma sat_np_reset : sat (Pany nonpass) _ reset.
Proof. apply sat_np_of_send. auto with satdb. Qed.
Lemma sat_np_check_conn : forall cfg, sat (Pany nonpass) _ (check_conn cfg).
Proof. intros. apply sat_np_of_send. auto with satdb. Qed.
Lemma sat_np_reset_client : forall cfg, sat (Pany nonpass) _ (reset_client cfg).
Proof. intros. apply sat_np_of_send. auto with satdb. Qed.
Lemma sat_np_rcpts : forall n b, sat (Pany nonpass) _ (rcpts n b).
Proof. intros. apply sat_np_of_send. auto with satdb. Qed.
#[export] Hint Resolve sat_np_reset sat_np_check_conn sat_np_reset_client sat_np_rcpts np_ehlo np_helo np_quit : satdb.

Lemma sat_np_send_single : forall cfg n, sat (Pany nonpass) _ (send_single cfg n).
Proof. intros. unfold send_single, abort_if_failed. sat_tac. Qed.
#[export] Hint Resolve sat_np_send_single : satdb.

Lemma sat_np_send_msgs : forall cfg msgs b, sat (Pany nonpass) _ (send_msgs cfg msgs b).
Proof.
  induction msgs as [ | n t IH]; intros; cbn [send_msgs]; [ apply sat_ret | ].
  apply sat_bind; [ apply sat_np_send_single | intros r; apply IH ].
Qed.
#[export] Hint Resolve sat_np_send_msgs : satdb.

Lemma sat_np_send_batch : forall cfg msgs, sat (Pany nonpass) _ (send_batch cfg msgs).
Proof. intros. unfold send_batch. sat_tac. Qed.

Lemma sat_np_close_client : forall cfg, sat (Pany nonpass) _ (close_client cfg).
Proof. intros. unfold close_client, update_deadline. sat_tac. Qed.
#[export] Hint Resolve sat_np_send_batch sat_np_close_client : satdb.

Lemma dial_and_send_password : forall fuel cfg msgs w,
  c_custom cfg = None -> Dial.is_localhost (c_host cfg) = false -> noenc_type (c_auth cfg) = false ->
  w_conn w = conn0 -> sc_tls (w_cs w) = false -> AllowedInv nonpass w ->
  AllowedInv nonpass (snd (run (dial_and_send fuel cfg msgs) w)).
Proof.
  intros fuel cfg msgs w Hc Hl Hn H0 Hf HA. unfold dial_and_send. rewrite run_bind.
  destruct (run (dial fuel cfg) w) as [d w1] eqn:E.
  pose proof (dial_password _ _ _ _ _ Hc Hl Hn H0 Hf HA E) as HA1.
  destruct d as [u | e]; [ | simpl; exact HA1 ].
  match goal with |- AllowedInv _ (snd (run ?m w1)) =>
    assert (Sm : sat (Pany nonpass) _ m) by sat_tac;
    exact (sat_run_inv _ (AllowedInv nonpass) (prim_allowed nonpass) _ m Sm w1 HA1) end.
Qed.

(* ------------------------------------------------------------------------------------------------ *)
(* the statements of props/C07.v *)

Lemma C07_password_confined_l : forall fuel cfg (s : srv) v,
  c_custom cfg = None ->
  In v (clear_cmds (w_trace (snd (run (dial fuel cfg) (world0 s))))) ->
  reveals_password v = true ->
  noenc_type (c_auth cfg) = true \/ Dial.is_localhost (c_host cfg) = true.
Proof.
  intros fuel cfg s v Hc Hin Hr.
  destruct (noenc_type (c_auth cfg)) eqn:Hn; [ left; reflexivity | ].
  destruct (Dial.is_localhost (c_host cfg)) eqn:Hl; [ right; reflexivity | ].
  exfalso.
  destruct (run (dial fuel cfg) (world0 s)) as [r w'] eqn:E.
  assert (HA : AllowedInv nonpass (world0 s)) by (intros x Hx; simpl in Hx; contradiction).
  pose proof (dial_password fuel cfg (world0 s) r w' Hc Hl Hn eq_refl eq_refl HA E v Hin) as X.
  unfold nonpass in X. rewrite Hr in X. discriminate.
Qed.

Lemma C07_password_confined_send_l : forall fuel cfg msgs (s : srv) v,
  c_custom cfg = None ->
  In v (clear_cmds (w_trace (snd (run (dial_and_send fuel cfg msgs) (world0 s))))) ->
  reveals_password v = true ->
  noenc_type (c_auth cfg) = true \/ Dial.is_localhost (c_host cfg) = true.
Proof.
  intros fuel cfg msgs s v Hc Hin Hr.
  destruct (noenc_type (c_auth cfg)) eqn:Hn; [ left; reflexivity | ].
  destruct (Dial.is_localhost (c_host cfg)) eqn:Hl; [ right; reflexivity | ].
  exfalso.
  assert (HA : AllowedInv nonpass (world0 s)) by (intros x Hx; simpl in Hx; contradiction).
  pose proof (dial_and_send_password fuel cfg msgs (world0 s) Hc Hl Hn eq_refl eq_refl HA v Hin) as X.
  unfold nonpass in X. rewrite Hr in X. discriminate.
Qed.

(* ------------------------------------------------------------------------------------------------ *)
(* T1: smtp.isLocalhost, as translated from the AST, is exactly "the name is one of the three literals" *)
Lemma gen_bytes_eqb_eq : forall a b, Gen.gen_bytes_eqb a b = bytes_eqb a b.
Proof. induction a as [ | x a IH]; destruct b as [ | y b]; simpl; try reflexivity; try (rewrite IH; reflexivity). Qed.

Lemma source_is_localhost_l : forall n,
  Dial.is_localhost n = existsb (bytes_eqb n) [bs "localhost"; bs "127.0.0.1"; bs "::1"].
Proof.
  intros n. unfold Dial.is_localhost, Gen.is_localhost.
  repeat match goal with |- context [Gen.gen_bytes_eqb n ?l] => rewrite (gen_bytes_eqb_eq n l) end.
  simpl.
  repeat match goal with |- context [bytes_eqb n ?l] => destruct (bytes_eqb n l) end; reflexivity.
Qed.

(* the exemption of C07_password_confined in terms of the host string itself *)
Lemma C07_password_confined_names_l : forall fuel cfg (s : srv) v,
  c_custom cfg = None ->
  In v (clear_cmds (w_trace (snd (run (dial fuel cfg) (world0 s))))) ->
  reveals_password v = true ->
  noenc_type (c_auth cfg) = true \/
  c_host cfg = bs "localhost" \/ c_host cfg = bs "127.0.0.1" \/ c_host cfg = bs "::1".
Proof.
  intros fuel cfg s v Hc Hin Hr.
  destruct (C07_password_confined_l fuel cfg s v Hc Hin Hr) as [H | H]; [ left; exact H | right ].
  rewrite source_is_localhost_l in H. simpl in H.
  assert (E : forall a b, bytes_eqb a b = true -> a = b).
  { induction a as [ | x a IH]; destruct b as [ | y b]; simpl; intros X; try discriminate; auto.
    apply andb_true_iff in X. destruct X as [X1 X2]. apply N.eqb_eq in X1. subst. f_equal. auto. }
  repeat (apply orb_true_iff in H; destruct H as [H | H]); try discriminate; apply E in H; auto.
Qed.

(* ------------------------------------------------------------------------------------------------ *)
(* sequences of dials of one Client *)

(* T1 (the locks engine's inventory of every assignment to a Client field by any method, Gen.client_all_writes): the
   functions of the dial path assign no field of the Client -- in particular authTypeAutoDiscover is a pure function
   of (advertised list, isEnc) *)
Definition dial_path_fn (f : bytes) : bool :=
  existsb (bytes_eqb f)
    [bs "Client.DialToSMTPClientWithContext"; bs "Client.tls"; bs "Client.auth"; bs "Client.authTypeAutoDiscover";
     bs "Client.checkConn"; bs "Client.serverFallbackAddr"; bs "Client.ServerAddr"].

Definition dial_path_writes_nothing : bool :=
  forallb (fun e => negb (dial_path_fn (fst (fst (fst e))))) Gen.client_all_writes.

(* memoryless: the k-th outcome of a sequence is a function of the k-th configuration and the k-th server only *)
Lemma dial_sequence_nth_l : forall fuel l k cfg s,
  nth_error l k = Some (cfg, s) ->
  nth_error (dial_sequence fuel l) k = Some (run (dial fuel cfg) (world0 s)).
Proof.
  intros fuel l k cfg s H. unfold dial_sequence. rewrite nth_error_map. rewrite H. reflexivity.
Qed.

Lemma dial_sequence_in : forall fuel l x, In x (dial_sequence fuel l) ->
  exists cfg s, In (cfg, s) l /\ x = run (dial fuel cfg) (world0 s).
Proof.
  intros fuel l x H. unfold dial_sequence in H. apply in_map_iff in H. destruct H as [[cfg s] [E Hin]].
  exists cfg, s. split; [exact Hin | symmetry; exact E].
Qed.

(* ... so every property of a single dial holds for every dial of every sequence *)
Lemma C07_sequence_password_confined_l : forall fuel l x v,
  In x (dial_sequence fuel l) ->
  In v (clear_cmds (w_trace (snd x))) -> reveals_password v = true ->
  exists cfg s, In (cfg, s) l /\
    (c_custom cfg = None -> noenc_type (c_auth cfg) = true \/ Dial.is_localhost (c_host cfg) = true).
Proof.
  intros fuel l x v Hx Hin Hr. destruct (dial_sequence_in _ _ _ Hx) as (cfg & s & Hl & E). subst x.
  exists cfg, s. split; [exact Hl | intros Hc; eapply C07_password_confined_l; eauto].
Qed.

Lemma C07_sequence_mandatory_l : forall fuel l x v,
  In x (dial_sequence fuel l) -> In v (clear_cmds (w_trace (snd x))) ->
  exists cfg s, In (cfg, s) l /\ (c_policy cfg = Mandatory -> c_ssl cfg = false -> handshake_free_verb v = true).
Proof.
  intros fuel l x v Hx Hin. destruct (dial_sequence_in _ _ _ Hx) as (cfg & s & Hl & E). subst x.
  exists cfg, s. split; [exact Hl | intros Hp Hs; eapply C07_mandatory_l; eauto].
Qed.
