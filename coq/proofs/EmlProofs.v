(* Proofs about the EML parser model (C09): no index / slice expression of eml.go can panic on the
   repaired tree, for every header string and every part tree the stdlib readers may deliver. *)
From Coq Require Import String.
From Verif Require Import Bytes Eml.
From VerifGen Require Import Gen.
From Coq Require Import ZArith Lia ZifyBool ZifyNat ZifyN.
Open Scope Z_scope.

Definition is_ok {A : Type} (o : outcome A) : Prop := exists a, o = Ok a.
Definition np {A : Type} (o : outcome A) : Prop := o <> Panic.

Lemma is_ok_np : forall A (o : outcome A), is_ok o -> np o.
Proof. intros A o [a ->]. discriminate. Qed.

Lemma np_bind : forall A B (o : outcome A) (f : A -> outcome B),
  np o -> (forall a, o = Ok a -> np (f a)) -> np (bind o f).
Proof.
  intros A B o f Ho Hf. destruct o as [a| |]; cbn [bind].
  - now apply Hf.
  - discriminate.
  - now elim Ho.
Qed.

Lemma np_ok : forall A (a : A), np (Ok a).
Proof. intros; discriminate. Qed.
Lemma np_err : forall A, np (@Err A).
Proof. intros; discriminate. Qed.
#[export] Hint Resolve np_ok np_err : eml.

Lemma ilen_nonneg : forall A (l : list A), 0 <= ilen l.
Proof. intros. unfold ilen. lia. Qed.

(* ---------- the partial operations succeed inside their bounds ---------- *)
Lemma go_index_ok : forall A (l : list A) i, 0 <= i < ilen l -> is_ok (go_index l i).
Proof.
  intros A l i Hi. unfold go_index.
  replace ((0 <=? i) && (i <? ilen l))%bool with true by (symmetry; lia).
  destruct (nth_error l (Z.to_nat i)) eqn:E.
  - now eexists.
  - apply nth_error_None in E. unfold ilen in Hi. lia.
Qed.

Lemma go_index_panics : forall A (l : list A) i, ~ (0 <= i < ilen l) -> go_index l i = Panic.
Proof.
  intros A l i Hi. unfold go_index.
  replace ((0 <=? i) && (i <? ilen l))%bool with false by (symmetry; lia). reflexivity.
Qed.

Lemma go_slice_ok : forall A (l : list A) a b, 0 <= a <= b -> b <= ilen l -> is_ok (go_slice l a b).
Proof.
  intros A l a b H1 H2. unfold go_slice.
  replace ((0 <=? a) && (a <=? b) && (b <=? ilen l))%bool with true by (symmetry; lia).
  now eexists.
Qed.

Lemma go_slice_panics : forall A (l : list A) a b, ~ (0 <= a <= b /\ b <= ilen l) -> go_slice l a b = Panic.
Proof.
  intros A l a b H. unfold go_slice.
  replace ((0 <=? a) && (a <=? b) && (b <=? ilen l))%bool with false by (symmetry; lia). reflexivity.
Qed.

(* strings.Split never returns an empty slice: headerSplit[0] is safe *)
Lemma split_on_len : forall sep s, 1 <= ilen (split_on sep s).
Proof.
  intros sep s. unfold ilen. induction s as [|b t IH]; cbn [split_on].
  - cbn. lia.
  - destruct (N.eqb b sep).
    + cbn [length]. lia.
    + destruct (split_on sep t); cbn [length] in *; lia.
Qed.

(* ---------- parseMultiPartHeader is total: it always returns ---------- *)
Lemma pmh_opts_ok : forall opts m, is_ok (pmh_opts opts m).
Proof.
  induction opts as [|opt rest IH]; intros m; cbn [pmh_opts].
  - now eexists.
  - destruct (ilen (splitn2 61 (trim_left_sp opt)) =? 2) eqn:E.
    + apply Z.eqb_eq in E.
      destruct (go_index_ok _ (splitn2 61 (trim_left_sp opt)) 0) as [k Hk]; [lia|].
      destruct (go_index_ok _ (splitn2 61 (trim_left_sp opt)) 1) as [v Hv]; [lia|].
      rewrite Hk, Hv. cbn [bind]. apply IH.
    + apply IH.
Qed.

Lemma pmh_ok : forall s, is_ok (parse_multipart_header s).
Proof.
  intros s. unfold parse_multipart_header.
  pose proof (split_on_len 59 s) as Hl.
  destruct (go_index_ok _ (split_on 59 s) 0) as [hd Hh]; [lia|].
  rewrite Hh. cbn [bind].
  destruct (ilen (split_on 59 s) =? 1) eqn:E.
  - now eexists.
  - destruct (go_slice_ok _ (split_on 59 s) 1 (ilen (split_on 59 s))) as [r Hr]; [lia|lia|].
    rewrite Hr. cbn [bind].
    destruct (pmh_opts_ok r []) as [o Ho]. rewrite Ho. cbn [bind]. now eexists.
Qed.

(* ---------- the repaired filename rule never panics; the old one does ---------- *)
Lemma filename_of_ok : forall name, is_ok (filename_of name).
Proof.
  intros name. unfold filename_of.
  destruct (2 <=? ilen name) eqn:E; [|now eexists].
  apply Z.leb_le in E.
  destruct (go_index_ok _ name 0) as [c0 H0]; [lia|]. rewrite H0. cbn [bind].
  destruct (N.eqb c0 dquote); [|now eexists].
  destruct (go_index_ok _ name (ilen name - 1)) as [c1 H1]; [lia|]. rewrite H1. cbn [bind].
  destruct (N.eqb c1 dquote); [|now eexists].
  apply go_slice_ok; lia.
Qed.

Lemma filename_of_old_panics_iff : forall name, filename_of_old name = Panic <-> ilen name < 2.
Proof.
  intros name. unfold filename_of_old. split.
  - intros H. destruct (Z_lt_ge_dec (ilen name) 2) as [L|G]; [assumption|].
    destruct (go_slice_ok _ name 1 (ilen name - 1)) as [r Hr]; [lia|lia|]. congruence.
  - intros H. apply go_slice_panics. lia.
Qed.

(* on quoted values of length >= 2 the two rules agree (the repair does not change what worked) *)
Lemma filename_of_quoted_same : forall body,
  filename_of (dquote :: body ++ [dquote]) = filename_of_old (dquote :: body ++ [dquote]).
Proof.
  intros body. unfold filename_of, filename_of_old.
  assert (Hl : ilen (dquote :: body ++ [dquote]) = ilen body + 2).
  { unfold ilen. cbn [length]. rewrite app_length. cbn [length]. lia. }
  pose proof (ilen_nonneg _ body) as Hnn.
  replace (2 <=? ilen (dquote :: body ++ [dquote])) with true by (symmetry; lia).
  assert (H0 : go_index (dquote :: body ++ [dquote]) 0 = Ok dquote).
  { unfold go_index. rewrite Hl.
    replace ((0 <=? 0) && (0 <? ilen body + 2))%bool with true by (symmetry; unfold ilen; lia).
    reflexivity. }
  rewrite H0. cbn [bind]. rewrite N.eqb_refl.
  assert (H1 : go_index (dquote :: body ++ [dquote]) (ilen (dquote :: body ++ [dquote]) - 1) = Ok dquote).
  { unfold go_index. rewrite Hl.
    replace ((0 <=? ilen body + 2 - 1) && (ilen body + 2 - 1 <? ilen body + 2))%bool with true
      by (symmetry; unfold ilen; lia).
    replace (Z.to_nat (ilen body + 2 - 1)) with (S (length body)) by (unfold ilen; lia).
    cbn [nth_error]. rewrite nth_error_app2 by lia. rewrite Nat.sub_diag. reflexivity. }
  rewrite H1. cbn [bind]. rewrite N.eqb_refl. reflexivity.
Qed.

Section Parser.
Context (fnof : bytes -> outcome bytes) (legacy : bool).
Hypothesis fnof_np : forall name, np (fnof name).

Lemma attachment_embed_np : forall c cd h b drained st,
  np (attachment_embed fnof (c :: cd) h b drained st).
Proof.
  intros c cd h b drained st. unfold attachment_embed.
  destruct (go_index_ok _ (c :: cd) 0) as [cd0 H0]; [unfold ilen; cbn [length]; lia|].
  rewrite H0. cbn [bind].
  destruct (pmh_ok cd0) as [[cdType optional] Hp]. rewrite Hp. cbn [bind].
  apply np_bind.
  - destruct (map_get optional lit_filename); [apply fnof_np | apply np_ok].
  - intros filename _.
    destruct (pmh_ok (hget h hdr_content_transfer_enc)) as [pe Hpe]. rewrite Hpe. cbn [bind].
    destruct (lower_is cdType lit_attachment).
    + destruct (drained || _)%bool; auto with eml.
    + destruct (lower_is cdType lit_inline); [|auto with eml].
      destruct (pmh_ok (hget h hdr_content_id)) as [pc Hpc]. rewrite Hpc. cbn [bind].
      destruct (drained || _)%bool; auto with eml.
Qed.

Lemma parse_body_plain_np : forall mt h b st, np (parse_body_plain mt h b st).
Proof.
  intros. unfold parse_body_plain.
  repeat match goal with |- np (if ?c then _ else _) => destruct c end; auto with eml.
Qed.

Lemma part_cte_nonempty : forall h, 0 <= 0 < ilen (part_cte h).
Proof.
  intros h. unfold part_cte. destruct (hvals h hdr_content_transfer_enc); unfold ilen; cbn [length]; lia.
Qed.

Lemma part_step_np : forall sub p st,
  (forall s, np (sub s)) -> np (part_step fnof legacy sub p st).
Proof.
  intros sub p st Hsub. unfold part_step.
  apply np_bind.
  - unfold nested_phase.
    destruct (hvals (e_hdr p) hdr_content_type) as [|c0 [|c1 r]]; auto with eml.
    destruct (go_index_ok _ [c0] 0) as [x Hx]; [unfold ilen; cbn [length]; lia|].
    rewrite Hx. cbn [bind].
    destruct (pmh_ok x) as [ph Hph]. rewrite Hph. cbn [bind].
    destruct (eqfold (fst ph) type_multipart_related || eqfold (fst ph) type_multipart_alternative)%bool;
      auto with eml.
    destruct (read_ok (e_bits p)); auto with eml.
    apply np_bind; [apply Hsub | auto with eml].
  - intros [st1 drained] _. unfold body_phase.
    destruct (hvals (e_hdr p) hdr_content_disposition) as [|c cd].
    + destruct (negb (drained || read_ok (e_bits p))); auto with eml.
      destruct (hvals (e_hdr p) hdr_content_type) as [|c0 cts]; auto with eml.
      cbv beta iota.
      destruct (go_index_ok _ (c0 :: cts) 0) as [x Hx]; [unfold ilen; cbn [length]; lia|].
      rewrite Hx. cbn [bind].
      destruct (pmh_ok x) as [[contentType optional] Hph]. rewrite Hph. cbn [bind].
      destruct (eqfold contentType type_multipart_related
                || negb legacy && eqfold contentType type_multipart_alternative)%bool; auto with eml.
      destruct (go_index_ok _ (part_cte (e_hdr p)) 0 (part_cte_nonempty _)) as [e0 He0]. rewrite He0. cbn [bind].
      destruct (classify_cte e0); auto with eml.
      match goal with |- np (if ?c then _ else _) => destruct c end; auto with eml.
    + apply attachment_embed_np.
Qed.

Lemma run_parts_np : forall steps end_ok s,
  Forall (fun f => forall s, np (f s)) steps -> np (run_parts steps end_ok s).
Proof.
  induction steps as [|f rest IH]; intros end_ok s HF; cbn [run_parts].
  - destruct end_ok; auto with eml.
  - inversion HF; subst. apply np_bind; [auto|]. intros s' _. now apply IH.
Qed.

(* induction principle for the part tree (nested list) *)
Fixpoint entity_ind' (P : entity -> Prop)
  (H : forall h mt b parts end_ok, Forall P parts -> P (Entity h mt b parts end_ok)) (e : entity) : P e :=
  match e with
  | Entity h mt b parts end_ok =>
      H h mt b parts end_ok
        ((fix go (l : list entity) : Forall P l :=
            match l with
            | [] => Forall_nil P
            | x :: t => Forall_cons x (entity_ind' P H x) (go t)
            end) parts)
  end.

Lemma parse_body_parts_np : forall e st, np (parse_body_parts fnof legacy e st).
Proof.
  induction e as [h mt b parts end_ok IH] using entity_ind'; intros st.
  assert (Hgo : forall mediatype charset hb,
    np (let st1 := match charset with Some c => set_charset st c | None => st end in
        if (eqfold mediatype type_text_plain || eqfold mediatype type_text_html)%bool
        then parse_body_plain mediatype h b st1
        else if (eqfold mediatype type_multipart_alternative || eqfold mediatype type_multipart_mixed
                 || eqfold mediatype type_multipart_related)%bool
             then if negb hb then Err
                  else run_parts (map (fun p => part_step fnof legacy (parse_body_parts fnof legacy p) p) parts) end_ok st1
             else Err)).
  { intros mediatype charset hb. cbv zeta.
    destruct (eqfold mediatype type_text_plain || eqfold mediatype type_text_html)%bool;
      [apply parse_body_plain_np|].
    destruct (eqfold mediatype type_multipart_alternative || eqfold mediatype type_multipart_mixed
              || eqfold mediatype type_multipart_related)%bool; auto with eml.
    destruct (negb hb); auto with eml.
    apply run_parts_np. apply Forall_map.
    eapply Forall_impl; [|exact IH]. intros p Hp s. cbv beta. apply part_step_np. exact Hp. }
  destruct mt as [| |m c hb].
  - exact (Hgo type_text_plain (Some charset_ascii) false).
  - cbn [parse_body_parts]. apply np_err.
  - exact (Hgo m c hb).
Qed.

Lemma parse_headers_np : forall h f t c b d st, np (parse_headers legacy h f t c b d st).
Proof.
  intros. unfold parse_headers. apply np_bind.
  - unfold parse_ct_charset. destruct (is_empty (hget h hdr_content_type)); auto with eml.
    destruct (pmh_ok (hget h hdr_content_type)) as [[ct opt] Hp]. rewrite Hp. cbn [bind].
    destruct (legacy && negb (is_empty ct) && negb (eqfold ct type_multipart_mixed))%bool; auto with eml.
  - intros st2 _. destruct (aerr f || aerr t || aerr c || aerr b)%bool; auto with eml.
    destruct d; auto with eml.
Qed.

Lemma parse_eml_np : forall t, np (parse_eml fnof legacy t).
Proof.
  intros t. unfold parse_eml. destruct (negb (t_msg_ok t)); auto with eml.
  apply np_bind; [apply parse_headers_np|]. intros st _. apply parse_body_parts_np.
Qed.

End Parser.

(* ---------- the theorems of C09 ---------- *)
Lemma eml_no_panic : forall t : top, parse_eml_fixed t <> Panic.
Proof.
  intros t. apply parse_eml_np. intros name. apply is_ok_np, filename_of_ok.
Qed.

(* totality in the sense of the property: every input yields a message or an error *)
Lemma eml_total : forall t : top, (exists st, parse_eml_fixed t = Ok st) \/ parse_eml_fixed t = Err.
Proof.
  intros t. pose proof (eml_no_panic t) as H.
  destruct (parse_eml_fixed t) as [st| |]; [left; now eexists | now right | now elim H].
Qed.

(* an entity whose only part carries the Content-Disposition [cd] inside multipart/mixed *)
Definition bits_ok : bits := mkbits true [] (Some []) (Some []) (Some []).
Definition leaf (h : hdr) : entity := Entity h MTNone bits_ok [] true.
Definition mixed_with (parts : list entity) : top :=
  mktop true ANone ANone ANone ANone DNone
    (Entity [(hdr_content_type, bs "multipart/mixed; boundary=BB")]
            (MTOk type_multipart_mixed None true) bits_ok parts true).
Definition witness_cd (cd : bytes) : top :=
  mixed_with [leaf [(hdr_content_disposition, cd); (hdr_content_type, bs "application/octet-stream")]].

(* the parser of the unrepaired tree panics on `Content-Disposition: attachment; filename=` *)
Lemma eml_old_panics_empty : parse_eml_old (witness_cd (bs "attachment; filename=")) = Panic.
Proof. vm_compute. reflexivity. Qed.
Lemma eml_old_panics_one : parse_eml_old (witness_cd (bs "attachment; filename=x")) = Panic.
Proof. vm_compute. reflexivity. Qed.
(* … and the repaired one returns the file *)
Lemma eml_fixed_on_witness :
  exists st, parse_eml_fixed (witness_cd (bs "attachment; filename=")) = Ok st /\ m_atts st = [mkf [] [] []].
Proof. eexists. split; vm_compute; reflexivity. Qed.
Lemma eml_fixed_unquoted :
  exists st, parse_eml_fixed (witness_cd (bs "attachment; filename=xy")) = Ok st /\ m_atts st = [mkf (bs "xy") [] []].
Proof. eexists. split; vm_compute; reflexivity. Qed.

(* nesting: a non-trivial tree for the non-vacuity example *)
Definition nested_example : top :=
  mixed_with
    [Entity [(hdr_content_type, bs "multipart/alternative; boundary=AA")]
            (MTOk type_multipart_alternative None true) bits_ok
            [leaf [(hdr_content_type, bs "text/plain; charset=UTF-8"); (hdr_content_transfer_enc, bs "7bit")];
             leaf [(hdr_content_type, bs "text/html; charset=UTF-8")]] true;
     leaf [(hdr_content_disposition, bs "attachment; filename=""a.txt"""); (hdr_content_transfer_enc, bs "base64")];
     leaf [(hdr_content_disposition, bs "inline; filename=""i.png"""); (bs "Content-Id", bs "<i.png>")]].
