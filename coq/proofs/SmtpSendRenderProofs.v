(* SmtpSendRenderProofs.v — cross-engine composition (C03 with C01/C12): the arbitrary renderer of the send
   co-simulation (SmtpSend.v) instantiated with the byte-core model of Msg.WriteTo (Writer.v).  What the
   server commits is then the dot-canonical form of the PURE rendering (Render.v: render_pure of the resolved
   message) of one message of the batch, and a message with a failing producer is never committed.
   Corollary of commits_complete / render_failure_not_delivered (SmtpSendCorollaries.v) and the render
   refinement success_means_pure / write_to_producer_failure_reported (CompleteOutputProofs.v, WriterProofs.v).
   The Writer development is used qualified (both developments have a type [msg] and fields [m_from] ...). *)
From Coq Require Import String.
From Verif Require Writer Render.
From VerifProofs Require WriterProofs RenderProofs CompleteOutputProofs.
From Verif Require Import Bytes Textproto SendErr RefServer SmtpSend.
From VerifProofs Require Import SmtpSendProofs SmtpSendCorollaries.
Open Scope N_scope.

Section Compose.
(* the batch as the byte core sees it: the k-th Writer message belongs to the send-model message with m_id = k;
   Date / Message-ID / boundary oracles per message *)
Variable wms : list Writer.msg.
Variable date msgid : nat -> bytes.
Variable rb : nat -> list bytes.

Definition writer_error : err := EWrap (bs "bodyWriter function: ") (ELocal (bs "producer failed")).

Definition render_writer (m : msg) : list bytes * option err :=
  match nth_error wms (m_id m) with
  | Some wm =>
      let r := Writer.write_to (date (m_id m)) (msgid (m_id m)) (rb (m_id m)) wm Writer.unlimited in
      ([Writer.r_out r], if Writer.r_err r then Some writer_error else None)
  | None => ([], Some (ELocal (bs "no such message")))
  end.

Definition pure_of (k : nat) (wm : Writer.msg) : bytes :=
  Render.render_pure (Writer.resolve (date k) (msgid k) (rb k) wm).

(* SetBoundary accepts the boundaries (random boundaries always are; a caller-supplied one may not be) *)
Definition boundaries_ok : Prop :=
  forall k wm, nth_error wms k = Some wm ->
    RenderProofs.no_bad_boundary (Writer.resolve (date k) (msgid k) (rb k) wm).

Lemma fresh_unlimited : WriterProofs.fresh_sink Writer.unlimited.
Proof. split; reflexivity. Qed.

Lemma render_writer_ok : forall m, boundaries_ok -> snd (render_writer m) = None ->
  exists wm, nth_error wms (m_id m) = Some wm /\
             WriterProofs.msg_has_failing_producer wm = false /\
             concat (fst (render_writer m)) = pure_of (m_id m) wm.
Proof.
  intros m HB H. unfold render_writer in *. destruct (nth_error wms (m_id m)) as [wm|] eqn:E; [|discriminate].
  cbn [fst snd] in *. exists wm. split; [reflexivity|].
  destruct (Writer.r_err (Writer.write_to (date (m_id m)) (msgid (m_id m)) (rb (m_id m)) wm Writer.unlimited)) eqn:He; [discriminate|].
  split.
  - destruct (WriterProofs.msg_has_failing_producer wm) eqn:Hp; [|reflexivity].
    rewrite (WriterProofs.write_to_producer_failure_reported _ _ _ _ _ fresh_unlimited Hp) in He. discriminate.
  - cbn [concat]. rewrite app_nil_r.
    exact (proj1 (CompleteOutputProofs.success_means_pure _ _ _ _ _ fresh_unlimited (HB _ _ E) He)).
Qed.

Lemma render_writer_fails : forall m wm, nth_error wms (m_id m) = Some wm ->
  WriterProofs.msg_has_failing_producer wm = true -> snd (render_writer m) <> None.
Proof.
  intros m wm E Hp. unfold render_writer. rewrite E. cbn [snd].
  rewrite (WriterProofs.write_to_producer_failure_reported _ _ _ _ _ fresh_unlimited Hp). discriminate.
Qed.

Variable F : fixes.
Hypothesis HF : dialogue_repaired F.
Variable cfg : config.

(* For ALL scripts, capability sets, configurations and batches: every commit carries the dot-canonical form of
   the pure rendering of one message of the batch whose producers do not fail. *)
Theorem commit_is_pure_render : forall caps caps_tls script ms, boundaries_ok ->
  let o := run_case std_expects F cfg caps caps_tls script ms render_writer in
  Forall (fun c => exists m from wm,
            In m ms /\ m_from m = Some from /\ nth_error wms (m_id m) = Some wm /\
            WriterProofs.msg_has_failing_producer wm = false /\
            c = mkCommit from (m_rcpts m) (dotcanon (pure_of (m_id m) wm)))
         (w_commits (o_world o)).
Proof.
  intros caps caps_tls script ms HB o.
  pose proof (commits_complete F HF cfg render_writer caps caps_tls script ms) as H. fold o in H.
  eapply Forall_impl; [|exact H]. intros c (m & from & Hin & Hfrom & Hr & Hc).
  destruct (render_writer_ok m HB Hr) as (wm & E & Hp & Hout).
  exists m, from, wm. rewrite <- Hout. auto.
Qed.

(* a message with a failing producer is never delivered and never committed (its end-of-data is never acknowledged;
   the commit log consists of acknowledged messages only: commits_exact) *)
Theorem failing_producer_never_committed : forall caps caps_tls script ms,
  let o := run_case std_expects F cfg caps caps_tls script ms render_writer in
  Forall2 (fun m r => forall wm, nth_error wms (m_id m) = Some wm ->
             WriterProofs.msg_has_failing_producer wm = true ->
             r_delivered r = false /\ acked r = false)
          ms (o_results o).
Proof.
  intros caps caps_tls script ms o.
  pose proof (render_failure_not_delivered F HF cfg render_writer caps caps_tls script ms) as H. fold o in H.
  induction H as [|m r mt rt Hm Hf IH]; constructor; [|exact IH].
  intros wm E Hp. destruct (Hm (render_writer_fails m wm E Hp)) as (Hd & Ha & _). auto.
Qed.
End Compose.
