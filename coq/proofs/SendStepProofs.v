(* SendStepProofs.v — how sendSingleMsg / SendWithSMTPClient build SendError values (C20):
   the recipient loop, the exits of sendSingleMsg, the joined error.  Stated for every fixes record F
   and expects record X (these lemmas do not depend on the repairs). *)
From Coq Require Import String Lia ZifyBool ZifyNat ZifyN.
From Verif Require Import Bytes Textproto SendErr RefServer SmtpSend.
Open Scope N_scope.

Section Steps.
Variable X : expects.
Variable F : fixes.
Variable cfg : config.
Variable render : msg -> list bytes * option err.

(* the replies the recipients got, in order (ghost run of the loop's commands) *)
Fixpoint rcpt_trace (rcpts : list bytes) (st : state) : list (bytes * res) :=
  match rcpts with
  | [] => []
  | r :: t => let (st1, x) := do_rcpt X r st in (r, x) :: rcpt_trace t st1
  end.

Definition failed_of (tr : list (bytes * res)) : list (bytes * err) :=
  flat_map (fun p => match snd p with RErr e => [(fst p, e)] | ROk _ _ => [] end) tr.

Definition acc_add (esc : bool) (acc : option senderr) (p : bytes * err) : option senderr :=
  let old_rc := match acc with Some a => se_rcpts a | None => [] end in
  let old_n := match acc with Some a => se_nerr a | None => O end in
  Some (mk_se F reason_rcpt_to (snd p) esc (old_rc ++ [fst p]) (S old_n)).

Lemma rcpt_loop_fold : forall esc rcpts st acc,
  snd (rcpt_loop X F esc rcpts st acc) = fold_left (acc_add esc) (failed_of (rcpt_trace rcpts st)) acc.
Proof.
  intros esc rcpts. induction rcpts as [|r t IH]; intros st acc; [reflexivity|].
  cbn [rcpt_loop rcpt_trace]. destruct (do_rcpt X r st) as [st1 x]. destruct x as [c tx|e].
  - cbn. apply IH.
  - cbn [failed_of flat_map snd fst app fold_left]. rewrite IH. reflexivity.
Qed.

Lemma fold_acc_rcpts : forall esc fl acc,
  match fold_left (acc_add esc) fl acc with
  | None => fl = [] /\ acc = None
  | Some a =>
      (fl = [] -> acc = Some a) /\
      se_rcpts a = (match acc with Some x => se_rcpts x | None => [] end) ++ map fst fl /\
      se_nerr a = ((match acc with Some x => se_nerr x | None => O end) + length fl)%nat /\
      (forall r e, last fl (r, e) = (r, e) -> fl <> [] ->
         se_reason a = reason_rcpt_to /\ se_code a = error_code e /\
         se_temp a = is_temp_error (fx_temp_unwrap F) e /\
         se_esc a = enhanced_status_code (fx_regex F) e esc)
  end.
Proof.
  intros esc fl. induction fl as [|p t IH]; intros acc.
  - cbn. destruct acc; [|auto]. rewrite app_nil_r, Nat.add_0_r.
    split; [reflexivity|]. split; [reflexivity|split; [reflexivity|]].
    intros r e _ H. contradiction.
  - cbn [fold_left]. specialize (IH (acc_add esc acc p)).
    destruct (fold_left (acc_add esc) t (acc_add esc acc p)) as [a|].
    + destruct IH as (H0 & H1 & H2 & H3). unfold acc_add in H1, H2. cbn [se_rcpts se_nerr mk_se] in H1, H2.
      split; [discriminate|].
      split; [rewrite H1; cbn [map]; rewrite <- app_assoc; reflexivity|].
      split; [rewrite H2; cbn [length]; lia|].
      intros r e Hl _. destruct t as [|q t'].
      * cbn in Hl. subst p. specialize (H0 eq_refl). unfold acc_add in H0. cbn [fst snd] in H0.
        inversion H0; subst a. cbn. auto.
      * apply (H3 r e); [|discriminate]. exact Hl.
    + destruct IH as [_ H]. discriminate.
Qed.

(* the recipient list of the SendError is exactly the refused recipients; code, temporariness and enhanced
   status code are those of the last refusal *)
Theorem rcpt_loop_list : forall esc rcpts st,
  let fl := failed_of (rcpt_trace rcpts st) in
  match snd (rcpt_loop X F esc rcpts st None) with
  | None => fl = []
  | Some a =>
      se_rcpts a = map fst fl /\ se_nerr a = length fl /\ fl <> [] /\
      forall r e, last fl (r, e) = (r, e) ->
        se_reason a = reason_rcpt_to /\ se_code a = error_code e /\
        se_temp a = is_temp_error (fx_temp_unwrap F) e /\
        se_esc a = enhanced_status_code (fx_regex F) e esc
  end.
Proof.
  intros esc rcpts st fl. rewrite rcpt_loop_fold. fold fl.
  pose proof (fold_acc_rcpts esc fl None) as H.
  destruct fl as [|p t] eqn:Efl.
  - cbn. reflexivity.
  - destruct (fold_left (acc_add esc) (p :: t) None) as [a|].
    + destruct H as (_ & H1 & H2 & H3). cbn [app] in H1. cbn [Nat.add] in H2.
      split; [exact H1|]. split; [exact H2|]. split; [discriminate|].
      intros r e Hl. apply (H3 r e Hl). discriminate.
    + destruct H as [H _]. discriminate.
Qed.

(* ---------- the exits of sendSingleMsg ---------- *)
Definition dsn_state (st : state) : state :=
  if cf_dsn cfg && negb (is_nil (cf_ret cfg)) then (set_mr (fst st) (cf_ret cfg), snd st) else st.

Definition rn_state (st : state) : state := (set_rn (fst st) (cf_notify cfg), snd st).

Definition esc_of (st : state) : bool := extension (fst st) EENHANCED.

Definition bump (se : senderr) : senderr :=
  mkSE (se_reason se) (se_code se) (se_temp se) (se_esc se) (se_rcpts se) (S (se_nerr se)).

(* the SendError after the RSET that follows a failed step: unchanged, or one more entry in errlist *)
Definition after_reset (se se' : senderr) : Prop := se' = se \/ se' = bump se.

Lemma reset_after_err : forall b se st, after_reset se (snd (reset_after X b se st)).
Proof.
  intros. unfold reset_after. destruct (do_reset X st) as [st1 [c t|e]]; cbn; [left|right]; reflexivity.
Qed.

Inductive ssm_exit (m : msg) (st : state) : mres -> Prop :=
| Exit_no8bit :
    m_8bit m && negb (extension (fst st) E8BITMIME) = true ->
    ssm_exit m st (mkRes (Some (mkSE reason_no_unencoded 0 false [] [] O)) false None)
| Exit_nofrom :
    m_from m = None ->
    ssm_exit m st (mkRes (Some (mk_se F reason_get_sender err_no_from (esc_of st) [] 1)) false None)
| Exit_norcpt :
    m_rcpts m = [] ->
    ssm_exit m st (mkRes (Some (mk_se F reason_get_rcpts err_no_rcpt (esc_of st) [] 1)) false None)
| Exit_mail : forall from st1 e se',
    m_from m = Some from ->
    do_mail X from (dsn_state st) = (st1, RErr e) ->
    after_reset (mk_se F reason_mail_from e (esc_of st) [] 1) se' ->
    ssm_exit m st (mkRes (Some se') false None)
| Exit_rcpt : forall from st1 c t st2 se se',
    m_from m = Some from ->
    do_mail X from (dsn_state st) = (st1, ROk c t) ->
    rcpt_loop X F (esc_of st) (m_rcpts m) (rn_state st1) None = (st2, Some se) ->
    after_reset se se' ->
    ssm_exit m st (mkRes (Some se') false None)
| Exit_data : forall from st1 c t st2 st3 e se',
    m_from m = Some from ->
    do_mail X from (dsn_state st) = (st1, ROk c t) ->
    rcpt_loop X F (esc_of st) (m_rcpts m) (rn_state st1) None = (st2, None) ->
    do_data X st2 = (st3, RErr e) ->
    after_reset (mk_se F reason_data e (esc_of st) [] 1) se' ->
    ssm_exit m st (mkRes (Some se') false None)
| Exit_write : forall from st1 c t st2 st3 c3 t3 e,
    m_from m = Some from ->
    do_mail X from (dsn_state st) = (st1, ROk c t) ->
    rcpt_loop X F (esc_of st) (m_rcpts m) (rn_state st1) None = (st2, None) ->
    do_data X st2 = (st3, ROk c3 t3) ->
    snd (render m) = Some e ->
    ssm_exit m st (mkRes (Some (mk_se F reason_write_content e (esc_of st) [] 1)) false None)
| Exit_eod : forall from st1 c t st2 st3 c3 t3 st5 e,
    m_from m = Some from ->
    do_mail X from (dsn_state st) = (st1, ROk c t) ->
    rcpt_loop X F (esc_of st) (m_rcpts m) (rn_state st1) None = (st2, None) ->
    do_data X st2 = (st3, ROk c3 t3) ->
    snd (render m) = None ->
    dc_close X (write_chunks st3 (fst (render m))) = (st5, RErr e) ->
    ssm_exit m st (mkRes (Some (mk_se F reason_data_close e (esc_of st) [] 1)) false
                         (match e with EReply code _ => Some code | _ => None end))
| Exit_reset : forall from st1 c t st2 st3 c3 t3 st5 c5 t5 st6 e,
    m_from m = Some from ->
    do_mail X from (dsn_state st) = (st1, ROk c t) ->
    rcpt_loop X F (esc_of st) (m_rcpts m) (rn_state st1) None = (st2, None) ->
    do_data X st2 = (st3, ROk c3 t3) ->
    snd (render m) = None ->
    dc_close X (write_chunks st3 (fst (render m))) = (st5, ROk c5 t5) ->
    reset_with X cfg st5 = (st6, Some e) ->
    ssm_exit m st (mkRes (Some (mk_se F reason_reset e (esc_of st) [] 1)) true (Some c5))
| Exit_ok : forall from st1 c t st2 st3 c3 t3 st5 c5 t5 st6,
    m_from m = Some from ->
    do_mail X from (dsn_state st) = (st1, ROk c t) ->
    rcpt_loop X F (esc_of st) (m_rcpts m) (rn_state st1) None = (st2, None) ->
    do_data X st2 = (st3, ROk c3 t3) ->
    snd (render m) = None ->
    dc_close X (write_chunks st3 (fst (render m))) = (st5, ROk c5 t5) ->
    reset_with X cfg st5 = (st6, None) ->
    ssm_exit m st (mkRes None true (Some c5)).

(* every run of sendSingleMsg leaves through exactly the exit that names its first failing step *)
Theorem send_single_exit : forall m st, ssm_exit m st (snd (send_single X F cfg render m st)).
Proof.
  intros m st. unfold send_single. cbv zeta. fold (esc_of st).
  change (if cf_dsn cfg && negb (is_nil (cf_ret cfg)) then (set_mr (fst st) (cf_ret cfg), snd st) else st) with (dsn_state st).
  destruct (m_8bit m && negb (extension (fst st) E8BITMIME)) eqn:H8; [apply Exit_no8bit; exact H8|].
  destruct (m_from m) as [from|] eqn:Hf; [|apply Exit_nofrom; exact Hf].
  destruct (m_rcpts m) as [|r0 rt] eqn:Hr; [apply Exit_norcpt; exact Hr|].
  destruct (do_mail X from (dsn_state st)) as [st1 [c t|e]] eqn:Hm.
  2: { pose proof (reset_after_err (fx_rc_mail F) (mk_se F reason_mail_from e (esc_of st) [] 1) st1) as HA.
       destruct (reset_after X (fx_rc_mail F) (mk_se F reason_mail_from e (esc_of st) [] 1) st1) as [st2 se2].
       cbn [snd] in *. eapply Exit_mail; eauto. }
  change (set_rn (fst st1) (cf_notify cfg), snd st1) with (rn_state st1).
  destruct (rcpt_loop X F (esc_of st) (r0 :: rt) (rn_state st1) None) as [st2 [se|]] eqn:Hl.
  { pose proof (reset_after_err (fx_rc_rcpt F) se st2) as HA.
    destruct (reset_after X (fx_rc_rcpt F) se st2) as [st3 se3]. cbn [snd] in *.
    eapply Exit_rcpt; eauto. rewrite Hr. exact Hl. }
  destruct (do_data X st2) as [st3 [c3 t3|e3]] eqn:Hd.
  2: { destruct (fx_data_rset F).
       - pose proof (reset_after_err (fx_rc_data F) (mk_se F reason_data e3 (esc_of st) [] 1) st3) as HA.
         destruct (reset_after X (fx_rc_data F) (mk_se F reason_data e3 (esc_of st) [] 1) st3) as [st4 se4].
         cbn [snd] in *. eapply Exit_data; eauto. rewrite Hr. exact Hl.
       - cbn [snd]. eapply Exit_data; eauto; [rewrite Hr; exact Hl|left; reflexivity]. }
  destruct (snd (render m)) as [e|] eqn:Hrd.
  { cbn [snd]. eapply Exit_write; eauto. rewrite Hr. exact Hl. }
  destruct (dc_close X (write_chunks st3 (fst (render m)))) as [st5 [c5 t5|e5]] eqn:Hc.
  2: { cbn [snd]. eapply Exit_eod; eauto. rewrite Hr. exact Hl. }
  destruct (reset_with X cfg st5) as [st6 [e6|]] eqn:Hw; cbn [snd].
  - eapply Exit_reset; eauto. rewrite Hr. exact Hl.
  - eapply Exit_ok; eauto. rewrite Hr. exact Hl.
Qed.

(* ---------- the batch: one result per message, errors.Join counts the failed ones ---------- *)
Lemma send_msgs_length : forall ms st, length (snd (send_msgs X F cfg render ms st)) = length ms.
Proof.
  induction ms as [|m t IH]; intros st; [reflexivity|].
  cbn [send_msgs]. destruct (send_single X F cfg render m st) as [st1 r1].
  specialize (IH st1). destruct (send_msgs X F cfg render t st1) as [st2 rs]. cbn in *. rewrite IH. reflexivity.
Qed.

(* the k-th result is the result of sendSingleMsg for the k-th message in the state its predecessors left *)
Lemma send_msgs_nth : forall ms st k m, nth_error ms k = Some m ->
  exists stk, nth_error (snd (send_msgs X F cfg render ms st)) k = Some (snd (send_single X F cfg render m stk)).
Proof.
  induction ms as [|m0 t IH]; intros st k m H; [destruct k; discriminate|].
  cbn [send_msgs]. destruct (send_single X F cfg render m0 st) as [st1 r1] eqn:H1.
  specialize (IH st1). destruct (send_msgs X F cfg render t st1) as [st2 rs] eqn:H2.
  destruct k as [|k]; cbn in *.
  - inversion H; subst. exists st. rewrite H1. reflexivity.
  - apply IH. exact H.
Qed.

Theorem send_batch_join : forall ms st,
  let r := fst (snd (send_batch X F cfg render ms st)) in
  let rs := snd (snd (send_batch X F cfg render ms st)) in
  length rs = length ms /\
  match r with
  | RetConnCheck => rs = untouched ms
  | RetNil => count_errors rs = O
  | RetJoined n => n = count_errors rs /\ n <> O
  | _ => False
  end.
Proof.
  intros ms st. unfold send_batch. destruct (check_conn X cfg st) as [st1 [e|]]; cbn [fst snd].
  - split; [unfold untouched; apply map_length|reflexivity].
  - pose proof (send_msgs_length ms st1) as HL.
    destruct (send_msgs X F cfg render ms st1) as [st2 rs]. cbn [fst snd] in *. split; [exact HL|].
    destruct (count_errors rs) eqn:E; [reflexivity|]. split; [reflexivity|discriminate].
Qed.
End Steps.
