(* C10 layer 1 — body content: what the parser's transfer decoders (EmlFront.dec_b64 / dec_qp, the
   functions the front end fills the [bits] of every entity with) make of what the writer's encoders
   (Writer.encode_body) put on the wire, for ALL content bytes. *)
From Coq Require Import String.
From Verif Require Import Bytes Base64 LineBreaker QP WordEnc Writer.
From Verif Require Import MimeTree Render.
From Verif Require Import Eml EmlFront EmlRoundtrip.
From VerifGen Require Import Gen.
From VerifProofs Require Import LineBreakerProofs CodecProofs QPRoundtripProofs C01Proofs.
From Coq Require Import Lia.

(* the content a body part gets from the wire form of its body, per transfer encoding label:
   quoted-printable is decoded by multipart.Part (or parseEMLBodyPlain), base64 by the parser,
   8bit and 7bit (any other label the parser accepts) are taken as they are *)
Definition eml_decode_body (e : Writer.enc) (wire : bytes) : option bytes :=
  match e with
  | EncQP => dec_qp wire
  | EncB64 => dec_b64 wire
  | Enc8bit => Some wire
  | EncOther _ => Some wire
  end.

(* [content_of], [expected_content] (quoted-printable: line breaks in canonical CRLF form): EmlRoundtrip.v *)

Lemma body_b64 : forall p, wf_bytes (content_of p) = true ->
  eml_decode_body EncB64 (encode_body EncB64 p) = Some (content_of p).
Proof. intros p H. exact (b64_leaf_decodes p H). Qed.

Lemma body_qp : forall p, wf_bytes (content_of p) = true -> no_bare_cr (content_of p) = true ->
  eml_decode_body EncQP (encode_body EncQP p) = Some (canon_crlf (content_of p)).
Proof. intros p Hw Hn. exact (qp_roundtrip_chunked (pchunks p) Hw Hn). Qed.

Lemma body_8bit : forall p, eml_decode_body Enc8bit (encode_body Enc8bit p) = Some (content_of p).
Proof. reflexivity. Qed.

(* all three at once *)
Lemma body_roundtrip : forall e p,
  (e = EncQP \/ e = EncB64 \/ e = Enc8bit) ->
  wf_bytes (content_of p) = true -> (e = EncQP -> no_bare_cr (content_of p) = true) ->
  eml_decode_body e (encode_body e p) = Some (expected_content e (content_of p)).
Proof.
  intros e p He Hw Hn. destruct He as [He|[He|He]]; subst e; cbn [expected_content].
  - apply body_qp; auto.
  - now apply body_b64.
  - apply body_8bit.
Qed.

(* text whose line breaks are all CRLF is its own canonical form: quoted-printable is then exact *)
Fixpoint crlf_only (s : bytes) : bool :=
  match s with
  | [] => true
  | b :: t => if N.eqb b 13 then next_is_lf t && match t with _ :: t' => crlf_only t' | [] => false end
              else negb (N.eqb b 10) && crlf_only t
  end.

Lemma canon_crlf_id_n : forall n s, length s <= n -> crlf_only s = true -> canon_crlf s = s.
Proof.
  induction n as [|n IH]; intros s Hl H.
  - destruct s; [reflexivity|cbn in Hl; inversion Hl].
  - destruct s as [|b t]; [reflexivity|]. cbn [crlf_only] in H. cbn [canon_crlf].
    destruct (N.eqb_spec b 13) as [E|E].
    + subst b. apply andb_true_iff in H. destruct H as [H1 H2].
      destruct t as [|c t']; [discriminate|]. cbn [next_is_lf] in H1. apply N.eqb_eq in H1. subst c.
      cbn.
      rewrite (IH t'); [reflexivity| cbn [length] in Hl; lia | exact H2].
    + apply andb_true_iff in H. destruct H as [H1 H2]. apply negb_true_iff in H1.
      rewrite H1. cbn [andb]. rewrite (IH t); [reflexivity|cbn [length] in Hl; lia|exact H2].
Qed.

Lemma canon_crlf_id : forall s, crlf_only s = true -> canon_crlf s = s.
Proof. intros s. apply (canon_crlf_id_n (length s)). auto. Qed.

(* a lone LF in quoted-printable text comes back as CRLF (RFC 2045 canonical text; visible, benign) *)
Lemma qp_lf_normalised : eml_decode_body EncQP (encode_body EncQP (mkprod [[97; 10; 98]%N] false)) = Some [97; 13; 10; 98]%N.
Proof. reflexivity. Qed.

(* the bare-CR class stays refuted (stdlib quotedprintable.Writer quirk, see C01_qp_bare_cr_refuted) *)
Lemma body_qp_bare_cr_refuted : exists p, wf_bytes (content_of p) = true /\
  eml_decode_body EncQP (encode_body EncQP p) <> Some (canon_crlf (content_of p)).
Proof. exists (mkprod [[13; 195; 10]%N] false). split; [reflexivity|]. vm_compute. discriminate. Qed.

(* 7bit (known finding 7bit-requoted): the writer quoted-printable-encodes under the 7bit label, the
   parser takes the wire text as the content *)
Lemma body_7bit_is_wire : forall n p, eml_decode_body (EncOther n) (encode_body (EncOther n) p) = Some (qp_run (pchunks p)).
Proof. reflexivity. Qed.

Lemma body_7bit_refuted : exists p, wf_bytes (content_of p) = true /\ crlf_only (content_of p) = true /\
  eml_decode_body (EncOther enc_7bit) (encode_body (EncOther enc_7bit) p) <> Some (content_of p).
Proof. exists (mkprod [bs "a=b"] false). repeat split; vm_compute; discriminate. Qed.

(* … and exactly the texts quoted-printable leaves alone survive under 7bit *)
Lemma body_7bit_partial : forall n p, qp_run (pchunks p) = content_of p ->
  eml_decode_body (EncOther n) (encode_body (EncOther n) p) = Some (content_of p).
Proof. intros n p H. rewrite body_7bit_is_wire. now rewrite H. Qed.
