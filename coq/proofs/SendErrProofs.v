(* SendErrProofs.v — the classifiers of senderror.go on textproto error texts (C20). *)
From Coq Require Import String Lia ZifyBool ZifyNat ZifyN.
From Verif Require Import Bytes Textproto SendErr.
Open Scope N_scope.

Lemma digits3 : forall c, 100 <= c <= 999 ->
  exists h t u, c = 100 * h + 10 * t + u /\ 1 <= h <= 9 /\ t <= 9 /\ u <= 9 /\
                (c / 100) mod 10 = h /\ (c / 10) mod 10 = t /\ c mod 10 = u /\ c / 100 = h.
Proof.
  intros c H.
  pose proof (N.div_mod c 10 ltac:(lia)) as E1. pose proof (N.mod_lt c 10 ltac:(lia)) as L1.
  pose proof (N.div_mod (c / 10) 10 ltac:(lia)) as E2. pose proof (N.mod_lt (c / 10) 10 ltac:(lia)) as L2.
  assert (E3 : c / 10 / 10 = c / 100) by (rewrite N.div_div by lia; reflexivity).
  rewrite E3 in E2.
  assert (L3 : c / 100 < 10) by (apply N.div_lt_upper_bound; lia).
  assert (L4 : 1 <= c / 100) by (apply N.div_le_lower_bound; lia).
  exists (c / 100), ((c / 10) mod 10), (c mod 10).
  rewrite (N.mod_small (c / 100) 10) by lia. repeat split; lia.
Qed.

Lemma err_string_reply : forall c t,
  err_string (EReply c t) = (48 + (c / 100) mod 10) :: (48 + (c / 10) mod 10) :: (48 + c mod 10) :: 32 :: t.
Proof. reflexivity. Qed.

Lemma error_code_reply : forall c t, 100 <= c <= 999 ->
  error_code (EReply c t) = if (400 <=? c) && (c <=? 599) then c else 0.
Proof.
  intros c t H. destruct (digits3 c H) as (h & d & u & E & Hh & Hd & Hu & M1 & M2 & M3 & _).
  unfold error_code. cbn [unwrap1]. rewrite err_string_reply, M1, M2, M3. cbn [first_byte].
  unfold is_digit.
  assert (Hh' : (48 <=? 48 + h) && (48 + h <=? 57) = true) by lia.
  assert (Hd' : (48 <=? 48 + d) && (48 + d <=? 57) = true) by lia.
  assert (Hu' : (48 <=? 48 + u) && (48 + u <=? 57) = true) by lia.
  rewrite Hh', Hd', Hu'. cbn [andb].
  destruct ((400 <=? c) && (c <=? 599)) eqn:R.
  - assert (Hf : (48 + h <? 52) || (53 <? 48 + h) = false) by lia. rewrite Hf. lia.
  - assert (Hf : (48 + h <? 52) || (53 <? 48 + h) = true) by lia. rewrite Hf. reflexivity.
Qed.

Lemma is_temp_reply : forall u c t, 100 <= c <= 999 ->
  is_temp_error u (EReply c t) = (c / 100 =? 4).
Proof.
  intros u c t H. destruct (digits3 c H) as (h & d & x & E & Hh & Hd & Hu & M1 & M2 & M3 & M4).
  unfold is_temp_error. replace (if u then unwrap1 (EReply c t) else EReply c t) with (EReply c t) by (destruct u; reflexivity).
  rewrite err_string_reply, M1, M4. cbn [first_byte]. lia.
Qed.

(* the repaired isTempError also classifies the wrapped RSET error; the original did not *)
Lemma is_temp_wrapped : forall p c t, 100 <= c <= 999 ->
  is_temp_error true (EWrap p (EReply c t)) = (c / 100 =? 4).
Proof. intros. unfold is_temp_error. cbn [unwrap1]. apply (is_temp_reply false); assumption. Qed.

Lemma error_code_wrapped : forall p c t, error_code (EWrap p (EReply c t)) = error_code (EReply c t).
Proof. reflexivity. Qed.

Lemma wrapped_classified : forall p c t, 100 <= c <= 999 ->
  is_temp_error true (EWrap p (EReply c t)) = (c / 100 =? 4) /\
  error_code (EWrap p (EReply c t)) = error_code (EReply c t).
Proof. intros p c t H. exact (conj (is_temp_wrapped p c t H) (error_code_wrapped p c t)). Qed.

(* ---------- errors that are no replies: any text, also empty or shorter than a reply code ---------- *)
Lemma error_code_short : forall e, (length (err_string (unwrap1 e)) < 3)%nat -> error_code e = 0.
Proof.
  intros e H. unfold error_code. destruct (err_string (unwrap1 e)) as [|a [|b [|c t]]]; cbn in H; try lia;
  destruct (_ || _); reflexivity.
Qed.

Lemma is_temp_by_first_byte : forall e,
  is_temp_error true e = match err_string (unwrap1 e) with c :: _ => c =? 52 | [] => false end.
Proof. intros e. unfold is_temp_error, first_byte. destruct (err_string (unwrap1 e)); reflexivity. Qed.

Lemma enhanced_empty : forall re e sup, err_string (unwrap1 e) = [] -> enhanced_status_code re e sup = [].
Proof. intros re e sup H. unfold enhanced_status_code. rewrite H. destruct sup; reflexivity. Qed.

(* a text that does not start with three digits and a blank never yields an enhanced status code *)
Lemma enhanced_needs_reply_shape : forall e sup a t,
  err_string (unwrap1 e) = a :: t -> is_digit a = false -> enhanced_status_code re_anchored e sup = [].
Proof.
  intros e sup a t H Ha. unfold enhanced_status_code. rewrite H. destruct sup; [|reflexivity]. cbn [negb first_byte].
  destruct (negb _); [reflexivity|].
  replace (bytes_eqb re_anchored re_anchored) with true by (vm_compute; reflexivity).
  unfold esc_anchored. destruct t as [|b [|c [|d r]]]; try reflexivity. rewrite Ha. reflexivity.
Qed.

(* ---------- enhanced status codes ---------- *)
Lemma enhanced_reply : forall c t sup, 100 <= c <= 999 ->
  enhanced_status_code re_anchored (EReply c t) sup =
    if sup && ((c / 100 =? 2) || (c / 100 =? 4) || (c / 100 =? 5)) then opt_bytes (esc_here t) else [].
Proof.
  intros c t sup H. destruct (digits3 c H) as (h & d & x & E & Hh & Hd & Hu & M1 & M2 & M3 & M4).
  unfold enhanced_status_code. destruct sup; [|reflexivity]. cbn [negb andb unwrap1].
  rewrite err_string_reply, M1, M2, M3, M4. cbn [first_byte].
  replace (bytes_eqb re_anchored re_anchored) with true by (vm_compute; reflexivity).
  unfold esc_anchored, is_digit.
  replace ((48 <=? 48 + h) && (48 + h <=? 57)) with true by lia.
  replace ((48 <=? 48 + d) && (48 + d <=? 57)) with true by lia.
  replace ((48 <=? 48 + x) && (48 + x <=? 57)) with true by lia.
  cbn [andb N.eqb Pos.eqb].
  destruct ((h =? 2) || (h =? 4) || (h =? 5)) eqn:R.
  - replace (negb ((48 + h =? 50) || (48 + h =? 52) || (48 + h =? 53))) with false by lia. reflexivity.
  - replace (negb ((48 + h =? 50) || (48 + h =? 52) || (48 + h =? 53))) with true by lia. reflexivity.
Qed.

Lemma enhanced_wrapped : forall re p c t sup,
  enhanced_status_code re (EWrap p (EReply c t)) sup = enhanced_status_code re (EReply c t) sup.
Proof. reflexivity. Qed.

(* what esc_here recognises: class "." 1-3 digits "." 1-3 digits, followed by a non-word byte or the end *)
Definition digit_run (d : bytes) : Prop :=
  forallb is_digit d = true /\ (1 <= length d <= 3)%nat.

Definition esc_shape (e : bytes) : Prop :=
  exists c d1 d2, e = c :: 46 :: d1 ++ 46 :: d2 /\ (c = 50 \/ c = 52 \/ c = 53) /\ digit_run d1 /\ digit_run d2.

Definition boundary (rest : bytes) : Prop :=
  match rest with [] => True | x :: _ => is_word x = false end.

Lemma take_digits_spec : forall s d r, take_digits s = (d, r) ->
  s = d ++ r /\ forallb is_digit d = true /\ match r with [] => True | x :: _ => is_digit x = false end.
Proof.
  induction s as [|c t IH]; intros d r H; cbn in H.
  - inversion H; subst. cbn. auto.
  - destruct (is_digit c) eqn:Hc.
    + destruct (take_digits t) as [d' r'] eqn:Ht. inversion H; subst.
      destruct (IH _ _ eq_refl) as (E & F & G). subst t. cbn. rewrite Hc. auto.
    + inversion H; subst. cbn. rewrite Hc. auto.
Qed.

Lemma take_digits_app : forall d r, forallb is_digit d = true ->
  match r with [] => True | x :: _ => is_digit x = false end -> take_digits (d ++ r) = (d, r).
Proof.
  induction d as [|c t IH]; intros r Hd Hr; cbn.
  - destruct r as [|x r']; [reflexivity|]. cbn. rewrite Hr. reflexivity.
  - cbn in Hd. apply andb_true_iff in Hd. destruct Hd as [Hc Ht]. rewrite Hc, (IH r Ht Hr). reflexivity.
Qed.

Lemma digits13_spec : forall s d r, digits13 s = Some (d, r) ->
  s = d ++ r /\ digit_run d /\ match r with [] => True | x :: _ => is_digit x = false end.
Proof.
  intros s d r H. unfold digits13 in H. destruct (take_digits s) as [d' r'] eqn:Ht.
  destruct (take_digits_spec _ _ _ Ht) as (E & F & G).
  destruct d' as [|a [|b [|c [|x y]]]]; inversion H; subst; (split; [reflexivity|split; [split; [exact F|cbn; lia]|exact G]]).
Qed.

Theorem esc_here_sound : forall s e, esc_here s = Some e ->
  exists rest, s = e ++ rest /\ esc_shape e /\ boundary rest.
Proof.
  intros s e H. unfold esc_here in H.
  destruct s as [|c [|p r1]]; try discriminate.
  destruct (((c =? 50) || (c =? 52) || (c =? 53)) && (p =? 46)) eqn:Hc; [|discriminate].
  assert (p = 46) by lia. subst p.
  destruct (digits13 r1) as [[d1 r2]|] eqn:H1; [|discriminate].
  destruct r2 as [|q r2']; [discriminate|].
  destruct (q =? 46) eqn:Hq; [apply N.eqb_eq in Hq; subst q|discriminate].
  destruct (digits13 r2') as [[d2 r3]|] eqn:H2; [|discriminate].
  destruct (digits13_spec _ _ _ H1) as (E1 & D1 & _).
  destruct (digits13_spec _ _ _ H2) as (E2 & D2 & _).
  destruct (at_boundary r3) eqn:Hb; [|discriminate].
  inversion H; subst e. exists r3. split; [|split].
  - subst r1 r2'. cbn. rewrite <- app_assoc. reflexivity.
  - exists c, d1, d2. split; [reflexivity|]. split; [lia|auto].
  - destruct r3; cbn; [exact I|]. cbn in Hb. apply negb_true_iff in Hb. exact Hb.
Qed.

Lemma is_word_digit : forall x, is_word x = false -> is_digit x = false.
Proof. intros x H. unfold is_word in H. destruct (is_digit x); [discriminate|reflexivity]. Qed.

Theorem esc_here_complete : forall e rest, esc_shape e -> boundary rest -> esc_here (e ++ rest) = Some e.
Proof.
  intros e rest (c & d1 & d2 & E & Hc & (F1 & L1) & (F2 & L2)) Hb. subst e.
  cbn [app]. unfold esc_here.
  replace (((c =? 50) || (c =? 52) || (c =? 53)) && (46 =? 46)) with true by lia.
  rewrite <- app_assoc. cbn [app].
  assert (T1 : take_digits (d1 ++ 46 :: d2 ++ rest) = (d1, 46 :: d2 ++ rest)) by (apply take_digits_app; [exact F1|reflexivity]).
  assert (T2 : take_digits (d2 ++ rest) = (d2, rest)).
  { apply take_digits_app; [exact F2|]. destruct rest; [exact I|]. apply is_word_digit. exact Hb. }
  unfold digits13. rewrite T1.
  destruct d1 as [|a1 [|b1 [|c1 [|x1 y1]]]]; cbn in L1; try lia;
  cbn [N.eqb Pos.eqb]; rewrite T2; destruct d2 as [|a2 [|b2 [|c2 [|x2 y2]]]]; cbn in L2; try lia;
  (destruct rest as [|x r]; [reflexivity|]; cbn in Hb; cbn [at_boundary]; rewrite Hb; reflexivity).
Qed.

(* the old pattern matched anywhere in the text *)
Example esc_anywhere_matches_ip :
  enhanced_status_code re_anywhere (EReply 554 (bs "relay to 10.2.3.4 denied")) true = bs "2.3.4".
Proof. vm_compute. reflexivity. Qed.

Example esc_anchored_ignores_ip :
  enhanced_status_code re_anchored (EReply 554 (bs "relay to 10.2.3.4 denied")) true = [].
Proof. vm_compute. reflexivity. Qed.

Example esc_anchored_example :
  enhanced_status_code re_anchored (EReply 550 (bs "5.7.1 relay denied")) true = bs "5.7.1".
Proof. vm_compute. reflexivity. Qed.

Example old_is_temp_misses_wrapped_rset :
  is_temp_error false (EWrap (bs "failed to send RSET to SMTP client: ") (EReply 451 (bs "4.3.0 try later"))) = false /\
  error_code (EWrap (bs "failed to send RSET to SMTP client: ") (EReply 451 (bs "4.3.0 try later"))) = 451.
Proof. vm_compute. split; reflexivity. Qed.
