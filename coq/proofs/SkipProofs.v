(* counting CRLFs (strings.Count) and skipping lines (the bytes.Index loop of signMessage) agree *)
From Verif Require Import Bytes HeaderFold Smime.
From Coq Require Import Lia.
Open Scope nat_scope.

Definition is_crlf_at (b : N) (t : bytes) : bool :=
  (N.eqb b 13 && match t with c :: _ => N.eqb c 10 | [] => false end)%bool.

(* split at the first CRLF: (text before it, text after it) *)
Fixpoint first_crlf (s : bytes) : option (bytes * bytes) :=
  match s with
  | [] => None
  | b :: t => if is_crlf_at b t then Some ([], tl t)
              else match first_crlf t with Some (p, r) => Some (b :: p, r) | None => None end
  end.

Lemma first_crlf_split : forall s p r, first_crlf s = Some (p, r) -> s = p ++ crlf ++ r.
Proof.
  induction s as [|b t IH]; intros p r H; cbn [first_crlf] in H; [discriminate|].
  destruct (is_crlf_at b t) eqn:E.
  - inversion H; subst. unfold is_crlf_at in E. apply andb_true_iff in E. destruct E as [Eb Ec].
    destruct t as [|c t']; [discriminate|]. apply N.eqb_eq in Eb, Ec. subst. reflexivity.
  - destruct (first_crlf t) as [[p' r']|] eqn:F; [|discriminate]. inversion H; subst.
    rewrite (IH p' r eq_refl). reflexivity.
Qed.

Lemma count_first : forall s,
  count_crlf s = match first_crlf s with Some (_, r) => S (count_crlf r) | None => 0 end.
Proof.
  unfold count_crlf. induction s as [|b t IH]; [reflexivity|].
  cbn [count_crlf_aux first_crlf]. fold (is_crlf_at b t). destruct (is_crlf_at b t) eqn:E.
  - unfold is_crlf_at in E. apply andb_true_iff in E. destruct E as [_ Ec].
    destruct t as [|c t']; [discriminate|]. reflexivity.
  - rewrite IH. destruct (first_crlf t) as [[p r]|]; reflexivity.
Qed.

Lemma after_first : forall s,
  after_crlf s = match first_crlf s with Some (_, r) => Some r | None => None end.
Proof.
  induction s as [|b t IH]; [reflexivity|]. cbn [after_crlf first_crlf]. fold (is_crlf_at b t).
  destruct (is_crlf_at b t); [reflexivity|]. rewrite IH. destruct (first_crlf t) as [[p r]|]; reflexivity.
Qed.

(* appending text after a CRLF-containing text does not move its first CRLF, unless the split
   falls between a trailing CR and a leading LF *)
Lemma first_crlf_app_some : forall s p r t,
  first_crlf s = Some (p, r) -> first_crlf (s ++ t) = Some (p, r ++ t).
Proof.
  induction s as [|b s IH]; intros p r t H; cbn [first_crlf app] in *; [discriminate|].
  destruct (is_crlf_at b s) eqn:E.
  - inversion H; subst. unfold is_crlf_at in *. apply andb_true_iff in E. destruct E as [Eb Ec].
    destruct s as [|c s']; [discriminate|]. cbn [app]. rewrite Eb, Ec. reflexivity.
  - destruct (first_crlf s) as [[p' r']|] eqn:F; [|discriminate]. inversion H; subst.
    assert (E' : is_crlf_at b (s ++ t) = false).
    { unfold is_crlf_at in *. destruct s as [|c s']; [|exact E].
      cbn in F. discriminate. }
    rewrite E'. rewrite (IH p' r t eq_refl). reflexivity.
Qed.

(* texts made of complete lines *)
Definition complete (a : bytes) : Prop := a = [] \/ exists x, a = x ++ crlf.

Lemma complete_tail : forall a p r, complete a -> first_crlf a = Some (p, r) -> complete r.
Proof.
  intros a p r [Ha|[x Hx]] F; [subst; discriminate|].
  pose proof (first_crlf_split _ _ _ F) as Hs. destruct r as [|r0 r']; [now left|]. right.
  (* a = x ++ crlf = p ++ crlf ++ r0 :: r' : compare the ends *)
  assert (Hrev : rev a = 10%N :: 13%N :: rev x) by (rewrite Hx, rev_app_distr; reflexivity).
  rewrite Hs, !rev_app_distr in Hrev. cbn [rev app] in Hrev.
  destruct (rev r') as [|l1 l] eqn:Er.
  - (* r = [r0]: then a would end in 10, r0 with r0 following 13,10: impossible *)
    cbn in Hrev. inversion Hrev.
  - assert (Hr' : r' = rev l ++ [l1]) by (rewrite <- (rev_involutive r'), Er; reflexivity).
    destruct l as [|l2 l'].
    + cbn in Hrev, Hr'. inversion Hrev as [[H1 H2 H3]]. subst r' l1 r0. exists []. reflexivity.
    + cbn in Hrev. rewrite <- !app_assoc in Hrev. cbn in Hrev. inversion Hrev as [[H1 H2 H3]].
      subst r' l1 l2. exists (r0 :: rev l'). cbn [rev app]. rewrite <- !app_assoc. reflexivity.
Qed.

Lemma complete_no_crlf : forall a, complete a -> first_crlf a = None -> a = [].
Proof.
  intros a [Ha|[x Hx]] F; [exact Ha|]. subst a. exfalso.
  clear -F. induction x as [|b x IH]; cbn in F; [discriminate|].
  destruct (is_crlf_at b (x ++ crlf)); [discriminate|].
  destruct (first_crlf (x ++ crlf)) as [[p r]|]; [discriminate|]. now apply IH.
Qed.

Lemma skip_count : forall n a t, count_crlf a = n -> complete a -> skip_lines n (a ++ t) = Some t.
Proof.
  induction n as [|n IH]; intros a t Hc Ha.
  - rewrite count_first in Hc. destruct (first_crlf a) as [[p r]|] eqn:F; [discriminate|].
    rewrite (complete_no_crlf a Ha F). reflexivity.
  - rewrite count_first in Hc. destruct (first_crlf a) as [[p r]|] eqn:F; [|discriminate].
    inversion Hc as [Hc']. cbn [skip_lines]. rewrite after_first, (first_crlf_app_some _ _ _ t F).
    rewrite Hc'. apply IH; [exact Hc'|]. eapply complete_tail; eauto.
Qed.

Lemma count_app : forall a b, complete a -> count_crlf (a ++ b) = count_crlf a + count_crlf b.
Proof.
  intros a. remember (count_crlf a) as n eqn:Hn. revert a Hn.
  induction n as [|n IH]; intros a Hn b Ha.
  - symmetry in Hn. rewrite count_first in Hn. destruct (first_crlf a) as [[p r]|] eqn:F; [discriminate|].
    rewrite (complete_no_crlf a Ha F). reflexivity.
  - symmetry in Hn. rewrite count_first in Hn. destruct (first_crlf a) as [[p r]|] eqn:F; [|discriminate].
    inversion Hn as [Hn']. rewrite (count_first (a ++ b)), (first_crlf_app_some _ _ _ b F).
    rewrite (IH r (eq_sym Hn') b); [lia|]. eapply complete_tail; eauto.
Qed.

Lemma complete_app : forall a b, complete a -> complete b -> complete (a ++ b).
Proof.
  intros a b Ha [Hb|[y Hy]]; [subst; now rewrite app_nil_r|]. right. exists (a ++ y). subst. now rewrite app_assoc.
Qed.
