(* PathsProofs.v — C11: after the first render every output path, in any number and order, delivers
   the first render's bytes; failed renders in between do not matter; edits between renders keep what
   the first render cached. *)
From Coq Require Import String.
From Verif Require Import Bytes Base64 LineBreaker QP HeaderFold WordEnc Writer Smime Builder Setters Paths.
From VerifGen Require Import Gen.
From VerifProofs Require Import WordEncProofs WriterProofs RenderIdemProofs RenderProofs SmimeProofs SmimeMainProofs CompleteOutputProofs.
From Coq Require Import Lia ZifyBool ZifyNat ZifyN.
Open Scope nat_scope.

(* ---------- the real machine is the reference machine ---------- *)
Section Agree.
  Variable rf : oracle -> msg -> sink -> rres.
  Variable f : bytes -> sink -> rres.
  Variable m1 : msg.
  (* a render of the already rendered message is the first render's function of the destination *)
  Hypothesis H1 : forall o k, rf o m1 k = f (o_sb o) k.
  Hypothesis H2 : forall sb k, rr_msg (f sb k) = m1.

  Theorem run_is_ref : forall ops e rd,
    forallb (fun x => negb (is_edit x)) ops = true ->
    run_ops rf (mkps (mkb e m1) rd) ops =
    (mkps (mkb e m1) (fst (ref_ops f rd ops)), snd (ref_ops f rd ops)).
  Proof.
    induction ops as [|x r IH]; intros e rd Hne; [reflexivity|].
    cbn [forallb] in Hne. apply andb_true_iff in Hne. destruct Hne as [Hx Hr].
    cbn [run_ops ref_ops].
    assert (S : run_op rf (mkps (mkb e m1) rd) x = (mkps (mkb e m1) (fst (ref_op f rd x)), snd (ref_op f rd x))).
    { destruct x as [p o k|o|o|n|c]; cbn [run_op ref_op ps_b ps_rd b_msg b_enc]; try discriminate.
      - rewrite H1. unfold set_msg. cbn [ps_b ps_rd b_enc]. now rewrite H2.
      - unfold fill, ref_fill. cbn [ps_b b_msg b_enc]. rewrite H1. cbn [fst snd]. now rewrite H2.
      - destruct rd as [rd0|]; [|reflexivity]. unfold fill, ref_fill. cbn [ps_b b_msg b_enc]. rewrite H1. cbn [fst snd]. now rewrite H2.
      - destruct rd as [rd0|]; [|reflexivity]. destruct (read_rd rd0 n) as [rd' out]. reflexivity. }
    rewrite S. destruct (ref_op f rd x) as [rd1 out]. cbn [fst snd].
    rewrite (IH e rd1 Hr). destruct (ref_ops f rd1 r) as [rd2 outs]. reflexivity.
  Qed.
End Agree.

(* ---------- plain messages ---------- *)
Definition first_plain (o1 : oracle) (m : msg) : bytes -> sink -> rres := fun _ k => render_plain o1 m k.

Lemma render_plain_msg : forall o m k, rr_msg (render_plain o m k) = z_msg (resolve (o_date o) (o_msgid o) (o_rb o) m).
Proof. reflexivity. Qed.

Theorem paths_agree : forall o1 m k1 ops e rd,
  files_ok m -> clean (resolve (o_date o1) (o_msgid o1) (o_rb o1) m) ->
  forallb (fun x => negb (is_edit x)) ops = true ->
  let m1 := rr_msg (render_plain o1 m k1) in
  run_ops render_plain (mkps (mkb e m1) rd) ops =
  (mkps (mkb e m1) (fst (ref_ops (first_plain o1 m) rd ops)), snd (ref_ops (first_plain o1 m) rd ops)).
Proof.
  intros o1 m k1 ops e rd Hf Hc Hne. cbv zeta. apply run_is_ref; [| |exact Hne].
  - intros o k. unfold first_plain, render_plain. cbn [rr_msg].
    now rewrite (render_repeatable (o_date o1) (o_msgid o1) (o_rb o1) (o_date o) (o_msgid o) (o_rb o) m k1 k Hf Hc).
  - intros sb k. reflexivity.
Qed.

(* a render that reports success — on any destination, through any path — delivered the complete
   first rendering *)
Theorem success_is_first_render : forall o1 m k,
  fresh_sink k -> rr_err (render_plain o1 m k) = false ->
  rr_out (render_plain o1 m k) = rr_out (render_plain o1 m unlimited) /\
  rr_n (render_plain o1 m k) = length (rr_out (render_plain o1 m unlimited)) /\
  rr_err (render_plain o1 m unlimited) = false.
Proof.
  intros o1 m k Hk He. unfold render_plain in *. cbn [rr_out rr_n rr_err] in *.
  destruct (success_means_complete _ _ _ m k Hk He) as (_ & A & B & C). auto.
Qed.

(* ---------- the Reader ---------- *)
Lemma read_rd_ok : forall rd n d rd', rd_err rd = false -> read_rd rd n = (rd', OutRead d RdOk) ->
  d ++ rd_buf rd' = rd_buf rd /\ rd_err rd' = false.
Proof.
  intros rd n d rd' He H. unfold read_rd in H. rewrite He in H.
  destruct (rd_buf rd) as [|b t] eqn:E.
  - destruct (Nat.eqb n 0); inversion H; subst. rewrite E. auto.
  - inversion H; subst. cbn [rd_buf rd_err]. split; [apply firstn_skipn|reflexivity].
Qed.

(* whatever the read sizes: what has been read is a prefix of the buffer *)
Theorem drain_prefix : forall sizes rd, rd_err rd = false -> exists rest, drain rd sizes ++ rest = rd_buf rd.
Proof.
  induction sizes as [|n r IH]; intros rd He; cbn [drain]; [exists (rd_buf rd); reflexivity|].
  destruct (read_rd rd n) as [rd' out] eqn:E. destruct out as [| |d st| |]; try (exists (rd_buf rd); reflexivity).
  destruct st; try (exists (rd_buf rd); reflexivity).
  destruct (read_rd_ok rd n d rd' He E) as [A B]. destruct (IH rd' B) as [rest Hr].
  exists rest. rewrite <- app_assoc, Hr. exact A.
Qed.

(* reading with non-empty buffers until the data is exhausted returns exactly the buffer *)
Theorem drain_all : forall sizes rd,
  rd_err rd = false -> Forall (fun n => 0 < n) sizes -> length (rd_buf rd) <= length sizes ->
  drain rd sizes = rd_buf rd.
Proof.
  induction sizes as [|n r IH]; intros rd He Hp Hl; cbn [drain].
  - destruct (rd_buf rd); [reflexivity|cbn in Hl; lia].
  - inversion Hp as [|? ? Hn Hr]; subst. unfold read_rd. rewrite He.
    destruct (rd_buf rd) as [|b t] eqn:E; [destruct (Nat.eqb_spec n 0); [lia|reflexivity]|].
    rewrite IH; cbn [rd_buf rd_err]; auto.
    + apply firstn_skipn.
    + rewrite skipn_length. cbn [length] in *. lia.
Qed.

(* UpdateReader replaces buffer AND error: no stale error (or stale data) survives it *)
Theorem update_reader_fresh : forall rf st o rd0,
  ps_rd st = Some rd0 ->
  ps_rd (fst (run_op rf st (OUpdateReader o))) =
  Some (mkrd (rr_out (rf o (b_msg (ps_b st)) unlimited)) (rr_err (rf o (b_msg (ps_b st)) unlimited))).
Proof. intros rf st o rd0 H. cbn [run_op]. rewrite H. reflexivity. Qed.

(* ---------- S/MIME ---------- *)
Definition with_sb (o : oracle) (sb : bytes) : oracle := mkor (o_date o) (o_msgid o) (o_rb o) sb.
Definition first_signed (signer : bytes -> bytes) (o1 : oracle) (m : msg) : bytes -> sink -> rres :=
  fun sb k => render_signed signer (with_sb o1 sb) m k.

Theorem signed_paths_agree : forall signer o1 m k1 ops e rd,
  files_ok m -> clean (resolve (o_date o1) (o_msgid o1) (o_rb o1) m) ->
  forallb (fun x => negb (is_edit x)) ops = true ->
  let m1 := rr_msg (render_signed signer o1 m k1) in
  run_ops (render_signed signer) (mkps (mkb e m1) rd) ops =
  (mkps (mkb e m1) (fst (ref_ops (first_signed signer o1 m) rd ops)), snd (ref_ops (first_signed signer o1 m) rd ops)).
Proof.
  intros signer o1 m k1 ops e rd Hf Hc Hne. cbv zeta. apply run_is_ref; [| |exact Hne].
  - intros o k. unfold first_signed, render_signed, with_sb. cbn [rr_msg o_date o_msgid o_rb o_sb].
    now rewrite (signed_again signer (o_date o1) (o_msgid o1) (o_rb o1) (o_sb o1) k1 (o_date o) (o_msgid o) (o_rb o) (o_sb o) m k Hf Hc).
  - intros sb k. unfold first_signed, render_signed, with_sb. cbn [rr_msg o_date o_msgid o_rb o_sb]. now rewrite !s_msg_resolve.
Qed.

(* stated for the paths that sign *)
Theorem signed_paths_agree_signing : forall signer o1 m k1 ops e rd,
  files_ok m -> clean (resolve (o_date o1) (o_msgid o1) (o_rb o1) m) ->
  forallb (fun x => negb (is_edit x)) ops = true ->
  forallb signing_op ops = true ->
  let m1 := rr_msg (render_signed signer o1 m k1) in
  run_ops (render_signed signer) (mkps (mkb e m1) rd) ops =
  (mkps (mkb e m1) (fst (ref_ops (first_signed signer o1 m) rd ops)), snd (ref_ops (first_signed signer o1 m) rd ops)).
Proof. intros signer o1 m k1 ops e rd Hf Hc Hne _. exact (signed_paths_agree signer o1 m k1 ops e rd Hf Hc Hne). Qed.

(* the signed entity does not depend on the wrapper boundary drawn, nor on the destination *)
Theorem signed_same_entity : forall signer o1 m sb k sb' k',
  rr_input (first_signed signer o1 m sb k) = rr_input (first_signed signer o1 m sb' k').
Proof.
  intros. unfold first_signed, render_signed, with_sb, write_to_signed. cbn [rr_input o_date o_msgid o_rb o_sb].
  destruct (err (prerender _)); [reflexivity|]. destruct (sign_input _); reflexivity.
Qed.

Theorem signed_success_is_first_render : forall signer o1 m sb k,
  fresh_sink k -> rr_err (first_signed signer o1 m sb k) = false ->
  rr_out (first_signed signer o1 m sb k) = rr_out (first_signed signer o1 m sb unlimited) /\
  rr_n (first_signed signer o1 m sb k) = length (rr_out (first_signed signer o1 m sb unlimited)).
Proof.
  intros signer o1 m sb k Hk He. unfold first_signed, render_signed in *. cbn [rr_out rr_n rr_err] in *.
  destruct (signed_success_means_complete signer _ _ _ _ m k Hk He) as (A & B & _). auto.
Qed.

(* ---------- edits between renders ---------- *)
(* edits that do not throw away what the first render cached: everything but Reset and a
   SetGenHeader on Date / Message-ID *)
Definition keeps_cached (c : cop) : bool :=
  match c with
  | CB BReset => false
  | CS o => forallb (fun kv => negb (bytes_eqb (fst kv) (bs "Date")) && negb (bytes_eqb (fst kv) (bs "Message-ID"))) (sop_sets o)
  | CB _ => true
  end.

Lemma fold_sets_fields : forall sets m,
  let m' := fold_left set_gen_header sets m in
  m_wenc m' = m_wenc m /\ m_bmixed m' = m_bmixed m /\ m_brelated m' = m_brelated m /\ m_balt m' = m_balt m.
Proof.
  induction sets as [|kv r IH]; intros m; cbn [fold_left]; [auto|].
  destruct (IH (set_gen_header m kv)) as (A & B & C & D). unfold set_gen_header in *. cbn [with_gen m_wenc m_bmixed m_brelated m_balt] in *. auto.
Qed.

Lemma apply_cop_fields : forall st c,
  let m := b_msg st in let m' := b_msg (apply_cop st c) in
  m_wenc m' = m_wenc m /\ m_bmixed m' = m_bmixed m /\ m_brelated m' = m_brelated m /\ m_balt m' = m_balt m.
Proof.
  intros st [o|o]; cbn [apply_cop].
  - unfold on_msg. cbn [b_msg]. destruct o; try apply fold_sets_fields; cbn; auto.
  - destruct o; cbn; auto.
Qed.

Lemma run_calls_fields : forall ops st,
  let m := b_msg st in let m' := b_msg (run_calls st ops) in
  m_wenc m' = m_wenc m /\ m_bmixed m' = m_bmixed m /\ m_brelated m' = m_brelated m /\ m_balt m' = m_balt m.
Proof.
  induction ops as [|c r IH]; intros st; cbn [run_calls fold_left]; [auto|].
  destruct (IH (apply_cop st c)) as (A & B & C & D). destruct (apply_cop_fields st c) as (A' & B' & C' & D').
  fold (run_calls (apply_cop st c) r) in *. cbv zeta in *. repeat split; congruence.
Qed.

Definition cached_key (k : bytes) : Prop := k = bs "Date" \/ k = bs "Message-ID".

Lemma fold_sets_first_val : forall k sets m,
  forallb (fun kv => negb (bytes_eqb (fst kv) k)) sets = true ->
  first_val k (m_gen (fold_left set_gen_header sets m)) = first_val k (m_gen m).
Proof.
  intros k. induction sets as [|kv r IH]; intros m H; cbn [fold_left]; [reflexivity|].
  cbn [forallb] in H. apply andb_true_iff in H. destruct H as [Hk Hr]. apply negb_true_iff in Hk.
  rewrite (IH _ Hr). unfold set_gen_header. cbn [with_gen m_gen]. now apply first_val_set_gen_other.
Qed.

Lemma keeps_split : forall o k, cached_key k -> keeps_cached (CS o) = true ->
  forallb (fun kv => negb (bytes_eqb (fst kv) k)) (sop_sets o) = true.
Proof.
  intros o k Hk H. cbn [keeps_cached] in H. rewrite forallb_forall in *. intros kv Hin. specialize (H kv Hin).
  apply andb_true_iff in H. destruct H as [H1 H2]. destruct Hk; subst; assumption.
Qed.

Lemma apply_cop_first_val : forall st c k, cached_key k -> keeps_cached c = true ->
  first_val k (m_gen (b_msg (apply_cop st c))) = first_val k (m_gen (b_msg st)).
Proof.
  intros st [o|o] k Hk H; cbn [apply_cop].
  - unfold on_msg. cbn [b_msg]. pose proof (keeps_split o k Hk H) as Hs.
    destruct o; try (now apply fold_sets_first_val); reflexivity.
  - destruct o; try discriminate; reflexivity.
Qed.

Lemma run_calls_first_val : forall ops st k, cached_key k -> forallb keeps_cached ops = true ->
  first_val k (m_gen (b_msg (run_calls st ops))) = first_val k (m_gen (b_msg st)).
Proof.
  induction ops as [|c r IH]; intros st k Hk H; cbn [run_calls fold_left]; [reflexivity|].
  cbn [forallb] in H. apply andb_true_iff in H. destruct H as [Hc Hr].
  fold (run_calls (apply_cop st c) r). rewrite (IH _ k Hk Hr). now apply apply_cop_first_val.
Qed.

Lemma has_key_first_val : forall k l v, first_val k l = Some v -> has_key k l = true.
Proof.
  intros k l v. unfold first_val, has_key. induction l as [|h t IH]; cbn [find existsb]; [discriminate|].
  destruct (bytes_eqb (fst h) k); [reflexivity|exact IH].
Qed.

Lemma keep_step : forall k k' v' l v, first_val k l = Some v ->
  first_val k (if has_key k' l then l else set_gen k' v' l) = Some v.
Proof.
  intros k k' v' l v H. destruct (has_key k' l) eqn:E; [exact H|].
  destruct (bytes_eqb k' k) eqn:Ek.
  - apply bytes_eqb_eq in Ek. subst k'. rewrite (has_key_first_val _ _ _ H) in E. discriminate.
  - now rewrite first_val_set_gen_other.
Qed.

Lemma add_defaults_keeps : forall d i m k v, cached_key k ->
  first_val k (m_gen m) = Some v -> first_val k (add_defaults d i m) = Some v.
Proof.
  intros d i m k v Hk H. unfold add_defaults. cbv zeta.
  pose proof (keep_step k (bs "Date") [d] (m_gen m) v H) as H1.
  set (g1 := if has_key (bs "Date") (m_gen m) then m_gen m else set_gen (bs "Date") [d] (m_gen m)) in *.
  pose proof (keep_step k (bs "Message-ID") [i] g1 v H1) as H2.
  set (g2 := if has_key (bs "Message-ID") g1 then g1 else set_gen (bs "Message-ID") [i] g1) in *.
  assert (N : forall k', (k' = fst mime_version_hdr \/ k' = bs "User-Agent" \/ k' = bs "X-Mailer") -> bytes_eqb k' k = false).
  { intros k' Hk'. destruct Hk as [->| ->]; destruct Hk' as [->|[->| ->]]; reflexivity. }
  assert (H3 : first_val k (set_gen (fst mime_version_hdr) (snd mime_version_hdr) g2) = Some v)
    by (rewrite first_val_set_gen_other; [exact H2|apply N; auto]).
  set (g3 := set_gen (fst mime_version_hdr) (snd mime_version_hdr) g2) in *.
  destruct (has_key (bs "User-Agent") g3 || has_key (bs "X-Mailer") g3); [exact H3|].
  rewrite !first_val_set_gen_other; [exact H3|apply N; auto|apply N; auto].
Qed.

Lemma add_defaults_has : forall d i m k, cached_key k -> exists v, first_val k (add_defaults d i m) = Some v.
Proof.
  intros d i m k Hk.
  assert (G : forall k' v' l, exists v, first_val k' (if has_key k' l then l else set_gen k' v' l) = Some v).
  { intros k' v' l. destruct (has_key k' l) eqn:E; [|rewrite first_val_set_gen_same; eauto].
    unfold has_key, first_val in *. induction l as [|h t IH]; cbn [existsb find] in *; [discriminate|].
    destruct (bytes_eqb (fst h) k'); [eauto|now apply IH]. }
  unfold add_defaults. cbv zeta.
  set (g1 := if has_key (bs "Date") (m_gen m) then m_gen m else set_gen (bs "Date") [d] (m_gen m)).
  set (g2 := if has_key (bs "Message-ID") g1 then g1 else set_gen (bs "Message-ID") [i] g1).
  assert (H2 : exists v, first_val k g2 = Some v).
  { destruct Hk as [->| ->]; [|apply G]. destruct (G (bs "Date") [d] (m_gen m)) as [v Hv]. fold g1 in Hv.
    exists v. now apply keep_step. }
  destruct H2 as [v H2]. exists v.
  assert (N : forall k', (k' = fst mime_version_hdr \/ k' = bs "User-Agent" \/ k' = bs "X-Mailer") -> bytes_eqb k' k = false).
  { intros k' Hk'. destruct Hk as [->| ->]; destruct Hk' as [->|[->| ->]]; reflexivity. }
  assert (H3 : first_val k (set_gen (fst mime_version_hdr) (snd mime_version_hdr) g2) = Some v)
    by (rewrite first_val_set_gen_other; [exact H2|apply N; auto]).
  set (g3 := set_gen (fst mime_version_hdr) (snd mime_version_hdr) g2) in *.
  destruct (has_key (bs "User-Agent") g3 || has_key (bs "X-Mailer") g3); [exact H3|].
  rewrite !first_val_set_gen_other; [exact H3|apply N; auto|apply N; auto].
Qed.

Lemma resolve_gen : forall d i rb m, m_gen (z_msg (resolve d i rb m)) = add_defaults d i m.
Proof.
  intros. unfold resolve.
  destruct (if has_mixed m then _ else _) as [bm badm]. destruct (if has_related m then _ else _) as [br badr].
  destruct (if has_alt m then _ else _) as [ba bada]. reflexivity.
Qed.

Lemma resolve_keeps_boundaries : forall d i rb m,
  (boundary_valid (m_bmixed m) = true -> m_bmixed (z_msg (resolve d i rb m)) = m_bmixed m) /\
  (boundary_valid (m_brelated m) = true -> m_brelated (z_msg (resolve d i rb m)) = m_brelated m) /\
  (boundary_valid (m_balt m) = true -> m_balt (z_msg (resolve d i rb m)) = m_balt m).
Proof.
  intros d i rb m. unfold resolve.
  destruct (if has_mixed m then _ else _) as [bm badm] eqn:E1. destruct (if has_related m then _ else _) as [br badr] eqn:E2.
  destruct (if has_alt m then _ else _) as [ba bada] eqn:E3. cbn [z_msg m_bmixed m_brelated m_balt].
  repeat split; intros H.
  - destruct (has_mixed m); [rewrite pick_boundary_cached in E1 by exact H|]; now inversion E1.
  - destruct (has_related m); [rewrite pick_boundary_cached in E2 by exact H|]; now inversion E2.
  - destruct (has_alt m); [rewrite pick_boundary_cached in E3 by exact H|]; now inversion E3.
Qed.

Lemma resolve_files : forall d i rb m,
  z_embeds (resolve d i rb m) = map (file_headers (m_wenc m) false) (m_embeds m) /\
  z_attach (resolve d i rb m) = map (file_headers (m_wenc m) true) (m_attach m) /\
  m_embeds (z_msg (resolve d i rb m)) = map fst (map (file_headers (m_wenc m) false) (m_embeds m)) /\
  m_attach (z_msg (resolve d i rb m)) = map fst (map (file_headers (m_wenc m) true) (m_attach m)).
Proof.
  intros. unfold resolve.
  destruct (if has_mixed m then _ else _) as [bm badm]. destruct (if has_related m then _ else _) as [br badr].
  destruct (if has_alt m then _ else _) as [ba bada]. repeat split; reflexivity.
Qed.

(* render; edit; render: the second render is a render of the edited message in which what the first
   render generated is still in place — Date and Message-ID, the boundary of every multipart kind that
   was in use, and for every file of the first render its cached headers and transfer encoding *)
Theorem edits_then_render : forall o1 m e edits o2,
  files_ok m -> clean (resolve (o_date o1) (o_msgid o1) (o_rb o1) m) ->
  forallb keeps_cached edits = true ->
  let z1 := resolve (o_date o1) (o_msgid o1) (o_rb o1) m in
  let m1 := z_msg z1 in
  let m2 := b_msg (run_calls (mkb e m1) edits) in
  let z2 := resolve (o_date o2) (o_msgid o2) (o_rb o2) m2 in
  (forall k, cached_key k -> exists v, first_val k (m_gen m1) = Some v /\ first_val k (m_gen (z_msg z2)) = Some v) /\
  (has_mixed m = true -> m_bmixed (z_msg z2) = m_bmixed m1) /\
  (has_related m = true -> m_brelated (z_msg z2) = m_brelated m1) /\
  (has_alt m = true -> m_balt (z_msg z2) = m_balt m1) /\
  map (file_headers (m_wenc m2) false) (m_embeds m1) = z_embeds z1 /\
  map (file_headers (m_wenc m2) true) (m_attach m1) = z_attach z1.
Proof.
  intros o1 m e edits o2 (Hw & Hfe & Hfa) Hc Hk. cbv zeta.
  set (z1 := resolve (o_date o1) (o_msgid o1) (o_rb o1) m) in *. set (m1 := z_msg z1).
  set (m2 := b_msg (run_calls (mkb e m1) edits)).
  destruct (run_calls_fields edits (mkb e m1)) as (W & B1 & B2 & B3). cbn [b_msg] in W, B1, B2, B3. fold m2 in W, B1, B2, B3.
  destruct Hc as (_ & _ & _ & C4 & C5 & C6). fold m1 in C4, C5, C6.
  assert (Hm : has_mixed m1 = has_mixed m /\ has_related m1 = has_related m /\ has_alt m1 = has_alt m).
  { unfold m1, z1. destruct (resolve_files (o_date o1) (o_msgid o1) (o_rb o1) m) as (_ & _ & E1 & E2).
    destruct (resolve_lengths (o_date o1) (o_msgid o1) (o_rb o1) m) as (_ & _ & _ & _ & E5).
    unfold has_mixed, has_related, has_alt. rewrite E1, E2, E5, !map_length. auto. }
  destruct Hm as (M1 & M2 & M3).
  destruct (resolve_keeps_boundaries (o_date o2) (o_msgid o2) (o_rb o2) m2) as (K1 & K2 & K3).
  assert (W1 : m_wenc m1 = m_wenc m).
  { unfold m1, z1, resolve. destruct (if has_mixed m then _ else _) as [bm badm]. destruct (if has_related m then _ else _) as [br badr].
    destruct (if has_alt m then _ else _) as [ba bada]. reflexivity. }
  split; [|split; [|split; [|split; [|split]]]].
  - intros k Hck. unfold m1, z1. rewrite !resolve_gen.
    destruct (add_defaults_has (o_date o1) (o_msgid o1) m k Hck) as [v Hv]. exists v. split; [exact Hv|].
    apply add_defaults_keeps; [exact Hck|]. unfold m2. rewrite (run_calls_first_val edits _ k Hck Hk). cbn [b_msg].
    unfold m1, z1. now rewrite resolve_gen.
  - intros H. rewrite K1; rewrite B1; [reflexivity|]. apply C4. now rewrite M1.
  - intros H. rewrite K2; rewrite B2; [reflexivity|]. apply C5. now rewrite M2.
  - intros H. rewrite K3; rewrite B3; [reflexivity|]. apply C6. now rewrite M3.
  - destruct (resolve_files (o_date o1) (o_msgid o1) (o_rb o1) m) as (E1 & _ & E3 & _). fold z1 in E1, E3. fold m1 in E3.
    rewrite W, W1, E3, E1. now apply map_file_headers_idem.
  - destruct (resolve_files (o_date o1) (o_msgid o1) (o_rb o1) m) as (_ & E2 & _ & E4). fold z1 in E2, E4. fold m1 in E4.
    rewrite W, W1, E4, E2. now apply map_file_headers_idem.
Qed.
