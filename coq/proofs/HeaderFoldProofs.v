(* Header folding (C18): what msgWriter.writeHeader emits for one header field
   (A) unfolds (RFC 5322) to exactly "Key: " ++ join ", " values, and
   (B) consists of lines of at most MaxHeaderLength - 4 (= 72 <= 78) characters, except lines that are
       a single token (one word of the value behind its fold blank, or "Key:" for an over-long key).
   Both for ALL keys and value lists made of header-safe bytes (printable ASCII or TAB).
   (C) part headers written through multipart.CreatePart are NOT folded (known finding). *)
From Coq Require Import String ZArith.
From Verif Require Import Bytes Base64 HeaderFold WordEnc Writer.
From VerifGen Require Import Gen.
From VerifProofs Require Import WordEncProofs HeaderSafeProofs.
From Coq Require Import Lia ZifyBool ZifyNat ZifyN.
Open Scope N_scope.

(* ------------------------------------------------------------------------------------------ *)
(* 1. the word loop, seen line by line                                                          *)
(* ------------------------------------------------------------------------------------------ *)

Definition sp_crlf : bytes := [32; 13; 10].

(* every word is written right behind a blank (the one of ": ", the separator written after the
   previous word, or the blank of a fold marker): the loop output with that blank moved in front
   of the word.  The counter after a word already includes the separator. *)
Fixpoint wh_gen' (cl : Z) (words : list bytes) : bytes :=
  match words with
  | [] => []
  | w :: rest =>
      if (cl - zlen w <=? 1)%Z
      then sp_crlf ++ 32 :: w ++ wh_gen' (max_header - 3 - 1 - zlen w)%Z rest
      else 32 :: w ++ wh_gen' (cl - 1 - zlen w)%Z rest
  end.

Lemma wh_gen'_cons : forall cl w rest, wh_gen' cl (w :: rest) =
  if (cl - zlen w <=? 1)%Z
  then sp_crlf ++ 32 :: w ++ wh_gen' (max_header - 3 - 1 - zlen w)%Z rest
  else 32 :: w ++ wh_gen' (cl - 1 - zlen w)%Z rest.
Proof. reflexivity. Qed.

Lemma wh_gen_cons2 : forall cl w w2 r, wh_gen cl (w :: w2 :: r) =
  if (cl - zlen w <=? 1)%Z
  then crlf ++ 32 :: w ++ 32 :: wh_gen (max_header - 3 - 1 - zlen w)%Z (w2 :: r)
  else w ++ 32 :: wh_gen (cl - 1 - zlen w)%Z (w2 :: r).
Proof. intros. cbn [wh_gen]. destruct (cl - zlen w <=? 1)%Z; reflexivity. Qed.

Lemma wh_gen_gen' : forall words cl, words <> [] -> 32 :: wh_gen cl words = wh_gen' cl words.
Proof.
  induction words as [|w rest IH]; intros cl Hne; [congruence|]. clear Hne.
  destruct rest as [|w2 r].
  - cbn [wh_gen wh_gen']. destruct (cl - zlen w <=? 1)%Z; cbn [app sp_crlf crlf]; now rewrite ?app_nil_r.
  - assert (IH' := fun c => IH c ltac:(discriminate)). clear IH.
    rewrite wh_gen'_cons, wh_gen_cons2, <- !IH'.
    destruct (cl - zlen w <=? 1)%Z; cbn [app sp_crlf crlf]; reflexivity.
Qed.

(* the lines the loop produces: [cur] = the current line without the blank that is pending *)
Fixpoint wh_lines (cur : bytes) (cl : Z) (words : list bytes) : list bytes :=
  match words with
  | [] => [cur]
  | w :: rest =>
      if (cl - zlen w <=? 1)%Z
      then cur :: wh_lines (32 :: w) (max_header - 3 - 1 - zlen w)%Z rest
      else wh_lines (cur ++ 32 :: w) (cl - 1 - zlen w)%Z rest
  end.

Lemma wh_lines_ne : forall words cur cl, wh_lines cur cl words <> [].
Proof.
  induction words as [|w rest IH]; intros cur cl; cbn [wh_lines]; [discriminate|].
  destruct (cl - zlen w <=? 1)%Z; [discriminate|apply IH].
Qed.

Lemma join_cons_ne : forall sep x l, l <> [] -> join sep (x :: l) = x ++ sep ++ join sep l.
Proof. intros sep x [|y r] H; [congruence|reflexivity]. Qed.

Lemma join_cons_byte : forall sep b x l, join sep ((b :: x) :: l) = b :: join sep (x :: l).
Proof. intros sep b x [|y r]; reflexivity. Qed.

Lemma wh_gen'_lines : forall words cur cl,
  cur ++ wh_gen' cl words = join sp_crlf (wh_lines cur cl words).
Proof.
  induction words as [|w rest IH]; intros cur cl; cbn [wh_gen' wh_lines]; [cbn [join]; apply app_nil_r|].
  destruct (cl - zlen w <=? 1)%Z.
  - rewrite join_cons_ne by apply wh_lines_ne. rewrite <- IH. reflexivity.
  - rewrite <- IH. rewrite <- app_assoc. reflexivity.
Qed.

(* ------------------------------------------------------------------------------------------ *)
(* 2. byte classes                                                                              *)
(* ------------------------------------------------------------------------------------------ *)

Definition no13 (b : N) : bool := negb (b =? 13).
Definition nocr (s : bytes) : Prop := forallb no13 s = true.

Lemma forallb_impl : forall (P Q : N -> bool) s,
  (forall b, P b = true -> Q b = true) -> forallb P s = true -> forallb Q s = true.
Proof.
  intros P Q s H. induction s as [|b t IH]; cbn [forallb]; [reflexivity|].
  intros H1. apply andb_true_iff in H1. destruct H1 as [Hb Ht]. now rewrite (H _ Hb), IH.
Qed.

Lemma safe_no13 : forall b, hdr_safe_byte b = true -> no13 b = true.
Proof. intros b H. unfold hdr_safe_byte in H. unfold no13. lia. Qed.

Lemma safe_nocr : forall s, forallb hdr_safe_byte s = true -> nocr s.
Proof. intros s. apply forallb_impl, safe_no13. Qed.

(* lines inherit any byte class that contains the blank *)
Lemma wh_lines_class : forall (P : N -> bool), P 32 = true -> forall words cur cl,
  Forall (fun w => forallb P w = true) words -> forallb P cur = true ->
  Forall (fun l => forallb P l = true) (wh_lines cur cl words).
Proof.
  intros P H32. induction words as [|w rest IH]; intros cur cl Hw Hc; cbn [wh_lines]; [now repeat constructor|].
  inversion Hw as [|? ? Hw1 Hrest]; subst.
  destruct (cl - zlen w <=? 1)%Z.
  - constructor; [exact Hc|]. apply IH; [exact Hrest|]. cbn [forallb]. now rewrite H32, Hw1.
  - apply IH; [exact Hrest|]. rewrite forallb_app. cbn [forallb]. now rewrite Hc, H32, Hw1.
Qed.

(* ------------------------------------------------------------------------------------------ *)
(* 3. the clean-up ReplaceAll(" \r\n", "\r\n") on a text whose lines are joined by " \r\n"      *)
(* ------------------------------------------------------------------------------------------ *)

Lemma nocr_starts : forall t, nocr t -> starts_crlf t = false.
Proof.
  intros [|c1 [|c2 t]] H; cbn [starts_crlf]; try reflexivity.
  unfold nocr in H. cbn [forallb] in H. unfold no13 in H. apply andb_false_iff. left. lia.
Qed.

Lemma drop_nocr : forall s, nocr s -> drop_sp_before_crlf s = s.
Proof.
  induction s as [|b t IH]; intros H; [reflexivity|].
  unfold nocr in H. cbn [forallb] in H. apply andb_true_iff in H. destruct H as [Hb Ht].
  rewrite drop_cons, (nocr_starts t Ht), andb_false_r. now rewrite IH.
Qed.

Lemma starts_app_sp : forall p Y, nocr p -> starts_crlf (p ++ 32 :: Y) = false.
Proof.
  intros [|c p] Y H; cbn [app].
  - destruct Y; reflexivity.
  - unfold nocr in H. cbn [forallb] in H. apply andb_true_iff in H. destruct H as [Hc _]. unfold no13 in Hc.
    cbn [starts_crlf]. destruct (p ++ 32 :: Y); [reflexivity|]. apply andb_false_iff. left. lia.
Qed.

Lemma drop_app_sp : forall p Y, nocr p ->
  drop_sp_before_crlf (p ++ 32 :: Y) = p ++ drop_sp_before_crlf (32 :: Y).
Proof.
  induction p as [|b p IH]; intros Y H; [reflexivity|].
  unfold nocr in H. cbn [forallb] in H. apply andb_true_iff in H. destruct H as [Hb Hp].
  cbn [app]. rewrite drop_cons, (starts_app_sp p Y Hp), andb_false_r. now rewrite IH.
Qed.

Lemma drop_marker : forall X, drop_sp_before_crlf (32 :: 13 :: 10 :: X) = 13 :: 10 :: drop_sp_before_crlf X.
Proof. reflexivity. Qed.

Lemma drop_join : forall Ls, Forall nocr Ls ->
  drop_sp_before_crlf (join sp_crlf Ls) = join crlf Ls.
Proof.
  induction Ls as [|L r IH]; intros H; [reflexivity|].
  inversion H as [|? ? HL Hr]; subst. destruct r as [|L2 r'].
  - cbn [join]. now apply drop_nocr.
  - rewrite !join_cons_ne by discriminate. unfold sp_crlf at 1. cbn [app].
    rewrite drop_app_sp by exact HL. rewrite drop_marker. rewrite (IH Hr). reflexivity.
Qed.

(* ------------------------------------------------------------------------------------------ *)
(* 4. the emitted field = its lines joined by CRLF                                              *)
(* ------------------------------------------------------------------------------------------ *)

Definition wh_words_of (values : list bytes) : list bytes := split_on 32 (join (bs ", ") values).
Definition wh_cl0 (key : bytes) : Z := (max_header - 2 - zlen key - 2)%Z.
Definition wh_field_lines (key : bytes) (values : list bytes) : list bytes :=
  wh_lines (key ++ [58]) (wh_cl0 key) (wh_words_of values).

Lemma split_on_ne : forall sep s, split_on sep s <> [].
Proof.
  intros sep s. destruct s as [|b t]; cbn [split_on]; [discriminate|].
  destruct (b =? sep); [discriminate|]. destruct (split_on sep t); discriminate.
Qed.

Lemma words_nocr : forall values,
  Forall (fun v => forallb hdr_safe_byte v = true) values ->
  Forall (fun w => forallb no13 w = true) (wh_words_of values).
Proof.
  intros values Hv. unfold wh_words_of.
  eapply Forall_impl; [|apply split_on_safe, forallb_join_safe; [reflexivity|exact Hv]].
  intros w Hw. now apply safe_nocr.
Qed.

Lemma field_lines_nocr : forall key values,
  forallb hdr_safe_byte key = true ->
  Forall (fun v => forallb hdr_safe_byte v = true) values ->
  Forall nocr (wh_field_lines key values).
Proof.
  intros key values Hk Hv. unfold wh_field_lines. apply (wh_lines_class no13 eq_refl); [now apply words_nocr|].
  rewrite forallb_app. cbn [forallb]. now rewrite (safe_nocr key Hk).
Qed.

Theorem wh_buffer_lines : forall key values,
  forallb hdr_safe_byte key = true ->
  Forall (fun v => forallb hdr_safe_byte v = true) values ->
  wh_buffer key values = join crlf (wh_field_lines key values).
Proof.
  intros key values Hk Hv. unfold wh_buffer. rewrite wh_words_gen.
  change (bs ": ") with ([58] ++ [32]). rewrite app_assoc. rewrite <- (app_assoc (key ++ [58])). cbn [app].
  fold (wh_words_of values). fold (wh_cl0 key).
  rewrite wh_gen_gen' by apply split_on_ne. rewrite wh_gen'_lines.
  apply drop_join. now apply field_lines_nocr.
Qed.

(* ------------------------------------------------------------------------------------------ *)
(* 5. (A) unfolding                                                                             *)
(* ------------------------------------------------------------------------------------------ *)

Definition starts_sp (l : bytes) : bool := match l with b :: _ => b =? 32 | [] => false end.

Lemma wh_lines_all_sp : forall words cur cl, starts_sp cur = true ->
  Forall (fun l => starts_sp l = true) (wh_lines cur cl words).
Proof.
  induction words as [|w rest IH]; intros cur cl Hc; cbn [wh_lines]; [now repeat constructor|].
  destruct (cl - zlen w <=? 1)%Z.
  - constructor; [exact Hc|]. now apply IH.
  - apply IH. destruct cur; [discriminate|exact Hc].
Qed.

Lemma wh_lines_tl_sp : forall words cur cl,
  Forall (fun l => starts_sp l = true) (tl (wh_lines cur cl words)).
Proof.
  induction words as [|w rest IH]; intros cur cl; cbn [wh_lines]; [constructor|].
  destruct (cl - zlen w <=? 1)%Z; [cbn [tl]; now apply wh_lines_all_sp|apply IH].
Qed.

Lemma unfold_nocr_app : forall p X, nocr p -> unfold_st 0 (p ++ X) = p ++ unfold_st 0 X.
Proof.
  induction p as [|b p IH]; intros X H; [reflexivity|].
  unfold nocr in H. cbn [forallb] in H. apply andb_true_iff in H. destruct H as [Hb Hp].
  cbn [app unfold_st]. unfold no13 in Hb. destruct (N.eqb_spec b 13) as [E|E]; [subst; discriminate|].
  now rewrite IH.
Qed.

Lemma unfold_join : forall Ls, Forall nocr Ls -> Forall (fun l => starts_sp l = true) (tl Ls) ->
  unfold_st 0 (join crlf Ls) = concat Ls.
Proof.
  induction Ls as [|L r IH]; intros H Hs; [reflexivity|].
  inversion H as [|? ? HL Hr]; subst. destruct r as [|L2 r'].
  - cbn [join concat]. rewrite <- (app_nil_r L) at 1. rewrite unfold_nocr_app by exact HL. reflexivity.
  - cbn [tl] in Hs. inversion Hs as [|? ? Hs2 Hs']; subst.
    rewrite join_cons_ne by discriminate. rewrite unfold_nocr_app by exact HL.
    change (concat (L :: L2 :: r')) with (L ++ concat (L2 :: r')). f_equal. rewrite <- (IH Hr); [|exact Hs'].
    destruct L2 as [|b L2']; [discriminate|]. cbn [starts_sp] in Hs2. apply N.eqb_eq in Hs2. subst b.
    rewrite join_cons_byte. reflexivity.
Qed.

Lemma concat_wh_lines : forall words cur cl,
  concat (wh_lines cur cl words) = cur ++ flat_map (fun w => 32 :: w) words.
Proof.
  induction words as [|w rest IH]; intros cur cl; cbn [wh_lines flat_map]; [reflexivity|].
  destruct (cl - zlen w <=? 1)%Z.
  - cbn [concat]. now rewrite IH.
  - rewrite IH, <- app_assoc. reflexivity.
Qed.

Lemma flat_sp_join : forall words, words <> [] ->
  flat_map (fun w => 32 :: w) words = 32 :: join [32] words.
Proof.
  induction words as [|w rest IH]; intros Hne; [congruence|]. destruct rest as [|w2 r].
  - cbn [flat_map join]. now rewrite app_nil_r.
  - change (flat_map (fun w => 32 :: w) (w :: w2 :: r)) with (32 :: w ++ flat_map (fun w => 32 :: w) (w2 :: r)).
    rewrite IH by discriminate. reflexivity.
Qed.

(* strings.Join(strings.Split(s, " "), " ") = s *)
Lemma join_split : forall s, join [32] (split_on 32 s) = s.
Proof.
  induction s as [|b t IH]; [reflexivity|]. cbn [split_on].
  destruct (N.eqb_spec b 32) as [E|E].
  - subst b. rewrite join_cons_ne by apply split_on_ne. now rewrite IH.
  - destruct (split_on 32 t) as [|w ws].
    + cbn [join] in *. now subst t.
    + rewrite join_cons_byte. f_equal. exact IH.
Qed.

(* (A) RFC 5322 unfolding of the emitted field gives back the joined value, byte for byte *)
Theorem header_unfold : forall key values,
  forallb hdr_safe_byte key = true ->
  Forall (fun v => forallb hdr_safe_byte v = true) values ->
  unfold_hdr (wh_buffer key values) = key ++ bs ": " ++ join (bs ", ") values.
Proof.
  intros key values Hk Hv. rewrite wh_buffer_lines by assumption. unfold unfold_hdr.
  rewrite unfold_join; [|now apply field_lines_nocr|apply wh_lines_tl_sp].
  unfold wh_field_lines. rewrite concat_wh_lines. rewrite flat_sp_join by apply split_on_ne.
  unfold wh_words_of. rewrite join_split. rewrite <- app_assoc. reflexivity.
Qed.

(* ------------------------------------------------------------------------------------------ *)
(* 6. (B) the line bound                                                                        *)
(* ------------------------------------------------------------------------------------------ *)

(* split at CRLF (a text that ends in CRLF has a last, empty, line) *)
Fixpoint lines_of (s : bytes) : list bytes :=
  match s with
  | [] => [[]]
  | b :: t =>
      match t with
      | c :: t' =>
          if (b =? 13) && (c =? 10) then [] :: lines_of t'
          else match lines_of t with l :: ls => (b :: l) :: ls | [] => [[b]] end
      | [] => [[b]]
      end
  end.

Definition has_sp (l : bytes) : bool := existsb (N.eqb 32) l.
(* a continuation line starts with the blank of the fold: not part of its content *)
Definition strip1 (l : bytes) : bytes :=
  match l with b :: r => if b =? 32 then r else l | [] => [] end.
(* a line is fine if it has at most [n] characters or is one token without blanks *)
Definition line_ok (n : nat) (l : bytes) : bool := (length l <=? n)%nat || negb (has_sp (strip1 l)).
Definition fold_bound_ok_n (n : nat) (s : bytes) : bool := forallb (line_ok n) (lines_of s).
Definition fold_bound_ok (s : bytes) : bool := fold_bound_ok_n 78 s.
(* the bound the loop really keeps: a word is appended to a line only while
   charLength - len(word) > 1, and (line length incl. pending blank) + charLength = MaxHeaderLength - 2 *)
Definition fold_exact_bound : nat := Z.to_nat (max_header - 4).

Lemma lines_of_nocr : forall L, nocr L -> lines_of L = [L].
Proof.
  induction L as [|b L IH]; intros H; [reflexivity|].
  unfold nocr in H. cbn [forallb] in H. apply andb_true_iff in H. destruct H as [Hb HL].
  specialize (IH HL). destruct L as [|c L']; [reflexivity|].
  change (lines_of (b :: c :: L')) with
    (if (b =? 13) && (c =? 10) then [] :: lines_of L'
     else match lines_of (c :: L') with l :: ls => (b :: l) :: ls | [] => [[b]] end).
  rewrite IH. unfold no13 in Hb. replace (b =? 13) with false by lia. reflexivity.
Qed.

Lemma lines_of_app_crlf : forall L X, nocr L -> lines_of (L ++ 13 :: 10 :: X) = L :: lines_of X.
Proof.
  induction L as [|b L IH]; intros X H; [reflexivity|].
  unfold nocr in H. cbn [forallb] in H. apply andb_true_iff in H. destruct H as [Hb HL].
  specialize (IH X HL). unfold no13 in Hb.
  destruct L as [|c L'].
  - cbn [app] in *. change (lines_of (b :: 13 :: 10 :: X)) with
      (if (b =? 13) && (13 =? 10) then [] :: lines_of (10 :: X)
       else match lines_of (13 :: 10 :: X) with l :: ls => (b :: l) :: ls | [] => [[b]] end).
    rewrite IH. rewrite andb_false_r. reflexivity.
  - cbn [app] in *. change (lines_of (b :: c :: L' ++ 13 :: 10 :: X)) with
      (if (b =? 13) && (c =? 10) then [] :: lines_of (L' ++ 13 :: 10 :: X)
       else match lines_of (c :: L' ++ 13 :: 10 :: X) with l :: ls => (b :: l) :: ls | [] => [[b]] end).
    rewrite IH. replace (b =? 13) with false by lia. reflexivity.
Qed.

Lemma lines_of_join : forall Ls, Forall nocr Ls -> Ls <> [] ->
  lines_of (join crlf Ls ++ crlf) = Ls ++ [[]].
Proof.
  induction Ls as [|L r IH]; intros H Hne; [congruence|]. inversion H as [|? ? HL Hr]; subst.
  destruct r as [|L2 r'].
  - cbn [join app]. unfold crlf. now rewrite lines_of_app_crlf.
  - rewrite join_cons_ne by discriminate. rewrite <- !app_assoc. unfold crlf at 1. cbn [app].
    rewrite lines_of_app_crlf by exact HL. rewrite IH; [reflexivity|exact Hr|discriminate].
Qed.

Lemma split_on_no_sep : forall s, Forall (fun w => has_sp w = false) (split_on 32 s).
Proof.
  induction s as [|b t IH]; cbn [split_on]; [repeat constructor|].
  destruct (N.eqb_spec b 32) as [E|E]; [constructor; [reflexivity|exact IH]|].
  destruct (split_on 32 t) as [|w ws]; [constructor; [unfold has_sp; cbn [existsb]; lia|constructor]|].
  inversion IH; subst. constructor; [|assumption]. unfold has_sp in *. cbn [existsb].
  apply orb_false_iff. split; [lia|assumption].
Qed.

(* the invariant of the loop: |cur| + charLength = MaxHeaderLength - 3 ([cur] lacks the pending
   blank), and every finished line is short or a single token *)
Lemma wh_lines_ok : forall n words cur cl,
  (max_header - 4 <= Z.of_nat n)%Z ->
  Forall (fun w => has_sp w = false) words ->
  line_ok n cur = true ->
  (zlen cur + cl = max_header - 3)%Z ->
  Forall (fun l => line_ok n l = true) (wh_lines cur cl words).
Proof.
  intros n. induction words as [|w rest IH]; intros cur cl Hn Hw Hc Hinv; cbn [wh_lines]; [now repeat constructor|].
  inversion Hw as [|? ? Hw1 Hrest]; subst.
  destruct (Z.leb_spec (cl - zlen w) 1) as [Hf|Hf].
  - constructor; [exact Hc|]. apply IH; [exact Hn|exact Hrest| |].
    + unfold line_ok. cbn [strip1]. rewrite N.eqb_refl, Hw1. apply orb_true_r.
    + unfold zlen in *. cbn [length]. lia.
  - apply IH; [exact Hn|exact Hrest| |].
    + unfold line_ok. apply orb_true_iff. left. unfold zlen in *. rewrite app_length. cbn [length].
      apply Nat.leb_le. lia.
    + unfold zlen in *. rewrite app_length. cbn [length]. lia.
Qed.

Lemma line_ok_key : forall n key,
  ((zlen key + 5 <= max_header)%Z \/ has_sp key = false) -> (max_header - 4 <= Z.of_nat n)%Z ->
  line_ok n (key ++ [58]) = true.
Proof.
  intros n key [H|H] Hn; unfold line_ok; apply orb_true_iff.
  - left. unfold zlen in *. rewrite app_length. cbn [length]. apply Nat.leb_le. lia.
  - right. assert (Hs : has_sp (key ++ [58]) = false).
    { unfold has_sp in *. rewrite existsb_app, H. reflexivity. }
    destruct key as [|b k]; [reflexivity|]. cbn [app strip1].
    unfold has_sp in H. cbn [existsb] in H. apply orb_false_iff in H. destruct H as [Hb _].
    replace (b =? 32) with false by lia. cbn [app] in Hs. now rewrite Hs.
Qed.

Theorem header_line_bound_n : forall n key values,
  (max_header - 4 <= Z.of_nat n)%Z ->
  forallb hdr_safe_byte key = true ->
  Forall (fun v => forallb hdr_safe_byte v = true) values ->
  ((zlen key + 5 <= max_header)%Z \/ has_sp key = false) ->
  fold_bound_ok_n n (wh_buffer key values ++ crlf) = true.
Proof.
  intros n key values Hn Hk Hv Hkey. rewrite wh_buffer_lines by assumption.
  unfold fold_bound_ok_n. rewrite lines_of_join; [|now apply field_lines_nocr|apply wh_lines_ne].
  rewrite forallb_app. apply andb_true_iff. split; [|reflexivity].
  apply forallb_forall. apply Forall_forall. unfold wh_field_lines.
  apply wh_lines_ok; [exact Hn|apply split_on_no_sep|now apply line_ok_key|].
  unfold wh_cl0, zlen. rewrite app_length. cbn [length]. lia.
Qed.

(* the exact bound: MaxHeaderLength - 4 = 72 *)
Theorem header_line_bound_exact : forall key values,
  forallb hdr_safe_byte key = true ->
  Forall (fun v => forallb hdr_safe_byte v = true) values ->
  ((zlen key + 5 <= max_header)%Z \/ has_sp key = false) ->
  fold_bound_ok_n fold_exact_bound (wh_buffer key values ++ crlf) = true.
Proof.
  intros. apply header_line_bound_n; try assumption. unfold fold_exact_bound.
  assert (4 <= max_header)%Z by (vm_compute; discriminate). lia.
Qed.

(* (B) as the property words it: 78; rests on MaxHeaderLength <= 82 (it is 76) *)
Theorem header_line_bound : forall key values,
  forallb hdr_safe_byte key = true ->
  Forall (fun v => forallb hdr_safe_byte v = true) values ->
  ((zlen key + 5 <= max_header)%Z \/ has_sp key = false) ->
  fold_bound_ok (wh_buffer key values ++ crlf) = true.
Proof.
  intros. apply header_line_bound_n; try assumption.
  assert (max_header <= 82)%Z by (vm_compute; discriminate). lia.
Qed.

(* the bound 72 is reached, 71 is not a bound: "Subject: " ++ 63 x 'a' is one 72-character line
   with a blank *)
Example header_line_bound_tight :
  fold_bound_ok_n 72 (wh_buffer (bs "Subject") [repeat 97 31 ++ [32] ++ repeat 97 31] ++ crlf) = true /\
  fold_bound_ok_n 71 (wh_buffer (bs "Subject") [repeat 97 31 ++ [32] ++ repeat 97 31] ++ crlf) = false.
Proof. split; vm_compute; reflexivity. Qed.

(* the side condition on the key is needed: an over-long key that contains a blank gives a first
   line "Key:" longer than 78 characters with a blank in it *)
Theorem header_line_bound_long_key_refuted : exists key values,
  forallb hdr_safe_byte key = true /\ Forall (fun v => forallb hdr_safe_byte v = true) values /\
  fold_bound_ok (wh_buffer key values ++ crlf) = false.
Proof.
  exists (bs "X" ++ [32] ++ repeat 97 80), [bs "v"]. split; [vm_compute; reflexivity|].
  split; [repeat constructor|vm_compute; reflexivity].
Qed.

(* TAB is not a fold point of the loop (it splits at SP only): if TAB counts as a blank too, a
   word with an inner TAB is a long line containing white space *)
Definition has_wsp (l : bytes) : bool := existsb (fun b => (b =? 32) || (b =? 9)) l.
Definition line_ok_wsp (n : nat) (l : bytes) : bool := (length l <=? n)%nat || negb (has_wsp (strip1 l)).
Definition fold_bound_ok_wsp (s : bytes) : bool := forallb (line_ok_wsp 78) (lines_of s).

Theorem header_line_bound_tab_refuted : exists key values,
  forallb hdr_safe_byte key = true /\ Forall (fun v => forallb hdr_safe_byte v = true) values /\
  fold_bound_ok_wsp (wh_buffer key values ++ crlf) = false.
Proof.
  exists (bs "Subject"), [repeat 97 50 ++ [9] ++ repeat 97 50]. split; [reflexivity|].
  split; [repeat constructor|vm_compute; reflexivity].
Qed.

Definition no9 (b : N) : bool := negb (b =? 9).

Lemma has_wsp_no9 : forall l, forallb no9 l = true -> has_wsp l = has_sp l.
Proof.
  induction l as [|b t IH]; intros H; [reflexivity|]. cbn [forallb] in H. apply andb_true_iff in H.
  destruct H as [Hb Ht]. unfold has_wsp, has_sp in *. cbn [existsb]. rewrite (IH Ht). unfold no9 in Hb.
  replace (b =? 9) with false by lia. rewrite orb_false_r. now rewrite N.eqb_sym.
Qed.

Lemma strip1_class : forall P l, forallb P l = true -> forallb P (strip1 l) = true.
Proof.
  intros P [|b r] H; [reflexivity|]. cbn [strip1]. destruct (b =? 32); [|exact H].
  cbn [forallb] in H. now apply andb_true_iff in H.
Qed.

(* without TABs in key and values the bound holds with TAB counted as a blank as well *)
Theorem header_line_bound_wsp : forall key values,
  forallb hdr_safe_byte key = true -> forallb no9 key = true ->
  Forall (fun v => forallb hdr_safe_byte v = true) values ->
  Forall (fun v => forallb no9 v = true) values ->
  ((zlen key + 5 <= max_header)%Z \/ has_sp key = false) ->
  fold_bound_ok_wsp (wh_buffer key values ++ crlf) = true.
Proof.
  intros key values Hk Hk9 Hv Hv9 Hkey.
  pose proof (header_line_bound key values Hk Hv Hkey) as Hb.
  unfold fold_bound_ok, fold_bound_ok_n in Hb. unfold fold_bound_ok_wsp.
  rewrite wh_buffer_lines in * by assumption.
  rewrite lines_of_join in *; try (now apply field_lines_nocr); try apply wh_lines_ne.
  rewrite forallb_app in *. apply andb_true_iff in Hb. destruct Hb as [Hb _].
  apply andb_true_iff. split; [|reflexivity].
  assert (H9 : Forall (fun l => forallb no9 l = true) (wh_field_lines key values)).
  { unfold wh_field_lines. apply (wh_lines_class no9 eq_refl).
    - unfold wh_words_of. clear -Hv9. assert (Hj : forallb no9 (join (bs ", ") values) = true).
      { induction Hv9 as [|v r Hv1 Hr IH]; [reflexivity|]. destruct r as [|v2 r2]; [exact Hv1|].
        change (join (bs ", ") (v :: v2 :: r2)) with (v ++ bs ", " ++ join (bs ", ") (v2 :: r2)).
        rewrite !forallb_app, Hv1, IH. reflexivity. }
      revert Hj. generalize (join (bs ", ") values). intros l. induction l as [|b t IH]; intros H; cbn [split_on]; [repeat constructor|].
      cbn [forallb] in H. apply andb_true_iff in H. destruct H as [Hb Ht]. specialize (IH Ht).
      destruct (b =? 32); [constructor; [reflexivity|exact IH]|].
      destruct (split_on 32 t) as [|w ws]; [repeat constructor; cbn; now rewrite Hb|].
      inversion IH; subst. constructor; [cbn [forallb]; now rewrite Hb|assumption].
    - rewrite forallb_app, Hk9. reflexivity. }
  rewrite forallb_forall in *. intros l Hl. specialize (Hb l Hl).
  rewrite Forall_forall in H9. specialize (H9 l Hl).
  unfold line_ok_wsp. unfold line_ok in Hb. rewrite has_wsp_no9; [exact Hb|now apply strip1_class].
Qed.

(* ------------------------------------------------------------------------------------------ *)
(* 7. (C) part headers (multipart.CreatePart) are not folded                                    *)
(* ------------------------------------------------------------------------------------------ *)

(* the header block newPart hands to CreatePart for a file (add_files at depth > 0) *)
Definition file_part_header (wenc : N) (is_attachment : bool) (f : file) : bytes :=
  part_header_lines (map (fun kv => (fst kv, [snd kv])) (fst (file_hdrs wenc is_attachment f))).

(* 60 x U+00E4 (UTF-8), an attachment *)
Definition part_hdr_witness : file :=
  mkfile (concat (repeat [195; 164] 60)) (bs "application/octet-stream") None [] [] (mkprod [] false).

(* known finding part-header-line-too-long: the Content-Type line has 484 characters and blanks *)
Theorem part_header_refuted : exists f : file,
  fold_bound_ok (file_part_header 113 true f) = false /\
  existsb (fun l => (78 <? length l)%nat && has_sp (strip1 l)) (lines_of (file_part_header 113 true f)) = true /\
  list_max (map (@length N) (lines_of (file_part_header 113 true f))) = 484%nat.
Proof. exists part_hdr_witness. repeat split; vm_compute; reflexivity. Qed.
