(* SettersProofs.v — C02 for ANY strings: whatever raw byte strings the text-accepting setters are
   given, the message they leave behind satisfies the header-safety hypotheses of the whole-message
   theorems (HeaderBlockProofs.message_header_fields, LineDisciplineProofs), and every stored
   free-text value decodes to the string that was set. *)
From Coq Require Import String ZArith.
From Verif Require Import EmlWord.
From Verif Require Import Bytes Base64 HeaderFold WordEnc Writer Builder MimeTree Render HeaderScan Setters.
From VerifGen Require Import Gen.
From VerifProofs Require Import EmlWordProofs.
From VerifProofs Require Import WordEncProofs HeaderSafeProofs RenderIdemProofs HeaderBlockProofs LineDisciplineProofs.
From Verif Require Import Writer.
From Coq Require Import Lia ZifyBool ZifyNat ZifyN.
Open Scope nat_scope.

(* ---------- what is assumed of the arguments ---------- *)
(* typed-string parameters (Header, ContentType, Charset, Encoding constants): printable *)
Definition enc_typed (e : enc) : Prop := safe (enc_name e).

Definition part_raw_ok (p : part) : Prop :=
  safe (p_ctype p) /\ safe (p_charset p) /\ enc_typed (p_enc p) /\ wf_bytes (p_desc p) = true.

(* a file as file_of builds it: ANY name, description and content-id bytes *)
Definition file_raw_ok (f : file) : Prop :=
  safe (f_mime f) /\ (match f_enc f with Some e => enc_typed e | None => True end) /\
  wf_bytes (f_name f) = true /\ wf_bytes (f_desc f) = true /\
  (f_hdr f = [] \/ exists id, f_hdr f = [(h_cid, id)] /\ wf_bytes id = true).

Definition sop_ok (o : sop) : Prop :=
  match o with
  | SGen k vs => key_ok k = true /\ Forall (fun v => wf_bytes v = true) vs
  | SSubject s | SOrganization s | SUserAgent s | SMessageID s => wf_bytes s = true
  | SBulk | SImportance _ => True
  (* H-addr-safe: what net/mail's Address.String() returns is printable ASCII without CR / LF *)
  | SFrom a => safe a
  | SAddr _ addrs => Forall safe addrs
  end.

Definition bop_ok (o : bop) : Prop :=
  match o with
  | BSetBody ct e cs d _ | BAddAlt ct e cs d _ =>
      safe ct /\ (match e with Some e => enc_typed e | None => True end) /\
      (match cs with Some c => safe c | None => True end) /\ wf_bytes d = true
  | BAttach f | BEmbed f => file_raw_ok f
  | BSetAttach fs | BSetEmbeds fs => Forall file_raw_ok fs
  | _ => True
  end.

Definition cop_ok (c : cop) : Prop := match c with CS o => sop_ok o | CB o => bop_ok o end.

(* ---------- the invariant of the message value ---------- *)
Definition stored_ok (st : bstate) : Prop :=
  let m := b_msg st in
  enc_typed (b_enc st) /\ safe (m_charset m) /\ wenc_ok (m_wenc m) /\
  Forall kv_ok (m_gen m) /\ m_preform m = [] /\
  (forall f, m_from m = Some f -> safe f) /\ Forall (fun kv => vals_safe (snd kv)) (m_addr m) /\
  Forall part_raw_ok (m_parts m) /\ Forall file_raw_ok (m_embeds m) /\ Forall file_raw_ok (m_attach m) /\
  m_bmixed m = [] /\ m_brelated m = [] /\ m_balt m = [].

Lemma set_gen_Forall : forall (P : bytes * list bytes -> Prop) k v l,
  P (k, v) -> Forall P l -> Forall P (set_gen k v l).
Proof.
  intros P k v l Hkv Hl. induction Hl as [|h t Hh Ht IH]; cbn [set_gen]; [auto|].
  destruct (bytes_eqb (fst h) k); auto.
Qed.

Lemma wf_app2 : forall a b, wf_bytes a = true -> wf_bytes b = true -> wf_bytes (a ++ b) = true.
Proof. intros a b Ha Hb. unfold wf_bytes in *. now rewrite forallb_app, Ha, Hb. Qed.

Lemma sop_sets_ok : forall o, sop_ok o ->
  Forall (fun kv => key_ok (fst kv) = true /\ Forall (fun v => wf_bytes v = true) (snd kv)) (sop_sets o).
Proof.
  intros o H. destruct o as [k vs|s|s|s|s| |i|a|k a]; cbn [sop_sets sop_ok] in *;
    try (repeat constructor; cbn [fst snd]; auto; fail).
  - constructor; [|constructor]. exact H.
  - repeat constructor; cbn [fst snd]. apply wf_app2; [reflexivity|]. apply wf_app2; [exact H|reflexivity].
  - destruct i; repeat constructor.
Qed.

Lemma set_gen_header_ok : forall m kv,
  wenc_ok (m_wenc m) -> key_ok (fst kv) = true -> Forall (fun v => wf_bytes v = true) (snd kv) ->
  Forall kv_ok (m_gen m) -> Forall kv_ok (m_gen (set_gen_header m kv)).
Proof.
  intros m kv Hw Hk Hv Hg. unfold set_gen_header. cbn [with_gen m_gen]. apply set_gen_Forall; [|exact Hg].
  split; [exact Hk|]. cbn [snd]. unfold vals_safe. apply Forall_forall. intros x Hx.
  apply in_map_iff in Hx. destruct Hx as (v & E & Hin). subst x. rewrite Forall_forall in Hv.
  apply word_encode_safe; [exact Hw|now apply Hv].
Qed.

Lemma fold_set_gen_header : forall sets m,
  Forall (fun kv => key_ok (fst kv) = true /\ Forall (fun v => wf_bytes v = true) (snd kv)) sets ->
  wenc_ok (m_wenc m) -> Forall kv_ok (m_gen m) ->
  let m' := fold_left set_gen_header sets m in
  Forall kv_ok (m_gen m') /\ m_wenc m' = m_wenc m /\ m_charset m' = m_charset m /\ m_preform m' = m_preform m /\
  m_from m' = m_from m /\ m_addr m' = m_addr m /\ m_parts m' = m_parts m /\ m_embeds m' = m_embeds m /\
  m_attach m' = m_attach m /\ m_bmixed m' = m_bmixed m /\ m_brelated m' = m_brelated m /\ m_balt m' = m_balt m.
Proof.
  induction sets as [|kv r IH]; intros m Hs Hw Hg; cbn [fold_left]; [repeat split; auto|].
  inversion Hs as [|? ? [Hk Hv] Hr]; subst.
  destruct (IH (set_gen_header m kv) Hr Hw (set_gen_header_ok m kv Hw Hk Hv Hg)) as (A & B).
  split; [exact A|exact B].
Qed.

Lemma apply_sop_ok : forall st o, stored_ok st -> sop_ok o -> stored_ok (on_msg st (fun m => apply_sop m o)).
Proof.
  intros st o (He & Hc & Hw & Hg & Hp & Hf & Ha & Hps & Hes & Has & B1 & B2 & B3) Ho.
  unfold stored_ok, on_msg. cbn [b_msg b_enc]. set (m := b_msg st) in *.
  assert (G : forall sets, sop_sets o = sets -> apply_sop m o = fold_left set_gen_header sets m ->
              stored_ok (mkb (b_enc st) (apply_sop m o))).
  { intros sets Es Ea. rewrite Ea. pose proof (sop_sets_ok o Ho) as Hs. rewrite Es in Hs.
    destruct (fold_set_gen_header sets m Hs Hw Hg) as (A & E1 & E2 & E3 & E4 & E5 & E6 & E7 & E8 & E9 & E10 & E11).
    unfold stored_ok. cbn [b_msg b_enc]. rewrite E1, E2, E3, E4, E5, E6, E7, E8, E9, E10, E11. repeat split; auto. }
  destruct o as [k vs|s|s|s|s| |i|a|k a]; try (apply (G _ eq_refl); reflexivity).
  - (* From *) cbn [apply_sop with_from m_gen m_wenc m_charset m_preform m_from m_addr m_parts m_embeds m_attach m_bmixed m_brelated m_balt].
    repeat split; auto. intros f E. inversion E; subst. exact Ho.
  - (* To / Cc / … *) cbn [apply_sop with_addr m_gen m_wenc m_charset m_preform m_from m_addr m_parts m_embeds m_attach m_bmixed m_brelated m_balt].
    repeat split; auto. apply set_gen_Forall; [exact Ho|exact Ha].
Qed.

Lemma new_part_ok : forall st ct e cs d pr,
  stored_ok st ->
  safe ct -> (match e with Some e => enc_typed e | None => True end) ->
  (match cs with Some c => safe c | None => True end) -> wf_bytes d = true ->
  part_raw_ok (Builder.new_part st ct e cs d pr).
Proof.
  intros st ct e cs d pr (He & Hc & _) H1 H2 H3 H4. unfold Builder.new_part, part_raw_ok. cbn.
  repeat split; auto; [destruct cs; auto|destruct e; auto].
Qed.

Lemma lists_ok : forall st ps es fs,
  stored_ok st -> Forall part_raw_ok ps -> Forall file_raw_ok es -> Forall file_raw_ok fs ->
  stored_ok (on_msg st (fun m => with_attach (with_embeds (with_parts m ps) es) fs)).
Proof.
  intros st ps es fs (He & Hc & Hw & Hg & Hp & Hf & Ha & _ & _ & _ & B1 & B2 & B3) P E F.
  unfold stored_ok, on_msg. cbn. repeat split; auto.
Qed.

Lemma apply_bop_ok : forall st o, stored_ok st -> bop_ok o -> stored_ok (apply_bop st o).
Proof.
  intros st o H Ho. pose proof H as (He & Hc & Hw & Hg & Hp & Hf & Ha & Hps & Hes & Has & B1 & B2 & B3).
  set (m := b_msg st) in *.
  destruct o as [ct e cs d pr|ct e cs d pr|f|f|fs|fs| | | |]; cbn [bop_ok] in Ho.
  - destruct Ho as (O1 & O2 & O3 & O4).
    apply (lists_ok st [Builder.new_part st ct e cs d pr] (m_embeds m) (m_attach m)); auto.
    constructor; [now apply new_part_ok|constructor].
  - destruct Ho as (O1 & O2 & O3 & O4).
    apply (lists_ok st (m_parts m ++ [Builder.new_part st ct e cs d pr]) (m_embeds m) (m_attach m)); auto.
    apply Forall_app. split; [exact Hps|]. constructor; [now apply new_part_ok|constructor].
  - apply (lists_ok st (m_parts m) (m_embeds m) (m_attach m ++ [f])); auto.
    apply Forall_app. split; [exact Has|]. constructor; [exact Ho|constructor].
  - apply (lists_ok st (m_parts m) (m_embeds m ++ [f]) (m_attach m)); auto.
    apply Forall_app. split; [exact Hes|]. constructor; [exact Ho|constructor].
  - apply (lists_ok st (m_parts m) (m_embeds m) fs); auto.
  - apply (lists_ok st (m_parts m) fs (m_attach m)); auto.
  - apply (lists_ok st (m_parts m) (m_embeds m) []); auto.
  - apply (lists_ok st (m_parts m) [] (m_attach m)); auto.
  - apply (lists_ok st (m_parts m) [] []); auto.
  - unfold stored_ok, apply_bop, on_msg, reset_msg. cbn. repeat split; auto. discriminate.
Qed.

Theorem run_calls_ok : forall ops st, stored_ok st -> Forall cop_ok ops -> stored_ok (run_calls st ops).
Proof.
  induction ops as [|c r IH]; intros st H Ho; [exact H|]. inversion Ho; subst. cbn [run_calls fold_left].
  apply IH; [|assumption]. destruct c; cbn [apply_cop]; [now apply apply_sop_ok|now apply apply_bop_ok].
Qed.

Lemma new_state_ok : forall cs w e, safe cs -> wenc_ok w -> enc_typed e -> stored_ok (new_state cs w e).
Proof. intros. unfold stored_ok, new_state, new_msg. cbn. repeat split; auto. discriminate. Qed.

(* ---------- after the render has resolved the message ---------- *)
Lemma safe_app2 : forall a b, safe a -> safe b -> safe (a ++ b).
Proof. intros a b Ha Hb. unfold safe in *. now rewrite forallb_app, Ha, Hb. Qed.

Lemma gen_user_agent_safe : safe user_agent.
Proof. reflexivity. Qed.

Lemma add_defaults_ok : forall d i m,
  safe d -> safe i -> Forall kv_ok (m_gen m) -> Forall kv_ok (add_defaults d i m).
Proof.
  intros d i m Hd Hi Hg. unfold add_defaults.
  assert (K : forall k v l, key_ok k = true -> vals_safe v -> Forall kv_ok l -> Forall kv_ok (set_gen k v l)).
  { intros k v l Hk Hv Hl. apply set_gen_Forall; [split; assumption|exact Hl]. }
  assert (V1 : forall s, safe s -> vals_safe [s]) by (intros s Hs; constructor; [exact Hs|constructor]).
  set (g1 := if has_key (bs "Date") (m_gen m) then m_gen m else set_gen (bs "Date") [d] (m_gen m)).
  assert (H1 : Forall kv_ok g1) by (unfold g1; destruct (has_key (bs "Date") (m_gen m)); [exact Hg|apply K; auto; reflexivity]).
  set (g2 := if has_key (bs "Message-ID") g1 then g1 else set_gen (bs "Message-ID") [i] g1).
  assert (H2 : Forall kv_ok g2) by (unfold g2; destruct (has_key (bs "Message-ID") g1); [exact H1|apply K; auto; reflexivity]).
  set (g3 := set_gen (fst mime_version_hdr) (snd mime_version_hdr) g2).
  assert (H3 : Forall kv_ok g3) by (unfold g3; apply K; [reflexivity|apply V1; reflexivity|exact H2]).
  destruct (has_key (bs "User-Agent") g3 || has_key (bs "X-Mailer") g3); [exact H3|].
  apply K; [reflexivity|apply V1, gen_user_agent_safe|]. apply K; [reflexivity|apply V1, gen_user_agent_safe|exact H3].
Qed.

(* keys of the synthesised file header cache *)
Lemma set_kv_key_in : forall k k' v (h : list (bytes * bytes)), In k (map fst (set_kv k' v h)) -> k = k' \/ In k (map fst h).
Proof.
  intros k k' v h H. rewrite set_kv_keys in H. destruct (existsb _ h); [now right|].
  apply in_app_or in H. destruct H as [H|[H|[]]]; auto.
Qed.

Lemma ensure_key_in : forall k k' v h, In k (map fst (ensure k' v h)) -> k = k' \/ In k (map fst h).
Proof. intros k k' v h H. unfold ensure in H. destruct (get_h k' h); [now right|eapply set_kv_key_in; exact H]. Qed.

Lemma reencode_key_in : forall k k' w h, In k (map fst (reencode k' w h)) -> k = k' \/ In k (map fst h).
Proof. intros k k' w h H. unfold reencode in H. destruct (get_h k' h); [eapply set_kv_key_in; exact H|now right]. Qed.

Lemma file_hdrs_keys : forall w a f k,
  In k (map fst (fst (file_hdrs w a f))) ->
  In k [h_ctype; h_cte; h_cdesc; h_cdisp; h_cid] \/ In k (map fst (f_hdr f)).
Proof.
  intros w a f k H. unfold file_hdrs in H. cbv zeta in H. cbn [fst] in H.
  apply reencode_key_in in H. destruct H as [H|H]; [subst; left; cbn; auto 10|].
  destruct a; destruct (f_desc f);
    repeat (apply ensure_key_in in H; destruct H as [H|H]; [subst; left; cbn; auto 10|]); now right.
Qed.

Lemma const_keys_ok : forall k, In k [h_ctype; h_cte; h_cdesc; h_cdisp; h_cid] -> key_ok k = true.
Proof. intros k H. cbn in H. repeat (destruct H as [H|H]; [subst; reflexivity|]). destruct H. Qed.

Lemma file_resolved_ok : forall w a f,
  wenc_ok w -> file_raw_ok f -> file_ok (file_headers w a f).
Proof.
  intros w a f Hw (Hm & He & Hn & Hd & Hh). unfold file_ok, file_headers. cbn [fst]. unfold file_kvs, with_hdr. cbn [f_hdr].
  assert (Hv : values_safe (fst (file_hdrs w a f))).
  { apply file_headers_safe; auto.
    - destruct Hh as [E|(id & E & _)]; rewrite E; unfold keys_unique; cbn; repeat constructor; intros [].
    - destruct Hh as [E|(id & E & _)]; rewrite E; [constructor|]. constructor; [left; apply beq_refl|constructor].
    - intros v Hg. destruct Hh as [E|(id & E & Hid)]; rewrite E in Hg; [discriminate|].
      unfold get_h, lookup in Hg. cbn [find fst snd] in Hg. rewrite beq_refl in Hg. destruct id; inversion Hg; subst; exact Hid. }
  apply Forall_forall. intros kv Hin. apply in_map_iff in Hin. destruct Hin as (x & E & Hx). subst kv.
  split; cbn [fst snd].
  - assert (Hk : In (fst x) (map fst (fst (file_hdrs w a f)))) by (apply in_map; exact Hx).
    apply file_hdrs_keys in Hk. destruct Hk as [Hk|Hk]; [now apply const_keys_ok|].
    destruct Hh as [E|(id & E & _)]; rewrite E in Hk; [destruct Hk|]. cbn in Hk. destruct Hk as [Hk|[]]. rewrite <- Hk. reflexivity.
  - unfold values_safe in Hv. rewrite Forall_forall in Hv. constructor; [exact (Hv x Hx)|constructor].
Qed.

Lemma part_resolved_ok : forall w cs p,
  wenc_ok w -> safe cs -> part_raw_ok p ->
  Forall kv_ok (part_kvs w cs p) /\ safe (enc_name (p_enc p)) /\ safe (part_ctype cs p).
Proof.
  intros w cs p Hw Hc (H1 & H2 & H3 & H4).
  assert (Ht : safe (part_ctype cs p)).
  { unfold part_ctype, part_cs. apply safe_app2; [exact H1|]. apply safe_app2; [reflexivity|]. destruct (p_charset p); [exact Hc|exact H2]. }
  split; [|split; [exact H3|exact Ht]].
  unfold part_kvs. apply Forall_app. split.
  - destruct (p_desc p) as [|b t] eqn:E; [constructor|]. constructor; [|constructor].
    split; [reflexivity|]. constructor; [|constructor]. apply word_encode_safe; [exact Hw|exact H4].
  - constructor; [split; [reflexivity|constructor; [exact H3|constructor]]|].
    constructor; [split; [reflexivity|constructor; [exact Ht|constructor]]|constructor].
Qed.

Lemma nth_rb_safe : forall rb n, Forall safe rb -> safe (nth_rb n rb).
Proof.
  intros rb n H. unfold nth_rb. destruct (nth_in_or_default n rb []) as [Hin|E]; [|rewrite E; reflexivity].
  rewrite Forall_forall in H. now apply H.
Qed.

(* the hypotheses of the whole-message theorems hold for what the setters left behind *)
Theorem resolved_safe : forall st d i rb,
  stored_ok st -> safe d -> safe i -> Forall safe rb ->
  let z := resolve d i rb (b_msg st) in
  hdrs_safe (z_msg z) /\ m_preform (z_msg z) = [] /\ entity_safe z /\ msg_safe z.
Proof.
  intros st d i rb (He & Hc & Hw & Hg & Hp & Hf & Ha & Hps & Hes & Has & B1 & B2 & B3) Hd Hi Hrb. cbv zeta.
  set (m := b_msg st) in *. unfold resolve. rewrite B1, B2, B3.
  assert (P : forall (c : bool) n, (if c then pick_boundary [] (nth_rb n rb) else (@nil N, false)) = ((if c then nth_rb n rb else @nil N), false)) by (intros [] n; reflexivity).
  rewrite !P. cbn [z_msg z_embeds z_attach].
  assert (HS : hdrs_safe (mkmsg (m_charset m) (m_wenc m) (add_defaults d i m) (m_preform m) (m_from m) (m_addr m) (m_parts m)
                 (map fst (map (file_headers (m_wenc m) false) (m_embeds m))) (map fst (map (file_headers (m_wenc m) true) (m_attach m)))
                 (if has_mixed m then nth_rb 0 rb else @nil N)
                 (if has_related m then nth_rb (if has_mixed m then 1 else 0) rb else @nil N)
                 (if has_alt m then nth_rb ((if has_mixed m then 1 else 0) + (if has_related m then 1 else 0)) rb else @nil N))).
  { unfold hdrs_safe. cbn [m_gen m_from m_addr]. split; [now apply add_defaults_ok|]. split; [exact Hf|exact Ha]. }
  assert (FE : forall a l, Forall file_raw_ok l -> Forall file_ok (map (file_headers (m_wenc m) a) l)).
  { intros a l H. induction H as [|f r Hfr Hr IH]; cbn [map]; constructor; [now apply file_resolved_ok|exact IH]. }
  assert (BS : forall (c : bool) n, safe (if c then nth_rb n rb else @nil N)) by (intros [] n; [now apply nth_rb_safe|reflexivity]).
  split; [exact HS|]. split; [exact Hp|]. split.
  - unfold entity_safe. cbn [z_msg z_embeds z_attach m_bmixed m_brelated m_balt m_parts m_charset].
    split; [apply BS|]. split; [apply BS|]. split; [apply BS|]. split; [|split; now apply FE].
    eapply Forall_impl; [|exact Hps]. intros p Hpp. now destruct (part_resolved_ok (m_wenc m) (m_charset m) p Hw Hc Hpp) as (_ & A & B).
  - unfold msg_safe. cbn [z_msg z_embeds z_attach m_preform m_parts]. split; [exact HS|]. split; [exact Hp|].
    split; [|split; now apply FE]. eapply Forall_impl; [|exact Hps]. intros p Hpp. unfold part_ok. cbn [m_wenc m_charset].
    now destruct (part_resolved_ok (m_wenc m) (m_charset m) p Hw Hc Hpp) as (A & _).
Qed.

(* ---------- C02 for any strings ---------- *)
(* For every sequence of setter and builder calls with ARBITRARY raw strings (subject, generic header
   values, organisation, user agent, message id, part / file descriptions, file names, content ids)
   on a new message, the header section of the rendered message has exactly the expected fields.
   What is left as hypotheses: header KEYS and the other typed-string parameters are printable
   (cop_ok), H-addr-safe (address strings from net/mail are printable), the date / message-id
   oracle strings and the drawn boundaries are printable, and the body is one entity. *)
Theorem any_strings : forall cs w e ops d i rb t,
  safe cs -> wenc_ok w -> enc_typed e -> Forall cop_ok ops ->
  safe d -> safe i -> Forall safe rb ->
  let m := b_msg (run_calls (new_state cs w e) ops) in
  let z := resolve d i rb m in
  forest_of z = [t] ->
  field_names (render_pure z) = Some (top_names (z_msg z) ++ entity_names z).
Proof.
  intros cs w e ops d i rb t Hcs Hw He Hops Hd Hi Hrb. cbv zeta. intros Ht.
  pose proof (run_calls_ok ops _ (new_state_ok cs w e Hcs Hw He) Hops) as Hok.
  destruct (resolved_safe _ d i rb Hok Hd Hi Hrb) as (A & B & C & _).
  now apply (message_header_fields _ t).
Qed.

(* ---------- the stored values are the encoded asked values ---------- *)
Definition enc_kv (w : N) (kv : bytes * list bytes) : bytes * list bytes := (fst kv, map (word_encode w) (snd kv)).

Lemma set_gen_map : forall w k vs l,
  set_gen k (map (word_encode w) vs) (map (enc_kv w) l) = map (enc_kv w) (set_gen k vs l).
Proof.
  intros w k vs l. induction l as [|h t IH]; cbn [map set_gen enc_kv fst]; [reflexivity|].
  destruct (bytes_eqb (fst h) k); cbn [map enc_kv fst snd]; [reflexivity|]. now rewrite IH.
Qed.

Lemma fold_sets_map : forall sets m l,
  m_gen m = map (enc_kv (m_wenc m)) l ->
  let m' := fold_left set_gen_header sets m in
  m_gen m' = map (enc_kv (m_wenc m)) (fold_left (fun l kv => set_gen (fst kv) (snd kv) l) sets l) /\ m_wenc m' = m_wenc m.
Proof.
  induction sets as [|kv r IH]; intros m l H; cbn [fold_left]; [auto|].
  specialize (IH (set_gen_header m kv) (set_gen (fst kv) (snd kv) l)).
  unfold set_gen_header in *. cbn [with_gen m_gen m_wenc] in *. apply IH. rewrite H. apply set_gen_map.
Qed.

Theorem stored_is_encoded_asked : forall ops st l,
  m_gen (b_msg st) = map (enc_kv (m_wenc (b_msg st))) l ->
  m_gen (b_msg (run_calls st ops)) = map (enc_kv (m_wenc (b_msg st))) (fold_left asked_step ops l) /\
  m_wenc (b_msg (run_calls st ops)) = m_wenc (b_msg st).
Proof.
  induction ops as [|c r IH]; intros st l H; cbn [run_calls fold_left]; [auto|].
  assert (S : m_gen (b_msg (apply_cop st c)) = map (enc_kv (m_wenc (b_msg st))) (asked_step l c) /\
              m_wenc (b_msg (apply_cop st c)) = m_wenc (b_msg st)).
  { destruct c as [o|o]; cbn [apply_cop asked_step].
    - unfold on_msg. cbn [b_msg]. destruct o; try (apply fold_sets_map; exact H); cbn; auto.
    - destruct o; cbn; auto. }
  destruct S as [S1 S2]. destruct (IH (apply_cop st c) (asked_step l c)) as [A B]; [now rewrite S2|].
  fold (run_calls (apply_cop st c) r) in *. rewrite S2 in A. split; [exact A|congruence].
Qed.

(* a raw value the round trip is claimed for: it needs encoding, or it contains no "=?" at all *)
Definition decodable (raw : bytes) : bool := needs_encoding raw || no_eq_q raw.

Lemma decode_vals : forall w vs, wenc_ok w ->
  Forall (fun raw => wf_bytes raw = true /\ decodable raw = true) vs ->
  map decode_header (map (word_encode w) vs) = map Some vs.
Proof.
  intros w vs Hw H. induction H as [|raw t [Hwf Hd] Ht IH]; cbn [map]; [reflexivity|]. rewrite IH. f_equal.
  apply decode_word_encode; [exact Hw|exact Hwf|]. unfold decodable in Hd. now apply orb_true_iff in Hd.
Qed.

(* each free-text value a setter stored decodes (RFC 2047) to the string that was set *)
Theorem stored_values_decode : forall cs w e ops,
  wenc_ok w ->
  let m := b_msg (run_calls (new_state cs w e) ops) in
  m_gen m = map (enc_kv w) (gen_asked ops) /\
  (Forall (fun kv => Forall (fun raw => wf_bytes raw = true /\ decodable raw = true) (snd kv)) (gen_asked ops) ->
   map (fun kv => (fst kv, map decode_header (snd kv))) (m_gen m) =
   map (fun kv => (fst kv, map Some (snd kv))) (gen_asked ops)).
Proof.
  intros cs w e ops Hw. cbv zeta.
  destruct (stored_is_encoded_asked ops (new_state cs w e) [] eq_refl) as [A _]. cbn [new_state b_msg new_msg m_wenc] in A.
  fold (gen_asked ops) in A. split; [exact A|]. intros H. rewrite A. rewrite map_map. clear A.
  induction H as [|kv r Hkv Hr IH]; cbn [map]; [reflexivity|]. rewrite IH. f_equal. cbn [enc_kv fst snd].
  now rewrite decode_vals.
Qed.

(* the complement (known finding encoded-word-lookalike-verbatim) *)
Theorem lookalike_refuted : exists raw,
  wf_bytes raw = true /\ decodable raw = false /\ decode_header (word_encode 113 raw) <> Some raw.
Proof. exists (bs "=?UTF-8?q?a?="). split; [reflexivity|]. split; [reflexivity|]. vm_compute. discriminate. Qed.

Theorem setters_store_safe : forall cs w e ops d i rb,
  safe cs -> wenc_ok w -> enc_typed e -> Forall cop_ok ops ->
  safe d -> safe i -> Forall safe rb ->
  let z := resolve d i rb (b_msg (run_calls (new_state cs w e) ops)) in
  hdrs_safe (z_msg z) /\ m_preform (z_msg z) = [] /\ entity_safe z /\ msg_safe z.
Proof.
  intros cs w e ops d i rb Hcs Hw He Hops Hd Hi Hrb.
  apply resolved_safe; auto. apply run_calls_ok; [now apply new_state_ok|exact Hops].
Qed.

(* ---------- the argument conditions are decidable ---------- *)
Definition safeb (v : bytes) : bool := forallb hdr_safe_byte v.
Definition oenc_okb (e : option enc) : bool := match e with Some e => safeb (enc_name e) | None => true end.
Definition file_raw_okb (f : file) : bool :=
  safeb (f_mime f) && oenc_okb (f_enc f) && wf_bytes (f_name f) && wf_bytes (f_desc f) &&
  match f_hdr f with
  | [] => true
  | [(k, id)] => bytes_eqb k h_cid && wf_bytes id
  | _ => false
  end.
Definition sop_okb (o : sop) : bool :=
  match o with
  | SGen k vs => key_ok k && forallb wf_bytes vs
  | SSubject s | SOrganization s | SUserAgent s | SMessageID s => wf_bytes s
  | SBulk | SImportance _ => true
  | SFrom a => safeb a
  | SAddr _ addrs => forallb safeb addrs
  end.
Definition bop_okb (o : bop) : bool :=
  match o with
  | BSetBody ct e cs d _ | BAddAlt ct e cs d _ =>
      safeb ct && oenc_okb e && (match cs with Some c => safeb c | None => true end) && wf_bytes d
  | BAttach f | BEmbed f => file_raw_okb f
  | BSetAttach fs | BSetEmbeds fs => forallb file_raw_okb fs
  | _ => true
  end.
Definition cop_okb (c : cop) : bool := match c with CS o => sop_okb o | CB o => bop_okb o end.

Lemma forallb_Forall : forall A (f : A -> bool) (P : A -> Prop) l,
  (forall x, f x = true -> P x) -> forallb f l = true -> Forall P l.
Proof.
  intros A f P l H. induction l as [|x l IH]; intros E; [constructor|]. cbn [forallb] in E.
  apply andb_true_iff in E. destruct E as [E1 E2]. constructor; auto.
Qed.

Lemma file_raw_okb_sound : forall f, file_raw_okb f = true -> file_raw_ok f.
Proof.
  intros f H. unfold file_raw_okb in H.
  apply andb_true_iff in H. destruct H as [H Hh]. apply andb_true_iff in H. destruct H as [H Hd].
  apply andb_true_iff in H. destruct H as [H Hn]. apply andb_true_iff in H. destruct H as [Hm He].
  unfold file_raw_ok. split; [exact Hm|]. split; [destruct (f_enc f); [exact He|exact I]|]. split; [exact Hn|]. split; [exact Hd|].
  destruct (f_hdr f) as [|[k id] [|x r]]; [now left| |discriminate].
  apply andb_true_iff in Hh. destruct Hh as [Hk Hid]. apply beq_eq in Hk. subst k. right. exists id. auto.
Qed.

Lemma cop_okb_sound : forall c, cop_okb c = true -> cop_ok c.
Proof.
  intros [o|o] H; cbn [cop_okb cop_ok] in *.
  - destruct o; cbn [sop_okb sop_ok] in *; auto.
    + apply andb_true_iff in H. destruct H as [H1 H2]. split; [exact H1|]. now apply (forallb_Forall _ wf_bytes).
    + now apply (forallb_Forall _ safeb).
  - destruct o; cbn [bop_okb bop_ok] in *; auto;
      try (repeat (apply andb_true_iff in H; destruct H as [H ?]); repeat split; auto;
           [destruct e; [assumption|exact I]|destruct cs; [assumption|exact I]]);
      try (now apply file_raw_okb_sound);
      try (apply (forallb_Forall _ file_raw_okb); [apply file_raw_okb_sound|exact H]).
Qed.

Lemma calls_okb_sound : forall ops, forallb cop_okb ops = true -> Forall cop_ok ops.
Proof. intros ops. apply forallb_Forall. apply cop_okb_sound. Qed.
