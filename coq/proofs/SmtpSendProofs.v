(* SmtpSendProofs.v — invariant proofs of the send co-simulation (C03, C04; used by C20).
   Structure (DESIGN 3.1): the effect of one command on a live, in-step connection is characterised once
   (cmd_post / cmd_outcome, do_cmd_spec, do_cmd_srv); every client function then gets one Hoare-style lemma
   over the invariant
       Base  : trace legal so far, every reply attributed to its cause, reply queue empty while the client
               side is open, client ext = extensions of the server's latest EHLO
       Ready : no dot-writer open, server not in data mode
       Idle  : server transaction state idle
   which is conditional on the connection being live (a closed client side is an absorbing state).  The
   theorems about whole runs (run_spec, clean_between_messages) are inductions over the message list and the
   recipient list; scripts of any length are covered because every lemma is stated for an arbitrary world
   (the script is consumed one decision per command, "[] = all further decisions OK").
   All statements are about X0 = std_expects and any fixes record F0 with [dialogue_repaired F0] (the five
   recovery actions of the repaired sendSingleMsg are present); SmtpSendGenProofs.v contains the obligations
   that the source-derived instance (SmtpSendGen) satisfies both. *)
From Coq Require Import String.
From Verif Require Import Bytes Textproto SendErr RefServer SmtpSend.
Open Scope N_scope.

(* ---------- arithmetic of expectCode ---------- *)
Lemma expect_250 : forall c, expect_ok 250 c = true -> c = 250.
Proof. intros c; unfold expect_ok; cbn; intros H; apply N.eqb_eq in H; exact H. Qed.
Lemma expect_354 : forall c, expect_ok 354 c = true -> c = 354.
Proof. intros c; unfold expect_ok; cbn; intros H; apply N.eqb_eq in H; exact H. Qed.
Lemma expect_221 : forall c, expect_ok 221 c = true -> c = 221.
Proof. intros c; unfold expect_ok; cbn; intros H; apply N.eqb_eq in H; exact H. Qed.
Lemma expect_220 : forall c, expect_ok 220 c = true -> c = 220.
Proof. intros c; unfold expect_ok; cbn; intros H; apply N.eqb_eq in H; exact H. Qed.
Lemma expect_25 : forall c, expect_ok 25 c = true -> okclass c = true.
Proof.
  (* without lia: keeps the dependency closure that Print Assumptions has to walk small *)
  intros c; unfold expect_ok, okclass; cbn; intros H; apply N.eqb_eq in H.
  assert (N10 : 10 <> 0) by discriminate.
  pose proof (N.mul_div_le c 10 N10) as L. pose proof (N.mul_succ_div_gt c 10 N10) as U.
  rewrite H in L, U. cbn in L, U.
  apply andb_true_iff. split.
  - apply N.leb_le. eapply N.le_trans; [|exact L]. discriminate.
  - apply N.ltb_lt. eapply N.lt_trans; [exact U|]. reflexivity.
Qed.

(* ---------- the effect of one command on a live, in-step connection ---------- *)
Definition cmd_post (expect : N) (line : cmd) (w : world) : world * res :=
  match srv_step (w_script w) (w_srv w) line with
  | (script', s', None, lg, cm) =>
      (mkW script' s' [] (w_trace w ++ [mkEv line lg 0]) (w_attr w) (w_commits w ++ opt_list cm), RErr EIO)
  | (script', s', Some (code, text), lg, cm) =>
      (mkW script' s' [] (w_trace w ++ [mkEv line lg code])
           (w_attr w ++ [(Some (length (w_trace w)), length (w_trace w))]) (w_commits w ++ opt_list cm),
       if expect_ok expect code then ROk code text else RErr (EReply code text))
  end.

Lemma set_dot_id : forall c, c_dot c = false -> set_dot c false = c.
Proof. intros [o d e m r]; cbn; intros ->; reflexivity. Qed.

Lemma deliver_cmd : forall w line,
  s_open (w_srv w) = true -> (s_data (w_srv w) = None \/ line = CEod) ->
  deliver w line =
    match srv_step (w_script w) (w_srv w) line with
    | (script', s', rep, lg, cm) =>
        (mkW script' s'
             (w_queue w ++ match rep with Some r => [(length (w_trace w), r)] | None => [] end)
             (w_trace w ++ [mkEv line lg (match rep with Some (code, _) => code | None => 0 end)])
             (w_attr w) (w_commits w ++ opt_list cm),
         Some (Some (length (w_trace w))))
    end.
Proof.
  intros w line Ho Hd. unfold deliver. rewrite Ho. cbn [negb].
  destruct Hd as [Hd | ->].
  - rewrite Hd. reflexivity.
  - destruct (s_data (w_srv w)); reflexivity.
Qed.

Lemma do_cmd_live : forall expect line c w,
  c_open c = true -> c_dot c = false -> s_open (w_srv w) = true ->
  (s_data (w_srv w) = None \/ line = CEod) -> w_queue w = [] ->
  do_cmd expect line (c, w) = ((c, fst (cmd_post expect line w)), snd (cmd_post expect line w)).
Proof.
  intros expect line c w Hc Hd Ho Hdat Hq.
  unfold do_cmd. rewrite Hc, Hd. cbn [negb]. rewrite set_dot_id by exact Hd.
  rewrite deliver_cmd by assumption. unfold cmd_post.
  destruct (srv_step (w_script w) (w_srv w) line) as [[[[script' s'] rep] lg] cm].
  rewrite Hq. cbn [app].
  destruct rep as [[code text]|]; unfold read_reply; rewrite Hc; cbn; reflexivity.
Qed.

Lemma do_cmd_dead : forall expect line c w,
  c_open c = true -> c_dot c = false -> s_open (w_srv w) = false ->
  do_cmd expect line (c, w) = ((c, w), RErr EIO).
Proof.
  intros. unfold do_cmd. rewrite H, H0. cbn [negb]. rewrite set_dot_id by assumption.
  unfold deliver. rewrite H1. reflexivity.
Qed.

Lemma do_cmd_closed : forall expect line c w,
  c_open c = false -> do_cmd expect line (c, w) = ((set_dot c false, w), RErr EIO).
Proof. intros. unfold do_cmd. rewrite H. reflexivity. Qed.

(* ---------- what cmd_post does, in terms of srv_apply ---------- *)
Lemma all_legal_snoc : forall w' w ev, w_trace w' = w_trace w ++ [ev] ->
  all_legal w' = all_legal w && ev_legal ev.
Proof. intros. unfold all_legal. rewrite H, forallb_app. cbn. rewrite andb_true_r. reflexivity. Qed.

Inductive cmd_outcome (expect : N) (line : cmd) (w w' : world) (r : res) : Prop :=
| CO_drop : forall d script',
    next_decision (w_script w) = (d, script') -> reply_of d line = None ->
    w' = mkW script' (set_closed (w_srv w)) [] (w_trace w ++ [mkEv line (legal (w_srv w) line) 0])
             (w_attr w) (w_commits w) ->
    r = RErr EIO -> cmd_outcome expect line w w' r
| CO_reply : forall d script' code text s' cm,
    next_decision (w_script w) = (d, script') -> reply_of d line = Some (code, text) ->
    srv_apply (w_srv w) line code = (s', cm) ->
    w' = mkW script' s' [] (w_trace w ++ [mkEv line (legal (w_srv w) line) code])
             (w_attr w ++ [(Some (length (w_trace w)), length (w_trace w))]) (w_commits w ++ opt_list cm) ->
    r = (if expect_ok expect code then ROk code text else RErr (EReply code text)) ->
    cmd_outcome expect line w w' r.

Lemma cmd_post_outcome : forall expect line w,
  cmd_outcome expect line w (fst (cmd_post expect line w)) (snd (cmd_post expect line w)).
Proof.
  intros. unfold cmd_post, srv_step.
  destruct (next_decision (w_script w)) as [d script'] eqn:Hn.
  destruct (reply_of d line) as [[code text]|] eqn:Hr.
  - destruct (srv_apply (w_srv w) line code) as [s' cm] eqn:Ha. cbn.
    eapply CO_reply; eauto.
  - cbn. eapply CO_drop; eauto. cbn. rewrite app_nil_r. reflexivity.
Qed.

Definition srvof (st : state) : srv := w_srv (snd st).
Definition live (st : state) : bool := c_open (fst st) && s_open (srvof st).

Record Base (st : state) : Prop := mkBase {
  b_legal : all_legal (snd st) = true;
  b_attr : all_attributed (snd st) = true;
  b_queue : c_open (fst st) = true -> w_queue (snd st) = [];
  b_helo : live st = true -> s_helo (srvof st) = true;
  b_ext : live st = true -> forall l, c_ext (fst st) = Some l -> l = s_ext (srvof st) }.

(* no dot-writer open on the client, server not in data mode *)
Definition Ready (st : state) : Prop :=
  c_open (fst st) = true ->
  c_dot (fst st) = false /\ (s_open (srvof st) = true -> s_data (srvof st) = None).

Definition keeps_session (line : cmd) : Prop :=
  match line with CEhlo _ | CHelo _ | CStartTLS | CGreet | CJunk => False | _ => True end.

Lemma srv_apply_keeps : forall s line code s' cm,
  keeps_session line -> srv_apply s line code = (s', cm) ->
  s_helo s' = s_helo s /\ s_ext s' = s_ext s /\ s_caps s' = s_caps s.
Proof.
  intros s line code s' cm K H. destruct line; cbn in K; try contradiction; cbn in H.
  - destruct (okclass code); inversion H; subst; cbn; auto.
  - destruct (is_idle (s_txn s)); [|destruct (okclass code)]; inversion H; subst; cbn; auto.
  - destruct (code =? 354); inversion H; subst; cbn; auto.
  - destruct (s_data s); inversion H; subst; cbn; auto.
  - destruct (okclass code); inversion H; subst; cbn; auto.
  - inversion H; subst; auto.
  - destruct (code =? 221); inversion H; subst; cbn; auto.
Qed.

Lemma attr_snoc : forall w' w n, w_attr w' = w_attr w ++ [(Some n, n)] ->
  all_attributed w = true -> all_attributed w' = true.
Proof.
  intros. unfold all_attributed in *. rewrite H, forallb_app, H0. cbn. unfold attr_match. cbn.
  rewrite Nat.eqb_refl. reflexivity.
Qed.

Lemma live_true : forall st, live st = true <-> c_open (fst st) = true /\ s_open (srvof st) = true.
Proof. intros. unfold live. rewrite andb_true_iff. tauto. Qed.

Lemma live_false : forall st, live st = false <-> c_open (fst st) = false \/ s_open (srvof st) = false.
Proof. intros. unfold live. rewrite andb_false_iff. tauto. Qed.

(* The general lemma for every command of the send phase except end-of-data. *)
Lemma do_cmd_spec : forall expect line st st' r,
  Base st -> Ready st -> keeps_session line ->
  (live st = true -> legal (srvof st) line = true) ->
  do_cmd expect line st = (st', r) ->
  fst st' = set_dot (fst st) false /\ Base st' /\
  ((live st = false /\ snd st' = snd st /\ r = RErr EIO) \/
   (live st = true /\ cmd_outcome expect line (snd st) (snd st') r)).
Proof.
  intros expect line [c w] st' r HB HR K HL H.
  pose proof (b_legal _ HB) as BL; pose proof (b_attr _ HB) as BA; pose proof (b_queue _ HB) as BQ;
  pose proof (b_helo _ HB) as BH; pose proof (b_ext _ HB) as BE; cbn [fst snd] in BL, BA, BQ.
  destruct (c_open c) eqn:Hc.
  - destruct (HR Hc) as [Hd Hdat]. cbn in Hd, Hdat.
    destruct (s_open (w_srv w)) eqn:Ho.
    + rewrite do_cmd_live in H; auto.
      inversion H; subst st' r; clear H. cbn [fst snd].
      rewrite set_dot_id by exact Hd.
      pose proof (cmd_post_outcome expect line w) as O.
      assert (Hlive : live (c, w) = true) by (apply live_true; cbn; auto).
      split; [reflexivity|]. split; [|right; split; [exact Hlive | exact O]].
      specialize (HL Hlive). cbn in HL.
      set (w' := fst (cmd_post expect line w)) in *.
      destruct O as [d script' Hn Hr Hw' Hres | d script' code text s' cm Hn Hr Ha Hw' Hres].
      * constructor; cbn [fst snd]; rewrite Hw'.
        -- erewrite all_legal_snoc by reflexivity. cbn. rewrite BL. cbn. exact HL.
        -- exact BA.
        -- reflexivity.
        -- unfold live, srvof; cbn. rewrite andb_false_r. discriminate.
        -- unfold live, srvof; cbn. rewrite andb_false_r. discriminate.
      * destruct (srv_apply_keeps _ _ _ _ _ K Ha) as (Hh & He & _).
        constructor; cbn [fst snd]; rewrite Hw'.
        -- erewrite all_legal_snoc by reflexivity. cbn. rewrite BL. cbn. exact HL.
        -- eapply attr_snoc; [reflexivity | exact BA].
        -- reflexivity.
        -- intros _. unfold srvof; cbn. rewrite Hh. apply (BH Hlive).
        -- intros _ l Hl. unfold srvof; cbn. rewrite He. apply (BE Hlive l Hl).
    + rewrite do_cmd_dead in H by auto. inversion H; subst; clear H. cbn [fst snd].
      rewrite set_dot_id by exact Hd. split; [reflexivity|]. split; [exact HB|].
      left. split; [apply live_false; right; exact Ho | auto].
  - rewrite do_cmd_closed in H by auto. inversion H; subst; clear H. cbn [fst snd].
    split; [reflexivity|]. split.
    + destruct HB as [a b q h e]. constructor; cbn in *; auto; try (intros; congruence);
      unfold live; cbn; rewrite Hc; cbn; discriminate.
    + left. split; [apply live_false; left; exact Hc | auto].
Qed.

Notation X0 := std_expects.

Definition Idle (st : state) : Prop := live st = true -> s_txn (srvof st) = TIdle.
Definition InTxn (st : state) : Prop := live st = true -> s_txn (srvof st) <> TIdle.

(* envelope of the open transaction as long as no recipient was refused *)
Definition TxnAt (st : state) (from : bytes) (rc : list bytes) : Prop :=
  live st = true ->
  s_from (srvof st) = from /\ s_rcpt (srvof st) = rc /\ s_rej (srvof st) = false /\
  s_txn (srvof st) = match rc with [] => TMail | _ => TRcpt end.

Definition same_cli (c c' : cli) : Prop :=
  c_open c' = c_open c /\ c_ext c' = c_ext c /\ c_mr c' = c_mr c /\ c_rn c' = c_rn c.

Lemma same_cli_set_dot : forall c d, same_cli c (set_dot c d).
Proof. intros [o dd e m r] d; repeat split. Qed.

Lemma Base_cli : forall c c' w, c_open c' = c_open c -> c_ext c' = c_ext c -> Base (c, w) -> Base (c', w).
Proof.
  intros c c' w Ho He [a b q h e]. unfold live, srvof in *; cbn [fst snd] in *.
  constructor; unfold live, srvof; cbn [fst snd]; rewrite ?Ho, ?He; auto.
Qed.

Lemma Ready_cli : forall c c' w, c_open c' = c_open c -> c_dot c' = c_dot c -> Ready (c, w) -> Ready (c', w).
Proof. intros c c' w Ho Hd R. unfold Ready, srvof in *; cbn [fst snd] in *. rewrite Ho, Hd. exact R. Qed.

Lemma live_cli : forall c c' w, c_open c' = c_open c -> live (c', w) = live (c, w).
Proof. intros. unfold live; cbn. rewrite H. reflexivity. Qed.

(* facts shared by all commands that leave the data mode alone *)
Ltac outcome_cases O :=
  let d := fresh "d" in let script' := fresh "script'" in
  let Hn := fresh "Hn" in let Hr := fresh "Hr" in let Hw' := fresh "Hw'" in let Hres := fresh "Hres" in
  let code := fresh "code" in let text := fresh "text" in let s' := fresh "s'" in let cm := fresh "cm" in
  let Ha := fresh "Ha" in
  destruct O as [d script' Hn Hr Hw' Hres | d script' code text s' cm Hn Hr Ha Hw' Hres].

(* ---------- generic: effect of a send-phase command on the server state ---------- *)
Lemma Ready_dead : forall st, live st = false -> c_dot (fst st) = false -> Ready st.
Proof.
  intros [c w] H Hd Ho. cbn in *. split; [exact Hd|]. intros Hs.
  apply live_false in H. cbn in H. destruct H; congruence.
Qed.

Lemma c_dot_set_dot : forall c d, c_dot (set_dot c d) = d.
Proof. intros [o dd e m r] d; reflexivity. Qed.
Lemma c_open_set_dot : forall c d, c_open (set_dot c d) = c_open c.
Proof. intros [o dd e m r] d; reflexivity. Qed.
Lemma c_ext_set_dot : forall c d, c_ext (set_dot c d) = c_ext c.
Proof. intros [o dd e m r] d; reflexivity. Qed.

Lemma do_cmd_srv : forall expect line st st' r,
  Base st -> Ready st -> keeps_session line ->
  (live st = true -> legal (srvof st) line = true) ->
  do_cmd expect line st = (st', r) ->
  fst st' = set_dot (fst st) false /\ Base st' /\
  ((live st' = false /\ w_commits (snd st') = w_commits (snd st) /\ r = RErr EIO) \/
   (live st = true /\ exists code text s' cm,
      srv_apply (srvof st) line code = (s', cm) /\ srvof st' = s' /\
      w_commits (snd st') = w_commits (snd st) ++ opt_list cm /\
      r = (if expect_ok expect code then ROk code text else RErr (EReply code text)))).
Proof.
  intros expect line st st' r HB HR K HL H.
  destruct (do_cmd_spec _ _ _ _ _ HB HR K HL H) as (Hc & HB' & Hcase).
  split; [exact Hc|]. split; [exact HB'|].
  destruct st as [c w], st' as [c' w']. cbn [fst snd] in *. subst c'.
  destruct Hcase as [(Hl & Hw & Hr) | (Hl & O)].
  - left. subst w' r. split; [|auto]. rewrite (live_cli c) by apply c_open_set_dot. exact Hl.
  - outcome_cases O.
    + left. subst w' r. split; [|auto]. unfold live, srvof; cbn. apply andb_false_r.
    + right. split; [exact Hl|]. exists code, text, s', cm. subst w'. cbn. auto.
Qed.

(* RSET *)
Lemma do_reset_spec : forall st st' r,
  Base st -> Ready st -> do_reset X0 st = (st', r) ->
  fst st' = set_dot (fst st) false /\ Base st' /\ Ready st' /\
  w_commits (snd st') = w_commits (snd st) /\
  (match r with ROk _ _ => Idle st' | RErr _ => True end) /\ (Idle st -> Idle st').
Proof.
  intros st st' r HB HR H. unfold do_reset in H. cbn [x_rset X0] in H.
  destruct (do_cmd_srv _ CRset _ _ _ HB HR I (fun _ => eq_refl) H) as (Hc & HB' & Hcase).
  split; [exact Hc|]. split; [exact HB'|].
  destruct Hcase as [(Hl & Hw & Hr) | (Hl & code & text & s' & cm & Ha & Hs & Hw & Hr)].
  - subst r. split; [|split; [exact Hw|split; [exact I|]]].
    + apply Ready_dead; [exact Hl | rewrite Hc; apply c_dot_set_dot].
    + intros _ Hl'. congruence.
  - cbn in Ha.
    assert (cm = None) by (destruct (okclass code); inversion Ha; reflexivity). subst cm.
    cbn [opt_list] in Hw. rewrite app_nil_r in Hw.
    apply live_true in Hl. destruct Hl as [Hco Hso]. destruct (HR Hco) as [Hd Hdat]. specialize (Hdat Hso).
    split; [|split; [exact Hw|split]].
    + intros _. rewrite Hc, c_dot_set_dot. split; [reflexivity|]. intros _. rewrite Hs.
      destruct (okclass code); inversion Ha; subst; cbn; auto.
    + subst r. destruct (expect_ok 250 code) eqn:He; [|exact I].
      apply expect_250 in He. subst code. cbn in Ha. inversion Ha; subst. intros _. rewrite <- H1. reflexivity.
    + intros Hi Hl'. rewrite Hs.
      assert (Hli : live st = true) by (apply live_true; auto). specialize (Hi Hli).
      destruct (okclass code); inversion Ha; subst; cbn; auto.
Qed.

(* NOOP *)
Lemma do_noop_spec : forall st st' r,
  Base st -> Ready st -> do_noop X0 st = (st', r) ->
  fst st' = set_dot (fst st) false /\ Base st' /\ Ready st' /\
  w_commits (snd st') = w_commits (snd st) /\ (Idle st -> Idle st').
Proof.
  intros st st' r HB HR H. unfold do_noop in H. cbn [x_noop X0] in H.
  destruct (do_cmd_srv _ CNoop _ _ _ HB HR I (fun _ => eq_refl) H) as (Hc & HB' & Hcase).
  split; [exact Hc|]. split; [exact HB'|].
  destruct Hcase as [(Hl & Hw & Hr) | (Hl & code & text & s' & cm & Ha & Hs & Hw & Hr)].
  - split; [|split; [exact Hw|]].
    + apply Ready_dead; [exact Hl | rewrite Hc; apply c_dot_set_dot].
    + intros _ Hl'. congruence.
  - cbn in Ha. injection Ha as Hs' Hcm. subst cm. rewrite <- Hs' in Hs. cbn [opt_list] in Hw. rewrite app_nil_r in Hw.
    apply live_true in Hl. destruct Hl as [Hco Hso]. destruct (HR Hco) as [Hd Hdat]. specialize (Hdat Hso).
    split; [|split; [exact Hw|]].
    + intros _. rewrite Hc, c_dot_set_dot. split; [reflexivity|]. intros _. rewrite Hs. exact Hdat.
    + intros Hi Hl'. rewrite Hs. apply Hi. apply live_true; auto.
Qed.

(* MAIL *)
Lemma mail_params_legal : forall c e,
  (forall l, c_ext c = Some l -> l = e) -> forallb (mail_param_ok e) (mail_params c) = true.
Proof.
  intros c e H. unfold mail_params. destruct (c_ext c) as [l|]; [|reflexivity].
  rewrite (H l eq_refl). rewrite !forallb_app.
  destruct (has_ext e E8BITMIME) eqn:H8; destruct (has_ext e ESMTPUTF8) eqn:HU;
  destruct (has_ext e EDSN) eqn:HD; destruct (is_nil (c_mr c)); cbn; rewrite ?H8, ?HU, ?HD; reflexivity.
Qed.

Lemma rcpt_params_legal : forall c e,
  (forall l, c_ext c = Some l -> l = e) -> forallb (rcpt_param_ok e) (rcpt_params c) = true.
Proof.
  intros c e H. unfold rcpt_params. destruct (c_ext c) as [l|]; [|reflexivity].
  rewrite (H l eq_refl).
  destruct (has_ext e EDSN) eqn:HD; destruct (is_nil (c_rn c)); cbn; rewrite ?HD; reflexivity.
Qed.

Lemma do_mail_spec : forall from st st' r,
  Base st -> Ready st -> Idle st -> do_mail X0 from st = (st', r) ->
  fst st' = set_dot (fst st) false /\ Base st' /\ Ready st' /\
  w_commits (snd st') = w_commits (snd st) /\
  (match r with ROk _ _ => live st' = true /\ TxnAt st' from [] | RErr _ => True end).
Proof.
  intros from st st' r HB HR HI H. unfold do_mail in H. cbn [x_mail X0] in H.
  assert (HL : live st = true -> legal (srvof st) (CMail from (mail_params (fst st))) = true).
  { intros Hl. cbn. rewrite (b_helo _ HB Hl), (HI Hl). cbn.
    apply mail_params_legal. apply (b_ext _ HB Hl). }
  destruct (do_cmd_srv _ (CMail from (mail_params (fst st))) _ _ _ HB HR I HL H) as (Hc & HB' & Hcase).
  split; [exact Hc|]. split; [exact HB'|].
  destruct Hcase as [(Hl & Hw & Hr) | (Hl & code & text & s' & cm & Ha & Hs & Hw & Hr)].
  - subst r. split; [|split; [exact Hw|exact I]].
    apply Ready_dead; [exact Hl | rewrite Hc; apply c_dot_set_dot].
  - cbn in Ha.
    assert (cm = None) by (destruct (okclass code); inversion Ha; reflexivity). subst cm.
    cbn [opt_list] in Hw. rewrite app_nil_r in Hw.
    apply live_true in Hl. destruct Hl as [Hco Hso]. destruct (HR Hco) as [Hd Hdat]. specialize (Hdat Hso).
    split; [|split; [exact Hw|]].
    + intros _. rewrite Hc, c_dot_set_dot. split; [reflexivity|]. intros _. rewrite Hs.
      destruct (okclass code); injection Ha as Hs'; rewrite <- Hs'; cbn; auto.
    + subst r. destruct (expect_ok 250 code) eqn:He; [|exact I].
      apply expect_250 in He. subst code. cbn in Ha. injection Ha as Hs'. rewrite <- Hs' in Hs.
      assert (Hl' : live st' = true).
      { apply live_true. rewrite Hc, c_open_set_dot, Hs. cbn. auto. }
      split; [exact Hl'|]. intros _. rewrite Hs. cbn. auto.
Qed.

(* RCPT *)
Lemma do_rcpt_spec : forall to st st' r,
  Base st -> Ready st -> InTxn st -> do_rcpt X0 to st = (st', r) ->
  fst st' = set_dot (fst st) false /\ Base st' /\ Ready st' /\
  w_commits (snd st') = w_commits (snd st) /\ InTxn st' /\
  (forall from done, TxnAt st from done ->
     match r with ROk _ _ => TxnAt st' from (done ++ [to]) | RErr _ => True end).
Proof.
  intros to st st' r HB HR HT H. unfold do_rcpt in H. cbn [x_rcpt X0] in H.
  assert (HL : live st = true -> legal (srvof st) (CRcpt to (rcpt_params (fst st))) = true).
  { intros Hl. cbn. specialize (HT Hl). destruct (s_txn (srvof st)); [congruence| |]; cbn;
    apply rcpt_params_legal; apply (b_ext _ HB Hl). }
  destruct (do_cmd_srv _ (CRcpt to (rcpt_params (fst st))) _ _ _ HB HR I HL H) as (Hc & HB' & Hcase).
  split; [exact Hc|]. split; [exact HB'|].
  destruct Hcase as [(Hl & Hw & Hr) | (Hl & code & text & s' & cm & Ha & Hs & Hw & Hr)].
  - subst r. split; [|split; [exact Hw|split; [|intros; exact I]]].
    + apply Ready_dead; [exact Hl | rewrite Hc; apply c_dot_set_dot].
    + intros Hl'. congruence.
  - cbn in Ha. pose proof (HT Hl) as HT'.
    assert (Hidle : is_idle (s_txn (srvof st)) = false) by (destruct (s_txn (srvof st)); [congruence|reflexivity|reflexivity]).
    rewrite Hidle in Ha.
    assert (cm = None) by (destruct (okclass code); inversion Ha; reflexivity). subst cm.
    cbn [opt_list] in Hw. rewrite app_nil_r in Hw.
    pose proof Hl as Hl0.
    apply live_true in Hl. destruct Hl as [Hco Hso]. destruct (HR Hco) as [Hd Hdat]. specialize (Hdat Hso).
    split; [|split; [exact Hw|split]].
    + intros _. rewrite Hc, c_dot_set_dot. split; [reflexivity|]. intros _. rewrite Hs.
      destruct (okclass code); injection Ha as Hs'; rewrite <- Hs'; cbn; auto.
    + intros _. rewrite Hs. destruct (okclass code); injection Ha as Hs'; rewrite <- Hs'; cbn; [discriminate | exact HT'].
    + intros from done HA. subst r. destruct (expect_ok 25 code) eqn:He; [|exact I].
      apply expect_25 in He. rewrite He in Ha. injection Ha as Hs'. rewrite <- Hs' in Hs.
      destruct (HA Hl0) as (Hf & Hrc & Hrj & _).
      intros _. rewrite Hs. cbn. rewrite Hf, Hrc, Hrj. repeat split; auto. destruct done; reflexivity.
Qed.

(* DATA *)
Definition DataPhase (st : state) (from : bytes) (rc : list bytes) (content : bytes) : Prop :=
  c_open (fst st) = true /\ c_dot (fst st) = true /\ s_open (srvof st) = true /\
  s_data (srvof st) = Some content /\ s_from (srvof st) = from /\ s_rcpt (srvof st) = rc.

Lemma do_data_spec : forall st st' r,
  Base st -> Ready st ->
  (live st = true -> s_txn (srvof st) = TRcpt /\ s_rej (srvof st) = false) ->
  do_data X0 st = (st', r) ->
  Base st' /\ w_commits (snd st') = w_commits (snd st) /\ same_cli (fst st) (fst st') /\
  (match r with
   | ROk _ _ => live st = true /\ DataPhase st' (s_from (srvof st)) (s_rcpt (srvof st)) []
   | RErr _ => Ready st'
   end).
Proof.
  intros st st' r HB HR HT H. unfold do_data in H. cbn [x_data X0] in H.
  destruct (do_cmd 354 CData st) as [[c1 w1] r1] eqn:Hcmd.
  assert (HL : live st = true -> legal (srvof st) CData = true).
  { intros Hl. cbn. destruct (HT Hl) as [-> ->]. reflexivity. }
  destruct (do_cmd_srv _ CData _ _ _ HB HR I HL Hcmd) as (Hc & HB' & Hcase).
  cbn [fst snd] in Hc.
  destruct Hcase as [(Hl & Hw & Hr) | (Hl & code & text & s' & cm & Ha & Hs & Hw & Hr)].
  - subst r1. inversion H; subst st' r. split; [exact HB'|]. split; [exact Hw|].
    split; [cbn; rewrite Hc; apply same_cli_set_dot|].
    apply Ready_dead; [exact Hl | cbn; rewrite Hc; apply c_dot_set_dot].
  - cbn in Ha.
    assert (cm = None) by (destruct (code =? 354); inversion Ha; reflexivity). subst cm.
    cbn [opt_list] in Hw. rewrite app_nil_r in Hw. cbn [snd] in Hw. pose proof Hl as Hl0.
    apply live_true in Hl. destruct Hl as [Hco Hso]. destruct (HR Hco) as [Hd Hdat]. specialize (Hdat Hso).
    unfold srvof in Hs; cbn [snd] in Hs.
    destruct (expect_ok 354 code) eqn:He.
    + subst r1. inversion H; subst st' r. apply expect_354 in He. subst code. cbn in Ha. injection Ha as Hs'. rewrite <- Hs' in Hs.
      split; [|split; [exact Hw|split]].
      * eapply Base_cli; [| |exact HB']; destruct c1; reflexivity.
      * cbn. rewrite Hc. destruct (fst st); repeat split.
      * split; [exact Hl0|]. unfold DataPhase, srvof. cbn [fst snd]. rewrite Hs. cbn.
        subst c1. destruct (fst st); cbn in *. repeat split; auto.
    + subst r1. inversion H; subst st' r. split; [exact HB'|]. split; [exact Hw|].
      split; [cbn; rewrite Hc; apply same_cli_set_dot|].
      intros _. cbn [fst]. rewrite Hc, c_dot_set_dot. split; [reflexivity|]. intros _.
      unfold srvof; cbn [snd]. rewrite Hs.
      destruct (code =? 354) eqn:E; [apply N.eqb_eq in E; subst code; discriminate|].
      injection Ha as Hs'; rewrite <- Hs'; exact Hdat.
Qed.

(* content *)
Lemma dc_write_spec : forall st from rc content chunk,
  Base st -> DataPhase st from rc content ->
  Base (dc_write st chunk) /\ DataPhase (dc_write st chunk) from rc (content ++ chunk) /\
  w_commits (snd (dc_write st chunk)) = w_commits (snd st) /\ fst (dc_write st chunk) = fst st.
Proof.
  intros [c w] from rc content chunk HB (Hco & Hd & Hso & Hdat & Hf & Hr).
  unfold srvof in *; cbn [fst snd] in *.
  unfold dc_write. rewrite Hco, Hd. cbn [andb]. unfold deliver_content. rewrite Hso, Hdat. cbn [negb].
  split; [|split; [|split; reflexivity]].
  - destruct HB as [a b q h e]. unfold live, srvof in *; cbn [fst snd] in *.
    constructor; unfold live, srvof; cbn [fst snd]; auto.
  - unfold DataPhase, srvof; cbn. repeat split; auto.
Qed.

Lemma write_chunks_spec : forall chunks st from rc content,
  Base st -> DataPhase st from rc content ->
  Base (write_chunks st chunks) /\ DataPhase (write_chunks st chunks) from rc (content ++ concat chunks) /\
  w_commits (snd (write_chunks st chunks)) = w_commits (snd st) /\ fst (write_chunks st chunks) = fst st.
Proof.
  induction chunks as [|ch t IH]; intros st from rc content HB HD.
  - cbn. rewrite app_nil_r. auto.
  - unfold write_chunks in *. cbn [fold_left concat].
    destruct (dc_write_spec st from rc content ch HB HD) as (HB1 & HD1 & HC1 & HF1).
    destruct (IH _ _ _ _ HB1 HD1) as (HB2 & HD2 & HC2 & HF2).
    rewrite app_assoc. split; [exact HB2|]. split; [exact HD2|]. split; [rewrite HC2; exact HC1 | rewrite HF2; exact HF1].
Qed.

(* end-of-data *)
Definition eod_commit (r : res) (from : bytes) (rc : list bytes) (content : bytes) : list commit :=
  match r with
  | ROk c _ | RErr (EReply c _) => if okclass c then [mkCommit from rc (dotcanon content)] else []
  | _ => []
  end.

Lemma dc_close_spec : forall st st' r from rc content,
  Base st -> DataPhase st from rc content -> dc_close X0 st = (st', r) ->
  Base st' /\ Ready st' /\ Idle st' /\ fst st' = set_dot (fst st) false /\
  w_commits (snd st') = w_commits (snd st) ++ eod_commit r from rc content /\
  (forall c t, r = ROk c t -> c = 250) /\ (forall c t, r = RErr (EReply c t) -> c <> 250).
Proof.
  intros [c w] st' r from rc content HB (Hco & Hd & Hso & Hdat & Hf & Hr) H.
  unfold srvof in *; cbn [fst snd] in *.
  pose proof (b_legal _ HB) as BL; pose proof (b_attr _ HB) as BA; pose proof (b_queue _ HB Hco) as BQ;
  cbn [fst snd] in BL, BA, BQ.
  assert (Hlive : live (c, w) = true) by (apply live_true; cbn; auto).
  pose proof (b_helo _ HB Hlive) as BH; pose proof (b_ext _ HB Hlive) as BE. unfold srvof in BH, BE; cbn [fst snd] in BH, BE.
  unfold dc_close in H. rewrite Hco, Hd in H. cbn [andb] in H.
  rewrite deliver_cmd in H by auto. cbn [x_eod X0] in H.
  unfold srv_step in H.
  destruct (next_decision (w_script w)) as [d script'].
  assert (Hleg : legal (w_srv w) CEod = true) by (cbn; rewrite Hdat; reflexivity).
  rewrite Hleg in H.
  destruct (reply_of d CEod) as [[code text]|].
  - cbn [srv_apply] in H. rewrite Hdat in H. rewrite BQ in H. cbn [app] in H.
    unfold read_reply in H. rewrite c_open_set_dot, Hco in H. cbn [negb w_queue] in H.
    inversion H; subst st' r; clear H. cbn [fst snd].
    split; [|split; [|split; [|split; [reflexivity|split; [|split]]]]].
    + constructor; cbn [fst snd].
      * erewrite all_legal_snoc by reflexivity. rewrite BL. reflexivity.
      * eapply attr_snoc; [reflexivity|exact BA].
      * reflexivity.
      * intros _. exact BH.
      * intros _ l Hl. rewrite c_ext_set_dot in Hl. apply BE. exact Hl.
    + intros _. split; [cbn [fst]; apply c_dot_set_dot | intros _; reflexivity].
    + intros _. reflexivity.
    + cbn [w_commits]. f_equal. unfold eod_commit. rewrite Hf, Hr.
      destruct (expect_ok 250 code); destruct (okclass code); reflexivity.
    + intros c0 t0 E. destruct (expect_ok 250 code) eqn:He; inversion E; subst. apply expect_250; exact He.
    + intros c0 t0 E. destruct (expect_ok 250 code) eqn:He; inversion E; subst.
      intros ->. discriminate.
  - rewrite BQ in H. cbn [app] in H.
    unfold read_reply in H. rewrite c_open_set_dot, Hco in H. cbn [negb w_queue] in H.
    inversion H; subst st' r; clear H. cbn [fst snd].
    split; [|split; [|split; [|split; [reflexivity|split; [|split]]]]].
    + constructor; cbn [fst snd].
      * erewrite all_legal_snoc by reflexivity. rewrite BL. reflexivity.
      * exact BA.
      * reflexivity.
      * unfold live, srvof; cbn. rewrite andb_false_r. discriminate.
      * unfold live, srvof; cbn. rewrite andb_false_r. discriminate.
    + apply Ready_dead; [unfold live, srvof; cbn; apply andb_false_r | cbn [fst]; apply c_dot_set_dot].
    + intros Hl. unfold live, srvof in Hl; cbn in Hl. rewrite andb_false_r in Hl. discriminate.
    + cbn. rewrite app_nil_r. reflexivity.
    + intros; discriminate.
    + intros; discriminate.
Qed.

(* Client.Close *)
Lemma close_cli_spec : forall st,
  Base st -> Base (close_cli st) /\ c_open (fst (close_cli st)) = false /\
  w_commits (snd (close_cli st)) = w_commits (snd st) /\
  c_ext (fst (close_cli st)) = c_ext (fst st).
Proof.
  intros [c w] HB. unfold close_cli. destruct (c_open c) eqn:Hco.
  - cbn [fst snd]. split; [|destruct c; cbn; auto].
    destruct HB as [a b q h e]. cbn [fst snd] in *.
    constructor; cbn [fst snd]; auto; try (destruct c; cbn; intros; discriminate);
    unfold live; destruct c; cbn; intros; discriminate.
  - cbn. auto.
Qed.

Lemma closed_props : forall st, c_open (fst st) = false -> Ready st /\ Idle st.
Proof.
  intros st H. split.
  - intros Ho. congruence.
  - intros Hl. apply live_true in Hl. destruct Hl. congruence.
Qed.

Section Mail.
Variable cfg : config.
Variable render : msg -> list bytes * option err.

(* checkConn *)
Lemma check_conn_spec : forall st st' e,
  Base st -> Ready st -> check_conn X0 cfg st = (st', e) ->
  Base st' /\ Ready st' /\ w_commits (snd st') = w_commits (snd st) /\ (Idle st -> Idle st') /\
  same_cli (fst st) (fst st').
Proof.
  intros st st' e HB HR H. unfold check_conn in H.
  destruct (c_open (fst st)) eqn:Hco; cbn [negb] in H.
  - destruct (cf_noop cfg).
    + destruct (do_noop X0 st) as [st1 r1] eqn:Hn.
      destruct (do_noop_spec _ _ _ HB HR Hn) as (Hc & HB1 & HR1 & HW1 & HI1).
      assert (same_cli (fst st) (fst st1)) by (rewrite Hc; apply same_cli_set_dot).
      destruct r1; inversion H; subst; (split; [exact HB1|split; [exact HR1|split; [exact HW1|split; [exact HI1|assumption]]]]).
    + inversion H; subst. split; [exact HB|split; [exact HR|split; [reflexivity|split; [auto|repeat split]]]].
  - inversion H; subst. split; [exact HB|split; [exact HR|split; [reflexivity|split; [auto|repeat split]]]].
Qed.

(* ResetWithSMTPClient *)
Lemma reset_with_spec : forall st st' e,
  Base st -> Ready st -> Idle st -> reset_with X0 cfg st = (st', e) ->
  Base st' /\ Ready st' /\ Idle st' /\ w_commits (snd st') = w_commits (snd st).
Proof.
  intros st st' e HB HR HI H. unfold reset_with in H.
  destruct (check_conn X0 cfg st) as [st1 e1] eqn:Hc.
  destruct (check_conn_spec _ _ _ HB HR Hc) as (HB1 & HR1 & HW1 & HI1 & _).
  destruct e1.
  - inversion H; subst. split; [exact HB1|split; [exact HR1|split; [auto|exact HW1]]].
  - destruct (do_reset X0 st1) as [st2 r2] eqn:Hr.
    destruct (do_reset_spec _ _ _ HB1 HR1 Hr) as (_ & HB2 & HR2 & HW2 & _ & HI2).
    destruct r2; inversion H; subst; (split; [exact HB2|split; [exact HR2|split; [auto|congruence]]]).
Qed.

(* the RSET that abandons a failed transaction (repaired code: the connection is closed if it fails) *)
Lemma reset_after_spec : forall se st st' se',
  Base st -> Ready st -> reset_after X0 true se st = (st', se') ->
  Base st' /\ Ready st' /\ Idle st' /\ w_commits (snd st') = w_commits (snd st).
Proof.
  intros se st st' se' HB HR H. unfold reset_after in H.
  destruct (do_reset X0 st) as [st1 r1] eqn:Hr.
  destruct (do_reset_spec _ _ _ HB HR Hr) as (_ & HB1 & HR1 & HW1 & HOk & _).
  destruct r1; inversion H; subst; clear H.
  - split; [exact HB1|split; [exact HR1|split; [exact HOk|exact HW1]]].
  - destruct (close_cli_spec _ HB1) as (HB2 & Hcl & HW2 & _).
    destruct (closed_props _ Hcl) as [R2 I2]. split; [exact HB2|split; [exact R2|split; [exact I2|congruence]]].
Qed.
End Mail.

(* ---------- the repaired sendSingleMsg: any fixes record with the five recovery actions present ---------- *)
Definition dialogue_repaired (F : fixes) : Prop :=
  fx_abort F = true /\ fx_data_rset F = true /\ fx_rc_mail F = true /\ fx_rc_rcpt F = true /\ fx_rc_data F = true /\
  fx_ehlo_replace F = true.

Section Repaired.
Variable F0 : fixes.
Hypothesis F_repaired : dialogue_repaired F0.

Let F_abort : fx_abort F0 = true := proj1 F_repaired.
Let F_data_rset : fx_data_rset F0 = true := proj1 (proj2 F_repaired).
Let F_rc_mail : fx_rc_mail F0 = true := proj1 (proj2 (proj2 F_repaired)).
Let F_rc_rcpt : fx_rc_rcpt F0 = true := proj1 (proj2 (proj2 (proj2 F_repaired))).
Let F_rc_data : fx_rc_data F0 = true := proj1 (proj2 (proj2 (proj2 (proj2 F_repaired)))).
Let F_ehlo : fx_ehlo_replace F0 = true := proj2 (proj2 (proj2 (proj2 (proj2 F_repaired)))).

Lemma rcpt_loop_spec : forall esc rcpts st acc st' acc' from done,
  Base st -> Ready st -> InTxn st ->
  (acc = None -> TxnAt st from done) ->
  rcpt_loop X0 F0 esc rcpts st acc = (st', acc') ->
  Base st' /\ Ready st' /\ InTxn st' /\ w_commits (snd st') = w_commits (snd st) /\
  (acc' = None -> acc = None /\ TxnAt st' from (done ++ rcpts)).
Proof.
  intros esc rcpts. induction rcpts as [|r t IH]; intros st acc st' acc' from done HB HR HT HA H.
  - cbn in H. inversion H; subst. rewrite app_nil_r.
    split; [exact HB|split; [exact HR|split; [exact HT|split; [reflexivity|]]]].
    intros E. split; [exact E|exact (HA E)].
  - cbn [rcpt_loop] in H. destruct (do_rcpt X0 r st) as [st1 r1] eqn:Hr.
    destruct (do_rcpt_spec _ _ _ _ HB HR HT Hr) as (_ & HB1 & HR1 & HW1 & HT1 & HA1).
    destruct r1 as [c1 t1 | e1].
    + assert (HA' : acc = None -> TxnAt st1 from (done ++ [r])) by (intros E; apply (HA1 from done (HA E))).
      destruct (IH _ _ _ _ _ _ HB1 HR1 HT1 HA' H) as (HB2 & HR2 & HT2 & HW2 & HN2).
      split; [exact HB2|split; [exact HR2|split; [exact HT2|split; [congruence|]]]].
      intros E. destruct (HN2 E) as [E1 E2]. split; [exact E1|]. rewrite <- app_assoc in E2. exact E2.
    + match type of H with rcpt_loop _ _ _ _ _ (Some ?a) = _ =>
        assert (HA' : Some a = None -> TxnAt st1 from done) by discriminate;
        destruct (IH _ _ _ _ _ _ HB1 HR1 HT1 HA' H) as (HB2 & HR2 & HT2 & HW2 & HN2) end.
      split; [exact HB2|split; [exact HR2|split; [exact HT2|split; [congruence|]]]].
      intros E. destruct (HN2 E) as [E1 _]. discriminate.
Qed.

Section Single.
Variable cfg : config.
Variable render : msg -> list bytes * option err.

Definition commit_of (m : msg) : list commit :=
  match m_from m with
  | Some f => [mkCommit f (m_rcpts m) (dotcanon (concat (fst (render m))))]
  | None => []
  end.

(* the server answered this message's end-of-data with a 2yz/3yz code (as read by the client) *)
Definition acked (r : mres) : bool := match r_eod r with Some c => okclass c | None => false end.

Definition single_post (m : msg) (st st' : state) (res : mres) : Prop :=
  Base st' /\ Ready st' /\ Idle st' /\
  w_commits (snd st') = w_commits (snd st) ++ (if acked res then commit_of m else []) /\
  (r_delivered res = true <-> r_eod res = Some 250) /\
  (acked res = true -> snd (render m) = None) /\
  (snd (render m) <> None -> r_delivered res = false /\ r_err res <> None) /\
  (r_err res = None -> r_delivered res = true).

Lemma single_post_fail : forall m st st' se,
  Base st' -> Ready st' -> Idle st' -> w_commits (snd st') = w_commits (snd st) ->
  single_post m st st' (mkRes (Some se) false None).
Proof.
  intros. unfold single_post, acked; cbn. rewrite app_nil_r.
  split; [assumption|split; [assumption|split; [assumption|split; [assumption|]]]].
  split; [split; discriminate|]. split; [discriminate|]. split; [|discriminate].
  intros _. split; [reflexivity|discriminate].
Qed.

Lemma single_post_delivered : forall m st st' e,
  Base st' -> Ready st' -> Idle st' -> w_commits (snd st') = w_commits (snd st) ++ commit_of m ->
  snd (render m) = None ->
  single_post m st st' (mkRes e true (Some 250)).
Proof.
  intros. unfold single_post, acked; cbn.
  split; [assumption|split; [assumption|split; [assumption|split; [assumption|]]]].
  split; [split; reflexivity|]. split; [intros _; assumption|]. split; [|reflexivity].
  intros Hc. contradiction.
Qed.

Lemma single_post_eod_fail : forall m st st' se eod,
  Base st' -> Ready st' -> Idle st' ->
  w_commits (snd st') = w_commits (snd st) ++ (if acked (mkRes (Some se) false eod) then commit_of m else []) ->
  snd (render m) = None -> (forall c, eod = Some c -> c <> 250) ->
  single_post m st st' (mkRes (Some se) false eod).
Proof.
  intros m st st' se eod HB HR HI HW Hr Hne. unfold single_post. cbn [r_delivered r_eod r_err].
  split; [assumption|split; [assumption|split; [assumption|split; [assumption|]]]].
  split; [split; [discriminate|]|].
  - intros E. exfalso. apply (Hne 250 E). reflexivity.
  - split; [intros _; assumption|]. split; [|discriminate]. intros Hc. contradiction.
Qed.

Lemma send_single_spec : forall m st st' res,
  Base st -> Ready st -> Idle st ->
  send_single X0 F0 cfg render m st = (st', res) ->
  single_post m st st' res.
Proof.
  intros m st st' res HB HR HI H. unfold send_single in H.
  destruct (m_8bit m && negb (extension (fst st) E8BITMIME)).
  { inversion H; subst. apply single_post_fail; auto. }
  destruct (m_from m) as [from|] eqn:Hfrom.
  2: { inversion H; subst. apply single_post_fail; auto. }
  destruct (m_rcpts m) as [|r0 rt] eqn:Hrc.
  { inversion H; subst. apply single_post_fail; auto. }
  remember (if cf_dsn cfg && negb (is_nil (cf_ret cfg)) then (set_mr (fst st) (cf_ret cfg), snd st) else st) as st0 eqn:Hst0.
  assert (H0 : Base st0 /\ Ready st0 /\ Idle st0 /\ snd st0 = snd st).
  { subst st0. destruct (cf_dsn cfg && negb (is_nil (cf_ret cfg))); [|auto].
    destruct st as [c w]. cbn [fst snd].
    split; [apply (Base_cli c); destruct c; auto|].
    split; [apply (Ready_cli c); destruct c; auto|].
    split; [|reflexivity]. intros Hl. rewrite (live_cli c) in Hl by (destruct c; reflexivity). apply HI. exact Hl. }
  destruct H0 as (HB0 & HR0 & HI0 & HW0).
  destruct (do_mail X0 from st0) as [st1 r1] eqn:Hmail.
  destruct (do_mail_spec _ _ _ _ HB0 HR0 HI0 Hmail) as (_ & HB1 & HR1 & HW1 & HOk1).
  rewrite HW0 in HW1.
  destruct r1 as [c1 t1 | e1].
  2: { rewrite F_rc_mail in H.
       destruct (reset_after X0 true (mk_se F0 reason_mail_from e1 (extension (fst st) EENHANCED) [] 1) st1) as [st2 se2] eqn:Hra.
       destruct (reset_after_spec _ _ _ _ HB1 HR1 Hra) as (HB2 & HR2 & HI2 & HW2).
       inversion H; subst. apply single_post_fail; auto. congruence. }
  destruct HOk1 as [Hl1 HT1].
  remember (set_rn (fst st1) (cf_notify cfg), snd st1) as st1' eqn:Hst1'.
  assert (H1' : Base st1' /\ Ready st1' /\ InTxn st1' /\ TxnAt st1' from [] /\ snd st1' = snd st1).
  { subst st1'. destruct st1 as [c w]. cbn [fst snd] in *.
    assert (Hlv : live (set_rn c (cf_notify cfg), w) = live (c, w)) by (apply live_cli; destruct c; reflexivity).
    split; [apply (Base_cli c); destruct c; auto|].
    split; [apply (Ready_cli c); destruct c; auto|].
    split; [|split; [|reflexivity]].
    - intros Hl. rewrite Hlv in Hl. destruct (HT1 Hl) as (_ & _ & _ & E). unfold srvof in *; cbn [snd] in *. rewrite E. discriminate.
    - intros Hl. rewrite Hlv in Hl. apply (HT1 Hl). }
  destruct H1' as (HB1' & HR1' & HT1' & HA1' & HW1').
  destruct (rcpt_loop X0 F0 (extension (fst st) EENHANCED) (r0 :: rt) st1' None) as [st2 acc2] eqn:Hloop.
  destruct (rcpt_loop_spec _ _ _ _ _ _ from [] HB1' HR1' HT1' (fun _ => HA1') Hloop) as (HB2 & HR2 & HT2 & HW2 & HN2).
  rewrite HW1', HW1 in HW2.
  destruct acc2 as [se2|].
  { rewrite F_rc_rcpt in H.
    destruct (reset_after X0 true se2 st2) as [st3 se3] eqn:Hra.
    destruct (reset_after_spec _ _ _ _ HB2 HR2 Hra) as (HB3 & HR3 & HI3 & HW3).
    inversion H; subst. apply single_post_fail; auto. congruence. }
  destruct (HN2 eq_refl) as [_ HA2]. cbn [app] in HA2.
  destruct (do_data X0 st2) as [st3 r3] eqn:Hdata.
  assert (HD2 : live st2 = true -> s_txn (srvof st2) = TRcpt /\ s_rej (srvof st2) = false).
  { intros Hl. destruct (HA2 Hl) as (_ & _ & E1 & E2). auto. }
  destruct (do_data_spec _ _ _ HB2 HR2 HD2 Hdata) as (HB3 & HW3 & _ & HC3).
  rewrite HW2 in HW3.
  destruct r3 as [c3 t3 | e3].
  2: { rewrite F_data_rset, F_rc_data in H.
       destruct (reset_after X0 true (mk_se F0 reason_data e3 (extension (fst st) EENHANCED) [] 1) st3) as [st4 se4] eqn:Hra.
       destruct (reset_after_spec _ _ _ _ HB3 HC3 Hra) as (HB4 & HR4 & HI4 & HW4).
       inversion H; subst. apply single_post_fail; auto. congruence. }
  destruct HC3 as [Hl2 HD3].
  destruct (HA2 Hl2) as (Ef & Erc & _ & _). rewrite Ef, Erc in HD3.
  destruct (write_chunks_spec (fst (render m)) _ _ _ _ HB3 HD3) as (HB4 & HD4 & HW4 & _).
  cbn [app] in HD4. rewrite HW3 in HW4.
  destruct (snd (render m)) as [e|] eqn:Hrender.
  { rewrite F_abort in H. inversion H; subst st' res; clear H.
    destruct (close_cli_spec _ HB4) as (HB5 & Hcl & HW5 & _).
    destruct (closed_props _ Hcl) as [R5 I5].
    apply single_post_fail; auto. congruence. }
  destruct (dc_close X0 (write_chunks st3 (fst (render m)))) as [st5 r5] eqn:Hclose.
  destruct (dc_close_spec _ _ _ _ _ _ HB4 HD4 Hclose) as (HB5 & HR5 & HI5 & _ & HW5 & HOk5 & HErr5).
  rewrite HW4 in HW5.
  assert (Hcm : commit_of m = [mkCommit from (r0 :: rt) (dotcanon (concat (fst (render m))))]).
  { unfold commit_of. rewrite Hfrom, Hrc. reflexivity. }
  destruct r5 as [c5 t5 | e5].
  - pose proof (HOk5 _ _ eq_refl) as E. subst c5.
    destruct (reset_with X0 cfg st5) as [st6 e6] eqn:Hrw.
    destruct (reset_with_spec _ _ _ _ HB5 HR5 HI5 Hrw) as (HB6 & HR6 & HI6 & HW6).
    assert (HW : w_commits (snd st6) = w_commits (snd st) ++ commit_of m).
    { rewrite HW6, HW5, Hcm. reflexivity. }
    destruct e6; inversion H; subst st' res; clear H; apply single_post_delivered; auto.
  - inversion H; subst st' res; clear H.
    apply single_post_eod_fail; auto.
    + rewrite HW5. f_equal. unfold acked; cbn [r_eod]. rewrite Hcm.
      destruct e5 as [c5 t5| | |]; reflexivity.
    + intros c E. destruct e5 as [c5 t5| | |]; inversion E; subst. apply (HErr5 _ _ eq_refl).
Qed.
End Single.

Definition Inv (st : state) : Prop := Base st /\ Ready st /\ Idle st.

Section Batch.
Variable cfg : config.
Variable render : msg -> list bytes * option err.

Definition msg_post (m : msg) (r : mres) : Prop :=
  (r_delivered r = true <-> r_eod r = Some 250) /\
  (acked r = true -> snd (render m) = None) /\
  (snd (render m) <> None -> r_delivered r = false /\ r_err r <> None) /\
  (r_err r = None -> r_delivered r = true).

Fixpoint batch_commits (ms : list msg) (rs : list mres) : list commit :=
  match ms, rs with
  | m :: mt, r :: rt => (if acked r then commit_of render m else []) ++ batch_commits mt rt
  | _, _ => []
  end.

Lemma send_msgs_spec : forall ms st st' rs,
  Inv st -> send_msgs X0 F0 cfg render ms st = (st', rs) ->
  Inv st' /\ w_commits (snd st') = w_commits (snd st) ++ batch_commits ms rs /\ Forall2 msg_post ms rs.
Proof.
  induction ms as [|m t IH]; intros st st' rs (HB & HR & HI) H.
  - cbn in H. inversion H; subst. cbn. rewrite app_nil_r.
    split; [split; [exact HB|split; [exact HR|exact HI]]|]. split; [reflexivity|constructor].
  - cbn [send_msgs] in H. destruct (send_single X0 F0 cfg render m st) as [st1 r1] eqn:H1.
    destruct (send_msgs X0 F0 cfg render t st1) as [st2 rs2] eqn:H2.
    inversion H; subst st' rs; clear H.
    destruct (send_single_spec cfg render _ _ _ _ HB HR HI H1) as (HB1 & HR1 & HI1 & HW1 & P1 & P2 & P3 & P4).
    destruct (IH _ _ _ (conj HB1 (conj HR1 HI1)) H2) as (Hinv2 & HW2 & HF2).
    split; [exact Hinv2|]. split.
    + rewrite HW2, HW1. cbn [batch_commits]. rewrite app_assoc. reflexivity.
    + constructor; [|exact HF2]. unfold msg_post. auto.
Qed.

Lemma untouched_commits : forall ms, batch_commits ms (untouched ms) = [].
Proof. induction ms as [|m t IH]; cbn; [reflexivity|exact IH]. Qed.

Lemma untouched_results : forall ms r, In r (untouched ms) -> r = mkRes None false None.
Proof. intros ms r H. unfold untouched in H. apply in_map_iff in H. destruct H as (m & E & _). auto. Qed.

(* ---------- dial ---------- *)
Definition Dialing (st : state) : Prop :=
  all_legal (snd st) = true /\ all_attributed (snd st) = true /\ w_queue (snd st) = [] /\
  c_open (fst st) = true /\ c_dot (fst st) = false /\ w_commits (snd st) = [] /\
  (s_open (srvof st) = true -> s_data (srvof st) = None /\ s_txn (srvof st) = TIdle).

(* the three commands of the dial dialogue after the greeting *)
Definition dial_cmd (line : cmd) : Prop :=
  match line with CEhlo _ | CHelo _ | CStartTLS => True | _ => False end.

Lemma dial_cmd_spec : forall expect line c w st' r,
  Dialing (c, w) -> dial_cmd line ->
  (s_open (w_srv w) = true -> legal (w_srv w) line = true) ->
  do_cmd expect line (c, w) = (st', r) ->
  Dialing st' /\ fst st' = c /\
  (forall code text, r = ROk code text ->
     expect_ok expect code = true /\ s_open (w_srv w) = true /\ s_open (srvof st') = true /\
     srvof st' = fst (srv_apply (w_srv w) line code)).
Proof.
  intros expect line c w st' r (HL & HA & HQ & Hco & Hd & HC & HS) Hline Hleg H.
  unfold srvof in *; cbn [fst snd] in *.
  destruct (s_open (w_srv w)) eqn:Hso.
  - destruct (HS eq_refl) as [Hdat Htx]. specialize (Hleg eq_refl).
    rewrite do_cmd_live in H by auto. inversion H; subst st' r; clear H.
    pose proof (cmd_post_outcome expect line w) as O.
    set (w' := fst (cmd_post expect line w)) in *.
    set (r' := snd (cmd_post expect line w)) in *.
    cbn [fst snd]. split; [|split; [reflexivity|]].
    + outcome_cases O; rewrite Hw'; unfold Dialing, srvof; cbn [fst snd w_trace w_attr w_queue w_commits w_srv].
      * split; [erewrite all_legal_snoc by reflexivity; cbn; rewrite HL, Hleg; reflexivity|].
        split; [exact HA|]. split; [reflexivity|]. split; [exact Hco|]. split; [exact Hd|]. split; [exact HC|].
        cbn. discriminate.
      * assert (cm = None /\ s_data s' = None /\ s_txn s' = TIdle).
        { destruct line; cbn in Hline; try contradiction; cbn in Ha;
          [destruct (okclass code)|destruct (okclass code)|destruct (code =? 220)]; inversion Ha; subst; cbn; auto. }
        destruct H as (-> & Hd' & Ht'). cbn [opt_list]. rewrite app_nil_r.
        split; [erewrite all_legal_snoc by reflexivity; cbn; rewrite HL, Hleg; reflexivity|].
        split; [eapply attr_snoc; [reflexivity|exact HA]|].
        split; [reflexivity|]. split; [exact Hco|]. split; [exact Hd|]. split; [exact HC|]. auto.
    + intros code text Hr.
      outcome_cases O; [rewrite Hres in Hr; discriminate|].
      rewrite Hres in Hr. destruct (expect_ok expect code0) eqn:Hx; [|discriminate].
      inversion Hr; subst code0 text0. rewrite Hw'. unfold srvof; cbn [snd w_srv]. rewrite Ha. cbn [fst].
      split; [exact Hx|]. split; [reflexivity|]. split; [|reflexivity].
      destruct line; cbn in Hline; try contradiction; cbn in Ha;
        [destruct (okclass code)|destruct (okclass code)|destruct (code =? 220)]; inversion Ha; subst; cbn; exact Hso.
  - rewrite do_cmd_dead in H by auto. inversion H; subst; clear H. cbn [fst snd].
    split; [|split; [reflexivity|intros; discriminate]].
    unfold Dialing, srvof; cbn [fst snd]. repeat split; auto; rewrite Hso in *; discriminate.
Qed.

(* what a successful hello / STARTTLS leaves behind: the client's extension map is the set the server
   advertised in the EHLO it accepted last, or nil after the HELO fallback (server: no extensions) *)
Definition hello_post (st : state) : Prop :=
  s_open (srvof st) = true /\ s_helo (srvof st) = true /\
  match c_ext (fst st) with
  | Some l => l = s_ext (srvof st) /\ l = (if s_tls (srvof st) then s_caps_tls (srvof st) else s_caps (srvof st))
  | None => s_ext (srvof st) = []
  end.

Lemma Dialing_cli : forall c c' w, c_open c' = c_open c -> c_dot c' = c_dot c -> Dialing (c, w) -> Dialing (c', w).
Proof. intros c c' w Ho Hd D. unfold Dialing, srvof in *; cbn [fst snd] in *. rewrite Ho, Hd. exact D. Qed.

(* every EHLO replaces the extension map *)
Lemma do_ehlo_spec : forall name c w st' r,
  Dialing (c, w) -> do_ehlo X0 true name (c, w) = (st', r) ->
  Dialing st' /\
  match r with
  | ROk _ _ => hello_post st' /\ s_tls (srvof st') = s_tls (w_srv w) /\
               s_caps (srvof st') = s_caps (w_srv w) /\ s_caps_tls (srvof st') = s_caps_tls (w_srv w)
  | RErr _ => fst st' = c
  end.
Proof.
  intros name c w st' r HD H. unfold do_ehlo in H. cbn [x_ehlo X0] in H.
  destruct (do_cmd 250 (CEhlo name) (c, w)) as [[c1 w1] r1] eqn:Hc.
  destruct (dial_cmd_spec 250 (CEhlo name) _ _ _ _ HD I (fun _ => eq_refl) Hc) as (HD1 & Hc1 & HOk).
  cbn [fst] in Hc1. subst c1.
  destruct r1 as [code t|e]; inversion H; subst st' r; clear H.
  - destruct (HOk _ _ eq_refl) as (Hx & Hso0 & Hso & Hs). apply expect_250 in Hx. subst code.
    unfold srvof in *; cbn [fst snd] in *. cbn in Hs.
    split; [eapply Dialing_cli; [| |exact HD1]; destruct c; reflexivity|].
    rewrite Hs. cbn. unfold hello_post, srvof; cbn [fst snd]. rewrite Hs. cbn.
    split; [|auto]. split; [rewrite Hs in Hso; exact Hso|]. split; [reflexivity|].
    destruct c; cbn. auto.
  - split; [exact HD1|reflexivity].
Qed.

Lemma do_hello_spec : forall name c w st' r,
  Dialing (c, w) -> do_hello X0 true name (c, w) = (st', r) ->
  Dialing st' /\
  match r with
  | ROk _ _ => hello_post st' /\ (c_ext (fst st') <> None -> s_tls (srvof st') = s_tls (w_srv w))
  | RErr _ => True
  end.
Proof.
  intros name c w st' r HD H. unfold do_hello in H.
  destruct (do_ehlo X0 true name (c, w)) as [[c1 w1] r1] eqn:He.
  destruct (do_ehlo_spec _ _ _ _ _ HD He) as (HD1 & P1).
  destruct r1 as [code t|e].
  - inversion H; subst st' r; clear H. split; [exact HD1|]. destruct P1 as (P & T & _). split; [exact P|auto].
  - cbn [fst] in P1. subst c1. cbn [x_helo X0] in H.
    assert (HD1' : Dialing (set_cext c None, w1)) by (eapply Dialing_cli; [| |exact HD1]; destruct c; reflexivity).
    destruct (dial_cmd_spec 250 (CHelo name) _ _ _ _ HD1' I (fun _ => eq_refl) H) as (HD2 & Hc2 & HOk).
    split; [exact HD2|]. destruct r as [code t|e2]; [|exact I].
    destruct (HOk _ _ eq_refl) as (Hx & _ & Hso & Hs). apply expect_250 in Hx. subst code. cbn in Hs.
    unfold hello_post. rewrite Hc2. cbn [c_ext set_cext]. rewrite Hs. cbn.
    split; [|intros C; destruct c; cbn in C; contradiction].
    split; [rewrite Hs in Hso; exact Hso|]. split; [reflexivity|]. destruct c; reflexivity.
Qed.

Lemma extension_has : forall c e, extension c e = true -> exists l, c_ext c = Some l /\ has_ext l e = true.
Proof. intros c e H. unfold extension in H. destruct (c_ext c) as [l|]; [eauto|discriminate]. Qed.

Lemma tls_step_spec : forall st st' ok,
  Dialing st -> hello_post st -> (c_ext (fst st) <> None -> s_tls (srvof st) = false) ->
  tls_step X0 F0 cfg st = (st', ok) ->
  Dialing st' /\ (ok = true -> hello_post st').
Proof.
  intros [c w] st' ok HD HP HT H. unfold tls_step in H. rewrite F_ehlo in H. cbn [fst] in H.
  assert (Hrun : forall st1 ok1,
     extension c ESTARTTLS = true ->
     match do_starttls X0 true (cf_helo cfg) (c, w) with
     | (st1, ROk _ _) => (st1, true) | (st1, RErr _) => (st1, false) end = (st1, ok1) ->
     Dialing st1 /\ (ok1 = true -> hello_post st1)).
  { intros st1 ok1 Hext Hr. unfold do_starttls in Hr. cbn [x_starttls X0] in Hr.
    destruct (extension_has _ _ Hext) as (l & Hl & Hhas).
    destruct HP as (Hso & Hh & Hm). unfold srvof in *; cbn [fst snd] in *. rewrite Hl in Hm. destruct Hm as [Hm _].
    assert (Htls : s_tls (w_srv w) = false) by (apply HT; rewrite Hl; discriminate).
    assert (Hleg : s_open (w_srv w) = true -> legal (w_srv w) CStartTLS = true).
    { intros _. cbn. rewrite <- Hm, Hhas, Htls. reflexivity. }
    destruct (do_cmd 220 CStartTLS (c, w)) as [[c1 w1] r1] eqn:Hc.
    destruct (dial_cmd_spec 220 CStartTLS _ _ _ _ HD I Hleg Hc) as (HD1 & Hc1 & HOk). cbn [fst] in Hc1. subst c1.
    destruct r1 as [code t|e].
    - assert (HD1' : Dialing (set_dot c false, w1)).
      { eapply Dialing_cli; [| |exact HD1]; [apply c_open_set_dot|]. rewrite c_dot_set_dot.
        destruct HD1 as (_ & _ & _ & _ & Hd & _). exact (eq_sym Hd). }
      destruct (do_ehlo X0 true (cf_helo cfg) (set_dot c false, w1)) as [st2 r2] eqn:He.
      destruct (do_ehlo_spec _ _ _ _ _ HD1' He) as (HD2 & P2).
      destruct r2; inversion Hr; subst; (split; [exact HD2|]); [intros _; exact (proj1 P2)|discriminate].
    - inversion Hr; subst. split; [exact HD1|discriminate]. }
  destruct (cf_tls cfg).
  - inversion H; subst. split; [exact HD|intros _; exact HP].
  - destruct (extension c ESTARTTLS) eqn:Hext; [exact (Hrun _ _ eq_refl H)|].
    inversion H; subst. split; [exact HD|intros _; exact HP].
  - destruct (extension c ESTARTTLS) eqn:Hext; [exact (Hrun _ _ eq_refl H)|].
    inversion H; subst. split; [exact HD|discriminate].
Qed.

(* the whole dial *)
Lemma dial_full : forall caps caps_tls script w1 oc,
  dial X0 F0 cfg (world_init caps caps_tls script) = (w1, oc) ->
  all_legal w1 = true /\ all_attributed w1 = true /\ w_commits w1 = [] /\
  (forall c, oc = Some c -> Dialing (c, w1) /\ hello_post (c, w1)).
Proof.
  intros caps caps_tls script w1 oc H. unfold dial in H. rewrite F_ehlo in H.
  set (w0 := world_init caps caps_tls script) in *.
  rewrite deliver_cmd in H by (cbn; auto). unfold srv_step in H.
  destruct (next_decision (w_script w0)) as [d script'].
  destruct (reply_of d CGreet) as [[code text]|].
  - cbn [srv_apply] in H. cbn [w_queue w0 world_init app] in H.
    unfold read_reply in H. cbn [c_open cli_init negb w_queue x_greet X0] in H.
    destruct (expect_ok 220 code) eqn:He.
    + match type of H with context [do_hello _ _ _ ?st] => set (st1 := st) in H end.
      assert (HD1 : Dialing st1).
      { unfold st1, Dialing, srvof, all_legal, all_attributed, attr_match; cbn. repeat split; auto. }
      assert (HT1 : s_tls (srvof st1) = false) by reflexivity.
      destruct st1 as [c1 w1'] eqn:Est1.
      destruct (do_hello X0 true (cf_helo cfg) (c1, w1')) as [st3 r3] eqn:Hh.
      destruct (do_hello_spec _ _ _ _ _ HD1 Hh) as (HD3 & P3).
      destruct r3 as [c3 t3|e3].
      * destruct P3 as (HP3 & HT3). destruct st3 as [c3' w3'].
        destruct (tls_step X0 F0 cfg (c3', w3')) as [[c4 w4] ok] eqn:Ht.
        assert (HT3' : c_ext (fst (c3', w3')) <> None -> s_tls (srvof (c3', w3')) = false).
        { intros C. rewrite (HT3 C). exact HT1. }
        destruct (tls_step_spec _ _ _ HD3 HP3 HT3' Ht) as (HD4 & P4).
        pose proof HD4 as (HL & HA & _ & _ & _ & HC & _). cbn [fst snd] in *.
        destruct ok; inversion H; subst; (split; [exact HL|split; [exact HA|split; [exact HC|]]]).
        -- intros c E. inversion E; subst. split; [exact HD4|exact (P4 eq_refl)].
        -- intros c E. discriminate.
      * destruct st3 as [c3 w3]. pose proof HD3 as (HL & HA & _ & _ & _ & HC & _). cbn [fst snd] in *.
        inversion H; subst. split; [exact HL|split; [exact HA|split; [exact HC|intros c E; discriminate]]].
    + inversion H; subst. cbn. unfold all_legal, all_attributed, attr_match. cbn.
      split; [reflexivity|split; [reflexivity|split; [reflexivity|intros c E; discriminate]]].
  - cbn [w_queue w0 world_init app] in H. unfold read_reply in H. cbn in H. inversion H; subst.
    unfold all_legal, all_attributed. cbn.
    split; [reflexivity|split; [reflexivity|split; [reflexivity|intros c E; discriminate]]].
Qed.

Lemma hello_post_inv : forall c w, Dialing (c, w) -> hello_post (c, w) -> Inv (c, w).
Proof.
  intros c w (HL & HA & HQ & Hco & Hd & HC & HS) (Hso & Hh & Hm). unfold srvof in *; cbn [fst snd] in *.
  destruct (HS Hso) as [Hdat Htx].
  split; [|split].
  - constructor; unfold live, srvof; cbn [fst snd]; auto.
    intros _ l Hl. rewrite Hl in Hm. exact (proj1 Hm).
  - intros _. cbn. auto.
  - intros _. exact Htx.
Qed.

Lemma dial_spec : forall caps caps_tls script w1 c,
  dial X0 F0 cfg (world_init caps caps_tls script) = (w1, Some c) -> Inv (c, w1) /\ w_commits w1 = [].
Proof.
  intros caps caps_tls script w1 c H. destruct (dial_full _ _ _ _ _ H) as (_ & _ & HC & HS).
  destruct (HS c eq_refl) as [HD HP]. split; [apply hello_post_inv; assumption|exact HC].
Qed.
End Batch.

Section Run.
Variable cfg : config.
Variable render : msg -> list bytes * option err.

Definition world_ok (w : world) : Prop := all_legal w = true /\ all_attributed w = true.

Lemma dial_world_ok : forall caps caps_tls script w1 oc,
  dial X0 F0 cfg (world_init caps caps_tls script) = (w1, oc) -> world_ok w1 /\ w_commits w1 = [].
Proof.
  intros caps caps_tls script w1 oc H. destruct (dial_full cfg _ _ _ _ _ H) as (HL & HA & HC & _).
  split; [split; assumption|exact HC].
Qed.

Lemma close_with_spec : forall st st' b,
  Inv st -> close_with X0 st = (st', b) -> Base st' /\ w_commits (snd st') = w_commits (snd st).
Proof.
  intros st st' b (HB & HR & HI) H. unfold close_with in H.
  destruct (c_open (fst st)); cbn [negb] in H; [|inversion H; subst; auto].
  unfold do_quit in H. cbn [x_quit X0] in H.
  destruct (do_cmd 221 CQuit st) as [st1 r1] eqn:Hq.
  destruct (do_cmd_srv _ CQuit _ _ _ HB HR I (fun _ => eq_refl) Hq) as (_ & HB1 & Hcase).
  assert (HW : w_commits (snd st1) = w_commits (snd st)).
  { destruct Hcase as [(_ & Hw & _) | (_ & code & text & s' & cm & Ha & _ & Hw & _)]; [exact Hw|].
    cbn in Ha. assert (cm = None) by (destruct (code =? 221); inversion Ha; reflexivity). subst cm.
    cbn in Hw. rewrite app_nil_r in Hw. exact Hw. }
  destruct r1; inversion H; subst; clear H.
  - destruct (close_cli_spec _ HB1) as (HB2 & _ & HW2 & _). split; [exact HB2|congruence].
  - auto.
Qed.

Definition attempted (r : ret) : bool :=
  match r with RetDial | RetConnCheck => false | _ => true end.

Theorem run_spec : forall caps caps_tls script ms,
  let o := run_case X0 F0 cfg caps caps_tls script ms render in
  world_ok (o_world o) /\
  w_commits (o_world o) = batch_commits render ms (o_results o) /\
  (if attempted (o_ret o) then Forall2 (msg_post render) ms (o_results o)
   else o_results o = untouched ms).
Proof.
  intros caps caps_tls script ms. unfold run_case, dial_and_send.
  destruct (dial X0 F0 cfg (world_init caps caps_tls script)) as [w1 oc] eqn:Hd.
  destruct (dial_world_ok _ _ _ _ _ Hd) as [Hok HC].
  destruct oc as [c|].
  - destruct (dial_spec cfg _ _ _ _ _ Hd) as [(HB & HR & HI) _].
    unfold send_batch.
    destruct (check_conn X0 cfg (c, w1)) as [st1 e1] eqn:Hcc.
    destruct (check_conn_spec cfg _ _ _ HB HR Hcc) as (HB1 & HR1 & HW1 & HI1 & _).
    cbn [snd] in HW1.
    destruct e1 as [e1|].
    + destruct (close_with X0 st1) as [st3 closed] eqn:Hcw.
      destruct (close_with_spec _ _ _ (conj HB1 (conj HR1 (HI1 HI))) Hcw) as (HB3 & HW3).
      cbn. split; [split; [apply (b_legal _ HB3)|apply (b_attr _ HB3)]|].
      split; [|reflexivity]. rewrite untouched_commits. congruence.
    + destruct (send_msgs X0 F0 cfg render ms st1) as [st2 rs] eqn:Hs.
      destruct (send_msgs_spec cfg render _ _ _ _ (conj HB1 (conj HR1 (HI1 HI))) Hs) as (Hinv2 & HW2 & HF2).
      destruct (close_with X0 st2) as [st3 closed] eqn:Hcw.
      destruct (close_with_spec _ _ _ Hinv2 Hcw) as (HB3 & HW3).
      cbn [o_world o_results o_ret].
      split; [split; [apply (b_legal _ HB3)|apply (b_attr _ HB3)]|].
      split; [rewrite HW3, HW2, HW1, HC; reflexivity|].
      destruct (count_errors rs); [destruct closed|]; exact HF2.
  - cbn. split; [exact Hok|]. split; [|reflexivity]. rewrite untouched_commits. exact HC.
Qed.

(* between any two messages of any batch: clean transaction or closed connection *)
Definition clean_or_closed (st : state) : Prop :=
  c_open (fst st) = false \/ s_open (srvof st) = false \/
  (s_txn (srvof st) = TIdle /\ s_data (srvof st) = None /\ w_queue (snd st) = [] /\ c_dot (fst st) = false).

Lemma Inv_clean : forall st, Inv st -> clean_or_closed st.
Proof.
  intros st (HB & HR & HI). unfold clean_or_closed.
  destruct (c_open (fst st)) eqn:Hc; [|auto]. destruct (s_open (srvof st)) eqn:Hs; [|auto].
  right; right. destruct (HR Hc) as [Hd Hdat].
  split; [apply HI; apply live_true; auto|]. split; [auto|]. split; [apply (b_queue _ HB Hc)|exact Hd].
Qed.

Theorem clean_between_messages : forall caps caps_tls script ms w1 c st1 e st2 rs,
  dial X0 F0 cfg (world_init caps caps_tls script) = (w1, Some c) ->
  check_conn X0 cfg (c, w1) = (st1, e) ->
  send_msgs X0 F0 cfg render ms st1 = (st2, rs) ->
  clean_or_closed st2.
Proof.
  intros caps caps_tls script ms w1 c st1 e st2 rs Hd Hc Hs.
  destruct (dial_spec cfg _ _ _ _ _ Hd) as [(HB & HR & HI) _].
  destruct (check_conn_spec cfg _ _ _ HB HR Hc) as (HB1 & HR1 & _ & HI1 & _).
  destruct (send_msgs_spec cfg render _ _ _ _ (conj HB1 (conj HR1 (HI1 HI))) Hs) as (Hinv2 & _).
  apply Inv_clean. exact Hinv2.
Qed.
End Run.
End Repaired.
