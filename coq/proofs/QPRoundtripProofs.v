(* Round trip of the quoted-printable writer model through the RFC 2045 decoder:
   for text whose line breaks are CRLF or LF (every CR directly followed by LF),
   qp_decode (qp_body content) = Some (canon_crlf content).

   Technique: an invariant [rt_inv st d] relating the writer state to the decoder:
   the complete lines in [qout st] decode to d1, the pending line [qline st] decodes (without
   any stripping of trailing blanks) to d2, and d = d1 ++ d2 is the canonical form of the
   content consumed so far.  Soft breaks add "=" CRLF (decoded to nothing); a hard break and Close
   first re-encode a trailing blank/tab (qp_check_last), so the decoder's removal of transport
   padding never removes content. *)
From Verif Require Import Bytes QP.
From VerifProofs Require Import QPProofs.
From Coq Require Import ZArith Lia ZifyBool ZifyNat ZifyN.
Ltac Zify.zify_post_hook ::= Z.div_mod_to_equations.
Open Scope N_scope.

(* ---------- hex digits ---------- *)
Lemma hexval_upperhex : forall n, n < 16 -> hexval (upperhex n) = Some n.
Proof.
  intros n H. unfold hexval, upperhex. destruct (N.ltb_spec n 10).
  - replace ((48 <=? 48 + n) && (48 + n <=? 57)) with true by lia. f_equal. lia.
  - replace ((48 <=? 55 + n) && (55 + n <=? 57)) with false by lia.
    replace ((65 <=? 55 + n) && (55 + n <=? 70)) with true by lia. f_equal. lia.
Qed.

Lemma upperhex_not_ws : forall n, is_ws (upperhex n) = false.
Proof. intros n. unfold is_ws, upperhex. destruct (N.ltb_spec n 10); lia. Qed.

Lemma hexval_ws : forall b, is_ws b = true -> hexval b = None.
Proof.
  intros b H. unfold is_ws in H. assert (b = 32 \/ b = 9) as [E|E] by lia; subst; reflexivity.
Qed.

Lemma ws_wf : forall b, is_ws b = true -> b < 256.
Proof. intros b H. unfold is_ws in H. lia. Qed.

(* ---------- qp_dec_line ---------- *)
Lemma dec_cons : forall b t,
  qp_dec_line (b :: t) =
    if b =? 61 then
      match t with
      | [] => Some ([], true)
      | h :: l :: t' =>
          match hexval h, hexval l, qp_dec_line t' with
          | Some x, Some y, Some (r, soft) => Some (x * 16 + y :: r, soft)
          | _, _, _ => None
          end
      | _ :: [] => None
      end
    else
      match qp_dec_line t with
      | Some (r, soft) => Some (b :: r, soft)
      | None => None
      end.
Proof. reflexivity. Qed.

Lemma dec_enc : forall b, b < 256 ->
  qp_dec_line [61; upperhex (b / 16); upperhex (b mod 16)] = Some ([b], false).
Proof.
  intros b H. rewrite dec_cons. change (61 =? 61) with true. cbv iota.
  rewrite !hexval_upperhex by lia. cbn [qp_dec_line]. do 3 f_equal. lia.
Qed.

Lemma dec_lit : forall b, b <> 61 -> qp_dec_line [b] = Some ([b], false).
Proof. intros b H. rewrite dec_cons. replace (b =? 61) with false by lia. reflexivity. Qed.

Lemma dec_line_app_n : forall (n : nat) l1 l2 d1, (length l1 <= n)%nat ->
  qp_dec_line l1 = Some (d1, false) ->
  qp_dec_line (l1 ++ l2) =
    match qp_dec_line l2 with Some (d2, s) => Some (d1 ++ d2, s) | None => None end.
Proof.
  induction n as [|n IH]; intros l1 l2 d1 Hn H.
  - destruct l1; [|cbn in Hn; lia]. cbn in H. inversion H; subst. cbn [app].
    destruct (qp_dec_line l2) as [[? ?]|]; reflexivity.
  - destruct l1 as [|b t].
    + cbn in H. inversion H; subst. cbn [app]. destruct (qp_dec_line l2) as [[? ?]|]; reflexivity.
    + rewrite dec_cons in H. cbn [app]. rewrite dec_cons. destruct (b =? 61).
      * destruct t as [|h [|lo t']]; try discriminate. cbn [app].
        destruct (hexval h); try discriminate. destruct (hexval lo); try discriminate.
        destruct (qp_dec_line t') as [[r s]|] eqn:E'; try discriminate.
        inversion H; subst. rewrite (IH t' l2 r); [|cbn [length] in Hn; lia|exact E'].
        destruct (qp_dec_line l2) as [[? ?]|]; reflexivity.
      * destruct (qp_dec_line t) as [[r s]|] eqn:E'; try discriminate.
        inversion H; subst. rewrite (IH t l2 r); [|cbn [length] in Hn; lia|exact E'].
        destruct (qp_dec_line l2) as [[? ?]|]; reflexivity.
Qed.

Lemma dec_line_app : forall l1 l2 d1,
  qp_dec_line l1 = Some (d1, false) ->
  qp_dec_line (l1 ++ l2) =
    match qp_dec_line l2 with Some (d2, s) => Some (d1 ++ d2, s) | None => None end.
Proof. intros l1 l2 d1. apply (dec_line_app_n (length l1)). lia. Qed.

(* a line whose last byte is a blank/tab: that byte is literal content *)
Lemma dec_snoc_ws_n : forall (n : nat) l b d, (length l <= n)%nat -> is_ws b = true ->
  qp_dec_line (l ++ [b]) = Some (d, false) ->
  exists d', qp_dec_line l = Some (d', false) /\ d = d' ++ [b].
Proof.
  induction n as [|n IH]; intros l b d Hn W H.
  - destruct l; [|cbn in Hn; lia]. cbn [app] in H. rewrite dec_lit in H by (unfold is_ws in W; lia).
    inversion H; subst. exists []. split; reflexivity.
  - destruct l as [|c t].
    + cbn [app] in H. rewrite dec_lit in H by (unfold is_ws in W; lia).
      inversion H; subst. exists []. split; reflexivity.
    + cbn [app] in H. rewrite dec_cons in H. rewrite dec_cons. destruct (c =? 61).
      * destruct t as [|h [|lo t']]; cbn [app] in H; try discriminate.
        -- rewrite (hexval_ws b W) in H. destruct (hexval h); discriminate.
        -- destruct (hexval h); try discriminate. destruct (hexval lo); try discriminate.
           destruct (qp_dec_line (t' ++ [b])) as [[r s]|] eqn:E'; try discriminate.
           inversion H; subst. destruct (IH t' b r) as (d' & Hd & Hr); [cbn [length] in Hn; lia|exact W|exact E'|].
           rewrite Hd. subst r. eexists. split; reflexivity.
      * destruct (qp_dec_line (t ++ [b])) as [[r s]|] eqn:E'; try discriminate.
        inversion H; subst. destruct (IH t b r) as (d' & Hd & Hr); [cbn [length] in Hn; lia|exact W|exact E'|].
        rewrite Hd. subst r. eexists. split; reflexivity.
Qed.

Lemma dec_snoc_ws : forall l b d, is_ws b = true ->
  qp_dec_line (l ++ [b]) = Some (d, false) ->
  exists d', qp_dec_line l = Some (d', false) /\ d = d' ++ [b].
Proof. intros l b d. apply (dec_snoc_ws_n (length l)). lia. Qed.

(* ---------- strip_trailing_ws ---------- *)
Lemma strip_snoc : forall l b, is_ws b = false -> strip_trailing_ws (l ++ [b]) = l ++ [b].
Proof.
  induction l as [|c l IH]; intros b W.
  - cbn. now rewrite W.
  - cbn [app strip_trailing_ws]. rewrite IH by exact W.
    destruct (l ++ [b]) eqn:E; [|reflexivity]. now destruct l.
Qed.

(* ---------- split_crlf ---------- *)
Lemma split_cons2 : forall b c t,
  split_crlf (b :: c :: t) =
    if (b =? 13) && (c =? 10) then [] :: split_crlf t else cons_hd b (split_crlf (c :: t)).
Proof. reflexivity. Qed.

Lemma split_crlf_ne : forall s, split_crlf s <> [].
Proof.
  intros [|b [|c t]]; try discriminate. rewrite split_cons2.
  destruct ((b =? 13) && (c =? 10)); [discriminate|]. unfold cons_hd.
  destruct (split_crlf (c :: t)); discriminate.
Qed.

Lemma no_crlf_byte_13 : forall b, no_crlf_byte b = true -> (b =? 13) = false.
Proof. intros b H. unfold no_crlf_byte in H. lia. Qed.

Lemma split_crlf_line : forall l rest, forallb no_crlf_byte l = true ->
  split_crlf (l ++ crlf ++ rest) = l :: split_crlf rest.
Proof.
  induction l as [|b l IH]; intros rest H.
  - reflexivity.
  - cbn [forallb] in H. apply andb_true_iff in H. destruct H as [Hb Hl].
    specialize (IH rest Hl). cbn [app]. destruct (l ++ crlf ++ rest) as [|c t] eqn:E.
    + destruct l; discriminate.
    + rewrite split_cons2, (no_crlf_byte_13 b Hb). cbn [andb]. rewrite IH. reflexivity.
Qed.

Lemma split_crlf_last : forall l, forallb no_crlf_byte l = true -> split_crlf l = [l].
Proof.
  induction l as [|b l IH]; intros H; [reflexivity|].
  cbn [forallb] in H. apply andb_true_iff in H. destruct H as [Hb Hl]. specialize (IH Hl).
  destruct l as [|c t]; [reflexivity|].
  rewrite split_cons2, (no_crlf_byte_13 b Hb). cbn [andb]. rewrite IH. reflexivity.
Qed.

(* ---------- qp_decode on texts made of lines ---------- *)
Lemma decode_nil : qp_decode [] = Some [].
Proof. reflexivity. Qed.

Lemma decode_line : forall l rest, forallb no_crlf_byte l = true ->
  qp_decode (l ++ crlf ++ rest) =
    match qp_dec_line (strip_trailing_ws l), qp_decode rest with
    | Some (d, soft), Some r => Some (d ++ (if soft then [] else crlf) ++ r)
    | _, _ => None
    end.
Proof.
  intros l rest H. unfold qp_decode. rewrite split_crlf_line by exact H.
  cbn [qp_dec_lines]. destruct (split_crlf rest) eqn:E; [now apply split_crlf_ne in E|]. reflexivity.
Qed.

Lemma decode_last : forall l, forallb no_crlf_byte l = true ->
  qp_decode l = match qp_dec_line (strip_trailing_ws l) with Some (d, _) => Some d | None => None end.
Proof.
  intros l H. unfold qp_decode. rewrite split_crlf_last by exact H. cbn [qp_dec_lines].
  destruct (qp_dec_line (strip_trailing_ws l)) as [[d s]|]; [|reflexivity].
  cbn [app]. now rewrite app_nil_r.
Qed.

(* texts consisting of complete (CRLF-terminated) lines *)
Inductive complete : bytes -> Prop :=
| complete_nil : complete []
| complete_line : forall l r, forallb no_crlf_byte l = true -> complete r -> complete (l ++ crlf ++ r).

Lemma complete_snoc : forall out l, complete out -> forallb no_crlf_byte l = true ->
  complete (out ++ l ++ crlf).
Proof.
  intros out l Hc Hl. induction Hc as [|l0 r H0 Hr IH].
  - cbn [app]. rewrite <- (app_nil_r crlf). now constructor; [|constructor].
  - rewrite <- !app_assoc. now constructor.
Qed.

Lemma decode_app : forall out X d1, complete out -> qp_decode out = Some d1 ->
  qp_decode (out ++ X) = match qp_decode X with Some x => Some (d1 ++ x) | None => None end.
Proof.
  intros out X d1 Hc. revert d1. induction Hc as [|l r Hl Hr IH]; intros d1 H.
  - rewrite decode_nil in H. inversion H; subst. cbn [app]. destruct (qp_decode X); reflexivity.
  - rewrite decode_line in H by exact Hl. rewrite <- !app_assoc. rewrite decode_line by exact Hl.
    destruct (qp_dec_line (strip_trailing_ws l)) as [[d s]|]; [|discriminate].
    destruct (qp_decode r) as [dr|] eqn:Er; [|discriminate]. inversion H; subst.
    rewrite (IH dr eq_refl). destruct (qp_decode X); [|reflexivity].
    now rewrite <- !app_assoc.
Qed.

(* ---------- the invariant ---------- *)
Definition rt_inv (st : qp) (d : bytes) : Prop :=
  exists d1 d2,
    complete (qout st) /\ qp_decode (qout st) = Some d1 /\
    forallb no_crlf_byte (qline st) = true /\ qp_dec_line (qline st) = Some (d2, false) /\
    d = d1 ++ d2.

Lemma rt_init : rt_inv qp_init [].
Proof. exists [], []. repeat split; constructor. Qed.

(* appending an encoded token to the pending line *)
Lemma rt_push : forall st d c x dx, rt_inv st d ->
  forallb no_crlf_byte x = true -> qp_dec_line x = Some (dx, false) ->
  rt_inv (mkqp (qline st ++ x) c (qout st)) (d ++ dx).
Proof.
  intros st d c x dx (d1 & d2 & Hc & Ho & Hl & Hd & E) Hx Hdx. exists d1, (d2 ++ dx). cbn [qline qout].
  split; [exact Hc|]. split; [exact Ho|]. split; [now apply forallb_app_true|]. split; [|subst; now rewrite app_assoc].
  rewrite (dec_line_app _ _ _ Hd), Hdx. reflexivity.
Qed.

(* terminating the pending line with a soft line break *)
Lemma rt_soft : forall st d, rt_inv st d ->
  rt_inv (qp_soft st) d /\ qcr (qp_soft st) = qcr st.
Proof.
  intros st d (d1 & d2 & Hc & Ho & Hl & Hd & E). split; [|reflexivity].
  exists (d1 ++ d2), []. unfold qp_soft, qp_insert_crlf, qp_flush. cbn [qline qout qcr].
  assert (forallb no_crlf_byte (qline st ++ [61]) = true) as Hl1 by now apply forallb_app_true.
  change [13; 10] with crlf.
  split; [now apply complete_snoc|]. split; [|split; [reflexivity|split; [reflexivity|subst; now rewrite app_nil_r]]].
  - rewrite (decode_app _ _ _ Hc Ho). rewrite <- (app_nil_r crlf). rewrite decode_line by exact Hl1.
    rewrite strip_snoc by reflexivity. rewrite (dec_line_app _ _ _ Hd). cbn. rewrite ?app_nil_r. reflexivity.
Qed.

(* terminating the pending line with a hard line break *)
Lemma rt_hard : forall st d, rt_inv st d -> strip_trailing_ws (qline st) = qline st ->
  rt_inv (qp_insert_crlf st) (d ++ crlf) /\ qcr (qp_insert_crlf st) = qcr st.
Proof.
  intros st d (d1 & d2 & Hc & Ho & Hl & Hd & E) Hs. split; [|reflexivity].
  exists (d1 ++ d2 ++ crlf), []. unfold qp_insert_crlf, qp_flush. cbn [qline qout qcr].
  change [13; 10] with crlf.
  split; [now apply complete_snoc|]. split; [|split; [reflexivity|split; [reflexivity|subst; now rewrite app_nil_r, app_assoc]]].
  - rewrite (decode_app _ _ _ Hc Ho). rewrite <- (app_nil_r crlf) at 1. rewrite decode_line by exact Hl.
    rewrite Hs, Hd. cbn. rewrite ?app_nil_r. reflexivity.
Qed.

Lemma enc_no_crlf : forall b,
  forallb no_crlf_byte [61; upperhex (b / 16); upperhex (b mod 16)] = true.
Proof. intros b. cbn [forallb]. now rewrite !upperhex_no_crlf. Qed.

Lemma rt_encode : forall st d b, rt_inv st d -> b < 256 ->
  rt_inv (qp_encode st b) (d ++ [b]) /\ qcr (qp_encode st b) = qcr st /\
  strip_trailing_ws (qline (qp_encode st b)) = qline (qp_encode st b).
Proof.
  intros st d b H Hb. unfold qp_encode.
  destruct (Nat.ltb (qp_max - 1 - length (qline st)) 3).
  - destruct (rt_soft st d H) as [H1 Hcr]. cbn [qline qcr qout]. split; [|split].
    + apply rt_push; [exact H1|apply enc_no_crlf|now apply dec_enc].
    + exact Hcr.
    + change [61; upperhex (b / 16); upperhex (b mod 16)] with ([61; upperhex (b / 16)] ++ [upperhex (b mod 16)]).
      rewrite app_assoc. apply strip_snoc, upperhex_not_ws.
  - cbn [qline qcr qout]. split; [|split].
    + apply rt_push; [exact H|apply enc_no_crlf|now apply dec_enc].
    + reflexivity.
    + change [61; upperhex (b / 16); upperhex (b mod 16)] with ([61; upperhex (b / 16)] ++ [upperhex (b mod 16)]).
      rewrite app_assoc. apply strip_snoc, upperhex_not_ws.
Qed.

(* checkLastByte: a trailing blank/tab of the pending line is re-encoded, nothing else changes;
   afterwards the decoder's padding removal is the identity on the line *)
Lemma rt_check_last : forall st d, rt_inv st d ->
  rt_inv (qp_check_last st) d /\ qcr (qp_check_last st) = qcr st /\
  strip_trailing_ws (qline (qp_check_last st)) = qline (qp_check_last st).
Proof.
  intros st d H. unfold qp_check_last. destruct (rev (qline st)) as [|b r] eqn:E.
  - assert (qline st = []) as El by (rewrite <- (rev_involutive (qline st)), E; reflexivity).
    split; [exact H|split; [reflexivity|]]. now rewrite El.
  - assert (qline st = rev r ++ [b]) as El by (rewrite <- (rev_involutive (qline st)), E; reflexivity).
    destruct (is_ws b) eqn:W.
    + destruct H as (d1 & d2 & Hc & Ho & Hl & Hd & Ed). rewrite El in Hl, Hd.
      destruct (dec_snoc_ws _ _ _ W Hd) as (d' & Hd' & E2).
      rewrite forallb_app in Hl. apply andb_true_iff in Hl. destruct Hl as [Hl _].
      assert (rt_inv (mkqp (rev r) (qcr st) (qout st)) (d1 ++ d')) as H0.
      { exists d1, d'. cbn [qline qout]. repeat split; assumption. }
      destruct (rt_encode _ _ b H0 (ws_wf b W)) as (H1 & H2 & H3).
      split; [|split; [exact H2|exact H3]]. subst d d2. rewrite app_assoc. exact H1.
    + split; [exact H|split; [reflexivity|]]. rewrite El. now apply strip_snoc.
Qed.

Lemma rt_break : forall st d, rt_inv st d ->
  rt_inv (qp_insert_crlf (qp_check_last st)) (d ++ crlf) /\
  qcr (qp_insert_crlf (qp_check_last st)) = qcr st.
Proof.
  intros st d H. destruct (rt_check_last st d H) as (H1 & H2 & H3).
  destruct (rt_hard _ _ H1 H3) as [H4 H5]. split; [exact H4|]. now rewrite H5.
Qed.

(* ---------- the steps of the writer on text with CRLF / LF line breaks ---------- *)
Lemma rt_step_plain : forall st d b, rt_inv st d -> qcr st = false ->
  b < 256 -> b <> 10 -> b <> 13 ->
  rt_inv (qp_step st b) (d ++ [b]) /\ qcr (qp_step st b) = false.
Proof.
  intros st d b H Hcr Hb H10 H13. unfold qp_step. destruct (qp_literal b) eqn:L.
  - unfold qp_write1. replace ((b =? 10) || (b =? 13)) with false by lia.
    assert (b <> 61) as H61 by (unfold qp_literal, is_ws in L; lia).
    assert (forallb no_crlf_byte [b] = true) as Hn by (unfold no_crlf_byte; cbn [forallb]; lia).
    destruct (Nat.eqb (length (qline st)) (qp_max - 1)).
    + destruct (rt_soft st d H) as [H1 _]. split; [|reflexivity].
      apply rt_push; [exact H1|exact Hn|now apply dec_lit].
    + split; [|reflexivity]. apply rt_push; [exact H|exact Hn|now apply dec_lit].
  - destruct (rt_encode st d b H Hb) as (H1 & H2 & _). split; [exact H1|]. now rewrite H2.
Qed.

Lemma rt_step_lf : forall st d, rt_inv st d -> qcr st = false ->
  rt_inv (qp_step st 10) (d ++ crlf) /\ qcr (qp_step st 10) = false.
Proof.
  intros st d H Hcr. change (qp_step st 10) with (qp_write1 st 10). unfold qp_write1.
  change (10 =? 10) with true. change (10 =? 13) with false. cbn [orb]. rewrite Hcr. cbn [andb].
  destruct (rt_break st d H) as [H1 H2]. split; [exact H1|]. now rewrite H2.
Qed.

Lemma qcr_encode : forall st b, qcr (qp_encode st b) = qcr st.
Proof. intros st b. unfold qp_encode. destruct (Nat.ltb _ _); reflexivity. Qed.

Lemma qcr_check_last : forall st, qcr (qp_check_last st) = qcr st.
Proof.
  intros st. unfold qp_check_last. destruct (rev (qline st)); [reflexivity|].
  destruct (is_ws _); [|reflexivity]. now rewrite qcr_encode.
Qed.

Lemma step_crlf_eq : forall st,
  qp_step (qp_step st 13) 10 =
    mkqp (qline (qp_insert_crlf (qp_check_last (mkqp (qline st) true (qout st))))) false
         (qout (qp_insert_crlf (qp_check_last (mkqp (qline st) true (qout st))))).
Proof.
  intros st. change (qp_step st 13) with (qp_write1 st 13). unfold qp_write1.
  change (13 =? 10) with false. change (13 =? 13) with true. cbn [orb]. rewrite andb_false_r.
  set (X := qp_insert_crlf (qp_check_last (mkqp (qline st) true (qout st)))).
  assert (qcr X = true) as H3 by (unfold X, qp_insert_crlf, qp_flush; cbn [qcr]; now rewrite qcr_check_last).
  change (qp_step X 10) with (qp_write1 X 10). unfold qp_write1.
  change (10 =? 10) with true. change (10 =? 13) with false. cbn [orb]. rewrite H3. reflexivity.
Qed.

Lemma rt_step_crlf : forall st d, rt_inv st d -> qcr st = false ->
  rt_inv (qp_step (qp_step st 13) 10) (d ++ crlf) /\ qcr (qp_step (qp_step st 13) 10) = false.
Proof.
  intros st d H _. rewrite step_crlf_eq. split; [|reflexivity].
  assert (rt_inv (mkqp (qline st) true (qout st)) d) as H1 by exact H.
  destruct (rt_break _ d H1) as [H2 _]. exact H2.
Qed.

Lemma rt_close : forall st d, rt_inv st d -> qp_decode (qout (qp_close st)) = Some d.
Proof.
  intros st d H. unfold qp_close, qp_flush. cbn [qout].
  destruct (rt_check_last st d H) as ((d1 & d2 & Hc & Ho & Hl & Hd & E) & _ & Hs).
  rewrite (decode_app _ _ _ Hc Ho), (decode_last _ Hl), Hs, Hd. now subst.
Qed.

Lemma rt_close_crlf : forall st d, rt_inv st d ->
  qp_decode (qout (qp_close st) ++ crlf) = Some (d ++ crlf).
Proof.
  intros st d H. unfold qp_close, qp_flush. cbn [qout].
  destruct (rt_check_last st d H) as ((d1 & d2 & Hc & Ho & Hl & Hd & E) & _ & Hs).
  rewrite <- app_assoc. rewrite (decode_app _ _ _ Hc Ho). rewrite <- (app_nil_r crlf) at 1.
  rewrite (decode_line _ _ Hl), Hs, Hd. cbn. subst. rewrite ?app_nil_r. now rewrite app_assoc.
Qed.

(* ---------- main simulation ---------- *)
Lemma canon_plain : forall b t, b <> 10 -> b <> 13 -> canon_crlf (b :: t) = b :: canon_crlf t.
Proof.
  intros b t H10 H13. cbn [canon_crlf]. replace (b =? 10) with false by lia.
  replace (b =? 13) with false by lia. reflexivity.
Qed.

Lemma rt_main : forall (n : nat) s st d, (length s <= n)%nat ->
  rt_inv st d -> qcr st = false -> wf_bytes s = true -> no_bare_cr s = true ->
  rt_inv (fold_left qp_step s st) (d ++ canon_crlf s).
Proof.
  induction n as [|n IH]; intros s st d Hn H Hcr Hwf Hnb.
  - destruct s; [|cbn in Hn; lia]. cbn. now rewrite app_nil_r.
  - destruct s as [|b t]; [cbn; now rewrite app_nil_r|].
    cbn [wf_bytes forallb] in Hwf. apply andb_true_iff in Hwf. destruct Hwf as [Hb Hwt].
    unfold wf_byte in Hb. cbn [no_bare_cr] in Hnb. apply andb_true_iff in Hnb. destruct Hnb as [Hb13 Hnt].
    cbn [length] in Hn. cbn [fold_left].
    destruct (N.eq_dec b 13) as [E13|N13]; [|destruct (N.eq_dec b 10) as [E10|N10]].
    + subst b. change (13 =? 13) with true in Hb13. cbv iota in Hb13.
      destruct t as [|c t']; [discriminate|]. cbn [next_is_lf] in Hb13.
      assert (c = 10) by lia. subst c.
      cbn [wf_bytes forallb] in Hwt. apply andb_true_iff in Hwt. destruct Hwt as [_ Hwt].
      cbn [no_bare_cr] in Hnt. apply andb_true_iff in Hnt. destruct Hnt as [_ Hnt].
      destruct (rt_step_crlf st d H Hcr) as [H1 H2]. cbn [fold_left].
      assert (length t' <= n)%nat as Hn' by (cbn [length] in Hn; lia).
      pose proof (IH t' _ _ Hn' H1 H2 Hwt Hnt) as Hi.
      rewrite <- app_assoc in Hi. exact Hi.
    + subst b. destruct (rt_step_lf st d H Hcr) as [H1 H2].
      assert (length t <= n)%nat as Hn' by lia.
      pose proof (IH t _ _ Hn' H1 H2 Hwt Hnt) as Hi.
      rewrite <- app_assoc in Hi. exact Hi.
    + assert (b < 256) as Hb' by lia.
      destruct (rt_step_plain st d b H Hcr Hb' N10 N13) as [H1 H2].
      assert (length t <= n)%nat as Hn' by lia.
      pose proof (IH t _ _ Hn' H1 H2 Hwt Hnt) as Hi.
      rewrite <- app_assoc in Hi. rewrite canon_plain by assumption. exact Hi.
Qed.

Lemma qp_body_state : forall content,
  qp_body content = qout (qp_close (fold_left qp_step content qp_init)).
Proof. reflexivity. Qed.

(* ---------- the theorems ---------- *)
(* Text with CRLF or LF line breaks survives quoted-printable encoding by the writer and decoding
   per RFC 2045 exactly, up to the canonical form of its line breaks.  The writer leaves a final
   unterminated line unterminated and the decoder adds no line break after the last piece, so no
   tail is needed. *)
Theorem qp_body_roundtrip : forall content,
  wf_bytes content = true -> no_bare_cr content = true ->
  qp_decode (qp_body content) = Some (canon_crlf content).
Proof.
  intros content Hwf Hnb. rewrite qp_body_state. apply rt_close.
  exact (rt_main (length content) content qp_init [] (le_n _) rt_init eq_refl Hwf Hnb).
Qed.

(* the same when the reader sees the body followed by the CRLF the message writer appends *)
Theorem qp_body_roundtrip_crlf : forall content,
  wf_bytes content = true -> no_bare_cr content = true ->
  qp_decode (qp_body content ++ crlf) = Some (canon_crlf content ++ crlf).
Proof.
  intros content Hwf Hnb. rewrite qp_body_state.
  apply (rt_close_crlf _ (canon_crlf content)).
  exact (rt_main (length content) content qp_init [] (le_n _) rt_init eq_refl Hwf Hnb).
Qed.

(* however the producer chunks its writes *)
Theorem qp_roundtrip_chunked : forall chunks,
  wf_bytes (concat chunks) = true -> no_bare_cr (concat chunks) = true ->
  qp_decode (qp_run chunks) = Some (canon_crlf (concat chunks)).
Proof. intros chunks Hwf Hnb. rewrite qp_chunk_independent. now apply qp_body_roundtrip. Qed.

(* The hypothesis is needed: Go's quotedprintable.Writer keeps its pending-CR flag across an
   encoded byte (encode does not clear w.cr), so in CR <byte >= 128> LF the LF is swallowed.
   A stdlib quirk on input that is not CRLF/LF text; outside the property's quantifier. *)
Theorem qp_bare_cr_refuted : exists c,
  wf_bytes c = true /\ qp_decode (qp_body c) <> Some (canon_crlf c).
Proof. exists [13; 195; 10]. split; [reflexivity|]. vm_compute. discriminate. Qed.

(* the hypotheses are satisfiable / the decoder is not vacuous *)
Example qp_roundtrip_example :
  qp_decode (qp_body [97; 32; 10; 61; 195; 13; 10; 98; 9]) = Some [97; 32; 13; 10; 61; 195; 13; 10; 98; 9].
Proof. reflexivity. Qed.
