(* Rendering neither consumes nor alters the message: resolving an already rendered message
   yields the same resolution, hence identical behaviour of every later render (C11). *)
From Coq Require Import String.
From Verif Require Import Bytes Base64 LineBreaker QP HeaderFold WordEnc Writer.
From VerifGen Require Import Gen.
From VerifProofs Require Import WordEncProofs.
From Coq Require Import Lia ZifyBool ZifyNat ZifyN.
Open Scope nat_scope.

Lemma bytes_eqb_refl : forall a, bytes_eqb a a = true.
Proof. induction a as [|x a IH]; cbn; [reflexivity|]. now rewrite N.eqb_refl, IH. Qed.

Lemma bytes_eqb_eq : forall a b, bytes_eqb a b = true -> a = b.
Proof.
  induction a as [|x a IH]; intros [|y b] H; cbn in H; try discriminate; [reflexivity|].
  apply andb_true_iff in H. destruct H as [H1 H2]. apply N.eqb_eq in H1. subst. f_equal. now apply IH.
Qed.

Lemma bytes_eqb_sym : forall a b, bytes_eqb a b = bytes_eqb b a.
Proof.
  induction a as [|x a IH]; intros [|y b]; cbn; try reflexivity. now rewrite N.eqb_sym, IH.
Qed.

(* ---- generic headers: add_defaults is idempotent ---- *)
Definition first_val (k : bytes) (l : list (bytes * list bytes)) : option (list bytes) :=
  match find (fun kv => bytes_eqb (fst kv) k) l with Some kv => Some (snd kv) | None => None end.

Lemma has_key_set_gen_same : forall k v l, has_key k (set_gen k v l) = true.
Proof.
  intros k v l. unfold has_key. induction l as [|h t IH]; cbn.
  - now rewrite bytes_eqb_refl.
  - destruct (bytes_eqb (fst h) k) eqn:E; cbn; [now rewrite bytes_eqb_refl|]. now rewrite E.
Qed.

Lemma has_key_set_gen_other : forall k k' v l, has_key k l = true -> has_key k (set_gen k' v l) = true.
Proof.
  intros k k' v l. unfold has_key. induction l as [|h t IH]; cbn; [discriminate|].
  intros H. destruct (bytes_eqb (fst h) k') eqn:E; cbn.
  - apply orb_true_iff in H. destruct H as [H|H].
    + apply bytes_eqb_eq in E. apply bytes_eqb_eq in H. rewrite <- E, H. now rewrite bytes_eqb_refl.
    + rewrite H. apply orb_true_r.
  - apply orb_true_iff in H. destruct H as [H|H]; [now rewrite H|]. rewrite (IH H). apply orb_true_r.
Qed.

Lemma first_val_set_gen_same : forall k v l, first_val k (set_gen k v l) = Some v.
Proof.
  intros k v l. unfold first_val. induction l as [|h t IH]; cbn.
  - now rewrite bytes_eqb_refl.
  - destruct (bytes_eqb (fst h) k) eqn:E; cbn; [now rewrite bytes_eqb_refl|]. now rewrite E.
Qed.

Lemma first_val_set_gen_other : forall k k' v l,
  bytes_eqb k' k = false -> first_val k (set_gen k' v l) = first_val k l.
Proof.
  intros k k' v l Hne. unfold first_val. induction l as [|h t IH]; cbn.
  - now rewrite Hne.
  - destruct (bytes_eqb (fst h) k') eqn:E; cbn.
    + rewrite Hne. apply bytes_eqb_eq in E. rewrite E, Hne. reflexivity.
    + destruct (bytes_eqb (fst h) k); [reflexivity|exact IH].
Qed.

Lemma set_gen_same : forall k v l, first_val k l = Some v -> set_gen k v l = l.
Proof.
  intros k v l. unfold first_val. induction l as [|[hk hv] t IH]; cbn; [discriminate|].
  destruct (bytes_eqb hk k) eqn:E; cbn.
  - intros H. inversion H; subst. apply bytes_eqb_eq in E. now subst.
  - intros H. now rewrite IH.
Qed.

Lemma add_defaults_idem : forall d1 i1 d2 i2 m,
  add_defaults d2 i2 (with_gen m (add_defaults d1 i1 m)) = add_defaults d1 i1 m.
Proof.
  intros d1 i1 d2 i2 m.
  set (G := add_defaults d1 i1 m).
  assert (HD : has_key (bs "Date") G = true /\ has_key (bs "Message-ID") G = true /\
               first_val (fst mime_version_hdr) G = Some (snd mime_version_hdr) /\
               (has_key (bs "User-Agent") G || has_key (bs "X-Mailer") G = true)).
  { unfold G, add_defaults.
    set (g0 := m_gen m).
    set (g1 := if has_key (bs "Date") g0 then g0 else set_gen (bs "Date") [d1] g0).
    assert (H1 : has_key (bs "Date") g1 = true).
    { unfold g1. destruct (has_key (bs "Date") g0) eqn:E; [exact E|apply has_key_set_gen_same]. }
    set (g2 := if has_key (bs "Message-ID") g1 then g1 else set_gen (bs "Message-ID") [i1] g1).
    assert (H2a : has_key (bs "Date") g2 = true).
    { unfold g2. destruct (has_key (bs "Message-ID") g1); [exact H1|now apply has_key_set_gen_other]. }
    assert (H2b : has_key (bs "Message-ID") g2 = true).
    { unfold g2. destruct (has_key (bs "Message-ID") g1) eqn:E; [exact E|apply has_key_set_gen_same]. }
    set (g3 := set_gen (fst mime_version_hdr) (snd mime_version_hdr) g2).
    assert (H3a : has_key (bs "Date") g3 = true) by (now apply has_key_set_gen_other).
    assert (H3b : has_key (bs "Message-ID") g3 = true) by (now apply has_key_set_gen_other).
    assert (H3c : first_val (fst mime_version_hdr) g3 = Some (snd mime_version_hdr)) by (apply first_val_set_gen_same).
    destruct (has_key (bs "User-Agent") g3 || has_key (bs "X-Mailer") g3) eqn:EU.
    - auto.
    - split; [|split; [|split]].
      + now apply has_key_set_gen_other, has_key_set_gen_other.
      + now apply has_key_set_gen_other, has_key_set_gen_other.
      + rewrite first_val_set_gen_other by reflexivity. rewrite first_val_set_gen_other by reflexivity. exact H3c.
      + rewrite has_key_set_gen_same. apply orb_true_r. }
  destruct HD as (HDa & HDb & HDc & HDd).
  unfold add_defaults at 1. cbn [m_gen with_gen]. fold G.
  rewrite HDa, HDb. rewrite (set_gen_same _ _ _ HDc). rewrite HDd. reflexivity.
Qed.

(* ---- file header caches ---- *)
Lemma lookup_set_kv_same : forall k v h, lookup k (set_kv k v h) = Some v.
Proof.
  intros k v h. unfold lookup. induction h as [|[hk hv] t IH]; cbn.
  - now rewrite bytes_eqb_refl.
  - destruct (bytes_eqb hk k) eqn:E; cbn; [now rewrite bytes_eqb_refl|]. rewrite E. exact IH.
Qed.

Lemma lookup_set_kv_other : forall k k' v h,
  bytes_eqb k' k = false -> lookup k (set_kv k' v h) = lookup k h.
Proof.
  intros k k' v h Hne. unfold lookup. induction h as [|[hk hv] t IH]; cbn.
  - now rewrite Hne.
  - destruct (bytes_eqb hk k') eqn:E; cbn.
    + rewrite Hne. apply bytes_eqb_eq in E. subst. now rewrite Hne.
    + destruct (bytes_eqb hk k); [reflexivity|exact IH].
Qed.

Lemma get_h_set_kv_same : forall k v h, v <> [] -> get_h k (set_kv k v h) = Some v.
Proof. intros k v h Hv. unfold get_h. rewrite lookup_set_kv_same. destruct v; [congruence|reflexivity]. Qed.

Lemma get_h_set_kv_other : forall k k' v h, bytes_eqb k' k = false -> get_h k (set_kv k' v h) = get_h k h.
Proof. intros k k' v h Hne. unfold get_h. now rewrite lookup_set_kv_other. Qed.

Lemma get_h_some_nonempty : forall k h w, get_h k h = Some w -> w <> [].
Proof. intros k h w H. unfold get_h in H. destruct (lookup k h) as [[|x l]|]; inversion H; discriminate. Qed.

Lemma ensure_get_same : forall k v h, v <> [] ->
  get_h k (ensure k v h) = Some (match get_h k h with Some w => w | None => v end).
Proof.
  intros k v h Hv. unfold ensure. destruct (get_h k h) as [w|] eqn:E; [exact E|].
  now apply get_h_set_kv_same.
Qed.

Lemma ensure_get_other : forall k k' v h, bytes_eqb k' k = false -> get_h k (ensure k' v h) = get_h k h.
Proof.
  intros k k' v h Hne. unfold ensure. destruct (get_h k' h); [reflexivity|]. now apply get_h_set_kv_other.
Qed.

Lemma ensure_id : forall k v h w, get_h k h = Some w -> ensure k v h = h.
Proof. intros k v h w H. unfold ensure. now rewrite H. Qed.

Lemma word_encode_nonempty : forall e s, s <> [] -> word_encode e s <> [].
Proof.
  intros e s Hs. unfold word_encode. destruct (needs_encoding s); [|exact Hs].
  unfold encode_word, open_word. cbn. discriminate.
Qed.

Definition enc_canon (e : enc) : Prop := enc_name e <> [] /\ enc_of_name (enc_name e) = e.

Definition wenc_ok (w : N) : Prop := w = 113%N \/ w = 98%N.

Definition file_enc_ok (f : file) : Prop :=
  match f_enc f with Some e => enc_canon e | None => True end /\
  wf_bytes (f_name f) = true /\
  (forall v, get_h h_cid (f_hdr f) = Some v -> wf_bytes v = true).

(* obligation on the source-derived encoding names *)
Lemma gen_enc_b64_canon : enc_canon EncB64.
Proof. split; [vm_compute; discriminate|vm_compute; reflexivity]. Qed.

Lemma app_lit_nonempty : forall (a : bytes) x b, a ++ x :: b <> [].
Proof. intros [|y a] x b; discriminate. Qed.

Lemma set_kv_same : forall k v h, lookup k h = Some v -> set_kv k v h = h.
Proof.
  intros k v h. unfold lookup. induction h as [|[hk hv] t IH]; cbn; [discriminate|].
  destruct (bytes_eqb hk k) eqn:E; cbn.
  - intros H. inversion H; subst. apply bytes_eqb_eq in E. now subst.
  - intros H. now rewrite IH.
Qed.

Lemma get_h_lookup : forall k h v, get_h k h = Some v -> lookup k h = Some v.
Proof. intros k h v H. unfold get_h in H. destruct (lookup k h) as [[|x l]|]; inversion H; reflexivity. Qed.

Lemma reencode_get_other : forall k k' w h, bytes_eqb k' k = false -> get_h k (reencode k' w h) = get_h k h.
Proof.
  intros k k' w h Hne. unfold reencode. destruct (get_h k' h); [|reflexivity]. now apply get_h_set_kv_other.
Qed.

Lemma reencode_get_same : forall k w h v, get_h k h = Some v ->
  get_h k (reencode k w h) = Some (word_encode w v).
Proof.
  intros k w h v H. unfold reencode. rewrite H. apply get_h_set_kv_same.
  apply word_encode_nonempty. now apply get_h_some_nonempty in H.
Qed.

Lemma reencode_none : forall k w h, get_h k h = None -> reencode k w h = h.
Proof. intros k w h H. unfold reencode. now rewrite H. Qed.

Lemma reencode_fix : forall k w h v,
  get_h k h = Some v -> word_encode w v = v -> reencode k w h = h.
Proof.
  intros k w h v H Hw. unfold reencode. rewrite H, Hw. apply set_kv_same. now apply get_h_lookup.
Qed.

Lemma sanitize_wf : forall s, wf_bytes s = true -> wf_bytes (sanitize s) = true.
Proof.
  unfold wf_bytes, sanitize. induction s as [|b t IH]; cbn [map forallb]; [reflexivity|].
  intros H. apply andb_true_iff in H. destruct H as [Hb Ht]. rewrite (IH Ht), andb_true_r.
  destruct (Gen.sanitize_bad b); [reflexivity|exact Hb].
Qed.

Lemma wf_bytes_app : forall a b, wf_bytes a = true -> wf_bytes b = true -> wf_bytes (a ++ b) = true.
Proof. intros a b Ha Hb. unfold wf_bytes in *. now rewrite forallb_app, Ha, Hb. Qed.

Lemma file_hdrs_idem : forall w a f,
  wenc_ok w -> file_enc_ok f ->
  file_hdrs w a (with_hdr f (fst (file_hdrs w a f))) = file_hdrs w a f.
Proof.
  intros w a f Hw (Hok & Hname & Hcidwf). unfold file_hdrs. cbn [f_hdr f_name f_mime f_enc f_desc with_hdr fst].
  set (V1 := f_mime f ++ bs "; name=" ++ bs """" ++ word_encode w (sanitize (f_name f)) ++ bs """").
  set (h1 := ensure h_ctype V1 (f_hdr f)).
  set (e := file_enc f h1).
  set (h2 := ensure h_cte (enc_name e) h1).
  set (V4 := (if a then bs "attachment" else bs "inline") ++ bs "; filename=" ++ bs """" ++ word_encode w (sanitize (f_name f)) ++ bs """").
  set (V5 := bs "<" ++ sanitize (f_name f) ++ bs ">").
  assert (HV1 : V1 <> []) by (unfold V1; cbn; apply app_lit_nonempty).
  assert (HV4 : V4 <> []) by (unfold V4; destruct a; cbn; discriminate).
  assert (HV5 : V5 <> []) by (unfold V5; cbn; discriminate).
  assert (HV5wf : wf_bytes V5 = true).
  { unfold V5. apply wf_bytes_app; [reflexivity|]. apply wf_bytes_app; [now apply sanitize_wf|reflexivity]. }
  assert (He : enc_canon e).
  { unfold e, file_enc. destruct (get_h h_cte h1) as [v|] eqn:E.
    - split.
      + unfold enc_of_name. repeat match goal with |- context [if ?c then _ else _] => destruct c eqn:? end;
        cbn; try (vm_compute; discriminate). now apply get_h_some_nonempty in E.
      + unfold enc_of_name.
        destruct (bytes_eqb v Gen.enc_qp) eqn:E1; [reflexivity|].
        destruct (bytes_eqb v Gen.enc_b64) eqn:E2; [reflexivity|].
        destruct (bytes_eqb v Gen.enc_none) eqn:E3; [reflexivity|].
        cbn [enc_name]. now rewrite E1, E2, E3.
    - destruct (f_enc f) as [e0|]; [exact Hok|exact gen_enc_b64_canon]. }
  destruct He as [Hne Hcanon].
  set (h3 := match f_desc f with [] => h2 | d => ensure h_cdesc (word_encode w d) h2 end).
  set (h4 := ensure h_cdisp V4 h3).
  set (h5 := if a then h4 else ensure h_cid V5 h4).
  set (h6 := reencode h_cid w h5).
  (* facts about the final cache *)
  assert (G1 : exists x, get_h h_ctype h6 = Some x).
  { unfold h6. rewrite reencode_get_other by reflexivity.
    unfold h5. destruct a; [|rewrite ensure_get_other by reflexivity];
    unfold h4; rewrite ensure_get_other by reflexivity;
    unfold h3; (destruct (f_desc f); [|rewrite ensure_get_other by reflexivity]);
    unfold h2; rewrite ensure_get_other by reflexivity;
    unfold h1; rewrite ensure_get_same by exact HV1; eauto. }
  assert (G2 : get_h h_cte h6 = Some (match get_h h_cte h1 with Some v => v | None => enc_name e end)).
  { unfold h6. rewrite reencode_get_other by reflexivity.
    unfold h5. destruct a; [|rewrite ensure_get_other by reflexivity];
    unfold h4; rewrite ensure_get_other by reflexivity;
    unfold h3; (destruct (f_desc f); [|rewrite ensure_get_other by reflexivity]);
    unfold h2; now rewrite ensure_get_same by exact Hne. }
  assert (G3 : f_desc f <> [] -> exists x, get_h h_cdesc h6 = Some x).
  { intros Hd. unfold h6. rewrite reencode_get_other by reflexivity.
    unfold h5. destruct a; [|rewrite ensure_get_other by reflexivity];
    unfold h4; rewrite ensure_get_other by reflexivity;
    unfold h3; (destruct (f_desc f) as [|d0 dr] eqn:Ed; [congruence|]);
    rewrite ensure_get_same by (apply word_encode_nonempty; discriminate); eauto. }
  assert (G4 : exists x, get_h h_cdisp h6 = Some x).
  { unfold h6. rewrite reencode_get_other by reflexivity.
    unfold h5. destruct a; [|rewrite ensure_get_other by reflexivity];
    unfold h4; rewrite ensure_get_same by exact HV4; eauto. }
  (* the Content-ID entry of the final cache is a fixpoint of the encoder *)
  assert (Hcid0 : get_h h_cid h4 = get_h h_cid (f_hdr f)).
  { unfold h4; rewrite ensure_get_other by reflexivity;
    unfold h3; (destruct (f_desc f); [|rewrite ensure_get_other by reflexivity]);
    unfold h2; rewrite ensure_get_other by reflexivity;
    unfold h1; now rewrite ensure_get_other by reflexivity. }
  assert (G5 : (get_h h_cid h6 = None /\ get_h h_cid h5 = None /\ a = true) \/
               (exists v, get_h h_cid h6 = Some v /\ word_encode w v = v)).
  { destruct (get_h h_cid h5) as [v5|] eqn:E5.
    - right. exists (word_encode w v5). split; [unfold h6; now apply reencode_get_same|].
      apply word_encode_idem; [exact Hw|].
      unfold h5 in E5. destruct a.
      + rewrite Hcid0 in E5. now apply Hcidwf.
      + rewrite ensure_get_same in E5 by exact HV5. rewrite Hcid0 in E5.
        destruct (get_h h_cid (f_hdr f)) as [u|] eqn:Eu; inversion E5; subst; [now apply Hcidwf|exact HV5wf].
    - left. split; [unfold h6; now rewrite reencode_none|]. split; [reflexivity|].
      unfold h5 in E5. destruct a; [reflexivity|]. rewrite ensure_get_same in E5 by exact HV5. discriminate. }
  (* second pass *)
  destruct G1 as [x1 G1]. rewrite (ensure_id _ V1 _ _ G1).
  assert (Ee : file_enc f h6 = e).
  { unfold file_enc at 1. rewrite G2. destruct (get_h h_cte h1) as [v|] eqn:E.
    - unfold e, file_enc. now rewrite E.
    - exact Hcanon. }
  change (file_enc (with_hdr f h6) h6) with (file_enc f h6).
  rewrite Ee. rewrite (ensure_id _ (enc_name e) _ _ G2).
  destruct G4 as [x4 G4].
  assert (H3 : match f_desc f with [] => h6 | d => ensure h_cdesc (word_encode w d) h6 end = h6).
  { destruct (f_desc f) as [|d0 dr] eqn:Ed; [reflexivity|].
    destruct (G3 ltac:(discriminate)) as [x3 G3']. now rewrite (ensure_id _ _ _ _ G3'). }
  rewrite H3. rewrite (ensure_id _ V4 _ _ G4).
  destruct G5 as [(N6 & N5 & Ha)|(v & S6 & Hfix)].
  - subst a. now rewrite (reencode_none _ _ _ N6).
  - destruct a.
    + now rewrite (reencode_fix _ _ _ _ S6 Hfix).
    + rewrite (ensure_id _ V5 _ _ S6). now rewrite (reencode_fix _ _ _ _ S6 Hfix).
Qed.

Lemma file_headers_idem : forall w a f,
  wenc_ok w -> file_enc_ok f -> file_headers w a (fst (file_headers w a f)) = file_headers w a f.
Proof.
  intros w a f Hw Hok. unfold file_headers at 1 2. cbn [fst].
  pose proof (file_hdrs_idem w a f Hw Hok) as H.
  unfold file_headers. rewrite H. reflexivity.
Qed.

Lemma map_file_headers_idem : forall w a files,
  wenc_ok w -> Forall file_enc_ok files ->
  map (file_headers w a) (map fst (map (file_headers w a) files)) = map (file_headers w a) files.
Proof.
  intros w a files Hw H. induction H as [|f r Hf Hr IH]; cbn [map]; [reflexivity|].
  now rewrite file_headers_idem, IH.
Qed.

Lemma pick_boundary_cached : forall b rb, boundary_valid b = true -> pick_boundary b rb = (b, false).
Proof.
  intros b rb H. unfold pick_boundary. destruct b as [|x t]; [cbn in H; discriminate|]. now rewrite H.
Qed.

Definition files_ok (m : msg) : Prop := wenc_ok (m_wenc m) /\ Forall file_enc_ok (m_embeds m) /\ Forall file_enc_ok (m_attach m).

(* the render used well-formed boundaries and SetBoundary did not fail *)
Definition clean (z : rmsg) : Prop :=
  z_bad_mixed z = false /\ z_bad_related z = false /\ z_bad_alt z = false /\
  (has_mixed (z_msg z) = true -> boundary_valid (m_bmixed (z_msg z)) = true) /\
  (has_related (z_msg z) = true -> boundary_valid (m_brelated (z_msg z)) = true) /\
  (has_alt (z_msg z) = true -> boundary_valid (m_balt (z_msg z)) = true).

Lemma add_defaults_gen_only : forall d i m m', m_gen m' = m_gen m -> add_defaults d i m' = add_defaults d i m.
Proof. intros d i m m' H. unfold add_defaults. now rewrite H. Qed.

Theorem resolve_idem : forall d1 i1 rb1 d2 i2 rb2 m,
  files_ok m -> clean (resolve d1 i1 rb1 m) ->
  resolve d2 i2 rb2 (z_msg (resolve d1 i1 rb1 m)) = resolve d1 i1 rb1 m.
Proof.
  intros d1 i1 rb1 d2 i2 rb2 m (Hw & Hfe & Hfa) Hclean.
  unfold resolve in *.
  destruct (if has_mixed m then pick_boundary (m_bmixed m) (nth_rb 0 rb1) else (m_bmixed m, false)) as [bm badm] eqn:Em.
  destruct (if has_related m then pick_boundary (m_brelated m) (nth_rb (if has_mixed m then 1 else 0) rb1) else (m_brelated m, false)) as [br badr] eqn:Er.
  destruct (if has_alt m then pick_boundary (m_balt m) (nth_rb ((if has_mixed m then 1 else 0) + (if has_related m then 1 else 0)) rb1) else (m_balt m, false)) as [ba bada] eqn:Ea.
  cbn [z_msg z_bad_mixed z_bad_related z_bad_alt] in *.
  destruct Hclean as (C1 & C2 & C3 & C4 & C5 & C6). cbn in C1, C2, C3. subst badm badr bada.
  set (G := add_defaults d1 i1 m) in *.
  set (M1 := mkmsg _ _ G _ _ _ _ _ _ bm br ba) in *.
  assert (HG : add_defaults d2 i2 M1 = G).
  { rewrite (add_defaults_gen_only d2 i2 (with_gen m G) M1 eq_refl). apply add_defaults_idem. }
  assert (Hmx : has_mixed M1 = has_mixed m) by (unfold has_mixed, M1; cbn; now rewrite !map_length).
  assert (Hrl : has_related M1 = has_related m) by (unfold has_related, M1; cbn; now rewrite !map_length).
  assert (Hal : has_alt M1 = has_alt m) by reflexivity.
  rewrite HG, Hmx, Hrl, Hal.
  cbn [m_bmixed m_brelated m_balt m_wenc m_embeds m_attach m_charset m_preform m_from m_addr m_parts M1].
  cbn [z_msg] in C4, C5, C6. rewrite Hmx in C4. rewrite Hrl in C5. rewrite Hal in C6. cbn [m_bmixed m_brelated m_balt M1] in C4, C5, C6.
  assert (Pm : (if has_mixed m then pick_boundary bm (nth_rb 0 rb2) else (bm, false)) = (bm, false)).
  { destruct (has_mixed m); [|reflexivity]. now apply pick_boundary_cached, C4. }
  assert (Pr : (if has_related m then pick_boundary br (nth_rb (if has_mixed m then 1 else 0) rb2) else (br, false)) = (br, false)).
  { destruct (has_related m); [|reflexivity]. now apply pick_boundary_cached, C5. }
  assert (Pa : (if has_alt m then pick_boundary ba (nth_rb ((if has_mixed m then 1 else 0) + (if has_related m then 1 else 0)) rb2) else (ba, false)) = (ba, false)).
  { destruct (has_alt m); [|reflexivity]. now apply pick_boundary_cached, C6. }
  rewrite Pm, Pr, Pa.
  rewrite !map_file_headers_idem by assumption.
  reflexivity.
Qed.

(* C11: after any render (successful or failed, on any destination k1) a later render behaves
   exactly like the first one would on the same destination: same bytes, same count, same
   verdict, same message state. *)
Theorem render_repeatable : forall d1 i1 rb1 d2 i2 rb2 m k1 k,
  files_ok m -> clean (resolve d1 i1 rb1 m) ->
  write_to d2 i2 rb2 (r_msg (write_to d1 i1 rb1 m k1)) k = write_to d1 i1 rb1 m k.
Proof.
  intros d1 i1 rb1 d2 i2 rb2 m k1 k Hf Hc.
  unfold write_to, write_msg. cbn [r_msg]. now rewrite resolve_idem.
Qed.

(* any number of renders *)
Fixpoint render_many (ops : list (bytes * bytes * list bytes * sink)) (m : msg) : list result * msg :=
  match ops with
  | [] => ([], m)
  | (d, i, rb, k) :: rest =>
      let r := write_to d i rb m k in
      let '(rs, m') := render_many rest (r_msg r) in (r :: rs, m')
  end.

Theorem render_history : forall ops d1 i1 rb1 m k1,
  files_ok m -> clean (resolve d1 i1 rb1 m) ->
  let m1 := r_msg (write_to d1 i1 rb1 m k1) in
  Forall2 (fun op r => r = write_to d1 i1 rb1 m (snd op)) ops (fst (render_many ops m1)) /\
  snd (render_many ops m1) = m1.
Proof.
  induction ops as [|[[[d i] rb] k] rest IH]; intros d1 i1 rb1 m k1 Hf Hc; cbn [render_many].
  - cbn. split; [constructor|reflexivity].
  - cbn zeta.
    pose proof (render_repeatable d1 i1 rb1 d i rb m k1 k Hf Hc) as Hr.
    set (m1 := r_msg (write_to d1 i1 rb1 m k1)) in *.
    assert (Hm : r_msg (write_to d i rb m1 k) = m1).
    { rewrite Hr. unfold m1, write_to, write_msg. reflexivity. }
    rewrite Hm. specialize (IH d1 i1 rb1 m k1 Hf Hc). fold m1 in IH.
    destruct (render_many rest m1) as [rs m'] eqn:E. cbn [fst snd] in *.
    destruct IH as [IH1 IH2]. rewrite ?E in IH1, IH2. cbn [fst snd] in IH1, IH2. split; [|exact IH2].
    constructor; [cbn [snd]; exact Hr|exact IH1].
Qed.

(* Reader: draining with any sequence of buffer sizes yields the rendered buffer, then EOF *)
Fixpoint reader_drain (buf : bytes) (sizes : list nat) : bytes * bytes :=
  match sizes with
  | [] => ([], buf)
  | n :: rest => let '(got, rem) := reader_drain (skipn n buf) rest in (firstn n buf ++ got, rem)
  end.

Theorem reader_drain_spec : forall sizes buf,
  fst (reader_drain buf sizes) ++ snd (reader_drain buf sizes) = buf.
Proof.
  induction sizes as [|n rest IH]; intros buf; cbn [reader_drain]; [reflexivity|].
  specialize (IH (skipn n buf)). destruct (reader_drain (skipn n buf) rest) as [got rem]. cbn [fst snd] in *.
  rewrite <- app_assoc, IH. apply firstn_skipn.
Qed.
