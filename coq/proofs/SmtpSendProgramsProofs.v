(* SmtpSendProgramsProofs.v — other entry points of go-mail as programs over the same model functions.
   run_case (dial; SendWithSMTPClient; CloseWithSMTPClient) is the dialogue of DialAndSendWithContext, DialAndSend,
   DialWithContext + Send + Close, and — per connection — of DialToSMTPClientWithContext + SendWithSMTPClient +
   CloseWithSMTPClient.  Here: SendWithSMTPClient as a step that preserves the invariant (so any number of batches
   may follow each other on one connection), and the program  Dial; Send(ms1); Reset; Send(ms2); Close. *)
From Coq Require Import String.
From Verif Require Import Bytes Textproto SendErr RefServer SmtpSend.
From VerifProofs Require Import SmtpSendProofs SmtpSendCorollaries.
Open Scope N_scope.

(* nil entries: the results stay aligned with the batch; a nil entry reports nothing; the results of the messages
   that exist are exactly those of the run without the nil entries *)
Fixpoint pick (oms : list (option msg)) (rs : list mres) : list mres :=
  match oms, rs with
  | None :: t, _ :: rt => pick t rt
  | Some _ :: t, r :: rt => r :: pick t rt
  | _, _ => []
  end.

Lemma align_spec : forall oms rs, length rs = length (somes oms) ->
  length (align oms rs) = length oms /\
  (forall k, nth_error oms k = Some None -> nth_error (align oms rs) k = Some (mkRes None false None)) /\
  pick oms (align oms rs) = rs.
Proof.
  induction oms as [|[m|] t IH]; intros rs H.
  - destruct rs; [|discriminate]. cbn. split; [reflexivity|split; [intros k E; destruct k; discriminate|reflexivity]].
  - destruct rs as [|r rt]; [discriminate|]. cbn in H. injection H as H. destruct (IH rt H) as (L & N & P).
    cbn [align pick length]. split; [f_equal; exact L|]. split; [|f_equal; exact P].
    intros k E. destruct k; [discriminate|]. cbn in *. apply N. exact E.
  - cbn in H. destruct (IH rs H) as (L & N & P). cbn [align pick length].
    split; [f_equal; exact L|]. split; [|exact P].
    intros k E. destruct k; [reflexivity|]. cbn in *. apply N. exact E.
Qed.

Section Programs.
Variable F : fixes.
Hypothesis HF : dialogue_repaired F.
Variable cfg : config.
Variable render : msg -> list bytes * option err.

(* one SendWithSMTPClient on a connection that satisfies the invariant *)
Lemma send_batch_inv : forall ms st st' r rs,
  Inv st -> send_batch std_expects F cfg render ms st = (st', (r, rs)) ->
  Inv st' /\ w_commits (snd st') = w_commits (snd st) ++ batch_commits render ms rs /\
  (if attempted r then Forall2 (msg_post render) ms rs else rs = untouched ms).
Proof.
  intros ms st st' r rs (HB & HR & HI) H. unfold send_batch in H.
  destruct (check_conn std_expects cfg st) as [st1 e1] eqn:Hcc.
  destruct (check_conn_spec cfg _ _ _ HB HR Hcc) as (HB1 & HR1 & HW1 & HI1 & _).
  destruct e1 as [e1|].
  - inversion H; subst. split; [split; [exact HB1|split; [exact HR1|exact (HI1 HI)]]|].
    split; [rewrite untouched_commits, app_nil_r; exact HW1|reflexivity].
  - destruct (send_msgs std_expects F cfg render ms st1) as [st2 rs2] eqn:Hs.
    destruct (send_msgs_spec F HF cfg render _ _ _ _ (conj HB1 (conj HR1 (HI1 HI))) Hs) as (Hinv2 & HW2 & HF2).
    inversion H; subst. split; [exact Hinv2|]. split; [rewrite HW2, HW1; reflexivity|].
    destruct (count_errors rs); exact HF2.
Qed.

(* Client.Reset between batches keeps the invariant *)
Lemma reset_with_inv : forall st st' e,
  Inv st -> reset_with std_expects cfg st = (st', e) -> Inv st' /\ w_commits (snd st') = w_commits (snd st).
Proof.
  intros st st' e (HB & HR & HI) H.
  destruct (reset_with_spec cfg _ _ _ HB HR HI H) as (HB' & HR' & HI' & HW). split; [split; [|split]|]; assumption.
Qed.

(* Dial; Send(ms1); Reset; Send(ms2); Close — for all scripts, capability sets, configurations, batches, renderers:
   the dialogue is legal and in step, and the commit log is exactly the acknowledged messages of both batches *)
Theorem run_two_sends_spec : forall do_reset caps caps_tls script ms1 ms2,
  let o := run_two_sends do_reset std_expects F cfg caps caps_tls script ms1 ms2 render in
  all_legal (p_world o) = true /\ all_attributed (p_world o) = true /\
  w_commits (p_world o) = batch_commits render ms1 (p_results1 o) ++ batch_commits render ms2 (p_results2 o) /\
  (if attempted (p_ret1 o) then Forall2 (msg_post render) ms1 (p_results1 o) else p_results1 o = untouched ms1) /\
  (if attempted (p_ret2 o) then Forall2 (msg_post render) ms2 (p_results2 o) else p_results2 o = untouched ms2).
Proof.
  intros do_reset caps caps_tls script ms1 ms2. unfold run_two_sends, dial_send_reset_send.
  destruct (dial std_expects F cfg (world_init caps caps_tls script)) as [w1 oc] eqn:Hd.
  destruct (dial_world_ok F HF cfg _ _ _ _ _ Hd) as [[HL HA] HC].
  destruct oc as [c|].
  - destruct (dial_spec F HF cfg _ _ _ _ _ Hd) as [Hinv _].
    destruct (send_batch std_expects F cfg render ms1 (c, w1)) as [st2 [r1 rs1]] eqn:H1.
    destruct (send_batch_inv _ _ _ _ _ Hinv H1) as (Hinv2 & HW2 & HP2).
    assert (H2' : exists st3 re, (if do_reset then reset_with std_expects cfg st2 else (st2, None)) = (st3, re) /\
                                  Inv st3 /\ w_commits (snd st3) = w_commits (snd st2)).
    { destruct do_reset.
      - destruct (reset_with std_expects cfg st2) as [st3 re] eqn:H2. exists st3, re.
        destruct (reset_with_inv _ _ _ Hinv2 H2) as (Hinv3 & HW3). auto.
      - exists st2, None. auto. }
    destruct H2' as (st3 & re & H2 & Hinv3 & HW3). rewrite H2.
    destruct (send_batch std_expects F cfg render ms2 st3) as [st4 [r2 rs2]] eqn:H3.
    destruct (send_batch_inv _ _ _ _ _ Hinv3 H3) as (Hinv4 & HW4 & HP4).
    destruct (close_with std_expects st4) as [st5 closed] eqn:H4.
    destruct (close_with_spec _ _ _ Hinv4 H4) as (HB5 & HW5).
    cbn [p_world p_results1 p_results2 p_ret1 p_ret2].
    split; [apply (b_legal _ HB5)|]. split; [apply (b_attr _ HB5)|].
    split; [rewrite HW5, HW4, HW3, HW2; cbn [snd]; rewrite HC; cbn [app]; reflexivity|].
    split; assumption.
  - cbn. split; [exact HL|]. split; [exact HA|]. rewrite !untouched_commits. split; [exact HC|]. split; reflexivity.
Qed.
Theorem run_reset_spec : forall caps caps_tls script ms1 ms2,
  let o := run_reset std_expects F cfg caps caps_tls script ms1 ms2 render in
  all_legal (p_world o) = true /\ all_attributed (p_world o) = true /\
  w_commits (p_world o) = batch_commits render ms1 (p_results1 o) ++ batch_commits render ms2 (p_results2 o) /\
  (if attempted (p_ret1 o) then Forall2 (msg_post render) ms1 (p_results1 o) else p_results1 o = untouched ms1) /\
  (if attempted (p_ret2 o) then Forall2 (msg_post render) ms2 (p_results2 o) else p_results2 o = untouched ms2).
Proof. exact (run_two_sends_spec true). Qed.

(* two Send calls racing for one dialled Client, as serialised by sendMutex: the commit log consists of complete
   messages only, whichever call comes first (the roles of ms1 and ms2 are symmetric) *)
Theorem run_serialised_spec : forall caps caps_tls script ms1 ms2,
  let o := run_serialised std_expects F cfg caps caps_tls script ms1 ms2 render in
  all_legal (p_world o) = true /\ all_attributed (p_world o) = true /\
  w_commits (p_world o) = batch_commits render ms1 (p_results1 o) ++ batch_commits render ms2 (p_results2 o) /\
  (if attempted (p_ret1 o) then Forall2 (msg_post render) ms1 (p_results1 o) else p_results1 o = untouched ms1) /\
  (if attempted (p_ret2 o) then Forall2 (msg_post render) ms2 (p_results2 o) else p_results2 o = untouched ms2).
Proof. exact (run_two_sends_spec false). Qed.
End Programs.
