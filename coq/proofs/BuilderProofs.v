(* The builder calls: every list of the message is what the calls concerning that list asked for,
   independently of all other calls; composed with the rendering theorems of C01. *)
From Verif Require Import Bytes Writer MimeTree MimeRead Render Builder.
From VerifProofs Require Import WriterProofs RenderProofs C01Proofs.
From Coq Require Import List Lia.
Import ListNotations.

Lemma apply_bop_enc : forall st o, b_enc (apply_bop st o) = b_enc st.
Proof. intros st o. destruct o; reflexivity. Qed.

Lemma apply_bop_charset : forall st o, m_charset (b_msg (apply_bop st o)) = m_charset (b_msg st).
Proof. intros st o. destruct o; reflexivity. Qed.

Lemma apply_bop_parts : forall st o,
  m_parts (b_msg (apply_bop st o)) = parts_step (b_enc st) (m_charset (b_msg st)) (m_parts (b_msg st)) o.
Proof. intros st o. destruct o; reflexivity. Qed.

Lemma apply_bop_attach : forall st o, m_attach (b_msg (apply_bop st o)) = attach_step (m_attach (b_msg st)) o.
Proof. intros st o. destruct o; reflexivity. Qed.

Lemma apply_bop_embeds : forall st o, m_embeds (b_msg (apply_bop st o)) = embeds_step (m_embeds (b_msg st)) o.
Proof. intros st o. destruct o; reflexivity. Qed.

Theorem build_parts : forall ops st, m_parts (b_msg (build st ops)) = parts_asked st ops.
Proof.
  unfold build, parts_asked. induction ops as [|o ops IH]; intros st; cbn [fold_left]; [reflexivity|].
  rewrite IH, apply_bop_enc, apply_bop_charset, apply_bop_parts. reflexivity.
Qed.

Theorem build_attach : forall ops st, m_attach (b_msg (build st ops)) = attach_asked st ops.
Proof.
  unfold build, attach_asked. induction ops as [|o ops IH]; intros st; cbn [fold_left]; [reflexivity|].
  rewrite IH, apply_bop_attach. reflexivity.
Qed.

Theorem build_embeds : forall ops st, m_embeds (b_msg (build st ops)) = embeds_asked st ops.
Proof.
  unfold build, embeds_asked. induction ops as [|o ops IH]; intros st; cbn [fold_left]; [reflexivity|].
  rewrite IH, apply_bop_embeds. reflexivity.
Qed.

(* nothing but Reset touches the headers, nothing at all touches charset, word encoder, preformatted
   headers and the boundary cache *)
Definition is_reset (o : bop) : bool := match o with BReset => true | _ => false end.

Theorem build_headers_untouched : forall ops st,
  existsb is_reset ops = false ->
  let m := b_msg st in let m' := b_msg (build st ops) in
  m_gen m' = m_gen m /\ m_from m' = m_from m /\ m_addr m' = m_addr m.
Proof.
  unfold build. induction ops as [|o ops IH]; intros st H; cbn [fold_left]; [auto|].
  cbn [existsb] in H. apply Bool.orb_false_iff in H. destruct H as [Ho H].
  specialize (IH (apply_bop st o) H). cbv zeta in *. destruct IH as (A & B & C).
  rewrite A, B, C. destruct o; cbn in Ho; try discriminate; auto.
Qed.

Theorem build_fixed_fields : forall ops st,
  let m := b_msg st in let m' := b_msg (build st ops) in
  m_charset m' = m_charset m /\ m_wenc m' = m_wenc m /\ m_preform m' = m_preform m /\
  m_bmixed m' = m_bmixed m /\ m_brelated m' = m_brelated m /\ m_balt m' = m_balt m /\ b_enc (build st ops) = b_enc st.
Proof.
  unfold build. induction ops as [|o ops IH]; intros st; cbn [fold_left]; [cbv zeta; auto 10|].
  specialize (IH (apply_bop st o)). cbv zeta in *. destruct IH as (A & B & C & D & E & F & G).
  rewrite A, B, C, D, E, F, G. destruct o; cbn; auto 10.
Qed.

(* the rendered message of any sequence of builder calls: the independent reader finds exactly the
   expected tree of the lists the calls asked for *)
Theorem build_leaves : forall (d i : bytes) (rb : list bytes) (st : bstate) (ops : list bop),
  let m := b_msg (build st ops) in
  let z := resolve d i rb m in
  (1 <= length (parts_asked st ops))%nat ->
  msg_has_failing_producer m = false ->
  no_bad_boundary z ->
  fresh_expected z = true ->
  read_tree (r_out (write_to d i rb m unlimited)) = Some (expected_tree z) /\
  m_parts m = parts_asked st ops /\ m_embeds m = embeds_asked st ops /\ m_attach m = attach_asked st ops.
Proof.
  intros d i rb st ops m z Hp Hf Hb Hfr.
  split; [|split; [apply build_parts|split; [apply build_embeds|apply build_attach]]].
  apply leaves_thm; try assumption. subst m. rewrite build_parts. exact Hp.
Qed.
