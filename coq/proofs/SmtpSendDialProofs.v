(* SmtpSendDialProofs.v — the dial prefix of the dialogue (C04): the trace only grows, its first event is the
   greeting, nothing is sent unless the greeting was read and was 220, and after a successful dial the
   client's extension map is the server's latest EHLO set (or dropped after the HELO fallback). *)
From Coq Require Import String Lia.
From Verif Require Import Bytes Textproto SendErr RefServer SmtpSend.
From VerifProofs Require Import SmtpSendProofs.
Open Scope N_scope.

(* ---------- the trace only grows ---------- *)
Definition grows (w w' : world) : Prop := exists l, w_trace w' = w_trace w ++ l.

Lemma grows_refl : forall w, grows w w.
Proof. intros w. exists []. rewrite app_nil_r. reflexivity. Qed.

Lemma grows_trans : forall a b c, grows a b -> grows b c -> grows a c.
Proof. intros a b c [l1 H1] [l2 H2]. exists (l1 ++ l2). rewrite H2, H1, app_assoc. reflexivity. Qed.

Ltac grow_here := first [exists []; cbn; rewrite app_nil_r; reflexivity | eexists; cbn; reflexivity].

Lemma deliver_grows : forall w c, grows w (fst (deliver w c)).
Proof.
  intros w c. unfold deliver. destruct (negb (s_open (w_srv w))); [apply grows_refl|].
  destruct (srv_step (w_script w) (w_srv w) c) as [[[[a b] r] lg] cm].
  destruct (s_data (w_srv w)); [destruct c|]; cbn [fst]; grow_here.
Qed.

Lemma deliver_content_grows : forall w ch, grows w (deliver_content w ch).
Proof.
  intros w ch. unfold deliver_content. destruct (negb (s_open (w_srv w))); [apply grows_refl|].
  destruct (s_data (w_srv w)); grow_here.
Qed.

Lemma read_reply_grows : forall e t st, grows (snd st) (snd (fst (read_reply e t st))).
Proof.
  intros e t [c w]. unfold read_reply. destruct (negb (c_open c)); [apply grows_refl|].
  destruct (w_queue w) as [|[tg [code tx]] q]; cbn [fst snd]; grow_here.
Qed.

Lemma close_cli_grows : forall st, grows (snd st) (snd (close_cli st)).
Proof. intros [c w]. unfold close_cli. destruct (c_open c); cbn [fst snd]; grow_here. Qed.

Lemma do_cmd_grows : forall e line st, grows (snd st) (snd (fst (do_cmd e line st))).
Proof.
  intros e line [c w]. unfold do_cmd. destruct (negb (c_open c)); [apply grows_refl|].
  set (w1 := if c_dot c then fst (deliver w CEod) else w).
  assert (G1 : grows w w1) by (unfold w1; destruct (c_dot c); [apply deliver_grows|apply grows_refl]).
  pose proof (deliver_grows w1 line) as G2.
  destruct (deliver w1 line) as [w2 [tag|]]; cbn [fst snd] in *.
  - eapply grows_trans; [exact G1|]. eapply grows_trans; [exact G2|].
    apply (read_reply_grows e tag (set_dot c false, w2)).
  - eapply grows_trans; eassumption.
Qed.

Section Grow.
Variable X : expects.
Variable F : fixes.
Variable cfg : config.
Variable render : msg -> list bytes * option err.

Ltac grow_chain :=
  repeat match goal with
  | |- grows ?a ?a => apply grows_refl
  | H : grows ?a ?b |- grows ?a ?c => (eapply grows_trans; [exact H|]); clear H
  end.

Lemma do_data_grows : forall st, grows (snd st) (snd (fst (do_data X st))).
Proof.
  intros st. unfold do_data. pose proof (do_cmd_grows (x_data X) CData st) as G.
  destruct (do_cmd (x_data X) CData st) as [[c w] [cd t|e]]; exact G.
Qed.

Lemma dc_write_grows : forall st ch, grows (snd st) (snd (dc_write st ch)).
Proof.
  intros [c w] ch. unfold dc_write. destruct (c_open c && c_dot c); cbn; [apply deliver_content_grows|apply grows_refl].
Qed.

Lemma write_chunks_grows : forall chunks st, grows (snd st) (snd (write_chunks st chunks)).
Proof.
  induction chunks as [|ch t IH]; intros st; [apply grows_refl|].
  unfold write_chunks in *. cbn [fold_left]. eapply grows_trans; [apply dc_write_grows|apply IH].
Qed.

Lemma dc_close_grows : forall st, grows (snd st) (snd (fst (dc_close X st))).
Proof.
  intros [c w]. unfold dc_close. destruct (c_open c && c_dot c).
  - pose proof (deliver_grows w CEod) as G. destruct (deliver w CEod) as [w1 [tag|]]; cbn [fst snd] in *;
    (eapply grows_trans; [exact G|]);
    [apply (read_reply_grows (x_eod X) tag (set_dot c false, w1)) | apply (read_reply_grows (x_eod X) None (set_dot c false, w1))].
  - apply (read_reply_grows (x_eod X) None (set_dot c false, w)).
Qed.

Lemma do_quit_grows : forall st, grows (snd st) (snd (fst (do_quit X st))).
Proof.
  intros st. unfold do_quit. pose proof (do_cmd_grows (x_quit X) CQuit st) as G.
  destruct (do_cmd (x_quit X) CQuit st) as [st1 [cd t|e]]; cbn [fst snd] in *; [|exact G].
  eapply grows_trans; [exact G|apply close_cli_grows].
Qed.

Lemma check_conn_grows : forall st, grows (snd st) (snd (fst (check_conn X cfg st))).
Proof.
  intros st. unfold check_conn. destruct (negb (c_open (fst st))); [apply grows_refl|].
  destruct (cf_noop cfg); [|apply grows_refl]. unfold do_noop.
  pose proof (do_cmd_grows (x_noop X) CNoop st) as G.
  destruct (do_cmd (x_noop X) CNoop st) as [st1 [cd t|e]]; exact G.
Qed.

Lemma do_reset_grows : forall st, grows (snd st) (snd (fst (do_reset X st))).
Proof. intros st. apply do_cmd_grows. Qed.

Lemma reset_with_grows : forall st, grows (snd st) (snd (fst (reset_with X cfg st))).
Proof.
  intros st. unfold reset_with. pose proof (check_conn_grows st) as G1.
  destruct (check_conn X cfg st) as [st1 [e|]]; cbn [fst snd] in *; [exact G1|].
  pose proof (do_reset_grows st1) as G2.
  destruct (do_reset X st1) as [st2 [cd t|e]]; cbn [fst snd] in *; eapply grows_trans; eassumption.
Qed.

Lemma reset_after_grows : forall b se st, grows (snd st) (snd (fst (reset_after X b se st))).
Proof.
  intros b se st. unfold reset_after. pose proof (do_reset_grows st) as G.
  destruct (do_reset X st) as [st1 [cd t|e]]; cbn [fst snd] in *; [exact G|].
  destruct b; [|exact G]. eapply grows_trans; [exact G|apply close_cli_grows].
Qed.

Lemma rcpt_loop_grows : forall esc rcpts st acc, grows (snd st) (snd (fst (rcpt_loop X F esc rcpts st acc))).
Proof.
  intros esc rcpts. induction rcpts as [|r t IH]; intros st acc; [apply grows_refl|].
  cbn [rcpt_loop]. unfold do_rcpt at 1.
  pose proof (do_cmd_grows (x_rcpt X) (CRcpt r (rcpt_params (fst st))) st) as G.
  destruct (do_cmd (x_rcpt X) (CRcpt r (rcpt_params (fst st))) st) as [st1 [cd tx|e]]; cbn [fst snd] in *;
  (eapply grows_trans; [exact G|apply IH]).
Qed.

Lemma send_single_grows : forall m st, grows (snd st) (snd (fst (send_single X F cfg render m st))).
Proof.
  intros m st. unfold send_single.
  destruct (m_8bit m && negb (extension (fst st) E8BITMIME)); [apply grows_refl|].
  destruct (m_from m) as [from|]; [|apply grows_refl].
  destruct (m_rcpts m) as [|r0 rt]; [apply grows_refl|].
  set (st0 := if cf_dsn cfg && negb (is_nil (cf_ret cfg)) then (set_mr (fst st) (cf_ret cfg), snd st) else st).
  assert (G0 : grows (snd st) (snd st0)) by (unfold st0; destruct (cf_dsn cfg && negb (is_nil (cf_ret cfg))); apply grows_refl).
  unfold do_mail.
  pose proof (do_cmd_grows (x_mail X) (CMail from (mail_params (fst st0))) st0) as G1.
  destruct (do_cmd (x_mail X) (CMail from (mail_params (fst st0))) st0) as [st1 [c1 t1|e1]]; cbn [fst snd] in *.
  2: { match goal with |- context [reset_after X ?b ?se st1] => pose proof (reset_after_grows b se st1) as G2; destruct (reset_after X b se st1) as [st2 se2] end.
       cbn [fst snd] in *. grow_chain. }
  match goal with |- context [rcpt_loop X F ?esc ?rc ?s ?a] => pose proof (rcpt_loop_grows esc rc s a) as G2; destruct (rcpt_loop X F esc rc s a) as [st2 [se|]] end; cbn [fst snd] in *.
  { pose proof (reset_after_grows (fx_rc_rcpt F) se st2) as G3. destruct (reset_after X (fx_rc_rcpt F) se st2) as [st3 se3].
    cbn [fst snd] in *. grow_chain. }
  pose proof (do_data_grows st2) as G3. destruct (do_data X st2) as [st3 [c3 t3|e3]]; cbn [fst snd] in *.
  2: { destruct (fx_data_rset F); [|cbn; grow_chain].
       match goal with |- context [reset_after X ?b ?se st3] => pose proof (reset_after_grows b se st3) as G4; destruct (reset_after X b se st3) as [st4 se4] end.
       cbn [fst snd] in *. grow_chain. }
  pose proof (write_chunks_grows (fst (render m)) st3) as G4.
  destruct (snd (render m)) as [e|].
  { cbn [fst snd]. destruct (fx_abort F); [|grow_chain].
    pose proof (close_cli_grows (write_chunks st3 (fst (render m)))) as G5. grow_chain. }
  pose proof (dc_close_grows (write_chunks st3 (fst (render m)))) as G5.
  destruct (dc_close X (write_chunks st3 (fst (render m)))) as [st5 [c5 t5|e5]]; cbn [fst snd] in *; [|grow_chain].
  pose proof (reset_with_grows st5) as G6. destruct (reset_with X cfg st5) as [st6 [e6|]]; cbn [fst snd] in *; grow_chain.
Qed.

Lemma send_msgs_grows : forall ms st, grows (snd st) (snd (fst (send_msgs X F cfg render ms st))).
Proof.
  induction ms as [|m t IH]; intros st; [apply grows_refl|].
  cbn [send_msgs]. pose proof (send_single_grows m st) as G1.
  destruct (send_single X F cfg render m st) as [st1 r1]. specialize (IH st1).
  destruct (send_msgs X F cfg render t st1) as [st2 rs]. cbn [fst snd] in *. eapply grows_trans; eassumption.
Qed.
End Grow.

Section DialThm.
Variable F : fixes.
Variable cfg : config.
Variable render : msg -> list bytes * option err.

Lemma do_hello_grows : forall name st, grows (snd st) (snd (fst (do_hello X0 name st))).
Proof.
  intros name st. unfold do_hello.
  pose proof (do_cmd_grows (x_ehlo X0) (CEhlo name) st) as G1.
  destruct (do_cmd (x_ehlo X0) (CEhlo name) st) as [[c w] [cd t|e]]; cbn [fst snd] in *; [exact G1|].
  eapply grows_trans; [exact G1|]. apply (do_cmd_grows (x_helo X0) (CHelo name) (set_cext c None, w)).
Qed.

Lemma close_with_grows : forall st, grows (snd st) (snd (fst (close_with X0 st))).
Proof.
  intros st. unfold close_with. destruct (negb (c_open (fst st))); [apply grows_refl|].
  pose proof (do_quit_grows X0 st) as G. destruct (do_quit X0 st) as [st1 [cd t|e]]; exact G.
Qed.

Lemma send_batch_grows : forall ms st, grows (snd st) (snd (fst (send_batch X0 F cfg render ms st))).
Proof.
  intros ms st. unfold send_batch. pose proof (check_conn_grows X0 cfg st) as G1.
  destruct (check_conn X0 cfg st) as [st1 [e|]]; cbn [fst snd] in *; [exact G1|].
  pose proof (send_msgs_grows X0 F cfg render ms st1) as G2.
  destruct (send_msgs X0 F cfg render ms st1) as [st2 rs]. cbn [fst snd] in *. eapply grows_trans; eassumption.
Qed.

(* the dial dialogue: the first event is the greeting; unless it was answered 220 nothing else is ever sent *)
Lemma dial_trace : forall caps script w1 oc,
  dial X0 cfg (world_init caps script) = (w1, oc) ->
  exists ev0 rest, w_trace w1 = ev0 :: rest /\ ev_cmd ev0 = CGreet /\ ev_legal ev0 = true /\
                   (ev_code ev0 <> 220 -> rest = [] /\ oc = None).
Proof.
  intros caps script w1 oc H. unfold dial in H.
  set (w0 := world_init caps script) in *.
  rewrite deliver_cmd in H by (cbn; auto). unfold srv_step in H.
  destruct (next_decision (w_script w0)) as [d script'].
  destruct (reply_of d CGreet) as [[code text]|].
  - cbn [srv_apply] in H. cbn [w_queue w0 world_init app] in H.
    unfold read_reply in H. cbn [c_open cli_init negb w_queue x_greet X0] in H.
    destruct (expect_ok 220 code) eqn:He.
    + apply expect_220 in He. subst code.
      match type of H with context [do_hello _ _ ?st] => set (st1 := st) in H end.
      pose proof (do_hello_grows (cf_helo cfg) st1) as [l G].
      destruct (do_hello X0 (cf_helo cfg) st1) as [[c3 w3] r3]. cbn [fst snd] in G.
      assert (w1 = w3) by (destruct r3; inversion H; reflexivity). subst w3.
      unfold st1 in G. cbn [snd w_trace w0 world_init app] in G.
      eexists; exists l. split; [exact G|]. cbn. split; [reflexivity|split; [reflexivity|]]. intros C. contradiction.
    + inversion H; subst. cbn. eexists; exists []. split; [reflexivity|]. cbn. split; [reflexivity|split; [reflexivity|]]. auto.
  - cbn [w_queue w0 world_init app] in H. unfold read_reply in H. cbn in H. inversion H; subst.
    cbn. eexists; exists []. split; [reflexivity|]. cbn. split; [reflexivity|split; [reflexivity|]]. auto.
Qed.

Theorem greeting_first : forall caps script ms,
  let o := run_case X0 F cfg caps script ms render in
  exists ev0 rest, w_trace (o_world o) = ev0 :: rest /\ ev_cmd ev0 = CGreet /\
                   (ev_code ev0 <> 220 -> rest = [] /\ o_ret o = RetDial).
Proof.
  intros caps script ms. unfold run_case, dial_and_send.
  destruct (dial X0 cfg (world_init caps script)) as [w1 oc] eqn:Hd.
  destruct (dial_trace _ _ _ _ Hd) as (ev0 & rest & Ht & Hc & _ & Hn).
  destruct oc as [c|].
  - pose proof (send_batch_grows ms (c, w1)) as [l1 G1].
    destruct (send_batch X0 F cfg render ms (c, w1)) as [st2 [r rs]]. cbn [fst snd] in G1.
    pose proof (close_with_grows st2) as [l2 G2].
    destruct (close_with X0 st2) as [st3 closed]. cbn [fst snd o_world o_ret] in *.
    exists ev0, (rest ++ l1 ++ l2). split; [rewrite G2, G1, Ht, <- app_assoc; reflexivity|].
    split; [exact Hc|]. intros C. destruct (Hn C) as [_ E]. discriminate.
  - cbn. exists ev0, rest. split; [exact Ht|]. split; [exact Hc|]. intros C. destruct (Hn C) as [E _]. auto.
Qed.

(* after a successful dial the client's extension map is the set the server advertised in the EHLO it
   accepted last — or it is dropped (nil) after the HELO fallback, and then no parameter is ever attached *)
Lemma dial_ext : forall caps script w1 c,
  dial X0 cfg (world_init caps script) = (w1, Some c) ->
  s_open (w_srv w1) = true /\ s_helo (w_srv w1) = true /\
  match c_ext c with
  | Some l => l = s_ext (w_srv w1) /\ l = s_caps (w_srv w1)
  | None => s_ext (w_srv w1) = [] /\ mail_params c = [] /\ rcpt_params c = []
  end.
Proof.
  intros caps script w1 c H. unfold dial in H.
  set (w0 := world_init caps script) in *.
  rewrite deliver_cmd in H by (cbn; auto). unfold srv_step in *.
  destruct (next_decision (w_script w0)) as [d script'].
  destruct (reply_of d CGreet) as [[code text]|].
  - cbn [srv_apply] in H. cbn [w_queue w0 world_init app] in H.
    unfold read_reply in H. cbn [c_open cli_init negb w_queue x_greet X0] in H.
    destruct (expect_ok 220 code) eqn:He; [|discriminate].
    match type of H with context [do_hello _ _ ?st] => set (st1 := st) in H end.
    assert (HD1 : Dialing st1).
    { unfold st1, Dialing, srvof, all_legal, all_attributed, attr_match; cbn. repeat split; auto. }
    unfold do_hello in H. cbn [x_ehlo x_helo X0] in H.
    destruct (do_cmd 250 (CEhlo (cf_helo cfg)) st1) as [[c2 w2] r2] eqn:He2.
    destruct (hello_cmd_spec _ _ _ _ _ _ HD1 (ex_intro _ _ (or_introl eq_refl)) He2) as (HD2 & Hc2 & HOk2).
    cbn [fst] in Hc2. subst c2.
    destruct r2 as [c2 t2|e2].
    + inversion H; subst w1 c; clear H.
      destruct (HOk2 _ _ eq_refl eq_refl) as (Hso & Hh & Hx). unfold srvof in *; cbn [fst snd] in *.
      split; [exact Hso|]. split; [exact Hh|]. cbn. split; [reflexivity|].
      rewrite Hx. unfold st1. cbn.
      (* s_caps is never changed *)
      clear -He2. unfold st1 in He2.
      assert (K : s_caps (w_srv w2) = caps).
      { unfold do_cmd in He2. cbn [c_open cli_init negb c_dot] in He2.
        rewrite deliver_cmd in He2 by (cbn; auto). unfold srv_step in He2. cbn [w_script w_srv] in He2.
        destruct (next_decision script') as [d2 s2]. destruct (reply_of d2 (CEhlo (cf_helo cfg))) as [[cd tx]|].
        - cbn [srv_apply] in He2. unfold read_reply in He2. cbn in He2.
          destruct (okclass cd); destruct (expect_ok 250 cd); inversion He2; reflexivity.
        - unfold read_reply in He2. cbn in He2. inversion He2; reflexivity. }
      symmetry. exact K.
    + destruct (do_cmd 250 (CHelo (cf_helo cfg)) (set_cext cli_init None, w2)) as [[c3 w3] r3] eqn:He3.
      assert (HD2' : Dialing (set_cext cli_init None, w2)).
      { destruct HD2 as (HL & HA & HQ & Hco & Hd & HC & HS). unfold Dialing, srvof in *; cbn [fst snd] in *. repeat split; auto; apply HS; auto. }
      destruct (hello_cmd_spec _ _ _ _ _ _ HD2' (ex_intro _ _ (or_intror eq_refl)) He3) as (HD3 & Hc3 & HOk3).
      cbn [fst] in Hc3. subst c3.
      destruct r3 as [c3 t3|e3]; [|discriminate].
      inversion H; subst w1 c; clear H.
      destruct (HOk3 _ _ eq_refl eq_refl) as (Hso & Hh & Hx). unfold srvof in *; cbn [fst snd] in *.
      split; [exact Hso|]. split; [exact Hh|]. cbn. auto.
  - cbn [w_queue w0 world_init app] in H. unfold read_reply in H. cbn in H. discriminate.
Qed.
End DialThm.
