(* SmtpSendDialProofs.v — the dial prefix of the dialogue (C04): the trace only grows, its first event is the
   greeting, nothing is sent unless the greeting was read and was 220, and after a successful dial the
   client's extension map is the server's latest EHLO set (or dropped after the HELO fallback). *)
From Coq Require Import String Lia.
From Verif Require Import Bytes Textproto SendErr RefServer SmtpSend.
From VerifProofs Require Import SmtpSendProofs.
Open Scope N_scope.

(* ---------- the trace only grows ---------- *)
Definition grows (w w' : world) : Prop := exists l, w_trace w' = w_trace w ++ l.

Lemma grows_refl : forall w, grows w w.
Proof. intros w. exists []. rewrite app_nil_r. reflexivity. Qed.

Lemma grows_trans : forall a b c, grows a b -> grows b c -> grows a c.
Proof. intros a b c [l1 H1] [l2 H2]. exists (l1 ++ l2). rewrite H2, H1, app_assoc. reflexivity. Qed.

Ltac grow_here := first [exists []; cbn; rewrite app_nil_r; reflexivity | eexists; cbn; reflexivity].

Lemma deliver_grows : forall w c, grows w (fst (deliver w c)).
Proof.
  intros w c. unfold deliver. destruct (negb (s_open (w_srv w))); [apply grows_refl|].
  destruct (srv_step (w_script w) (w_srv w) c) as [[[[a b] r] lg] cm].
  destruct (s_data (w_srv w)); [destruct c|]; cbn [fst]; grow_here.
Qed.

Lemma deliver_content_grows : forall w ch, grows w (deliver_content w ch).
Proof.
  intros w ch. unfold deliver_content. destruct (negb (s_open (w_srv w))); [apply grows_refl|].
  destruct (s_data (w_srv w)); grow_here.
Qed.

Lemma read_reply_grows : forall e t st, grows (snd st) (snd (fst (read_reply e t st))).
Proof.
  intros e t [c w]. unfold read_reply. destruct (negb (c_open c)); [apply grows_refl|].
  destruct (w_queue w) as [|[tg [code tx]] q]; cbn [fst snd]; grow_here.
Qed.

Lemma close_cli_grows : forall st, grows (snd st) (snd (close_cli st)).
Proof. intros [c w]. unfold close_cli. destruct (c_open c); cbn [fst snd]; grow_here. Qed.

Lemma do_cmd_grows : forall e line st, grows (snd st) (snd (fst (do_cmd e line st))).
Proof.
  intros e line [c w]. unfold do_cmd. destruct (negb (c_open c)); [apply grows_refl|].
  set (w1 := if c_dot c then fst (deliver w CEod) else w).
  assert (G1 : grows w w1) by (unfold w1; destruct (c_dot c); [apply deliver_grows|apply grows_refl]).
  pose proof (deliver_grows w1 line) as G2.
  destruct (deliver w1 line) as [w2 [tag|]]; cbn [fst snd] in *.
  - eapply grows_trans; [exact G1|]. eapply grows_trans; [exact G2|].
    apply (read_reply_grows e tag (set_dot c false, w2)).
  - eapply grows_trans; eassumption.
Qed.

Section Grow.
Variable X : expects.
Variable F : fixes.
Variable cfg : config.
Variable render : msg -> list bytes * option err.

Ltac grow_chain :=
  repeat match goal with
  | |- grows ?a ?a => apply grows_refl
  | H : grows ?a ?b |- grows ?a ?c => (eapply grows_trans; [exact H|]); clear H
  end.

Lemma do_data_grows : forall st, grows (snd st) (snd (fst (do_data X st))).
Proof.
  intros st. unfold do_data. pose proof (do_cmd_grows (x_data X) CData st) as G.
  destruct (do_cmd (x_data X) CData st) as [[c w] [cd t|e]]; exact G.
Qed.

Lemma dc_write_grows : forall st ch, grows (snd st) (snd (dc_write st ch)).
Proof.
  intros [c w] ch. unfold dc_write. destruct (c_open c && c_dot c); cbn; [apply deliver_content_grows|apply grows_refl].
Qed.

Lemma write_chunks_grows : forall chunks st, grows (snd st) (snd (write_chunks st chunks)).
Proof.
  induction chunks as [|ch t IH]; intros st; [apply grows_refl|].
  unfold write_chunks in *. cbn [fold_left]. eapply grows_trans; [apply dc_write_grows|apply IH].
Qed.

Lemma dc_close_grows : forall st, grows (snd st) (snd (fst (dc_close X st))).
Proof.
  intros [c w]. unfold dc_close. destruct (c_open c && c_dot c).
  - pose proof (deliver_grows w CEod) as G. destruct (deliver w CEod) as [w1 [tag|]]; cbn [fst snd] in *;
    (eapply grows_trans; [exact G|]);
    [apply (read_reply_grows (x_eod X) tag (set_dot c false, w1)) | apply (read_reply_grows (x_eod X) None (set_dot c false, w1))].
  - apply (read_reply_grows (x_eod X) None (set_dot c false, w)).
Qed.

Lemma do_quit_grows : forall st, grows (snd st) (snd (fst (do_quit X st))).
Proof.
  intros st. unfold do_quit. pose proof (do_cmd_grows (x_quit X) CQuit st) as G.
  destruct (do_cmd (x_quit X) CQuit st) as [st1 [cd t|e]]; cbn [fst snd] in *; [|exact G].
  eapply grows_trans; [exact G|apply close_cli_grows].
Qed.

Lemma check_conn_grows : forall st, grows (snd st) (snd (fst (check_conn X cfg st))).
Proof.
  intros st. unfold check_conn. destruct (negb (c_open (fst st))); [apply grows_refl|].
  destruct (cf_noop cfg); [|apply grows_refl]. unfold do_noop.
  pose proof (do_cmd_grows (x_noop X) CNoop st) as G.
  destruct (do_cmd (x_noop X) CNoop st) as [st1 [cd t|e]]; exact G.
Qed.

Lemma do_reset_grows : forall st, grows (snd st) (snd (fst (do_reset X st))).
Proof. intros st. apply do_cmd_grows. Qed.

Lemma reset_with_grows : forall st, grows (snd st) (snd (fst (reset_with X cfg st))).
Proof.
  intros st. unfold reset_with. pose proof (check_conn_grows st) as G1.
  destruct (check_conn X cfg st) as [st1 [e|]]; cbn [fst snd] in *; [exact G1|].
  pose proof (do_reset_grows st1) as G2.
  destruct (do_reset X st1) as [st2 [cd t|e]]; cbn [fst snd] in *; eapply grows_trans; eassumption.
Qed.

Lemma reset_after_grows : forall b se st, grows (snd st) (snd (fst (reset_after X b se st))).
Proof.
  intros b se st. unfold reset_after. pose proof (do_reset_grows st) as G.
  destruct (do_reset X st) as [st1 [cd t|e]]; cbn [fst snd] in *; [exact G|].
  destruct b; [|exact G]. eapply grows_trans; [exact G|apply close_cli_grows].
Qed.

Lemma rcpt_loop_grows : forall esc rcpts st acc, grows (snd st) (snd (fst (rcpt_loop X F esc rcpts st acc))).
Proof.
  intros esc rcpts. induction rcpts as [|r t IH]; intros st acc; [apply grows_refl|].
  cbn [rcpt_loop]. unfold do_rcpt at 1.
  pose proof (do_cmd_grows (x_rcpt X) (CRcpt r (rcpt_params (fst st))) st) as G.
  destruct (do_cmd (x_rcpt X) (CRcpt r (rcpt_params (fst st))) st) as [st1 [cd tx|e]]; cbn [fst snd] in *;
  (eapply grows_trans; [exact G|apply IH]).
Qed.

Lemma send_single_grows : forall m st, grows (snd st) (snd (fst (send_single X F cfg render m st))).
Proof.
  intros m st. unfold send_single.
  destruct (m_8bit m && negb (extension (fst st) E8BITMIME)); [apply grows_refl|].
  destruct (m_from m) as [from|]; [|apply grows_refl].
  destruct (m_rcpts m) as [|r0 rt]; [apply grows_refl|].
  set (st0 := if cf_dsn cfg && negb (is_nil (cf_ret cfg)) then (set_mr (fst st) (cf_ret cfg), snd st) else st).
  assert (G0 : grows (snd st) (snd st0)) by (unfold st0; destruct (cf_dsn cfg && negb (is_nil (cf_ret cfg))); apply grows_refl).
  unfold do_mail.
  pose proof (do_cmd_grows (x_mail X) (CMail from (mail_params (fst st0))) st0) as G1.
  destruct (do_cmd (x_mail X) (CMail from (mail_params (fst st0))) st0) as [st1 [c1 t1|e1]]; cbn [fst snd] in *.
  2: { match goal with |- context [reset_after X ?b ?se st1] => pose proof (reset_after_grows b se st1) as G2; destruct (reset_after X b se st1) as [st2 se2] end.
       cbn [fst snd] in *. grow_chain. }
  match goal with |- context [rcpt_loop X F ?esc ?rc ?s ?a] => pose proof (rcpt_loop_grows esc rc s a) as G2; destruct (rcpt_loop X F esc rc s a) as [st2 [se|]] end; cbn [fst snd] in *.
  { pose proof (reset_after_grows (fx_rc_rcpt F) se st2) as G3. destruct (reset_after X (fx_rc_rcpt F) se st2) as [st3 se3].
    cbn [fst snd] in *. grow_chain. }
  pose proof (do_data_grows st2) as G3. destruct (do_data X st2) as [st3 [c3 t3|e3]]; cbn [fst snd] in *.
  2: { destruct (fx_data_rset F); [|cbn; grow_chain].
       match goal with |- context [reset_after X ?b ?se st3] => pose proof (reset_after_grows b se st3) as G4; destruct (reset_after X b se st3) as [st4 se4] end.
       cbn [fst snd] in *. grow_chain. }
  pose proof (write_chunks_grows (fst (render m)) st3) as G4.
  destruct (snd (render m)) as [e|].
  { cbn [fst snd]. destruct (fx_abort F); [|grow_chain].
    pose proof (close_cli_grows (write_chunks st3 (fst (render m)))) as G5. grow_chain. }
  pose proof (dc_close_grows (write_chunks st3 (fst (render m)))) as G5.
  destruct (dc_close X (write_chunks st3 (fst (render m)))) as [st5 [c5 t5|e5]]; cbn [fst snd] in *; [|grow_chain].
  pose proof (reset_with_grows st5) as G6. destruct (reset_with X cfg st5) as [st6 [e6|]]; cbn [fst snd] in *; grow_chain.
Qed.

Lemma send_msgs_grows : forall ms st, grows (snd st) (snd (fst (send_msgs X F cfg render ms st))).
Proof.
  induction ms as [|m t IH]; intros st; [apply grows_refl|].
  cbn [send_msgs]. pose proof (send_single_grows m st) as G1.
  destruct (send_single X F cfg render m st) as [st1 r1]. specialize (IH st1).
  destruct (send_msgs X F cfg render t st1) as [st2 rs]. cbn [fst snd] in *. eapply grows_trans; eassumption.
Qed.
End Grow.

Section DialThm.
Variable F : fixes.
Hypothesis HF : dialogue_repaired F.
Variable cfg : config.
Variable render : msg -> list bytes * option err.

Lemma do_ehlo_grows : forall b name st, grows (snd st) (snd (fst (do_ehlo X0 b name st))).
Proof.
  intros b name st. unfold do_ehlo.
  pose proof (do_cmd_grows (x_ehlo X0) (CEhlo name) st) as G1.
  destruct (do_cmd (x_ehlo X0) (CEhlo name) st) as [[c w] [cd t|e]]; exact G1.
Qed.

Lemma do_hello_grows : forall b name st, grows (snd st) (snd (fst (do_hello X0 b name st))).
Proof.
  intros b name st. unfold do_hello.
  pose proof (do_ehlo_grows b name st) as G1.
  destruct (do_ehlo X0 b name st) as [[c w] [cd t|e]]; cbn [fst snd] in *; [exact G1|].
  eapply grows_trans; [exact G1|]. apply (do_cmd_grows (x_helo X0) (CHelo name) (set_cext c None, w)).
Qed.

Lemma tls_step_grows : forall st, grows (snd st) (snd (fst (tls_step X0 F cfg st))).
Proof.
  intros st. unfold tls_step, do_starttls.
  assert (G : grows (snd st) (snd (fst (match
      (match do_cmd (x_starttls X0) CStartTLS st with
       | ((c, w), ROk _ _) => do_ehlo X0 (fx_ehlo_replace F) (cf_helo cfg) (set_dot c false, w)
       | r => r end) with (st1, ROk _ _) => (st1, true) | (st1, RErr _) => (st1, false) end)))).
  { pose proof (do_cmd_grows (x_starttls X0) CStartTLS st) as G1.
    destruct (do_cmd (x_starttls X0) CStartTLS st) as [[c w] [cd t|e]]; cbn [fst snd] in *.
    - pose proof (do_ehlo_grows (fx_ehlo_replace F) (cf_helo cfg) (set_dot c false, w)) as G2.
      destruct (do_ehlo X0 (fx_ehlo_replace F) (cf_helo cfg) (set_dot c false, w)) as [st2 [c2 t2|e2]];
      cbn [fst snd] in *; eapply grows_trans; eassumption.
    - exact G1. }
  destruct (cf_tls cfg); [apply grows_refl| |]; destruct (extension (fst st) ESTARTTLS); try exact G; apply grows_refl.
Qed.

Lemma close_with_grows : forall st, grows (snd st) (snd (fst (close_with X0 st))).
Proof.
  intros st. unfold close_with. destruct (negb (c_open (fst st))); [apply grows_refl|].
  pose proof (do_quit_grows X0 st) as G. destruct (do_quit X0 st) as [st1 [cd t|e]]; exact G.
Qed.

Lemma send_batch_grows : forall ms st, grows (snd st) (snd (fst (send_batch X0 F cfg render ms st))).
Proof.
  intros ms st. unfold send_batch. pose proof (check_conn_grows X0 cfg st) as G1.
  destruct (check_conn X0 cfg st) as [st1 [e|]]; cbn [fst snd] in *; [exact G1|].
  pose proof (send_msgs_grows X0 F cfg render ms st1) as G2.
  destruct (send_msgs X0 F cfg render ms st1) as [st2 rs]. cbn [fst snd] in *. eapply grows_trans; eassumption.
Qed.

(* the dial dialogue: the first event is the greeting; unless it was answered 220 nothing else is ever sent *)
Lemma dial_trace : forall caps caps_tls script w1 oc,
  dial X0 F cfg (world_init caps caps_tls script) = (w1, oc) ->
  exists ev0 rest, w_trace w1 = ev0 :: rest /\ ev_cmd ev0 = CGreet /\ ev_legal ev0 = true /\
                   (ev_code ev0 <> 220 -> rest = [] /\ oc = None).
Proof.
  intros caps caps_tls script w1 oc H. unfold dial in H.
  set (w0 := world_init caps caps_tls script) in *.
  rewrite deliver_cmd in H by (cbn; auto). unfold srv_step in H.
  destruct (next_decision (w_script w0)) as [d script'].
  destruct (reply_of d CGreet) as [[code text]|].
  - cbn [srv_apply] in H. cbn [w_queue w0 world_init app] in H.
    unfold read_reply in H. cbn [c_open cli_init negb w_queue x_greet X0] in H.
    destruct (expect_ok 220 code) eqn:He.
    + apply expect_220 in He. subst code.
      match type of H with context [do_hello _ _ _ ?st] => set (st1 := st) in H end.
      pose proof (do_hello_grows (fx_ehlo_replace F) (cf_helo cfg) st1) as [l G].
      destruct (do_hello X0 (fx_ehlo_replace F) (cf_helo cfg) st1) as [[c3 w3] r3]. cbn [fst snd] in G.
      assert (G' : exists l', w_trace w1 = w_trace (snd st1) ++ l').
      { destruct r3 as [cd t|e].
        - pose proof (tls_step_grows (c3, w3)) as [l2 G2].
          destruct (tls_step X0 F cfg (c3, w3)) as [[c4 w4] ok]. cbn [fst snd] in G2.
          exists (l ++ l2). assert (w1 = w4) by (destruct ok; inversion H; reflexivity). subst w4.
          rewrite G2, G, app_assoc. reflexivity.
        - inversion H; subst. exists l. exact G. }
      destruct G' as [l' G']. unfold st1 in G'. cbn [snd w_trace w0 world_init app] in G'.
      eexists; exists l'. split; [exact G'|]. cbn. split; [reflexivity|split; [reflexivity|]]. intros C. contradiction.
    + inversion H; subst. cbn. eexists; exists []. split; [reflexivity|]. cbn. split; [reflexivity|split; [reflexivity|]]. auto.
  - cbn [w_queue w0 world_init app] in H. unfold read_reply in H. cbn in H. inversion H; subst.
    cbn. eexists; exists []. split; [reflexivity|]. cbn. split; [reflexivity|split; [reflexivity|]]. auto.
Qed.

Theorem greeting_first : forall caps caps_tls script ms,
  let o := run_case X0 F cfg caps caps_tls script ms render in
  exists ev0 rest, w_trace (o_world o) = ev0 :: rest /\ ev_cmd ev0 = CGreet /\
                   (ev_code ev0 <> 220 -> rest = [] /\ o_ret o = RetDial).
Proof.
  intros caps caps_tls script ms. unfold run_case, dial_and_send.
  destruct (dial X0 F cfg (world_init caps caps_tls script)) as [w1 oc] eqn:Hd.
  destruct (dial_trace _ _ _ _ _ Hd) as (ev0 & rest & Ht & Hc & _ & Hn).
  destruct oc as [c|].
  - pose proof (send_batch_grows ms (c, w1)) as [l1 G1].
    destruct (send_batch X0 F cfg render ms (c, w1)) as [st2 [r rs]]. cbn [fst snd] in G1.
    pose proof (close_with_grows st2) as [l2 G2].
    destruct (close_with X0 st2) as [st3 closed]. cbn [fst snd o_world o_ret] in *.
    exists ev0, (rest ++ l1 ++ l2). split; [rewrite G2, G1, Ht, <- app_assoc; reflexivity|].
    split; [exact Hc|]. intros C. destruct (Hn C) as [_ E]. discriminate.
  - cbn. exists ev0, rest. split; [exact Ht|]. split; [exact Hc|]. intros C. destruct (Hn C) as [E _]. auto.
Qed.

(* EVERY accepted EHLO replaces the client's extension map by the set this reply advertises (also by the empty
   set); whatever the map was before.  Sessions with any number of EHLOs are compositions of this step: the
   dial below has the EHLO of hello() and, after STARTTLS, the EHLO of StartTLS. *)
Theorem every_ehlo_replaces : forall name c w st' code text,
  Dialing (c, w) -> do_ehlo X0 true name (c, w) = (st', ROk code text) ->
  c_ext (fst st') = Some (s_ext (srvof st')) /\
  s_ext (srvof st') = (if s_tls (w_srv w) then s_caps_tls (w_srv w) else s_caps (w_srv w)).
Proof.
  intros name c w st' code text HD H.
  destruct (do_ehlo_spec name c w st' (ROk code text) HD H) as (_ & (Hso & Hh & Hm) & Ht & Hc & Hct).
  destruct (c_ext (fst st')) as [l|] eqn:E.
  - destruct Hm as [E1 E2]. rewrite <- E1. split; [reflexivity|]. rewrite E2, Ht, Hc, Hct. reflexivity.
  - exfalso. unfold do_ehlo in H. destruct (do_cmd (x_ehlo X0) (CEhlo name) (c, w)) as [[c1 w1] [cd t|e]]; inversion H; subst.
    cbn in E. destruct c1; cbn in E. discriminate.
Qed.

(* after a successful dial — with or without STARTTLS, with or without HELO fallback — the client's extension map
   is the set of the EHLO the server accepted last (inside TLS: the set advertised inside TLS), or nil after the
   HELO fallback, and then MAIL and RCPT carry no parameter at all *)
Lemma dial_ext : forall caps caps_tls script w1 c,
  dial X0 F cfg (world_init caps caps_tls script) = (w1, Some c) ->
  s_open (w_srv w1) = true /\ s_helo (w_srv w1) = true /\
  match c_ext c with
  | Some l => l = s_ext (w_srv w1) /\ l = (if s_tls (w_srv w1) then s_caps_tls (w_srv w1) else s_caps (w_srv w1))
  | None => s_ext (w_srv w1) = [] /\ mail_params c = [] /\ rcpt_params c = []
  end.
Proof.
  intros caps caps_tls script w1 c H.
  destruct (dial_full F HF cfg _ _ _ _ _ H) as (_ & _ & _ & HS).
  destruct (HS c eq_refl) as [_ (Hso & Hh & Hm)]. unfold srvof in *; cbn [fst snd] in *.
  split; [exact Hso|]. split; [exact Hh|].
  destruct (c_ext c) as [l|] eqn:E; [exact Hm|].
  split; [exact Hm|]. unfold mail_params, rcpt_params. rewrite E. auto.
Qed.
End DialThm.
