(* LocksProofs.v — C13: the bracket (serialisation) invariant, soundness of the lockset discipline for the
   interleaving semantics of Locks.v, the link to go-mail's source-derived lock programs and the
   non-vacuity witness.  Lemmas only; the property theorems are in props/C13.v. *)
From Coq Require Import Lia String.
From Verif Require Import Bytes Locks.
From VerifGen Require Import Gen.
Local Open Scope nat_scope.

(* ---------- basic facts ---------- *)
Lemma cmds_app : forall k a b, cmds k (a ++ b) = cmds k a ++ cmds k b.
Proof.
  induction a as [|e a IH]; intros; simpl; [reflexivity|].
  destruct (conn_of k e); simpl; rewrite IH; reflexivity.
Qed.

Lemma conn_proj_snoc : forall k (c : cfg) a b i e,
  conn_proj k (trace {| thr := a; mu := b; tr := (i, e) :: tr c |}) =
  conn_proj k (trace c) ++ match conn_of k e with Some x => [x] | None => [] end.
Proof.
  intros. unfold conn_proj, trace. simpl. rewrite map_app, cmds_app. simpl.
  destruct (conn_of k e); reflexivity.
Qed.

Lemma trace_fast_eq : forall c, trace_fast c = trace c.
Proof. intros. unfold trace_fast, trace. symmetry. apply rev_alt. Qed.

Lemma apply_other : forall mu e m, on_mutex m e = false -> apply_ev mu e m = mu m.
Proof.
  intros mu e m H. destruct e; simpl in *; try reflexivity; unfold mupd;
    rewrite N.eqb_sym, H; reflexivity.
Qed.

Lemma is_lock_on : forall m e, is_lock m e = true -> e = Lock m.
Proof. intros m e H. destruct e; simpl in H; try discriminate. apply N.eqb_eq in H. subst; reflexivity. Qed.
Lemma is_unlock_on : forall m e, is_unlock m e = true -> e = Unlock m.
Proof. intros m e H. destruct e; simpl in H; try discriminate. apply N.eqb_eq in H. subst; reflexivity. Qed.
Lemma is_conn_of : forall k e, is_conn k e = false -> conn_of k e = None.
Proof. intros k e. unfold is_conn. destruct (conn_of k e); [discriminate|reflexivity]. Qed.
Lemma lock_not_conn : forall k m, conn_of k (Lock m) = None.
Proof. reflexivity. Qed.

Lemma NoDup_app_snoc : forall (l : list nat) x, NoDup l -> ~ In x l -> NoDup (l ++ [x]).
Proof.
  induction l as [|a l IH]; intros x Hn Hx; simpl.
  - constructor; [intros [] | constructor].
  - inversion Hn; subst. constructor.
    + rewrite in_app_iff. simpl. intros [H|[H|[]]]; [contradiction | subst; apply Hx; left; reflexivity].
    + apply IH; [assumption | intros H; apply Hx; right; assumption].
Qed.

Section Serial.
Variables sm k : N.

Definition phupd (ph : nat -> phase) (i : nat) (v : phase) : nat -> phase :=
  fun j => if Nat.eqb j i then v else ph j.

Record SInv (p0 : pool) (c : cfg) (ph : nat -> phase) (done : list nat) (pfx : list bytes) : Prop := {
  si_scan : forall i, scan sm k (ph i) (thr c i) = true;
  si_excl : excl (mu c sm) = true <-> exists i, ph i = Inside;
  si_uniq : forall i j, ph i = Inside -> ph j = Inside -> i = j;
  si_before : forall i, ph i = Before -> fut sm k Before (thr c i) = body sm k (p0 i);
  si_trace : conn_proj k (trace c) = concat (map (fun i => body sm k (p0 i)) done) ++ pfx;
  si_in : forall i, ph i = Inside -> body sm k (p0 i) = pfx ++ fut sm k Inside (thr c i);
  si_noin : (forall i, ph i <> Inside) -> pfx = [];
  si_nodup : NoDup done;
  si_done : forall i, In i done <-> ph i = After
}.

Lemma SInv_init : forall p0, (forall i, scan sm k Before (p0 i) = true) ->
  SInv p0 (init p0) (fun _ => Before) [] [].
Proof.
  intros p0 H. constructor; simpl; intros; try reflexivity; try discriminate; auto.
  - split; [discriminate | intros [i Hi]; discriminate].
  - constructor.
  - split; [intros [] | discriminate].
Qed.

Lemma SInv_step : forall p0 c ph done pfx i,
  SInv p0 c ph done pfx -> exists ph' done' pfx', SInv p0 (step c i) ph' done' pfx'.
Proof.
  intros p0 c ph done pfx i I. unfold step.
  destruct (thr c i) as [|e t] eqn:Ht; [eauto|].
  destruct (enabled (mu c) e) eqn:En; [|eauto].
  pose proof (si_scan _ _ _ _ _ I i) as Sc. rewrite Ht in Sc.
  destruct (ph i) eqn:Phi; simpl in Sc.
  - (* Before *)
    destruct (is_lock sm e) eqn:IsL.
    + (* takes the send mutex *)
      apply is_lock_on in IsL. subst e.
      assert (NoIn : forall j, ph j <> Inside).
      { intros j Hj. simpl in En. apply andb_true_iff in En. destruct En as [En _].
        assert (excl (mu c sm) = true) by (apply (si_excl _ _ _ _ _ I); eauto).
        rewrite H in En. discriminate. }
      assert (Pf : pfx = []) by (apply (si_noin _ _ _ _ _ I); assumption). subst pfx.
      exists (phupd ph i Inside), done, [].
      constructor; cbn [thr mu].
      * intros j. unfold phupd, pupd. destruct (Nat.eqb_spec j i); [assumption | apply (si_scan _ _ _ _ _ I)].
      * cbn [apply_ev]. unfold mupd. rewrite N.eqb_refl. simpl. split; [intros _; exists i; unfold phupd; rewrite Nat.eqb_refl; reflexivity | reflexivity].
      * intros a b. unfold phupd. destruct (Nat.eqb_spec a i), (Nat.eqb_spec b i); intros Ha Hb; subst; try reflexivity;
          exfalso; eapply NoIn; eassumption.
      * intros j. unfold phupd, pupd. destruct (Nat.eqb_spec j i); [discriminate | apply (si_before _ _ _ _ _ I)].
      * rewrite conn_proj_snoc. simpl. rewrite app_nil_r. apply (si_trace _ _ _ _ _ I).
      * intros j. unfold phupd, pupd. destruct (Nat.eqb_spec j i).
        -- intros _. subst j. simpl. rewrite <- (si_before _ _ _ _ _ I i Phi), Ht. simpl.
           rewrite N.eqb_refl. reflexivity.
        -- intros Hj. exfalso. eapply NoIn; eassumption.
      * reflexivity.
      * apply (si_nodup _ _ _ _ _ I).
      * intros j. unfold phupd. destruct (Nat.eqb_spec j i).
        -- subst j. rewrite (si_done _ _ _ _ _ I i), Phi. split; discriminate.
        -- apply (si_done _ _ _ _ _ I).
    + (* some other event before the bracket *)
      apply andb_true_iff in Sc. destruct Sc as [Sc Sc3]. apply andb_true_iff in Sc. destruct Sc as [Sc1 Sc2].
      apply negb_true_iff in Sc1. apply negb_true_iff in Sc2. apply is_conn_of in Sc2.
      exists ph, done, pfx. constructor; cbn [thr mu].
      * intros j. unfold pupd. destruct (Nat.eqb_spec j i); [subst; rewrite Phi; assumption | apply (si_scan _ _ _ _ _ I)].
      * rewrite apply_other by assumption. apply (si_excl _ _ _ _ _ I).
      * apply (si_uniq _ _ _ _ _ I).
      * intros j Hj. unfold pupd. destruct (Nat.eqb_spec j i).
        -- subst j. rewrite <- (si_before _ _ _ _ _ I i Phi), Ht. simpl. rewrite IsL. reflexivity.
        -- apply (si_before _ _ _ _ _ I); assumption.
      * rewrite conn_proj_snoc, Sc2, app_nil_r. apply (si_trace _ _ _ _ _ I).
      * intros j Hj. unfold pupd. destruct (Nat.eqb_spec j i); [subst; congruence | apply (si_in _ _ _ _ _ I); assumption].
      * apply (si_noin _ _ _ _ _ I).
      * apply (si_nodup _ _ _ _ _ I).
      * apply (si_done _ _ _ _ _ I).
  - (* Inside *)
    destruct (is_unlock sm e) eqn:IsU.
    + (* releases the send mutex *)
      apply is_unlock_on in IsU. subst e.
      pose proof (si_in _ _ _ _ _ I i Phi) as Bi. rewrite Ht in Bi. simpl in Bi. rewrite N.eqb_refl in Bi.
      rewrite app_nil_r in Bi.
      assert (NotDone : ~ In i done).
      { intros Hd. apply (si_done _ _ _ _ _ I) in Hd. congruence. }
      exists (phupd ph i After), (done ++ [i]), [].
      constructor; cbn [thr mu].
      * intros j. unfold phupd, pupd. destruct (Nat.eqb_spec j i); [assumption | apply (si_scan _ _ _ _ _ I)].
      * cbn [apply_ev]. unfold mupd. rewrite N.eqb_refl. simpl. split; [discriminate|].
        intros [j Hj]. unfold phupd in Hj. destruct (Nat.eqb_spec j i); [discriminate|].
        exfalso. apply n. apply (si_uniq _ _ _ _ _ I); assumption.
      * intros a b. unfold phupd. destruct (Nat.eqb_spec a i), (Nat.eqb_spec b i); try discriminate.
        apply (si_uniq _ _ _ _ _ I).
      * intros j. unfold phupd, pupd. destruct (Nat.eqb_spec j i); [discriminate | apply (si_before _ _ _ _ _ I)].
      * rewrite conn_proj_snoc. simpl. rewrite !app_nil_r.
        rewrite (si_trace _ _ _ _ _ I), map_app, concat_app. simpl. rewrite app_nil_r, Bi. reflexivity.
      * intros j. unfold phupd. destruct (Nat.eqb_spec j i); [discriminate|].
        intros Hj. exfalso. apply n. apply (si_uniq _ _ _ _ _ I); assumption.
      * reflexivity.
      * apply NoDup_app_snoc; [apply (si_nodup _ _ _ _ _ I) | assumption].
      * intros j. unfold phupd. rewrite in_app_iff. simpl. destruct (Nat.eqb_spec j i).
        -- subst. split; [reflexivity | intros _; right; left; reflexivity].
        -- rewrite (si_done _ _ _ _ _ I j). split; [intros [H|[H|[]]]; [assumption | congruence] | intros H; left; assumption].
    + (* an event inside the bracket *)
      apply andb_true_iff in Sc. destruct Sc as [Sc1 Sc3]. apply negb_true_iff in Sc1.
      exists ph, done, (pfx ++ match conn_of k e with Some x => [x] | None => [] end).
      constructor; cbn [thr mu].
      * intros j. unfold pupd. destruct (Nat.eqb_spec j i); [subst; rewrite Phi; assumption | apply (si_scan _ _ _ _ _ I)].
      * rewrite apply_other by assumption. apply (si_excl _ _ _ _ _ I).
      * apply (si_uniq _ _ _ _ _ I).
      * intros j Hj. unfold pupd. destruct (Nat.eqb_spec j i); [subst; congruence | apply (si_before _ _ _ _ _ I); assumption].
      * rewrite conn_proj_snoc, (si_trace _ _ _ _ _ I), app_assoc. reflexivity.
      * intros j Hj. assert (j = i) by (apply (si_uniq _ _ _ _ _ I); assumption). subst j.
        unfold pupd. rewrite Nat.eqb_refl.
        rewrite (si_in _ _ _ _ _ I i Phi), Ht. simpl. rewrite IsU.
        destruct (conn_of k e); rewrite <- app_assoc; reflexivity.
      * intros H. exfalso. apply (H i). assumption.
      * apply (si_nodup _ _ _ _ _ I).
      * apply (si_done _ _ _ _ _ I).
  - (* After *)
    apply andb_true_iff in Sc. destruct Sc as [Sc Sc3]. apply andb_true_iff in Sc. destruct Sc as [Sc1 Sc2].
    apply negb_true_iff in Sc1. apply negb_true_iff in Sc2. apply is_conn_of in Sc2.
    exists ph, done, pfx. constructor; cbn [thr mu].
    * intros j. unfold pupd. destruct (Nat.eqb_spec j i); [subst; rewrite Phi; assumption | apply (si_scan _ _ _ _ _ I)].
    * rewrite apply_other by assumption. apply (si_excl _ _ _ _ _ I).
    * apply (si_uniq _ _ _ _ _ I).
    * intros j Hj. unfold pupd. destruct (Nat.eqb_spec j i); [subst; congruence | apply (si_before _ _ _ _ _ I); assumption].
    * rewrite conn_proj_snoc, Sc2, app_nil_r. apply (si_trace _ _ _ _ _ I).
    * intros j Hj. unfold pupd. destruct (Nat.eqb_spec j i); [subst; congruence | apply (si_in _ _ _ _ _ I); assumption].
    * apply (si_noin _ _ _ _ _ I).
    * apply (si_nodup _ _ _ _ _ I).
    * apply (si_done _ _ _ _ _ I).
Qed.


Lemma SInv_run : forall p0 s c ph done pfx,
  SInv p0 c ph done pfx -> exists ph' done' pfx', SInv p0 (run c s) ph' done' pfx'.
Proof.
  induction s as [|i s IH]; simpl; intros c ph done pfx I; [eauto|].
  destruct (SInv_step _ _ _ _ _ i I) as (ph' & d' & p' & I'). eapply IH; eassumption.
Qed.

(* the stream on connection k = whole bodies of the goroutines [done], in the order in which they
   took the lock, followed by a prefix of the body of the goroutine [cur] now holding it *)
Definition serialised (p0 : pool) (c : cfg) : Prop :=
  exists (done : list nat) (cur : option nat) (pfx : list bytes),
    NoDup (done ++ match cur with Some i => [i] | None => [] end) /\
    conn_proj k (trace c) = concat (map (fun i => body sm k (p0 i)) done) ++ pfx /\
    match cur with
    | None => pfx = []
    | Some i => exists sfx, body sm k (p0 i) = pfx ++ sfx
    end.

Theorem serialised_run : forall p0 s,
  (forall i, scan sm k Before (p0 i) = true) -> serialised p0 (run (init p0) s).
Proof.
  intros p0 s H.
  destruct (SInv_run p0 s _ _ _ _ (SInv_init p0 H)) as (ph & done & pfx & I).
  destruct (excl (mu (run (init p0) s) sm)) eqn:Ex.
  - apply (si_excl _ _ _ _ _ I) in Ex. destruct Ex as [i Hi].
    exists done, (Some i), pfx. split; [|split].
    + apply NoDup_app_snoc; [apply (si_nodup _ _ _ _ _ I)|].
      intros Hd. apply (si_done _ _ _ _ _ I) in Hd. congruence.
    + apply (si_trace _ _ _ _ _ I).
    + eexists. apply (si_in _ _ _ _ _ I). assumption.
  - exists done, None, pfx. split; [|split].
    + rewrite app_nil_r. apply (si_nodup _ _ _ _ _ I).
    + apply (si_trace _ _ _ _ _ I).
    + apply (si_noin _ _ _ _ _ I). intros i Hi.
      assert (excl (mu (run (init p0) s) sm) = true) by (apply (si_excl _ _ _ _ _ I); eauto). congruence.
Qed.

(* when all goroutines have terminated, every body is on the stream exactly once *)
Theorem terminated_exactly_once : forall p0 s,
  (forall i, scan sm k Before (p0 i) = true) ->
  (forall i, thr (run (init p0) s) i = []) ->
  exists done, NoDup done /\
    conn_proj k (trace (run (init p0) s)) = concat (map (fun i => body sm k (p0 i)) done) /\
    forall i, ~ In i done -> body sm k (p0 i) = [].
Proof.
  intros p0 s H T.
  destruct (SInv_run p0 s _ _ _ _ (SInv_init p0 H)) as (ph & done & pfx & I).
  assert (NoIn : forall i, ph i <> Inside).
  { intros i Hi. pose proof (si_scan _ _ _ _ _ I i) as Sc. rewrite T, Hi in Sc. discriminate. }
  exists done. split; [apply (si_nodup _ _ _ _ _ I)|split].
  - rewrite (si_trace _ _ _ _ _ I), (si_noin _ _ _ _ _ I NoIn), app_nil_r. reflexivity.
  - intros i Hi. destruct (ph i) eqn:Phi.
    + rewrite <- (si_before _ _ _ _ _ I i Phi), T. reflexivity.
    + exfalso. apply (NoIn i Phi).
    + exfalso. apply Hi. apply (si_done _ _ _ _ _ I). assumption.
Qed.

(* ---------- threads with holes ---------- *)
Lemma on_mutex_is_unlock : forall e, on_mutex sm e = false -> is_unlock sm e = false.
Proof. destruct e; simpl; auto. Qed.
Lemma on_mutex_is_lock : forall e, on_mutex sm e = false -> is_lock sm e = false.
Proof. destruct e; simpl; auto. Qed.

Lemma scan_inside_app : forall b t, quiet sm b = true -> scan sm k Inside (b ++ t) = scan sm k Inside t.
Proof.
  induction b as [|e b IH]; intros t Q; simpl in *; [reflexivity|].
  apply andb_true_iff in Q. destruct Q as [Q1 Q2]. apply negb_true_iff in Q1.
  rewrite (on_mutex_is_unlock _ Q1), Q1. simpl. apply IH. assumption.
Qed.

Lemma scan_fill : forall b, quiet sm b = true ->
  forall t ph, scan_h sm k ph t = true -> scan sm k ph (fill b t) = true.
Proof.
  intros b Q. induction t as [|[e|] t IH]; intros ph H; simpl in *.
  - assumption.
  - destruct ph.
    + destruct (is_lock sm e); [apply IH; assumption|].
      apply andb_true_iff in H. destruct H as [H1 H2]. rewrite H1. simpl. apply IH. assumption.
    + destruct (is_unlock sm e); [apply IH; assumption|].
      apply andb_true_iff in H. destruct H as [H1 H2]. rewrite H1. simpl. apply IH. assumption.
    + apply andb_true_iff in H. destruct H as [H1 H2]. rewrite H1. simpl. apply IH. assumption.
  - apply andb_true_iff in H. destruct H as [H1 H2]. destruct ph; try discriminate.
    rewrite scan_inside_app by assumption. apply IH. assumption.
Qed.

Lemma fut_inside_app : forall b t, quiet sm b = true ->
  fut sm k Inside (b ++ t) = cmds k b ++ fut sm k Inside t.
Proof.
  induction b as [|e b IH]; intros t Q; simpl in *; [reflexivity|].
  apply andb_true_iff in Q. destruct Q as [Q1 Q2]. apply negb_true_iff in Q1.
  rewrite (on_mutex_is_unlock _ Q1). destruct (conn_of k e); simpl; rewrite IH by assumption; reflexivity.
Qed.
Lemma fut_before_app : forall b t, quiet sm b = true -> fut sm k Before (b ++ t) = fut sm k Before t.
Proof.
  induction b as [|e b IH]; intros t Q; simpl in *; [reflexivity|].
  apply andb_true_iff in Q. destruct Q as [Q1 Q2]. apply negb_true_iff in Q1.
  rewrite (on_mutex_is_lock _ Q1). apply IH. assumption.
Qed.
Lemma fut_after : forall t, fut sm k After t = [].
Proof. destruct t; reflexivity. Qed.
Lemma fut_h_after : forall t, fut_h sm k After t = [].
Proof. induction t as [|[e|] t IH]; simpl; auto. Qed.

Lemma fut_fill : forall b, quiet sm b = true ->
  forall t ph, fut sm k ph (fill b t) = fill_cmds (cmds k b) (fut_h sm k ph t).
Proof.
  intros b Q. induction t as [|[e|] t IH]; intros ph; simpl.
  - reflexivity.
  - destruct ph.
    + destruct (is_lock sm e); apply IH.
    + destruct (is_unlock sm e); [reflexivity|].
      destruct (conn_of k e); simpl; rewrite IH; reflexivity.
    + reflexivity.
  - destruct ph.
    + rewrite fut_before_app by assumption. apply IH.
    + rewrite fut_inside_app by assumption. simpl. rewrite IH. reflexivity.
    + rewrite fut_after, fut_h_after. reflexivity.
Qed.

End Serial.

(* ================= lockset discipline: soundness ================= *)
Lemma obj_eqb_eq : forall a b, obj_eqb a b = true -> a = b.
Proof. intros [x|x] [y|y] H; simpl in H; try discriminate; apply N.eqb_eq in H; subst; reflexivity. Qed.

Definition Hupd (H : nat -> held) (i : nat) (h : held) : nat -> held := fun j => if Nat.eqb j i then h else H j.

Fixpoint rsum (H : nat -> held) (m : N) (j : nat) : nat :=
  match j with O => 0 | S j' => snd (H j' m) + rsum H m j' end.

Lemma rsum_ext : forall H H' m j, (forall i, snd (H' i m) = snd (H i m)) -> rsum H' m j = rsum H m j.
Proof. induction j; simpl; intros E; [reflexivity|]. rewrite E, IHj by assumption. reflexivity. Qed.

Lemma rsum_upd_ge : forall H i h m j, j <= i -> rsum (Hupd H i h) m j = rsum H m j.
Proof.
  induction j; intros L; simpl; [reflexivity|]. unfold Hupd at 1.
  destruct (Nat.eqb_spec j i); [lia|]. rewrite IHj by lia. reflexivity.
Qed.

Lemma rsum_upd : forall H i h m j, i < j ->
  rsum (Hupd H i h) m j + snd (H i m) = rsum H m j + snd (h m).
Proof.
  induction j; intros Lt; [lia|]. simpl. unfold Hupd at 1. destruct (Nat.eqb_spec j i).
  - subst j. rewrite rsum_upd_ge by lia. lia.
  - assert (L : i < j) by lia. specialize (IHj L). lia.
Qed.

Lemma rsum_le : forall H m j i, i < j -> snd (H i m) <= rsum H m j.
Proof.
  induction j; intros i L; [lia|]. simpl. destruct (Nat.eq_dec i j); [subst; lia|].
  assert (L' : i < j) by lia. specialize (IHj _ L'). lia.
Qed.

Lemma rsum_h0 : forall m j, rsum (fun _ => h0) m j = 0.
Proof. induction j; simpl; auto. Qed.

Lemma held_after_other : forall h e x, on_mutex x e = false -> held_after h e x = h x.
Proof.
  intros h e x H. destruct e; simpl in *; try reflexivity; unfold hupd; rewrite N.eqb_sym, H; reflexivity.
Qed.

Section Lockset.
Variable prot : obj -> protection.
Variable n : nat.

Record MOK (c : cfg) (H : nat -> held) (x : N) : Prop := {
  mk_excl : forall i, fst (H i x) = true -> excl (mu c x) = true;
  mk_one : forall i j, fst (H i x) = true -> fst (H j x) = true -> i = j;
  mk_exrd : forall i j, fst (H i x) = true -> snd (H j x) = 0;
  mk_rd : rdrs (mu c x) = rsum H x n
}.

Record LInv (p0 : pool) (c : cfg) (H : nat -> held) : Prop := {
  li_disc : forall i, disc prot (H i) (thr c i) = true;
  li_out : forall i, n <= i -> thr c i = [];
  li_hout : forall i x, n <= i -> H i x = (false, 0);
  li_mok : forall x, MOK c H x;
  li_sub : forall i e, In e (thr c i) -> In e (p0 i)
}.

Lemma MOK_ext : forall c c' H H' x,
  MOK c H x -> (forall j, H' j x = H j x) -> mu c' x = mu c x -> MOK c' H' x.
Proof.
  intros c c' H H' x M E Em. constructor.
  - intros i. rewrite E, Em. apply (mk_excl _ _ _ M).
  - intros i j. rewrite !E. apply (mk_one _ _ _ M).
  - intros i j. rewrite !E. apply (mk_exrd _ _ _ M).
  - rewrite Em, (mk_rd _ _ _ M). symmetry. apply rsum_ext. intros i. rewrite E. reflexivity.
Qed.

Lemma LInv_init : forall p0,
  (forall i, disc prot h0 (p0 i) = true) -> (forall i, n <= i -> p0 i = []) ->
  LInv p0 (init p0) (fun _ => h0).
Proof.
  intros p0 D O. constructor; simpl; auto.
  intros x. constructor; simpl; try discriminate. rewrite rsum_h0. reflexivity.
Qed.

Lemma LInv_step : forall p0 c H i, LInv p0 c H -> exists H', LInv p0 (step c i) H'.
Proof.
  intros p0 c H i I. unfold step.
  destruct (thr c i) as [|e t] eqn:Ht; [eauto|].
  destruct (enabled (mu c) e) eqn:En; [|eauto].
  assert (Lt : i < n).
  { destruct (Nat.lt_ge_cases i n) as [L|L]; [assumption|]. rewrite (li_out _ _ _ I i L) in Ht. discriminate. }
  pose proof (li_disc _ _ _ I i) as D. rewrite Ht in D. simpl in D.
  apply andb_true_iff in D. destruct D as [D1 D2].
  exists (Hupd H i (held_after (H i) e)).
  constructor; cbn [thr mu].
  - intros j. unfold Hupd, pupd. destruct (Nat.eqb_spec j i); [assumption | apply (li_disc _ _ _ I)].
  - intros j L. unfold pupd. destruct (Nat.eqb_spec j i); [lia | apply (li_out _ _ _ I); assumption].
  - intros j x L. unfold Hupd. destruct (Nat.eqb_spec j i); [lia | apply (li_hout _ _ _ I); assumption].
  - intros x. pose proof (li_mok _ _ _ I x) as M.
    destruct (on_mutex x e) eqn:On.
    2:{ eapply MOK_ext; [exact M | | cbn [mu]; apply apply_other; assumption].
        intros j. unfold Hupd. destruct (Nat.eqb_spec j i); [subst; apply held_after_other; assumption | reflexivity]. }
    assert (HS : forall j, snd (H j x) <= rsum H x n \/ snd (H j x) = 0).
    { intros j. destruct (Nat.lt_ge_cases j n) as [L|L]; [left; apply rsum_le; assumption|].
      right. rewrite (li_hout _ _ _ I j x L). reflexivity. }
    destruct e; simpl in On; try discriminate; apply N.eqb_eq in On; subst m; simpl in D1, En.
    + (* Lock x *)
      apply andb_true_iff in D1. destruct D1 as [Df Ds]. apply negb_true_iff in Df. apply Nat.eqb_eq in Ds.
      apply andb_true_iff in En. destruct En as [Ee Er]. apply negb_true_iff in Ee. apply Nat.eqb_eq in Er.
      assert (Allf : forall j, fst (H j x) = false).
      { intros j. destruct (fst (H j x)) eqn:F; [|reflexivity]. rewrite (mk_excl _ _ _ M j F) in Ee. discriminate. }
      assert (Alls : forall j, snd (H j x) = 0).
      { intros j. destruct (HS j) as [L|L]; [|assumption]. rewrite <- (mk_rd _ _ _ M), Er in L. lia. }
      assert (E1 : forall j, fst (Hupd H i (held_after (H i) (Lock x)) j x) = true -> j = i).
      { intros j. unfold Hupd. destruct (Nat.eqb_spec j i); [auto|]. rewrite Allf. discriminate. }
      assert (E2 : forall j, snd (Hupd H i (held_after (H i) (Lock x)) j x) = snd (H j x)).
      { intros j. unfold Hupd. destruct (Nat.eqb_spec j i); [|reflexivity]. subst. simpl. unfold hupd. rewrite N.eqb_refl. reflexivity. }
      constructor.
      * intros _ _. simpl. unfold mupd. rewrite N.eqb_refl. reflexivity.
      * intros a b Ha Hb. rewrite (E1 a Ha), (E1 b Hb). reflexivity.
      * intros a b _. rewrite E2. apply Alls.
      * simpl. unfold mupd. rewrite N.eqb_refl. simpl. rewrite (mk_rd _ _ _ M). symmetry. apply rsum_ext. apply E2.
    + (* RLock x *)
      apply negb_true_iff in D1. apply negb_true_iff in En.
      assert (Allf : forall j, fst (H j x) = false).
      { intros j. destruct (fst (H j x)) eqn:F; [|reflexivity]. rewrite (mk_excl _ _ _ M j F) in En. discriminate. }
      assert (E1 : forall j, fst (Hupd H i (held_after (H i) (RLock x)) j x) = false).
      { intros j. unfold Hupd. destruct (Nat.eqb_spec j i); [|apply Allf]. subst. simpl. unfold hupd. rewrite N.eqb_refl. simpl. apply Allf. }
      constructor.
      * intros j F. rewrite E1 in F. discriminate.
      * intros a b F. rewrite E1 in F. discriminate.
      * intros a b F. rewrite E1 in F. discriminate.
      * simpl. unfold mupd. rewrite N.eqb_refl. simpl.
        pose proof (rsum_upd H i (held_after (H i) (RLock x)) x n Lt) as R.
        simpl in R. unfold hupd in R. rewrite N.eqb_refl in R. simpl in R.
        rewrite (mk_rd _ _ _ M). simpl. unfold hupd. lia.
    + (* Unlock x *)
      assert (E1 : forall j, fst (Hupd H i (held_after (H i) (Unlock x)) j x) = false).
      { intros j. unfold Hupd. destruct (Nat.eqb_spec j i).
        - subst. simpl. unfold hupd. rewrite N.eqb_refl. reflexivity.
        - destruct (fst (H j x)) eqn:F; [|reflexivity]. exfalso. apply n0. apply (mk_one _ _ _ M); assumption. }
      assert (E2 : forall j, snd (Hupd H i (held_after (H i) (Unlock x)) j x) = snd (H j x)).
      { intros j. unfold Hupd. destruct (Nat.eqb_spec j i); [|reflexivity]. subst. simpl. unfold hupd. rewrite N.eqb_refl. reflexivity. }
      constructor.
      * intros j F. rewrite E1 in F. discriminate.
      * intros a b F. rewrite E1 in F. discriminate.
      * intros a b F. rewrite E1 in F. discriminate.
      * simpl. unfold mupd. rewrite N.eqb_refl. simpl. rewrite (mk_rd _ _ _ M). symmetry. apply rsum_ext. apply E2.
    + (* RUnlock x *)
      apply negb_true_iff in D1. apply Nat.eqb_neq in D1.
      assert (Allf : forall j, fst (H j x) = false).
      { intros j. destruct (fst (H j x)) eqn:F; [|reflexivity]. exfalso. apply D1. apply (mk_exrd _ _ _ M j i F). }
      assert (E1 : forall j, fst (Hupd H i (held_after (H i) (RUnlock x)) j x) = false).
      { intros j. unfold Hupd. destruct (Nat.eqb_spec j i); [|apply Allf]. subst. simpl. unfold hupd. rewrite N.eqb_refl. simpl. apply Allf. }
      constructor.
      * intros j F. rewrite E1 in F. discriminate.
      * intros a b F. rewrite E1 in F. discriminate.
      * intros a b F. rewrite E1 in F. discriminate.
      * simpl. unfold mupd. rewrite N.eqb_refl. simpl.
        pose proof (rsum_upd H i (held_after (H i) (RUnlock x)) x n Lt) as R.
        simpl in R. unfold hupd in R. rewrite N.eqb_refl in R. simpl in R.
        rewrite (mk_rd _ _ _ M). simpl. unfold hupd. lia.
  - intros j e'. unfold pupd. destruct (Nat.eqb_spec j i).
    + subst. intros Hin. apply (li_sub _ _ _ I). rewrite Ht. right. assumption.
    + apply (li_sub _ _ _ I).
Qed.

Lemma LInv_run : forall p0 s c H, LInv p0 c H -> exists H', LInv p0 (run c s) H'.
Proof.
  induction s as [|i s IH]; simpl; intros c H I; [eauto|].
  destruct (LInv_step _ _ _ i I) as [H' I']. eapply IH; eassumption.
Qed.

(* no two goroutines are ever about to perform conflicting accesses (accesses are always enabled) *)
Definition race_free (c : cfg) : Prop :=
  forall i j e1 t1 e2 t2, i <> j -> thr c i = e1 :: t1 -> thr c j = e2 :: t2 -> conflict e1 e2 = false.

Definition private_ok (p0 : pool) : Prop :=
  forall i j o, i <> j -> prot o = Private -> touches o (p0 i) = true -> touches o (p0 j) = true -> False.

Lemma touches_in : forall o a e t, In e t -> access e = Some (o, a) -> touches o t = true.
Proof.
  intros o a e t Hin Ha. unfold touches. apply existsb_exists. exists e. split; [assumption|].
  rewrite Ha. destruct o; simpl; apply N.eqb_refl.
Qed.

Lemma access_check : forall h e t o a, access e = Some (o, a) -> disc prot h (e :: t) = true ->
  match prot o with
  | Guarded m => fst (h m) || (negb (is_w a) && negb (Nat.eqb (snd (h m)) 0))
  | Private => true
  | ReadOnly => negb (is_w a)
  end = true.
Proof.
  intros h e t o a Ha D. simpl in D. apply andb_true_iff in D. destruct D as [D _].
  destruct e; simpl in Ha; try discriminate; rewrite <- ?Ha in D; simpl in D; inversion Ha; subst; exact D.
Qed.

Lemma LInv_race_free : forall p0 c H, private_ok p0 -> LInv p0 c H -> race_free c.
Proof.
  intros p0 c H P I i j e1 t1 e2 t2 Ne H1 H2.
  unfold conflict. destruct (access e1) as [[o1 a1]|] eqn:A1; [|reflexivity].
  destruct (access e2) as [[o2 a2]|] eqn:A2; [|reflexivity].
  destruct (obj_eqb o1 o2) eqn:Eo; [|reflexivity]. apply obj_eqb_eq in Eo. subst o2. simpl.
  pose proof (li_disc _ _ _ I i) as Di. rewrite H1 in Di. pose proof (access_check _ _ _ _ _ A1 Di) as C1.
  pose proof (li_disc _ _ _ I j) as Dj. rewrite H2 in Dj. pose proof (access_check _ _ _ _ _ A2 Dj) as C2.
  destruct (prot o1) as [m| |] eqn:Pr.
  - pose proof (li_mok _ _ _ I m) as M.
    destruct (is_w a1) eqn:W1; simpl in *.
    + rewrite orb_false_r in C1.
      apply orb_true_iff in C2. destruct C2 as [C2|C2].
      * exfalso. apply Ne. apply (mk_one _ _ _ M); assumption.
      * apply andb_true_iff in C2. destruct C2 as [_ C2]. apply negb_true_iff in C2. apply Nat.eqb_neq in C2.
        exfalso. apply C2. apply (mk_exrd _ _ _ M i j). assumption.
    + destruct (is_w a2) eqn:W2; [|reflexivity]. simpl in *. rewrite orb_false_r in C2.
      apply orb_true_iff in C1. destruct C1 as [C1|C1].
      * exfalso. apply Ne. apply (mk_one _ _ _ M); assumption.
      * apply negb_true_iff in C1. apply Nat.eqb_neq in C1.
        exfalso. apply C1. apply (mk_exrd _ _ _ M j i). assumption.
  - exfalso. apply (P i j o1 Ne Pr).
    + eapply touches_in; [|exact A1]. apply (li_sub _ _ _ I). rewrite H1. left. reflexivity.
    + eapply touches_in; [|exact A2]. apply (li_sub _ _ _ I). rewrite H2. left. reflexivity.
  - apply negb_true_iff in C1. apply negb_true_iff in C2. rewrite C1, C2. reflexivity.
Qed.

Theorem lockset_sound : forall p0 s,
  (forall i, disc prot h0 (p0 i) = true) -> (forall i, n <= i -> p0 i = []) -> private_ok p0 ->
  race_free (run (init p0) s).
Proof.
  intros p0 s D O P. destruct (LInv_run p0 s _ _ (LInv_init p0 D O)) as [H I].
  eapply LInv_race_free; eassumption.
Qed.

End Lockset.

(* ================= program order and private connections ================= *)
Lemma private_conn_inv : forall (p0 : pool) j kj s c,
  (forall i, i <> j -> cmds kj (thr c i) = []) ->
  conn_proj kj (trace c) ++ cmds kj (thr c j) = cmds kj (p0 j) ->
  (forall i, i <> j -> cmds kj (thr (run c s) i) = []) /\
  conn_proj kj (trace (run c s)) ++ cmds kj (thr (run c s) j) = cmds kj (p0 j).
Proof.
  intros p0 j kj. induction s as [|i s IH]; intros c O E; simpl; [split; assumption|].
  apply IH; unfold step; destruct (thr c i) as [|e t] eqn:Ht; try assumption;
    destruct (enabled (mu c) e); try assumption; cbn [thr].
  - intros a Na. unfold pupd. destruct (Nat.eqb_spec a i); [|apply O; assumption].
    subst a. specialize (O i Na). rewrite Ht in O. simpl in O.
    destruct (conn_of kj e); [discriminate | assumption].
  - rewrite conn_proj_snoc. unfold pupd. destruct (Nat.eqb_spec j i).
    + subst i. rewrite Ht in E. simpl in E. destruct (conn_of kj e); rewrite <- app_assoc; exact E.
    + assert (Nij : i <> j) by congruence. specialize (O i Nij). rewrite Ht in O. simpl in O.
      destruct (conn_of kj e); [discriminate|]. rewrite app_nil_r. exact E.
Qed.

(* a connection that only goroutine j's program mentions carries exactly j's commands, in program
   order: a prefix of them at any time, all of them once j has terminated *)
Theorem private_conn : forall (p0 : pool) j kj s,
  (forall i, i <> j -> cmds kj (p0 i) = []) ->
  conn_proj kj (trace (run (init p0) s)) ++ cmds kj (thr (run (init p0) s) j) = cmds kj (p0 j).
Proof.
  intros p0 j kj s O. apply (private_conn_inv p0 j kj s (init p0)); [exact O | reflexivity].
Qed.

(* ================= go-mail's programs ================= *)
Lemma inst_fill : forall k fobj b p, inst k fobj (fun _ => b) p = fill b (inst_h k fobj p).
Proof.
  intros. unfold inst, fill, inst_h. induction p as [|e p IH]; simpl; [reflexivity|].
  rewrite IH. destruct e; reflexivity.
Qed.

Lemma disc_cons : forall prot h e t, disc prot h (e :: t) = disc prot h [e] && disc prot (held_after h e) t.
Proof. intros. simpl. rewrite andb_true_r. reflexivity. Qed.

Lemma disc_hole : forall prot g b h t, fst (h g) = true -> hole_ok prot g b = true ->
  disc prot h (b ++ t) = disc prot h t.
Proof.
  induction b as [|e b IH]; intros h t Hg Hb; [reflexivity|].
  simpl in Hb. apply andb_true_iff in Hb. destruct Hb as [Ha Hb].
  rewrite <- app_comm_cons, disc_cons.
  destruct e; simpl in Ha; try discriminate; simpl.
  - destruct (prot (OConn k)) as [m| |]; try discriminate.
    + apply N.eqb_eq in Ha. subst m. rewrite Hg. simpl. apply IH; assumption.
    + simpl. apply IH; assumption.
  - destruct (prot (OMem o)) as [m| |].
    + apply N.eqb_eq in Ha. subst m. rewrite Hg. simpl. apply IH; assumption.
    + simpl. apply IH; assumption.
    + rewrite Ha. simpl. apply IH; assumption.
Qed.

Lemma disc_fill : forall prot g b, hole_ok prot g b = true ->
  forall t h, disc_h prot g h t = true -> disc prot h (fill b t) = true.
Proof.
  intros prot g b Hb. induction t as [|[e|] t IH]; intros h D; cbn [disc_h] in D.
  - reflexivity.
  - apply andb_true_iff in D. destruct D as [D1 D2].
    change (fill b (Some e :: t)) with (e :: fill b t). rewrite disc_cons, D1. simpl. apply IH. assumption.
  - apply andb_true_iff in D. destruct D as [D1 D2].
    change (fill b (None :: t)) with (b ++ fill b t). rewrite (disc_hole prot g) by assumption. apply IH. assumption.
Qed.

Lemma pool_of_all : forall (P : list event -> Prop) l, P [] -> (forall t, In t l -> P t) -> forall i, P (pool_of l i).
Proof.
  intros P l P0 Pl i. unfold pool_of. destruct (nth_in_or_default i l []) as [H|H]; [apply Pl; assumption | rewrite H; assumption].
Qed.

(* source obligations, re-checked against /repo whenever Gen.v changes *)
Lemma ob_send_bracketed_true : ob_send_bracketed = true. Proof. vm_compute. reflexivity. Qed.
Lemma ob_dial_and_send_private_true : ob_dial_and_send_private = true. Proof. vm_compute. reflexivity. Qed.
Lemma ob_cfg_reads_rlocked_true : ob_cfg_reads_rlocked = true. Proof. vm_compute. reflexivity. Qed.
Lemma ob_cfg_read_only_true : ob_cfg_read_only = true. Proof. vm_compute. reflexivity. Qed.
Lemma ob_inner_no_sm_true : ob_inner_no_sm = true. Proof. vm_compute. reflexivity. Qed.
Lemma ob_smtp_cmd_locked_true : ob_smtp_cmd_locked = true. Proof. vm_compute. reflexivity. Qed.
Lemma ob_send_scan_true : ob_send_scan = true. Proof. vm_compute. reflexivity. Qed.
Lemma ob_send_disc_true : ob_send_disc = true. Proof. vm_compute. reflexivity. Qed.
Lemma ob_send_body_true : ob_send_body = true. Proof. vm_compute. reflexivity. Qed.

Lemma send_paths_nonempty : send_paths <> [].
Proof.
  pose proof ob_send_scan_true as H. unfold ob_send_scan in H. apply andb_true_iff in H. destruct H as [H _].
  intros E. rewrite E in H. discriminate.
Qed.

(* the goroutine of Client.Send: a generated path of Send with the call replaced by the events b *)
Definition send_goroutine (pb : list lock_ev * list event) : list event :=
  inst 0 cfg_obj (fun _ => snd pb) (fst pb).

Lemma send_goroutine_scan : forall p b, In p send_paths -> quiet send_mutex b = true ->
  scan send_mutex 0 Before (send_goroutine (p, b)) = true.
Proof.
  intros p b Hp Hb. unfold send_goroutine. simpl. rewrite inst_fill. apply scan_fill; [assumption|].
  pose proof ob_send_scan_true as H. unfold ob_send_scan in H. apply andb_true_iff in H. destruct H as [_ H].
  rewrite forallb_forall in H. apply H. assumption.
Qed.

(* what the goroutine puts on the shared connection inside its bracket is exactly the call's commands *)
Lemma send_goroutine_body : forall p b, In p send_paths -> quiet send_mutex b = true ->
  body send_mutex 0 (send_goroutine (p, b)) = cmds 0 b.
Proof.
  intros p b Hp Hb. unfold send_goroutine, body. simpl. rewrite inst_fill, fut_fill by assumption.
  pose proof ob_send_body_true as H. unfold ob_send_body in H. rewrite forallb_forall in H. specialize (H p Hp).
  destruct (fut_h send_mutex 0 Before (inst_h 0 cfg_obj p)) as [|[x|] [|y l]]; try discriminate.
  simpl. apply app_nil_r.
Qed.

Lemma send_goroutine_disc : forall p b, In p send_paths -> hole_ok prot_c13 send_mutex b = true ->
  disc prot_c13 h0 (send_goroutine (p, b)) = true.
Proof.
  intros p b Hp Hb. unfold send_goroutine. simpl. rewrite inst_fill. eapply disc_fill; [eassumption|].
  pose proof ob_send_disc_true as H. unfold ob_send_disc in H. rewrite forallb_forall in H. apply H. assumption.
Qed.

Definition c13_pool (sends : list (list lock_ev * list event)) (others : list (list event)) : pool :=
  pool_of (map send_goroutine sends ++ others).

Theorem c13_serialised : forall sends others sched,
  (forall p b, In (p, b) sends -> In p send_paths /\ quiet send_mutex b = true) ->
  (forall t, In t others -> scan send_mutex 0 Before t = true) ->
  serialised send_mutex 0 (c13_pool sends others) (run (init (c13_pool sends others)) sched).
Proof.
  intros sends others sched Hs Ho. apply serialised_run. unfold c13_pool.
  apply (pool_of_all (fun t => scan send_mutex 0 Before t = true)); [reflexivity|]. intros t Ht. apply in_app_or in Ht. destruct Ht as [Ht|Ht]; [|apply Ho; assumption].
  apply in_map_iff in Ht. destruct Ht as [[p b] [E Hin]]. subst t.
  destruct (Hs p b Hin). apply send_goroutine_scan; assumption.
Qed.

Theorem c13_exactly_once : forall sends others sched,
  (forall p b, In (p, b) sends -> In p send_paths /\ quiet send_mutex b = true) ->
  (forall t, In t others -> scan send_mutex 0 Before t = true) ->
  (forall i, thr (run (init (c13_pool sends others)) sched) i = []) ->
  exists done, NoDup done /\
    conn_proj 0 (trace (run (init (c13_pool sends others)) sched))
      = concat (map (fun i => body send_mutex 0 (c13_pool sends others i)) done) /\
    forall i, ~ In i done -> body send_mutex 0 (c13_pool sends others i) = [].
Proof.
  intros sends others sched Hs Ho T. apply terminated_exactly_once; [|assumption]. unfold c13_pool.
  apply (pool_of_all (fun t => scan send_mutex 0 Before t = true)); [reflexivity|]. intros t Ht. apply in_app_or in Ht. destruct Ht as [Ht|Ht]; [|apply Ho; assumption].
  apply in_map_iff in Ht. destruct Ht as [[p b] [E Hin]]. subst t.
  destruct (Hs p b Hin). apply send_goroutine_scan; assumption.
Qed.

Theorem c13_guarded : forall sends others sched,
  (forall p b, In (p, b) sends -> In p send_paths /\ hole_ok prot_c13 send_mutex b = true) ->
  (forall t, In t others -> disc prot_c13 h0 t = true) ->
  private_ok prot_c13 (c13_pool sends others) ->
  race_free (run (init (c13_pool sends others)) sched).
Proof.
  intros sends others sched Hs Ho P.
  apply (lockset_sound prot_c13 (length (map send_goroutine sends ++ others))); [| |assumption].
  - unfold c13_pool. apply (pool_of_all (fun t => disc prot_c13 h0 t = true)); [reflexivity|]. intros t Ht. apply in_app_or in Ht.
    destruct Ht as [Ht|Ht]; [|apply Ho; assumption].
    apply in_map_iff in Ht. destruct Ht as [[p b] [E Hin]]. subst t.
    destruct (Hs p b Hin). apply send_goroutine_disc; assumption.
  - intros i L. unfold c13_pool, pool_of. apply nth_overflow. assumption.
Qed.

(* ================= non-vacuity: without the bracket the transactions interleave ================= *)
Definition nolock_pool : pool :=
  pool_of [strip send_mutex (send_thread 0 1 1); strip send_mutex (send_thread 0 2 1)].
Definition lock_pool : pool := pool_of [send_thread 0 1 1; send_thread 0 2 1].
(* alternate between the two goroutines, one smtp command (one execution of cmd) at a time *)
Definition alternating (rounds steps : nat) : list nat :=
  flat_map (fun _ => repeat 0 steps ++ repeat 1 steps) (seq 0 rounds).
Definition two_bodies : list (list bytes) := [txn_items 1 1; txn_items 2 1].

Lemma without_lock_interleaves :
  exists sched,
    firstn 6 (conn_proj 0 (trace (run (init nolock_pool) sched)))
      = [item "N" 0; item "N" 0; item "M" 1; item "M" 2; item "R" 1; item "R" 2]
    /\ check_stream two_bodies (conn_proj 0 (trace (run (init nolock_pool) sched))) = false
    /\ all_done (run (init nolock_pool) sched) 2 = true.
Proof. exists ([0; 1] ++ alternating 12 14). vm_compute. repeat split. Qed.


Lemma with_lock_same_schedule_serial :
  check_stream two_bodies (conn_proj 0 (trace (run (init lock_pool) ([0; 1] ++ alternating 16 14)))) = true
  /\ all_done (run (init lock_pool) ([0; 1] ++ alternating 16 14)) 2 = true.
Proof. vm_compute. split; reflexivity. Qed.

(* ================= frame property for concurrent dials ================= *)
Lemma held_after_fst_false : forall h e m, fst (h m) = false -> is_lock m e = false -> fst (held_after h e m) = false.
Proof.
  intros h e m Hf Hl. destruct e; simpl in *; try assumption; unfold hupd;
    destruct (N.eqb_spec m m0); subst; simpl; try assumption; try reflexivity.
  rewrite N.eqb_refl in Hl. discriminate.
Qed.

Lemma dial_no_guarded_write : forall prot m t h,
  disc prot h t = true -> fst (h m) = false -> no_excl m t = true ->
  forallb (fun e => negb (writes_guarded prot m e)) t = true.
Proof.
  intros prot m. induction t as [|e t IH]; intros h D Hf N; [reflexivity|].
  rewrite disc_cons in D. apply andb_true_iff in D. destruct D as [D1 D2].
  simpl in N. apply andb_true_iff in N. destruct N as [N1 N2]. apply negb_true_iff in N1.
  simpl. apply andb_true_iff. split.
  - unfold writes_guarded. destruct e; simpl; try reflexivity.
    + simpl in D1. destruct (prot (OConn k)) as [m'| |]; try reflexivity.
      destruct (N.eqb_spec m' m); [|reflexivity]. subst m'. rewrite Hf in D1. simpl in D1. discriminate.
    + destruct a; [reflexivity|]. simpl in D1. destruct (prot (OMem o)) as [m'| |]; try reflexivity.
      destruct (N.eqb_spec m' m); [|reflexivity]. subst m'. rewrite Hf in D1. simpl in D1. discriminate.
  - apply (IH (held_after h e)); [assumption | apply held_after_fst_false; assumption | assumption].
Qed.

Lemma run_events_in_prog : forall (p0 : pool) s c,
  (forall i e, In e (thr c i) -> In e (p0 i)) -> (forall i e, In (i, e) (tr c) -> In e (p0 i)) ->
  forall i e, In (i, e) (tr (run c s)) -> In e (p0 i).
Proof.
  intros p0. induction s as [|j s IH]; intros c T H; simpl; [assumption|].
  apply IH; unfold step; destruct (thr c j) as [|e0 t] eqn:Ht; try assumption;
    destruct (enabled (mu c) e0); try assumption; cbn [thr tr].
  - intros i e. unfold pupd. destruct (Nat.eqb_spec i j); [|apply T].
    subst. intros Hin. apply T. rewrite Ht. right. assumption.
  - intros i e [E|Hin]; [|apply H; assumption]. inversion E; subst. apply T. rewrite Ht. left. reflexivity.
Qed.

(* Frame: if every goroutine obeys the discipline and none takes m exclusively (dial programs run under
   RLock only), then under every schedule NO executed event writes an object guarded by m — whatever a
   dial reads from the guarded state is written by no concurrent dial. *)
Theorem dial_frame : forall prot m (p0 : pool) s,
  (forall i, disc prot h0 (p0 i) = true) -> (forall i, no_excl m (p0 i) = true) ->
  forall i e, In (i, e) (trace (run (init p0) s)) -> writes_guarded prot m e = false.
Proof.
  intros prot m p0 s D N i e Hin. unfold trace in Hin. apply in_rev in Hin.
  assert (Hp : In e (p0 i)).
  { apply (run_events_in_prog p0 s (init p0)); simpl; auto. intros ? ? []. }
  pose proof (dial_no_guarded_write prot m (p0 i) h0 (D i) eq_refl (N i)) as F.
  rewrite forallb_forall in F. apply negb_true_iff. apply F. assumption.
Qed.

Lemma ob_client_writes_excl_true : ob_client_writes_excl = true. Proof. vm_compute. reflexivity. Qed.
Lemma ob_dial_frame_true : ob_dial_frame = true. Proof. vm_compute. reflexivity. Qed.

(* ================= ownership, exclusivity on the shared connection, the smtp.Client level ================= *)
(* an object that only goroutine j's program touches is, under every schedule, accessed by j only *)
Theorem private_object_owner : forall (p0 : pool) j o s,
  (forall i, i <> j -> touches o (p0 i) = false) ->
  forall i e a, In (i, e) (trace (run (init p0) s)) -> access e = Some (o, a) -> i = j.
Proof.
  intros p0 j o s O i e a Hin Ha. unfold trace in Hin. apply in_rev in Hin.
  assert (Hp : In e (p0 i)).
  { apply (run_events_in_prog p0 s (init p0)); simpl; auto. intros ? ? []. }
  destruct (Nat.eq_dec i j) as [E|Ne]; [assumption|].
  pose proof (touches_in o a e (p0 i) Hp Ha) as T. rewrite (O i Ne) in T. discriminate.
Qed.

Lemma rdrs_apply : forall mu e m, (match e with RLock x => negb (N.eqb x m) | _ => true end) = true ->
  rdrs (mu m) = 0 -> rdrs (apply_ev mu e m) = 0.
Proof.
  intros mu e m He Hz. destruct e; simpl in *; try assumption; unfold mupd;
    destruct (N.eqb_spec m m0); subst; simpl; try assumption; try (rewrite Hz; reflexivity).
  rewrite N.eqb_refl in He. discriminate.
Qed.

Lemma rdrs_zero_inv : forall m (p0 : pool) s c,
  (forall i, no_rlock m (p0 i) = true) ->
  (forall i e, In e (thr c i) -> In e (p0 i)) -> rdrs (mu c m) = 0 ->
  rdrs (mu (run c s) m) = 0.
Proof.
  intros m p0. induction s as [|j s IH]; intros c N T Z; simpl; [assumption|].
  apply IH; try assumption; unfold step; destruct (thr c j) as [|e0 t] eqn:Ht; try assumption;
    destruct (enabled (mu c) e0); try assumption; cbn [thr mu].
  - intros i e. unfold pupd. destruct (Nat.eqb_spec i j); [|apply T].
    subst. intros Hin. apply T. rewrite Ht. right. assumption.
  - apply rdrs_apply; [|assumption].
    assert (Hin : In e0 (p0 j)) by (apply T; rewrite Ht; left; reflexivity).
    pose proof (N j) as Nj. unfold no_rlock in Nj. rewrite forallb_forall in Nj. apply (Nj e0 Hin).
Qed.

(* Exclusivity: if no goroutine ever read-locks m, two different goroutines are never both about to
   access (read OR write) objects guarded by m — under every schedule. *)
Theorem shared_exclusive : forall prot n m (p0 : pool) s,
  (forall i, disc prot h0 (p0 i) = true) -> (forall i, n <= i -> p0 i = []) ->
  (forall i, no_rlock m (p0 i) = true) ->
  forall i j e1 t1 e2 t2, i <> j ->
    thr (run (init p0) s) i = e1 :: t1 -> thr (run (init p0) s) j = e2 :: t2 ->
    guarded_by prot m e1 = true -> guarded_by prot m e2 = true -> False.
Proof.
  intros prot n m p0 s D O NR i j e1 t1 e2 t2 Ne H1 H2 G1 G2.
  destruct (LInv_run prot n p0 s _ _ (LInv_init prot n p0 D O)) as [H I].
  assert (Z : rdrs (mu (run (init p0) s) m) = 0).
  { apply (rdrs_zero_inv m p0 s (init p0)); simpl; auto. }
  pose proof (li_mok _ _ _ _ _ I m) as M.
  assert (Hold : forall a e t, thr (run (init p0) s) a = e :: t -> guarded_by prot m e = true -> fst (H a m) = true).
  { intros a e t Ha G. unfold guarded_by in G. destruct (access e) as [[o rwa]|] eqn:A; [|discriminate].
    destruct (prot o) as [m'| |] eqn:P; try discriminate. apply N.eqb_eq in G. subst m'.
    pose proof (li_disc _ _ _ _ _ I a) as Da. rewrite Ha in Da.
    pose proof (access_check prot _ _ _ _ _ A Da) as C. rewrite P in C.
    assert (La : a < n).
    { destruct (Nat.lt_ge_cases a n) as [L|L]; [assumption|]. rewrite (li_out _ _ _ _ _ I a L) in Ha. discriminate. }
    assert (S0 : snd (H a m) = 0).
    { pose proof (rsum_le H m n a La) as Le. rewrite <- (mk_rd _ _ _ _ M), Z in Le. lia. }
    rewrite S0 in C. simpl in C. rewrite andb_false_r, orb_false_r in C. exact C. }
  apply Ne. apply (mk_one _ _ _ _ M); [eapply Hold; eassumption | eapply Hold; eassumption].
Qed.

Lemma private_ok_none : forall prot l, (forall t, In t l -> no_private prot t = true) -> private_ok prot (pool_of l).
Proof.
  intros prot l Hn i j o _ Pr Ti _. unfold touches in Ti. apply existsb_exists in Ti. destruct Ti as [e [Hin He]].
  unfold pool_of in Hin. destruct (nth_in_or_default i l []) as [Hl|Hl]; [|rewrite Hl in Hin; destruct Hin].
  specialize (Hn _ Hl). unfold no_private in Hn. rewrite forallb_forall in Hn. specialize (Hn e Hin).
  destruct (access e) as [[o' a]|]; [|discriminate]. apply obj_eqb_eq in He. subst o'. rewrite Pr in Hn. discriminate.
Qed.

Lemma hole_ok_no_rlock : forall prot g m b, hole_ok prot g b = true -> no_rlock m b = true.
Proof.
  intros prot g m b H. unfold hole_ok in H. unfold no_rlock. rewrite forallb_forall in *. intros e Hin.
  specialize (H e Hin). destruct e; simpl in *; try reflexivity; discriminate.
Qed.

Lemma no_rlock_fill : forall m b t, no_rlock m b = true -> no_rlock_h m t = true -> no_rlock m (fill b t) = true.
Proof.
  intros m b. induction t as [|[e|] t IH]; intros Hb Ht; simpl in *; [reflexivity| |].
  - apply andb_true_iff in Ht. destruct Ht as [H1 H2]. unfold no_rlock in *. simpl. rewrite H1. simpl. apply IH; assumption.
  - unfold no_rlock in *. rewrite forallb_app, Hb. simpl. apply IH; assumption.
Qed.

Lemma ob_unlocked_reads_stable_true : ob_unlocked_reads_stable = true. Proof. vm_compute. reflexivity. Qed.
Lemma ob_smtpclient_single_writer_true : ob_smtpclient_single_writer = true. Proof. vm_compute. reflexivity. Qed.
Lemma ob_smtp_text_conn_locked_true : ob_smtp_text_conn_locked = true. Proof. vm_compute. reflexivity. Qed.
Lemma ob_private_client_owned_true : ob_private_client_owned = true. Proof. vm_compute. reflexivity. Qed.
Lemma ob_send_no_rlock_true : ob_send_no_rlock = true. Proof. vm_compute. reflexivity. Qed.

Lemma send_goroutine_no_rlock : forall p b, In p send_paths -> hole_ok prot_c13 send_mutex b = true ->
  no_rlock send_mutex (send_goroutine (p, b)) = true.
Proof.
  intros p b Hp Hb. unfold send_goroutine. simpl. rewrite inst_fill. apply no_rlock_fill.
  - eapply hole_ok_no_rlock; eassumption.
  - pose proof ob_send_no_rlock_true as H. unfold ob_send_no_rlock in H. rewrite forallb_forall in H. apply H. assumption.
Qed.

(* on the shared connection every access to connection 0 and to its smtp.Client goes through sendMutex:
   two goroutines are never both about to touch them, whatever the schedule *)
Theorem c13_shared_conn_exclusive : forall sends others sched,
  (forall p b, In (p, b) sends -> In p send_paths /\ hole_ok prot_c13 send_mutex b = true) ->
  (forall t, In t others -> disc prot_c13 h0 t = true /\ no_rlock send_mutex t = true) ->
  forall i j e1 t1 e2 t2, i <> j ->
    thr (run (init (c13_pool sends others)) sched) i = e1 :: t1 ->
    thr (run (init (c13_pool sends others)) sched) j = e2 :: t2 ->
    guarded_by prot_c13 send_mutex e1 = true -> guarded_by prot_c13 send_mutex e2 = true -> False.
Proof.
  intros sends others sched Hs Ho.
  apply (shared_exclusive prot_c13 (length (map send_goroutine sends ++ others)) send_mutex).
  - unfold c13_pool. apply (pool_of_all (fun t => disc prot_c13 h0 t = true)); [reflexivity|]. intros t Ht.
    apply in_app_or in Ht. destruct Ht as [Ht|Ht]; [|apply Ho; assumption].
    apply in_map_iff in Ht. destruct Ht as [[p b] [E Hin]]. subst t.
    destruct (Hs p b Hin). apply send_goroutine_disc; assumption.
  - intros i L. unfold c13_pool, pool_of. apply nth_overflow. assumption.
  - unfold c13_pool. apply (pool_of_all (fun t => no_rlock send_mutex t = true)); [reflexivity|]. intros t Ht.
    apply in_app_or in Ht. destruct Ht as [Ht|Ht]; [|apply Ho; assumption].
    apply in_map_iff in Ht. destruct Ht as [[p b] [E Hin]]. subst t.
    destruct (Hs p b Hin). apply send_goroutine_no_rlock; assumption.
Qed.

(* the smtp.Client level alone: even with the sendMutex bracket removed (the pool of the refutation witness,
   whose TRANSACTIONS interleave), the cmd / dataCloser sections generated from the source are mutually
   exclusive: no two goroutines are ever about to touch the connection or the smtp.Client's fields at
   the same time — for every schedule *)
Theorem cmd_sections_exclusive : forall sched, race_free (run (init nolock_pool) sched).
Proof.
  intros sched. apply (lockset_sound prot_inner 2).
  - unfold nolock_pool. apply (pool_of_all (fun t => disc prot_inner h0 t = true)); [reflexivity|].
    intros t [E|[E|[]]]; subst t; vm_compute; reflexivity.
  - intros i L. unfold nolock_pool, pool_of. apply nth_overflow. simpl. assumption.
  - unfold nolock_pool. apply private_ok_none. intros t [E|[E|[]]]; subst t; vm_compute; reflexivity.
Qed.

Lemma ob_no_shared_pointee_writes_true : ob_no_shared_pointee_writes = true. Proof. vm_compute. reflexivity. Qed.
Lemma ob_loggers_stateless_true : ob_loggers_stateless = true. Proof. vm_compute. reflexivity. Qed.
Lemma ob_no_unsync_package_state_true : ob_no_unsync_package_state = true. Proof. vm_compute. reflexivity. Qed.
