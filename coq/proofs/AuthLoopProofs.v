(* AuthLoopProofs.v — C16: what smtp.Client.Auth hands to the debug logger, for every mechanism (any value of
   the smtp.Auth interface), every mechanism state and every reply script. *)
From Coq Require Import String Lia.
From Verif Require Import Bytes Base64 AuthLoop.
From VerifGen Require Import Gen.
Open Scope N_scope.

(* T1: the redaction rule of Client.cmd and the deferred deactivation in Client.Auth, as read from the source *)
Lemma gen_redaction_rule :
  (forall a, Gen.smtp_cmd_redact a = a) /\
  (forall a c, Gen.smtp_reply_redact a c = a && (300 <=? c) && (c <=? 400)) /\
  Gen.smtp_redacted_placeholder = bs "<SMTP auth data redacted>" /\
  Gen.smtp_auth_deactivation_deferred = true.
Proof. repeat split; reflexivity. Qed.

(* a record that carries nothing of what the client wrote: the constant placeholder record, or the rendering of
   one of the server's replies (with the text of a 3xx reply replaced by the placeholder) *)
Definition clean_record (allowed : reply -> Prop) (r : logrec) : Prop :=
  r = {| lr_c2s := true; lr_text := redacted |} \/ exists rep, allowed rep /\ r = rec_s2c true rep.

Definition LogOK (allowed : reply -> Prop) (l : list logrec) : Prop := Forall (clean_record allowed) l.

Lemma cmd_out_ok : forall (A : reply -> Prop) line r o,
  LogOK A (o_log o) -> A r -> LogOK A (o_log (cmd_out true line r o)).
Proof.
  intros A line r o L Ar. unfold cmd_out, LogOK. simpl. apply Forall_app. split; auto.
  constructor; [left; reflexivity|]. constructor; [|constructor]. right. exists r. auto.
Qed.

Lemma log_snoc_ok : forall (A : reply -> Prop) line r l,
  LogOK A l -> A r -> LogOK A (l ++ [rec_c2s true line; rec_s2c true r]).
Proof. intros A line r l L Ar. apply (cmd_out_ok A line r {| o_sent := []; o_log := l |}); auto. Qed.

Lemma hd_reply_allowed : forall (A : reply -> Prop) script, A RBad -> Forall A script -> A (hd_reply script).
Proof. intros A [|r t] B F; simpl; auto. inversion F; auto. Qed.

Lemma tl_allowed : forall (A : reply -> Prop) script, Forall A script -> Forall A (tl script).
Proof. intros A [|r t] F; simpl; auto. inversion F; auto. Qed.

Lemma abort_ok : forall S (A : reply -> Prop) name res (s : S) script o,
  A RBad -> Forall A script -> LogOK A (o_log o) ->
  LogOK A (o_log (f_out (abort_path true name res s script o))).
Proof.
  intros S A name res s script o B F L. unfold abort_path. destruct (is_xoauth2 name); simpl.
  - apply log_snoc_ok; auto. apply hd_reply_allowed; auto.
  - apply log_snoc_ok; [apply log_snoc_ok; auto; apply hd_reply_allowed; auto|].
    apply hd_reply_allowed; auto. apply tl_allowed; auto.
Qed.

Lemma loop_log_ok : forall S (m : mech S) (A : reply -> Prop) name rest s code msg64 o,
  A RBad -> Forall A rest -> LogOK A (o_log o) ->
  LogOK A (o_log (f_out (auth_loop m true name s code msg64 rest o))).
Proof.
  intros S m A name rest. induction rest as [|r rest IH]; intros s code msg64 o B F L; simpl.
  - destruct (code =? code_challenge).
    + destruct (b64dec (filter no_crlf_byte msg64)) as [dm|]; [|apply abort_ok; auto].
      destruct (m_next m s dm true) as [s' [[resp|]|]]; simpl; auto; [apply (log_snoc_ok A (b64enc resp) RBad); auto|apply abort_ok; auto].
    + destruct (code =? code_success); [|apply abort_ok; auto].
      destruct (m_next m s msg64 false) as [s' [[resp|]|]]; simpl; auto; [apply (log_snoc_ok A (b64enc resp) RBad); auto|apply abort_ok; auto].
  - inversion F as [|x y Ar Frest]; subst.
    assert (K : forall s' resp,
      LogOK A (o_log (f_out match r with
        | Reply c mm => auth_loop m true name s' c mm rest (cmd_out true (b64enc resp) (Reply c mm) o)
        | RBad => {| f_res := AErrIO; f_state := s'; f_out := cmd_out true (b64enc resp) RBad o; f_active := true;
                     f_closed := false; f_rest := rest |}
        end))).
    { intros s' resp. destruct r as [c mm|]; simpl.
      - apply IH; auto. simpl. apply (log_snoc_ok A (b64enc resp) (Reply c mm)); auto.
      - apply (log_snoc_ok A (b64enc resp) RBad); auto. }
    destruct (code =? code_challenge).
    + destruct (b64dec (filter no_crlf_byte msg64)) as [dm|]; [|apply abort_ok; auto].
      destruct (m_next m s dm true) as [s' [[resp|]|]]; simpl; auto; try apply K; apply abort_ok; auto.
    + destruct (code =? code_success); [|apply abort_ok; auto].
      destruct (m_next m s msg64 false) as [s' [[resp|]|]]; simpl; auto; try apply K; apply abort_ok; auto.
Qed.

(* C16: with auth-data logging off, every record of every Auth run is clean *)
Lemma auth_log_clean : forall S (m : mech S) (s : S) (a0 : bool) (script : list reply),
  LogOK (fun rep => rep = RBad \/ In rep script) (o_log (f_out (auth m false a0 s script))).
Proof.
  intros S m s a0 script. unfold auth, deferred. simpl.
  set (A := fun rep => rep = RBad \/ In rep script).
  assert (B : A RBad) by (left; reflexivity).
  assert (F : Forall A script) by (apply Forall_forall; intros x Hx; right; auto).
  assert (L0 : LogOK A (o_log {| o_sent := []; o_log := [] |})) by constructor.
  destruct (m_start m s) as [s' [[name resp]|]]; simpl.
  - destruct script as [|[c mm|] rest]; simpl.
    + constructor; [left; reflexivity | constructor; [right; exists RBad; split; auto | constructor]].
    + inversion F; subst. apply loop_log_ok; auto. simpl.
      constructor; [left; reflexivity | constructor; [right; exists (Reply c mm); split; auto | constructor]].
    + constructor; [left; reflexivity | constructor; [right; exists RBad; split; auto | constructor]].
  - constructor; [left; reflexivity | constructor; [right; exists (hd_reply script); split; auto | constructor]].
    apply hd_reply_allowed; auto.
Qed.

(* the text of a 3xx reply (the challenge) is not logged either while the window is open *)
Lemma reply_3xx_redacted : forall c m, 300 <= c -> c <= 400 ->
  lr_text (rec_s2c true (Reply c m)) = dec_of_N c ++ bs " " ++ redacted.
Proof.
  intros c m L U. unfold rec_s2c, reply_redacted. rewrite (proj1 (proj2 gen_redaction_rule)). simpl.
  apply N.leb_le in L. apply N.leb_le in U. rewrite L, U. reflexivity.
Qed.

(* inside the loop the flag is not touched *)
Lemma abort_active : forall S active name res (s : S) script o,
  f_active (abort_path active name res s script o) = active.
Proof. intros. unfold abort_path. destruct (is_xoauth2 name); reflexivity. Qed.

Lemma loop_active : forall S (m : mech S) active name rest s code msg64 o,
  f_active (auth_loop m active name s code msg64 rest o) = active.
Proof.
  intros S m active name rest. induction rest as [|r rest IH]; intros s code msg64 o; simpl.
  all: destruct (code =? code_challenge);
    [ destruct (b64dec (filter no_crlf_byte msg64)) as [dm|]; [|apply abort_active];
      destruct (m_next m s dm true) as [s' [[resp|]|]]; simpl; auto using abort_active
    | destruct (code =? code_success); [|apply abort_active];
      destruct (m_next m s msg64 false) as [s' [[resp|]|]]; simpl; auto using abort_active ].
  all: destruct r; simpl; auto.
Qed.

(* the redaction window is closed at every return of Auth *)
Lemma auth_window_closed : forall S (m : mech S) (s : S) (lad : bool) (script : list reply),
  f_active (auth m lad false s script) = false.
Proof.
  intros S m s lad script. unfold auth, deferred.
  rewrite (proj2 (proj2 (proj2 gen_redaction_rule))). cbn [f_active].
  destruct Gen.smtp_auth_defer_unconditional; [reflexivity|].
  destruct lad; [|reflexivity].
  destruct (m_start m s) as [s' [[name resp]|]]; [|reflexivity].
  destruct script as [|[c mm|] rest]; try reflexivity.
  apply loop_active.
Qed.

(* hence whatever is sent after Auth is logged verbatim *)
Lemma after_auth_verbatim : forall S (m : mech S) (s : S) (lad : bool) (script : list reply) (line : bytes) (c : N) (t : bytes),
  cmd_after (auth m lad false s script) line (Reply c t) =
  [ {| lr_c2s := true; lr_text := line |}; {| lr_c2s := false; lr_text := dec_of_N c ++ bs " " ++ t |} ].
Proof.
  intros. unfold cmd_after. rewrite auth_window_closed. reflexivity.
Qed.


(* T1: the redaction flag is owned by Auth - no other function of package smtp assigns authIsActive (so a Close, Quit,
   Reset, Noop ... of another goroutine between two SASL steps cannot open the window) *)
Lemma gen_flag_owned_by_auth : Gen.smtp_authIsActive_writers = [bs "Client.Auth"].
Proof. reflexivity. Qed.

(* T1: on entry Auth opens the window exactly when auth-data logging is off - whatever c.debug is at that moment (debug
   logging may be switched on later, while Auth runs) *)
Lemma gen_entry_opens : forall lad dbg, Gen.smtp_auth_entry_opens lad dbg = negb lad.
Proof. reflexivity. Qed.

Lemma auth_x_same : forall S (m : mech S) lad a0 s script, auth_x m lad lad a0 s script = auth m lad a0 s script.
Proof. intros. unfold auth_x, auth. rewrite gen_entry_opens. destruct lad; reflexivity. Qed.

(* the records do not depend on what logAuthData becomes while Auth runs: only on its value at entry *)
Lemma auth_x_log : forall S (m : mech S) lad_exit a0 s script,
  o_log (f_out (auth_x m false lad_exit a0 s script)) = o_log (f_out (auth m false a0 s script)).
Proof. intros. unfold auth_x, auth, deferred. rewrite gen_entry_opens. reflexivity. Qed.

(* whatever subset of the records reaches a logger (debug logging switched on or off, the logger replaced, at any
   moment while Auth runs): every one of them is clean *)
Lemma auth_any_selection_clean : forall S (m : mech S) (s : S) (lad_exit a0 : bool) (script : list reply) (sel : list logrec),
  incl sel (o_log (f_out (auth_x m false lad_exit a0 s script))) ->
  LogOK (fun rep => rep = RBad \/ In rep script) sel.
Proof.
  intros S m s lad_exit a0 script sel I. rewrite auth_x_log in I.
  pose proof (auth_log_clean S m s a0 script) as C. unfold LogOK in *. rewrite Forall_forall in *.
  intros r Hr. apply C. apply I. exact Hr.
Qed.

(* the code as it is: when auth-data logging is switched on WHILE Auth runs, the deferred function does not clear the flag -
   the window stays open and later traffic is logged redacted (no secret leaks; the "closes again" half of the property
   fails for this interleaving).  Recorded known finding window-left-open-after-optin-during-auth. *)
Lemma optin_during_auth_leaves_window_open : forall S (m : mech S) (s : S) (a0 : bool) (script : list reply),
  Gen.smtp_auth_defer_unconditional = false ->
  f_active (auth_x m false true a0 s script) = true.
Proof.
  intros S m s a0 script U. unfold auth_x, deferred. rewrite gen_entry_opens, U.
  rewrite (proj2 (proj2 (proj2 gen_redaction_rule))). cbn [f_active negb].
  destruct (m_start m s) as [s' [[name resp]|]]; [|reflexivity].
  destruct script as [|[c mm|] rest]; try reflexivity. apply loop_active.
Qed.

(* T1: the deferred function of Auth clears the flag unconditionally (the repaired code) ... *)
Lemma gen_defer_unconditional : Gen.smtp_auth_defer_unconditional = true.
Proof. reflexivity. Qed.

(* ... so the window is closed at every return also when logAuthData was changed while Auth ran *)
Lemma auth_x_window_closed : forall S (m : mech S) (s : S) (lad_entry lad_exit a0 : bool) (script : list reply),
  f_active (auth_x m lad_entry lad_exit a0 s script) = false.
Proof.
  intros. unfold auth_x, deferred. rewrite (proj2 (proj2 (proj2 gen_redaction_rule))), gen_defer_unconditional. reflexivity.
Qed.
