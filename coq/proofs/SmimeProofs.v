(* S/MIME rendering (C08): the multipart/signed render keeps the writer invariant (no panic, byte
   accounting, sticky errors); source-derived wrapper constants. *)
From Coq Require Import String.
From Verif Require Import Bytes HeaderFold WordEnc Writer Smime.
From VerifGen Require Import Gen.
From VerifProofs Require Import WriterProofs.
From Coq Require Import Lia ZifyBool ZifyNat ZifyN.
Open Scope nat_scope.

Lemma write_sig_part_spec : forall sig st,
  Inv st -> Inv (write_sig_part sig st) /\ (err st = true -> err (write_sig_part sig st) = true).
Proof.
  intros sig st HI. unfold write_sig_part.
  destruct (Nat.eqb_spec (depth st) 0) as [Hz|Hnz].
  - set (st1 := write_string crlf _).
    assert (K1 : keeps st st1).
    { apply frame_keeps; [exact HI|]. unfold st1. eapply frame_trans; [|apply write_string_frame].
      eapply frame_trans; apply write_header_uncounted_frame. }
    destruct K1 as (HI1 & Hm1 & Hd1).
    destruct (err st1) eqn:He1; [auto|].
    rewrite andthen_run by (apply HI1).
    destruct (write_body_spec (mkprod [sig] false) EncB64 st1 HI1) as (HI2 & Hm2 & _ & _); [left; lia|].
    split; [exact HI2|]. intros He. specialize (Hm1 He). congruence.
  - destruct (new_part_spec [(h_cte, [Gen.enc_b64]); (h_ctype, [Gen.smime_sig_type])] st HI) as (HI1 & Hm1 & Hd1 & Hpw1); [lia|].
    set (st1 := new_part _ st) in *.
    destruct (err st1) eqn:He1; [auto|].
    rewrite andthen_run by (apply HI1).
    destruct (write_body_spec (mkprod [sig] false) EncB64 st1 HI1) as (HI2 & Hm2 & _ & _); [right; auto|].
    split; [exact HI2|]. intros He. specialize (Hm1 He). congruence.
Qed.

Lemma write_resolved_signed_spec : forall z sb sig st,
  Inv st ->
  Inv (write_resolved_signed z sb sig st) /\
  (err st = true -> err (write_resolved_signed z sb sig st) = true) /\
  (rmsg_has_failing_producer z = true -> err (write_resolved_signed z sb sig st) = true).
Proof.
  intros z sb sig st HI. unfold write_resolved_signed.
  destruct (write_top_headers_spec z st HI) as (HI4 & Hm4).
  set (st4 := write_top_headers z st) in *.
  destruct (start_mp_spec Gen.mime_smime_signed sb false st4 HI4) as (HI5a & Hm5a & _).
  set (a := start_mp Gen.mime_smime_signed sb false st4) in *.
  rewrite (andthen_run a (write_string Gen.double_newline)) by (apply HI5a).
  destruct (write_string_ext Gen.double_newline a) as (E & _).
  destruct (E HI5a) as [HI5 Hm5].
  set (st5 := write_string Gen.double_newline a) in *.
  rewrite (andthen_run st5 (write_entity false z)) by (apply HI5).
  destruct (write_entity_spec false z st5 HI5) as (HI6 & Hm6 & Hp6).
  set (st6 := write_entity false z st5) in *.
  rewrite (andthen_run st6 (write_sig_part sig)) by (apply HI6).
  destruct (write_sig_part_spec sig st6 HI6) as (HI7 & Hm7).
  set (st7 := write_sig_part sig st6) in *.
  rewrite (andthen_run st7 stop_mp) by (apply HI7).
  destruct (stop_mp_spec st7 HI7) as (HI8 & Hm8 & _).
  ssplit; [exact HI8| |].
  - intros He. auto 20.
  - intros Hp. auto 20.
Qed.

(* Msg.WriteTo of a signed message on any destination: no panic, count = accepted bytes *)
Theorem signed_render_sound : forall signer date msgid rb sb m k,
  fresh_sink k ->
  let r := write_to_signed signer date msgid rb sb m k in
  s_panic r = false /\ s_n r = length (s_out r).
Proof.
  intros signer date msgid rb sb m k [Ha Hf]. unfold write_to_signed.
  destruct (err (prerender (resolve date msgid rb m))); [cbn; auto|].
  destruct (sign_input (resolve date msgid rb m)) as [inp|]; cbn [s_panic s_n s_out]; [|auto].
  destruct (write_resolved_signed_spec (resolve date msgid rb m) sb (signer inp) (mw_init k) (Inv_init k Ha Hf)) as (HI & _).
  split; apply HI.
Qed.

Theorem signed_render_failure_reported : forall signer date msgid rb sb m k,
  fresh_sink k -> msg_has_failing_producer m = true ->
  s_err (write_to_signed signer date msgid rb sb m k) = true.
Proof.
  intros signer date msgid rb sb m k [Ha Hf] Hp. unfold write_to_signed.
  destruct (err (prerender (resolve date msgid rb m))); [reflexivity|].
  destruct (sign_input (resolve date msgid rb m)) as [inp|]; cbn [s_err]; [|reflexivity].
  destruct (write_resolved_signed_spec (resolve date msgid rb m) sb (signer inp) (mw_init k) (Inv_init k Ha Hf)) as (_ & _ & H).
  apply H. now rewrite resolve_failing.
Qed.

(* source-derived constants of the multipart/signed wrapper and of the signature part *)
Lemma gen_smime_wrapper :
  Gen.mime_smime_signed = bs "signed; protocol=""application/pkcs7-signature""; micalg=sha-256" /\
  Gen.smime_sig_type = bs "application/pkcs7-signature; name=""smime.p7s""".
Proof. split; reflexivity. Qed.

(* the pre-render reports a failing producer (any shape, enclosed form) *)
Lemma prerender_failure : forall z, rmsg_has_failing_producer z = true -> err (prerender z) = true.
Proof.
  intros z H. unfold prerender, write_resolved_gen.
  destruct (write_top_headers_spec z (mw_init unlimited) (Inv_init unlimited eq_refl eq_refl)) as (HI & _).
  destruct (write_entity_spec true z _ HI) as (_ & _ & Hp). now apply Hp.
Qed.

(* signMessage fails when the message cannot be rendered: WriteTo writes nothing, returns (0, err) — on
   every destination *)
Theorem failing_producer_signed : forall signer date msgid rb sb m k,
  msg_has_failing_producer m = true ->
  let r := write_to_signed signer date msgid rb sb m k in
  s_err r = true /\ s_n r = 0 /\ s_out r = [] /\ s_input r = None /\ s_panic r = false.
Proof.
  intros signer date msgid rb sb m k Hp. cbv zeta. unfold write_to_signed.
  rewrite prerender_failure by (now rewrite resolve_failing). cbn. auto.
Qed.

(* before the repair the pre-render's error was ignored: the static-producer model then wrote the
   multipart/signed message up to the failing producer (with an error from the final render); with a
   producer that fails on its first call only — outside this model, exercised by the harness variant
   "flaky" — the real code signed the truncated pre-render, emitted the complete part and returned nil *)
Theorem prerender_error_before_fix_refuted : exists m,
  msg_has_failing_producer m = true /\
  let r := write_to_signed_before_fix (fun _ => bs "SIG") (bs "d") (bs "i") [] (bs "SB") m unlimited in
  s_input r <> None /\ s_out r <> [] /\ Nat.ltb 0 (s_n r) = true.
Proof.
  exists (mkmsg (bs "UTF-8") 113 [] [] None [] [mkpart (bs "text/plain") [] EncQP [] (mkprod [bs "Hello"] true)] [] [] [] [] []).
  vm_compute. repeat split; discriminate.
Qed.
