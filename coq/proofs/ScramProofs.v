(* ScramProofs.v — C15: the SCRAM run of smtp.Client.Auth reports success only after the server has
   proved knowledge of the salted password for this exchange; acknowledgements only for valid server-final
   messages.  All statements are for every reply script (any length, arbitrary bytes), every H / HMAC,
   every PRECIS oracle and every randomness oracle with non-empty draws. *)
From Coq Require Import String ZArith Lia.
From Verif Require Import Bytes Base64 Scram AuthLoop Sasl.
From VerifGen Require Import Gen.
Open Scope N_scope.

(* ---- generic byte-string facts ---- *)
Lemma bytes_eqb_eq : forall a b, bytes_eqb a b = true -> a = b.
Proof.
  induction a as [|x a IH]; destruct b as [|y b]; simpl; intros E; try discriminate; auto.
  apply andb_true_iff in E. destruct E as [E1 E2]. apply N.eqb_eq in E1. subst. f_equal. auto.
Qed.

Lemma bytes_eqb_refl : forall a, bytes_eqb a a = true.
Proof. induction a; simpl; auto. rewrite N.eqb_refl. auto. Qed.

Lemma is_prefix_split : forall p s, is_prefix p s = true -> s = p ++ skipn (length p) s.
Proof.
  induction p as [|x p IH]; intros s E; simpl in *; auto.
  destruct s as [|y s]; try discriminate. apply andb_true_iff in E. destruct E as [E1 E2].
  apply N.eqb_eq in E1. subst. simpl. f_equal. auto.
Qed.

Lemma is_prefix_refl : forall s, is_prefix s s = true.
Proof. induction s; simpl; auto. rewrite N.eqb_refl. auto. Qed.

Lemma is_prefix_trans : forall a b c, is_prefix a b = true -> is_prefix b c = true -> is_prefix a c = true.
Proof.
  induction a as [|x a IH]; intros b c E1 E2; simpl in *; auto.
  destruct b as [|y b]; try discriminate. destruct c as [|z c]; simpl in E2; try discriminate.
  apply andb_true_iff in E1. destruct E1 as [E1 E1']. apply andb_true_iff in E2. destruct E2 as [E2 E2'].
  apply N.eqb_eq in E1. apply N.eqb_eq in E2. subst. rewrite N.eqb_refl. simpl. eauto.
Qed.

Lemma is_nil_true : forall s, is_nil s = true -> s = [].
Proof. destruct s; simpl; auto; discriminate. Qed.

Lemma is_nil_false_app : forall a b, is_nil a = false -> is_nil (a ++ b) = false.
Proof. destruct a; simpl; auto; discriminate. Qed.

Lemma b64enc_nonnil : forall s, is_nil s = false -> is_nil (b64enc s) = false.
Proof. destruct s as [|a [|b [|c t]]]; simpl; auto. Qed.

Lemma b64enc_nil_inv : forall s, b64enc s = [] -> s = [].
Proof. destruct s as [|a [|b [|c t]]]; simpl; auto; discriminate. Qed.

(* T1: the nonce test of handleServerFirstResponse as the source has it *)
Lemma gen_nonce_check : forall nonce_nil has_prefix, Gen.scram_nonce_check nonce_nil has_prefix = nonce_nil || negb has_prefix.
Proof. reflexivity. Qed.

(* T1: the AuthMessage contains the server-first-message as received *)
Lemma gen_authmsg_raw : Gen.scram_authmsg_uses_raw_server_first = true.
Proof. reflexivity. Qed.

Lemma T1_codes : code_challenge = 334 /\ code_success = 235.
Proof. split; reflexivity. Qed.

(* no reply of the list is an empty challenge (which restarts the exchange) *)
Definition NoRestart (l : list reply) : Prop :=
  Forall (fun r => forall m64, r = Reply code_challenge m64 -> go_b64dec m64 <> Some []) l.

Lemma NoRestart_snoc : forall l m64 m0 m, NoRestart l -> go_b64dec m64 = Some (m0 :: m) ->
  NoRestart (l ++ [Reply code_challenge m64]).
Proof.
  intros l m64 m0 m N D. apply Forall_app. split; auto. constructor; [|constructor].
  intros x E. inversion E; subst. rewrite D. discriminate.
Qed.

Section C15.
  Variable H : bytes -> bytes.
  Variable HMAC : bytes -> bytes -> bytes.
  Variable hsize : nat.
  Variable precis : bytes -> option bytes.
  Variable id : scram_id.
  Variable rands0 : list bytes.                      (* the randomness oracle of the run *)
  Hypothesis rands_nonempty : Forall (fun r => is_nil r = false) rands0.

  Let M := scram_mech H HMAC hsize precis cfg_fixed id.
  Let Sig := server_sig HMAC.
  Let Key := fun pw salt it => pbkdf2_key HMAC pw salt it hsize hsize.

  (* the client-first-message of the exchange is line [k] on the wire, its nonce was drawn from the oracle,
     and the nonce the state holds extends it *)
  Definition CFAt (st : scram_state) (sent : list bytes) (k : nat) : Prop :=
    exists cn uname gs2,
      ss_bare st = bs "n=" ++ uname ++ bs ",r=" ++ cn /\
      precis (escape_name (sid_user id)) = Some uname /\
      nth_error sent k = Some (b64enc (gs2 ++ ss_bare st)) /\
      In cn (map b64enc rands0) /\
      is_prefix cn (ss_nonce st) = true.

  (* a well-formed server-first-message whose nonce is the state's (combined) nonce was received, and
     the state holds the salted password and AuthMessage computed from it *)
  Definition SawFirst (st : scram_state) (pre : list reply) : Prop :=
    exists l1 l2 m64 sfirst salt it pw,
      pre = l1 ++ Reply code_challenge m64 :: l2 /\
      go_b64dec m64 = Some sfirst /\
      sf_parse sfirst = Some (ss_nonce st, salt, it) /\
      precis (sid_pass id) = Some pw /\
      ss_salted st = Key pw salt it /\
      ss_authmsg st = ss_bare st ++ bs "," ++ sfirst ++ bs "," ++ msg_without_proof id st (ss_nonce st).

  (* [p] ends with the server-final message that is valid for the state, after the server-first *)
  Definition FinalAt (st : scram_state) (p : list reply) : Prop :=
    exists l1 m64,
      p = l1 ++ [Reply code_challenge m64] /\ SawFirst st l1 /\
      go_b64dec m64 = Some (bs "v=" ++ Sig (ss_salted st) (ss_authmsg st)).

  Definition SawFinal (st : scram_state) (pre : list reply) : Prop :=
    exists p l2, pre = p ++ l2 /\ FinalAt st p.

  (* the exchange that is RUNNING: started by the empty challenge [e] (the last one: no restart in [tail]), whose
     client-first is the line written in answer to [e] *)
  Definition Running (st : scram_state) (pre : list reply) (sent : list bytes) : Prop :=
    exists l0 e tail,
      pre = l0 ++ Reply code_challenge e :: tail /\ go_b64dec e = Some [] /\ NoRestart tail /\
      CFAt st sent (S (length l0)) /\
      (is_nil (ss_authmsg st) = false -> SawFirst st tail) /\
      (ss_verified st = true -> SawFinal st tail).

  (* the conclusion of the property: the script is  l0 ++ [empty challenge] ++ tail ++ [success reply] ++ rest  with no
     restart in tail, the client-first answering that empty challenge, and server-first / valid server-final in tail *)
  Definition Authenticated (script : list reply) (sent : list bytes) : Prop :=
    exists st l0 e tail m rest,
      script = l0 ++ Reply code_challenge e :: tail ++ Reply code_success m :: rest /\
      go_b64dec e = Some [] /\ NoRestart tail /\ CFAt st sent (S (length l0)) /\ SawFinal st tail.

  (* every empty line on the wire answers the valid server-final of the exchange running at that point *)
  Definition AcksValid (pre : list reply) (sent : list bytes) : Prop :=
    forall s1 s2 : list bytes, sent = s1 ++ ([] : bytes) :: s2 ->
      exists st l0 e tail,
        firstn (length s1) pre = l0 ++ Reply code_challenge e :: tail /\ go_b64dec e = Some [] /\ NoRestart tail /\
        CFAt st s1 (S (length l0)) /\ FinalAt st tail /\ (1 <= length s1)%nat.

  Definition same_core (a b : scram_state) : Prop :=
    ss_bare a = ss_bare b /\ ss_nonce a = ss_nonce b /\ ss_salted a = ss_salted b /\
    ss_authmsg a = ss_authmsg b /\ ss_bind a = ss_bind b.

  Lemma SawFirst_core : forall a b pre, same_core a b -> SawFirst a pre -> SawFirst b pre.
  Proof.
    intros a b pre (E1 & E2 & E3 & E4 & E5) (l1 & l2 & m64 & sf & salt & it & pw & P1 & P2 & P3 & P4 & P5 & P6).
    exists l1, l2, m64, sf, salt, it, pw. unfold msg_without_proof in *.
    rewrite <- E1, <- E2, <- E3, <- E4, <- E5. auto 10.
  Qed.

  Lemma SawFirst_app : forall st pre l, SawFirst st pre -> SawFirst st (pre ++ l).
  Proof.
    intros st pre l (l1 & l2 & m64 & sf & salt & it & pw & P1 & P).
    exists l1, (l2 ++ l), m64, sf, salt, it, pw. split; auto. subst. rewrite <- app_assoc. reflexivity.
  Qed.

  Lemma SawFinal_app : forall st pre l, SawFinal st pre -> SawFinal st (pre ++ l).
  Proof.
    intros st pre l (p & l2 & E & F). exists p, (l2 ++ l). split; auto. subst. rewrite app_assoc. reflexivity.
  Qed.

  Lemma CFAt_mono : forall st sent x k, CFAt st sent k -> CFAt st (sent ++ x) k.
  Proof.
    intros st sent x k (cn & un & gs2 & P1 & P2 & P3 & P4 & P5). exists cn, un, gs2.
    repeat split; auto. rewrite nth_error_app1; auto. apply nth_error_Some. rewrite P3. discriminate.
  Qed.

  (* ---- the invariant of the Auth loop ---- *)
  Record Inv (s : scram_state * list bytes) (pre : list reply) (sent : list bytes) : Prop := {
    inv_len : length sent = S (length pre);
    inv_rands : exists used, rands0 = used ++ snd s;
    inv_fresh : is_nil (ss_nonce (fst s)) = true -> pre = [];
    inv_run : is_nil (ss_nonce (fst s)) = false -> Running (fst s) pre sent;
    inv_first : is_nil (ss_authmsg (fst s)) = false -> is_nil (ss_nonce (fst s)) = false;
    inv_salted : is_nil (ss_authmsg (fst s)) = true -> ss_verified (fst s) = false;
    inv_acks : AcksValid pre sent;
    inv_nonempty_head : forall l s2, sent = l :: s2 -> is_nil l = false }.

  Lemma acks_weaken : forall pre l sent,
    (length sent <= S (length pre))%nat -> AcksValid pre sent -> AcksValid (pre ++ l) sent.
  Proof.
    intros pre l sent L A s1 s2 E. destruct (A s1 s2 E) as (st & l0 & e & tail & F & R).
    exists st, l0, e, tail. split; auto.
    assert (length s1 <= length pre)%nat.
    { subst sent. rewrite app_length in L. simpl in L. lia. }
    rewrite firstn_app. replace (length s1 - length pre)%nat with 0%nat by lia.
    simpl. rewrite app_nil_r. auto.
  Qed.

  Lemma acks_snoc : forall pre sent line,
    AcksValid pre sent -> is_nil line = false -> AcksValid pre (sent ++ [line]).
  Proof.
    intros pre sent line A NE s1 s2 E.
    destruct (list_eq_dec (list_eq_dec N.eq_dec) s2 []) as [->|NE2].
    - apply app_inj_tail in E. destruct E as [_ E]. subst line. discriminate.
    - destruct (exists_last NE2) as (s2' & x & ->).
      rewrite app_comm_cons, app_assoc in E. apply app_inj_tail in E. destruct E as [E _].
      apply (A s1 s2' E).
  Qed.

  Lemma acks_snoc_ack : forall st pre sent r l0 e tail,
    length sent = S (length pre) -> AcksValid pre sent ->
    pre = l0 ++ Reply code_challenge e :: tail -> go_b64dec e = Some [] -> NoRestart (tail ++ [r]) ->
    CFAt st sent (S (length l0)) -> FinalAt st (tail ++ [r]) ->
    AcksValid (pre ++ [r]) (sent ++ [[]]).
  Proof.
    intros st pre sent r l0 e tail L A EP D NR C F s1 s2 E.
    destruct (list_eq_dec (list_eq_dec N.eq_dec) s2 []) as [->|NE2].
    - apply app_inj_tail in E. destruct E as [E _]. rewrite <- E. exists st, l0, e, (tail ++ [r]).
      rewrite L. repeat split; auto; [|lia].
      replace (S (length pre)) with (length (pre ++ [r])) by (rewrite app_length; simpl; lia).
      rewrite firstn_all. subst pre. rewrite <- app_assoc. reflexivity.
    - destruct (exists_last NE2) as (s2' & x & ->).
      rewrite app_comm_cons, app_assoc in E. apply app_inj_tail in E. destruct E as [E _].
      assert (A' : AcksValid (pre ++ [r]) sent) by (apply acks_weaken; auto; lia).
      apply (A' s1 s2' E).
  Qed.

  Lemma head_nonempty_app : forall (sent : list bytes) x,
    (forall l s2, sent = l :: s2 -> is_nil l = false) -> (1 <= length sent)%nat ->
    forall l s2, sent ++ x = l :: s2 -> is_nil l = false.
  Proof.
    intros sent x Hd L l s2 E. destruct sent as [|a sent]; simpl in *; [lia|].
    inversion E; subst. eapply Hd. reflexivity.
  Qed.

  (* what the client-first step establishes *)
  Lemma initial_spec : forall st rands st1 rands1 resp,
    initial_client_message precis id (ss_reset st) rands = (st1, rands1, Some resp) ->
    (exists r, rands = r :: rands1) /\
    is_nil resp = false /\
    is_nil (ss_authmsg st1) = true /\ ss_verified st1 = false /\
    (forall used, rands0 = used ++ rands ->
       is_nil (ss_nonce st1) = false /\
       exists uname gs2 cn, ss_bare st1 = bs "n=" ++ uname ++ bs ",r=" ++ cn /\
         precis (escape_name (sid_user id)) = Some uname /\
         resp = gs2 ++ ss_bare st1 /\ ss_nonce st1 = cn /\ In cn (map b64enc rands0)).
  Proof.
    intros st rands st1 rands1 resp E. unfold initial_client_message in E.
    destruct (precis (escape_name (sid_user id))) as [uname|] eqn:PU; [|discriminate].
    destruct rands as [|r rands']; [discriminate|].
    assert (FR : forall used, rands0 = used ++ r :: rands' ->
                 is_nil (b64enc r) = false /\ In (b64enc r) (map b64enc rands0)).
    { intros used U. split.
      - apply b64enc_nonnil. rewrite Forall_forall in rands_nonempty. apply rands_nonempty.
        subst. apply in_or_app. right. left. reflexivity.
      - apply in_map. subst. apply in_or_app. right. left. reflexivity. }
    destruct (sid_plus id).
    - destruct (sid_tls id) as [ti|]; [|discriminate].
      match type of E with (match ?sel with _ => _ end) = _ => destruct sel as [[bt d]|] eqn:SEL end; [|discriminate].
      inversion E; subst; clear E. simpl.
      split; [eauto|]. split; [reflexivity|]. split; [reflexivity|]. split; [reflexivity|].
      intros used U. destruct (FR used U) as [F1 F2]. split; auto.
      exists uname, (bs "p=" ++ bt ++ bs ",,"), (b64enc r). repeat split; auto.
      rewrite <- !app_assoc. reflexivity.
    - inversion E; subst; clear E. simpl.
      split; [eauto|]. split; [reflexivity|]. split; [reflexivity|]. split; [reflexivity|].
      intros used U. destruct (FR used U) as [F1 F2]. split; auto.
      exists uname, (bs "n,,"), (b64enc r). repeat split; auto.
  Qed.

  Lemma first_spec : forall st msg st1 resp,
    handle_server_first H HMAC hsize precis id st msg = Some (st1, resp) ->
    is_nil resp = false /\
    ss_bare st1 = ss_bare st /\ ss_bind st1 = ss_bind st /\ ss_verified st1 = false /\
    is_nil (ss_nonce st) = false /\ is_prefix (ss_nonce st) (ss_nonce st1) = true /\
    is_nil (ss_authmsg st1) = false /\ is_nil (ss_nonce st1) = false /\
    exists salt it pw, sf_parse msg = Some (ss_nonce st1, salt, it) /\ precis (sid_pass id) = Some pw /\
      ss_salted st1 = Key pw salt it /\
      ss_authmsg st1 = ss_bare st1 ++ bs "," ++ msg ++ bs "," ++ msg_without_proof id st1 (ss_nonce st1).
  Proof.
    intros st msg st1 resp E. unfold handle_server_first in E.
    destruct (sf_parse msg) as [[[combined salt] it]|] eqn:P; [|discriminate].
    rewrite gen_nonce_check, gen_authmsg_raw in E.
    destruct (is_nil (ss_nonce st) || negb (is_prefix (ss_nonce st) combined)) eqn:C; [discriminate|].
    apply orb_false_iff in C. destruct C as [C1 C2]. apply negb_false_iff in C2.
    destruct (precis (sid_pass id)) as [pw|] eqn:PP; [|discriminate].
    inversion E; subst; clear E. simpl.
    split. { unfold msg_without_proof. destruct (sid_plus id); reflexivity. }
    repeat split; auto.
    - destruct (ss_bare st); simpl; auto.
    - destruct (ss_nonce st) as [|x t]; [discriminate|]. destruct combined; simpl in C2; [discriminate|reflexivity].
    - exists salt, it, pw. repeat split; auto.
  Qed.

  Lemma final_spec : forall st msg st1 resp,
    handle_server_final HMAC cfg_fixed st msg = Some (st1, resp) ->
    resp = [] /\ same_core st st1 /\ ss_verified st1 = true /\
    is_nil (ss_authmsg st) = false /\
    skipn 2 msg = Sig (ss_salted st) (ss_authmsg st).
  Proof.
    intros st msg st1 resp E. unfold handle_server_final in E.
    change (final_requires_first cfg_fixed) with true in E. rewrite andb_true_l in E.
    destruct (is_nil (ss_salted st) || is_nil (ss_authmsg st)) eqn:C; [discriminate|].
    apply orb_false_iff in C. destruct C as [C1 C2].
    destruct (bytes_eqb (skipn 2 msg) (server_sig HMAC (ss_salted st) (ss_authmsg st))) eqn:B; [|discriminate].
    inversion E; subst; clear E. simpl. unfold same_core. simpl.
    repeat split; auto. apply bytes_eqb_eq. auto.
  Qed.

  Lemma reset_inv_fields : forall st,
    is_nil (ss_nonce (ss_reset st)) = true /\ is_nil (ss_authmsg (ss_reset st)) = true /\ ss_verified (ss_reset st) = false.
  Proof. intros. repeat split. Qed.


  Lemma CFAt_core : forall a b sent k,
    ss_bare a = ss_bare b -> ss_nonce a = ss_nonce b -> CFAt a sent k -> CFAt b sent k.
  Proof.
    intros a b sent k E1 E2 (cn & un & gs2 & P). exists cn, un, gs2. rewrite <- E1, <- E2. auto.
  Qed.

  Lemma CFAt_ext : forall a b sent k,
    ss_bare a = ss_bare b -> is_prefix (ss_nonce a) (ss_nonce b) = true ->
    CFAt a sent k -> CFAt b sent k.
  Proof.
    intros a b sent k E1 E2 (cn & un & gs2 & P1 & P2 & P3 & P4 & P5). exists cn, un, gs2. rewrite <- E1.
    repeat split; auto. eapply is_prefix_trans; eauto.
  Qed.

  (* ---- one challenge that is answered: the invariant is preserved ---- *)
  Lemma step_inv : forall s pre sent msg64 msg s' resp,
    Inv s pre sent ->
    go_b64dec msg64 = Some msg ->
    m_next M s msg true = (s', Some (Some resp)) ->
    Inv s' (pre ++ [Reply code_challenge msg64]) (sent ++ [b64enc resp]).
  Proof.
    intros [st rands] pre sent msg64 msg s' resp I D E.
    destruct I as [IL IR IF IRUN IFI IS IA IH]. simpl in *.
    assert (L1 : (1 <= length sent)%nat) by lia.
    unfold scram_next in E. simpl in E.
    destruct msg as [|m0 msg'].
    - (* empty challenge: the exchange (re)starts with a new client-first *)
      destruct (initial_client_message precis id (ss_reset st) rands) as [[st1 rands1] [r|]] eqn:IC;
        inversion E; subst; clear E.
      destruct (initial_spec _ _ _ _ _ IC) as ((r0 & RE) & NE & AM & VF & Rest).
      destruct IR as (used & IR). destruct (Rest used IR) as (NN & uname & gs2 & cn & B1 & B2 & B3 & B4 & B5).
      constructor; simpl.
      + rewrite !app_length. simpl. lia.
      + exists (used ++ [r0]). rewrite <- app_assoc. simpl. subst rands. auto.
      + intros X. rewrite X in NN. discriminate.
      + intros _. exists pre, msg64, []. repeat split; auto.
        * constructor.
        * exists cn, uname, gs2. repeat split; auto.
          -- rewrite nth_error_app2 by lia. rewrite IL, Nat.sub_diag. simpl. subst resp. reflexivity.
          -- rewrite B4. apply is_prefix_refl.
        * intros X. rewrite X in AM. discriminate.
        * intros X. rewrite X in VF. discriminate.
      + intros X. rewrite X in AM. discriminate.
      + auto.
      + apply acks_snoc; [apply acks_weaken; auto; lia | apply b64enc_nonnil; auto].
      + apply head_nonempty_app; auto.
    - remember (m0 :: msg') as msg.
      assert (E' : (if is_prefix (bs "r=") msg
                    then match handle_server_first H HMAC hsize precis id st msg with
                         | Some (st1, r) => ((st1, rands), Some (Some r))
                         | None => ((ss_reset st, rands), None)
                         end
                    else if is_prefix (bs "v=") msg
                         then match handle_server_final HMAC cfg_fixed st msg with
                              | Some (st1, r) => ((st1, rands), Some (Some r))
                              | None => ((ss_reset st, rands), None)
                              end
                         else ((ss_reset st, rands), None)) = (s', Some (Some resp))).
      { subst msg. exact E. }
      clear E.
      assert (NRS : forall tail, NoRestart tail -> NoRestart (tail ++ [Reply code_challenge msg64])).
      { intros tail NT. subst msg. eapply NoRestart_snoc; eauto. }
      assert (APP : forall l0 e tail, pre = l0 ++ Reply code_challenge e :: tail ->
                pre ++ [Reply code_challenge msg64] = l0 ++ Reply code_challenge e :: (tail ++ [Reply code_challenge msg64])).
      { intros l0 e tail ->. rewrite <- app_assoc. reflexivity. }
      destruct (is_prefix (bs "r=") msg) eqn:PR.
      + (* server-first *)
        destruct (handle_server_first H HMAC hsize precis id st msg) as [[st1 r]|] eqn:HF;
          inversion E'; subst s' resp; clear E'.
        destruct (first_spec _ _ _ _ HF) as (NE & B1 & B2 & VF & N0 & PX & AM & N1 & salt & it & pw & Q1 & Q2 & Q3 & Q4).
        destruct (IRUN N0) as (l0 & e & tail & EP & DE & NT & CF & _ & _).
        constructor; simpl.
        * rewrite !app_length. simpl. lia.
        * auto.
        * intros X. rewrite X in N1. discriminate.
        * intros _. exists l0, e, (tail ++ [Reply code_challenge msg64]). repeat split; auto.
          -- apply CFAt_mono. eapply CFAt_ext; [| |exact CF]; auto.
          -- intros _. exists tail, [], msg64, msg, salt, it, pw. repeat split; auto.
          -- intros X. rewrite X in VF. discriminate.
        * auto.
        * intros X. rewrite X in AM. discriminate.
        * apply acks_snoc; [apply acks_weaken; auto; lia | apply b64enc_nonnil; auto].
        * apply head_nonempty_app; auto.
      + destruct (is_prefix (bs "v=") msg) eqn:PV; [|discriminate].
        (* server-final *)
        destruct (handle_server_final HMAC cfg_fixed st msg) as [[st1 r]|] eqn:HF;
          inversion E'; subst s' resp; clear E'.
        destruct (final_spec _ _ _ _ HF) as (RN & SC & VT & AM & SG). subst r.
        pose proof (IFI AM) as NN.
        destruct (IRUN NN) as (l0 & e & tail & EP & DE & NT & CF & SFI & _).
        pose proof (SFI AM) as SF.
        pose proof SC as (C1 & C2 & C3 & C4 & C5).
        assert (CF1 : CFAt st1 sent (S (length l0))) by (eapply CFAt_core; [| |exact CF]; auto).
        assert (FA : FinalAt st1 (tail ++ [Reply code_challenge msg64])).
        { exists tail, msg64. split; auto. split; [eapply SawFirst_core; eauto|].
          rewrite D. f_equal. rewrite <- C3, <- C4, <- SG.
          apply (is_prefix_split (bs "v=") msg PV). }
        constructor; simpl.
        * rewrite !app_length. simpl. lia.
        * auto.
        * intros X. rewrite <- C2 in X. rewrite X in NN. discriminate.
        * intros _. exists l0, e, (tail ++ [Reply code_challenge msg64]). repeat split; auto.
          -- apply CFAt_mono. auto.
          -- intros _. apply SawFirst_app. eapply SawFirst_core; eauto.
          -- intros _. exists (tail ++ [Reply code_challenge msg64]), []. rewrite app_nil_r. auto.
        * intros _. rewrite <- C2. auto.
        * intros X. rewrite <- C4 in X. rewrite X in AM. discriminate.
        * apply (acks_snoc_ack st1 pre sent _ l0 e tail); auto.
        * apply head_nonempty_app; auto.
  Qed.

  (* ---- the loop ---- *)
  Definition Good (script : list reply) (f : final (scram_state * list bytes)) : Prop :=
    (f_res f = ASuccess ->
       Authenticated script (o_sent (f_out f)) \/ (exists m rest, script = Reply code_success m :: rest)) /\
    AcksValid script (o_sent (f_out f)).

  Lemma abort_good : forall active name res s rest o pre l,
    res <> ASuccess ->
    (length (o_sent o) <= S (length pre))%nat -> AcksValid pre (o_sent o) ->
    Good (pre ++ l) (abort_path active name res s rest o).
  Proof.
    intros active name res s rest o pre l NS L A. split.
    - unfold abort_path. destruct (is_xoauth2 name); simpl; intros X; congruence.
    - unfold abort_path. destruct (is_xoauth2 name); simpl.
      + apply acks_snoc; [apply acks_weaken; auto | reflexivity].
      + apply acks_snoc; [apply acks_snoc; [apply acks_weaken; auto | reflexivity] | reflexivity].
  Qed.

  Lemma auth_loop_eq : forall active name s code msg64 rest o,
    auth_loop M active name s code msg64 rest o =
    let dec : auth_result + (bytes * bool) :=
      if code =? code_challenge then
        match go_b64dec msg64 with
        | Some msg => inr (msg, true)
        | None => inl AErrDecode
        end
      else if code =? code_success then inr (msg64, false)
      else inl (AErrServer code) in
    match dec with
    | inl e => abort_path active name e s rest o
    | inr (msg, more) =>
        match m_next M s msg more with
        | (s', None) => abort_path active name AErrMech s' rest o
        | (s', Some None) =>
            {| f_res := ASuccess; f_state := s'; f_out := o; f_active := active; f_closed := false; f_rest := rest |}
        | (s', Some (Some resp)) =>
            let line := b64enc resp in
            match rest with
            | Reply c mm :: rest' => auth_loop M active name s' c mm rest' (cmd_out active line (Reply c mm) o)
            | _ => {| f_res := AErrIO; f_state := s'; f_out := cmd_out active line RBad o; f_active := active;
                      f_closed := false; f_rest := tl rest |}
            end
        end
    end.
  Proof. intros. destruct rest; reflexivity. Qed.

  Lemma next_more_never_nil : forall s msg s', m_next M s msg true <> (s', Some None).
  Proof.
    intros [st rands] msg s' NX. unfold M, scram_mech, m_next, scram_next in NX. cbn [fst snd restart_resets cfg_fixed] in NX.
    destruct msg as [|m0 msg'].
    - destruct (initial_client_message precis id (ss_reset st) rands) as [[? ?] [?|]]; discriminate.
    - remember (m0 :: msg') as msg eqn:EM.
      assert (NX' : (if is_prefix (bs "r=") msg
                    then match handle_server_first H HMAC hsize precis id st msg with
                         | Some (st1, r) => ((st1, rands), Some (Some r))
                         | None => ((ss_reset st, rands), None)
                         end
                    else if is_prefix (bs "v=") msg
                         then match handle_server_final HMAC cfg_fixed st msg with
                              | Some (st1, r) => ((st1, rands), Some (Some r))
                              | None => ((ss_reset st, rands), None)
                              end
                         else ((ss_reset st, rands), None)) = (s', @Some (option bytes) None)).
      { subst msg. exact NX. }
      clear NX. destruct (is_prefix (bs "r=") msg).
      + destruct (handle_server_first H HMAC hsize precis id st msg) as [[? ?]|]; discriminate.
      + destruct (is_prefix (bs "v=") msg).
        * destruct (handle_server_final HMAC cfg_fixed st msg) as [[? ?]|]; discriminate.
        * discriminate.
  Qed.

  Lemma done_good : forall s pre o rest active name msg64,
    Inv s pre (o_sent o) ->
    Good (pre ++ Reply code_success msg64 :: rest)
      match m_next M s msg64 false with
      | (s', None) => abort_path active name AErrMech s' rest o
      | (s', Some None) =>
          {| f_res := ASuccess; f_state := s'; f_out := o; f_active := active; f_closed := false; f_rest := rest |}
      | (s', Some (Some resp)) =>
          match rest with
          | Reply c mm :: rest' => auth_loop M active name s' c mm rest' (cmd_out active (b64enc resp) (Reply c mm) o)
          | _ => {| f_res := AErrIO; f_state := s'; f_out := cmd_out active (b64enc resp) RBad o; f_active := active;
                    f_closed := false; f_rest := tl rest |}
          end
      end.
  Proof.
    intros [st rands] pre o rest active name msg64 I.
    pose proof (inv_len _ _ _ I) as IL. pose proof (inv_acks _ _ _ I) as IA.
    unfold M. simpl. unfold scram_next. simpl.
    destruct (negb (is_nil (ss_nonce st)) && negb (ss_verified st)) eqn:G.
    - apply abort_good; auto; [discriminate|lia].
    - split; [|simpl; apply acks_weaken; auto; lia]. intros _. simpl.
      apply andb_false_iff in G. destruct G as [G|G]; apply negb_false_iff in G.
      + right. pose proof (inv_fresh _ _ _ I G) as X. simpl in X. subst pre. exists msg64, rest. reflexivity.
      + left.
        destruct (is_nil (ss_authmsg st)) eqn:AM.
        { pose proof (inv_salted _ _ _ I AM) as X. simpl in X. congruence. }
        pose proof (inv_first _ _ _ I AM) as NN. simpl in NN.
        destruct (inv_run _ _ _ I NN) as (l0 & e & tail & EP & DE & NT & CF & _ & SFN). simpl in *.
        exists st, l0, e, tail, msg64, rest. repeat split; auto.
        subst pre. rewrite <- app_assoc. reflexivity.
  Qed.

  Lemma loop_good : forall rest active name s code msg64 o pre,
    Inv s pre (o_sent o) ->
    Good (pre ++ Reply code msg64 :: rest) (auth_loop M active name s code msg64 rest o).
  Proof.
    induction rest as [|r rest IH]; intros active name s code msg64 o pre I; rewrite auth_loop_eq; cbv zeta;
      pose proof (inv_len _ _ _ I) as IL; pose proof (inv_acks _ _ _ I) as IA.
    - destruct (code =? code_challenge) eqn:C1.
      + apply N.eqb_eq in C1. subst code.
        destruct (go_b64dec msg64) as [msg|] eqn:D; [|apply abort_good; auto; [discriminate|lia]].
        destruct (m_next M s msg true) as [s' [[resp|]|]] eqn:NX.
        * pose proof (step_inv _ _ _ _ _ _ _ I D NX) as I'.
          split; [simpl; discriminate|]. simpl. apply (inv_acks _ _ _ I').
        * exfalso. eapply next_more_never_nil; eauto.
        * apply abort_good; auto; [discriminate|lia].
      + destruct (code =? code_success) eqn:C2; [|apply abort_good; auto; [discriminate|lia]].
        apply N.eqb_eq in C2. subst code. exact (done_good s pre o [] active name msg64 I).
    - destruct (code =? code_challenge) eqn:C1.
      + apply N.eqb_eq in C1. subst code.
        destruct (go_b64dec msg64) as [msg|] eqn:D; [|apply abort_good; auto; [discriminate|lia]].
        destruct (m_next M s msg true) as [s' [[resp|]|]] eqn:NX.
        * pose proof (step_inv _ _ _ _ _ _ _ I D NX) as I'.
          replace (pre ++ Reply code_challenge msg64 :: r :: rest)
            with ((pre ++ [Reply code_challenge msg64]) ++ r :: rest) by (rewrite <- app_assoc; reflexivity).
          destruct r as [c mm|].
          { apply IH. simpl. exact I'. }
          { split; [simpl; discriminate|]. simpl.
            apply acks_weaken; [|apply (inv_acks _ _ _ I')]. rewrite (inv_len _ _ _ I'). lia. }
        * exfalso. eapply next_more_never_nil; eauto.
        * apply abort_good; auto; [discriminate|lia].
      + destruct (code =? code_success) eqn:C2; [|apply abort_good; auto; [discriminate|lia]].
        apply N.eqb_eq in C2. subst code. exact (done_good s pre o (r :: rest) active name msg64 I).
  Qed.

  (* ---- smtp.Client.Auth with a scramAuth value in any prior state ---- *)
  Lemma auth_good : forall st lad a0 script,
    Good script (auth M lad a0 (st, rands0) script).
  Proof.
    intros st lad a0 script. unfold auth, Good, deferred. simpl.
    set (line := bs "AUTH " ++ sid_algo id).
    assert (I0 : forall c mm active, Inv (ss_reset st, rands0) [] (o_sent (cmd_out active line (Reply c mm) {| o_sent := []; o_log := [] |}))).
    { intros. constructor; simpl; auto.
      - exists []. reflexivity.
      - discriminate.
      - intros s1 s2 E. destruct s1 as [|x s1]; [inversion E|]. inversion E. destruct s1; discriminate.
      - intros l s2 E. inversion E. reflexivity. }
    destruct script as [|[c mm|] rest]; simpl.
    - split; [discriminate|]. intros s1 s2 E. destruct s1 as [|x s1]; [inversion E|]. inversion E. destruct s1; discriminate.
    - apply (loop_good rest _ _ _ c mm _ [] (I0 c mm _)).
    - split; [discriminate|]. intros s1 s2 E. destruct s1 as [|x s1]; [inversion E|]. inversion E. destruct s1; discriminate.
  Qed.
End C15.

(* ---- the state-free reading of the result ---- *)
(* The exchange started by the empty challenge [e] that follows [l0] in the script: [tail] (the replies after [e]) contains
   no further empty challenge (no restart), the client-first written in answer to [e] is line S |l0| on the wire and carries a
   nonce drawn from the oracle, [tail] = t1 ++ [server-first] ++ t2 ++ [server-final] ++ t3 with a well-formed server-first
   whose nonce extends the client nonce and the ServerSignature over this exchange's AuthMessage under the salted password. *)
Definition RunningExchange (HMAC : bytes -> bytes -> bytes) (hsize : nat) (precis : bytes -> option bytes)
           (id : scram_id) (rands : list bytes) (sent : list bytes)
           (l0 : list reply) (e : bytes) (tail t3 : list reply) : Prop :=
  exists t1 mi t2 mj sfirst salt it pw cn uname gs2 combined cbind,
    tail = t1 ++ Reply code_challenge mi :: t2 ++ Reply code_challenge mj :: t3 /\
    go_b64dec e = Some [] /\ NoRestart tail /\
    (* the client-first-message of this exchange *)
    nth_error sent (S (length l0)) = Some (b64enc (gs2 ++ bs "n=" ++ uname ++ bs ",r=" ++ cn)) /\
    In cn (map b64enc rands) /\
    precis (escape_name (sid_user id)) = Some uname /\
    (* a well-formed server-first-message whose nonce extends the client nonce *)
    go_b64dec mi = Some sfirst /\ sf_parse sfirst = Some (combined, salt, it) /\ is_prefix cn combined = true /\
    (* the server signature over this exchange's AuthMessage under the salted password *)
    precis (sid_pass id) = Some pw /\
    go_b64dec mj = Some (bs "v=" ++ server_sig HMAC (pbkdf2_key HMAC pw salt it hsize hsize)
                            ((bs "n=" ++ uname ++ bs ",r=" ++ cn) ++ bs "," ++ sfirst ++ bs "," ++
                             bs "c=" ++ cbind ++ bs ",r=" ++ combined)).

Lemma running_exchange_intro : forall HMAC hsize precis id rands st sent l0 e p t3,
  go_b64dec e = Some [] -> NoRestart (p ++ t3) ->
  CFAt precis id rands st sent (S (length l0)) -> FinalAt HMAC hsize precis id st p ->
  RunningExchange HMAC hsize precis id rands sent l0 e (p ++ t3) t3.
Proof.
  intros HMAC hsize precis id rands st sent l0 e p t3 DE NR (cn & un & gs2 & C1 & C2 & C3 & C4 & C5)
         (l1' & mj & E & (l1 & l2 & mi & sf & salt & it & pw & S1 & S2 & S3 & S4 & S5 & S6) & F).
  exists l1, mi, l2, mj, sf, salt, it, pw, cn, un, gs2, (ss_nonce st),
         (if sid_plus id then ss_bind st else bs "biws").
  rewrite S5, S6, C1 in F. rewrite C1 in C3.
  repeat split; auto.
  - subst. rewrite <- !app_assoc. reflexivity.
  - rewrite F. unfold msg_without_proof. destruct (sid_plus id); reflexivity.
Qed.

Definition gen_scram_cfg : scram_cfg :=
  {| start_resets := Gen.scram_start_resets;
     final_requires_first := Gen.scram_final_requires_first;
     done_requires_verified := Gen.scram_done_requires_verified;
     restart_resets := Gen.scram_restart_resets |}.

(* T1: the working tree has the three repairs and restarts an exchange from a clean state *)
Lemma gen_scram_cfg_fixed : gen_scram_cfg = cfg_fixed.
Proof. reflexivity. Qed.

Lemma scram_success_authenticated :
  forall (H : bytes -> bytes) (HMAC : bytes -> bytes -> bytes) (hsize : nat) (precis : bytes -> option bytes)
         (id : scram_id) (rands : list bytes) (st : scram_state) (lad a0 : bool) (script : list reply),
    Forall (fun r => is_nil r = false) rands ->
    let f := auth (scram_mech H HMAC hsize precis gen_scram_cfg id) lad a0 (st, rands) script in
    f_res f = ASuccess ->
    (exists l0 e tail t3 m rest,
        script = l0 ++ Reply code_challenge e :: tail ++ Reply code_success m :: rest /\
        RunningExchange HMAC hsize precis id rands (o_sent (f_out f)) l0 e tail t3)
    \/ (exists m rest, script = Reply code_success m :: rest).
Proof.
  intros H HMAC hsize precis id rands st lad a0 script NE f S. subst f. rewrite gen_scram_cfg_fixed in *.
  destruct (auth_good H HMAC hsize precis id rands NE st lad a0 script) as [G _].
  destruct (G S) as [(st' & l0 & e & tail & m & rest & ES & DE & NR & C & (p & l2 & E & F))|B]; [left|right; auto].
  exists l0, e, tail, l2, m, rest. split; auto. subst tail. eapply running_exchange_intro; eauto.
Qed.

Lemma scram_ack_only_valid_final :
  forall (H : bytes -> bytes) (HMAC : bytes -> bytes -> bytes) (hsize : nat) (precis : bytes -> option bytes)
         (id : scram_id) (rands : list bytes) (st : scram_state) (lad a0 : bool) (script : list reply),
    Forall (fun r => is_nil r = false) rands ->
    let f := auth (scram_mech H HMAC hsize precis gen_scram_cfg id) lad a0 (st, rands) script in
    forall s1 s2 : list bytes, o_sent (f_out f) = s1 ++ ([] : bytes) :: s2 ->
      exists l0 e tail,
        firstn (length s1) script = l0 ++ Reply code_challenge e :: tail /\
        RunningExchange HMAC hsize precis id rands s1 l0 e tail [].
Proof.
  intros H HMAC hsize precis id rands st lad a0 script NE f s1 s2 E. subst f. rewrite gen_scram_cfg_fixed in *.
  destruct (auth_good H HMAC hsize precis id rands NE st lad a0 script) as [_ A].
  destruct (A s1 s2 E) as (st' & l0 & e & tail & EF & DE & NR & C & F & _).
  exists l0, e, tail. split; auto.
  rewrite <- (app_nil_r tail). eapply running_exchange_intro; eauto. rewrite app_nil_r. auto.
Qed.

(* the recorded class: the AUTH command itself is answered with the success code *)
Lemma scram_bare_success_refuted :
  forall (H : bytes -> bytes) (HMAC : bytes -> bytes -> bytes) (hsize : nat) (precis : bytes -> option bytes)
         (id : scram_id) (rands : list bytes) (st : scram_state),
  exists script,
    let f := auth (scram_mech H HMAC hsize precis gen_scram_cfg id) false false (st, rands) script in
    f_res f = ASuccess /\
    ~ (exists l0 e tail t3 m rest,
        script = l0 ++ Reply code_challenge e :: tail ++ Reply code_success m :: rest /\
        RunningExchange HMAC hsize precis id rands (o_sent (f_out f)) l0 e tail t3).
Proof.
  intros. exists [Reply code_success []]. split; [reflexivity|].
  intros (l0 & e & tail & t3 & m & rest & E & _).
  assert (I : In (Reply code_challenge e) [Reply code_success []]).
  { rewrite E. apply in_or_app. right. left. reflexivity. }
  destruct I as [I|[]]. discriminate.
Qed.

(* the statement is about the RUNNING exchange: a script in which the exchange was restarted after a completed one
   (empty challenge, server-first, server-final, empty challenge, success) does not satisfy the conclusion *)
Lemma app_cons_split : forall (A : Type) (l0 : list A) x r a L,
  l0 ++ x :: r = a :: L -> (l0 = [] /\ x = a /\ r = L) \/ (exists l0', l0 = a :: l0' /\ l0' ++ x :: r = L).
Proof.
  intros A [|b l0] x r a L E; simpl in E; inversion E; subst; [left; auto|right; eauto].
Qed.

Lemma restart_invalidates_earlier_exchange :
  forall HMAC hsize precis id rands sent mf mv m,
    go_b64dec mf <> Some [] -> go_b64dec mv <> Some [] ->
    ~ (exists l0 e tail t3 m' rest,
        [Reply code_challenge []; Reply code_challenge mf; Reply code_challenge mv; Reply code_challenge []; Reply code_success m]
          = l0 ++ Reply code_challenge e :: tail ++ Reply code_success m' :: rest /\
        RunningExchange HMAC hsize precis id rands sent l0 e tail t3).
Proof.
  intros HMAC hsize precis id rands sent mf mv m NF NV (l0 & e & tail & t3 & m' & rest & E & R).
  destruct R as (t1 & mi & t2 & mj & sf & salt & it & pw & cn & un & gs2 & cmb & cb & ET & DE & NR & _).
  symmetry in E.
  apply app_cons_split in E. destruct E as [(-> & E0 & E)|(l1 & -> & E)].
  - (* the exchange starts at the first empty challenge: the second one lies in tail *)
    apply app_cons_split in E. destruct E as [(-> & E1 & _)|(u1 & -> & E)]; [discriminate|].
    apply app_cons_split in E. destruct E as [(-> & E1 & _)|(u2 & -> & E)]; [discriminate|].
    apply app_cons_split in E. destruct E as [(-> & E1 & _)|(u3 & -> & E)]; [discriminate|].
    inversion NR as [|x y _ NR1]; subst. inversion NR1 as [|x y _ NR2]; subst. inversion NR2 as [|x y P _]; subst.
    apply (P [] eq_refl). reflexivity.
  - apply app_cons_split in E. destruct E as [(-> & E1 & _)|(l2 & -> & E)].
    { inversion E1; subst. contradiction. }
    apply app_cons_split in E. destruct E as [(-> & E1 & _)|(l3 & -> & E)].
    { inversion E1; subst. contradiction. }
    apply app_cons_split in E. destruct E as [(-> & E1 & E)|(l4 & -> & E)].
    + (* the exchange starts at the second empty challenge: nothing but the success reply follows *)
      apply app_cons_split in E. destruct E as [(-> & _ & _)|(u1 & -> & E)].
      * destruct t1; discriminate.
      * destruct u1; discriminate.
    + apply app_cons_split in E. destruct E as [(-> & E1 & _)|(l5 & -> & E)]; [discriminate|].
      destruct l5; discriminate.
Qed.

(* T1: the error paths of the two server-message handlers return a constructed error, never (nil, nil) *)
Lemma gen_error_returns_constructed : Gen.scram_error_returns_constructed = true.
Proof. reflexivity. Qed.

(* a challenge (334) never ends the exchange silently: Next(_, more = true) of scramAuth never returns (nil, nil), which
   smtp.Client.Auth would take for "finished" and report as success without a 235 *)
Lemma scram_challenge_never_nil : forall H HMAC hsize precis id s msg s',
  m_next (scram_mech H HMAC hsize precis gen_scram_cfg id) s msg true <> (s', Some None).
Proof. intros. rewrite gen_scram_cfg_fixed. apply next_more_never_nil. Qed.

(* T1: nothing outside the scramAuth value carries over from one dialogue to the next: internal/pbkdf2 has no package-level
   variable, no scramAuth method assigns a package-level variable of package smtp, reset() only assigns fields *)
Lemma gen_no_cross_dialogue_state :
  Gen.pbkdf2_package_vars = [] /\ Gen.scram_package_var_writes = [] /\ Gen.scram_reset_only_assigns_fields = true.
Proof. repeat split; reflexivity. Qed.

(* every dialogue of any sequence - whatever state its scramAuth value is in (fresh, or left by any history of earlier
   dialogues), whatever is left of the randomness oracle - satisfies the single-dialogue statement *)
Lemma scram_every_dialogue_authenticated :
  forall (H : bytes -> bytes) (HMAC : bytes -> bytes -> bytes) (hsize : nat) (precis : bytes -> option bytes)
         (id : scram_id) (lad a0 : bool) (ds : list (scram_state * list bytes * list reply)),
    Forall (fun d => Forall (fun r => is_nil r = false) (snd (fst d))) ds ->
    Forall (fun d =>
      let f := auth (scram_mech H HMAC hsize precis gen_scram_cfg id) lad a0 (fst (fst d), snd (fst d)) (snd d) in
      f_res f = ASuccess ->
      (exists l0 e tail t3 m rest,
          snd d = l0 ++ Reply code_challenge e :: tail ++ Reply code_success m :: rest /\
          RunningExchange HMAC hsize precis id (snd (fst d)) (o_sent (f_out f)) l0 e tail t3)
      \/ (exists m rest, snd d = Reply code_success m :: rest)) ds.
Proof.
  intros H HMAC hsize precis id lad a0 ds F. rewrite Forall_forall in *. intros [[st rands] script] I. simpl.
  apply scram_success_authenticated. exact (F _ I).
Qed.

(* T1: literals of the computation the model hard-codes *)
Lemma gen_scram_literals :
  Gen.scram_lits_client_proof = [bs "Client Key"] /\ Gen.scram_lits_server_sig = [bs "Server Key"] /\
  Gen.scram_nonce_bytes = 24 /\
  existsb (bytes_eqb (bs "n,,")) Gen.scram_lits_initial = true /\
  existsb (bytes_eqb (bs "tls-unique")) Gen.scram_lits_initial = true /\
  existsb (bytes_eqb (bs "tls-exporter")) Gen.scram_lits_initial = true /\
  existsb (bytes_eqb (bs "EXPORTER-Channel-Binding")) Gen.scram_lits_initial = true /\
  existsb (bytes_eqb (bs "c=biws,r=")) Gen.scram_lits_server_first = true /\
  Gen.smtp_auth_code_more = Gen.smtp_auth_code_challenge.
Proof. repeat split; reflexivity. Qed.
