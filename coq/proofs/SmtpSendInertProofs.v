(* SmtpSendInertProofs.v — capabilities the code never consults are inert (C03/C04).
   The client looks at the server's EHLO keywords only through Extension("…") / ext["…"] for a fixed list of names
   (T1: Gen.consulted_extensions); the reference server's legality rules mention the same names.  [norm] removes
   every other keyword from a capability list.  Every function of the model commutes with normalising all
   capability lists of the state (by induction over the program), hence a run with arbitrary capability sets and
   the run with the normalised sets produce the same trace, the same replies, the same commit log and the same
   per-message results. *)
From Coq Require Import String.
From Verif Require Import Bytes Textproto SendErr RefServer SmtpSend.
Open Scope N_scope.

Definition consulted (e : ext) : bool := match e with EOther _ => false | _ => true end.
Definition norm (l : list ext) : list ext := filter consulted l.

Definition normS (s : srv) : srv :=
  mkSrv (norm (s_caps s)) (norm (s_caps_tls s)) (s_tls s) (s_open s) (s_helo s) (norm (s_ext s))
        (s_txn s) (s_rej s) (s_from s) (s_rcpt s) (s_data s).
Definition normC (c : cli) : cli :=
  mkC (c_open c) (c_dot c) (option_map norm (c_ext c)) (c_mr c) (c_rn c).
Definition normW (w : world) : world :=
  mkW (w_script w) (normS (w_srv w)) (w_queue w) (w_trace w) (w_attr w) (w_commits w).
Definition normSt (st : state) : state := (normC (fst st), normW (snd st)).

Lemma has_norm : forall l e, consulted e = true -> has_ext (norm l) e = has_ext l e.
Proof.
  unfold has_ext, norm. induction l as [|x t IH]; intros e He; [reflexivity|]. cbn [filter existsb].
  destruct (consulted x) eqn:Hx; cbn [existsb]; rewrite (IH e He); [reflexivity|].
  destruct x; try discriminate. destruct e; try discriminate; reflexivity.
Qed.

Lemma norm_idem : forall l, norm (norm l) = norm l.
Proof.
  induction l as [|x t IH]; [reflexivity|]. unfold norm in *. cbn [filter].
  destruct (consulted x) eqn:Hx; cbn [filter]; rewrite ?Hx, IH; reflexivity.
Qed.

Lemma forallb_ext2 : forall (A : Type) (f g : A -> bool) l, (forall x, f x = g x) -> forallb f l = forallb g l.
Proof. intros A f g l H. induction l as [|x t IH]; cbn; [reflexivity|rewrite H, IH; reflexivity]. Qed.

Lemma mail_param_norm : forall e p, mail_param_ok (norm e) p = mail_param_ok e p.
Proof. intros e p. destruct p; unfold mail_param_ok; try reflexivity; apply has_norm; reflexivity. Qed.
Lemma rcpt_param_norm : forall e p, rcpt_param_ok (norm e) p = rcpt_param_ok e p.
Proof. intros e p. destruct p; unfold rcpt_param_ok; try reflexivity; apply has_norm; reflexivity. Qed.

Lemma legal_norm : forall s c, legal (normS s) c = legal s c.
Proof.
  intros s c. unfold legal. destruct c; cbn [normS s_ext s_helo s_txn s_rej s_tls s_data]; try reflexivity.
  - rewrite has_norm by reflexivity. reflexivity.
  - f_equal. apply forallb_ext2. apply mail_param_norm.
  - f_equal. apply forallb_ext2. apply rcpt_param_norm.
Qed.

Lemma apply_norm : forall s c code,
  srv_apply (normS s) c code = (normS (fst (srv_apply s c code)), snd (srv_apply s c code)).
Proof.
  intros s c code. destruct c; cbn; try reflexivity.
  - destruct (okclass code); [|reflexivity]. destruct (s_tls s); reflexivity.
  - destruct (okclass code); reflexivity.
  - destruct (code =? 220); reflexivity.
  - destruct (okclass code); reflexivity.
  - destruct (is_idle (s_txn s)); [reflexivity|]. destruct (okclass code); reflexivity.
  - destruct (code =? 354); reflexivity.
  - destruct (s_data s); [|reflexivity]. destruct (okclass code); reflexivity.
  - destruct (okclass code); reflexivity.
  - destruct (code =? 221); reflexivity.
Qed.

Lemma step_norm : forall script s c,
  srv_step script (normS s) c =
    match srv_step script s c with (a, b, r, lg, cm) => (a, normS b, r, lg, cm) end.
Proof.
  intros script s c. unfold srv_step. destruct (next_decision script) as [d script']. rewrite legal_norm.
  destruct (reply_of d c) as [[code text]|]; [|reflexivity].
  rewrite apply_norm. destruct (srv_apply s c code) as [s' cm]. reflexivity.
Qed.

Lemma deliver_norm : forall w c, deliver (normW w) c = (normW (fst (deliver w c)), snd (deliver w c)).
Proof.
  intros w c. unfold deliver. cbn [w_srv normW s_open normS s_data w_script w_trace w_queue w_attr w_commits].
  destruct (negb (s_open (w_srv w))); [reflexivity|].
  rewrite step_norm. destruct (srv_step (w_script w) (w_srv w) c) as [[[[a b] r] lg] cm].
  destruct (s_data (w_srv w)); [destruct c|]; reflexivity.
Qed.

Lemma deliver_content_norm : forall w ch, deliver_content (normW w) ch = normW (deliver_content w ch).
Proof.
  intros w ch. unfold deliver_content. cbn [w_srv normW s_open normS s_data].
  destruct (negb (s_open (w_srv w))); [reflexivity|]. destruct (s_data (w_srv w)); reflexivity.
Qed.

Lemma read_reply_norm : forall e t st,
  read_reply e t (normSt st) = (normSt (fst (read_reply e t st)), snd (read_reply e t st)).
Proof.
  intros e t [c w]. unfold read_reply, normSt. cbn [fst snd c_open normC w_queue normW].
  destruct (negb (c_open c)); [reflexivity|].
  destruct (w_queue w) as [|[tg [code tx]] q]; [reflexivity|]. destruct (expect_ok e code); reflexivity.
Qed.

Lemma set_dot_norm : forall c d, set_dot (normC c) d = normC (set_dot c d).
Proof. intros [o dd e m r] d; reflexivity. Qed.

Lemma do_cmd_norm : forall e line st,
  do_cmd e line (normSt st) = (normSt (fst (do_cmd e line st)), snd (do_cmd e line st)).
Proof.
  intros e line [c w]. unfold do_cmd, normSt. cbn [fst snd c_open c_dot normC].
  rewrite set_dot_norm. destruct (negb (c_open c)); [reflexivity|].
  assert (E : (if c_dot c then fst (deliver (normW w) CEod) else normW w) = normW (if c_dot c then fst (deliver w CEod) else w)).
  { destruct (c_dot c); [rewrite deliver_norm|]; reflexivity. }
  rewrite E. set (w1 := if c_dot c then fst (deliver w CEod) else w). rewrite deliver_norm.
  destruct (deliver w1 line) as [w2 [tag|]]; cbn [fst snd]; [|reflexivity].
  exact (read_reply_norm e tag (set_dot c false, w2)).
Qed.

Lemma close_cli_norm : forall st, close_cli (normSt st) = normSt (close_cli st).
Proof. intros [c w]. unfold close_cli, normSt. cbn [fst snd c_open normC]. destruct (c_open c); reflexivity. Qed.

Lemma mail_params_norm : forall c, mail_params (normC c) = mail_params c.
Proof.
  intros c. unfold mail_params. cbn [c_ext normC c_mr]. destruct (c_ext c) as [l|]; [|reflexivity]. cbn [option_map].
  rewrite !has_norm by reflexivity. reflexivity.
Qed.

Lemma rcpt_params_norm : forall c, rcpt_params (normC c) = rcpt_params c.
Proof.
  intros c. unfold rcpt_params. cbn [c_ext normC c_rn]. destruct (c_ext c) as [l|]; [|reflexivity]. cbn [option_map].
  rewrite !has_norm by reflexivity. reflexivity.
Qed.

Lemma extension_norm : forall c e, consulted e = true -> extension (normC c) e = extension c e.
Proof.
  intros c e He. unfold extension. cbn [c_ext normC]. destruct (c_ext c) as [l|]; [|reflexivity]. cbn [option_map].
  apply has_norm. exact He.
Qed.

Ltac commute H := rewrite H; match goal with |- context [match ?x with _ => _ end] => destruct x as [[? ?] [? ?|?]] end; reflexivity.

Section Inert.
Variable X : expects.
Variable F : fixes.
Hypothesis HF : fx_ehlo_replace F = true.
Variable cfg : config.
Variable render : msg -> list bytes * option err.

Lemma do_mail_norm : forall from st,
  do_mail X from (normSt st) = (normSt (fst (do_mail X from st)), snd (do_mail X from st)).
Proof. intros from st. unfold do_mail. cbn [fst normSt]. rewrite mail_params_norm. apply do_cmd_norm. Qed.

Lemma do_rcpt_norm : forall to st,
  do_rcpt X to (normSt st) = (normSt (fst (do_rcpt X to st)), snd (do_rcpt X to st)).
Proof. intros to st. unfold do_rcpt. cbn [fst normSt]. rewrite rcpt_params_norm. apply do_cmd_norm. Qed.

Lemma do_data_norm : forall st, do_data X (normSt st) = (normSt (fst (do_data X st)), snd (do_data X st)).
Proof.
  intros st. unfold do_data. rewrite do_cmd_norm.
  destruct (do_cmd (x_data X) CData st) as [[c w] [cd t|e]]; cbn [fst snd normSt]; [|reflexivity].
  unfold normSt. cbn [fst snd]. destruct c; reflexivity.
Qed.

Lemma dc_write_norm : forall st ch, dc_write (normSt st) ch = normSt (dc_write st ch).
Proof.
  intros [c w] ch. unfold dc_write, normSt. cbn [fst snd c_open c_dot normC].
  destruct (c_open c && c_dot c); [|reflexivity]. rewrite deliver_content_norm. reflexivity.
Qed.

Lemma write_chunks_norm : forall chunks st, write_chunks (normSt st) chunks = normSt (write_chunks st chunks).
Proof.
  induction chunks as [|ch t IH]; intros st; [reflexivity|].
  unfold write_chunks in *. cbn [fold_left]. rewrite dc_write_norm. apply IH.
Qed.

Lemma dc_close_norm : forall st, dc_close X (normSt st) = (normSt (fst (dc_close X st)), snd (dc_close X st)).
Proof.
  intros [c w]. unfold dc_close, normSt. cbn [fst snd c_open c_dot normC]. rewrite set_dot_norm.
  destruct (c_open c && c_dot c).
  - rewrite deliver_norm. destruct (deliver w CEod) as [w1 [tag|]]; cbn [fst snd];
    [exact (read_reply_norm (x_eod X) tag (set_dot c false, w1))|exact (read_reply_norm (x_eod X) None (set_dot c false, w1))].
  - exact (read_reply_norm (x_eod X) None (set_dot c false, w)).
Qed.

Lemma do_reset_norm : forall st, do_reset X (normSt st) = (normSt (fst (do_reset X st)), snd (do_reset X st)).
Proof. intros. apply do_cmd_norm. Qed.

Lemma do_quit_norm : forall st, do_quit X (normSt st) = (normSt (fst (do_quit X st)), snd (do_quit X st)).
Proof.
  intros st. unfold do_quit. rewrite do_cmd_norm.
  destruct (do_cmd (x_quit X) CQuit st) as [st1 [cd t|e]]; cbn [fst snd]; [|reflexivity].
  rewrite close_cli_norm. reflexivity.
Qed.

Lemma check_conn_norm : forall st,
  check_conn X cfg (normSt st) = (normSt (fst (check_conn X cfg st)), snd (check_conn X cfg st)).
Proof.
  intros st. unfold check_conn. cbn [fst normSt c_open normC].
  destruct (negb (c_open (fst st))); [reflexivity|]. destruct (cf_noop cfg); [|reflexivity].
  unfold do_noop. rewrite do_cmd_norm. destruct (do_cmd (x_noop X) CNoop st) as [st1 [cd t|e]]; reflexivity.
Qed.

Lemma reset_with_norm : forall st,
  reset_with X cfg (normSt st) = (normSt (fst (reset_with X cfg st)), snd (reset_with X cfg st)).
Proof.
  intros st. unfold reset_with. rewrite check_conn_norm.
  destruct (check_conn X cfg st) as [st1 [e|]]; cbn [fst snd]; [reflexivity|].
  rewrite do_reset_norm. destruct (do_reset X st1) as [st2 [cd t|e]]; reflexivity.
Qed.

Lemma reset_after_norm : forall b se st,
  reset_after X b se (normSt st) = (normSt (fst (reset_after X b se st)), snd (reset_after X b se st)).
Proof.
  intros b se st. unfold reset_after. rewrite do_reset_norm.
  destruct (do_reset X st) as [st1 [cd t|e]]; cbn [fst snd]; [reflexivity|].
  destruct b; [rewrite close_cli_norm|]; reflexivity.
Qed.

Lemma rcpt_loop_norm : forall esc rcpts st acc,
  rcpt_loop X F esc rcpts (normSt st) acc =
    (normSt (fst (rcpt_loop X F esc rcpts st acc)), snd (rcpt_loop X F esc rcpts st acc)).
Proof.
  intros esc rcpts. induction rcpts as [|r t IH]; intros st acc; [reflexivity|].
  cbn [rcpt_loop]. rewrite do_rcpt_norm. destruct (do_rcpt X r st) as [st1 [cd tx|e]]; cbn [fst snd]; apply IH.
Qed.

Lemma set_mr_norm : forall c v, set_mr (normC c) v = normC (set_mr c v).
Proof. intros [o d e m r] v; reflexivity. Qed.
Lemma set_rn_norm : forall c v, set_rn (normC c) v = normC (set_rn c v).
Proof. intros [o d e m r] v; reflexivity. Qed.

Lemma send_single_norm : forall m st,
  send_single X F cfg render m (normSt st) =
    (normSt (fst (send_single X F cfg render m st)), snd (send_single X F cfg render m st)).
Proof.
  intros m st. unfold send_single. cbv zeta.
  change (fst (normSt st)) with (normC (fst st)).
  rewrite !extension_norm by reflexivity.
  destruct (m_8bit m && negb (extension (fst st) E8BITMIME)); [reflexivity|].
  destruct (m_from m) as [from|]; [|reflexivity].
  destruct (m_rcpts m) as [|r0 rt]; [reflexivity|].
  set (st0 := if cf_dsn cfg && negb (is_nil (cf_ret cfg)) then (set_mr (fst st) (cf_ret cfg), snd st) else st).
  match goal with |- context [do_mail X from ?s] =>
    assert (E0 : s = normSt st0) by (unfold st0; destruct (cf_dsn cfg && negb (is_nil (cf_ret cfg))); [rewrite set_mr_norm|]; destruct st; reflexivity);
    rewrite E0; clear E0 end.
  rewrite do_mail_norm. destruct (do_mail X from st0) as [st1 [c1 t1|e1]]; cbn [fst snd].
  2: { rewrite reset_after_norm.
       match goal with |- context [reset_after X ?b ?se st1] => destruct (reset_after X b se st1) as [st2 se2] end. reflexivity. }
  match goal with |- context [rcpt_loop X F _ _ ?s None] =>
    assert (E1 : s = normSt (set_rn (fst st1) (cf_notify cfg), snd st1)) by (unfold normSt; cbn [fst snd]; rewrite set_rn_norm; reflexivity);
    rewrite E1; clear E1 end.
  rewrite rcpt_loop_norm.
  match goal with |- context [rcpt_loop X F ?esc ?rc ?s ?a] => destruct (rcpt_loop X F esc rc s a) as [st2 [se|]] end; cbn [fst snd].
  { rewrite reset_after_norm. destruct (reset_after X (fx_rc_rcpt F) se st2) as [st3 se3]. reflexivity. }
  rewrite do_data_norm. destruct (do_data X st2) as [st3 [c3 t3|e3]]; cbn [fst snd].
  2: { destruct (fx_data_rset F); [|reflexivity]. rewrite reset_after_norm.
       match goal with |- context [reset_after X ?b ?se st3] => destruct (reset_after X b se st3) as [st4 se4] end. reflexivity. }
  rewrite write_chunks_norm.
  destruct (snd (render m)) as [e|].
  { destruct (fx_abort F); [rewrite close_cli_norm|]; reflexivity. }
  rewrite dc_close_norm.
  destruct (dc_close X (write_chunks st3 (fst (render m)))) as [st5 [c5 t5|e5]]; cbn [fst snd]; [|reflexivity].
  rewrite reset_with_norm. destruct (reset_with X cfg st5) as [st6 [e6|]]; reflexivity.
Qed.

Lemma send_msgs_norm : forall ms st,
  send_msgs X F cfg render ms (normSt st) =
    (normSt (fst (send_msgs X F cfg render ms st)), snd (send_msgs X F cfg render ms st)).
Proof.
  induction ms as [|m t IH]; intros st; [reflexivity|].
  cbn [send_msgs]. rewrite send_single_norm. destruct (send_single X F cfg render m st) as [st1 r1]. cbn [fst snd].
  rewrite IH. destruct (send_msgs X F cfg render t st1) as [st2 rs]. reflexivity.
Qed.

Lemma send_batch_norm : forall ms st,
  send_batch X F cfg render ms (normSt st) =
    (normSt (fst (send_batch X F cfg render ms st)), snd (send_batch X F cfg render ms st)).
Proof.
  intros ms st. unfold send_batch. rewrite check_conn_norm.
  destruct (check_conn X cfg st) as [st1 [e|]]; cbn [fst snd]; [reflexivity|].
  rewrite send_msgs_norm. destruct (send_msgs X F cfg render ms st1) as [st2 rs]. reflexivity.
Qed.

Lemma close_with_norm : forall st,
  close_with X (normSt st) = (normSt (fst (close_with X st)), snd (close_with X st)).
Proof.
  intros st. unfold close_with. cbn [fst normSt c_open normC].
  destruct (negb (c_open (fst st))); [reflexivity|].
  rewrite do_quit_norm. destruct (do_quit X st) as [st1 [cd t|e]]; reflexivity.
Qed.

Lemma set_cext_norm : forall c o, set_cext (normC c) (option_map norm o) = normC (set_cext c o).
Proof. intros [op d e m r] o; reflexivity. Qed.

Lemma do_ehlo_norm : forall name st,
  do_ehlo X true name (normSt st) = (normSt (fst (do_ehlo X true name st)), snd (do_ehlo X true name st)).
Proof.
  intros name st. unfold do_ehlo. rewrite do_cmd_norm.
  destruct (do_cmd (x_ehlo X) (CEhlo name) st) as [[c w] [cd t|e]]; cbn [fst snd normSt orb]; [|reflexivity].
  pose proof (set_cext_norm c (Some (s_ext (w_srv w)))) as E. cbn [option_map] in E.
  unfold normSt. cbn [fst snd w_srv normW s_ext normS orb]. rewrite E. reflexivity.
Qed.

Lemma do_hello_norm : forall name st,
  do_hello X true name (normSt st) = (normSt (fst (do_hello X true name st)), snd (do_hello X true name st)).
Proof.
  intros name st. unfold do_hello. rewrite do_ehlo_norm.
  destruct (do_ehlo X true name st) as [[c w] [cd t|e]]; cbn [fst snd]; [reflexivity|].
  pose proof (set_cext_norm c None) as E. cbn [option_map] in E. unfold normSt at 1. cbn [fst snd]. rewrite E.
  exact (do_cmd_norm (x_helo X) (CHelo name) (set_cext c None, w)).
Qed.

Lemma do_starttls_norm : forall name st,
  do_starttls X true name (normSt st) = (normSt (fst (do_starttls X true name st)), snd (do_starttls X true name st)).
Proof.
  intros name st. unfold do_starttls. rewrite do_cmd_norm.
  destruct (do_cmd (x_starttls X) CStartTLS st) as [[c w] [cd t|e]]; cbn [fst snd]; [|reflexivity].
  unfold normSt at 1. cbn [fst snd]. rewrite set_dot_norm.
  exact (do_ehlo_norm name (set_dot c false, w)).
Qed.

Lemma tls_step_norm : forall st,
  tls_step X F cfg (normSt st) = (normSt (fst (tls_step X F cfg st)), snd (tls_step X F cfg st)).
Proof.
  intros st. unfold tls_step. rewrite HF. rewrite do_starttls_norm.
  change (fst (normSt st)) with (normC (fst st)). rewrite extension_norm by reflexivity.
  destruct (do_starttls X true (cf_helo cfg) st) as [st1 [cd t|e]]; cbn [fst snd];
  destruct (cf_tls cfg); try reflexivity; destruct (extension (fst st) ESTARTTLS); reflexivity.
Qed.

Lemma world_init_norm : forall caps caps_tls script,
  world_init (norm caps) (norm caps_tls) script = normW (world_init caps caps_tls script).
Proof. reflexivity. Qed.

Lemma dial_norm : forall w,
  dial X F cfg (normW w) = (normW (fst (dial X F cfg w)), option_map normC (snd (dial X F cfg w))).
Proof.
  intros w. unfold dial. rewrite HF. rewrite deliver_norm.
  destruct (deliver w CGreet) as [w1 tag]. cbn [fst snd].
  change (cli_init, normW w1) with (normSt (cli_init, w1)). rewrite read_reply_norm.
  destruct (read_reply (x_greet X) (match tag with Some t => t | None => None end) (cli_init, w1)) as [[c w2] [cd t|e]]; cbn [fst snd].
  - change (normC c, normW w2) with (normSt (c, w2)). rewrite do_hello_norm.
    destruct (do_hello X true (cf_helo cfg) (c, w2)) as [[c3 w3] [cd3 t3|e3]]; cbn [fst snd]; [|reflexivity].
    change (normC c3, normW w3) with (normSt (c3, w3)). rewrite tls_step_norm.
    destruct (tls_step X F cfg (c3, w3)) as [[c4 w4] ok]. cbn [fst snd]. destruct ok; reflexivity.
  - unfold normSt at 1. cbn [fst snd]. change (normC c, normW w2) with (normSt (c, w2)). rewrite close_cli_norm. reflexivity.
Qed.

(* what a run shows to the outside: kind of the returned error, per-message results, trace (every command with its
   parameters, the reference server's verdict and the reply code), attribution log, commit log *)
Definition visible (o : outcome) :=
  (o_ret o, o_results o, w_trace (o_world o), w_attr (o_world o), w_commits (o_world o)).

Theorem inert_capabilities : forall caps caps_tls script ms,
  visible (run_case X F cfg (norm caps) (norm caps_tls) script ms render) =
  visible (run_case X F cfg caps caps_tls script ms render).
Proof.
  intros caps caps_tls script ms. unfold run_case, dial_and_send. rewrite world_init_norm, dial_norm.
  destruct (dial X F cfg (world_init caps caps_tls script)) as [w1 [c|]]; cbn [fst snd option_map]; [|reflexivity].
  change (normC c, normW w1) with (normSt (c, w1)). rewrite send_batch_norm.
  destruct (send_batch X F cfg render ms (c, w1)) as [st2 [r rs]]. cbn [fst snd].
  rewrite close_with_norm. destruct (close_with X st2) as [st3 closed]. cbn [fst snd]. reflexivity.
Qed.

(* adding any capability outside the consulted list to any capability set changes nothing *)
Corollary inert_capability_added : forall caps caps_tls script ms name,
  visible (run_case X F cfg (EOther name :: caps) (EOther name :: caps_tls) script ms render) =
  visible (run_case X F cfg caps caps_tls script ms render).
Proof.
  intros. rewrite <- (inert_capabilities (EOther name :: caps)), <- (inert_capabilities caps caps_tls). reflexivity.
Qed.
End Inert.
