(* DialTable.v — T2 for C07 inside Coq: the model's decision on the complete finite configuration table satisfies the
   property (vm_compute over all rows).  The harness dials the same table against the real client and the rows'
   observables are compared with the extracted model (harness/c07). *)
From Coq Require Import String.
From Verif Require Import Dial.
From VerifGen Require Import Gen.
From VerifProofs Require Import DialProofs.
Open Scope N_scope.

(* the table: policies x ssl x 13 auth types x host kinds x STARTTLS advertised x STARTTLS reply x handshake x AUTH lists *)
Definition tab_auth_types : list bytes :=
  [Gen.smtp_auth_cram_md5; Gen.smtp_auth_custom; Gen.smtp_auth_login; Gen.smtp_auth_login_noenc; Gen.smtp_auth_noauth;
   Gen.smtp_auth_plain; Gen.smtp_auth_plain_noenc; Gen.smtp_auth_xoauth2; Gen.smtp_auth_scram_sha1; Gen.smtp_auth_scram_sha1_plus;
   Gen.smtp_auth_scram_sha256; Gen.smtp_auth_scram_sha256_plus; Gen.smtp_auth_autodiscover].

Definition tab_auth_lists : list (option bytes) :=
  [None; Some []; Some (bs "PLAIN"); Some (bs "LOGIN"); Some (bs "PLAIN LOGIN"); Some (bs "CRAM-MD5");
   Some (bs "PLAIN LOGIN CRAM-MD5"); Some (bs "XOAUTH2"); Some (bs "SCRAM-SHA-256 SCRAM-SHA-1");
   Some (bs "SCRAM-SHA-256-PLUS SCRAM-SHA-256 PLAIN"); Some (bs "LOGIN CRAM-MD5 XOAUTH2 SCRAM-SHA-1-PLUS SCRAM-SHA-1");
   Some (bs "XPLAIN LOGINX");
   Some (bs "PLAIN LOGIN CRAM-MD5 XOAUTH2 SCRAM-SHA-1 SCRAM-SHA-1-PLUS SCRAM-SHA-256 SCRAM-SHA-256-PLUS")].

(* host kinds: the model looks at the host only through Dial.is_localhost (tab_localhost_names below) *)
Definition tab_hosts : list bytes := [bs "localhost"; bs "mail.verif.test"].

Lemma tab_localhost_names :
  Dial.is_localhost (bs "localhost") = true /\ Dial.is_localhost (bs "127.0.0.1") = true /\ Dial.is_localhost (bs "::1") = true /\
  Dial.is_localhost (bs "mail.verif.test") = false /\ Dial.is_localhost (bs "127.0.0.2") = false.
Proof. vm_compute. auto. Qed.

Definition tab_caps (l : option bytes) (starttls : bool) : list bytes :=
  [bs "8BITMIME"] ++ (if starttls then [bs "STARTTLS"] else []) ++
  (match l with None => [] | Some [] => [bs "AUTH"] | Some p => [bs "AUTH " ++ p] end) ++ [bs "ENHANCEDSTATUSCODES"].

(* server behaviours: (STARTTLS advertised, reply to STARTTLS, handshake oracle); the reply matters only when
   STARTTLS is sent, the handshake only after a 220 or with implicit TLS *)
Definition tab_behaviours : list (bool * decision * hs_oracle) :=
  [(false, DOk, HsOk); (true, DOk, HsOk); (true, DOk, HsFail); (true, DOk, HsStall);
   (true, DReply 454 TxPlain, HsOk); (true, DReply 554 TxPlain, HsOk); (true, DReply 0 TxPlain, HsOk)].
Definition tab_auth_dec : list decision := [DOk; DReply 535 TxPlain].

Definition tab_rows : list (config * srv) :=
  flat_map (fun a =>
  flat_map (fun l =>
  flat_map (fun h =>
  flat_map (fun polssl : policy * bool =>
  flat_map (fun bh : bool * decision * hs_oracle =>
  map (fun ad =>
    (mkCfg (fst polssl) (snd polssl) a None h false true true true true false,
     srv0 [DOk; DOk; snd (fst bh); DOk; ad; ad] None (tab_caps l (fst (fst bh))) (tab_caps l false) (snd bh))) tab_auth_dec)
  tab_behaviours)
  [(Mandatory, false); (Opportunistic, false); (NoTLS, false); (Mandatory, true)])
  tab_hosts) tab_auth_lists) tab_auth_types.

(* what the property demands of the cleartext commands of one row *)
Definition row_ok (row : config * srv) : bool :=
  let (cfg, s) := row in
  let w := snd (run (dial (fuel_for s) cfg) (world0 s)) in
  let cc := clear_cmds (w_trace w) in
  (if c_ssl cfg then match cc with [] => true | _ => false end else true) &&
  (match c_policy cfg with Mandatory => forallb handshake_free_verb cc | _ => true end) &&
  (forallb (fun v => negb (reveals_password v) || noenc_type (c_auth cfg) || Dial.is_localhost (c_host cfg)) cc) &&
  (if bytes_eqb (c_auth cfg) Gen.smtp_auth_autodiscover
   then forallb (fun v => match v with
                          | VAuth m _ => negb (bytes_eqb m (bs "PLAIN") || bytes_eqb m (bs "LOGIN"))
                          | _ => true end) cc
   else true) &&
  negb (hung (w_conn w)) &&
  (is_ok (fst (run (dial (fuel_for s) cfg) (world0 s))) || negb (opened (w_conn w)) || negb (copen (w_conn w))).

Lemma table_ok : forallb row_ok tab_rows = true.
Proof. vm_compute. reflexivity. Qed.

Lemma table_rows_count : N.of_nat (length tab_rows) = 18928.
Proof. vm_compute. reflexivity. Qed.

Lemma C07_table_l : forall row, In row tab_rows -> row_ok row = true.
Proof. intros row H. pose proof table_ok as T. rewrite forallb_forall in T. apply T. exact H. Qed.
