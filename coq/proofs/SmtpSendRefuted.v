(* SmtpSendRefuted.v — the original (unrepaired) sendSingleMsg, i.e. the model with [fixes_none], violates
   C03 / C04 / C20; witnesses by computation.  The same inputs with [fixes_all] behave.  These are the
   histories replayed against the real code in corpus/C03.txt, corpus/C04.txt, corpus/C20.txt. *)
From Coq Require Import String.
From Verif Require Import Bytes Textproto SendErr RefServer SmtpSend.
Open Scope N_scope.

Definition cfg0 : config := mkCfg (bs "client.test") false [] [] true TlsNone.
Definition m0 : msg := mkMsg 0 (Some (bs "a@x.test")) [bs "b@y.test"] false.
Definition m1 : msg := mkMsg 1 (Some (bs "c@x.test")) [bs "d@y.test"] false.
Definition body1 : bytes := bs "Subject: second" ++ crlf ++ crlf ++ bs "complete body" ++ crlf.

(* the producer of message 0 fails after 15 bytes; message 1 renders completely *)
Definition render_fail0 (m : msg) : list bytes * option err :=
  match m_id m with
  | O => ([bs "partial content"], Some (EWrap (bs "bodyWriter function: ") (ELocal (bs "producer failed"))))
  | _ => ([body1], None)
  end.
Definition render_ok (m : msg) : list bytes * option err := ([body1], None).

Definition run (F : fixes) (script : list decision) (ms : list msg) (render : msg -> list bytes * option err) : outcome :=
  run_case std_expects F cfg0 [E8BITMIME; EENHANCED] [] script ms render.

(* (a) render failure after DATA, all-OK server: the fragment is committed by the implicit end-of-data of the
   next command, nobody is told (IsDelivered = false for both), and replies are read by the wrong commands *)
Example partial_commit_before_fix :
  let o := run fixes_none [] [m0; m1] render_fail0 in
  map cm_data (w_commits (o_world o)) = [dotcanon (bs "partial content")] /\
  map r_delivered (o_results o) = [false; false] /\
  all_attributed (o_world o) = false.
Proof. vm_compute. repeat split; reflexivity. Qed.

Example partial_commit_repaired :
  let o := run fixes_all [] [m0; m1] render_fail0 in
  w_commits (o_world o) = [] /\ map r_delivered (o_results o) = [false; false] /\
  all_attributed (o_world o) = true /\ all_legal (o_world o) = true.
Proof. vm_compute. repeat split; reflexivity. Qed.

(* (b) DATA answered 554: no RSET, the MAIL of the next message is nested *)
Definition script_data_reject : list decision := [DOk; DOk; DOk; DOk; DOk; DRep 554 (bs "no")].

Example data_reject_before_fix : all_legal (o_world (run fixes_none script_data_reject [m0; m1] render_ok)) = false.
Proof. vm_compute. reflexivity. Qed.

Example data_reject_repaired :
  let o := run fixes_all script_data_reject [m0; m1] render_ok in
  all_legal (o_world o) = true /\ map r_delivered (o_results o) = [false; true] /\
  map cm_data (w_commits (o_world o)) = [dotcanon body1].
Proof. vm_compute. repeat split; reflexivity. Qed.

(* (c) RCPT answered 550, the RSET answered 451: the failed RSET is ignored, the next MAIL is nested *)
Definition script_rset_fails : list decision := [DOk; DOk; DOk; DOk; DRep 550 (bs "no"); DRep 451 (bs "later")].

Example failed_rset_before_fix : all_legal (o_world (run fixes_none script_rset_fails [m0; m1] render_ok)) = false.
Proof. vm_compute. reflexivity. Qed.

Example failed_rset_repaired :
  let o := run fixes_all script_rset_fails [m0; m1] render_ok in
  all_legal (o_world o) = true /\ map r_delivered (o_results o) = [false; false] /\ w_commits (o_world o) = [].
Proof. vm_compute. repeat split; reflexivity. Qed.

(* (d) an IP address later in the text is reported as enhanced status code *)
Definition script_ip : list decision := [DOk; DOk; DOk; DRep 554 (bs "relay to 10.2.3.4 denied")].

Example esc_anywhere_before_fix :
  map (fun r => match r_err r with Some e => se_esc e | None => [] end)
      (o_results (run fixes_none script_ip [m0] render_ok)) = [bs "2.3.4"].
Proof. vm_compute. reflexivity. Qed.

Example esc_anchored_repaired :
  map (fun r => match r_err r with Some e => (se_reason e, se_code e, se_temp e, se_esc e) | None => (0, 0, false, []) end)
      (o_results (run fixes_all script_ip [m0] render_ok)) = [(reason_mail_from, 554, false, [])].
Proof. vm_compute. reflexivity. Qed.

(* (e) the RSET after a delivered message answered 451: ErrorCode 451 but not temporary *)
Definition script_rset_451 : list decision := [DOk; DOk; DOk; DOk; DOk; DOk; DOk; DOk; DRep 451 (bs "4.3.0 later")].

Example rset_temp_before_fix :
  map (fun r => match r_err r with Some e => (se_reason e, se_code e, se_temp e) | None => (0, 0, false) end)
      (o_results (run fixes_none script_rset_451 [m0] render_ok)) = [(reason_reset, 451, false)].
Proof. vm_compute. reflexivity. Qed.

Example rset_temp_repaired :
  map (fun r => match r_err r with Some e => (se_reason e, se_code e, se_temp e, se_esc e, r_delivered r) | None => (0, 0, false, [], false) end)
      (o_results (run fixes_all script_rset_451 [m0] render_ok)) = [(reason_reset, 451, true, bs "4.3.0", true)].
Proof. vm_compute. reflexivity. Qed.

(* (f) a variant of ehlo() that keeps the old extension map when the EHLO reply has no extension line
   (fx_ehlo_replace = false): STARTTLS session, 8BITMIME advertised before TLS, nothing inside TLS: the
   client still sends BODY=8BITMIME and does not refuse the 8bit message locally *)
Definition fixes_keep_ext : fixes := mkFx true true true true true true re_anchored false.
Definition cfg_tls : config := mkCfg (bs "client.test") false [] [] true TlsMandatory.
Definition m8 : msg := mkMsg 0 (Some (bs "a@x.test")) [bs "b@y.test"] true.
Definition run_tls (F : fixes) : outcome :=
  run_case std_expects F cfg_tls [E8BITMIME; ESTARTTLS] [] [] [m8] render_ok.

Example ext_not_replaced_refuted : all_legal (o_world (run_tls fixes_keep_ext)) = false.
Proof. vm_compute. reflexivity. Qed.

Example ext_replaced_ok :
  all_legal (o_world (run_tls fixes_all)) = true /\
  map (fun r => match r_err r with Some e => se_reason e | None => 99 end) (o_results (run_tls fixes_all)) = [reason_no_unencoded] /\
  map (fun e => match ev_cmd e with CStartTLS => true | _ => false end) (w_trace (o_world (run_tls fixes_all)))
    = [false; false; true; false; false; false].
Proof. vm_compute. repeat split; reflexivity. Qed.

(* multi-line replies are ONE reply in the queue (text = lines joined with LF): accepted at end-of-data, the
   message is delivered and everything stays attributed; a multi-line rejection is classified from its first line *)
Definition script_multiline : list decision :=
  [DOk; DOk; DOk; DOk; DOk; DOk; DRep 250 (bs "2.0.0 first line" ++ [10] ++ bs "2.0.0 queued as X");
   DOk; DOk; DRep 554 (bs "5.7.1 first line" ++ [10] ++ bs "5.7.2 second line")].

Example multiline_replies :
  let o := run fixes_all script_multiline [m0; m1] render_ok in
  all_attributed (o_world o) = true /\ all_legal (o_world o) = true /\
  map r_delivered (o_results o) = [true; false] /\
  map (fun r => match r_err r with Some e => (se_reason e, se_code e, se_temp e, se_esc e) | None => (0, 0, false, []) end)
      (o_results o) = [(0, 0, false, []); (reason_mail_from, 554, false, bs "5.7.1")].
Proof. vm_compute. repeat split; reflexivity. Qed.
