(* SmimeMainProofs.v — C08, the central theorem: the bytes Msg.signMessage hands to the signer
   are exactly the first body part of the multipart/signed message writeMsg emits. *)
From Coq Require Import String.
From Verif Require Import Bytes Base64 LineBreaker QP HeaderFold WordEnc Writer MimeTree MimeRead Render Smime.
From VerifGen Require Import Gen.
From VerifProofs Require Import WriterProofs RenderIdemProofs RenderProofs MimeReadProofs C01Proofs SkipProofs.
From Coq Require Import Lia ZifyBool ZifyNat ZifyN.
Open Scope nat_scope.

(* ---------- counting line ends ---------- *)
Lemma first_crlf_none_app : forall s, first_crlf s = None -> first_crlf (s ++ crlf) = Some (s, []).
Proof.
  induction s as [|b t IH]; intros H; [reflexivity|].
  cbn [first_crlf app] in *. destruct (is_crlf_at b t) eqn:E; [discriminate|].
  destruct (first_crlf t) as [[p r]|] eqn:F; [discriminate|].
  assert (E' : is_crlf_at b (t ++ crlf) = false).
  { unfold is_crlf_at in *. destruct t as [|c t']; [|exact E]. cbn. now rewrite andb_false_r. }
  rewrite E', (IH eq_refl). reflexivity.
Qed.

(* appending a line end adds exactly one to strings.Count(s, "\r\n") — for every s *)
Lemma count_crlf_snoc : forall s, count_crlf (s ++ crlf) = S (count_crlf s).
Proof.
  intros s. remember (count_crlf s) as n eqn:Hn. revert s Hn.
  induction n as [|n IH]; intros s Hn; symmetry in Hn; rewrite count_first in Hn;
    destruct (first_crlf s) as [[p r]|] eqn:F; try discriminate.
  - rewrite count_first, (first_crlf_none_app s F). reflexivity.
  - inversion Hn as [Hn']. rewrite count_first, (first_crlf_app_some _ _ _ crlf F).
    rewrite (IH r (eq_sym Hn')). now rewrite Hn'.
Qed.

Lemma complete_line : forall x, complete (x ++ crlf).
Proof. intros x. right. now exists x. Qed.

(* ---------- hcount is touched by the counted header writers only ---------- *)
Lemma hc_write_string : forall s st, hcount (write_string s st) = hcount st.
Proof.
  intros s st. unfold write_string. destruct (err st); [reflexivity|].
  destruct (sink_write (snk st) s) as [[k n] e]. reflexivity.
Qed.

Lemma hc_mw_write : forall st p st' e, mw_write st p = (st', e) -> hcount st' = hcount st.
Proof.
  intros st p st' e H. unfold mw_write in H. destruct (err st); [inversion H; reflexivity|].
  destruct (sink_write (snk st) p) as [[k n] e2]. inversion H. reflexivity.
Qed.

Lemma hc_create_part : forall i hdrs st, hcount (create_part i hdrs st) = hcount st.
Proof.
  intros i hdrs st. unfold create_part. destruct (nth_error (mps st) i) as [w|]; [|reflexivity].
  destruct (match lastpart w with Some p => pwe p | None => false end); [reflexivity|].
  destruct (mw_write _ _) as [st2 e] eqn:E. apply hc_mw_write in E.
  destruct e; cbn; exact E.
Qed.

Lemma hc_mp_close : forall i st st' e, mp_close i st = (st', e) -> hcount st' = hcount st.
Proof.
  intros i st st' e H. unfold mp_close in H. destruct (nth_error (mps st) i) as [w|]; [|inversion H; reflexivity].
  destruct (match lastpart w with Some p => pwe p | None => false end); [inversion H; reflexivity|].
  apply hc_mw_write in H. exact H.
Qed.

Lemma hc_part_write : forall i p st st' e, part_write i p st = (st', e) -> hcount st' = hcount st.
Proof.
  intros i p st st' e H. unfold part_write in H.
  destruct (nth_error (mps st) i) as [w|]; [|inversion H; reflexivity].
  destruct (lastpart w) as [pt|]; [|inversion H; reflexivity].
  destruct (pclosed pt); [inversion H; reflexivity|].
  destruct (mw_write st p) as [st1 e1] eqn:E. apply hc_mw_write in E.
  destruct e1; inversion H; subst; cbn; exact E.
Qed.

Lemma hc_new_part : forall hdrs st, hcount (new_part hdrs st) = hcount st.
Proof. intros. apply hc_create_part. Qed.

Lemma hc_start_mp : forall mime b bad st, hcount (start_mp mime b bad st) = hcount st.
Proof.
  intros mime b bad st. unfold start_mp. cbv zeta.
  set (st1 := if bad then set_err st true else st).
  assert (H1 : hcount st1 = hcount st) by (unfold st1; destruct bad; reflexivity).
  set (st2 := set_mps st1 _).
  set (st3 := if Nat.eqb (depth st2) 0 then _ else _).
  assert (H3 : hcount st3 = hcount st).
  { unfold st3. destruct (Nat.eqb (depth st2) 0); [rewrite hc_write_string|rewrite hc_new_part]; exact H1. }
  destruct (panicked st3); [exact H3|exact H3].
Qed.

Lemma hc_stop_mp : forall st, hcount (stop_mp st) = hcount st.
Proof.
  intros st. unfold stop_mp. destruct (depth st) as [|d]; [reflexivity|].
  destruct (mp_close d st) as [st1 e] eqn:E. apply hc_mp_close in E.
  destruct (panicked st1); [exact E|exact E].
Qed.

Lemma hc_write_body : forall p e st, hcount (write_body p e st) = hcount st.
Proof.
  intros p e st. unfold write_body.
  set (st1 := if pfail p then set_err st true else st).
  assert (H1 : hcount st1 = hcount st) by (unfold st1; destruct (pfail p); reflexivity).
  destruct (encode_body e p) as [|b0 buf]; [exact H1|].
  destruct (Nat.eqb (depth st1) 0).
  - destruct (sink_write _ _) as [[k n] e2]. exact H1.
  - destruct (pw st1) as [i|]; [|exact H1].
    destruct (part_write i _ st1) as [st2 e2] eqn:E. apply hc_part_write in E.
    destruct (err st1); cbn; congruence.
Qed.

Lemma hc_andthen : forall st f, (forall s, hcount (f s) = hcount s) -> hcount (st |> f) = hcount st.
Proof. intros st f H. unfold andthen. destruct (panicked st); [reflexivity|apply H]. Qed.

Lemma hc_fold : forall A (f : mw -> A -> mw) l st,
  (forall s a, hcount (f s a) = hcount s) -> hcount (fold_left f l st) = hcount st.
Proof.
  intros A f l. induction l as [|a l IH]; intros st H; cbn [fold_left]; [reflexivity|].
  rewrite IH by exact H. apply H.
Qed.

Lemma hc_write_header_uncounted : forall k vs st, hcount (write_header_uncounted k vs st) = hcount st.
Proof.
  intros k vs st. unfold write_header_uncounted, mw_write_header. destruct vs; cbn [fst]; [reflexivity|].
  now rewrite !hc_write_string.
Qed.

Lemma hc_write_part_header : forall hdrs st, hcount (write_part_header hdrs st) = hcount st.
Proof.
  intros hdrs st. unfold write_part_header. rewrite hc_write_string.
  apply hc_fold. intros s kv. apply hc_fold. intros s2 v. apply hc_write_string.
Qed.

Lemma hc_write_part : forall encl w cs p st, hcount (write_part encl w cs p st) = hcount st.
Proof.
  intros encl w cs p st. unfold write_part. cbv zeta.
  set (st1 := if Nat.eqb (depth st) 0 then _ else _).
  assert (H1 : hcount st1 = hcount st).
  { unfold st1. destruct (Nat.eqb (depth st) 0); [|apply hc_new_part].
    destruct encl; [apply hc_write_part_header|]. now rewrite hc_write_string, !hc_write_header_uncounted. }
  destruct (err st1); [exact H1|]. rewrite hc_andthen; [exact H1|]. intros s. apply hc_write_body.
Qed.

Lemma hc_add_files : forall encl files st, hcount (add_files encl files st) = hcount st.
Proof.
  intros encl files. induction files as [|[f' e] rest IH]; intros st; cbn [add_files]; [reflexivity|].
  destruct (panicked st); [reflexivity|]. rewrite IH.
  set (st1 := if Nat.eqb (depth st) 0 then _ else _).
  assert (H1 : hcount st1 = hcount st).
  { unfold st1. destruct (Nat.eqb (depth st) 0); [|apply hc_new_part].
    destruct encl; [apply hc_write_part_header|]. rewrite hc_write_string.
    apply hc_fold. intros s kv. apply hc_write_header_uncounted. }
  destruct (err st1); [exact H1|]. rewrite hc_andthen; [exact H1|]. intros s. apply hc_write_body.
Qed.

Lemma hc_add_files_safe : forall encl files st, hcount (add_files_safe encl files st) = hcount st.
Proof. intros. unfold add_files_safe. destruct (panicked st); [reflexivity|apply hc_add_files]. Qed.

Lemma hc_open_mp : forall c mime b bad st, hcount (open_mp c mime b bad st) = hcount st.
Proof.
  intros c mime b bad st. unfold open_mp. destruct c; [|reflexivity]. destruct (panicked st); [reflexivity|].
  destruct (Nat.eqb _ 1); [rewrite hc_andthen by (intros; apply hc_write_string)|]; apply hc_start_mp.
Qed.

Lemma hc_close_mp : forall c st, hcount (close_mp c st) = hcount st.
Proof. intros c st. unfold close_mp. destruct c; [|reflexivity]. apply hc_andthen, hc_stop_mp. Qed.

Lemma hc_write_parts : forall encl m st, hcount (write_parts encl m st) = hcount st.
Proof.
  intros. unfold write_parts. apply hc_fold. intros s p. apply hc_andthen. intros s'. apply hc_write_part.
Qed.

(* the body entity never touches the header-line counter *)
Theorem hc_write_entity : forall encl z st, hcount (write_entity encl z st) = hcount st.
Proof.
  intros encl z st. unfold write_entity. cbv zeta.
  now rewrite hc_close_mp, hc_add_files_safe, hc_close_mp, hc_add_files_safe, hc_close_mp, hc_write_parts, !hc_open_mp.
Qed.

(* ---------- the counted header writers count exactly the line ends they write ---------- *)
Lemma hc_write_header_counted : forall k vs st,
  hcount (write_header_counted k vs st) = hcount st + count_crlf (hline k vs) /\ complete (hline k vs).
Proof.
  intros k vs st. unfold write_header_counted, mw_write_header, hline, write_header.
  destruct vs as [|v vs]; cbn [fst add_hcount hcount].
  - split; [reflexivity|now left].
  - rewrite !hc_write_string, count_crlf_snoc. split; [reflexivity|apply complete_line].
Qed.

Lemma hc_fold_count : forall A (f : mw -> A -> mw) (g : A -> bytes) l st,
  (forall s a, hcount (f s a) = hcount s + count_crlf (g a)) -> (forall a, complete (g a)) ->
  hcount (fold_left f l st) = hcount st + count_crlf (flat_map g l) /\ complete (flat_map g l).
Proof.
  intros A f g l. induction l as [|a l IH]; intros st Hf Hg; cbn [fold_left flat_map].
  - split; [rewrite Nat.add_0_r; reflexivity|now left].
  - destruct (IH (f st a) Hf Hg) as [E C]. split.
    + rewrite E, Hf, count_app by apply Hg. lia.
    + apply complete_app; [apply Hg|exact C].
Qed.

Lemma hc_gen : forall g st,
  hcount (write_gen_headers g st) = hcount st + count_crlf (gen_text g) /\ complete (gen_text g).
Proof.
  intros g st. unfold write_gen_headers, gen_text.
  apply (hc_fold_count _ (fun s kv => write_header_counted (fst kv) (snd kv) s) (fun kv => hline (fst kv) (snd kv))).
  - intros s a. apply hc_write_header_counted.
  - intros a. apply (hc_write_header_counted (fst a) (snd a) st).
Qed.

Lemma hc_pre : forall pre st,
  hcount (write_preformatted pre st) = hcount st + count_crlf (preform_text pre) /\ complete (preform_text pre).
Proof.
  intros pre st. unfold write_preformatted, preform_text.
  apply (hc_fold_count _ (fun s kv => let line := fst kv ++ bs ": " ++ snd kv ++ crlf in
                                      add_hcount (write_string line s) (count_nl line))
                         (fun kv => fst kv ++ bs ": " ++ snd kv ++ crlf)).
  - intros s a. cbv zeta. cbn [add_hcount hcount]. now rewrite hc_write_string.
  - intros a. rewrite !app_assoc. apply complete_line.
Qed.

Lemma hc_addr : forall m st,
  hcount (write_addr_headers m st) = hcount st + count_crlf (addr_text m) /\ complete (addr_text m).
Proof.
  intros m st. unfold write_addr_headers, addr_text.
  set (st3 := match m_from m with Some f => write_header_counted Gen.hdr_from [f] st | None => st end).
  set (t3 := match m_from m with Some f => hline Gen.hdr_from [f] | None => [] end).
  assert (E3 : hcount st3 = hcount st + count_crlf t3 /\ complete t3).
  { unfold st3, t3. destruct (m_from m); [apply hc_write_header_counted|].
    split; [rewrite Nat.add_0_r; reflexivity|now left]. }
  destruct E3 as [E3 C3].
  destruct (hc_fold_count _ (fun s k => match find (fun kv => bytes_eqb (fst kv) k) (m_addr m) with
                                        | Some kv => write_header_counted k (snd kv) s | None => s end)
              (fun k => match find (fun kv => bytes_eqb (fst kv) k) (m_addr m) with
                        | Some kv => hline k (snd kv) | None => [] end) Gen.render_addr_headers st3) as [E4 C4].
  { intros s k. destruct (find _ (m_addr m)); [apply hc_write_header_counted|rewrite Nat.add_0_r; reflexivity]. }
  { intros k. destruct (find _ (m_addr m)) as [kv|]; [apply (hc_write_header_counted k (snd kv) st)|now left]. }
  split; [rewrite E4, E3, (count_app _ _ C3); apply Nat.add_assoc || (symmetry; apply Nat.add_assoc)|now apply complete_app].
Qed.

(* for EVERY message: after the top-level header block the counter holds the number of line ends
   of that block, and the block consists of complete lines *)
Theorem hc_write_top_headers : forall z st,
  hcount (write_top_headers z st) = hcount st + count_crlf (top_headers (z_msg z)) /\
  complete (top_headers (z_msg z)).
Proof.
  intros z st. unfold write_top_headers, top_headers. cbv zeta. set (m := z_msg z).
  destruct (hc_gen (m_gen m) st) as [E1 C1].
  destruct (hc_pre (m_preform m) (write_gen_headers (m_gen m) st)) as [E2 C2].
  destruct (hc_addr m (write_preformatted (m_preform m) (write_gen_headers (m_gen m) st))) as [E3 C3].
  split.
  - rewrite E3, E2, E1. rewrite !count_app; auto using complete_app. lia.
  - auto using complete_app.
Qed.

(* ---------- (2) what the signer is given ---------- *)
(* signMessage pre-renders in the enclosed form and skips the counted header lines: what remains
   is exactly the body entity *)
Theorem sign_input_body : forall z,
  no_bad_boundary z -> rmsg_has_failing_producer z = false ->
  sign_input z = Some (body_gen true z).
Proof.
  intros z B Hf. unfold sign_input, prerender, write_resolved_gen.
  pose proof (headers_step z (mw_init unlimited) good_init) as (G4 & O4 & D4 & M4 & P4).
  destruct (hc_write_top_headers z (mw_init unlimited)) as [Hc Hcomp].
  set (st4 := write_top_headers z (mw_init unlimited)) in *.
  destruct (write_entity_top true z st4 B Hf G4) as (G5 & D5 & O5); [rewrite D4; reflexivity|].
  rewrite hc_write_entity, Hc. fold (out (write_entity true z st4)). rewrite O5, O4.
  cbn [mw_init hcount out snk accepted unlimited app Nat.add].
  apply skip_count; [reflexivity|exact Hcomp].
Qed.

Lemma prerender_ok : forall z,
  no_bad_boundary z -> rmsg_has_failing_producer z = false -> err (prerender z) = false.
Proof.
  intros z B Hf. unfold prerender, write_resolved_gen.
  pose proof (headers_step z (mw_init unlimited) good_init) as (G4 & O4 & D4 & M4 & P4).
  destruct (write_entity_top true z _ B Hf G4) as (G5 & _); [rewrite D4; reflexivity|]. apply G5.
Qed.

Theorem sign_input_is_entity : forall z t,
  no_bad_boundary z -> rmsg_has_failing_producer z = false ->
  forest_gen true z = [t] ->
  sign_input z = Some (ser_node t).
Proof.
  intros z t B Hf Ht. rewrite (sign_input_body z B Hf). unfold body_gen. rewrite Ht.
  cbn [map concat]. now rewrite app_nil_r.
Qed.

(* ---------- (3) the emitted multipart/signed message ---------- *)
Definition sig_kvs : list (bytes * list bytes) := [(h_cte, [Gen.enc_b64]); (h_ctype, [Gen.smime_sig_type])].

(* the signature part as it stands between the delimiters *)
Definition sig_leaf_text (sig : bytes) : bytes :=
  part_header_lines sig_kvs ++ crlf ++ encode_body EncB64 (mkprod [sig] false).

(* the Content-Type field startMP writes for the wrapper (without its line end) *)
Definition signed_ctype_field (sb : bytes) : bytes :=
  bs "Content-Type: " ++ bs "multipart/" ++ Gen.mime_smime_signed ++ bs ";" ++ crlf ++ bs " boundary=" ++ sb.

Lemma open_mp_top_eq : forall mime b st,
  good st -> depth st = 0 ->
  start_mp mime b false st |> write_string Gen.double_newline = open_mp true mime b false st.
Proof.
  intros mime b st G D. unfold open_mp. assert (Pn : panicked st = false) by apply G. rewrite Pn.
  assert (D1 : depth (start_mp mime b false st) = 1).
  { unfold start_mp. cbv zeta. cbv iota. rewrite D. cbn [firstn app].
    set (st2 := set_mps st [mkmpw b None]).
    change (depth st2) with (depth st). rewrite D. cbn [Nat.eqb].
    assert (G2 : good st2) by exact G.
    pose proof (write_string_step (bs "Content-Type: " ++ (bs "multipart/" ++ mime ++ bs ";" ++ crlf ++ bs " boundary=" ++ b)) st2 G2)
      as (G3 & O3 & D3 & M3 & P3).
    set (st3 := write_string _ st2) in *.
    assert (Pn3 : panicked st3 = false) by apply G3. rewrite Pn3. cbn [depth set_depth].
    rewrite D3. change (depth st2) with (depth st). now rewrite D. }
  now rewrite D1.
Qed.

Lemma sig_part_emit : forall sig st pre b started,
  good st -> in_ctx (Below pre b) started st ->
  good (write_sig_part sig st) /\ in_ctx (Below pre b) true (write_sig_part sig st) /\
  out (write_sig_part sig st) = out st ++ delim b started ++ sig_leaf_text sig.
Proof.
  intros sig st pre b started G C.
  pose proof (leaf_emit
    (fun s => write_string crlf (write_header_uncounted h_ctype [Gen.smime_sig_type]
                                   (write_header_uncounted h_cte [Gen.enc_b64] s)))
    [] sig_kvs (mkprod [sig] false) EncB64 st (Below pre b) started G C eq_refl) as L.
  cbv zeta in L. destruct L as (G1 & C1 & O1).
  { intros D0. destruct C as (D & _). rewrite D in D0. discriminate. }
  unfold write_sig_part. cbv zeta. fold sig_kvs.
  split; [exact G1|]. split; [exact C1|].
  rewrite O1. cbn [ser_items is_top map ser_node frame_from]. unfold sig_leaf_text.
  now rewrite app_nil_r.
Qed.

(* writeMsg with S/MIME on a good state at depth 0 *)
Lemma signed_render_good : forall z t sb sig st,
  no_bad_boundary z -> rmsg_has_failing_producer z = false ->
  forest_gen true z = [t] ->
  good st -> depth st = 0 ->
  let st' := write_resolved_signed z sb sig st in
  good st' /\ depth st' = 0 /\
  out st' = out st ++ top_headers (z_msg z) ++ signed_ctype_field sb ++ Gen.double_newline ++
            mp_frame sb [ser_node t; sig_leaf_text sig].
Proof.
  intros z t sb sig st B Hf Ht G D. cbv zeta. unfold write_resolved_signed. cbv zeta.
  pose proof (headers_step z st G) as (G4 & O4 & D4 & M4 & P4).
  set (st4 := write_top_headers z st) in *.
  assert (D4' : depth st4 = 0) by congruence.
  rewrite (open_mp_top_eq _ sb st4 G4 D4').
  destruct (start_mp_top Gen.mime_smime_signed sb st4 G4 D4') as (GA & DA & MA & OA).
  set (sA := open_mp true Gen.mime_smime_signed sb false st4) in *.
  rewrite (andthen_run sA) by apply GA.
  assert (CA : in_ctx (Below [] sb) false sA) by (cbn [in_ctx lp_of length app]; split; [exact DA|exists []; exact MA]).
  destruct (entity_emits false z B Hf (Below [] sb) false sA GA CA) as (G5 & C5 & O5).
  unfold fo in C5, O5. cbn [is_top andb] in C5, O5. change (mix_level z false) with (forest_gen true z) in C5, O5.
  rewrite Ht in C5, O5. cbn [nonnil orb] in C5.
  set (s5 := write_entity false z sA) in *.
  rewrite (andthen_run s5) by apply G5.
  destruct (sig_part_emit sig s5 [] sb true G5 C5) as (G6 & C6 & O6).
  set (s6 := write_sig_part sig s5) in *.
  rewrite (andthen_run s6) by apply G6.
  destruct C6 as (D6 & junk & M6).
  destruct (stop_mp_good s6 [] sb true junk G6 D6 M6) as (G7 & D7 & M7 & O7).
  split; [exact G7|]. split; [exact D7|].
  rewrite O7, O6, O5, OA, O4. unfold mp_frame. cbn [ser_items map frame_from].
  rewrite <- mp_hdr_top. unfold signed_ctype_field, mp_ctype. rewrite app_nil_r, <- !app_assoc. reflexivity.
Qed.

Theorem signed_output_form : forall signer d i rb sb m t,
  let z := resolve d i rb m in
  no_bad_boundary z -> msg_has_failing_producer m = false ->
  forest_gen true z = [t] ->
  let r := write_to_signed signer d i rb sb m unlimited in
  s_err r = false /\ s_panic r = false /\ s_input r = Some (ser_node t) /\
  s_out r = top_headers (z_msg z) ++ signed_ctype_field sb ++ Gen.double_newline ++
            mp_frame sb [ser_node t; sig_leaf_text (signer (ser_node t))].
Proof.
  intros signer d i rb sb m t z B Hf Ht. cbv zeta.
  rewrite <- resolve_failing with (date := d) (msgid := i) (rb := rb) in Hf. fold z in Hf.
  unfold write_to_signed. fold z. rewrite (prerender_ok z B Hf), (sign_input_is_entity z t B Hf Ht).
  destruct (signed_render_good z t sb (signer (ser_node t)) (mw_init unlimited) B Hf Ht good_init eq_refl)
    as (G & _ & O).
  cbn [s_err s_panic s_input s_out]. destruct G as (Ge & Gp & _).
  split; [exact Ge|]. split; [exact Gp|]. split; [reflexivity|]. exact O.
Qed.

(* the hypothesis "one entity" holds as soon as the message has a part, an embed or an attachment *)
Lemma resolved_forest_single : forall d i rb m,
  1 <= length (m_parts m) + length (m_embeds m) + length (m_attach m) ->
  exists t, forest_gen true (resolve d i rb m) = [t].
Proof.
  intros d i rb m H. destruct (resolve_lengths d i rb m) as (L1 & L2 & L3 & L4 & L5).
  apply forest_single; [rewrite L5, L3, L4; exact H|exact L1|exact L2].
Qed.

(* ---------- (4) an independent reader's first body part = the signed bytes ---------- *)
Lemma is_prefix_app_l : forall a b s, is_prefix (a ++ b) s = true -> is_prefix a s = true.
Proof.
  induction a as [|x a IH]; intros b s H; [reflexivity|]. destruct s as [|y s]; [discriminate|].
  cbn [app is_prefix] in *. apply andb_true_iff in H. destruct H as [H1 H2]. now rewrite H1, (IH b s H2).
Qed.

Lemma occurs_app_l : forall a b s, occurs a s = false -> occurs (a ++ b) s = false.
Proof.
  intros a b s. induction s as [|y s IH]; intros H.
  - cbn [occurs] in *. destruct (is_prefix (a ++ b) []) eqn:E; [apply is_prefix_app_l in E; rewrite E in H; discriminate|reflexivity].
  - apply occurs_cons_false in H. destruct H as [Hp Ho]. cbn [occurs]. rewrite (IH Ho), orb_false_r.
    destruct (is_prefix (a ++ b) (y :: s)) eqn:E; [apply is_prefix_app_l in E; congruence|reflexivity].
Qed.

(* the signature part never shows a delimiter, whatever the boundary: its header has no "--",
   its base64 body no '-' *)
Lemma sig_leaf_fresh : forall sb sig, ~ In 13%N sb -> fresh_for sb (sig_leaf_text sig).
Proof.
  intros sb sig Hb. unfold fresh_for, sig_leaf_text.
  apply (b64_leaf_fresh sb (part_header_lines sig_kvs) (mkprod [sig] false) Hb).
  unfold delimiter, dash_boundary. rewrite app_assoc. apply occurs_app_l. vm_compute. reflexivity.
Qed.

Theorem signed_first_part_read : forall signer d i rb sb m t,
  let z := resolve d i rb m in
  no_bad_boundary z -> msg_has_failing_producer m = false ->
  forest_gen true z = [t] ->
  ~ In 13%N sb -> fresh_for sb (ser_node t) ->
  let r := write_to_signed signer d i rb sb m unlimited in
  exists body,
    s_out r = top_headers (z_msg z) ++ signed_ctype_field sb ++ Gen.double_newline ++ body /\
    split_parts sb body = Some [ser_node t; sig_leaf_text (signer (ser_node t))] /\
    s_input r = Some (ser_node t).
Proof.
  intros signer d i rb sb m t z B Hf Ht Hb Hfr. cbv zeta.
  destruct (signed_output_form signer d i rb sb m t B Hf Ht) as (_ & _ & Hi & Ho).
  exists (mp_frame sb [ser_node t; sig_leaf_text (signer (ser_node t))]).
  split; [exact Ho|]. split; [|exact Hi].
  apply frame_split; [exact Hb|]. constructor; [exact Hfr|]. constructor; [|constructor].
  now apply sig_leaf_fresh.
Qed.

(* ---------- (5) rendering again ---------- *)
Lemma s_msg_resolve : forall signer d i rb sb m k,
  s_msg (write_to_signed signer d i rb sb m k) = z_msg (resolve d i rb m).
Proof. intros. unfold write_to_signed. destruct (err _); [reflexivity|]. destruct (sign_input _); reflexivity. Qed.

(* after any signed render (successful or failed, any destination, any wrapper boundary) a later
   signed render of the message behaves exactly like the first one would: same signer input, same
   emitted bytes, same verdict *)
Theorem signed_again : forall signer d1 i1 rb1 sb1 k1 d2 i2 rb2 sb m k,
  files_ok m -> clean (resolve d1 i1 rb1 m) ->
  write_to_signed signer d2 i2 rb2 sb (s_msg (write_to_signed signer d1 i1 rb1 sb1 m k1)) k =
  write_to_signed signer d1 i1 rb1 sb m k.
Proof.
  intros signer d1 i1 rb1 sb1 k1 d2 i2 rb2 sb m k Hf Hc.
  rewrite s_msg_resolve. unfold write_to_signed. now rewrite resolve_idem.
Qed.
