(* Codec round trips (C01): base64 bodies decode to the content that was supplied. *)
From Verif Require Import Bytes Base64 LineBreaker.
From VerifGen Require Import Gen.
From VerifProofs Require Import LineBreakerProofs.
From Coq Require Import ZArith Lia ZifyBool ZifyNat ZifyN.
Ltac Zify.zify_post_hook ::= Z.div_mod_to_equations.
Open Scope N_scope.

Lemma b64val_char : forall v, v < 64 -> b64val (b64char v) = Some v.
Proof.
  intros v Hv. unfold b64char.
  destruct (N.ltb_spec v 26); [unfold b64val; replace ((65 <=? 65 + v) && (65 + v <=? 90)) with true by lia; f_equal; lia|].
  destruct (N.ltb_spec v 52).
  { unfold b64val. replace ((65 <=? 97 + (v - 26)) && (97 + (v - 26) <=? 90)) with false by lia.
    replace ((97 <=? 97 + (v - 26)) && (97 + (v - 26) <=? 122)) with true by lia. f_equal; lia. }
  destruct (N.ltb_spec v 62).
  { unfold b64val. replace ((65 <=? 48 + (v - 52)) && (48 + (v - 52) <=? 90)) with false by lia.
    replace ((97 <=? 48 + (v - 52)) && (48 + (v - 52) <=? 122)) with false by lia.
    replace ((48 <=? 48 + (v - 52)) && (48 + (v - 52) <=? 57)) with true by lia. f_equal; lia. }
  destruct (N.eqb_spec v 62); [subst; reflexivity|].
  assert (v = 63) by lia. subst. reflexivity.
Qed.

Lemma b64char_not_pad : forall v, b64char v <> PAD.
Proof.
  intros v. unfold b64char, PAD.
  destruct (N.ltb_spec v 26); [lia|]. destruct (N.ltb_spec v 52); [lia|].
  destruct (N.ltb_spec v 62); [lia|]. destruct (N.eqb_spec v 62); lia.
Qed.

Lemma wf_cons : forall b s, wf_bytes (b :: s) = true -> b < 256 /\ wf_bytes s = true.
Proof.
  intros b s H. unfold wf_bytes in *. cbn [forallb] in H. apply andb_true_iff in H.
  destruct H as [Hb Hs]. unfold wf_byte in Hb. split; [lia|exact Hs].
Qed.

Lemma b64dec_cons4 : forall c1 c2 c3 c4 x r,
  b64dec (c1 :: c2 :: c3 :: c4 :: x :: r) =
  match b64val c1, b64val c2, b64val c3, b64val c4, b64dec (x :: r) with
  | Some v1, Some v2, Some v3, Some v4, Some d =>
      Some (v1 * 4 + v2 / 16 :: (v2 mod 16) * 16 + v3 / 4 :: (v3 mod 4) * 64 + v4 :: d)
  | _, _, _, _, _ => None
  end.
Proof. reflexivity. Qed.

Theorem b64_roundtrip : forall s, wf_bytes s = true -> b64dec (b64enc s) = Some s.
Proof.
  fix IH 1. intros [|a [|b [|c t]]] Hwf.
  - reflexivity.
  - apply wf_cons in Hwf. destruct Hwf as [Ha _]. cbn [b64enc b64dec].
    rewrite !b64val_char by lia. cbn [PAD]. rewrite !N.eqb_refl. cbn [andb]. f_equal. f_equal. lia.
  - apply wf_cons in Hwf. destruct Hwf as [Ha Hwf]. apply wf_cons in Hwf. destruct Hwf as [Hb _].
    cbn [b64enc b64dec]. rewrite !b64val_char by lia.
    destruct (N.eqb_spec (b64char (b mod 16 * 4)) PAD) as [E|E]; [exfalso; now apply (b64char_not_pad _ E)|].
    cbn [andb]. rewrite N.eqb_refl. f_equal. f_equal; [lia|f_equal; lia].
  - apply wf_cons in Hwf. destruct Hwf as [Ha Hwf]. apply wf_cons in Hwf. destruct Hwf as [Hb Hwf].
    apply wf_cons in Hwf. destruct Hwf as [Hc Ht].
    cbn [b64enc]. specialize (IH t Ht).
    (* the decoder's four-character clause: the last group may carry padding, a full group may not *)
    set (c1 := b64char (a / 4)). set (c2 := b64char (a mod 4 * 16 + b / 16)).
    set (c3 := b64char (b mod 16 * 4 + c / 64)). set (c4 := b64char (c mod 64)).
    assert (H1 : b64val c1 = Some (a / 4)) by (apply b64val_char; lia).
    assert (H2 : b64val c2 = Some (a mod 4 * 16 + b / 16)) by (apply b64val_char; lia).
    assert (H3 : b64val c3 = Some (b mod 16 * 4 + c / 64)) by (apply b64val_char; lia).
    assert (H4 : b64val c4 = Some (c mod 64)) by (apply b64val_char; lia).
    assert (P3 : (c3 =? PAD) = false) by (apply N.eqb_neq, b64char_not_pad).
    assert (P4 : (c4 =? PAD) = false) by (apply N.eqb_neq, b64char_not_pad).
    destruct (b64enc t) as [|e1 et] eqn:Et.
    + (* t = [] : exactly four characters *)
      destruct t as [|x [|y [|z r]]]; cbn [b64enc] in Et; try discriminate.
      cbn [b64dec]. rewrite H1, H2, P3. cbn [andb]. rewrite H3, P4, H4.
      f_equal. f_equal; [lia|f_equal; [lia|f_equal; lia]].
    + rewrite b64dec_cons4. rewrite H1, H2, H3, H4. rewrite IH.
      f_equal. f_equal; [lia|f_equal; [lia|f_equal; lia]].
Qed.

(* a MIME reader removes the line breaks before decoding *)
Lemma strip_wrap_from : forall s col max,
  forallb no_crlf_byte s = true -> strip_crlf (wrap_from max col s) = s.
Proof.
  induction s as [|b t IH]; intros col max H; cbn [wrap_from].
  - destruct (Nat.eqb col 0); reflexivity.
  - cbn [forallb] in H. apply andb_true_iff in H. destruct H as [Hb Ht].
    destruct (Nat.eqb (S col) max); unfold strip_crlf in *; cbn [filter app crlf]; rewrite Hb.
    + change (no_crlf_byte 13) with false. change (no_crlf_byte 10) with false. cbn. f_equal. now apply IH.
    + f_equal. now apply IH.
Qed.

Theorem b64_body_roundtrip : forall content out,
  wf_bytes content = true -> b64_body content = Some out ->
  b64dec (strip_crlf out) = Some content.
Proof.
  intros content out Hwf H. unfold b64_body in H. rewrite lb_chunk_independent in H.
  inversion H; subst. cbn [concat]. rewrite app_nil_r. unfold wrap.
  rewrite strip_wrap_from by apply b64enc_no_crlf. now apply b64_roundtrip.
Qed.

Theorem b64_body_total : forall content, exists out, b64_body content = Some out.
Proof. intros content. unfold b64_body. rewrite lb_chunk_independent. eauto. Qed.

(* the base64 alphabet has no '-', so an encoded body can never contain a boundary delimiter line *)
Lemma b64char_not_dash : forall v, b64char v <> 45.
Proof.
  intros v. unfold b64char.
  destruct (N.ltb_spec v 26); [lia|]. destruct (N.ltb_spec v 52); [lia|].
  destruct (N.ltb_spec v 62); [lia|]. destruct (N.eqb_spec v 62); lia.
Qed.

From Verif Require Import Writer.
From Coq Require Import Lia.
Lemma nesting_decisions : forall m : msg,
  (1 <= length (m_parts m))%nat ->
  (has_mixed m = true <-> (1 <= length (m_attach m))%nat) /\
  (has_related m = true <-> (1 <= length (m_embeds m))%nat) /\
  (has_alt m = true <-> (2 <= length (m_parts m))%nat).
Proof.
  intros m Hn. unfold has_mixed, has_related, has_alt.
  repeat split; intros H; lia.
Qed.
