(* Header safety (C02): whatever text is set, one writeHeader call emits exactly one header field:
   printable ASCII only, and every CRLF inside it is followed by a blank (a fold), so no value can
   start a new field or end the header block. *)
From Coq Require Import String ZArith.
From Verif Require Import Bytes Base64 HeaderFold WordEnc Writer.
From VerifGen Require Import Gen.
From VerifProofs Require Import WordEncProofs.
From Coq Require Import Lia ZifyBool ZifyNat ZifyN.
Open Scope N_scope.

(* text = (safe byte | CR LF SP)* : the shape of one folded header field *)
Inductive folded : bytes -> Prop :=
| fo_nil : folded []
| fo_byte : forall b s, hdr_safe_byte b = true -> folded s -> folded (b :: s)
| fo_fold : forall s, folded s -> folded (13 :: 10 :: 32 :: s).

(* the builder's buffer before the " \r\n" clean-up: a fold marker is followed by a safe byte or
   by the end of the buffer (never directly by another marker) *)
Inductive folded2 : bytes -> Prop :=
| f2_nil : folded2 []
| f2_byte : forall b s, hdr_safe_byte b = true -> folded2 s -> folded2 (b :: s)
| f2_end : folded2 [13; 10; 32]
| f2_fold : forall b s, hdr_safe_byte b = true -> folded2 (b :: s) -> folded2 (13 :: 10 :: 32 :: b :: s).

(* the checker a strict field parser applies to one field (without its terminating CRLF):
   0 = in text, 1 = after CR, 2 = after CR LF *)
Fixpoint field_ok (state : nat) (s : bytes) : bool :=
  match s with
  | [] => Nat.eqb state 0
  | b :: t =>
      match state with
      | O => if b =? 13 then field_ok 1 t else hdr_safe_byte b && field_ok 0 t
      | S O => (b =? 10) && field_ok 2 t
      | _ => ((b =? 32) || (b =? 9)) && field_ok 0 t
      end
  end.

Lemma folded_field_ok : forall s, folded s -> field_ok 0 s = true.
Proof.
  induction 1 as [|b s Hb Hs IH|s Hs IH]; cbn [field_ok]; [reflexivity| |exact IH].
  destruct (N.eqb_spec b 13) as [E|E]; [subst; discriminate|]. now rewrite Hb, IH.
Qed.

Lemma folded2_safe_list : forall s, forallb hdr_safe_byte s = true -> forall r, folded2 r -> folded2 (s ++ r).
Proof.
  induction s as [|b s IH]; intros H r Hr; cbn [app]; [exact Hr|].
  cbn [forallb] in H. apply andb_true_iff in H. destruct H as [Hb Hs]. constructor; [exact Hb|now apply IH].
Qed.

Lemma safe_13 : hdr_safe_byte 13 = false. Proof. reflexivity. Qed.

Lemma drop_cons : forall b t, drop_sp_before_crlf (b :: t) =
  if (N.eqb b 32 && starts_crlf t)%bool then drop_sp_before_crlf t else b :: drop_sp_before_crlf t.
Proof. reflexivity. Qed.

(* ReplaceAll(" \r\n", "\r\n") maps the builder's buffer into the folded shape *)
Lemma drop_folded2 : forall s, folded2 s -> folded (drop_sp_before_crlf s).
Proof.
  induction 1 as [|b s Hb Hs IH| |b s Hb Hs IH].
  - constructor.
  - cbn [drop_sp_before_crlf]. destruct (N.eqb b 32 && starts_crlf s)%bool; [exact IH|now constructor].
  - cbn. apply fo_fold. apply fo_nil.
  - assert (Hb13 : N.eqb b 13 = false).
    { destruct (N.eqb_spec b 13) as [E|E]; [subst; discriminate|reflexivity]. }
    assert (Hst : starts_crlf (b :: s) = false) by (destruct s; cbn [starts_crlf]; rewrite ?Hb13; reflexivity).
    rewrite (drop_cons 13), (drop_cons 10), (drop_cons 32). rewrite Hst.
    change (N.eqb 13 32) with false. change (N.eqb 10 32) with false. cbn [andb].
    apply fo_fold. exact IH.
Qed.

(* what the word loop of writeHeader appends to the buffer *)
Fixpoint wh_gen (cl : Z) (words : list bytes) : bytes :=
  match words with
  | [] => []
  | w :: rest =>
      let '(pre, cl1) := if (cl - zlen w <=? 1)%Z then (crlf ++ [32], (max_header - 3)%Z) else ([], cl) in
      let '(sep, cl2) := match rest with [] => ([], cl1) | _ => ([32], (cl1 - 1)%Z) end in
      pre ++ w ++ sep ++ wh_gen (cl2 - zlen w)%Z rest
  end.

Lemma wh_words_gen : forall words buf cl, wh_words buf cl words = buf ++ wh_gen cl words.
Proof.
  induction words as [|w rest IH]; intros buf cl; cbn [wh_words wh_gen]; [now rewrite app_nil_r|].
  destruct (cl - zlen w <=? 1)%Z; destruct rest as [|w2 rest2]; rewrite IH; now rewrite <- ?app_assoc.
Qed.

Lemma wh_gen_folded2 : forall words cl,
  Forall (fun w => forallb hdr_safe_byte w = true) words -> folded2 (wh_gen cl words).
Proof.
  induction words as [|w rest IH]; intros cl Hw; cbn [wh_gen]; [constructor|].
  inversion Hw as [|? ? Hw1 Hrest]; subst.
  set (cl1 := if (cl - zlen w <=? 1)%Z then (max_header - 3)%Z else cl).
  assert (Htail : forall cl2 sep, forallb hdr_safe_byte sep = true ->
                  folded2 (w ++ sep ++ wh_gen cl2 rest)).
  { intros cl2 sep Hsep. apply folded2_safe_list; [exact Hw1|]. apply folded2_safe_list; [exact Hsep|]. now apply IH. }
  destruct (cl - zlen w <=? 1)%Z.
  - destruct rest as [|w2 rest2].
    + cbn [app wh_gen]. rewrite app_nil_r.
      destruct w as [|b w']; [apply f2_end|].
      cbn [app]. cbn [forallb] in Hw1. apply andb_true_iff in Hw1. destruct Hw1 as [Hb Hw'].
      apply f2_fold; [exact Hb|]. specialize (Htail 0%Z [] eq_refl). cbn [app wh_gen] in Htail.
      now rewrite app_nil_r in Htail.
    + specialize (Htail (max_header - 3 - 1 - zlen w)%Z [32] eq_refl).
      cbn [app]. destruct w as [|b w'].
      * cbn [app] in *. apply f2_fold; [reflexivity|exact Htail].
      * cbn [app] in *. cbn [forallb] in Hw1. apply andb_true_iff in Hw1. destruct Hw1 as [Hb Hw'].
        apply f2_fold; [exact Hb|exact Htail].
  - destruct rest as [|w2 rest2]; [exact (Htail _ [] eq_refl)|exact (Htail _ [32] eq_refl)].
Qed.

Lemma forallb_join_safe : forall sep l,
  forallb hdr_safe_byte sep = true -> Forall (fun v => forallb hdr_safe_byte v = true) l ->
  forallb hdr_safe_byte (join sep l) = true.
Proof.
  intros sep l Hsep H. induction H as [|v r Hv Hr IH]; cbn [join]; [reflexivity|].
  destruct r as [|v2 r2]; [exact Hv|]. rewrite !forallb_app, Hv, Hsep. exact IH.
Qed.

Lemma split_on_safe : forall s, forallb hdr_safe_byte s = true ->
  Forall (fun w => forallb hdr_safe_byte w = true) (split_on 32 s).
Proof.
  induction s as [|b t IH]; intros H; cbn [split_on]; [repeat constructor|].
  cbn [forallb] in H. apply andb_true_iff in H. destruct H as [Hb Ht]. specialize (IH Ht).
  destruct (N.eqb b 32); [constructor; [reflexivity|exact IH]|].
  destruct (split_on 32 t) as [|w ws]; [repeat constructor; cbn; now rewrite Hb|].
  inversion IH; subst. constructor; [cbn [forallb]; now rewrite Hb|assumption].
Qed.

(* the field writeHeader emits (before its terminating CRLF) *)
Theorem wh_buffer_folded : forall key values,
  forallb hdr_safe_byte key = true ->
  Forall (fun v => forallb hdr_safe_byte v = true) values ->
  folded (wh_buffer key values).
Proof.
  intros key values Hk Hv. unfold wh_buffer. rewrite wh_words_gen. apply drop_folded2.
  rewrite <- app_assoc. apply folded2_safe_list; [exact Hk|]. apply folded2_safe_list; [reflexivity|].
  apply wh_gen_folded2, split_on_safe, forallb_join_safe; [reflexivity|exact Hv].
Qed.

Theorem write_header_one_field : forall key values,
  forallb hdr_safe_byte key = true ->
  Forall (fun v => forallb hdr_safe_byte v = true) values ->
  field_ok 0 (wh_buffer key values) = true.
Proof. intros. now apply folded_field_ok, wh_buffer_folded. Qed.

(* generic headers: whatever raw text the caller sets, the stored value is safe, hence one field *)
Theorem gen_header_one_field : forall (e : N) (key : bytes) (raw : list bytes),
  (e = 113 \/ e = 98) -> forallb hdr_safe_byte key = true ->
  Forall (fun v => wf_bytes v = true) raw ->
  field_ok 0 (wh_buffer key (map (word_encode e) raw)) = true.
Proof.
  intros e key raw He Hk Hraw. apply write_header_one_field; [exact Hk|].
  induction Hraw as [|v r Hv Hr IH]; cbn [map]; constructor; [now apply word_encode_safe|exact IH].
Qed.

(* ---- file names: sanitize removes everything that could break the quoted parameter ---- *)
Lemma gen_sanitize_bad_spec : forall b, Gen.sanitize_bad b = false ->
  32 <= b /\ b <> 34 /\ b <> 92 /\ b <> 127.
Proof. intros b H. unfold Gen.sanitize_bad in H. lia. Qed.

Theorem sanitize_clean : forall s, forallb (fun b => negb (Gen.sanitize_bad b)) (sanitize s) = true.
Proof.
  induction s as [|b t IH]; cbn [sanitize map forallb]; [reflexivity|]. fold (sanitize t). rewrite IH, andb_true_r.
  destruct (Gen.sanitize_bad b) eqn:E; [reflexivity|now rewrite E].
Qed.

(* ---- part headers written through multipart.CreatePart: one line per value ---- *)
(* all values safe, except possibly those stored under key k *)
Definition values_safe_but (k : bytes) (h : list (bytes * bytes)) : Prop :=
  Forall (fun kv => bytes_eqb (fst kv) k = true \/ forallb hdr_safe_byte (snd kv) = true) h.
Definition values_safe (h : list (bytes * bytes)) : Prop :=
  Forall (fun kv => forallb hdr_safe_byte (snd kv) = true) h.
Definition keys_unique (h : list (bytes * bytes)) : Prop := NoDup (map fst h).

Lemma beq_refl : forall a, bytes_eqb a a = true.
Proof. induction a as [|x a IH]; cbn; [reflexivity|]. now rewrite N.eqb_refl, IH. Qed.
Lemma beq_eq : forall a b, bytes_eqb a b = true -> a = b.
Proof.
  induction a as [|x a IH]; intros [|y b] H; cbn in H; try discriminate; [reflexivity|].
  apply andb_true_iff in H. destruct H as [H1 H2]. apply N.eqb_eq in H1. subst. f_equal. now apply IH.
Qed.

Lemma set_kv_keys : forall k v h,
  map fst (set_kv k v h) = if existsb (fun kv => bytes_eqb (fst kv) k) h then map fst h else map fst h ++ [k].
Proof.
  intros k v h. induction h as [|[hk hv] t IH]; cbn [set_kv map existsb fst]; [reflexivity|].
  destruct (bytes_eqb hk k) eqn:E; cbn [orb map fst].
  - apply beq_eq in E. now subst.
  - rewrite IH. now destruct (existsb _ t).
Qed.

Lemma NoDup_snoc : forall (l : list bytes) k, NoDup l -> ~ In k l -> NoDup (l ++ [k]).
Proof.
  induction l as [|x l IH]; intros k Hn Hk; cbn [app]; [repeat constructor; intros []|].
  inversion Hn; subst. constructor.
  - intros Hin. apply in_app_or in Hin. destruct Hin as [Hin|[Hin|[]]]; [contradiction|]. subst. apply Hk. now left.
  - apply IH; [assumption|]. intros Hin. apply Hk. now right.
Qed.

Lemma set_kv_unique : forall k v h, keys_unique h -> keys_unique (set_kv k v h).
Proof.
  intros k v h Hu. unfold keys_unique in *. rewrite set_kv_keys.
  destruct (existsb (fun kv => bytes_eqb (fst kv) k) h) eqn:E; [exact Hu|].
  apply NoDup_snoc; [exact Hu|]. intros Hin. apply in_map_iff in Hin. destruct Hin as [[hk hv] [Hf Hin]].
  cbn in Hf. subst hk. assert (existsb (fun kv => bytes_eqb (fst kv) k) h = true).
  { apply existsb_exists. exists (k, hv). split; [exact Hin|cbn; apply beq_refl]. }
  congruence.
Qed.

Lemma lookup_set_kv_same' : forall k v h, lookup k (set_kv k v h) = Some v.
Proof.
  intros k v h. unfold lookup. induction h as [|[hk hv] t IH]; cbn [set_kv find fst].
  - now rewrite beq_refl.
  - destruct (bytes_eqb hk k) eqn:E; cbn [find fst]; [now rewrite beq_refl|]. rewrite E. exact IH.
Qed.

Lemma lookup_set_kv_other' : forall k k' v h, bytes_eqb k' k = false -> lookup k (set_kv k' v h) = lookup k h.
Proof.
  intros k k' v h Hne. unfold lookup. induction h as [|[hk hv] t IH]; cbn [set_kv find fst].
  - now rewrite Hne.
  - destruct (bytes_eqb hk k') eqn:E; cbn [find fst].
    + rewrite Hne. apply beq_eq in E. subst. now rewrite Hne.
    + destruct (bytes_eqb hk k); [reflexivity|exact IH].
Qed.

Lemma get_h_set_kv_same' : forall k v h, v <> [] -> get_h k (set_kv k v h) = Some v.
Proof. intros k v h Hv. unfold get_h. rewrite lookup_set_kv_same'. destruct v; [congruence|reflexivity]. Qed.

Lemma ensure_get_other' : forall k k' v h, bytes_eqb k' k = false -> get_h k (ensure k' v h) = get_h k h.
Proof.
  intros k k' v h Hne. unfold ensure. destruct (get_h k' h); [reflexivity|].
  unfold get_h. now rewrite lookup_set_kv_other'.
Qed.

Lemma set_kv_safe_but : forall k k' v h,
  (bytes_eqb k' k = true \/ forallb hdr_safe_byte v = true) ->
  values_safe_but k h -> values_safe_but k (set_kv k' v h).
Proof.
  intros k k' v h Hv Hh. induction Hh as [|[hk hv] t Hx Ht IH]; cbn [set_kv]; [constructor; [exact Hv|constructor]|].
  cbn [fst]. destruct (bytes_eqb hk k'); constructor; auto.
Qed.

Lemma ensure_safe_but : forall k k' v h,
  (bytes_eqb k' k = true \/ forallb hdr_safe_byte v = true) ->
  values_safe_but k h -> values_safe_but k (ensure k' v h).
Proof. intros k k' v h Hv Hh. unfold ensure. destruct (get_h k' h); [exact Hh|now apply set_kv_safe_but]. Qed.

Lemma ensure_unique : forall k v h, keys_unique h -> keys_unique (ensure k v h).
Proof. intros k v h Hu. unfold ensure. destruct (get_h k h); [exact Hu|now apply set_kv_unique]. Qed.

Lemma safe_app : forall a b, forallb hdr_safe_byte a = true -> forallb hdr_safe_byte b = true ->
  forallb hdr_safe_byte (a ++ b) = true.
Proof. intros a b Ha Hb. now rewrite forallb_app, Ha, Hb. Qed.

(* with unique keys, the entry stored under k is the one lookup finds *)
Lemma unique_lookup : forall k v h, keys_unique h -> In (k, v) h -> lookup k h = Some v.
Proof.
  intros k v h Hu Hin. unfold lookup. induction h as [|[hk hv] t IH]; [destruct Hin|].
  cbn [find fst]. unfold keys_unique in Hu. cbn [map fst] in Hu. inversion Hu as [|? ? Hnot Hu']; subst.
  destruct Hin as [Heq|Hin].
  - inversion Heq; subst. now rewrite beq_refl.
  - destruct (bytes_eqb hk k) eqn:E.
    + apply beq_eq in E. subst. exfalso. apply Hnot. apply in_map_iff. exists (k, v). split; [reflexivity|exact Hin].
    + now apply IH.
Qed.

Lemma get_h_safe_but : forall k k' h v, bytes_eqb k' k = false -> keys_unique h ->
  values_safe_but k h -> get_h k' h = Some v -> forallb hdr_safe_byte v = true.
Proof.
  intros k k' h v Hne Hu Hh H. unfold get_h, lookup in H.
  destruct (find (fun kv => bytes_eqb (fst kv) k') h) as [kv|] eqn:F; [|discriminate].
  apply find_some in F. destruct F as [Hin Hk].
  unfold values_safe_but in Hh. rewrite Forall_forall in Hh. specialize (Hh _ Hin).
  destruct kv as [ka va]. cbn [fst snd] in *. apply beq_eq in Hk. subst ka. destruct Hh as [Hx|Hx].
  - rewrite Hx in Hne. discriminate.
  - destruct va as [|x l]; [discriminate|]. inversion H; subst. exact Hx.
Qed.

(* every value of the synthesised file headers is printable ASCII — file name, description and
   content-id may be arbitrary byte strings *)
Theorem file_headers_safe : forall w a f,
  (w = 113 \/ w = 98) ->
  forallb hdr_safe_byte (f_mime f) = true ->
  (match f_enc f with Some e => forallb hdr_safe_byte (enc_name e) = true | None => True end) ->
  wf_bytes (f_name f) = true -> wf_bytes (f_desc f) = true ->
  keys_unique (f_hdr f) -> values_safe_but h_cid (f_hdr f) ->
  (forall v, get_h h_cid (f_hdr f) = Some v -> wf_bytes v = true) ->
  values_safe (fst (file_hdrs w a f)).
Proof.
  intros w a f Hw Hmime Henc Hname Hdesc Hu Hh Hcidwf. unfold file_hdrs. cbn [fst].
  assert (Hsn : wf_bytes (sanitize (f_name f)) = true).
  { clear -Hname. unfold wf_bytes, sanitize in *.
    induction (f_name f) as [|b t IH]; cbn [map forallb] in *; [reflexivity|].
    apply andb_true_iff in Hname. destruct Hname as [Hb Ht]. rewrite (IH Ht), andb_true_r.
    destruct (Gen.sanitize_bad b); [reflexivity|exact Hb]. }
  assert (Hen : forallb hdr_safe_byte (word_encode w (sanitize (f_name f))) = true)
    by (apply word_encode_safe; assumption).
  set (V1 := f_mime f ++ _).
  set (h1 := ensure h_ctype V1 (f_hdr f)).
  assert (H1 : values_safe_but h_cid h1 /\ keys_unique h1).
  { split; [|now apply ensure_unique]. apply ensure_safe_but; [right|exact Hh].
    unfold V1. repeat apply safe_app; try reflexivity; assumption. }
  destruct H1 as [H1 U1].
  set (e := file_enc f h1).
  assert (He : forallb hdr_safe_byte (enc_name e) = true).
  { unfold e, file_enc. destruct (get_h h_cte h1) as [v|] eqn:E.
    - pose proof (get_h_safe_but h_cid h_cte h1 v eq_refl U1 H1 E) as Hv. unfold enc_of_name.
      repeat match goal with |- context [if ?c then _ else _] => destruct c end; try reflexivity. exact Hv.
    - destruct (f_enc f); [exact Henc|reflexivity]. }
  set (h2 := ensure h_cte (enc_name e) h1).
  assert (H2 : values_safe_but h_cid h2 /\ keys_unique h2).
  { split; [apply ensure_safe_but; [right; exact He|exact H1]|now apply ensure_unique]. }
  destruct H2 as [H2 U2].
  set (h3 := match f_desc f with [] => h2 | d => ensure h_cdesc (word_encode w d) h2 end).
  assert (H3 : values_safe_but h_cid h3 /\ keys_unique h3).
  { unfold h3. destruct (f_desc f) as [|d0 dr] eqn:Ed; [auto|].
    split; [apply ensure_safe_but; [right; apply word_encode_safe; assumption|exact H2]|now apply ensure_unique]. }
  destruct H3 as [H3 U3].
  set (V4 := (if a then _ else _) ++ _).
  set (h4 := ensure h_cdisp V4 h3).
  assert (H4 : values_safe_but h_cid h4 /\ keys_unique h4).
  { split; [|now apply ensure_unique]. apply ensure_safe_but; [right|exact H3].
    unfold V4. destruct a; repeat apply safe_app; try reflexivity; assumption. }
  destruct H4 as [H4 U4].
  set (V5 := bs "<" ++ sanitize (f_name f) ++ bs ">").
  set (h5 := if a then h4 else ensure h_cid V5 h4).
  assert (H5 : values_safe_but h_cid h5 /\ keys_unique h5).
  { unfold h5. destruct a; [auto|]. split; [apply ensure_safe_but; [left; reflexivity|exact H4]|now apply ensure_unique]. }
  destruct H5 as [H5 U5].
  assert (Hcid5 : forall v, get_h h_cid h5 = Some v -> wf_bytes v = true).
  { intros v Hv.
    assert (Hcid4 : get_h h_cid h4 = get_h h_cid (f_hdr f)).
    { unfold h4. rewrite ensure_get_other' by reflexivity.
      unfold h3. destruct (f_desc f); [|rewrite ensure_get_other' by reflexivity];
      unfold h2; rewrite ensure_get_other' by reflexivity;
      unfold h1; now rewrite ensure_get_other' by reflexivity. }
    unfold h5 in Hv. destruct a; [rewrite Hcid4 in Hv; now apply Hcidwf|].
    unfold ensure in Hv. destruct (get_h h_cid h4) as [u|] eqn:E4.
    - rewrite E4 in Hv. inversion Hv; subst. rewrite Hcid4 in E4. now apply Hcidwf.
    - rewrite get_h_set_kv_same' in Hv by (unfold V5; cbn; discriminate). inversion Hv; subst.
      unfold V5. unfold wf_bytes in *. rewrite !forallb_app, Hsn. reflexivity. }
  (* the final re-encoding of the Content-ID makes the exempted entry safe as well *)
  unfold reencode. destruct (get_h h_cid h5) as [v5|] eqn:E5.
  - assert (Hsafe5 : forallb hdr_safe_byte (word_encode w v5) = true)
      by (apply word_encode_safe; [exact Hw|now apply Hcid5]).
    pose proof (set_kv_safe_but h_cid h_cid (word_encode w v5) h5 (or_intror Hsafe5) H5) as Hb.
    pose proof (set_kv_unique h_cid (word_encode w v5) h5 U5) as Ub.
    unfold values_safe. rewrite Forall_forall. intros [k v] Hin.
    unfold values_safe_but in Hb. rewrite Forall_forall in Hb. destruct (Hb _ Hin) as [Hk|Hs]; [|exact Hs].
    cbn [fst snd] in *. apply beq_eq in Hk. subst k.
    pose proof (unique_lookup _ _ _ Ub Hin) as Hl. rewrite lookup_set_kv_same' in Hl. inversion Hl; subst. exact Hsafe5.
  - (* no Content-ID at all: nothing is exempt *)
    unfold values_safe. rewrite Forall_forall. intros [k v] Hin.
    unfold values_safe_but in H5. rewrite Forall_forall in H5. destruct (H5 _ Hin) as [Hk|Hs]; [|exact Hs].
    cbn [fst snd] in *. apply beq_eq in Hk. subst k.
    pose proof (unique_lookup _ _ _ U5 Hin) as Hl. unfold get_h in E5. rewrite Hl in E5.
    destruct v; [reflexivity|discriminate].
Qed.

(* ---- a whole header section as a strict parser sees it ----
   state 0: inside a field line, 1: after CR, 2: after CR LF (a field may continue with a blank,
   a new field may start with any other printable byte, a further CR would be the empty line that
   ends the headers) *)
Fixpoint sect_ok (state : nat) (s : bytes) : bool :=
  match s with
  | [] => Nat.eqb state 2
  | b :: t =>
      match state with
      | O => if b =? 13 then sect_ok 1 t else hdr_safe_byte b && sect_ok 0 t
      | S O => (b =? 10) && sect_ok 2 t
      | _ => hdr_safe_byte b && sect_ok 0 t
      end
  end.

Lemma sect_ok_line : forall l rest,
  forallb hdr_safe_byte l = true -> l <> [] ->
  sect_ok 2 (l ++ crlf ++ rest) = sect_ok 2 rest.
Proof.
  intros l rest Hl Hne. destruct l as [|b l]; [congruence|]. cbn [app sect_ok].
  cbn [forallb] in Hl. apply andb_true_iff in Hl. destruct Hl as [Hb Hl]. rewrite Hb. cbn [andb].
  clear Hne Hb. revert Hl. induction l as [|c l IH]; intros Hl; cbn [app sect_ok].
  - reflexivity.
  - cbn [forallb] in Hl. apply andb_true_iff in Hl. destruct Hl as [Hc Hl].
    destruct (N.eqb_spec c 13) as [E|E]; [subst; discriminate|]. rewrite Hc. cbn [andb]. now apply IH.
Qed.

Definition hdr_list_safe (hdrs : list (bytes * list bytes)) : Prop :=
  Forall (fun kv => forallb hdr_safe_byte (fst kv) = true /\ fst kv <> [] /\
                    Forall (fun v => forallb hdr_safe_byte v = true) (snd kv)) hdrs.

(* what multipart.CreatePart writes for safe header values: well-formed field lines only — no
   value can add a field or end the section *)
Theorem part_header_lines_ok_sorted : forall hdrs,
  hdr_list_safe hdrs -> sect_ok 2 (flat_map (fun kv => flat_map (fun v => fst kv ++ bs ": " ++ v ++ crlf) (snd kv)) hdrs) = true.
Proof.
  intros hdrs H. induction H as [|[k vs] t (Hk & Hne & Hvs) Ht IH]; cbn [flat_map]; [reflexivity|].
  cbn [fst snd] in *. induction Hvs as [|v r Hv Hr IHv]; cbn [flat_map app]; [exact IH|].
  rewrite <- !app_assoc.
  replace (k ++ bs ": " ++ v ++ crlf ++ flat_map (fun v0 => k ++ bs ": " ++ v0 ++ crlf) r ++
           flat_map (fun kv => flat_map (fun v0 => fst kv ++ bs ": " ++ v0 ++ crlf) (snd kv)) t)
     with ((k ++ bs ": " ++ v) ++ crlf ++ (flat_map (fun v0 => k ++ bs ": " ++ v0 ++ crlf) r ++
           flat_map (fun kv => flat_map (fun v0 => fst kv ++ bs ": " ++ v0 ++ crlf) (snd kv)) t))
     by (now rewrite <- !app_assoc).
  rewrite sect_ok_line; [exact IHv| |destruct k; [congruence|discriminate]].
  rewrite !forallb_app, Hk, Hv. reflexivity.
Qed.

Lemma insert_kv_safe : forall kv l, hdr_list_safe [kv] -> hdr_list_safe l -> hdr_list_safe (insert_kv kv l).
Proof.
  intros kv l Hkv Hl. inversion Hkv as [|? ? Hx _]; subst.
  induction Hl as [|h t Hh Ht IH]; cbn [insert_kv]; [constructor; [exact Hx|constructor]|].
  unfold hdr_list_safe. destruct (bytes_leb _ _); [constructor; [exact Hx|constructor; [exact Hh|exact Ht]]|constructor; [exact Hh|exact IH]].
Qed.

Lemma sort_kv_safe : forall l, hdr_list_safe l -> hdr_list_safe (sort_kv l).
Proof.
  intros l H. unfold sort_kv. induction H as [|h t Hh Ht IH]; cbn [fold_right]; [constructor|].
  apply insert_kv_safe; [constructor; [exact Hh|constructor]|exact IH].
Qed.

Theorem part_header_lines_ok : forall hdrs,
  hdr_list_safe hdrs -> sect_ok 2 (part_header_lines hdrs) = true.
Proof. intros hdrs H. unfold part_header_lines. apply part_header_lines_ok_sorted. now apply sort_kv_safe. Qed.
