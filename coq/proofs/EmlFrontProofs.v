(* Lemmas about the stdlib front end (EmlFront.v) on what the writer produces. *)
From Coq Require Import String.
From Verif Require Import Bytes Base64 QP MimeTree MimeRead Eml EmlFront.
From VerifGen Require Import Gen.
From Coq Require Import Lia.

(* ---------- mime.ParseMediaType on "multipart/<sub>; boundary=<token>" ---------- *)
Lemma take_token_all : forall b, forallb token_char b = true -> take_token b = (b, []).
Proof.
  induction b as [|x t IH]; intros H; [reflexivity|].
  cbn [forallb] in H. apply andb_true_iff in H. destruct H as [Hx Ht].
  cbn [take_token]. rewrite Hx, (IH Ht). reflexivity.
Qed.

Lemma token_not_quote : forall x, token_char x = true -> N.eqb x 34 = false.
Proof.
  intros x H. destruct (N.eqb_spec x 34) as [->|]; [discriminate|reflexivity].
Qed.

Lemma media_params_boundary : forall b fuel, is_token b = true ->
  media_params (S (S fuel)) (bs "; boundary=" ++ b) [] = Some [(bs "boundary", b)].
Proof.
  intros b fuel H. unfold is_token in H. apply andb_true_iff in H. destruct H as [Hne Hb].
  destruct b as [|x t]; [discriminate|].
  pose proof Hb as Hb'. cbn [forallb] in Hb'. apply andb_true_iff in Hb'. destruct Hb' as [Hx Ht].
  cbn. rewrite (token_not_quote x Hx). cbn. rewrite Hx. rewrite (take_token_all t Ht). reflexivity.
Qed.

Definition mp_sub (mime : bytes) : Prop :=
  mime = mime_mixed \/ mime = mime_related \/ mime = mime_alternative.

Lemma media_type_mp : forall mime b, mp_sub mime -> is_token b = true ->
  media_type (bs "multipart/" ++ mime ++ bs "; boundary=" ++ b) = MTOk (bs "multipart/" ++ mime) None true.
Proof.
  intros mime b Hm Hb. unfold media_type.
  assert (Hc : cut_semi (bs "multipart/" ++ mime ++ bs "; boundary=" ++ b) = (bs "multipart/" ++ mime, bs "; boundary=" ++ b))
    by (destruct Hm as [ -> | [ -> | -> ] ]; reflexivity).
  rewrite Hc.
  assert (Hl : length (bs "; boundary=" ++ b) = S (S (length b + 9))) by (cbn; rewrite ?app_length; cbn; lia).
  rewrite Hl, (media_params_boundary b _ Hb).
  destruct Hm as [ -> | [ -> | -> ] ]; reflexivity.
Qed.

(* … and on the Content-Type of a single text part *)
Lemma media_type_text : forall ct, ct = type_text_plain \/ ct = type_text_html ->
  media_type (ct ++ bs "; charset=" ++ charset_utf8) = MTOk ct (Some charset_utf8) false.
Proof. intros ct [ -> | -> ]; reflexivity. Qed.

Lemma is_token_no_semi : forall b, is_token b = true -> existsb (N.eqb 59) b = false.
Proof.
  intros b H. unfold is_token in H. apply andb_true_iff in H. destruct H as [_ H].
  apply not_true_iff_false. intros E. apply existsb_exists in E. destruct E as [x [Hx E]].
  rewrite forallb_forall in H. specialize (H x Hx). apply N.eqb_eq in E. subst x. discriminate.
Qed.

Lemma hvals_app : forall a b k, hvals (a ++ b) k = hvals a k ++ hvals b k.
Proof.
  induction a as [|[k' v] a IH]; intros b k; cbn [app hvals]; [reflexivity|].
  destruct (bytes_eqb k' k); cbn [app]; now rewrite IH.
Qed.

Lemma hget_app_absent : forall a b k, hvals a (canon k) = [] -> hget (a ++ b) k = hget b k.
Proof. intros a b k H. unfold hget. now rewrite hvals_app, H. Qed.

Lemma hget_app_present : forall a b k, hvals a (canon k) <> [] -> hget (a ++ b) k = hget a k.
Proof.
  intros a b k H. unfold hget. rewrite hvals_app. destruct (hvals a (canon k)); [congruence|reflexivity].
Qed.

(* [b] has none of the keys [ks] *)
Definition lacks (b : hdr) (ks : list bytes) : bool :=
  forallb (fun k => match hvals b (canon k) with [] => true | _ => false end) ks.

Lemma lacks_hget : forall a b ks k, lacks b ks = true -> In k ks -> hget (a ++ b) k = hget a k.
Proof.
  intros a b ks k H Hk. unfold lacks in H. rewrite forallb_forall in H. specialize (H k Hk).
  unfold hget. rewrite hvals_app. destruct (hvals b (canon k)); [|discriminate]. now rewrite app_nil_r.
Qed.

Lemma copy_common_app : forall legacy keys a b st,
  lacks b keys = true -> copy_common legacy keys (a ++ b) st = copy_common legacy keys a st.
Proof.
  intros legacy keys a b. induction keys as [|k rest IH]; intros st H; [reflexivity|].
  assert (Hk : hget (a ++ b) k = hget a k) by (apply (lacks_hget a b (k :: rest)); [assumption|now left]).
  assert (Hr : lacks b rest = true).
  { unfold lacks in *. cbn [forallb] in H. apply andb_true_iff in H. tauto. }
  cbn [copy_common]. rewrite Hk.
  destruct (is_empty (hget a k)); [now apply IH|].
  destruct (legacy && eqfold k hdr_content_type && is_prefix type_multipart_mixed (hget a k))%bool; now apply IH.
Qed.
