(* C10, second half: the header section of the re-render, as the strict RFC 5322 scanner
   (HeaderScan.field_names, render agent) sees it, names no field twice. *)
From Coq Require Import String.
From Verif Require Import Bytes Base64 LineBreaker QP HeaderFold WordEnc Writer MimeTree MimeRead Render HeaderScan.
From Verif Require Import Eml EmlRender EmlFront EmlRoundtrip EmlRerender.
From VerifGen Require Import Gen.
From VerifProofs Require Import CodecProofs WordEncProofs HeaderSafeProofs HeaderFoldProofs WriterProofs RenderProofs MimeReadProofs C01Proofs HeaderBlockProofs.
From VerifProofs Require Import EmlProofs EmlRenderProofs EmlFrontProofs EmlHeaderProofs EmlRoundtripProofs EmlRoundtripMain EmlStructureProofs EmlRerenderProofs.
From Coq Require Import Lia.

Lemma safe_of_good : forall v, good_value v = true -> HeaderBlockProofs.safe v.
Proof. intros v H. exact (good_value_safe v H). Qed.

Lemma safe_name : forall n, name_ok n = true -> HeaderBlockProofs.safe n.
Proof.
  intros n H. destruct (name_bytes n H) as (_ & _ & Hb). unfold HeaderBlockProofs.safe.
  apply forallb_forall. intros b Hin. rewrite forallb_forall in Hb. specialize (Hb b Hin).
  unfold hdr_safe_byte. now rewrite Hb.
Qed.

Lemma safe_app2 : forall a b, HeaderBlockProofs.safe a -> HeaderBlockProofs.safe b -> HeaderBlockProofs.safe (a ++ b).
Proof. intros a b Ha Hb. unfold HeaderBlockProofs.safe in *. now rewrite forallb_app, Ha, Hb. Qed.

Lemma token_safe : forall b, is_token b = true -> HeaderBlockProofs.safe b.
Proof.
  intros b H. unfold is_token in H. apply andb_true_iff in H. destruct H as [_ H].
  unfold HeaderBlockProofs.safe. apply forallb_forall. intros x Hin. rewrite forallb_forall in H. specialize (H x Hin).
  unfold token_char in H. apply andb_true_iff in H. destruct H as [H _]. apply andb_true_iff in H. destruct H as [H1 H2].
  unfold hdr_safe_byte. apply N.leb_le in H1, H2. apply orb_true_iff. left. apply andb_true_iff. split; apply N.leb_le; lia.
Qed.

Lemma mime_safe : forall t, mime_ok t = true -> HeaderBlockProofs.safe t.
Proof.
  intros t H. unfold mime_ok in H.
  apply andb_true_iff in H. destruct H as [H _]. apply andb_true_iff in H. destruct H as [H _].
  apply andb_true_iff in H. destruct H as [H _]. unfold good_word in H. apply andb_true_iff in H. destruct H as [_ H].
  unfold HeaderBlockProofs.safe. apply forallb_forall. intros x Hin. rewrite forallb_forall in H. specialize (H x Hin).
  unfold word_byte in H. apply andb_true_iff in H. destruct H as [H1 H2]. apply N.leb_le in H1, H2.
  unfold hdr_safe_byte. apply orb_true_iff. left. apply andb_true_iff. split; apply N.leb_le; lia.
Qed.

(* the header cache of a file of the reparsed message after addFiles *)
Lemma file2_hdr_list : forall mime_of w is_att f, EmlRoundtrip.file_ok f = true -> f_mime f = mime_of (f_name f) ->
  f_hdr (fst (file_headers w is_att (file2 mime_of is_att f))) =
    (if is_att then [] else [(h_cid, bs "<" ++ f_name f ++ bs ">")]) ++
    [(h_ctype, f_mime f ++ bs "; name=" ++ bs """" ++ f_name f ++ bs """"); (h_cte, enc_b64);
     (h_cdisp, render_cd (if is_att then lit_attachment else lit_inline) (f_name f))].
Proof.
  intros mime_of w is_att f Hf Hmime.
  destruct (file_ok_facts f Hf) as (Hn & _ & _).
  destruct (name_ok_facts (f_name f) Hn) as (Hs & Hne & _ & _).
  assert (Hw : word_encode w (Writer.sanitize (f_name f)) = f_name f) by (rewrite Hs; unfold word_encode; now rewrite Hne).
  assert (Hc : word_encode w (bs "<" ++ f_name f ++ bs ">") = bs "<" ++ f_name f ++ bs ">").
  { unfold word_encode. rewrite !needs_encoding_app, Hne. reflexivity. }
  change (bs "<" ++ f_name f ++ bs ">") with (60%N :: f_name f ++ [62%N]) in Hc.
  unfold file_headers, file_hdrs, file2. cbn [f_name f_mime f_enc f_desc f_hdr f_prod with_hdr fst snd].
  rewrite Hw, Hs, <- Hmime. destruct is_att; cbn -[word_encode]; rewrite ?Hc; reflexivity.
Qed.

Lemma file2_kv_ok : forall mime_of w is_att f, EmlRoundtrip.file_ok f = true -> f_mime f = mime_of (f_name f) ->
  HeaderBlockProofs.file_ok (file_headers w is_att (file2 mime_of is_att f)).
Proof.
  intros mime_of w is_att f Hf Hmime. unfold HeaderBlockProofs.file_ok, file_kvs.
  rewrite (file2_hdr_list mime_of w is_att f Hf Hmime).
  destruct (file_ok_facts f Hf) as (Hn & Hm & _).
  pose proof (safe_name _ Hn) as Sn. pose proof (mime_safe _ Hm) as Sm.
  assert (S1 : HeaderBlockProofs.safe (f_mime f ++ bs "; name=" ++ bs """" ++ f_name f ++ bs """"))
    by (repeat apply safe_app2; try assumption; reflexivity).
  assert (S2 : forall disp, HeaderBlockProofs.safe disp -> HeaderBlockProofs.safe (render_cd disp (f_name f)))
    by (intros disp Sd; unfold render_cd; repeat apply safe_app2; try assumption; reflexivity).
  assert (S3 : HeaderBlockProofs.safe (bs "<" ++ f_name f ++ bs ">")) by (repeat apply safe_app2; try assumption; reflexivity).
  destruct is_att; cbn [app map fst snd]; repeat constructor; cbn [fst snd]; try reflexivity; try assumption;
    apply S2; reflexivity.
Qed.

Section Fields.
Context (mime_of : bytes -> bytes).

Theorem rerender_field_names : forall d i m d2 i2 rb2,
  let m2 := reparsed mime_of d i m in
  let z2 := resolve d2 i2 rb2 m2 in
  in_feature_set m = true -> good_value d = true -> good_value i = true ->
  (forall f, In f (m_embeds m ++ m_attach m) -> f_mime f = mime_of (f_name f)) ->
  boundaries_ok z2 = true ->
  exists ns, field_names (r_out (write_to d2 i2 rb2 m2 unlimited)) = Some ns /\ NoDup ns.
Proof.
  intros d i m d2 i2 rb2 m2 z2 Hfs Hd Hi Hmime Hb.
  destruct (feature_facts m Hfs) as (Hcs & (sv & Hgen & Hsv) & Hpre & (F & Hfrom & HF) &
    (tos & ccs & Haddr & Htne & Htos & Hccs) & Hpne & Hpo & Hem & Hat & _).
  destruct (write_to_pure d2 i2 rb2 m2 (reparsed_no_bad_boundary mime_of d i m d2 i2 rb2) (reparsed_no_failing mime_of d i m)) as (Eo & _).
  rewrite Eo. fold z2.
  destruct (reparsed_proj mime_of d i m d2 i2 rb2) as (Ypa & Ye & Yat & Ycs & Yw). fold m2 z2 in Ypa, Ye, Yat, Ycs, Yw.
  destruct (resolve_proj d2 i2 rb2 m2 eq_refl eq_refl eq_refl) as (Yg & Yp & Yf & Ya & _ & _ & _ & _ & Ybm & Ybr & Yba).
  fold z2 in Yg, Yp, Yf, Ya, Ybm, Ybr, Yba.
  destruct (resolve_lengths d2 i2 rb2 m2) as (M1 & M2 & _). fold z2 in M1, M2.
  assert (Hn : 1 <= length (Writer.m_parts (z_msg z2))).
  { rewrite Ypa, map_length. destruct (Writer.m_parts m); [congruence|cbn; lia]. }
  destruct (forest_expected z2 Hn M1 M2) as (Efo & t & Et).
  (* the generic headers and the addresses of the reparsed message *)
  assert (Eg : Writer.m_gen (z_msg z2) =
    [(hdr_date, [d]); (hdr_message_id, [i]); (hdr_mime_version, [bs "1.0"]); (hdr_subject, [sv]);
     (hdr_user_agent, [user_agent]); (hdr_x_mailer, [user_agent])]).
  { rewrite Yg. unfold add_defaults, m2, reparsed, gen_value. cbn [Writer.m_gen]. rewrite Hgen. reflexivity. }
  assert (Ea : m_addr (z_msg z2) = (hdr_to, tos) :: match ccs with [] => [] | _ => [(hdr_cc, ccs)] end).
  { rewrite Ya. unfold m2, reparsed, addr_list. cbn [m_addr]. rewrite Haddr.
    destruct tos; [congruence|]. destruct ccs; reflexivity. }
  assert (Ef : m_from (z_msg z2) = Some F) by (rewrite Yf; unfold m2, reparsed; cbn [m_from]; exact Hfrom).
  pose proof (forallb_join_parts hdr_safe_byte (bs ", ") tos (good_value_safe _ Htos)) as Stos.
  assert (Hs : hdrs_safe (z_msg z2)).
  { unfold hdrs_safe. rewrite Eg, Ea, Ef. repeat split.
    - repeat constructor; cbn [fst snd]; try reflexivity; try (now apply safe_of_good); try (apply safe_of_good; apply ua_good).
    - intros f E. inversion E; subst. now apply safe_of_good.
    - constructor; [exact Stos|]. destruct ccs as [|c0 cr]; [constructor|].
      constructor; [|constructor]. cbn [snd].
      exact (forallb_join_parts hdr_safe_byte (bs ", ") (c0 :: cr) (good_value_safe _ (Hccs ltac:(discriminate)))). }
  assert (Hpf : m_preform (z_msg z2) = []) by (rewrite Yp; reflexivity).
  (* which layers exist *)
  assert (Hn2 : 1 <= length (Writer.m_parts m2)) by (unfold m2, reparsed; cbn [Writer.m_parts]; rewrite map_length; rewrite Ypa, map_length in Hn; exact Hn).
  destruct (nesting_decisions m2 Hn2) as (Nm & Nr & Na).
  unfold boundaries_ok in Hb. rewrite Ypa, Ye, Yat, !map_length in Hb.
  apply andb_true_iff in Hb. destruct Hb as [Hb Btm]. apply andb_true_iff in Hb. destruct Hb as [Bta Btr].
  assert (Lp : length (Writer.m_parts m2) = length (Writer.m_parts m)) by (unfold m2, reparsed; cbn [Writer.m_parts]; apply map_length).
  assert (Le : length (m_embeds m2) = length (m_embeds m)) by (unfold m2, reparsed; cbn [m_embeds]; apply map_length).
  assert (La : length (m_attach m2) = length (m_attach m)) by (unfold m2, reparsed; cbn [m_attach]; apply map_length).
  assert (Sbm : HeaderBlockProofs.safe (m_bmixed (z_msg z2))).
  { destruct (has_mixed m2) eqn:E; [|rewrite Ybm; reflexivity].
    apply token_safe. pose proof (proj1 Nm eq_refl) as E'. rewrite La in E'. apply Nat.leb_le in E'. rewrite E' in Btm. exact Btm. }
  assert (Sbr : HeaderBlockProofs.safe (m_brelated (z_msg z2))).
  { destruct (has_related m2) eqn:E; [|rewrite Ybr; reflexivity].
    apply token_safe. pose proof (proj1 Nr eq_refl) as E'. rewrite Le in E'. apply Nat.leb_le in E'. rewrite E' in Btr. exact Btr. }
  assert (Sba : HeaderBlockProofs.safe (m_balt (z_msg z2))).
  { destruct (has_alt m2) eqn:E; [|rewrite Yba; reflexivity].
    apply token_safe. pose proof (proj1 Na eq_refl) as E'. rewrite Lp in E'. apply Nat.leb_le in E'. rewrite E' in Bta. exact Bta. }
  assert (He : entity_safe z2).
  { unfold entity_safe. cbv zeta. repeat split; try assumption.
    - rewrite Ypa, Ycs. apply Forall_forall. intros p2 Hin. apply in_map_iff in Hin. destruct Hin as (p & <- & Hin).
      rewrite forallb_forall in Hpo. specialize (Hpo p Hin).
      destruct (part_ok_facts (mkmsg charset_utf8 0%N [] [] None [] [] [] [] [] [] []) p eq_refl Hpo) as (Hct & _ & _ & _ & Henc).
      cbn [part2 Writer.p_enc]. unfold part_ctype, part_cs. cbn [p_charset Writer.p_ctype part2].
      split; [destruct (Writer.p_enc p); try contradiction; reflexivity|destruct Hct as [ -> | -> ]; reflexivity].
    - rewrite Ye. apply Forall_forall. intros fe Hin. apply in_map_iff in Hin. destruct Hin as (f2 & <- & Hin).
      apply in_map_iff in Hin. destruct Hin as (f & <- & Hin). rewrite forallb_forall in Hem.
      apply file2_kv_ok; [now apply Hem|]. apply Hmime. apply in_or_app. now left.
    - rewrite Yat. apply Forall_forall. intros fe Hin. apply in_map_iff in Hin. destruct Hin as (f2 & <- & Hin).
      apply in_map_iff in Hin. destruct Hin as (f & <- & Hin). rewrite forallb_forall in Hat.
      apply file2_kv_ok; [now apply Hat|]. apply Hmime. apply in_or_app. now right. }
  assert (Hfo : forest_of z2 = [t]) by (rewrite Efo; exact Et).
  rewrite (message_header_fields z2 t Hs Hpf He Hfo). eexists. split; [reflexivity|].
  (* the names *)
  assert (Tn : top_names (z_msg z2) = [hdr_date; hdr_mime_version; hdr_message_id; hdr_subject; hdr_user_agent; hdr_x_mailer; hdr_from; hdr_to]
                 ++ match ccs with [] => [] | _ => [hdr_cc] end).
  { unfold top_names, addr_names. rewrite Eg, Ef, Ea. destruct tos; [congruence|]. destruct ccs; reflexivity. }
  rewrite Tn.
  assert (En : entity_names z2 = [bs "Content-Type"] \/ entity_names z2 = [h_cte; h_ctype]).
  { unfold entity_names. cbv zeta.
    assert (Hm2 : z_msg z2 = z_msg z2) by reflexivity.
    assert (Hx : has_mixed (z_msg z2) = has_mixed m2 /\ has_related (z_msg z2) = has_related m2 /\ has_alt (z_msg z2) = has_alt m2).
    { unfold has_mixed, has_related, has_alt. rewrite Ypa, M1, M2, Ye, Yat, !map_length.
      unfold m2, reparsed. cbn [Writer.m_parts m_embeds m_attach]. now rewrite !map_length. }
    destruct Hx as (X1 & X2 & X3). rewrite X1, X2, X3.
    destruct (has_mixed m2) eqn:E1; [now left|]. destruct (has_related m2) eqn:E2; [now left|].
    destruct (has_alt m2) eqn:E3; [now left|]. cbn [orb]. right.
    assert (A0 : length (m_attach m) = 0) by (destruct (length (m_attach m)) eqn:L; [reflexivity|]; exfalso; assert (false = true) by (apply (proj2 Nm); lia); discriminate).
    assert (E0 : length (m_embeds m) = 0) by (destruct (length (m_embeds m)) eqn:L; [reflexivity|]; exfalso; assert (false = true) by (apply (proj2 Nr); lia); discriminate).
    assert (P1 : length (Writer.m_parts m) = 1).
    { destruct (length (Writer.m_parts m)) as [|[|k]] eqn:L; [lia|reflexivity|]. exfalso. assert (false = true) by (apply (proj2 Na); lia). discriminate. }
    rewrite Ypa, Ye, Yat.
    destruct (Writer.m_parts m) as [|p [|]]; try discriminate. destruct (m_embeds m); [|discriminate]. destruct (m_attach m); [|discriminate].
    reflexivity. }
  destruct En as [ -> | -> ]; destruct ccs;
    repeat constructor; cbn; intros Hx; repeat (destruct Hx as [Hx|Hx]; [discriminate|]); exact Hx.
Qed.
End Fields.
