(* Proofs about the quoted-printable writer model: line discipline of every output. *)
From Verif Require Import Bytes QP.
From Coq Require Import Lia ZifyBool ZifyNat ZifyN.
Open Scope nat_scope.

(* chk_lines over concatenation with complete lines *)
Lemma chk_lines_plain : forall max l col rest,
  forallb no_crlf_byte l = true -> col + length l <= max ->
  chk_lines max col false (l ++ rest) = chk_lines max (col + length l) false rest.
Proof.
  induction l as [|b l IH]; intros col rest Hl Hc; cbn [app length].
  - now rewrite Nat.add_0_r.
  - cbn [forallb] in Hl. apply andb_true_iff in Hl. destruct Hl as [Hb Hl].
    unfold no_crlf_byte in Hb. apply andb_true_iff in Hb. destruct Hb as [H1 H2].
    apply negb_true_iff in H1, H2. cbn [chk_lines]. rewrite H1, H2.
    cbn [length] in Hc.
    replace (Nat.leb (S col) max) with true by (symmetry; apply Nat.leb_le; lia).
    cbn [andb]. rewrite IH by (assumption || lia).
    replace (col + S (length l)) with (S col + length l) by lia. reflexivity.
Qed.

Lemma chk_lines_line : forall max l rest,
  forallb no_crlf_byte l = true -> length l <= max ->
  chk_lines max 0 false (l ++ crlf ++ rest) = chk_lines max 0 false rest.
Proof.
  intros max l rest Hl Hc. rewrite chk_lines_plain by (assumption || lia).
  cbn. reflexivity.
Qed.

Lemma chk_lines_app_line : forall max out cr col l,
  chk_lines max col cr out = true -> forallb no_crlf_byte l = true -> length l <= max ->
  chk_lines max col cr (out ++ l ++ crlf) = true.
Proof.
  intros max. induction out as [|b out IH]; intros cr col l Ho Hl Hc.
  - cbn [chk_lines] in Ho. apply andb_true_iff in Ho. destruct Ho as [H1 H2].
    apply negb_true_iff in H1. apply Nat.eqb_eq in H2. subst. cbn [app].
    rewrite <- (app_nil_r crlf). rewrite chk_lines_line by assumption. reflexivity.
  - cbn [app chk_lines] in *. destruct cr.
    + apply andb_true_iff in Ho. destruct Ho as [H1 H2]. rewrite H1. cbn [andb]. now apply IH.
    + destruct (N.eqb b 13); [now apply IH|]. destruct (N.eqb b 10); [discriminate|].
      apply andb_true_iff in Ho. destruct Ho as [H1 H2]. rewrite H1. cbn [andb]. now apply IH.
Qed.

Lemma lines_ok_app_line : forall max out l,
  lines_ok max out = true -> forallb no_crlf_byte l = true -> length l <= max ->
  lines_ok max (out ++ l ++ crlf) = true.
Proof. unfold lines_ok. intros. now apply chk_lines_app_line. Qed.

(* the writer's invariant *)
Definition qp_inv (st : qp) : Prop :=
  lines_ok qp_max (qout st) = true /\
  forallb no_crlf_byte (qline st) = true /\
  length (qline st) <= qp_max - 1.

Lemma forallb_app_true : forall (f : N -> bool) a b,
  forallb f a = true -> forallb f b = true -> forallb f (a ++ b) = true.
Proof. intros f a b Ha Hb. rewrite forallb_app, Ha, Hb. reflexivity. Qed.

Lemma qp_inv_init : qp_inv qp_init.
Proof. split; [|split]; cbn; lia. Qed.

Lemma qp_break_inv : forall st extra,
  qp_inv st -> forallb no_crlf_byte extra = true -> length (qline st) + length extra <= qp_max ->
  qp_inv (qp_insert_crlf (mkqp (qline st ++ extra) (qcr st) (qout st))).
Proof.
  intros st extra (Ho & Hl & Hn) He Hlen. unfold qp_insert_crlf, qp_flush, qp_inv. cbn [qline qout qcr].
  split; [|split]; [|reflexivity|unfold qp_max; cbn [length app]; lia].
  rewrite <- !app_assoc. change [13%N; 10%N] with crlf. rewrite (app_assoc (qline st) extra crlf).
  apply lines_ok_app_line; [exact Ho| |rewrite app_length; lia].
  now apply forallb_app_true.
Qed.

Lemma qp_soft_inv : forall st, qp_inv st -> qp_inv (qp_soft st) /\ qline (qp_soft st) = [].
Proof.
  intros st H. split; [|reflexivity]. unfold qp_soft.
  apply (qp_break_inv st [61%N] H); [reflexivity|]. destruct H as (_ & _ & Hn). unfold qp_max in *. cbn [length]. lia.
Qed.

Lemma upperhex_no_crlf : forall n, no_crlf_byte (upperhex n) = true.
Proof.
  intros n. unfold no_crlf_byte, upperhex. destruct (N.ltb_spec n 10);
  apply andb_true_iff; split; apply negb_true_iff; apply N.eqb_neq; lia.
Qed.

Lemma qp_encode_inv : forall st b, qp_inv st -> qp_inv (qp_encode st b).
Proof.
  intros st b H. unfold qp_encode.
  destruct (Nat.ltb_spec (qp_max - 1 - length (qline st)) 3) as [Hlt|Hge].
  - destruct (qp_soft_inv st H) as [(Ho & Hl & Hn) Hnil]. unfold qp_inv. cbn [qline qout qcr].
    rewrite Hnil. split; [|split]; [exact Ho| |unfold qp_max; cbn [length app]; lia].
    cbn [app forallb]. rewrite !upperhex_no_crlf. reflexivity.
  - destruct H as (Ho & Hl & Hn). unfold qp_inv. cbn [qline qout qcr]. split; [|split]; [exact Ho| |].
    + apply forallb_app_true; [exact Hl|]. cbn [forallb]. rewrite !upperhex_no_crlf. reflexivity.
    + rewrite app_length. cbn [length]. unfold qp_max in *. lia.
Qed.

Lemma qp_check_last_inv : forall st, qp_inv st -> qp_inv (qp_check_last st).
Proof.
  intros st H. unfold qp_check_last. destruct (rev (qline st)) as [|b r] eqn:E; [exact H|].
  destruct (is_ws b); [|exact H]. apply qp_encode_inv.
  destruct H as (Ho & Hl & Hn). assert (qline st = rev r ++ [b]) as El.
  { rewrite <- (rev_involutive (qline st)), E. reflexivity. }
  unfold qp_inv. cbn [qline qout qcr]. rewrite El in Hl, Hn.
  rewrite forallb_app in Hl. apply andb_true_iff in Hl. destruct Hl as [Hl _].
  rewrite app_length in Hn. cbn [length] in Hn. split; [|split]; [exact Ho|exact Hl|lia].
Qed.

Lemma qp_insert_crlf_inv : forall st, qp_inv st -> qp_inv (qp_insert_crlf st).
Proof.
  intros st H. pose proof (qp_break_inv st [] H eq_refl) as Hb. rewrite app_nil_r in Hb.
  destruct st as [l c o]. cbn [qline qcr qout] in Hb. apply Hb. destruct H as (_ & _ & Hn).
  unfold qp_max in *. cbn [length qline] in *. lia.
Qed.

Lemma qp_inv_cr : forall st c, qp_inv st -> qp_inv (mkqp (qline st) c (qout st)).
Proof. intros st c H. exact H. Qed.

Lemma qp_write1_inv : forall st b, qp_inv st -> qp_inv (qp_write1 st b).
Proof.
  intros st b H. unfold qp_write1.
  destruct ((b =? 10)%N || (b =? 13)%N) eqn:Enl.
  - destruct (qcr st && (b =? 10)%N); [exact H|].
    apply qp_insert_crlf_inv, qp_check_last_inv. destruct (b =? 13)%N; [exact H|exact H].
  - apply orb_false_iff in Enl. destruct Enl as [E10 E13].
    assert (no_crlf_byte b = true) as Hb by (unfold no_crlf_byte; now rewrite E10, E13).
    destruct (Nat.eqb_spec (length (qline st)) (qp_max - 1)) as [Efull|Enot].
    + destruct (qp_soft_inv st H) as [(Ho & Hl & Hn) Hnil]. unfold qp_inv. cbn [qline qout qcr].
      rewrite Hnil. split; [|split]; [exact Ho| |unfold qp_max; cbn [length app]; lia]. cbn. now rewrite Hb.
    + destruct H as (Ho & Hl & Hn). unfold qp_inv. cbn [qline qout qcr]. split; [|split]; [exact Ho| |].
      * apply forallb_app_true; [exact Hl|]. cbn. now rewrite Hb.
      * rewrite app_length. cbn [length]. lia.
Qed.

Lemma qp_step_inv : forall st b, qp_inv st -> qp_inv (qp_step st b).
Proof. intros st b H. unfold qp_step. destruct (qp_literal b); [now apply qp_write1_inv|now apply qp_encode_inv]. Qed.

Lemma qp_write_inv : forall p st, qp_inv st -> qp_inv (qp_write st p).
Proof. unfold qp_write. induction p as [|b p IH]; intros st H; cbn [fold_left]; [exact H|]. apply IH, qp_step_inv, H. Qed.

Lemma qp_writes_inv : forall chunks st, qp_inv st -> qp_inv (fold_left qp_write chunks st).
Proof. induction chunks as [|c cs IH]; intros st H; cbn [fold_left]; [exact H|]. apply IH, qp_write_inv, H. Qed.

(* A non-empty last line is flushed by Close without a line end: Go's writer leaves the
   final line unterminated, and msgWriter/multipart supply the following CRLF.  The
   statement therefore is about the text followed by the CRLF the caller appends. *)
Theorem qp_run_lines : forall chunks,
  lines_ok qp_max (qp_run chunks ++ crlf) = true.
Proof.
  intros chunks. unfold qp_run, qp_close.
  pose proof (qp_check_last_inv _ (qp_writes_inv chunks qp_init qp_inv_init)) as (Ho & Hl & Hn).
  set (st := qp_check_last (fold_left qp_write chunks qp_init)) in *.
  unfold qp_flush. cbn [qout]. rewrite <- app_assoc.
  apply lines_ok_app_line; [exact Ho|exact Hl|unfold qp_max in *; lia].
Qed.

(* however the producer chunks its writes *)
Theorem qp_chunk_independent : forall chunks, qp_run chunks = qp_body (concat chunks).
Proof.
  intros chunks. unfold qp_body, qp_run. cbn [fold_left]. f_equal. f_equal.
  generalize qp_init. induction chunks as [|c cs IH]; intros st; cbn [fold_left concat]; [reflexivity|].
  rewrite IH. unfold qp_write. now rewrite fold_left_app.
Qed.
